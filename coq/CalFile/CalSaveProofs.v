(* Lemmas about CalFile/CalSaveModel.v against the loader model CalFile/CalFileModel.v:
   load (save_doc v) gives back the container, for all types, dimensions, frequency counts and
   slot vectors (induction; no bounded sweep). *)
Require Import ZArith List Bool String QArith Lia.
Import ListNotations.
Require Import LV.CalFile.CalFileModel LV.CalFile.CalSaveModel.
Open Scope Z_scope.

Ltac bdestr :=
  repeat match goal with
         | |- context [Z.leb ?a ?b] => destruct (Z.leb_spec a b)
         | |- context [Z.ltb ?a ?b] => destruct (Z.ltb_spec a b)
         | |- context [Z.eqb ?a ?b] => destruct (Z.eqb_spec a b)
         end; cbn [andb orb negb]; try lia.

(* ---------------------------------------------------------------- cells *)
Definition nthc (c : cells) (j : Z) : option string := if j <? 0 then None else nth (Z.to_nat j) c None.

Lemma set_nth_length : forall l n v, List.length (set_nth l n v) = List.length l.
Proof. induction l as [|x r IH]; intros [|n] v; simpl; auto. Qed.

Lemma wr_length : forall c i v, List.length (wr c i v) = List.length c.
Proof. intros. unfold wr. destruct (i <? 0); [reflexivity|apply set_nth_length]. Qed.

Lemma nth_set_nth_same : forall l n v, (n < List.length l)%nat -> nth n (set_nth l n v) None = Some v.
Proof. induction l as [|x r IH]; intros [|n] v H; simpl in *; try lia; auto. apply IH. lia. Qed.

Lemma nth_set_nth_other : forall l n m v, n <> m -> nth m (set_nth l n v) None = nth m l None.
Proof.
  induction l as [|x r IH]; intros [|n] [|m] v H; simpl; auto; try congruence.
Qed.

Lemma set_nth_beyond : forall l n v, (List.length l <= n)%nat -> set_nth l n v = l.
Proof. induction l as [|x r IH]; intros [|n] v H; simpl in *; auto; try lia. f_equal. apply IH. lia. Qed.

Lemma nthc_wr_cases : forall c i v j,
  nthc (wr c i v) j = nthc c j \/ (i = j /\ 0 <= i < Z.of_nat (List.length c) /\ nthc (wr c i v) j = Some v).
Proof.
  intros c i v j. unfold nthc, wr.
  destruct (Z.ltb_spec j 0) as [Hj|Hj]; [left; reflexivity|].
  destruct (Z.ltb_spec i 0) as [Hi|Hi]; [left; reflexivity|].
  destruct (Z.eq_dec i j) as [E|E].
  - subst j. destruct (Z.ltb_spec i (Z.of_nat (List.length c))) as [Hl|Hl].
    + right. split; [reflexivity|]. split; [lia|]. apply nth_set_nth_same. lia.
    + left. rewrite set_nth_beyond by lia. reflexivity.
  - left. apply nth_set_nth_other. intro H. apply E. lia.
Qed.

Lemma nthc_wr_same : forall c i v, 0 <= i < Z.of_nat (List.length c) -> nthc (wr c i v) i = Some v.
Proof.
  intros c i v H. unfold nthc, wr.
  destruct (Z.ltb_spec i 0); [lia|]. apply nth_set_nth_same. lia.
Qed.

(* the writes of one vector / matrix: cell k (k0 <= k < k0 + n) goes to dst d k *)
Fixpoint wrs (d : dest) (txt : Z -> string) (k : Z) (n : nat) (c : cells) : cells :=
  match n with
  | O => c
  | S m => wrs d txt (k + 1) m (wr c (dst d k) (txt k))
  end.

Lemma wrs_length : forall d txt n k c, List.length (wrs d txt k n c) = List.length c.
Proof. induction n as [|n IH]; intros k c; simpl; [reflexivity|]. rewrite IH. apply wr_length. Qed.

(* cell j holds the text T j *)
Definition has (T : Z -> string) (c : cells) (j : Z) : Prop := nthc c j = Some (T j).

Lemma wrs_has_old : forall d txt T n k c j,
  has T c j -> (forall i, k <= i < k + Z.of_nat n -> txt i = T (dst d i)) -> has T (wrs d txt k n c) j.
Proof.
  intros d txt T. induction n as [|n IH]; intros k c j Hh Ht; simpl; [exact Hh|].
  apply IH.
  - unfold has in *. destruct (nthc_wr_cases c (dst d k) (txt k) j) as [E|[E [_ E2]]].
    + rewrite E. exact Hh.
    + rewrite E2. rewrite Ht by lia. rewrite E. reflexivity.
  - intros i Hi. apply Ht. lia.
Qed.

Lemma wrs_has_new : forall d txt T n k c i,
  k <= i < k + Z.of_nat n -> (forall i, k <= i < k + Z.of_nat n -> txt i = T (dst d i)) ->
  0 <= dst d i < Z.of_nat (List.length c) -> has T (wrs d txt k n c) (dst d i).
Proof.
  intros d txt T. induction n as [|n IH]; intros k c i Hi Ht Hb; simpl; [lia|].
  destruct (Z.eq_dec i k) as [E|E].
  - subst i. apply wrs_has_old.
    + unfold has. rewrite nthc_wr_same by exact Hb. rewrite Ht by lia. reflexivity.
    + intros i Hi2. apply Ht. lia.
  - apply IH.
    + lia.
    + intros i2 Hi2. apply Ht. lia.
    + rewrite wr_length. exact Hb.
Qed.

Lemma zfrom_length : forall n k, List.length (zfrom k n) = n.
Proof. induction n as [|n IH]; intros k; simpl; [reflexivity|]. rewrite IH. reflexivity. Qed.

Lemma nth_zfrom : forall n k m, (m < n)%nat -> nth m (zfrom k n) 0 = k + Z.of_nat m.
Proof.
  induction n as [|n IH]; intros k m H; [lia|]. destruct m as [|m]; simpl zfrom; simpl nth; [lia|].
  rewrite IH by lia. lia.
Qed.

Lemma cells_all_has : forall T (c : cells) N,
  List.length c = N -> (forall j, 0 <= j < Z.of_nat N -> has T c j) ->
  c = map (fun j => Some (T j)) (zfrom 0 N).
Proof.
  intros T c N Hl Hh. apply (nth_ext _ _ None None).
  - rewrite map_length, zfrom_length. exact Hl.
  - intros n Hn. rewrite Hl in Hn.
    rewrite (nth_indep (map _ _) None (Some (T 0))) by (rewrite map_length, zfrom_length; exact Hn).
    rewrite (map_nth (fun j => Some (T j)) (zfrom 0 N) 0 n). rewrite nth_zfrom by exact Hn.
    specialize (Hh (Z.of_nat n)). unfold has, nthc in Hh.
    destruct (Z.ltb_spec (Z.of_nat n) 0); [lia|]. rewrite Nat2Z.id in Hh. rewrite Hh by lia.
    f_equal.
Qed.

(* ---------------------------------------------------------------- vectors and matrices *)
Section EmitParse.
  Variable num : Type.
  Variable sc_cx : Z -> (num * num) -> scalar.
  (* parse_complex accepts what add_complex wrote *)
  Hypothesis cx_accepted : forall p z, s_cx (sc_cx p z) = true.
  Variable dp : Z.

  Notation cxn := (cx num sc_cx dp).
  Definition txt_of (m : Z -> num * num) (k : Z) : string := s_text (sc_cx dp (m k)).

  Lemma pv_items_emit : forall d vector n k c,
    pv_items d k (map (fun i => cxn (vector i)) (zfrom k n)) c = Ok (wrs d (txt_of vector) k n c).
  Proof.
    intros d vector. induction n as [|n IH]; intros k c; simpl; [reflexivity|].
    unfold cx at 1. rewrite cx_accepted. rewrite IH. reflexivity.
  Qed.

  Lemma parse_vector_emit : forall d vector len c, 0 <= len ->
    parse_vector d len (vec_node num sc_cx dp vector len) c = Ok (wrs d (txt_of vector) 0 (Z.to_nat len) c).
  Proof.
    intros d vector len c H. unfold parse_vector, vec_node, zupto.
    rewrite map_length, zfrom_length, Z2Nat.id by exact H. rewrite Z.eqb_refl.
    apply pv_items_emit.
  Qed.

  Lemma am_row_spec : forall matrix nd row n col k l k',
    am_row num sc_cx dp matrix nd row (zfrom col n) k = (l, k') ->
    List.length l = n /\
    k' = k + Z.of_nat n - (if nd && (col <=? row) && (row <? col + Z.of_nat n) then 1 else 0) /\
    forall d c, pm_row d nd row col k l c = Ok (wrs d (txt_of matrix) k (Z.to_nat (k' - k)) c, k').
  Proof.
    intros matrix nd row. induction n as [|n IH]; intros col k l k' H.
    - simpl in H. inversion H; subst. split; [reflexivity|]. split.
      + assert (E : nd && (col <=? row) && (row <? col + Z.of_nat 0) = false).
        { simpl Z.of_nat. rewrite Z.add_0_r. destruct nd; simpl; [|reflexivity].
          destruct (Z.leb_spec col row), (Z.ltb_spec row col); simpl; try reflexivity; lia. }
        rewrite E. simpl Z.of_nat. lia.
      + intros d c. simpl. rewrite Z.sub_diag. reflexivity.
    - simpl zfrom in H. simpl am_row in H.
      destruct (nd && (row =? col)) eqn:Ed.
      + destruct (am_row num sc_cx dp matrix nd row (zfrom (col + 1) n) k) as [l0 k0] eqn:E0.
        inversion H; subst; clear H. destruct (IH _ _ _ _ E0) as [A [B C]].
        split; [simpl; rewrite A; reflexivity|]. split.
        * apply andb_prop in Ed. destruct Ed as [Ed1 Ed2]. apply Z.eqb_eq in Ed2. subst col. rewrite Ed1 in *.
          rewrite B. rewrite Nat2Z.inj_succ. cbn [andb]. bdestr.
        * intros d c. simpl pm_row. rewrite Ed. unfold null_scalar. simpl. apply C.
      + destruct (am_row num sc_cx dp matrix nd row (zfrom (col + 1) n) (k + 1)) as [l0 k0] eqn:E0.
        inversion H; subst; clear H. destruct (IH _ _ _ _ E0) as [A [B C]].
        split; [simpl; rewrite A; reflexivity|]. split.
        * rewrite B. rewrite Nat2Z.inj_succ. destruct nd; cbn [andb] in *; [|lia].
          apply Z.eqb_neq in Ed. bdestr.
        * intros d c. simpl pm_row. rewrite Ed. unfold cx. rewrite cx_accepted. rewrite C.
          assert (Hk : k + 1 <= k').
          { rewrite B. destruct nd; cbn [andb]; bdestr. }
          replace (Z.to_nat (k' - k)) with (S (Z.to_nat (k' - (k + 1)))) by lia.
          reflexivity.
  Qed.

  (* number of rows r0 <= r < r0 + m whose diagonal cell exists (r < ncols) *)
  Definition diag_rows (r0 : Z) (m : nat) (ncols : nat) : Z :=
    Z.max 0 (Z.min (r0 + Z.of_nat m) (Z.of_nat ncols) - Z.min r0 (Z.of_nat ncols)).

  Lemma am_rows_spec : forall matrix nd ncols m r0 k l k', 0 <= r0 ->
    am_rows num sc_cx dp matrix nd (zfrom r0 m) (zfrom 0 ncols) k = (l, k') ->
    List.length l = m /\
    k' = k + Z.of_nat m * Z.of_nat ncols - (if nd then diag_rows r0 m ncols else 0) /\
    k <= k' /\
    forall d c, pm_rows d nd (Z.of_nat ncols) r0 k l c = Ok (wrs d (txt_of matrix) k (Z.to_nat (k' - k)) c).
  Proof.
    intros matrix nd ncols. induction m as [|m IH]; intros r0 k l k' Hr H.
    - simpl in H. inversion H; subst. split; [reflexivity|]. split.
      + unfold diag_rows. destruct nd; lia.
      + split; [lia|]. intros d c. simpl. rewrite Z.sub_diag. reflexivity.
    - simpl zfrom in H. simpl am_rows in H.
      destruct (am_row num sc_cx dp matrix nd r0 (zfrom 0 ncols) k) as [items k1] eqn:E1.
      destruct (am_rows num sc_cx dp matrix nd (zfrom (r0 + 1) m) (zfrom 0 ncols) k1) as [l2 k2] eqn:E2.
      inversion H; subst; clear H.
      destruct (am_row_spec _ _ _ _ _ _ _ _ E1) as [A1 [B1 C1]].
      destruct (IH (r0 + 1) k1 l2 k' ltac:(lia) E2) as [A2 [B2 [D2 C2]]].
      assert (Hk1 : k <= k1).
      { rewrite B1. destruct nd; cbn [andb]; bdestr. }
      split; [simpl; rewrite A2; reflexivity|]. split.
      + rewrite B2, B1. unfold diag_rows. rewrite Nat2Z.inj_succ. destruct nd; cbn [andb]; [|lia]. bdestr.
      + split; [lia|]. intros d c. simpl pm_rows. rewrite A1, Z.eqb_refl. rewrite C1. rewrite C2.
        f_equal. clear - Hk1 D2.
        replace (Z.to_nat (k' - k)) with (Z.to_nat (k1 - k) + Z.to_nat (k' - k1))%nat by lia.
        generalize (Z.to_nat (k' - k1)) as b. intro b.
        replace k1 with (k + Z.of_nat (Z.to_nat (k1 - k))) at 1 by lia.
        generalize (Z.to_nat (k1 - k)) as a. clear. intro a. revert k c.
        induction a as [|a IHa]; intros k c; simpl.
        * rewrite Z.add_0_r. reflexivity.
        * rewrite <- IHa. f_equal. lia.
  Qed.

  (* number of cells of a rows x columns matrix (without its diagonal when nd) *)
  Definition mat_cells (rows columns : Z) (nd : bool) : Z :=
    rows * columns - (if nd then Z.min rows columns else 0).

  Lemma parse_matrix_emit : forall d matrix rows columns nd c, 0 <= rows -> 0 <= columns ->
    parse_matrix d rows columns (mat_node num sc_cx dp matrix rows columns nd) nd c
    = Ok (wrs d (txt_of matrix) 0 (Z.to_nat (mat_cells rows columns nd)) c).
  Proof.
    intros d matrix rows columns nd c Hr Hc. unfold parse_matrix, mat_node, zupto.
    destruct (am_rows num sc_cx dp matrix nd (zfrom 0 (Z.to_nat rows)) (zfrom 0 (Z.to_nat columns)) 0) as [l k'] eqn:E.
    destruct (am_rows_spec _ _ _ _ _ _ _ _ (Z.le_refl 0) E) as [A [B [D C]]].
    simpl fst. rewrite A, Z2Nat.id by exact Hr. rewrite Z.eqb_refl.
    specialize (C d c). rewrite Z2Nat.id in C by exact Hc. rewrite C. f_equal. f_equal.
    rewrite B. unfold mat_cells, diag_rows. rewrite !Z2Nat.id by assumption.
    destruct nd; lia.
  Qed.
End EmitParse.

(* ---------------------------------------------------------------- one data entry *)
(* a batch = the writes of one parse_vector / parse_matrix call: destination, source, number of cells *)
Section Batches.
  Variable num : Type.
  Variable sc_cx : Z -> (num * num) -> scalar.
  Variable dp : Z.
  Definition batch : Type := (dest * (Z -> num * num) * Z)%type.
  Definition run_batch (c : cells) (b : batch) : cells :=
    let '(d, m, K) := b in wrs d (txt_of num sc_cx dp m) 0 (Z.to_nat K) c.
  Definition run_batches (bs : list batch) (c : cells) : cells := fold_left run_batch bs c.

  Variable e : Z -> num * num.
  Definition T (j : Z) : string := s_text (sc_cx dp (e j)).
  Variable N : nat.
  Definition batch_ok (b : batch) : Prop :=
    let '(d, m, K) := b in forall i, 0 <= i < K -> m i = e (dst d i) /\ 0 <= dst d i < Z.of_nat N.
  Definition batch_hits (b : batch) (j : Z) : Prop :=
    let '(d, m, K) := b in exists i, 0 <= i < K /\ dst d i = j.

  Lemma run_batch_length : forall b c, List.length (run_batch c b) = List.length c.
  Proof. intros [[d m] K] c. apply wrs_length. Qed.

  Lemma run_batch_old : forall b c j, batch_ok b -> has T c j -> has T (run_batch c b) j.
  Proof.
    intros [[d m] K] c j Hok Hh. simpl. apply wrs_has_old; [exact Hh|].
    intros i Hi. unfold txt_of, T. destruct (Hok i ltac:(lia)) as [E _]. rewrite E. reflexivity.
  Qed.

  Lemma run_batch_new : forall b c j, List.length c = N -> batch_ok b -> batch_hits b j -> has T (run_batch c b) j.
  Proof.
    intros [[d m] K] c j Hl Hok [i [Hi Ej]]. simpl. subst j. apply wrs_has_new.
    - lia.
    - intros i2 Hi2. unfold txt_of, T. destruct (Hok i2 ltac:(lia)) as [E _]. rewrite E. reflexivity.
    - rewrite Hl. apply (Hok i Hi).
  Qed.

  Lemma run_batches_old : forall bs c j, Forall batch_ok bs -> has T c j -> has T (run_batches bs c) j.
  Proof.
    induction bs as [|b r IH]; intros c j Hok Hh; simpl; [exact Hh|].
    inversion Hok; subst. apply IH; [assumption|]. apply run_batch_old; assumption.
  Qed.

  Lemma run_batches_length : forall bs c, List.length (run_batches bs c) = List.length c.
  Proof. induction bs as [|b r IH]; intros c; simpl; [reflexivity|]. rewrite IH. apply run_batch_length. Qed.

  Lemma run_batches_new : forall bs c j, List.length c = N -> Forall batch_ok bs ->
    Exists (fun b => batch_hits b j) bs -> has T (run_batches bs c) j.
  Proof.
    induction bs as [|b r IH]; intros c j Hl Hok Hex; simpl; [inversion Hex|].
    inversion Hok; subst. inversion Hex; subst.
    - apply run_batches_old; [assumption|]. apply run_batch_new; assumption.
    - apply IH; [rewrite run_batch_length; exact Hl|assumption|assumption].
  Qed.

  Lemma batches_cover : forall bs c, List.length c = N -> Forall batch_ok bs ->
    (forall j, 0 <= j < Z.of_nat N -> Exists (fun b => batch_hits b j) bs) ->
    run_batches bs c = map (fun j => Some (T j)) (zfrom 0 N).
  Proof.
    intros bs c Hl Hok Hcov. apply cells_all_has.
    - rewrite run_batches_length. exact Hl.
    - intros j Hj. apply run_batches_new; auto.
  Qed.
End Batches.

Lemma hit_off : forall off K j, off <= j < off + K -> exists i, 0 <= i < K /\ dst (DOff off) i = j.
Proof. intros off K j H. exists (j - off). simpl. lia. Qed.

Lemma dst_pack : forall mc ut base term col, 0 <= col < mc ->
  dst (DPack mc ut base) (term * mc + col) = col * ut + base + term.
Proof.
  intros mc ut base term col H. simpl.
  assert (E1 : (term * mc + col) mod mc = col).
  { rewrite Z.add_comm, Z_mod_plus_full. apply Z.mod_small. lia. }
  assert (E2 : (term * mc + col) / mc = term).
  { rewrite Z.add_comm, Z_div_plus_full by lia. rewrite Z.div_small by lia. lia. }
  rewrite E1, E2. lia.
Qed.

Lemma hit_pack : forall mc ut base n col term, 0 <= col < mc -> 0 <= term < n ->
  exists i, 0 <= i < n * mc /\ dst (DPack mc ut base) i = col * ut + base + term.
Proof.
  intros mc ut base n col term Hc Ht. exists (term * mc + col). split; [nia|]. apply dst_pack. exact Hc.
Qed.

Lemma pack_bounds : forall mc ut base n i, 0 <= mc -> 0 <= i < n * mc -> 0 <= base -> 0 <= n -> base + n <= ut ->
  0 <= dst (DPack mc ut base) i < mc * ut.
Proof.
  intros mc ut base n i Hm Hi Hb Hn Hu. assert (0 < mc) by nia. simpl.
  pose proof (Z.mod_pos_bound i mc ltac:(lia)) as Hmod.
  assert (0 <= i / mc < n).
  { split; [apply Z.div_pos; lia|]. apply Z.div_lt_upper_bound; nia. }
  nia.
Qed.

(* ---------------------------------------------------------------- one data entry, every type *)
Lemma min_le_mul : forall a b, 0 <= a -> 0 <= b -> Z.min a b <= a * b.
Proof. intros a b Ha Hb. destruct (Z.eq_dec a 0), (Z.eq_dec b 0); subst; try lia. nia. Qed.

Section Entry.
  Variable num : Type.
  Variable sc_cx : Z -> (num * num) -> scalar.
  Hypothesis cx_accepted : forall p z, s_cx (sc_cx p z) = true.
  Variable dp : Z.
  Variable e : Z -> num * num.

  Ltac unfold_vl :=
    unfold vl_ts_terms, vl_ti_terms, vl_tx_terms, vl_tm_terms, vl_ts_offset, vl_ti_offset, vl_tx_offset, vl_tm_offset,
           vl_um_terms, vl_ui_terms, vl_ux_terms, vl_us_terms, vl_um_offset, vl_ui_offset, vl_ux_offset, vl_us_offset,
           vl_ts_rows, vl_ti_rows, vl_tx_rows, vl_tm_rows, vl_ts_columns, vl_ti_columns, vl_tx_columns, vl_tm_columns,
           vl_um_rows, vl_ui_rows, vl_ux_rows, vl_us_rows, vl_um_columns, vl_ui_columns, vl_ux_columns, vl_us_columns,
           vl_um14_terms, vl_ui14_terms, vl_ux14_terms, vl_us14_terms,
           vl_el_rows, vl_el_columns, vl_el_offset, vl_el12_terms, vl_er12_terms, vl_em12_terms,
           vl_s_rows, vl_s_columns, vl_m_ports.
  Ltac off_oks :=
    repeat (apply Forall_cons; [intros i Hi; unfold dst; rewrite Z2Nat.id by lia; (split; [f_equal; lia | lia])|]); apply Forall_nil.
  Lemma wrs_run_batches : forall d m k bs c,
    wrs d (txt_of num sc_cx dp m) 0 (Z.to_nat k) (run_batches num sc_cx dp bs c) = run_batches num sc_cx dp (bs ++ [(d, m, k)]) c.
  Proof. intros. unfold run_batches. rewrite fold_left_app. reflexivity. Qed.
  Ltac to_batches ly :=
    change (blank ly) with (run_batches num sc_cx dp [] (blank ly)); rewrite !wrs_run_batches; cbn [app];
    f_equal; unfold zupto; apply batches_cover; [unfold blank; apply repeat_length| |].
  Ltac start ly ty :=
    unfold add_error_parameters; change (l_type ly) with ty; cbv iota; cbn [ctype_eqb app]; unfold add_vector, add_matrix;
    eexists; split; [reflexivity|]; split; [reflexivity|];
    unfold psteps; change (l_type ly) with ty; cbv iota zeta; cbn [run_steps lookup mid_eqb Z.eqb];
    unfold_vl; rewrite ?Z.sub_0_r.
  Ltac emit_rw := rewrite ?(parse_vector_emit num sc_cx cx_accepted) by lia; rewrite ?(parse_matrix_emit num sc_cx cx_accepted) by lia.
  Ltac pack_ok mc ut base n :=
    intros i Hi; rewrite Z2Nat.id by lia;
    (split; [unfold flat2, dst, vl_um14_offset, vl_ui14_offset, vl_ux14_offset, vl_us14_offset, vl_el12_offset, vl_er12_offset, vl_em12_offset;
             f_equal; lia
            | pose proof (pack_bounds mc ut base n i ltac:(lia) ltac:(lia) ltac:(lia) ltac:(lia) ltac:(lia)); lia]).
  Ltac pack_hit mc ut base n col r :=
    apply Exists_cons_hd; destruct (hit_pack mc ut base n col r ltac:(lia) ltac:(lia)) as [i [Hi Ei]];
    exists i; split; [lia|rewrite Ei; lia].
  Ltac off_hit := apply Exists_cons_hd; apply hit_off; lia.

  Lemma entry_ok : forall t mr mc f, 0 <= mr -> 0 <= mc ->
    let ly := mk_layout t mr mc in
    exists m, scan_entry (add_error_parameters num sc_cx dp ly e) [] f = Ok (m, f) /\
              forallb (fun i => match lookup m i with Some _ => true | None => false end) (required 1 t) = true /\
              run_steps ly m (psteps 1 ly) (blank ly)
              = Ok (map (fun j => Some (T num sc_cx dp e j)) (zupto (l_terms ly))).
  Proof.
    intros t mr mc f Hr Hc ly. pose proof (min_le_mul mr mc Hr Hc) as Hmm.
    destruct t.
    - (* T8 *)
      start ly T8.
      assert (F : 0 <= l_ti ly /\ l_ti ly <= l_tx ly /\ l_tx ly <= l_tm ly /\ l_tm ly <= l_tt ly /\ l_terms ly = l_tt ly).
      { unfold ly, mk_layout. cbn [l_ti l_tx l_tm l_tt l_terms]. lia. }
      emit_rw. to_batches ly; [off_oks|].
      intros j Hj. rewrite Z2Nat.id in Hj by lia.
      destruct (Z_lt_dec j (l_ti ly)); [off_hit|apply Exists_cons_tl].
      destruct (Z_lt_dec j (l_tx ly)); [off_hit|apply Exists_cons_tl].
      destruct (Z_lt_dec j (l_tm ly)); [off_hit|apply Exists_cons_tl].
      off_hit.
    - (* U8 *)
      start ly U8.
      assert (F : 0 <= l_ti ly /\ l_ti ly <= l_tx ly /\ l_tx ly <= l_tm ly /\ l_tm ly <= l_tt ly /\ l_terms ly = l_tt ly).
      { unfold ly, mk_layout. cbn [l_ti l_tx l_tm l_tt l_terms]. lia. }
      emit_rw. to_batches ly; [off_oks|].
      intros j Hj. rewrite Z2Nat.id in Hj by lia.
      destruct (Z_lt_dec j (l_ti ly)); [off_hit|apply Exists_cons_tl].
      destruct (Z_lt_dec j (l_tx ly)); [off_hit|apply Exists_cons_tl].
      destruct (Z_lt_dec j (l_tm ly)); [off_hit|apply Exists_cons_tl].
      off_hit.
    - (* TE10 *)
      start ly TE10.
      assert (F : 0 <= l_ti ly /\ l_ti ly <= l_tx ly /\ l_tx ly <= l_tm ly /\ l_tm ly <= l_tt ly /\ l_el_off ly = l_tt ly /\
                  l_terms ly = l_tt ly + (mr * mc - Z.min mr mc) /\ l_mr ly = mr /\ l_mc ly = mc).
      { unfold ly, mk_layout. cbn [l_ti l_tx l_tm l_tt l_terms l_el_off l_mr l_mc]. lia. }
      emit_rw. unfold mat_cells. to_batches ly; [off_oks|].
      intros j Hj. rewrite Z2Nat.id in Hj by lia.
      destruct (Z_lt_dec j (l_ti ly)); [off_hit|apply Exists_cons_tl].
      destruct (Z_lt_dec j (l_tx ly)); [off_hit|apply Exists_cons_tl].
      destruct (Z_lt_dec j (l_tm ly)); [off_hit|apply Exists_cons_tl].
      destruct (Z_lt_dec j (l_tt ly)); [off_hit|apply Exists_cons_tl].
      off_hit.
    - (* UE10 *)
      start ly UE10.
      assert (F : 0 <= l_ti ly /\ l_ti ly <= l_tx ly /\ l_tx ly <= l_tm ly /\ l_tm ly <= l_tt ly /\ l_el_off ly = l_tt ly /\
                  l_terms ly = l_tt ly + (mr * mc - Z.min mr mc) /\ l_mr ly = mr /\ l_mc ly = mc).
      { unfold ly, mk_layout. cbn [l_ti l_tx l_tm l_tt l_terms l_el_off l_mr l_mc]. lia. }
      emit_rw. unfold mat_cells. to_batches ly; [off_oks|].
      intros j Hj. rewrite Z2Nat.id in Hj by lia.
      destruct (Z_lt_dec j (l_ti ly)); [off_hit|apply Exists_cons_tl].
      destruct (Z_lt_dec j (l_tx ly)); [off_hit|apply Exists_cons_tl].
      destruct (Z_lt_dec j (l_tm ly)); [off_hit|apply Exists_cons_tl].
      destruct (Z_lt_dec j (l_tt ly)); [off_hit|apply Exists_cons_tl].
      off_hit.
    - (* T16 *)
      start ly T16.
      set (p := Z.max mr mc).
      assert (F : l_mr ly = mr /\ l_mc ly = mc /\ l_ti ly = mr * p /\ l_tx ly = mr * p + mr * p /\ l_tm ly = mr * p + mr * p + mc * p /\
                  l_tt ly = mr * p + mr * p + mc * p + mc * p /\ l_terms ly = l_tt ly /\ 0 <= mr * p /\ 0 <= mc * p /\ 0 <= p).
      { unfold ly, mk_layout. cbn [l_ti l_tx l_tm l_tt l_terms l_el_off l_mr l_mc]. fold p. nia. }
      destruct F as [F1 [F2 F]]. rewrite F1, F2. fold p.
      emit_rw. unfold mat_cells. to_batches ly; [off_oks|].
      intros j Hj. rewrite Z2Nat.id in Hj by lia.
      destruct (Z_lt_dec j (l_ti ly)); [off_hit|apply Exists_cons_tl].
      destruct (Z_lt_dec j (l_tx ly)); [off_hit|apply Exists_cons_tl].
      destruct (Z_lt_dec j (l_tm ly)); [off_hit|apply Exists_cons_tl].
      off_hit.
    - (* U16 *)
      start ly U16.
      set (p := Z.max mr mc).
      assert (F : l_mr ly = mr /\ l_mc ly = mc /\ l_ti ly = p * mr /\ l_tx ly = p * mr + p * mc /\ l_tm ly = p * mr + p * mc + p * mr /\
                  l_tt ly = p * mr + p * mc + p * mr + p * mc /\ l_terms ly = l_tt ly /\ 0 <= p * mr /\ 0 <= p * mc /\ 0 <= p).
      { unfold ly, mk_layout. cbn [l_ti l_tx l_tm l_tt l_terms l_el_off l_mr l_mc]. fold p. nia. }
      destruct F as [F1 [F2 F]]. rewrite F1, F2. fold p.
      emit_rw. unfold mat_cells. to_batches ly; [off_oks|].
      intros j Hj. rewrite Z2Nat.id in Hj by lia.
      destruct (Z_lt_dec j (l_ti ly)); [off_hit|apply Exists_cons_tl].
      destruct (Z_lt_dec j (l_tx ly)); [off_hit|apply Exists_cons_tl].
      destruct (Z_lt_dec j (l_tm ly)); [off_hit|apply Exists_cons_tl].
      off_hit.
    - (* UE14 *)
      start ly UE14.
      assert (F : l_mr ly = mr /\ l_mc ly = mc /\ l_ti ly = mr /\ l_tx ly = mr + 1 /\ l_tm ly = mr + 1 + mr /\ l_tt ly = mr + 1 + mr + 1 /\
                  l_el_off ly = mc * l_tt ly /\ l_terms ly = mc * l_tt ly + (mr * mc - Z.min mr mc)).
      { unfold ly, mk_layout. cbn [l_ti l_tx l_tm l_tt l_terms l_el_off l_mr l_mc]. lia. }
      destruct F as [F1 [F2 F]]. rewrite F1, F2.
      emit_rw. unfold mat_cells. to_batches ly.
      + set (ut := l_tt ly) in *. assert (0 <= mc * ut) by nia.
        apply Forall_cons; [pack_ok mc ut 0 (l_ti ly)|].
        apply Forall_cons; [pack_ok mc ut (l_ti ly) (l_tx ly - l_ti ly)|].
        apply Forall_cons; [pack_ok mc ut (l_tx ly) (l_tm ly - l_tx ly)|].
        apply Forall_cons; [pack_ok mc ut (l_tm ly) (ut - l_tm ly)|].
        off_oks.
      + set (ut := l_tt ly) in *. assert (0 <= mc * ut) by nia.
        intros j Hj. rewrite Z2Nat.id in Hj by lia.
        destruct (Z_lt_dec j (mc * ut)) as [Hlt|Hge].
        * assert (Hut : 0 < ut) by lia.
          pose proof (Z.div_mod j ut ltac:(lia)) as Hdm. pose proof (Z.mod_pos_bound j ut Hut) as Hmb.
          assert (Hcol : 0 <= j / ut < mc).
          { split; [apply Z.div_pos; lia|apply Z.div_lt_upper_bound; lia]. }
          set (col := j / ut) in *. set (r := j mod ut) in *.
          destruct (Z_lt_dec r (l_ti ly)); [pack_hit mc ut 0 (l_ti ly) col r|apply Exists_cons_tl].
          destruct (Z_lt_dec r (l_tx ly)); [pack_hit mc ut (l_ti ly) (l_tx ly - l_ti ly) col (r - l_ti ly)|apply Exists_cons_tl].
          destruct (Z_lt_dec r (l_tm ly)); [pack_hit mc ut (l_tx ly) (l_tm ly - l_tx ly) col (r - l_tx ly)|apply Exists_cons_tl].
          pack_hit mc ut (l_tm ly) (ut - l_tm ly) col (r - l_tm ly).
        * do 4 apply Exists_cons_tl. off_hit.
    - (* E12 *)
      start ly E12.
      assert (F : l_mr ly = mr /\ l_mc ly = mc /\ l_ti ly = mr /\ l_tx ly = mr + mr /\ l_tm ly = mr + mr /\ l_tt ly = mr + mr + mr /\
                  l_el_terms ly = mr /\ l_terms ly = mc * l_tt ly).
      { unfold ly, mk_layout. cbn [l_ti l_tx l_tm l_tt l_terms l_el_off l_el_terms l_mr l_mc]. lia. }
      destruct F as [F1 [F2 F]]. rewrite F2.
      emit_rw. unfold mat_cells. to_batches ly.
      + set (ut := l_tt ly) in *. assert (0 <= mc * ut) by nia.
        apply Forall_cons; [pack_ok mc ut 0 (l_el_terms ly)|].
        apply Forall_cons; [pack_ok mc ut (l_ti ly) (l_tx ly - l_ti ly)|].
        apply Forall_cons; [pack_ok mc ut (l_tm ly) (ut - l_tm ly)|].
        apply Forall_nil.
      + set (ut := l_tt ly) in *. assert (0 <= mc * ut) by nia.
        intros j Hj. rewrite Z2Nat.id in Hj by lia.
        assert (Hut : 0 < ut) by nia.
        pose proof (Z.div_mod j ut ltac:(lia)) as Hdm. pose proof (Z.mod_pos_bound j ut Hut) as Hmb.
        assert (Hcol : 0 <= j / ut < mc).
        { split; [apply Z.div_pos; lia|apply Z.div_lt_upper_bound; lia]. }
        set (col := j / ut) in *. set (r := j mod ut) in *.
        destruct (Z_lt_dec r (l_ti ly)); [pack_hit mc ut 0 (l_el_terms ly) col r|apply Exists_cons_tl].
        destruct (Z_lt_dec r (l_tm ly)); [pack_hit mc ut (l_ti ly) (l_tx ly - l_ti ly) col (r - l_ti ly)|apply Exists_cons_tl].
        pack_hit mc ut (l_tm ly) (ut - l_tm ly) col (r - l_tm ly).
  Qed.
End Entry.

(* ---------------------------------------------------------------- data, calibration, document *)
Lemma l_type_mk_layout : forall t mr mc, l_type (mk_layout t mr mc) = t.
Proof. intros [] mr mc; reflexivity. Qed.

Section RoundTrip.
  Variable num : Type.
  Variable num0 : num.
  Variable sc_int : Z -> scalar.
  Variable sc_real : Z -> num -> scalar.
  Variable sc_cx : Z -> (num * num) -> scalar.
  Variable sc_name : string -> scalar.
  Variable sc_type : ctype -> scalar.

  (* What C99 and the library guarantee about reading back what was written (trusted base):
     sscanf("%d %c") on the text of sprintf("%d", n) gives n; parse_complex accepts the text of
     add_complex (two strtod calls consume "%+.*e %+.*ej" / "%+a %+aj"); the scalar of the name
     carries the name; vnacal_name_to_type(vnacal_type_to_name(t)) = t. *)
  Hypothesis int_rt : forall n, - 2147483648 <= n <= 2147483647 -> s_int (sc_int n) = Some n.
  Hypothesis cx_accepted : forall p z, s_cx (sc_cx p z) = true.
  Hypothesis name_text : forall n, s_text (sc_name n) = n.
  Hypothesis type_rt : forall t, s_type (sc_type t) = Some t.

  Notation scal := (scal num).
  Notation container := (container num).

  (* what sscanf("%lf %c") makes of the text add_double wrote for f at precision fp *)
  Definition fclass (fp : Z) (f : num) : rclass := s_real (sc_real fp f).
  Definition readable (r : rclass) : bool := match r with RNonneg _ | RPInf => true | _ => false end.
  Definition xf_of (r : rclass) : xfreq := match r with RNonneg q => XQ q | _ => XInf end.
  (* every frequency reads back as a non-negative number or +inf, strictly above its predecessor *)
  Fixpoint freqs_ok (prev : option xfreq) (l : list rclass) : bool :=
    match l with
    | [] => true
    | r :: rest =>
        readable r && match prev with Some p => negb (xle (xf_of r) p) | None => true end && freqs_ok (Some (xf_of r)) rest
    end.

  Definition loaded_cells (dp : Z) (ly : layout) (e : Z -> num * num) : cells :=
    map (fun j => Some (s_text (sc_cx dp (e j)))) (zupto (l_terms ly)).
  Fixpoint loaded_data (fp dp : Z) (ly : layout) (c : scal) (findex : Z) (fvec : list num) : list (xfreq * cells) :=
    match fvec with
    | [] => []
    | f :: r => (xf_of (fclass fp f), loaded_cells dp ly (e_at num num0 c findex)) :: loaded_data fp dp ly c (findex + 1) r
    end.
  (* what the loader makes of a saved calibration *)
  Definition loaded_cal (fp dp : Z) (c : scal) : cal :=
    {| c_name := k_name num c; c_type := k_type num c; c_rows := k_rows num c; c_cols := k_cols num c;
       c_freqs := k_freqs num c; c_z0 := Some (s_text (sc_cx dp (k_z0 num c))); c_props := k_props num c;
       c_data := loaded_data fp dp (mk_layout (k_type num c) (k_rows num c) (k_cols num c)) c 0 (k_fvec num c) |}.

  Lemma parse_entries_saved : forall fp dp t mr mc c, 0 <= mr -> 0 <= mc ->
    let ly := mk_layout t mr mc in
    forall fvec findex prev, freqs_ok prev (map (fclass fp) fvec) = true ->
    parse_entries 1 ly prev (save_entries num num0 sc_real sc_cx fp dp ly c findex fvec)
    = Ok (loaded_data fp dp ly c findex fvec).
  Proof.
    intros fp dp t mr mc c Hr Hc ly. induction fvec as [|f r IH]; intros findex prev Hf; [reflexivity|].
    simpl map in Hf. simpl freqs_ok in Hf.
    apply andb_prop in Hf. destruct Hf as [Hf H3]. apply andb_prop in Hf. destruct Hf as [H1 H2].
    simpl save_entries. unfold save_entry. cbn [parse_entries scan_entry key_scalar s_text String.eqb Ascii.eqb Bool.eqb].
    fold (fclass fp f). 
    destruct (entry_ok num sc_cx cx_accepted dp (e_at num num0 c findex) t mr mc (fclass fp f) Hr Hc) as [m [E1 [E2 E3]]].
    fold ly in E1, E3. assert (Ety : l_type ly = t) by apply l_type_mk_layout. rewrite Ety.
    cbn [loaded_data].
    destruct (fclass fp f) as [| | |q|] eqn:Ef; try discriminate H1.
    - rewrite E1, E2. simpl xf_of in *.
      destruct prev as [p|].
      + apply negb_true_iff in H2. rewrite H2. rewrite E3. rewrite (IH _ _ H3). reflexivity.
      + rewrite E3. rewrite (IH _ _ H3). reflexivity.
    - rewrite E1, E2. simpl xf_of in *.
      destruct prev as [p|].
      + apply negb_true_iff in H2. rewrite H2. rewrite E3. rewrite (IH _ _ H3). reflexivity.
      + rewrite E3. rewrite (IH _ _ H3). reflexivity.
  Qed.

  Lemma save_entries_length : forall fp dp ly c fvec findex,
    List.length (save_entries num num0 sc_real sc_cx fp dp ly c findex fvec) = List.length fvec.
  Proof. intros fp dp ly c. induction fvec as [|f r IH]; intros findex; simpl; [reflexivity|]. rewrite IH. reflexivity. Qed.

  (* container invariants the loader insists on, per calibration *)
  Definition props_fine (p : option node) : Prop :=
    match p with Some pn => props_ok pn = Ok tt | None => True end.
  Record wf_scal (fp : Z) (c : scal) : Prop := {
    wf_rows : min_dim <= k_rows num c;
    wf_cols : min_dim <= k_cols num c;
    wf_fit : dims_fit (k_type num c) (k_rows num c) (k_cols num c) = true;
    wf_size : Z.max (k_rows num c) (k_cols num c) * Z.max (k_rows num c) (k_cols num c) <= int_max / 4;
    wf_nfreq : k_freqs num c <= int_max;
    wf_props : props_fine (k_props num c);
    wf_freqs : freqs_ok None (map (fclass fp) (k_fvec num c)) = true }.

  (* scan_set on the pairs of a saved calibration: a closed computation once the scalars are opened *)
  Lemma scan_set_gen : forall sn st sr sc sf sz props data t rows cols fr,
    s_type st = Some t -> s_int sr = Some rows -> s_int sc = Some cols -> s_int sf = Some fr -> s_cx sz = true ->
    scan_set ([(key_scalar "name", NS sn); (key_scalar "type", NS st); (key_scalar "rows", NS sr);
               (key_scalar "columns", NS sc); (key_scalar "frequencies", NS sf); (key_scalar "z0", NS sz)]
              ++ opt_properties props ++ [(key_scalar "data", data)]) acc0
    = Ok (Build_setacc (Some (s_text sn)) (Some t) rows cols fr (Some (s_text sz)) props (Some data)).
  Proof.
    intros sn st sr sc sf sz props data t rows cols fr H1 H2 H3 H4 H5.
    destruct st, sr, sc, sf, sz. simpl in H1, H2, H3, H4, H5. subst.
    destruct props; reflexivity.
  Qed.

  Lemma scan_set_saved : forall dp name t rows cols fr z0 props data,
    - 2147483648 <= rows <= 2147483647 -> - 2147483648 <= cols <= 2147483647 -> - 2147483648 <= fr <= 2147483647 ->
    scan_set ([(key_scalar "name", NS (sc_name name)); (key_scalar "type", NS (sc_type t));
               (key_scalar "rows", NS (sc_int rows)); (key_scalar "columns", NS (sc_int cols));
               (key_scalar "frequencies", NS (sc_int fr)); (key_scalar "z0", cx num sc_cx dp z0)]
              ++ opt_properties props ++ [(key_scalar "data", data)]) acc0
    = Ok (Build_setacc (Some name) (Some t) rows cols fr (Some (s_text (sc_cx dp z0))) props (Some data)).
  Proof.
    intros dp name t rows cols fr z0 props data Hr Hc Hf. unfold cx.
    rewrite (scan_set_gen _ _ _ _ _ _ props data t rows cols fr (type_rt t) (int_rt _ Hr) (int_rt _ Hc) (int_rt _ Hf) (cx_accepted dp z0)).
    rewrite name_text. reflexivity.
  Qed.

  Lemma parse_set_saved : forall fp dp c, wf_scal fp c ->
    parse_set 1 (save_cal num num0 sc_int sc_real sc_cx sc_name sc_type fp dp c) = Ok (loaded_cal fp dp c).
  Proof.
    intros fp dp c [Hr0 Hc0 Hfit Hsize Hnf Hp Hf].
    assert (Hr : 0 <= k_rows num c) by (unfold min_dim in Hr0; lia).
    assert (Hc : 0 <= k_cols num c) by (unfold min_dim in Hc0; lia).
    unfold save_cal, parse_set.
    set (data := NQ (save_entries _ _ _ _ _ _ _ _ _ _)).
    assert (Hi : int_max = 2147483647) by reflexivity.
    assert (Hq : int_max / 4 = 536870911) by reflexivity.
    assert (Hfr : 0 <= k_freqs num c) by (unfold k_freqs; lia).
    rewrite scan_set_saved by nia.
    cbn [a_name a_ty a_rows a_colsn a_fr a_z0 a_props a_data].
    replace (k_rows num c <? 0) with false by (symmetry; apply Z.ltb_ge; lia).
    replace (k_cols num c <? 0) with false by (symmetry; apply Z.ltb_ge; lia).
    replace (k_freqs num c <? 0) with false by (symmetry; apply Z.ltb_ge; lia).
    change (1 =? 0) with false. cbv iota. cbn [orb].
    replace (k_rows num c <? min_dim) with false by (symmetry; apply Z.ltb_ge; exact Hr0).
    replace (k_cols num c <? min_dim) with false by (symmetry; apply Z.ltb_ge; exact Hc0).
    rewrite Hfit. cbn [negb orb].
    replace (int_max / 4 <? Z.max (k_rows num c) (k_cols num c) * Z.max (k_rows num c) (k_cols num c)) with false
      by (symmetry; apply Z.ltb_ge; exact Hsize).
    assert (Hpo : match k_props num c with Some pn => props_ok pn | None => Ok tt end = Ok tt).
    { unfold props_fine in Hp. destruct (k_props num c); [exact Hp|reflexivity]. }
    rewrite Hpo. unfold parse_data, data. rewrite save_entries_length. fold (k_freqs num c). rewrite Z.eqb_refl.
    rewrite (parse_entries_saved fp dp (k_type num c) (k_rows num c) (k_cols num c) c Hr Hc _ 0 None Hf).
    reflexivity.
  Qed.

  (* ---------------------------------------------------------------- the slot vector *)
  Fixpoint live (slots : list (option scal)) : list scal :=
    match slots with
    | [] => []
    | None :: r => live r
    | Some c :: r => c :: live r
    end.

  Lemma add_cal_fresh : forall l c, ~ In (c_name c) (map c_name l) -> add_cal l c = l ++ [c].
  Proof.
    induction l as [|x r IH]; intros c H; simpl; [reflexivity|].
    simpl in H. destruct (String.eqb_spec (c_name x) (c_name c)) as [E|E].
    - exfalso. apply H. left. exact E.
    - f_equal. apply IH. intro H2. apply H. right. exact H2.
  Qed.

  Lemma parse_calibrations_saved : forall fp dp slots acc,
    Forall (wf_scal fp) (live slots) ->
    NoDup (map c_name acc ++ map (k_name num) (live slots)) ->
    parse_calibrations 1 (save_slots num num0 sc_int sc_real sc_cx sc_name sc_type fp dp slots) acc
    = Ok (acc ++ map (loaded_cal fp dp) (live slots)).
  Proof.
    intros fp dp. induction slots as [|[c|] r IH]; intros acc Hwf Hnd; cbn [save_slots parse_calibrations live map].
    - rewrite app_nil_r. reflexivity.
    - cbn [live map] in Hwf, Hnd. inversion Hwf; subst.
      rewrite parse_set_saved by assumption.
      assert (Hfresh : ~ In (c_name (loaded_cal fp dp c)) (map c_name acc)).
      { simpl. intro Hin. apply NoDup_remove_2 in Hnd. apply Hnd. apply in_or_app. left. exact Hin. }
      rewrite add_cal_fresh by exact Hfresh.
      rewrite IH.
      + rewrite <- app_assoc. reflexivity.
      + assumption.
      + rewrite map_app. simpl. rewrite <- app_assoc. simpl.
        apply NoDup_remove_1 in Hnd as Hnd1.
        (* move the name of c from the front of the second part to the end of the first *)
        apply NoDup_Add with (a := k_name num c) (l := map c_name acc ++ map (k_name num) (live r)).
        * clear. induction (map c_name acc) as [|x l IHl]; simpl; [constructor|constructor; exact IHl].
        * split; [exact Hnd1|]. apply NoDup_remove_2 in Hnd. exact Hnd.
    - apply IH; assumption.
  Qed.

  (* ---------------------------------------------------------------- the document *)
  Definition names_of (slots : list (option scal)) : list string := map (k_name num) (live slots).
  Record wf_container (v : container) : Prop := {
    wf_gprops : props_fine (v_props num v);
    wf_cals : Forall (wf_scal (v_fprec num v)) (live (v_slots num v));
    wf_names : NoDup (names_of (v_slots num v)) }.

  Notation save_doc := (save_doc num num0 sc_int sc_real sc_cx sc_name sc_type).

  Lemma parse_document_saved : forall v, wf_container v ->
    match save_doc v with
    | NM pairs => parse_document 1 pairs []
                  = Ok (map (loaded_cal (v_fprec num v) (v_dprec num v)) (live (v_slots num v)))
    | _ => False
    end.
  Proof.
    intros v [Hp Hc Hn]. unfold CalSaveModel.save_doc.
    set (cs := NQ _).
    assert (Hcal : forall acc, parse_document 1 [(key_scalar "calibrations", cs)] acc
                   = match parse_calibrations 1 (save_slots num num0 sc_int sc_real sc_cx sc_name sc_type
                                                   (v_fprec num v) (v_dprec num v) (v_slots num v)) acc with
                     | Ok a => Ok a | Err e => Err e end).
    { intros acc. unfold cs. reflexivity. }
    destruct (v_props num v) as [p|] eqn:Ep; unfold opt_properties, app.
    - assert (Hprop : forall r acc, parse_document 1 ((key_scalar "properties", p) :: r) acc
                      = match props_ok p with Ok _ => parse_document 1 r acc | Err e => Err e end).
      { intros r acc. reflexivity. }
      rewrite Hprop. simpl in Hp. rewrite Hp. rewrite Hcal.
      rewrite parse_calibrations_saved by assumption. reflexivity.
    - rewrite Hcal. rewrite parse_calibrations_saved by assumption. reflexivity.
  Qed.

  (* the round trip on the models: the loader accepts what the saver wrote and returns the
     calibrations of the used slots, in slot order *)
  Theorem load_save_doc : forall v, wf_container v ->
    load save_vline (Some (save_doc v))
    = Ok (map (loaded_cal (v_fprec num v) (v_dprec num v)) (live (v_slots num v))).
  Proof.
    intros v H. pose proof (parse_document_saved v H) as P.
    unfold load, save_vline. change (version_of (VNew 1 0)) with (@Ok Z 1). cbv iota.
    destruct (save_doc v) as [s|q|pairs|]; try contradiction. exact P.
  Qed.

  (* the global property tree handed to the importer is the exported sub-tree, unchanged *)
  Lemma save_doc_gprops : forall v,
    match save_doc v with
    | NM pairs => doc_gprops pairs = match v_props num v with Some p => [p] | None => [] end
    | _ => False
    end.
  Proof. intros v. unfold CalSaveModel.save_doc. destruct (v_props num v); reflexivity. Qed.

  (* ---------------------------------------------------------------- what the loaded calibration holds *)
  Lemma loaded_data_nth : forall fp dp ly c fvec findex fi f, nth_error fvec fi = Some f ->
    nth_error (loaded_data fp dp ly c findex fvec) fi
    = Some (xf_of (fclass fp f), loaded_cells dp ly (e_at num num0 c (findex + Z.of_nat fi))).
  Proof.
    intros fp dp ly c. induction fvec as [|g r IH]; intros findex fi f H; destruct fi as [|fi]; simpl in H; try discriminate.
    - inversion H; subst. simpl. rewrite Z.add_0_r. reflexivity.
    - cbn [loaded_data nth_error]. rewrite (IH _ _ _ H).
      replace (findex + Z.of_nat (S fi)) with (findex + 1 + Z.of_nat fi) by lia. reflexivity.
  Qed.

  Lemma loaded_data_length : forall fp dp ly c fvec findex, List.length (loaded_data fp dp ly c findex fvec) = List.length fvec.
  Proof. intros fp dp ly c. induction fvec as [|g r IH]; intros findex; simpl; [reflexivity|]. rewrite IH. reflexivity. Qed.

  Lemma loaded_cells_nthc : forall dp ly e j, 0 <= j < l_terms ly -> nthc (loaded_cells dp ly e) j = Some (s_text (sc_cx dp (e j))).
  Proof.
    intros dp ly e j Hj. unfold nthc, loaded_cells, zupto. destruct (Z.ltb_spec j 0); [lia|].
    rewrite (nth_indep _ None (Some (s_text (sc_cx dp (e 0))))) by (rewrite map_length, zfrom_length; lia).
    rewrite (map_nth (fun j => Some (s_text (sc_cx dp (e j)))) _ 0). rewrite nth_zfrom by lia. f_equal. f_equal. f_equal. f_equal. lia.
  Qed.

  Lemma loaded_cells_length : forall dp ly e, List.length (loaded_cells dp ly e) = Z.to_nat (l_terms ly).
  Proof. intros. unfold loaded_cells, zupto. rewrite map_length, zfrom_length. reflexivity. Qed.

  (* values: what strtod makes of the texts (number-text layer, trusted base) *)
  Variable maxp : Z.                                (* VNACAL_MAX_PRECISION: "%a" *)
  Definition exact_prec (p : Z) : bool := (p =? maxp) || (17 <=? p).
  Variable cls : num -> rclass.                     (* class / exact value of a binary64 as sscanf("%lf") delivers it *)
  Variable rd : Z -> num -> num.                    (* strtod of what printf wrote for x at precision p *)
  Variable val_cx : string -> option (num * num).   (* the value parse_complex computes from a text *)
  Definition rdc (p : Z) (z : num * num) : num * num := (rd p (fst z), rd p (snd z)).
  Hypothesis real_rt : forall p x, s_real (sc_real p x) = cls (rd p x).
  Hypothesis cx_rt : forall p z, val_cx (s_text (sc_cx p z)) = Some (rdc p z).
  (* num_rt: C99 printf + strtod reproduce a binary64 exactly from "%a" and from 17 significant digits *)
  Hypothesis num_rt : forall p x, exact_prec p = true -> rd p x = x.

  Definition reads (t : option string) (z : num * num) : Prop := exists s, t = Some s /\ val_cx s = Some z.

  (* the loaded calibration l is the saved calibration k read back at precisions fp / dp *)
  Definition cal_equiv (fp dp : Z) (k : scal) (l : cal) : Prop :=
    c_name l = k_name num k /\ c_type l = k_type num k /\ c_rows l = k_rows num k /\ c_cols l = k_cols num k /\
    c_freqs l = k_freqs num k /\ c_props l = k_props num k /\
    reads (c_z0 l) (rdc dp (k_z0 num k)) /\
    List.length (c_data l) = List.length (k_fvec num k) /\
    forall fi f, nth_error (k_fvec num k) fi = Some f ->
      exists cells, nth_error (c_data l) fi = Some (xf_of (cls (rd fp f)), cells) /\
        Z.of_nat (List.length cells) = l_terms (mk_layout (k_type num k) (k_rows num k) (k_cols num k)) /\
        forall j, 0 <= j < l_terms (mk_layout (k_type num k) (k_rows num k) (k_cols num k)) ->
          reads (nthc cells j) (rdc dp (e_at num num0 k (Z.of_nat fi) j)).

  Lemma loaded_cal_equiv : forall fp dp k, 0 <= l_terms (mk_layout (k_type num k) (k_rows num k) (k_cols num k)) ->
    cal_equiv fp dp k (loaded_cal fp dp k).
  Proof.
    intros fp dp k Hn. unfold cal_equiv, loaded_cal. cbn [c_name c_type c_rows c_cols c_freqs c_z0 c_props c_data].
    repeat (split; [reflexivity|]). split; [|split].
    - eexists. split; [reflexivity|]. apply cx_rt.
    - apply loaded_data_length.
    - intros fi f Hf. eexists. split; [|split].
      + rewrite (loaded_data_nth _ _ _ _ _ _ _ _ Hf). unfold fclass. rewrite real_rt. reflexivity.
      + rewrite loaded_cells_length. lia.
      + intros j Hj. rewrite loaded_cells_nthc by exact Hj. eexists. split; [reflexivity|].
        rewrite Z.add_0_l. apply cx_rt.
  Qed.

  Lemma l_terms_nonneg : forall t mr mc, 0 <= mr -> 0 <= mc -> 0 <= l_terms (mk_layout t mr mc).
  Proof.
    intros t mr mc Hr Hc. pose proof (min_le_mul mr mc Hr Hc).
    destruct t; unfold mk_layout; cbn [l_terms]; nia.
  Qed.

  Notation load_saved v := (load save_vline (Some (save_doc v))).

  (* cal_roundtrip on the models *)
  Theorem cal_roundtrip_models : forall v, wf_container v ->
    exists cals, load_saved v = Ok cals /\
                 Forall2 (cal_equiv (v_fprec num v) (v_dprec num v)) (live (v_slots num v)) cals /\
                 map c_name cals = names_of (v_slots num v).
  Proof.
    intros v H. eexists. split; [apply load_save_doc; exact H|]. split.
    - destruct H as [_ Hc _]. induction Hc as [|k r Hk Hr IH]; simpl; constructor; [|exact IH].
      apply loaded_cal_equiv. destruct Hk as [Hk1 Hk2 _ _ _ _ _]. unfold min_dim in Hk1, Hk2. apply l_terms_nonneg; lia.
    - unfold names_of. rewrite map_map. reflexivity.
  Qed.

  (* at exact precisions ("%a" or at least 17 digits) reading back is the identity *)
  Lemma rdc_exact : forall p z, exact_prec p = true -> rdc p z = z.
  Proof. intros p [a b] H. unfold rdc. simpl. rewrite !num_rt by exact H. reflexivity. Qed.

  (* the condition on the frequencies follows from the stored values when fprecision is exact *)
  Lemma freqs_ok_exact : forall fp fvec prev, exact_prec fp = true ->
    freqs_ok prev (map cls fvec) = true -> freqs_ok prev (map (fclass fp) fvec) = true.
  Proof.
    intros fp fvec prev He H. replace (map (fclass fp) fvec) with (map cls fvec); [exact H|].
    apply map_ext. intros x. unfold fclass. rewrite real_rt, num_rt by exact He. reflexivity.
  Qed.

  (* ---- exact precisions *)
  (* the calibration l holds the very values of k *)
  Definition cal_same (k : scal) (l : cal) : Prop :=
    c_name l = k_name num k /\ c_type l = k_type num k /\ c_rows l = k_rows num k /\ c_cols l = k_cols num k /\
    c_freqs l = k_freqs num k /\ c_props l = k_props num k /\
    reads (c_z0 l) (k_z0 num k) /\
    List.length (c_data l) = List.length (k_fvec num k) /\
    forall fi f, nth_error (k_fvec num k) fi = Some f ->
      exists cells, nth_error (c_data l) fi = Some (xf_of (cls f), cells) /\
        Z.of_nat (List.length cells) = l_terms (mk_layout (k_type num k) (k_rows num k) (k_cols num k)) /\
        forall j, 0 <= j < l_terms (mk_layout (k_type num k) (k_rows num k) (k_cols num k)) ->
          reads (nthc cells j) (e_at num num0 k (Z.of_nat fi) j).

  Lemma cal_equiv_exact : forall fp dp k l, exact_prec fp = true -> exact_prec dp = true ->
    cal_equiv fp dp k l -> cal_same k l.
  Proof.
    intros fp dp k l Hf Hd [A1 [A2 [A3 [A4 [A5 [A6 [A7 [A8 A9]]]]]]]]. unfold cal_same.
    repeat (split; [assumption|]). split; [|split; [assumption|]].
    - rewrite <- (rdc_exact dp) by exact Hd. exact A7.
    - intros fi f Hfi. destruct (A9 fi f Hfi) as [cells [B1 [B2 B3]]]. exists cells.
      rewrite num_rt in B1 by exact Hf. split; [exact B1|]. split; [exact B2|].
      intros j Hj. rewrite <- (rdc_exact dp) by exact Hd. apply B3. exact Hj.
  Qed.

  (* container invariants stated on the stored values only *)
  Record wf_scal_stored (c : scal) : Prop := {
    ws_rows : min_dim <= k_rows num c;
    ws_cols : min_dim <= k_cols num c;
    ws_fit : dims_fit (k_type num c) (k_rows num c) (k_cols num c) = true;
    ws_size : Z.max (k_rows num c) (k_cols num c) * Z.max (k_rows num c) (k_cols num c) <= int_max / 4;
    ws_nfreq : k_freqs num c <= int_max;
    ws_props : props_fine (k_props num c);
    ws_freqs : freqs_ok None (map cls (k_fvec num c)) = true }.
  Record wf_container_stored (v : container) : Prop := {
    wsc_gprops : props_fine (v_props num v);
    wsc_cals : Forall wf_scal_stored (live (v_slots num v));
    wsc_names : NoDup (names_of (v_slots num v)) }.

  Lemma wf_container_exact : forall v, exact_prec (v_fprec num v) = true -> wf_container_stored v -> wf_container v.
  Proof.
    intros v He [H1 H2 H3]. split; [exact H1| |exact H3].
    induction H2 as [|c r Hc Hr IH]; constructor; [|exact IH].
    destruct Hc. split; try assumption. apply freqs_ok_exact; assumption.
  Qed.

  Theorem cal_roundtrip_exact_models : forall v,
    exact_prec (v_fprec num v) = true -> exact_prec (v_dprec num v) = true -> wf_container_stored v ->
    exists cals, load_saved v = Ok cals /\ Forall2 cal_same (live (v_slots num v)) cals /\
                 map c_name cals = names_of (v_slots num v).
  Proof.
    intros v Hf Hd Hw. destruct (cal_roundtrip_models v (wf_container_exact v Hf Hw)) as [cals [A [B C]]].
    exists cals. split; [exact A|]. split; [|exact C].
    clear A C. induction B as [|k l r1 r2 Hkl Hr IH]; constructor; [|exact IH].
    apply (cal_equiv_exact _ _ _ _ Hf Hd Hkl).
  Qed.

  (* ---- one data entry (emit_parse_terms, every type and all dimensions) *)
  Lemma loaded_cells_defined : forall dp ly e, 0 <= l_terms ly -> cells_defined (l_terms ly) (loaded_cells dp ly e) = true.
  Proof.
    intros dp ly e H. unfold cells_defined. rewrite loaded_cells_length, Z2Nat.id, Z.eqb_refl by exact H. simpl.
    unfold loaded_cells. induction (zupto (l_terms ly)) as [|x r IH]; simpl; [reflexivity|exact IH].
  Qed.

  Theorem emit_parse_entry : forall fp dp t mr mc c findex f, 0 <= mr -> 0 <= mc -> readable (fclass fp f) = true ->
    let ly := mk_layout t mr mc in
    parse_entries 1 ly None [save_entry num num0 sc_real sc_cx fp dp ly c findex f]
    = Ok [(xf_of (fclass fp f), loaded_cells dp ly (e_at num num0 c findex))]
    /\ cells_defined (l_terms ly) (loaded_cells dp ly (e_at num num0 c findex)) = true.
  Proof.
    intros fp dp t mr mc c findex f Hr Hc Hf ly. split.
    - apply (parse_entries_saved fp dp t mr mc c Hr Hc [f] findex None). simpl. rewrite Hf. reflexivity.
    - apply loaded_cells_defined. apply l_terms_nonneg; assumption.
  Qed.
End RoundTrip.
