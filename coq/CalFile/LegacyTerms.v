(* C07, review round 2 (totalised definitions): the saver model reads cal_error_term_vector[term][findex]
   through CalSaveModel.e_at, which answers (num0, num0) outside the stored table (the C code would read
   out of bounds).  wf_terms states the shape a vnacal_calibration_t has (VL_ERROR_TERMS(layout) rows of
   cal_frequencies entries); under it every read the round-trip theorems make is a real entry. *)
Require Import ZArith List Bool String Lia.
Import ListNotations.
Require Import LV.CalFile.CalFileModel LV.CalFile.CalSaveModel.
Open Scope Z_scope.

Section Terms.
  Variable num : Type.
  Variable num0 : num.
  Definition wf_terms (c : scal num) : Prop :=
    Z.of_nat (List.length (k_terms num c)) = l_terms (mk_layout (k_type num c) (k_rows num c) (k_cols num c)) /\
    Forall (fun row => List.length row = List.length (k_fvec num c)) (k_terms num c).

  Lemma e_at_in_bounds : forall c fi j, wf_terms c -> 0 <= fi < k_freqs num c ->
    0 <= j < l_terms (mk_layout (k_type num c) (k_rows num c) (k_cols num c)) ->
    exists row, nth_error (k_terms num c) (Z.to_nat j) = Some row /\
                nth_error row (Z.to_nat fi) = Some (e_at num num0 c fi j).
  Proof.
    intros c fi j (L & R) Hf Hj. unfold k_freqs in Hf.
    assert (Lj : (Z.to_nat j < List.length (k_terms num c))%nat) by lia.
    exists (nth (Z.to_nat j) (k_terms num c) []). split; [apply nth_error_nth'; exact Lj|].
    unfold e_at. apply nth_error_nth'.
    rewrite Forall_forall in R. rewrite (R _ (nth_In _ _ Lj)). lia.
  Qed.
End Terms.
