(* Concrete instances for the legacy-version theorems: the hypotheses are met by the toy number type of
   CalSaveExamples.v and a container with a hole and two E12 calibrations (2x1 with a property sub-tree,
   2x2 with two frequencies); the 2.x tree loads (vm_compute) to what the 1.0 document loads to, in
   both spellings; a 2.x document that names another type is refused. *)
Require Import ZArith List Bool String Ascii QArith Lia.
Import ListNotations.
Require Import LV.CalFile.CalFileModel LV.CalFile.CalSaveModel LV.CalFile.CalSaveProofs LV.CalFile.CalSaveExamples.
Require Import LV.CalFile.LegacyModel LV.CalFile.LegacyProofs.
Open Scope Z_scope.

Module ToyLegacy.
  Import Toy.
  Definition e12b : scal num :=
    {| k_name := "c"; k_type := E12; k_rows := 2; k_cols := 2; k_fvec := [false; true]; k_z0 := (true, true);
       k_props := None;
       k_terms := [[(true, true); (false, false)]; [(false, true); (true, false)]; [(false, false); (true, true)];
                   [(true, false); (false, true)]; [(true, true); (true, false)]; [(false, true); (false, false)];
                   [(false, false); (false, true)]; [(true, false); (true, true)]; [(true, true); (false, true)];
                   [(false, true); (true, true)]; [(true, false); (false, false)]; [(false, false); (true, false)]] |}.
  Definition oldbox : container num :=
    {| v_fprec := 6; v_dprec := 7; v_props := Some (NS (blank_scalar "~")); v_slots := [Some e12; None; Some e12b] |}.

  Lemma oldbox_wf : wf_container num sc_real oldbox.
  Proof.
    split.
    - reflexivity.
    - repeat constructor; try reflexivity; simpl; try lia; discriminate.
    - repeat constructor; simpl; intuition discriminate.
  Qed.
  Lemma oldbox_e12 : all_e12 num (v_slots num oldbox).
  Proof. intros c [H|[H|[H|[]]]]; inversion H; reflexivity. Qed.

  Definition old_style : legacy_style := {| ls_sets_key := true; ls_type_key := false |}.    (* compat-V2.vnacal *)
  Definition new_style : legacy_style := {| ls_sets_key := false; ls_type_key := true |}.
  Definition legacy (st : legacy_style) : node := legacy_doc num false sc_int sc_real sc_cx sc_name sc_type st oldbox.
  Definition current : node := save_doc num false sc_int sc_real sc_cx sc_name sc_type oldbox.

  (* computed: both spellings of the 2.x tree load to what the 1.0 document loads to: two calibrations *)
  Example oldbox_loads_same :
    load (legacy_vline 0) (Some (legacy old_style)) = load save_vline (Some current) /\
    load (legacy_vline 3) (Some (legacy new_style)) = load save_vline (Some current) /\
    match load save_vline (Some current) with
    | Ok [c1; c2] => c_name c1 = "b"%string /\ c_name c2 = "c"%string /\ wf_cal c1 = true /\ wf_cal c2 = true /\ c_freqs c2 = 2
    | _ => False
    end.
  Proof. vm_compute. repeat split; reflexivity. Qed.

  (* through the theorem: every hypothesis is discharged by this instance *)
  Example oldbox_legacy_versions :
    load (legacy_vline 0) (Some (legacy old_style)) = load save_vline (Some current) /\
    load (v3_vline 7) (Some current) = load save_vline (Some current) /\
    load save_vline (Some current) = Ok (map (loaded_cal num false sc_real sc_cx 6 7) [e12; e12b]).
  Proof.
    exact (legacy_versions_models num false sc_int sc_real sc_cx sc_name sc_type int_rt cx_accepted name_text type_rt
             old_style 0 7 oldbox oldbox_wf oldbox_e12).
  Qed.

  (* the old format cannot express the TE10 of Toy.box: as coded, "type: TE10" under #VNACAL 2.x is refused,
     and the current document of a container read under the 2.x line is refused as well (no "e") *)
  Definition te10_as_legacy : node :=
    NM [(key_scalar "sets", NQ [NM [(key_scalar "name", NS (sc_name "a")); (key_scalar "type", NS (sc_type TE10));
                                    (key_scalar "rows", NS (sc_int 1)); (key_scalar "columns", NS (sc_int 2));
                                    (key_scalar "frequencies", NS (sc_int 0)); (key_scalar "data", NQ [])]])].
  Example legacy_other_type_refused :
    load (legacy_vline 0) (Some te10_as_legacy) = Err EBadMsg /\ load (legacy_vline 0) (Some current) = Err EBadMsg.
  Proof. vm_compute. split; reflexivity. Qed.
End ToyLegacy.
