(* The hypotheses of the apply_same theorems are met and the conclusion is not vacuous: on the toy
   container of LegacyExamples.v, with Gaussian rationals as the arithmetic of the apply model, the E12
   2x2 calibration "c" loaded from the 2.x tree and from the 1.0 document is applied to a measured
   matrix and yields `Filled' (vnacal_apply's linear system was set up), the same for both. *)
Require Import ZArith List Bool String Ascii QArith Qcanon Lia.
Import ListNotations.
Require Import LV.Base.CField LV.Base.QcI LV.Gen.LayoutGen LV.Cal.Sym LV.Cal.ApplyModel.
Require Import LV.CalFile.CalSaveModel LV.CalFile.CalSaveProofs LV.CalFile.CalSaveExamples.
Require Import LV.CalFile.LegacyModel LV.CalFile.LegacyProofs LV.CalFile.LegacyExamples LV.CalFile.LegacyApply LV.CalFile.LegacyApplyProofs.
Open Scope Z_scope.

Module ToyApply.
  Import Toy ToyLegacy.
  Definition OQ : Ops := ops_of QIF.
  (* a toy complex value per toy number pair: T -> 2, F -> 1/3 *)
  Definition tv (b : bool) : Qc := if b then Q2Qc (2 # 1) else Q2Qc (1 # 3).
  Definition inj (z : num * num) : OQ := QI (tv (fst z)) (tv (snd z)).
  Definition val (s : string) : OQ := match val_cx s with Some z => inj z | None => QI (Q2Qc 0) (Q2Qc 0) end.
  Lemma val_inj : forall s z, val_cx s = Some z -> val s = inj z.
  Proof. intros s z H. unfold val. rewrite H. reflexivity. Qed.

  Definition m22 : list OQ := [QI (Q2Qc (1 # 2)) (Q2Qc 0); QI (Q2Qc 0) (Q2Qc (1 # 5)); QI (Q2Qc (3 # 1)) (Q2Qc 0); QI (Q2Qc (1 # 7)) (Q2Qc 1)].

  Example apply_same_versions_satisfiable :
    exists cals2 cals1,
      F.load (legacy_vline 0) (Some (legacy old_style)) = F.Ok cals2 /\
      F.load save_vline (Some current) = F.Ok cals1 /\
      map (fun c => apply_loaded OQ val c 1 m22) cals2 = map (fun c => apply_loaded OQ val c 1 m22) cals1 /\
      match map (fun c => apply_loaded OQ val c 1 m22) cals1 with
      | [None; Some (Filled _ _ _)] => True            (* "b" has one frequency; "c" is applied at findex 1 *)
      | _ => False
      end.
  Proof.
    destruct (F.load (legacy_vline 0) (Some (legacy old_style))) as [cals2|] eqn:E2; [|vm_compute in E2; discriminate].
    destruct (F.load save_vline (Some current)) as [cals1|] eqn:E1; [|vm_compute in E1; discriminate].
    exists cals2, cals1. split; [reflexivity|]. split; [reflexivity|]. split.
    - apply (apply_same_versions_models num false sc_int sc_real sc_cx sc_name sc_type int_rt cx_accepted name_text type_rt
               OQ val old_style 0 0 oldbox cals2 cals1 cals1 oldbox_wf oldbox_e12 E2 E1 E1 1%nat m22).
    - vm_compute in E1. inversion E1; subst cals1. vm_compute. exact I.
  Qed.
End ToyApply.
