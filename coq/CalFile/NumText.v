(* Text produced by the number formats of vnacal_save.c and the buffers it is written into.
   Model only (no proofs here).  A format is a list of items; for each conversion the *shape* of
   what C99 printf can produce for a finite or non-finite binary64 / a 32-bit int is described and
   its length computed:
     %[+].*e  with precision p-1:  [sign] d [. d{p-1}] e sign dd[d]          | [sign] inf | [sign] nan
     %[+]a                      :  [sign] 0x h [. h{1..13}] p sign d{1..4}   | [sign] inf | [sign] nan
     %d                         :  [-] d{1..10}
   The generated file Gen/SaveBufGen.v instantiates [savecfg] from the C text. *)
Require Import ZArith List Bool.
Import ListNotations.
Open Scope Z_scope.

Inductive fitem := FLit | FD | FE (plus : bool) | FA (plus : bool).

(* shapes *)
Inductive eshape :=
| EFinite (neg : bool) (exp3 : bool)      (* sign character?  three exponent digits? *)
| ESpecial (neg : bool).                  (* inf / nan *)
Inductive ashape :=
| AFinite (neg : bool) (fracdigits : Z) (expdigits : Z)   (* 0 <= fracdigits <= 13, 1 <= expdigits <= 4 *)
| ASpecial (neg : bool).
Inductive dshape := DInt (neg : bool) (digits : Z).        (* 1 <= digits <= 10 *)

Definition b2z (b : bool) : Z := if b then 1 else 0.

(* p = number of significant digits (the C code passes p - 1 to %.*e) *)
Definition len_e (plus : bool) (p : Z) (s : eshape) : Z :=
  match s with
  | EFinite neg exp3 => b2z (plus || neg) + 1 + (if p <=? 1 then 0 else 1 + (p - 1)) + 1 + 1 + (if exp3 then 3 else 2)
  | ESpecial neg => b2z (plus || neg) + 3
  end.
Definition len_a (plus : bool) (s : ashape) : Z :=
  match s with
  | AFinite neg fd ed => b2z (plus || neg) + 2 + 1 + (if fd <=? 0 then 0 else 1 + fd) + 1 + 1 + ed
  | ASpecial neg => b2z (plus || neg) + 3
  end.
Definition len_d (s : dshape) : Z := match s with DInt neg n => b2z neg + n end.

Definition eshape_ok (s : eshape) : Prop := True.
Definition ashape_ok (s : ashape) : Prop :=
  match s with AFinite _ fd ed => 0 <= fd <= 13 /\ 1 <= ed <= 4 | ASpecial _ => True end.
Definition dshape_ok (s : dshape) : Prop := match s with DInt _ n => 1 <= n <= 10 end.

(* longest text of one item at precision p *)
Definition max_e (p : Z) : Z := if p <=? 1 then 7 else p + 7.
Definition max_item (p : Z) (i : fitem) : Z :=
  match i with
  | FLit => 1
  | FD => 11
  | FE _ => max_e p
  | FA _ => 24
  end.
Definition max_text (p : Z) (f : list fitem) : Z := fold_right (fun i acc => max_item p i + acc) 0 f.

(* the C side *)
Record setter := { s_lo : Z; s_hi : option Z }.
Definition accepts (s : setter) (p : Z) : bool :=
  (s_lo s <=? p) && match s_hi s with Some h => p <=? h | None => true end.

(* char buf[a_coef * MAX(precision, 1) + a_const]; a_bounded: snprintf(buf, sizeof(buf), ..) *)
Record adder := { a_coef : Z; a_const : Z; a_bounded : bool; a_dec : list fitem; a_max : option (list fitem) }.
Definition buf_size (a : adder) (p : Z) : Z := a_coef a * Z.max p 1 + a_const a.
Definition fmt_used (maxp : Z) (a : adder) (p : Z) : list fitem :=
  match a_max a with
  | Some f => if p =? maxp then f else a_dec a
  | None => a_dec a
  end.
(* the text and its terminating NUL fit, and the (possibly variable length) array stays below the
   size this development accepts for an object on the stack *)
Definition vla_limit : Z := 65536.
Definition fits (maxp : Z) (a : adder) (p : Z) : bool :=
  (max_text p (fmt_used maxp a p) + 1 <=? buf_size a p) && (buf_size a p <=? vla_limit).

Record savecfg := { c_maxp : Z; c_fset : setter; c_dset : setter; c_int : adder; c_dbl : adder; c_cpx : adder }.

(* smallest precision in [lo, lo + fuel) the setter accepts and whose text does not fit (for the search) *)
Fixpoint first_unfit (maxp : Z) (s : setter) (a : adder) (p : Z) (fuel : nat) : option Z :=
  match fuel with
  | O => None
  | S k => if accepts s p && negb (fits maxp a p) then Some p else first_unfit maxp s a (p + 1) k
  end.

(* sufficient, decidable condition for "fits for every accepted precision" *)
Definition lin_items (f : list fitem) : Z * Z :=      (* (number of %e items, other characters) *)
  fold_right (fun i acc => match i with
                           | FE _ => (fst acc + 1, snd acc)
                           | FLit => (fst acc, snd acc + 1)
                           | FD => (fst acc, snd acc + 11)
                           | FA _ => (fst acc, snd acc + 24)
                           end) (0, 0) f.
Definition adder_safe (maxp : Z) (s : setter) (a : adder) : bool :=
  let '(ne, oc) := lin_items (a_dec a) in
  (1 <=? s_lo s) &&
  (* decimal branch, any p >= 1:  ne * (p + 7) + oc + 1 <= coef * p + const *)
  ((ne <=? a_coef a) && (ne * 8 + oc + 1 <=? a_coef a + a_const a)
   || match s_hi s with          (* or a bounded range with a constant buffer that is large enough at the top *)
      | Some h => (0 <=? a_coef a) && (ne * (h + 7) + oc + 1 <=? a_coef a * s_lo s + a_const a)
      | None => false
      end) &&
  match a_max a with
  | Some f => let '(ne2, oc2) := lin_items f in (ne2 =? 0) && (0 <=? a_coef a) && (oc2 + 1 <=? a_coef a + a_const a)
  | None => true
  end &&
  ((a_coef a =? 0) && (a_const a <=? vla_limit)
   || match s_hi s with
      | Some h => (0 <=? a_coef a) && (a_coef a * Z.max h 1 + a_const a <=? vla_limit)
      | None => false
      end).
Definition cfg_safe (c : savecfg) : bool :=
  adder_safe (c_maxp c) (c_fset c) (c_dbl c) && adder_safe (c_maxp c) (c_dset c) (c_cpx c) &&
  (max_text 1 (a_dec (c_int c)) + 1 <=? a_const (c_int c)) && (a_coef (c_int c) =? 0) && (a_const (c_int c) <=? vla_limit) &&
  forallb (fun i => match i with FE _ => false | _ => true end) (a_dec (c_int c)) &&
  match a_max (c_int c) with None => true | Some _ => false end.
