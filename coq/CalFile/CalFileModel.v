(* Model of vnacal_load.c (control logic) over an abstract YAML node tree.  The model of the saver
   vnacal_save.c is CalFile/CalSaveModel.v.  Model only: no proofs here.

   Oracles (outputs of libyaml / libc, computed by the trusted glue and attached to the tree):
     * the node tree itself (kind, scalar text cut at the first NUL, recursive aliases shown as NCYC);
     * per scalar: the result of sscanf("%d %c") (s_int), of sscanf("%lf %c") (s_real), whether
       parse_complex accepts the text (s_cx), vnacal_name_to_type (s_type), whether
       vnaproperty_set_subtree accepts the text as a key expression (s_keyok);
     * the version line as scanned by the two sscanf calls (vline).
   Allocation failure is not modelled; a property key that the property syntax rejects is EBADMSG
   (fix DO91; before it: the system error EINVAL, the loader's only ESys outcome), so ESys is no longer
   produced by the model (CalLoadErrClass.load_version_ok_badmsg).  The model follows the code as it is *after* the fixes D27, D27b,
   D28, D46 (matrices[] cleared per entry, entry kind checked, ascending from the second entry,
   NaN rejected, dimensions must fit the type, recursive aliases rejected). *)
Require Import ZArith List Bool String QArith.
Import ListNotations.
Open Scope Z_scope.

Inductive ctype := T8 | U8 | TE10 | UE10 | T16 | U16 | UE14 | E12.
Definition ctype_eqb (a b : ctype) : bool :=
  match a, b with
  | T8, T8 | U8, U8 | TE10, TE10 | UE10, UE10 | T16, T16 | U16, U16 | UE14, UE14 | E12, E12 => true
  | _, _ => false
  end.
Definition is_t (t : ctype) : bool := match t with T8 | TE10 | T16 => true | _ => false end.

(* result of sscanf("%lf %c") == 1 on a scalar *)
Inductive rclass := RBad | RNaN | RNeg | RNonneg (q : Q) | RPInf.

Record scalar := { s_text : string; s_int : option Z; s_real : rclass; s_cx : bool;
                   s_type : option ctype; s_keyok : bool }.
Inductive node := NS (s : scalar) | NQ (items : list node) | NM (pairs : list (node * node)) | NCYC.

Inductive err := EBadMsg | EProto | ESys.
Inductive res (A : Type) := Ok (a : A) | Err (e : err).
Arguments Ok {A} a.
Arguments Err {A} e.

(* ---------------------------------------------------------------- layout (_vnacal_layout, VL_* macros) *)
Record layout := { l_type : ctype; l_mr : Z; l_mc : Z; l_ti : Z; l_tx : Z; l_tm : Z; l_tt : Z;
                   l_el_off : Z; l_el_terms : Z; l_terms : Z }.
Definition mk_layout (t : ctype) (mr mc : Z) : layout :=
  let diag := Z.min mr mc in
  let ports := Z.max mr mc in
  let sr := ports in let sc := ports in
  match t with
  | T16 =>
      let ti := mr * sr in let tx := ti + mr * sc in let tm := tx + mc * sr in let tt := tm + mc * sc in
      Build_layout t mr mc ti tx tm tt tt 0 tt
  | TE10 | T8 =>
      let ti := Z.min mr sr in let tx := ti + Z.min mr sc in let tm := tx + Z.min mc sr in let tt := tm + Z.min mc sc in
      let el := match t with TE10 => mr * mc - diag | _ => 0 end in
      Build_layout t mr mc ti tx tm tt tt el (tt + el)
  | U16 =>
      let ui := sr * mr in let ux := ui + sr * mc in let us := ux + sc * mr in let ut := us + sc * mc in
      Build_layout t mr mc ui ux us ut ut 0 ut
  | UE10 | U8 =>
      let ui := Z.min sr mr in let ux := ui + Z.min sr mc in let us := ux + Z.min sc mr in let ut := us + Z.min sc mc in
      let el := match t with UE10 => mr * mc - diag | _ => 0 end in
      Build_layout t mr mc ui ux us ut ut el (ut + el)
  | UE14 =>
      let ui := Z.min sr mr in let ux := ui + 1 in let us := ux + Z.min sc mr in let ut := us + 1 in
      let el := mr * mc - diag in
      Build_layout t mr mc ui ux us ut (mc * ut) el (mc * ut + el)
  | E12 =>
      let er := mr in let et := er + mr in let em := et + 0 in let e := em + mr in
      Build_layout t mr mc er et em e 0 mr (mc * e)
  end.

(* ---------------------------------------------------------------- cells of one frequency *)
Definition cells := list (option string).          (* None = never written *)
Fixpoint set_nth (l : cells) (n : nat) (v : string) : cells :=
  match l, n with
  | [], _ => []
  | _ :: r, O => Some v :: r
  | x :: r, S k => x :: set_nth r k v
  end.
Definition wr (l : cells) (i : Z) (v : string) : cells := if i <? 0 then l else set_nth l (Z.to_nat i) v.

(* destination of the k-th parsed cell of a matrix *)
Inductive dest := DOff (off : Z)                          (* &e[off] : cell k -> off + k *)
                | DPack (mc ut base : Z).                 (* packed[term][column]: k -> (k mod mc) * ut + base + k / mc *)
Definition dst (d : dest) (k : Z) : Z :=
  match d with
  | DOff off => off + k
  | DPack mc ut base => (k mod mc) * ut + base + k / mc
  end.

Definition is_null_text (s : string) : bool := String.eqb s "~" || String.eqb s "null".

(* parse_vector *)
Fixpoint pv_items (d : dest) (k : Z) (items : list node) (c : cells) : res cells :=
  match items with
  | [] => Ok c
  | NS s :: r => if s_cx s then pv_items d (k + 1) r (wr c (dst d k) (s_text s)) else Err EBadMsg
  | _ :: _ => Err EBadMsg
  end.
Definition parse_vector (d : dest) (len : Z) (n : node) (c : cells) : res cells :=
  match n with
  | NQ items => if Z.of_nat (List.length items) =? len then pv_items d 0 items c else Err EBadMsg
  | _ => Err EBadMsg
  end.

(* parse_matrix: one row; returns the cells and the running cell counter *)
Fixpoint pm_row (d : dest) (nodiag : bool) (row col k : Z) (items : list node) (c : cells) : res (cells * Z) :=
  match items with
  | [] => Ok (c, k)
  | x :: r =>
      if nodiag && (row =? col) then
        match x with
        | NS s => if is_null_text (s_text s) then pm_row d nodiag row (col + 1) k r c else Err EBadMsg
        | _ => Err EBadMsg
        end
      else
        match x with
        | NS s => if s_cx s then pm_row d nodiag row (col + 1) (k + 1) r (wr c (dst d k) (s_text s)) else Err EBadMsg
        | _ => Err EBadMsg
        end
  end.
Fixpoint pm_rows (d : dest) (nodiag : bool) (cols row k : Z) (rows : list node) (c : cells) : res cells :=
  match rows with
  | [] => Ok c
  | NQ items :: r =>
      if Z.of_nat (List.length items) =? cols then
        match pm_row d nodiag row 0 k items c with
        | Err e => Err e
        | Ok (c', k') => pm_rows d nodiag cols (row + 1) k' r c'
        end
      else Err EBadMsg
  | _ :: _ => Err EBadMsg
  end.
Definition parse_matrix (d : dest) (rows cols : Z) (n : node) (nodiag : bool) (c : cells) : res cells :=
  match n with
  | NQ rs => if Z.of_nat (List.length rs) =? rows then pm_rows d nodiag cols 0 0 rs c else Err EBadMsg
  | _ => Err EBadMsg
  end.

(* parse_old_e_matrix: rows x cols cells, each a sequence of three scalars el, er, em *)
Fixpoint po_triple (ly : layout) (cell term : Z) (items : list node) (c : cells) : res cells :=
  match items with
  | [] => Ok c
  | NS s :: r =>
      if s_cx s then
        let mc := l_mc ly in let e := l_tt ly in
        let base := if term =? 0 then 0 else if term =? 1 then l_ti ly else l_tm ly in
        po_triple ly cell (term + 1) r (wr c (dst (DPack mc e base) cell) (s_text s))
      else Err EBadMsg
  | _ :: _ => Err EBadMsg
  end.
Fixpoint po_row (ly : layout) (cell : Z) (items : list node) (c : cells) : res (cells * Z) :=
  match items with
  | [] => Ok (c, cell)
  | NQ trip :: r =>
      if Z.of_nat (List.length trip) =? 3 then
        match po_triple ly cell 0 trip c with
        | Err e => Err e
        | Ok c' => po_row ly (cell + 1) r c'
        end
      else Err EBadMsg
  | _ :: _ => Err EBadMsg
  end.
Fixpoint po_rows (ly : layout) (cell : Z) (rows : list node) (c : cells) : res cells :=
  match rows with
  | [] => Ok c
  | NQ items :: r =>
      if Z.of_nat (List.length items) =? l_mc ly then
        match po_row ly cell items c with
        | Err e => Err e
        | Ok (c', cell') => po_rows ly cell' r c'
        end
      else Err EBadMsg
  | _ :: _ => Err EBadMsg
  end.
Definition parse_old_e (ly : layout) (n : node) (c : cells) : res cells :=
  match n with
  | NQ rs => if Z.of_nat (List.length rs) =? l_mr ly then po_rows ly 0 rs c else Err EBadMsg
  | _ => Err EBadMsg
  end.

(* ---------------------------------------------------------------- matrices[] of one data entry *)
Inductive mid := ME | MEL | MER | MEM | MTS | MTI | MTX | MTM | MUM | MUI | MUX | MUS.
Definition mid_eqb (a b : mid) : bool :=
  match a, b with
  | ME, ME | MEL, MEL | MER, MER | MEM, MEM | MTS, MTS | MTI, MTI | MTX, MTX | MTM, MTM
  | MUM, MUM | MUI, MUI | MUX, MUX | MUS, MUS => true
  | _, _ => false
  end.
Definition key_mid (k : string) : option mid :=
  if String.eqb k "e" then Some ME else if String.eqb k "el" then Some MEL else
  if String.eqb k "em" then Some MEM else if String.eqb k "er" then Some MER else
  if String.eqb k "ti" then Some MTI else if String.eqb k "tm" then Some MTM else
  if String.eqb k "ts" then Some MTS else if String.eqb k "tx" then Some MTX else
  if String.eqb k "ui" then Some MUI else if String.eqb k "um" then Some MUM else
  if String.eqb k "us" then Some MUS else if String.eqb k "ux" then Some MUX else None.
Definition mats := list (mid * node).
Fixpoint lookup (m : mats) (i : mid) : option node :=        (* the last assignment wins: newest first *)
  match m with
  | [] => None
  | (j, n) :: r => if mid_eqb i j then Some n else lookup r i
  end.

Definition required (ver : Z) (t : ctype) : list mid :=
  if ver =? 0 then [ME] else
  match t with
  | TE10 => [MEL; MTS; MTI; MTX; MTM]
  | T8 | T16 => [MTS; MTI; MTX; MTM]
  | UE10 | UE14 => [MEL; MUM; MUI; MUX; MUS]
  | U8 | U16 => [MUM; MUI; MUX; MUS]
  | E12 => [MEL; MER; MEM]
  end.

(* one step of parse_matrices: matrix id, how it is parsed *)
Inductive pstep := PVec (i : mid) (d : dest) (len : Z) | PMat (i : mid) (d : dest) (rows cols : Z) (nodiag : bool) | POld.
Definition psteps (ver : Z) (ly : layout) : list pstep :=
  let mr := l_mr ly in let mc := l_mc ly in let ports := Z.max mr mc in
  let ti := l_ti ly in let tx := l_tx ly in let tm := l_tm ly in let tt := l_tt ly in
  match l_type ly with
  | T8 => [PVec MTS (DOff 0) ti; PVec MTI (DOff ti) (tx - ti); PVec MTX (DOff tx) (tm - tx); PVec MTM (DOff tm) (tt - tm)]
  | TE10 => [PVec MTS (DOff 0) ti; PVec MTI (DOff ti) (tx - ti); PVec MTX (DOff tx) (tm - tx); PVec MTM (DOff tm) (tt - tm);
             PMat MEL (DOff (l_el_off ly)) mr mc true]
  | U8 => [PVec MUM (DOff 0) ti; PVec MUI (DOff ti) (tx - ti); PVec MUX (DOff tx) (tm - tx); PVec MUS (DOff tm) (tt - tm)]
  | UE10 => [PVec MUM (DOff 0) ti; PVec MUI (DOff ti) (tx - ti); PVec MUX (DOff tx) (tm - tx); PVec MUS (DOff tm) (tt - tm);
             PMat MEL (DOff (l_el_off ly)) mr mc true]
  | T16 => [PMat MTS (DOff 0) mr ports false; PMat MTI (DOff ti) mr ports false;
            PMat MTX (DOff tx) mc ports false; PMat MTM (DOff tm) mc ports false]
  | U16 => [PMat MUM (DOff 0) ports mr false; PMat MUI (DOff ti) ports mc false;
            PMat MUX (DOff tx) ports mr false; PMat MUS (DOff tm) ports mc false]
  | UE14 => [PMat MUM (DPack mc tt 0) ti mc false; PMat MUI (DPack mc tt ti) (tx - ti) mc false;
             PMat MUX (DPack mc tt tx) (tm - tx) mc false; PMat MUS (DPack mc tt tm) (tt - tm) mc false;
             PMat MEL (DOff (l_el_off ly)) mr mc true]
  | E12 => if ver =? 0 then [POld] else
           [PMat MEL (DPack mc tt 0) (l_el_terms ly) mc false; PMat MER (DPack mc tt ti) (tx - ti) mc false;
            PMat MEM (DPack mc tt tm) (tt - tm) mc false]
  end.

Fixpoint run_steps (ly : layout) (m : mats) (steps : list pstep) (c : cells) : res cells :=
  match steps with
  | [] => Ok c
  | st :: r =>
      let one :=
        match st with
        | PVec i d len => match lookup m i with Some n => parse_vector d len n c | None => Err EBadMsg end
        | PMat i d rows cols nd => match lookup m i with Some n => parse_matrix d rows cols n nd c | None => Err EBadMsg end
        | POld => match lookup m ME with Some n => parse_old_e ly n c | None => Err EBadMsg end
        end in
      match one with Err e => Err e | Ok c' => run_steps ly m r c' end
  end.

(* frequencies as they come out of sscanf: a non-negative rational or +infinity *)
Inductive xfreq := XQ (q : Q) | XInf.
Definition xle (a b : xfreq) : bool :=                 (* a <= b *)
  match a, b with
  | XQ x, XQ y => Qle_bool x y
  | XQ _, XInf => true
  | XInf, XInf => true
  | XInf, XQ _ => false
  end.
Definition xlt (a b : xfreq) : bool := negb (xle b a).

(* the scan of one data entry: pairs in order; an unparsable "f" aborts at once *)
Fixpoint scan_entry (pairs : list (node * node)) (m : mats) (f : rclass) : res (mats * rclass) :=
  match pairs with
  | [] => Ok (m, f)
  | (NS k, v) :: r =>
      if String.eqb (s_text k) "f" then
        match v with
        | NS s => match s_real s with RBad => Err EBadMsg | x => scan_entry r m x end
        | _ => Err EBadMsg
        end
      else
        match key_mid (s_text k) with
        | Some i => scan_entry r ((i, v) :: m) f
        | None => scan_entry r m f
        end
  | (_, _) :: r => scan_entry r m f
  end.

Definition blank (ly : layout) : cells := repeat None (Z.to_nat (l_terms ly)).

Fixpoint parse_entries (ver : Z) (ly : layout) (prev : option xfreq) (items : list node) : res (list (xfreq * cells)) :=
  match items with
  | [] => Ok []
  | NM pairs :: rest =>
      match scan_entry pairs [] RNeg with            (* frequency = -1.0 before the scan *)
      | Err e => Err e
      | Ok (m, f) =>
          if forallb (fun i => match lookup m i with Some _ => true | None => false end) (required ver (l_type ly)) then
            match f with
            | RNonneg _ | RPInf =>
                let x := match f with RNonneg q => XQ q | _ => XInf end in
                if match prev with Some p => xle x p | None => false end then Err EBadMsg else
                match run_steps ly m (psteps ver ly) (blank ly) with
                | Err e => Err e
                | Ok c =>
                    match parse_entries ver ly (Some x) rest with
                    | Err e => Err e
                    | Ok l => Ok ((x, c) :: l)
                    end
                end
            | _ => Err EBadMsg
            end
          else Err EBadMsg
      end
  | _ :: _ => Err EBadMsg
  end.

Definition parse_data (ver : Z) (ly : layout) (freqs : Z) (n : node) : res (list (xfreq * cells)) :=
  match n with
  | NQ items => if Z.of_nat (List.length items) =? freqs then parse_entries ver ly None items else Err EBadMsg
  | _ => Err EBadMsg
  end.

(* ---------------------------------------------------------------- properties (import), Ok/Error only *)
Fixpoint props_ok (n : node) : res unit :=
  match n with
  | NS _ => Ok tt
  | NCYC => Err EBadMsg
  | NQ items =>
      (fix go (l : list node) : res unit :=
         match l with [] => Ok tt | x :: r => match props_ok x with Err e => Err e | Ok _ => go r end end) items
  | NM pairs =>
      (fix go (l : list (node * node)) : res unit :=
         match l with
         | [] => Ok tt
         | (NS k, v) :: r => if s_keyok k then match props_ok v with Err e => Err e | Ok _ => go r end else Err EBadMsg
         | (_, _) :: r => go r
         end) pairs
  end.

(* ---------------------------------------------------------------- parse_set *)
(* c_props: the YAML sub-tree handed to the property importer (parse_properties), kept as it is:
   the import itself is property C14; None = no "properties" key in the calibration *)
Record cal := { c_name : string; c_type : ctype; c_rows : Z; c_cols : Z; c_freqs : Z;
                c_z0 : option string; c_props : option node; c_data : list (xfreq * cells) }.

Record setacc := { a_name : option string; a_ty : option ctype; a_rows : Z; a_colsn : Z; a_fr : Z;
                   a_z0 : option string; a_props : option node; a_data : option node }.
Definition acc0 : setacc := Build_setacc None None (-1) (-1) (-1) None None None.

Definition parse_int (v : node) : option Z := match v with NS s => s_int s | _ => None end.

Fixpoint scan_set (pairs : list (node * node)) (a : setacc) : res setacc :=
  match pairs with
  | [] => Ok a
  | (NS k, v) :: r =>
      let key := s_text k in
      if String.eqb key "columns" then
        match parse_int v with Some x => scan_set r (Build_setacc (a_name a) (a_ty a) (a_rows a) x (a_fr a) (a_z0 a) (a_props a) (a_data a)) | None => Err EBadMsg end
      else if String.eqb key "data" then
        scan_set r (Build_setacc (a_name a) (a_ty a) (a_rows a) (a_colsn a) (a_fr a) (a_z0 a) (a_props a) (Some v))
      else if String.eqb key "frequencies" then
        match parse_int v with Some x => scan_set r (Build_setacc (a_name a) (a_ty a) (a_rows a) (a_colsn a) x (a_z0 a) (a_props a) (a_data a)) | None => Err EBadMsg end
      else if String.eqb key "name" then
        match v with NS s => scan_set r (Build_setacc (Some (s_text s)) (a_ty a) (a_rows a) (a_colsn a) (a_fr a) (a_z0 a) (a_props a) (a_data a)) | _ => Err EBadMsg end
      else if String.eqb key "properties" then
        scan_set r (Build_setacc (a_name a) (a_ty a) (a_rows a) (a_colsn a) (a_fr a) (a_z0 a) (Some v) (a_data a))
      else if String.eqb key "rows" then
        match parse_int v with Some x => scan_set r (Build_setacc (a_name a) (a_ty a) x (a_colsn a) (a_fr a) (a_z0 a) (a_props a) (a_data a)) | None => Err EBadMsg end
      else if String.eqb key "type" then
        match v with
        | NS s => match s_type s with Some t => scan_set r (Build_setacc (a_name a) (Some t) (a_rows a) (a_colsn a) (a_fr a) (a_z0 a) (a_props a) (a_data a)) | None => Err EBadMsg end
        | _ => Err EBadMsg
        end
      else if String.eqb key "z0" then
        match v with
        | NS s => if s_cx s then scan_set r (Build_setacc (a_name a) (a_ty a) (a_rows a) (a_colsn a) (a_fr a) (Some (s_text s)) (a_props a) (a_data a)) else Err EBadMsg
        | _ => Err EBadMsg
        end
      else scan_set r a
  | (_, _) :: r => scan_set r a
  end.

Definition int_max : Z := 2147483647.
Definition dims_fit (t : ctype) (rows cols : Z) : bool := if is_t t then rows <=? cols else cols <=? rows.
(* smallest number of rows / columns parse_set accepts.  As coded: 0 (only negative values, i.e. missing
   fields, are rejected; with 0 the test below is dead).  Finding DC1: "columns: 0" with UE14 / E12 makes
   parse_matrices declare a variable length array with bound 0; the proposed repair
   fixes/DC1_load_zero_dimensions.diff rejects dimensions below 1 - when it is applied this constant
   becomes 1 and nothing else changes. *)
Definition min_dim : Z := 1.

Definition parse_set (ver : Z) (n : node) : res cal :=
  match n with
  | NM pairs =>
      match scan_set pairs acc0 with
      | Err e => Err e
      | Ok a =>
          match a_name a, a_data a with
          | Some name, Some data =>
              if (a_rows a <? 0) || (a_colsn a <? 0) || (a_fr a <? 0) then Err EBadMsg else
              let ty := if ver =? 0 then
                          match a_ty a with
                          | Some t => if ctype_eqb t E12 then Some E12 else None
                          | None => Some E12
                          end
                        else a_ty a in
              match ty with
              | None => Err EBadMsg
              | Some t =>
                  if (a_rows a <? min_dim) || (a_colsn a <? min_dim) || negb (dims_fit t (a_rows a) (a_colsn a)) then Err EBadMsg else
                  let p := Z.max (a_rows a) (a_colsn a) in
                  if int_max / 4 <? p * p then Err EBadMsg else
                  let ly := mk_layout t (a_rows a) (a_colsn a) in
                  match (match a_props a with Some pn => props_ok pn | None => Ok tt end) with
                  | Err e => Err e
                  | Ok _ =>
                      match parse_data ver ly (a_fr a) data with
                      | Err e => Err e
                      | Ok d => Ok (Build_cal name t (a_rows a) (a_colsn a) (a_fr a) (a_z0 a) (a_props a) d)
                      end
                  end
              end
          | _, _ => Err EBadMsg
          end
      end
  | _ => Err EBadMsg
  end.

(* _vnacal_add_calibration_common on a container without holes: replace by name or append *)
Fixpoint add_cal (l : list cal) (c : cal) : list cal :=
  match l with
  | [] => [c]
  | x :: r => if String.eqb (c_name x) (c_name c) then c :: r else x :: add_cal r c
  end.

Fixpoint parse_calibrations (ver : Z) (items : list node) (acc : list cal) : res (list cal) :=
  match items with
  | [] => Ok acc
  | x :: r => match parse_set ver x with Err e => Err e | Ok c => parse_calibrations ver r (add_cal acc c) end
  end.

Fixpoint parse_document (ver : Z) (pairs : list (node * node)) (acc : list cal) : res (list cal) :=
  match pairs with
  | [] => Ok acc
  | (NS k, v) :: r =>
      let key := s_text k in
      match (if String.eqb key "properties" then props_ok v else Ok tt) with
      | Err e => Err e
      | Ok _ =>
          if String.eqb key "calibrations" || ((ver =? 0) && String.eqb key "sets") then
            match v with
            | NQ items => match parse_calibrations ver items acc with Err e => Err e | Ok a => parse_document ver r a end
            | _ => Err EBadMsg
            end
          else parse_document ver r acc
      end
  | (_, _) :: r => parse_document ver r acc
  end.

(* the sub-trees imported into vc_properties, in document order (every "properties" key of the top
   level is imported; the import itself is property C14) *)
Fixpoint doc_gprops (pairs : list (node * node)) : list node :=
  match pairs with
  | [] => []
  | (NS k, v) :: r => if String.eqb (s_text k) "properties" then v :: doc_gprops r else doc_gprops r
  | (_, _) :: r => doc_gprops r
  end.

(* the version line: result of the two sscanf calls *)
Inductive vline := VBad | VNew (major minor : Z) | VOld (major minor : Z).
Definition version_of (v : vline) : res Z :=
  match v with
  | VBad => Err EBadMsg
  | VNew major _ => if 1 <? major then Err EProto else Ok major
  | VOld major _ => if major =? 2 then Ok 0 else if major =? 3 then Ok 1 else Err EProto
  end.

(* vnacal_load: doc = None when libyaml rejects the text or the document is empty *)
Definition load (v : vline) (doc : option node) : res (list cal) :=
  match version_of v with
  | Err e => Err e
  | Ok ver =>
      match doc with
      | None => Err EBadMsg
      | Some (NM pairs) => parse_document ver pairs []
      | Some _ => Err EBadMsg
      end
  end.

(* ---------------------------------------------------------------- well-formedness of the result *)
Fixpoint ascending (prev : option xfreq) (l : list xfreq) : bool :=
  match l with
  | [] => true
  | x :: r => match prev with Some p => xlt p x | None => true end && ascending (Some x) r
  end.
Definition cells_defined (n : Z) (c : cells) : bool :=
  (Z.of_nat (List.length c) =? n) && forallb (fun x => match x with Some _ => true | None => false end) c.
Definition wf_shape (c : cal) : bool :=
  dims_fit (c_type c) (c_rows c) (c_cols c) && (0 <=? c_rows c) && (0 <=? c_cols c) &&
  (Z.of_nat (List.length (c_data c)) =? c_freqs c) && ascending None (map fst (c_data c)).
Definition wf_cells (c : cal) : bool :=
  forallb (fun fc => cells_defined (l_terms (mk_layout (c_type c) (c_rows c) (c_cols c))) (snd fc)) (c_data c).
Definition wf_cal (c : cal) : bool := wf_shape c && wf_cells c.

(* ---------------------------------------------------------------- scalars written by literal text *)
(* a mapping key / the '~' of a diagonal: yaml_document_add_scalar of a string literal.  The loader
   reads only s_text of these (and s_keyok inside property trees). *)
Definition null_scalar : node := NS (Build_scalar "~" None RBad false None false).
Definition key_scalar (k : string) : node := NS (Build_scalar k None RBad false None true).
Definition mid_key (i : mid) : string :=
  match i with
  | ME => "e" | MEL => "el" | MER => "er" | MEM => "em" | MTS => "ts" | MTI => "ti" | MTX => "tx" | MTM => "tm"
  | MUM => "um" | MUI => "ui" | MUX => "ux" | MUS => "us"
  end.
