(* Concrete instances of the Section variables of CalFile/CalSaveProofs.v: the hypotheses about
   printf / strtod are satisfiable (a toy number type), the theorems are not vacuous (a container
   with a hole, two types, several frequencies), and the bounded sweep that used to be the only
   emit/parse evidence is kept as an Example on the saver model. *)
Require Import ZArith List Bool String Ascii QArith Lia.
Import ListNotations.
Require Import LV.CalFile.CalFileModel LV.CalFile.CalSaveModel LV.CalFile.CalSaveProofs.
Open Scope Z_scope.

(* ---------------------------------------------------------------- a toy number type: two values *)
Module Toy.
  Definition num := bool.
  Definition ch (b : bool) : string := if b then "T"%string else "F"%string.
  Definition blank_scalar (t : string) : scalar := Build_scalar t None RBad false None false.
  Definition sc_int (n : Z) : scalar := Build_scalar "int" (Some n) RBad false None false.
  Definition cls (b : num) : rclass := RNonneg (if b then 2 # 1 else 1 # 1).
  Definition sc_real (p : Z) (x : num) : scalar := Build_scalar (ch x) None (cls x) false None false.
  Definition sc_cx (p : Z) (z : num * num) : scalar := Build_scalar (ch (fst z) ++ ch (snd z)) None RBad true None false.
  Definition sc_name (n : string) : scalar := blank_scalar n.
  Definition sc_type (t : ctype) : scalar := Build_scalar "type" None RBad false (Some t) false.
  Definition rd (p : Z) (x : num) : num := x.
  Definition val_cx (t : string) : option (num * num) :=
    match t with
    | String a (String b EmptyString) => Some (Ascii.eqb a "T", Ascii.eqb b "T")
    | _ => None
    end.

  Lemma int_rt : forall n, - 2147483648 <= n <= 2147483647 -> s_int (sc_int n) = Some n.
  Proof. reflexivity. Qed.
  Lemma cx_accepted : forall p z, s_cx (sc_cx p z) = true.
  Proof. reflexivity. Qed.
  Lemma name_text : forall n, s_text (sc_name n) = n.
  Proof. reflexivity. Qed.
  Lemma type_rt : forall t, s_type (sc_type t) = Some t.
  Proof. reflexivity. Qed.
  Lemma real_rt : forall p x, s_real (sc_real p x) = cls (rd p x).
  Proof. reflexivity. Qed.
  Lemma cx_rt : forall p z, val_cx (s_text (sc_cx p z)) = Some (rdc num rd p z).
  Proof. intros p [[|] [|]]; reflexivity. Qed.
  Lemma num_rt : forall maxp p x, exact_prec maxp p = true -> rd p x = x.
  Proof. reflexivity. Qed.

  (* slot 0: TE10 1x2, two frequencies; slot 1: deleted; slot 2: E12 2x1 with a property sub-tree *)
  Definition te10 : scal num :=
    {| k_name := "a"; k_type := TE10; k_rows := 1; k_cols := 2; k_fvec := [false; true]; k_z0 := (true, false);
       k_props := None;
       k_terms := [[(true, true); (false, true)]; [(false, false); (true, false)]; [(true, true); (true, true)];
                   [(false, true); (false, true)]; [(true, false); (false, false)]; [(false, false); (true, true)];
                   [(true, false); (false, true)]] |}.
  Definition e12 : scal num :=
    {| k_name := "b"; k_type := E12; k_rows := 2; k_cols := 1; k_fvec := [true]; k_z0 := (false, false);
       k_props := Some (NM [(key_scalar "k", NS (blank_scalar "v"))]);
       k_terms := [[(true, true)]; [(false, true)]; [(false, false)]; [(true, false)]; [(true, true)]; [(false, true)]] |}.
  Definition box : container num :=
    {| v_fprec := 6; v_dprec := 1000; v_props := Some (NS (blank_scalar "~")); v_slots := [Some te10; None; Some e12] |}.

  Lemma box_wf : wf_container num sc_real box.
  Proof.
    split.
    - reflexivity.
    - repeat constructor; try reflexivity; simpl; try lia; discriminate.
    - repeat constructor; simpl; intuition discriminate.
  Qed.

  Definition saved : node := save_doc num false sc_int sc_real sc_cx sc_name sc_type box.

  (* the conclusion of cal_roundtrip_models, computed *)
  Example box_loads :
    match load save_vline (Some saved) with
    | Ok [c1; c2] => c_name c1 = "a"%string /\ c_name c2 = "b"%string /\ wf_cal c1 = true /\ wf_cal c2 = true /\
                     c_freqs c1 = 2 /\ c_props c2 = k_props num e12
    | _ => False
    end.
  Proof. vm_compute. repeat split; reflexivity. Qed.

  (* and through the theorem: every hypothesis of the Section is discharged by this instance *)
  Example box_roundtrip :
    exists cals, load save_vline (Some saved) = Ok cals /\
                 Forall2 (cal_equiv num false cls rd val_cx 6 1000) [te10; e12] cals /\
                 map c_name cals = ["a"; "b"]%string.
  Proof.
    exact (cal_roundtrip_models num false sc_int sc_real sc_cx sc_name sc_type int_rt cx_accepted name_text type_rt
             cls rd val_cx real_rt cx_rt box box_wf).
  Qed.
End Toy.

(* ---------------------------------------------------------------- bounded sweep with labelled cells *)
Module Sweep.
  Definition label (i : Z) : string := String (ascii_of_nat (Z.to_nat i + 33)) EmptyString.
  Definition sc_cx (p : Z) (z : Z * Z) : scalar := Build_scalar (label (fst z)) None RBad true None false.
  Definition sc_real (p : Z) (x : Z) : scalar := Build_scalar "f" None (RNonneg (inject_Z x)) false None false.
  (* a calibration with one frequency whose term i holds the value i *)
  Definition labelled_cal (t : ctype) (mr mc : Z) : scal Z :=
    {| k_name := "x"; k_type := t; k_rows := mr; k_cols := mc; k_fvec := [1]; k_z0 := (50, 0); k_props := None;
       k_terms := map (fun i => [(i, 0)]) (zupto (l_terms (mk_layout t mr mc))) |}.
  Fixpoint cells_eqb (a : cells) (b : list string) : bool :=
    match a, b with
    | [], [] => true
    | Some x :: r, y :: s => String.eqb x y && cells_eqb r s
    | _, _ => false
    end.
  Definition roundtrip_ok (t : ctype) (mr mc : Z) : bool :=
    let ly := mk_layout t mr mc in
    match parse_entries 1 ly None [save_entry Z 0 sc_real sc_cx 6 7 ly (labelled_cal t mr mc) 0 1] with
    | Ok [(_, got)] => cells_eqb got (map label (zupto (l_terms ly))) && cells_defined (l_terms ly) got
    | _ => false
    end.
  Definition all_types : list ctype := [T8; U8; TE10; UE10; T16; U16; UE14; E12].
  Definition dims_upto (n : Z) : list (Z * Z) :=
    flat_map (fun r => map (fun c => (r, c)) (map (fun k => k + 1) (zupto n))) (map (fun k => k + 1) (zupto n)).
  Definition all_roundtrips (n : Z) : bool :=
    forallb (fun t => forallb (fun rc => if dims_fit t (fst rc) (snd rc) then roundtrip_ok t (fst rc) (snd rc) else true)
                              (dims_upto n)) all_types.

  Example emit_parse_terms_dims_upto4 : all_roundtrips 4 = true.
  Proof. vm_compute. reflexivity. Qed.
End Sweep.
