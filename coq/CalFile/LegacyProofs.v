(* Lemmas about CalFile/LegacyModel.v: the loader model (CalFileModel.v, vnacal_load.c as coded,
   version 0 path: parse_old_e_matrix, "sets", optional "type") reads a "#VNACAL 2.x" document
   generated from a container of E12 calibrations to exactly the calibrations it reads from the
   "#VNACal 1.0" document the saver model writes for the same container.  All dimensions, all
   frequency counts, all slot vectors: induction over the loops, no bounded sweep. *)
Require Import ZArith List Bool String QArith Lia.
Import ListNotations.
Require Import LV.CalFile.CalFileModel LV.CalFile.CalSaveModel LV.CalFile.CalSaveProofs LV.CalFile.LegacyModel.
Require Import LV.CalFile.CalFileProofs LV.CalFile.CalLoadWf.
Open Scope Z_scope.

(* ---------------------------------------------------------------- single writes against a target text map *)
Lemma wr_has_old : forall (T : Z -> string) c i v j,
  has T c j -> (0 <= i < Z.of_nat (List.length c) -> v = T i) -> has T (wr c i v) j.
Proof.
  intros T c i v j Hh Hv. unfold has in *.
  destruct (nthc_wr_cases c i v j) as [E|[E [Hb E2]]].
  - rewrite E. exact Hh.
  - rewrite E2. rewrite (Hv Hb). rewrite E. reflexivity.
Qed.

Lemma wr_has_new : forall (T : Z -> string) c i, 0 <= i < Z.of_nat (List.length c) -> has T (wr c i (T i)) i.
Proof. intros T c i H. unfold has. apply nthc_wr_same. exact H. Qed.

Lemma zupto_length : forall n, 0 <= n -> Z.of_nat (List.length (zupto n)) = n.
Proof. intros n H. unfold zupto. rewrite zfrom_length. lia. Qed.

Section OldE.
  Variable num : Type.
  Variable sc_cx : Z -> (num * num) -> scalar.
  Hypothesis cx_accepted : forall p z, s_cx (sc_cx p z) = true.
  Variable dp : Z.
  Variable e : Z -> num * num.
  Variable mr mc : Z.
  Hypothesis Hmr : 0 <= mr.
  Hypothesis Hmc : 0 <= mc.

  Notation ly := (mk_layout E12 mr mc).
  Notation Tx := (T num sc_cx dp e).
  Notation cxn := (cx num sc_cx dp).

  Definition N : Z := mc * (mr + mr + mr).

  Lemma ly_facts : l_mr ly = mr /\ l_mc ly = mc /\ l_ti ly = mr /\ l_tm ly = mr + mr /\ l_tt ly = mr + mr + mr /\ l_terms ly = N.
  Proof. unfold mk_layout, N. cbn [l_mr l_mc l_ti l_tm l_tt l_terms]. lia. Qed.

  (* the three writes of one cell (row, column) of "e" *)
  Definition cell_wr (row column : Z) (c : cells) : cells :=
    wr (wr (wr c (column * (mr + mr + mr) + 0 + row) (Tx (column * (mr + mr + mr) + 0 + row)))
           (column * (mr + mr + mr) + mr + row) (Tx (column * (mr + mr + mr) + mr + row)))
       (column * (mr + mr + mr) + (mr + mr) + row) (Tx (column * (mr + mr + mr) + (mr + mr) + row)).

  Lemma po_triple_cell : forall row column c, 0 <= column < mc ->
    po_triple ly (row * mc + column) 0
      [cxn (e (vl_el12_offset ly column + row)); cxn (e (vl_er12_offset ly column + row)); cxn (e (vl_em12_offset ly column + row))] c
    = Ok (cell_wr row column c).
  Proof.
    intros row column c Hc. destruct ly_facts as [F1 [F2 [F3 [F4 [F5 F6]]]]].
    unfold cx. cbn [po_triple]. rewrite !cx_accepted.
    change (0 =? 0) with true. change (0 + 1 =? 0) with false. change (0 + 1 =? 1) with true.
    change (0 + 1 + 1 =? 0) with false. change (0 + 1 + 1 =? 1) with false. cbv iota.
    rewrite F2, F3, F4, F5.
    rewrite !(dst_pack mc (mr + mr + mr) _ row column Hc).
    unfold cell_wr, T, vl_el12_offset, vl_er12_offset, vl_em12_offset. rewrite F3, F4, F5. reflexivity.
  Qed.

  Lemma cell_wr_length : forall row column c, List.length (cell_wr row column c) = List.length c.
  Proof. intros. unfold cell_wr. rewrite !wr_length. reflexivity. Qed.

  Lemma cell_wr_old : forall row column c j, has Tx c j -> has Tx (cell_wr row column c) j.
  Proof.
    intros row column c j H. unfold cell_wr.
    apply wr_has_old; [|reflexivity]. apply wr_has_old; [|reflexivity]. apply wr_has_old; [|reflexivity]. exact H.
  Qed.

  (* base = 0, mr, mr + mr: the el, er, em block of the column *)
  Definition is_base (k : Z) : Prop := k = 0 \/ k = mr \/ k = mr + mr.

  Lemma cell_wr_new : forall row column c k, Z.of_nat (List.length c) = N -> 0 <= row < mr -> 0 <= column < mc -> is_base k ->
    has Tx (cell_wr row column c) (column * (mr + mr + mr) + k + row).
  Proof.
    intros row column c k Hl Hr Hc Hk. unfold cell_wr.
    assert (B : forall b, is_base b -> 0 <= column * (mr + mr + mr) + b + row < N).
    { intros b [Hb|[Hb|Hb]]; subst b; unfold N; nia. }
    destruct Hk as [Hk|[Hk|Hk]]; subst k.
    - apply wr_has_old; [|reflexivity]. apply wr_has_old; [|reflexivity]. apply wr_has_new.
      rewrite Hl. apply B. left. reflexivity.
    - apply wr_has_old; [|reflexivity]. apply wr_has_new. rewrite wr_length, Hl. apply B. right. left. reflexivity.
    - apply wr_has_new. rewrite !wr_length, Hl. apply B. right. right. reflexivity.
  Qed.

  (* one row of "e": columns col .. col + n - 1 *)
  Lemma po_row_legacy : forall row n col c, 0 <= row < mr -> 0 <= col -> col + Z.of_nat n <= mc ->
    Z.of_nat (List.length c) = N ->
    exists c', po_row ly (row * mc + col) (map (old_cell num sc_cx dp ly e row) (zfrom col n)) c = Ok (c', row * mc + col + Z.of_nat n) /\
               Z.of_nat (List.length c') = N /\
               (forall j, has Tx c j -> has Tx c' j) /\
               (forall cl k, col <= cl < col + Z.of_nat n -> is_base k -> has Tx c' (cl * (mr + mr + mr) + k + row)).
  Proof.
    intros row. induction n as [|n IH]; intros col c Hr Hc0 Hc1 Hl.
    - exists c. simpl. rewrite Z.add_0_r. split; [reflexivity|]. split; [exact Hl|]. split; [auto|]. intros; lia.
    - rewrite Nat2Z.inj_succ in Hc1. cbn [zfrom map po_row].
      unfold old_cell at 1. cbn [List.length Z.of_nat Pos.of_succ_nat Pos.succ Z.eqb Pos.eqb].
      rewrite po_triple_cell by lia.
      destruct (IH (col + 1) (cell_wr row col c) Hr ltac:(lia) ltac:(lia) ltac:(rewrite cell_wr_length; exact Hl))
        as [c' [E [L [O Nw]]]].
      exists c'. replace (row * mc + col + 1) with (row * mc + (col + 1)) by lia. rewrite E.
      split; [f_equal; f_equal; lia|]. split; [exact L|]. split.
      + intros j Hj. apply O. apply cell_wr_old. exact Hj.
      + intros cl k Hcl Hk. destruct (Z.eq_dec cl col) as [Ec|Ec].
        * subst cl. apply O. apply cell_wr_new; [exact Hl|exact Hr|lia|exact Hk].
        * apply Nw; [lia|exact Hk].
  Qed.

  (* the rows r0 .. r0 + m - 1 of "e" *)
  Lemma po_rows_legacy : forall m r0 c, 0 <= r0 -> r0 + Z.of_nat m <= mr -> Z.of_nat (List.length c) = N ->
    exists c', po_rows ly (r0 * mc) (map (old_row num sc_cx dp ly e (zupto mc)) (zfrom r0 m)) c = Ok c' /\
               Z.of_nat (List.length c') = N /\
               (forall j, has Tx c j -> has Tx c' j) /\
               (forall r cl k, r0 <= r < r0 + Z.of_nat m -> 0 <= cl < mc -> is_base k -> has Tx c' (cl * (mr + mr + mr) + k + r)).
  Proof.
    destruct ly_facts as [F1 [F2 _]].
    induction m as [|m IH]; intros r0 c Hr0 Hr1 Hl.
    - exists c. simpl. split; [reflexivity|]. split; [exact Hl|]. split; [auto|]. intros; lia.
    - rewrite Nat2Z.inj_succ in Hr1. cbn [zfrom map po_rows]. unfold old_row at 1.
      rewrite map_length. rewrite (zupto_length mc Hmc). rewrite F2. rewrite Z.eqb_refl.
      destruct (po_row_legacy r0 (Z.to_nat mc) 0 c ltac:(lia) ltac:(lia) ltac:(lia) Hl) as [c1 [E1 [L1 [O1 N1]]]].
      unfold zupto. rewrite Z.add_0_r in E1. rewrite E1.
      destruct (IH (r0 + 1) c1 ltac:(lia) ltac:(lia) L1) as [c' [E [L [O Nw]]]].
      exists c'. replace (r0 * mc + Z.of_nat (Z.to_nat mc)) with ((r0 + 1) * mc) by lia.
      fold (zupto mc). rewrite E.
      split; [reflexivity|]. split; [exact L|]. split.
      + intros j Hj. apply O, O1, Hj.
      + intros r cl k Hr Hcl Hk. destruct (Z.eq_dec r r0) as [Er|Er].
        * subst r. apply O. apply N1; [lia|exact Hk].
        * apply Nw; [lia|exact Hcl|exact Hk].
  Qed.

  (* parse_old_e_matrix on the generated "e" writes every term of the calibration with the text the
     current format carries for it *)
  Lemma parse_old_e_legacy :
    parse_old_e ly (old_e_node num sc_cx dp ly e) (blank ly) = Ok (loaded_cells num sc_cx dp ly e).
  Proof.
    destruct ly_facts as [F1 [F2 [F3 [F4 [F5 F6]]]]].
    assert (HN : 0 <= N) by (unfold N; nia).
    unfold parse_old_e, old_e_node. rewrite map_length. rewrite F1, F2. rewrite (zupto_length mr Hmr). rewrite Z.eqb_refl.
    assert (Hb : Z.of_nat (List.length (blank ly)) = N).
    { unfold blank. rewrite repeat_length, F6. lia. }
    destruct (po_rows_legacy (Z.to_nat mr) 0 (blank ly) ltac:(lia) ltac:(lia) Hb) as [c' [E [L [_ Nw]]]].
    unfold zupto at 2. change (0 * mc) with 0 in E. rewrite E. f_equal.
    unfold loaded_cells, zupto. rewrite F6.
    apply (cells_all_has Tx c' (Z.to_nat N)); [lia|].
    intros j Hj. rewrite Z2Nat.id in Hj by exact HN. unfold N in Hj.
    assert (Hmr0 : 0 < mr) by nia. assert (Hmc0 : 0 < mc) by nia.
    set (ut := mr + mr + mr) in *.
    pose proof (Z.div_mod j ut ltac:(lia)) as Hdm. pose proof (Z.mod_pos_bound j ut ltac:(lia)) as Hmb.
    assert (Hcol : 0 <= j / ut < mc) by (split; [apply Z.div_pos; lia|apply Z.div_lt_upper_bound; lia]).
    set (col := j / ut) in *. set (r := j mod ut) in *.
    destruct (Z_lt_dec r mr) as [H1|H1].
    - replace j with (col * ut + 0 + r) by lia. apply Nw; [lia|lia|left; reflexivity].
    - destruct (Z_lt_dec r (mr + mr)) as [H2|H2].
      + replace j with (col * ut + mr + (r - mr)) by lia. apply Nw; [lia|lia|right; left; reflexivity].
      + replace j with (col * ut + (mr + mr) + (r - (mr + mr))) by lia. apply Nw; [lia|lia|right; right; reflexivity].
  Qed.
End OldE.

(* ---------------------------------------------------------------- data, calibration, document *)
Section LegacyRoundTrip.
  Variable num : Type.
  Variable num0 : num.
  Variable sc_int : Z -> scalar.
  Variable sc_real : Z -> num -> scalar.
  Variable sc_cx : Z -> (num * num) -> scalar.
  Variable sc_name : string -> scalar.
  Variable sc_type : ctype -> scalar.
  Hypothesis int_rt : forall n, - 2147483648 <= n <= 2147483647 -> s_int (sc_int n) = Some n.
  Hypothesis cx_accepted : forall p z, s_cx (sc_cx p z) = true.
  Hypothesis name_text : forall n, s_text (sc_name n) = n.
  Hypothesis type_rt : forall t, s_type (sc_type t) = Some t.

  Notation scal := (scal num).
  Notation container := (container num).
  Notation fclass := (fclass num sc_real).
  Notation loaded_data := (loaded_data num num0 sc_real sc_cx).
  Notation loaded_cal := (loaded_cal num num0 sc_real sc_cx).
  Notation live := (live num).

  Lemma parse_entries_legacy : forall fp dp mr mc c, 0 <= mr -> 0 <= mc ->
    let ly := mk_layout E12 mr mc in
    forall fvec findex prev, freqs_ok prev (map (fclass fp) fvec) = true ->
    parse_entries 0 ly prev (legacy_entries num num0 sc_real sc_cx fp dp ly c findex fvec)
    = Ok (loaded_data fp dp ly c findex fvec).
  Proof.
    intros fp dp mr mc c Hr Hc ly. induction fvec as [|f r IH]; intros findex prev Hf; [reflexivity|].
    simpl map in Hf. simpl freqs_ok in Hf.
    apply andb_prop in Hf. destruct Hf as [Hf H3]. apply andb_prop in Hf. destruct Hf as [H1 H2].
    simpl legacy_entries. unfold legacy_entry.
    cbn [parse_entries scan_entry key_scalar s_text String.eqb Ascii.eqb Bool.eqb key_mid].
    fold (fclass fp f).
    pose proof (parse_old_e_legacy num sc_cx cx_accepted dp (e_at num num0 c findex) mr mc Hr Hc) as E3.
    fold ly in E3.
    assert (Est : run_steps ly [(ME, old_e_node num sc_cx dp ly (e_at num num0 c findex))] (psteps 0 ly) (blank ly)
                            = Ok (loaded_cells num sc_cx dp ly (e_at num num0 c findex))).
    { unfold psteps. change (l_type ly) with E12. cbv iota. change (0 =? 0) with true. cbv iota.
      cbn [run_steps lookup mid_eqb]. rewrite E3. reflexivity. }
    change (l_type ly) with E12. change (required 0 E12) with [ME].
    cbn [forallb lookup mid_eqb andb]. cbn [loaded_data].
    destruct (fclass fp f) as [| | |q|] eqn:Ef; try discriminate H1.
    - simpl xf_of in *. destruct prev as [p|].
      + apply negb_true_iff in H2. rewrite H2. rewrite Est. rewrite (IH _ _ H3). reflexivity.
      + rewrite Est. rewrite (IH _ _ H3). reflexivity.
    - simpl xf_of in *. destruct prev as [p|].
      + apply negb_true_iff in H2. rewrite H2. rewrite Est. rewrite (IH _ _ H3). reflexivity.
      + rewrite Est. rewrite (IH _ _ H3). reflexivity.
  Qed.

  Lemma legacy_entries_length : forall fp dp ly c fvec findex,
    List.length (legacy_entries num num0 sc_real sc_cx fp dp ly c findex fvec) = List.length fvec.
  Proof. intros fp dp ly c. induction fvec as [|f r IH]; intros findex; simpl; [reflexivity|]. rewrite IH. reflexivity. Qed.

  (* scan_set on the pairs of a 2.x calibration without a "type" entry *)
  Lemma scan_set_notype : forall sn sr sc sf sz props data rows cols fr,
    s_int sr = Some rows -> s_int sc = Some cols -> s_int sf = Some fr -> s_cx sz = true ->
    scan_set ([(key_scalar "name", NS sn)] ++ [] ++ [(key_scalar "rows", NS sr);
               (key_scalar "columns", NS sc); (key_scalar "frequencies", NS sf); (key_scalar "z0", NS sz)]
              ++ opt_properties props ++ [(key_scalar "data", data)]) acc0
    = Ok (Build_setacc (Some (s_text sn)) None rows cols fr (Some (s_text sz)) props (Some data)).
  Proof.
    intros sn sr sc sf sz props data rows cols fr H2 H3 H4 H5.
    destruct sr, sc, sf, sz. simpl in H2, H3, H4, H5. subst.
    destruct props; reflexivity.
  Qed.

  Lemma parse_set_legacy : forall st fp dp c, wf_scal num sc_real fp c -> k_type num c = E12 ->
    parse_set 0 (legacy_cal num num0 sc_int sc_real sc_cx sc_name sc_type st fp dp c) = Ok (loaded_cal fp dp c).
  Proof.
    intros st fp dp c [Hr0 Hc0 Hfit Hsize Hnf Hp Hf] Hty.
    assert (Hr : 0 <= k_rows num c) by (unfold min_dim in Hr0; lia).
    assert (Hc : 0 <= k_cols num c) by (unfold min_dim in Hc0; lia).
    assert (Hi : int_max = 2147483647) by reflexivity.
    assert (Hq : int_max / 4 = 536870911) by reflexivity.
    assert (Hfr : 0 <= k_freqs num c) by (unfold k_freqs; lia).
    assert (Hb1 : - 2147483648 <= k_rows num c <= 2147483647) by nia.
    assert (Hb2 : - 2147483648 <= k_cols num c <= 2147483647) by nia.
    assert (Hb3 : - 2147483648 <= k_freqs num c <= 2147483647) by nia.
    unfold legacy_cal, parse_set.
    set (data := NQ (legacy_entries _ _ _ _ _ _ _ _ _ _)).
    assert (Hscan : exists ty, scan_set
              ([(key_scalar "name", NS (sc_name (k_name num c)))] ++
               (if ls_type_key st then [(key_scalar "type", NS (sc_type E12))] else []) ++
               [(key_scalar "rows", NS (sc_int (k_rows num c))); (key_scalar "columns", NS (sc_int (k_cols num c)));
                (key_scalar "frequencies", NS (sc_int (k_freqs num c))); (key_scalar "z0", cx num sc_cx dp (k_z0 num c))] ++
               opt_properties (k_props num c) ++ [(key_scalar "data", data)]) acc0
              = Ok (Build_setacc (Some (k_name num c)) ty (k_rows num c) (k_cols num c) (k_freqs num c)
                      (Some (s_text (sc_cx dp (k_z0 num c)))) (k_props num c) (Some data))
              /\ (ty = None \/ ty = Some E12)).
    { destruct (ls_type_key st).
      - exists (Some E12). split; [|right; reflexivity].
        apply (scan_set_saved num sc_int sc_cx sc_name sc_type int_rt cx_accepted name_text type_rt); assumption.
      - exists None. split; [|left; reflexivity]. unfold cx.
        rewrite (scan_set_notype _ _ _ _ _ (k_props num c) data _ _ _ (int_rt _ Hb1) (int_rt _ Hb2) (int_rt _ Hb3)
                   (cx_accepted dp (k_z0 num c))).
        rewrite name_text. reflexivity. }
    destruct Hscan as [ty [Hscan Hty2]]. rewrite Hscan.
    cbn [a_name a_ty a_rows a_colsn a_fr a_z0 a_props a_data].
    replace (k_rows num c <? 0) with false by (symmetry; apply Z.ltb_ge; lia).
    replace (k_cols num c <? 0) with false by (symmetry; apply Z.ltb_ge; lia).
    replace (k_freqs num c <? 0) with false by (symmetry; apply Z.ltb_ge; lia).
    change (0 =? 0) with true. cbv iota. cbn [orb].
    assert (Ety : match ty with Some t => if ctype_eqb t E12 then Some E12 else None | None => Some E12 end = Some E12).
    { destruct Hty2; subst ty; reflexivity. }
    rewrite Ety.
    replace (k_rows num c <? min_dim) with false by (symmetry; apply Z.ltb_ge; exact Hr0).
    replace (k_cols num c <? min_dim) with false by (symmetry; apply Z.ltb_ge; exact Hc0).
    rewrite Hty in Hfit. rewrite Hfit. cbn [negb orb].
    replace (int_max / 4 <? Z.max (k_rows num c) (k_cols num c) * Z.max (k_rows num c) (k_cols num c)) with false
      by (symmetry; apply Z.ltb_ge; exact Hsize).
    assert (Hpo : match k_props num c with Some pn => props_ok pn | None => Ok tt end = Ok tt).
    { unfold props_fine in Hp. destruct (k_props num c); [exact Hp|reflexivity]. }
    rewrite Hpo. unfold parse_data, data. rewrite legacy_entries_length. fold (k_freqs num c). rewrite Z.eqb_refl.
    rewrite (parse_entries_legacy fp dp (k_rows num c) (k_cols num c) c Hr Hc _ 0 None Hf).
    unfold CalSaveProofs.loaded_cal. rewrite Hty. reflexivity.
  Qed.

  Lemma all_e12_tail : forall x r, all_e12 num (x :: r) -> all_e12 num r.
  Proof. intros x r H c Hin. apply H. right. exact Hin. Qed.

  Lemma parse_calibrations_legacy : forall st fp dp slots acc,
    Forall (wf_scal num sc_real fp) (live slots) -> all_e12 num slots ->
    NoDup (map c_name acc ++ map (k_name num) (live slots)) ->
    parse_calibrations 0 (legacy_slots num num0 sc_int sc_real sc_cx sc_name sc_type st fp dp slots) acc
    = Ok (acc ++ map (loaded_cal fp dp) (live slots)).
  Proof.
    intros st fp dp. induction slots as [|[c|] r IH]; intros acc Hwf He Hnd; cbn [legacy_slots parse_calibrations CalSaveProofs.live map].
    - rewrite app_nil_r. reflexivity.
    - cbn [CalSaveProofs.live map] in Hwf, Hnd. inversion Hwf; subst.
      rewrite parse_set_legacy; [|assumption|apply He; left; reflexivity].
      assert (Hfresh : ~ In (c_name (loaded_cal fp dp c)) (map c_name acc)).
      { simpl. intro Hin. apply NoDup_remove_2 in Hnd. apply Hnd. apply in_or_app. left. exact Hin. }
      rewrite add_cal_fresh by exact Hfresh.
      rewrite IH.
      + rewrite <- app_assoc. reflexivity.
      + assumption.
      + apply (all_e12_tail _ _ He).
      + rewrite map_app. simpl. rewrite <- app_assoc. simpl.
        apply NoDup_remove_1 in Hnd as Hnd1.
        apply NoDup_Add with (a := k_name num c) (l := map c_name acc ++ map (k_name num) (live r)).
        * clear. induction (map c_name acc) as [|x l IHl]; simpl; [constructor|constructor; exact IHl].
        * split; [exact Hnd1|]. apply NoDup_remove_2 in Hnd. exact Hnd.
    - apply IH; [assumption|apply (all_e12_tail _ _ He)|assumption].
  Qed.

  Notation save_doc := (save_doc num num0 sc_int sc_real sc_cx sc_name sc_type).
  Notation legacy_doc := (legacy_doc num num0 sc_int sc_real sc_cx sc_name sc_type).

  (* the 2.x document loads to the calibrations of the used slots, in slot order *)
  Theorem load_legacy_doc : forall st minor v, wf_container num sc_real v -> all_e12 num (v_slots num v) ->
    load (legacy_vline minor) (Some (legacy_doc st v))
    = Ok (map (loaded_cal (v_fprec num v) (v_dprec num v)) (live (v_slots num v))).
  Proof.
    intros st minor v [Hp Hc Hn] He. unfold load, legacy_vline.
    change (version_of (VOld 2 minor)) with (@Ok Z 0). cbv iota. unfold LegacyModel.legacy_doc.
    set (cs := NQ _).
    assert (Hcal : forall acc, parse_document 0 [(key_scalar (if ls_sets_key st then "sets" else "calibrations")%string, cs)] acc
                   = match parse_calibrations 0 (legacy_slots num num0 sc_int sc_real sc_cx sc_name sc_type st
                                                   (v_fprec num v) (v_dprec num v) (v_slots num v)) acc with
                     | Ok a => Ok a | Err e => Err e end).
    { intros acc. unfold cs. destruct (ls_sets_key st); reflexivity. }
    destruct (v_props num v) as [p|] eqn:Ep; unfold opt_properties, app.
    - assert (Hprop : forall r acc, parse_document 0 ((key_scalar "properties", p) :: r) acc
                      = match props_ok p with Ok _ => parse_document 0 r acc | Err e => Err e end).
      { intros r acc. reflexivity. }
      rewrite Hprop. simpl in Hp. rewrite Hp. rewrite Hcal.
      rewrite parse_calibrations_legacy by assumption. reflexivity.
    - rewrite Hcal. rewrite parse_calibrations_legacy by assumption. reflexivity.
  Qed.

  (* legacy_versions, models: the 2.x tree, the 3.x document and the 1.0 document of the same container
     load to the same calibrations *)
  Theorem legacy_versions_models : forall st minor2 minor3 v, wf_container num sc_real v -> all_e12 num (v_slots num v) ->
    load (legacy_vline minor2) (Some (legacy_doc st v)) = load save_vline (Some (save_doc v)) /\
    load (v3_vline minor3) (Some (save_doc v)) = load save_vline (Some (save_doc v)) /\
    load save_vline (Some (save_doc v)) = Ok (map (loaded_cal (v_fprec num v) (v_dprec num v)) (live (v_slots num v))).
  Proof.
    intros st minor2 minor3 v Hwf He.
    pose proof (load_save_doc num num0 sc_int sc_real sc_cx sc_name sc_type int_rt cx_accepted name_text type_rt v Hwf) as E1.
    rewrite E1. split; [apply load_legacy_doc; assumption|]. split; [|reflexivity].
    rewrite <- E1. reflexivity.
  Qed.
End LegacyRoundTrip.

(* "#VNACAL 3.x" is the current format under its old first line: every document, well formed or not *)
Theorem v3_is_v1 : forall minor3 minor1 d, load (v3_vline minor3) d = load (VNew 1 minor1) d.
Proof. intros. reflexivity. Qed.

(* a 2.x document that names any type but E12 is refused (parse_set: "type unexpected in version") *)
Lemma legacy_type_refused : forall t, t <> E12 ->
  (match Some t with Some t0 => if ctype_eqb t0 E12 then Some E12 else None | None => Some E12 end) = None.
Proof. intros t H. destruct t; try reflexivity. congruence. Qed.

(* totality on legacy trees: whatever follows a "#VNACAL 2.x" line, the loader model answers with a
   classified error or with calibrations that are all well formed *)
Theorem legacy_load_total : forall minor d,
  (exists cals, load (legacy_vline minor) d = Ok cals /\ Forall (fun c => wf_cal c = true) cals) \/
  load (legacy_vline minor) d = Err EBadMsg \/ load (legacy_vline minor) d = Err ESys.
Proof.
  intros minor d. destruct (load (legacy_vline minor) d) as [cals|e] eqn:E.
  - left. exists cals. split; [reflexivity|]. apply (load_ok_wf_cal _ _ _ E).
  - right. destruct (load_version_ok_errors (legacy_vline minor) 0 d e eq_refl E) as [H|H]; subst e; auto.
Qed.
