(* vnacal_apply on a calibration as vnacal_load delivers it (model only, no proofs): the fill_*
   functions of vnacal_apply.c (Cal/ApplyModel.v, as coded) run on the error terms of one frequency
   of a loaded calibration (CalFileModel.cal: the cells are the texts of the file; [val] is what
   parse_complex makes of a text, injected into the arithmetic of the apply model). *)
Require Import ZArith List Bool String.
Import ListNotations.
Require Import LV.Base.CField LV.Gen.LayoutGen LV.Cal.Sym LV.Cal.ApplyModel.
Require LV.CalFile.CalFileModel.
Module F := LV.CalFile.CalFileModel.

Definition caltype_of (t : F.ctype) : caltype :=
  match t with
  | F.T8 => T8 | F.U8 => U8 | F.TE10 => TE10 | F.UE10 => UE10 | F.T16 => T16 | F.U16 => U16 | F.UE14 => UE14 | F.E12 => E12
  end.

Section ApplyLoaded.
  Variable O : Ops.
  Variable val : string -> O.
  (* cal_error_term_vector[.][findex] of the loaded calibration; a cell the loader never wrote (there is
     none in a calibration that satisfies wf_cal) reads as 0 *)
  Definition term_vals (cs : F.cells) : list O := map (fun x => match x with Some s => val s | None => o0 O end) cs.
  (* None: findex is not a frequency index of the calibration *)
  Definition apply_loaded (c : F.cal) (findex : nat) (m : list O) : option (fres O) :=
    match nth_error (F.c_data c) findex with
    | Some (_, cs) =>
        Some (apply_fill O (caltype_of (F.c_type c)) (Z.to_nat (F.c_rows c)) (Z.to_nat (F.c_cols c)) (term_vals cs) m)
    | None => None
    end.
End ApplyLoaded.
