(* Model of vnacal_save.c: the YAML node tree vnacal_save builds with libyaml from a calibration
   container, written from the C text (loops, index arithmetic and VL_* macros of vnacal_save.c and
   vnacal_layout.h), NOT from the loader's step list.  Model only: no proofs here.

   Numbers stay abstract (number-text layer, see CalFile/NumText.v for the shapes and lengths of
   the texts): [num] is a binary64 value; a number written by add_integer / add_double /
   add_complex is the scalar node [sc_int n] / [sc_real p x] / [sc_cx p z]: the text printf
   produces at precision p *together with* what libc answers about that text when the loader reads
   it (the oracle fields of [scalar]: sscanf "%d %c", sscanf "%lf %c", parse_complex's strtod calls).
   What C99 guarantees about those answers is stated as Section hypotheses in CalSaveProofs.v.

   What is not in the tree: the orphan sequence node `t_matrix` that vnacal_save adds to the
   document for every calibration and never attaches (it is not reachable from the root and is not
   emitted); block / flow styles (they do not survive parsing); failure paths of libyaml calls. *)
Require Import ZArith List Bool String QArith.
Import ListNotations.
Require Import LV.CalFile.CalFileModel.
Open Scope Z_scope.

(* k, k+1, ..., k+n-1: the values of a C loop variable *)
Fixpoint zfrom (k : Z) (n : nat) : list Z :=
  match n with
  | O => []
  | S m => k :: zfrom (k + 1) m
  end.
Definition zupto (n : Z) : list Z := zfrom 0 (Z.to_nat n).     (* for (i = 0; i < n; ++i) *)

(* ---------------------------------------------------------------- VL_* macros of vnacal_layout.h *)
Definition vl_m_ports (ly : layout) : Z := Z.max (l_mr ly) (l_mc ly).
Definition vl_s_rows (ly : layout) : Z := vl_m_ports ly.
Definition vl_s_columns (ly : layout) : Z := vl_m_ports ly.
(* T (and, through the alias members, U) *)
Definition vl_ts_rows (ly : layout) : Z := l_mr ly.
Definition vl_ts_columns (ly : layout) : Z := vl_s_rows ly.
Definition vl_ts_terms (ly : layout) : Z := l_ti ly - 0.
Definition vl_ts_offset (ly : layout) : Z := 0.
Definition vl_ti_rows (ly : layout) : Z := l_mr ly.
Definition vl_ti_columns (ly : layout) : Z := vl_s_columns ly.
Definition vl_ti_terms (ly : layout) : Z := l_tx ly - l_ti ly.
Definition vl_ti_offset (ly : layout) : Z := l_ti ly.
Definition vl_tx_rows (ly : layout) : Z := l_mc ly.
Definition vl_tx_columns (ly : layout) : Z := vl_s_rows ly.
Definition vl_tx_terms (ly : layout) : Z := l_tm ly - l_tx ly.
Definition vl_tx_offset (ly : layout) : Z := l_tx ly.
Definition vl_tm_rows (ly : layout) : Z := l_mc ly.
Definition vl_tm_columns (ly : layout) : Z := vl_s_columns ly.
Definition vl_tm_terms (ly : layout) : Z := l_tt ly - l_tm ly.
Definition vl_tm_offset (ly : layout) : Z := l_tm ly.
Definition vl_um_rows (ly : layout) : Z := vl_s_rows ly.
Definition vl_um_columns (ly : layout) : Z := l_mr ly.
Definition vl_um_terms (ly : layout) : Z := l_ti ly - 0.
Definition vl_um_offset (ly : layout) : Z := 0.
Definition vl_ui_rows (ly : layout) : Z := vl_s_rows ly.
Definition vl_ui_columns (ly : layout) : Z := l_mc ly.
Definition vl_ui_terms (ly : layout) : Z := l_tx ly - l_ti ly.
Definition vl_ui_offset (ly : layout) : Z := l_ti ly.
Definition vl_ux_rows (ly : layout) : Z := vl_s_columns ly.
Definition vl_ux_columns (ly : layout) : Z := l_mr ly.
Definition vl_ux_terms (ly : layout) : Z := l_tm ly - l_tx ly.
Definition vl_ux_offset (ly : layout) : Z := l_tx ly.
Definition vl_us_rows (ly : layout) : Z := vl_s_columns ly.
Definition vl_us_columns (ly : layout) : Z := l_mc ly.
Definition vl_us_terms (ly : layout) : Z := l_tt ly - l_tm ly.
Definition vl_us_offset (ly : layout) : Z := l_tm ly.
(* UE14: one system per measurement column *)
Definition vl_um14_terms (ly : layout) : Z := l_ti ly - 0.
Definition vl_um14_offset (ly : layout) (m_column : Z) : Z := m_column * l_tt ly.
Definition vl_ui14_terms (ly : layout) : Z := l_tx ly - l_ti ly.
Definition vl_ui14_offset (ly : layout) (m_column : Z) : Z := m_column * l_tt ly + l_ti ly.
Definition vl_ux14_terms (ly : layout) : Z := l_tm ly - l_tx ly.
Definition vl_ux14_offset (ly : layout) (m_column : Z) : Z := m_column * l_tt ly + l_tx ly.
Definition vl_us14_terms (ly : layout) : Z := l_tt ly - l_tm ly.
Definition vl_us14_offset (ly : layout) (m_column : Z) : Z := m_column * l_tt ly + l_tm ly.
(* leakage matrix of TE10 / UE10 / UE14 *)
Definition vl_el_rows (ly : layout) : Z := l_mr ly.
Definition vl_el_columns (ly : layout) : Z := l_mc ly.
Definition vl_el_offset (ly : layout) : Z := l_el_off ly.
(* E12: one system per measurement column (vl_er_offset = vl_ti_offset, vl_et_offset = vl_tx_offset,
   vl_em_offset = vl_tm_offset, vl_e_terms = vl_t_terms) *)
Definition vl_el12_terms (ly : layout) : Z := l_el_terms ly.
Definition vl_el12_offset (ly : layout) (m_column : Z) : Z := m_column * l_tt ly + 0.
Definition vl_er12_terms (ly : layout) : Z := l_tx ly - l_ti ly.
Definition vl_er12_offset (ly : layout) (m_column : Z) : Z := m_column * l_tt ly + l_ti ly.
Definition vl_em12_terms (ly : layout) : Z := l_tt ly - l_tm ly.
Definition vl_em12_offset (ly : layout) (m_column : Z) : Z := m_column * l_tt ly + l_tm ly.

(* &packed[0][0] of `double complex *packed[terms][m_columns]` walked by `*matrix++`: element k is
   packed[k / m_columns][k % m_columns] *)
Definition flat2 {A : Type} (m_columns : Z) (packed : Z -> Z -> A) (k : Z) : A :=
  packed (k / m_columns) (k mod m_columns).

Section Saver.
  Variable num : Type.                        (* a binary64 value *)
  Definition cnum : Type := (num * num)%type.  (* double complex: (creal, cimag) *)
  Variable num0 : num.                        (* what an out-of-range read of the model returns (never read
                                                 from a well-formed container) *)

  (* the scalar nodes the saver creates from values *)
  Variable sc_int : Z -> scalar.              (* add_integer: sprintf "%d" *)
  Variable sc_real : Z -> num -> scalar.      (* add_double at precision p: "%.*e" with p - 1, "%a" at MAX *)
  Variable sc_cx : Z -> cnum -> scalar.       (* add_complex at precision p: "%+.*e %+.*ej", "%+a %+aj" at MAX *)
  Variable sc_name : string -> scalar.        (* yaml_document_add_scalar(cal_name) *)
  Variable sc_type : ctype -> scalar.         (* yaml_document_add_scalar(vnacal_type_to_name(type)) *)

  (* ---------------------------------------------------------------- the container (vnacal_t) *)
  Record scal := { k_name : string; k_type : ctype; k_rows : Z; k_cols : Z;
                   k_fvec : list num;            (* cal_frequency_vector; cal_frequencies is its length *)
                   k_z0 : cnum;
                   k_props : option node;        (* what add_properties(cal_properties) returns: the exported
                                                    sub-tree (opaque here, property C14); None = tag 0 *)
                   k_terms : list (list cnum) }. (* cal_error_term_vector[term][findex] *)
  Record container := { v_fprec : Z; v_dprec : Z;     (* vc_fprecision, vc_dprecision *)
                        v_props : option node;        (* add_properties(vc_properties) *)
                        v_slots : list (option scal) }.   (* vc_calibration_vector[0 .. allocation), None = NULL *)

  Definition k_freqs (c : scal) : Z := Z.of_nat (List.length (k_fvec c)).
  (* cal_error_term_vector[term][findex] *)
  Definition e_at (c : scal) (findex term : Z) : cnum :=
    nth (Z.to_nat findex) (nth (Z.to_nat term) (k_terms c) []) (num0, num0).

  Definition cx (p : Z) (z : cnum) : node := NS (sc_cx p z).

  (* ---------------------------------------------------------------- add_vector *)
  (* vector i stands for vector[i][findex] *)
  Definition vec_node (dp : Z) (vector : Z -> cnum) (length : Z) : node :=
    NQ (map (fun i => cx dp (vector i)) (zupto length)).
  Definition add_vector (dp : Z) (name : string) (vector : Z -> cnum) (length : Z) : node * node :=
    (key_scalar name, vec_node dp vector length).

  (* ---------------------------------------------------------------- add_matrix *)
  (* matrix k stands for (the k-th value of `*matrix++`)[findex]; the counter k is threaded through
     both loops as the C pointer is *)
  Fixpoint am_row (dp : Z) (matrix : Z -> cnum) (no_diagonal : bool) (row : Z) (columns : list Z) (k : Z)
    : list node * Z :=
    match columns with
    | [] => ([], k)
    | column :: r =>
        if no_diagonal && (row =? column) then
          let (l, k') := am_row dp matrix no_diagonal row r k in (null_scalar :: l, k')
        else
          let (l, k') := am_row dp matrix no_diagonal row r (k + 1) in (cx dp (matrix k) :: l, k')
    end.
  Fixpoint am_rows (dp : Z) (matrix : Z -> cnum) (no_diagonal : bool) (rows columns : list Z) (k : Z)
    : list node * Z :=
    match rows with
    | [] => ([], k)
    | row :: r =>
        let (items, k') := am_row dp matrix no_diagonal row columns k in
        let (l, k'') := am_rows dp matrix no_diagonal r columns k' in
        (NQ items :: l, k'')
    end.
  Definition mat_node (dp : Z) (matrix : Z -> cnum) (rows columns : Z) (no_diagonal : bool) : node :=
    NQ (fst (am_rows dp matrix no_diagonal (zupto rows) (zupto columns) 0)).
  Definition add_matrix (dp : Z) (name : string) (matrix : Z -> cnum) (rows columns : Z) (no_diagonal : bool)
    : node * node :=
    (key_scalar name, mat_node dp matrix rows columns no_diagonal).

  (* ---------------------------------------------------------------- add_error_parameters *)
  (* e i stands for e[i][findex]; the pairs are in the order of the add_mapping_entry calls *)
  Definition add_error_parameters (dp : Z) (ly : layout) (e : Z -> cnum) : list (node * node) :=
    match l_type ly with
    | T8 | TE10 =>
        let ts := fun i => e (vl_ts_offset ly + i) in
        let ti := fun i => e (vl_ti_offset ly + i) in
        let tx := fun i => e (vl_tx_offset ly + i) in
        let tm := fun i => e (vl_tm_offset ly + i) in
        [add_vector dp "ts" ts (vl_ts_terms ly); add_vector dp "ti" ti (vl_ti_terms ly);
         add_vector dp "tx" tx (vl_tx_terms ly); add_vector dp "tm" tm (vl_tm_terms ly)]
        ++ (if ctype_eqb (l_type ly) TE10 then
              let el := fun k => e (vl_el_offset ly + k) in
              [add_matrix dp "el" el (vl_el_rows ly) (vl_el_columns ly) true]
            else [])
    | U8 | UE10 =>
        let um := fun i => e (vl_um_offset ly + i) in
        let ui := fun i => e (vl_ui_offset ly + i) in
        let ux := fun i => e (vl_ux_offset ly + i) in
        let us := fun i => e (vl_us_offset ly + i) in
        [add_vector dp "um" um (vl_um_terms ly); add_vector dp "ui" ui (vl_ui_terms ly);
         add_vector dp "ux" ux (vl_ux_terms ly); add_vector dp "us" us (vl_us_terms ly)]
        ++ (if ctype_eqb (l_type ly) UE10 then
              let el := fun k => e (vl_el_offset ly + k) in
              [add_matrix dp "el" el (vl_el_rows ly) (vl_el_columns ly) true]
            else [])
    | T16 =>
        let ts := fun k => e (vl_ts_offset ly + k) in
        let ti := fun k => e (vl_ti_offset ly + k) in
        let tx := fun k => e (vl_tx_offset ly + k) in
        let tm := fun k => e (vl_tm_offset ly + k) in
        [add_matrix dp "ts" ts (vl_ts_rows ly) (vl_ts_columns ly) false;
         add_matrix dp "ti" ti (vl_ti_rows ly) (vl_ti_columns ly) false;
         add_matrix dp "tx" tx (vl_tx_rows ly) (vl_tx_columns ly) false;
         add_matrix dp "tm" tm (vl_tm_rows ly) (vl_tm_columns ly) false]
    | U16 =>
        let um := fun k => e (vl_um_offset ly + k) in
        let ui := fun k => e (vl_ui_offset ly + k) in
        let ux := fun k => e (vl_ux_offset ly + k) in
        let us := fun k => e (vl_us_offset ly + k) in
        [add_matrix dp "um" um (vl_um_rows ly) (vl_um_columns ly) false;
         add_matrix dp "ui" ui (vl_ui_rows ly) (vl_ui_columns ly) false;
         add_matrix dp "ux" ux (vl_ux_rows ly) (vl_ux_columns ly) false;
         add_matrix dp "us" us (vl_us_rows ly) (vl_us_columns ly) false]
    | UE14 =>
        let m_columns := l_mc ly in
        (* packed_um[term][m_column] = um[term] with um = &e[VL_UM14_OFFSET(vlp, m_column)], ... *)
        let packed_um := fun term m_column => e (vl_um14_offset ly m_column + term) in
        let packed_ui := fun term m_column => e (vl_ui14_offset ly m_column + term) in
        let packed_ux := fun term m_column => e (vl_ux14_offset ly m_column + term) in
        let packed_us := fun term m_column => e (vl_us14_offset ly m_column + term) in
        let el := fun k => e (vl_el_offset ly + k) in
        [add_matrix dp "um" (flat2 m_columns packed_um) (vl_um14_terms ly) m_columns false;
         add_matrix dp "ui" (flat2 m_columns packed_ui) (vl_ui14_terms ly) m_columns false;
         add_matrix dp "ux" (flat2 m_columns packed_ux) (vl_ux14_terms ly) m_columns false;
         add_matrix dp "us" (flat2 m_columns packed_us) (vl_us14_terms ly) m_columns false;
         add_matrix dp "el" el (vl_el_rows ly) (vl_el_columns ly) true]
    | E12 =>
        let m_columns := l_mc ly in
        let packed_el := fun term m_column => e (vl_el12_offset ly m_column + term) in
        let packed_er := fun term m_column => e (vl_er12_offset ly m_column + term) in
        let packed_em := fun term m_column => e (vl_em12_offset ly m_column + term) in
        [add_matrix dp "el" (flat2 m_columns packed_el) (vl_el12_terms ly) m_columns false;
         add_matrix dp "er" (flat2 m_columns packed_er) (vl_er12_terms ly) m_columns false;
         add_matrix dp "em" (flat2 m_columns packed_em) (vl_em12_terms ly) m_columns false]
    end.

  (* ---------------------------------------------------------------- vnacal_save *)
  (* one element of "data": the mapping of one frequency index *)
  Definition save_entry (fp dp : Z) (ly : layout) (c : scal) (findex : Z) (f : num) : node :=
    NM ((key_scalar "f", NS (sc_real fp f)) :: add_error_parameters dp ly (e_at c findex)).
  (* for (findex = 0; findex < cal_frequencies; ++findex), f = cal_frequency_vector[findex] *)
  Fixpoint save_entries (fp dp : Z) (ly : layout) (c : scal) (findex : Z) (fvec : list num) : list node :=
    match fvec with
    | [] => []
    | f :: r => save_entry fp dp ly c findex f :: save_entries fp dp ly c (findex + 1) r
    end.

  Definition opt_properties (t : option node) : list (node * node) :=     (* if (tag != 0) add_mapping_entry *)
    match t with
    | Some p => [(key_scalar "properties", p)]
    | None => []
    end.

  Definition save_cal (fp dp : Z) (c : scal) : node :=
    let ly := mk_layout (k_type c) (k_rows c) (k_cols c) in          (* _vnacal_layout *)
    NM ([(key_scalar "name", NS (sc_name (k_name c)));
         (key_scalar "type", NS (sc_type (k_type c)));
         (key_scalar "rows", NS (sc_int (k_rows c)));
         (key_scalar "columns", NS (sc_int (k_cols c)));
         (key_scalar "frequencies", NS (sc_int (k_freqs c)));
         (key_scalar "z0", cx dp (k_z0 c))]
        ++ opt_properties (k_props c)
        ++ [(key_scalar "data", NQ (save_entries fp dp ly c 0 (k_fvec c)))]).

  (* for (ci = 0; ci < vc_calibration_allocation; ++ci) { if (calp == NULL) continue; ... } *)
  Fixpoint save_slots (fp dp : Z) (slots : list (option scal)) : list node :=
    match slots with
    | [] => []
    | None :: r => save_slots fp dp r
    | Some c :: r => save_cal fp dp c :: save_slots fp dp r
    end.

  Definition save_doc (v : container) : node :=
    NM (opt_properties (v_props v)
        ++ [(key_scalar "calibrations", NQ (save_slots (v_fprec v) (v_dprec v) (v_slots v)))]).

  (* fprintf(fp, "#VNACal 1.0\n") as the loader scans it *)
  Definition save_vline : vline := VNew 1 0.
End Saver.
