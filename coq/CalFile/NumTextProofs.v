(* Lemmas about CalFile/NumText.v *)
Require Import ZArith List Bool Lia.
Import ListNotations.
Require Import LV.CalFile.NumText.
Open Scope Z_scope.

Lemma len_e_le_max : forall plus p s, 1 <= p -> len_e plus p s <= max_e p.
Proof.
  intros plus p s Hp.
  destruct s as [neg exp3|neg]; destruct plus, neg; try destruct exp3;
    unfold len_e, max_e, b2z, orb; destruct (Z.leb_spec p 1); lia.
Qed.

(* the bound is attained: a negative number with a three digit exponent *)
Lemma len_e_max_attained : forall plus p, 1 <= p -> len_e plus p (EFinite true true) = max_e p.
Proof.
  intros plus p Hp. unfold len_e, max_e, b2z. rewrite orb_true_r.
  destruct (Z.leb_spec p 1); lia.
Qed.

Lemma len_a_le_max : forall plus s, ashape_ok s -> len_a plus s <= 24.
Proof.
  intros plus s H. destruct s as [neg fd ed|neg]; unfold ashape_ok in H.
  - destruct plus, neg; unfold len_a, b2z, orb; destruct (Z.leb_spec fd 0); lia.
  - destruct plus, neg; unfold len_a, b2z, orb; lia.
Qed.

Lemma len_a_max_attained : forall plus, len_a plus (AFinite true 13 4) = 24.
Proof. intros plus. unfold len_a, b2z. rewrite orb_true_r. reflexivity. Qed.

Lemma len_d_le_max : forall s, dshape_ok s -> len_d s <= 11.
Proof. intros [neg n] H. simpl in H. unfold len_d, b2z. destruct neg; lia. Qed.

Lemma max_e_le : forall p, 1 <= p -> max_e p <= p + 7.
Proof. intros p Hp. unfold max_e. destruct (Z.leb_spec p 1); lia. Qed.

Lemma max_text_cons : forall p i f, max_text p (i :: f) = max_item p i + max_text p f.
Proof. reflexivity. Qed.

Lemma lin_items_cons : forall i f,
  lin_items (i :: f) = match i with
                       | FE _ => (fst (lin_items f) + 1, snd (lin_items f))
                       | FLit => (fst (lin_items f), snd (lin_items f) + 1)
                       | FD => (fst (lin_items f), snd (lin_items f) + 11)
                       | FA _ => (fst (lin_items f), snd (lin_items f) + 24)
                       end.
Proof. reflexivity. Qed.

Lemma max_text_lin : forall p f, 1 <= p ->
  max_text p f <= fst (lin_items f) * (p + 7) + snd (lin_items f) /\ 0 <= fst (lin_items f) /\ 0 <= snd (lin_items f).
Proof.
  intros p f Hp. pose proof (max_e_le p Hp) as He. induction f as [|i f IH].
  - cbv. repeat split; discriminate.
  - rewrite max_text_cons, lin_items_cons. destruct IH as [IH [H1 H2]].
    destruct i; unfold max_item, fst, snd; destruct (lin_items f) as [a b]; unfold fst, snd in *; nia.
Qed.

Lemma lin_items_nonneg : forall f, 0 <= fst (lin_items f) /\ 0 <= snd (lin_items f).
Proof.
  induction f as [|j f IH]; [cbv; split; discriminate|]. rewrite lin_items_cons.
  destruct (lin_items f) as [a b]; unfold fst, snd in *. destruct j; unfold fst, snd; lia.
Qed.

Lemma max_text_noe : forall p f, fst (lin_items f) = 0 -> max_text p f = snd (lin_items f).
Proof.
  intros p f. induction f as [|i f IH]; intros H0.
  - reflexivity.
  - rewrite max_text_cons. rewrite lin_items_cons in *. pose proof (lin_items_nonneg f) as [Hn1 Hn2].
    destruct (lin_items f) as [a b]; unfold fst, snd in *.
    destruct i; unfold fst, snd, max_item in *; try (rewrite IH by lia; lia); lia.
Qed.

Lemma adder_safe_fits : forall maxp s a, adder_safe maxp s a = true ->
  forall p, accepts s p = true -> fits maxp a p = true.
Proof.
  intros maxp s a Hs p Hp. unfold adder_safe in Hs.
  destruct (lin_items (a_dec a)) as [ne oc] eqn:Hl.
  apply andb_prop in Hs. destruct Hs as [Hs Hsize].
  apply andb_prop in Hs. destruct Hs as [Hs Hmax].
  apply andb_prop in Hs. destruct Hs as [Hlo Hdec].
  apply Z.leb_le in Hlo.
  unfold accepts in Hp. apply andb_prop in Hp. destruct Hp as [Hp1 Hp2]. apply Z.leb_le in Hp1.
  assert (P1 : 1 <= p) by lia.
  assert (Hlim : buf_size a p <= vla_limit).
  { unfold buf_size. rewrite Z.max_l by lia.
    apply orb_prop in Hsize. destruct Hsize as [Hz|Hz].
    - apply andb_prop in Hz. destruct Hz as [Hz1 Hz2]. apply Z.eqb_eq in Hz1. apply Z.leb_le in Hz2. rewrite Hz1. lia.
    - destruct (s_hi s) as [h|]; [|discriminate].
      apply andb_prop in Hz. destruct Hz as [Hz1 Hz2]. apply Z.leb_le in Hz1. apply Z.leb_le in Hz2.
      apply Z.leb_le in Hp2. assert (p <= Z.max h 1) by lia. nia. }
  assert (Hdecfit : max_text p (a_dec a) + 1 <= buf_size a p).
  { pose proof (max_text_lin p (a_dec a) P1) as [Hb [Hn1 Hn2]]. rewrite Hl in *. simpl in *.
    unfold buf_size. rewrite Z.max_l by lia.
    apply orb_prop in Hdec. destruct Hdec as [Hd|Hd].
    - apply andb_prop in Hd. destruct Hd as [Hd1 Hd2]. apply Z.leb_le in Hd1. apply Z.leb_le in Hd2. nia.
    - destruct (s_hi s) as [h|]; [|discriminate].
      apply andb_prop in Hd. destruct Hd as [Hd1 Hd2]. apply Z.leb_le in Hd1. apply Z.leb_le in Hd2.
      apply Z.leb_le in Hp2. nia. }
  unfold fits. apply andb_true_intro. split; [|apply Z.leb_le; exact Hlim].
  unfold fmt_used. apply Z.leb_le.
  destruct (a_max a) as [f|]; [|exact Hdecfit].
  destruct (Z.eqb_spec p maxp); [|exact Hdecfit].
  destruct (lin_items f) as [ne2 oc2] eqn:Hl2.
  apply andb_prop in Hmax. destruct Hmax as [Hm Hm3]. apply andb_prop in Hm. destruct Hm as [Hm1 Hm2].
  apply Z.eqb_eq in Hm1. apply Z.leb_le in Hm2. apply Z.leb_le in Hm3.
  pose proof (lin_items_nonneg f) as [_ Hn]. rewrite Hl2 in Hn. simpl in Hn.
  rewrite (max_text_noe p f) by (rewrite Hl2; assumption). rewrite Hl2. unfold snd.
  unfold buf_size. rewrite Z.max_l by lia. nia.
Qed.

Lemma max_text_const : forall q f,
  forallb (fun i => match i with FE _ => false | _ => true end) f = true -> max_text q f = max_text 1 f.
Proof.
  intros q f. induction f as [|i f IH]; simpl; intros Hf; [reflexivity|].
  apply andb_prop in Hf. destruct Hf as [Hi Hf]. rewrite IH by assumption.
  destruct i; try discriminate; reflexivity.
Qed.

Theorem cfg_safe_sound : forall c, cfg_safe c = true ->
  (forall p, accepts (c_fset c) p = true -> fits (c_maxp c) (c_dbl c) p = true) /\
  (forall p, accepts (c_dset c) p = true -> fits (c_maxp c) (c_cpx c) p = true) /\
  (forall p, fits (c_maxp c) (c_int c) p = true).
Proof.
  intros c H. unfold cfg_safe in H.
  repeat (apply andb_prop in H; destruct H as [H ?]).
  split; [|split].
  - apply adder_safe_fits; assumption.
  - apply adder_safe_fits; assumption.
  - intros p. unfold fits, fmt_used, buf_size.
    destruct (a_max (c_int c)); [discriminate|].
    apply Z.eqb_eq in H3. rewrite H3. apply Z.leb_le in H4. apply Z.leb_le in H2.
    rewrite (max_text_const p) by assumption.
    apply andb_true_intro. split; apply Z.leb_le; lia.
Qed.

(* a configuration that is not safe: the buffers of the tree before the fix of finding D26
   (constant declarators, setters without upper bound, add_double without a MAX case) *)
Definition unfixed_cfg : savecfg :=
  {| c_maxp := 1000;
     c_fset := {| s_lo := 1; s_hi := None |}; c_dset := {| s_lo := 1; s_hi := None |};
     c_int := {| a_coef := 0; a_const := 14; a_bounded := false; a_dec := [FD]; a_max := None |};
     c_dbl := {| a_coef := 0; a_const := 34; a_bounded := false; a_dec := [FE false]; a_max := None |};
     c_cpx := {| a_coef := 0; a_const := 68; a_bounded := false; a_dec := [FE true; FLit; FE true; FLit];
                 a_max := Some [FA true; FLit; FA true; FLit] |} |}.

Lemma unfixed_cfg_refuted :
  (exists p, accepts (c_fset unfixed_cfg) p = true /\ fits (c_maxp unfixed_cfg) (c_dbl unfixed_cfg) p = false) /\
  (exists p, accepts (c_dset unfixed_cfg) p = true /\ fits (c_maxp unfixed_cfg) (c_cpx unfixed_cfg) p = false).
Proof. split; [exists 27|exists 26]; vm_compute; split; reflexivity. Qed.

Lemma unfixed_first_unfit :
  first_unfit 1000 (c_fset unfixed_cfg) (c_dbl unfixed_cfg) 1 1000 = Some 27 /\
  first_unfit 1000 (c_dset unfixed_cfg) (c_cpx unfixed_cfg) 1 1000 = Some 26.
Proof. vm_compute. split; reflexivity. Qed.
