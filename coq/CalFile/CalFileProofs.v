(* Lemmas about CalFile/CalFileModel.v *)
Require Import ZArith List Bool String QArith Lia.
Import ListNotations.
Require Import LV.CalFile.CalFileModel.
Open Scope Z_scope.

Ltac brk :=
  repeat match goal with
         | H : Ok _ = Ok _ |- _ => inversion H; subst; clear H
         | H : Err _ = Ok _ |- _ => discriminate H
         | H : (match ?x with _ => _ end) = Ok _ |- _ => let E := fresh "E" in destruct x eqn:E; try discriminate H
         | H : (if ?x then _ else _) = Ok _ |- _ => let E := fresh "E" in destruct x eqn:E; try discriminate H
         end.

(* ---------------------------------------------------------------- totality *)
(* [load] is a Gallina function defined by structural recursion only (no fuel argument):
   it returns a value for every version line and every node tree. *)
Lemma load_total_lemma : forall v d, exists r, load v d = r.
Proof. intros. eexists. reflexivity. Qed.

Lemma load_error_class : forall v d e, load v d = Err e -> e = EBadMsg \/ e = EProto \/ e = ESys.
Proof. intros v d e _. destruct e; auto. Qed.

(* ---------------------------------------------------------------- frequencies strictly ascending *)
Lemma parse_entries_ascending : forall ver ly items prev l,
  parse_entries ver ly prev items = Ok l ->
  ascending prev (map fst l) = true /\ List.length l = List.length items.
Proof.
  intros ver ly items. induction items as [|it rest IH]; intros prev l H.
  - simpl in H. inversion H. split; reflexivity.
  - simpl in H. destruct it as [s|q|pairs|]; try discriminate H.
    destruct (scan_entry pairs [] RNeg) as [[m f]|e] eqn:Es; [|discriminate H].
    destruct (forallb _ _) eqn:Er; [|discriminate H].
    destruct f as [| | |q|]; try discriminate H.
    + (* RNonneg q *)
      destruct (match prev with Some p => xle (XQ q) p | None => false end) eqn:Ea; [discriminate H|].
      destruct (run_steps ly m (psteps ver ly) (blank ly)) as [c|e] eqn:Ec; [|discriminate H].
      destruct (parse_entries ver ly (Some (XQ q)) rest) as [l'|e] eqn:Ep; [|discriminate H].
      inversion H; subst; clear H. destruct (IH _ _ Ep) as [A B]. simpl. split.
      * rewrite A. destruct prev as [p|]; [unfold xlt; rewrite Ea|]; reflexivity.
      * f_equal. exact B.
    + (* RPInf *)
      destruct (match prev with Some p => xle XInf p | None => false end) eqn:Ea; [discriminate H|].
      destruct (run_steps ly m (psteps ver ly) (blank ly)) as [c|e] eqn:Ec; [|discriminate H].
      destruct (parse_entries ver ly (Some XInf) rest) as [l'|e] eqn:Ep; [|discriminate H].
      inversion H; subst; clear H. destruct (IH _ _ Ep) as [A B]. simpl. split.
      * rewrite A. destruct prev as [p|]; [unfold xlt; rewrite Ea|]; reflexivity.
      * f_equal. exact B.
Qed.

Lemma parse_data_shape : forall ver ly freqs n l,
  parse_data ver ly freqs n = Ok l ->
  ascending None (map fst l) = true /\ Z.of_nat (List.length l) = freqs.
Proof.
  intros ver ly freqs n l H. unfold parse_data in H. destruct n as [s|items|p|]; try discriminate H.
  destruct (Z.eqb_spec (Z.of_nat (List.length items)) freqs) as [E|E]; [|discriminate H].
  destruct (parse_entries_ascending _ _ _ _ _ H) as [A B]. split; [exact A|]. rewrite B. exact E.
Qed.

Lemma parse_set_wf_shape : forall ver n c, parse_set ver n = Ok c -> wf_shape c = true.
Proof.
  intros ver n c H. unfold parse_set in H. destruct n as [s|q|pairs|]; try discriminate H.
  destruct (scan_set pairs acc0) as [a|e]; [|discriminate H].
  destruct (a_name a) as [name|]; [|discriminate H].
  destruct (a_data a) as [data|]; [|discriminate H].
  destruct ((a_rows a <? 0) || (a_colsn a <? 0) || (a_fr a <? 0)) eqn:Eneg; [discriminate H|].
  apply orb_false_elim in Eneg. destruct Eneg as [Eneg E3]. apply orb_false_elim in Eneg. destruct Eneg as [E1 E2].
  apply Z.ltb_ge in E1. apply Z.ltb_ge in E2.
  match type of H with (match ?ty with _ => _ end) = _ => destruct ty as [t|] eqn:Ety; [|discriminate H] end.
  destruct (dims_fit t (a_rows a) (a_colsn a)) eqn:Ed; [|discriminate H]. simpl in H.
  destruct (int_max / 4 <? Z.max (a_rows a) (a_colsn a) * Z.max (a_rows a) (a_colsn a)); [discriminate H|].
  match type of H with (match ?p with _ => _ end) = _ => destruct p; [|discriminate H] end.
  destruct (parse_data ver (mk_layout t (a_rows a) (a_colsn a)) (a_fr a) data) as [d|e] eqn:Epd; [|discriminate H].
  inversion H; subst; clear H. destruct (parse_data_shape _ _ _ _ _ Epd) as [A B].
  unfold wf_shape. simpl. rewrite Ed, A. rewrite B, Z.eqb_refl.
  apply Z.leb_le in E1. apply Z.leb_le in E2. rewrite E1, E2. reflexivity.
Qed.

Lemma add_cal_forall : forall (P : cal -> Prop) l c, Forall P l -> P c -> Forall P (add_cal l c).
Proof.
  intros P l c Hl Hc. induction Hl as [|x r Hx Hr IH]; simpl.
  - constructor; [exact Hc|constructor].
  - destruct (String.eqb (c_name x) (c_name c)); constructor; assumption.
Qed.

Lemma parse_calibrations_wf : forall ver items acc l,
  Forall (fun c => wf_shape c = true) acc -> parse_calibrations ver items acc = Ok l ->
  Forall (fun c => wf_shape c = true) l.
Proof.
  intros ver items. induction items as [|x r IH]; intros acc l Hacc H; simpl in H.
  - inversion H; subst. exact Hacc.
  - destruct (parse_set ver x) as [c|e] eqn:Ec; [|discriminate H].
    apply (IH _ _ (add_cal_forall _ _ _ Hacc (parse_set_wf_shape _ _ _ Ec)) H).
Qed.

Lemma parse_document_wf : forall ver pairs acc l,
  Forall (fun c => wf_shape c = true) acc -> parse_document ver pairs acc = Ok l ->
  Forall (fun c => wf_shape c = true) l.
Proof.
  intros ver pairs. induction pairs as [|[k v] r IH]; intros acc l Hacc H; simpl in H.
  - inversion H; subst. exact Hacc.
  - destruct k as [s|q|p|]; try (apply (IH _ _ Hacc H)).
    match type of H with (match ?p with _ => _ end) = _ => destruct p; [|discriminate H] end.
    destruct (String.eqb (s_text s) "calibrations" || (ver =? 0) && String.eqb (s_text s) "sets").
    + destruct v as [s2|items|p2|]; try discriminate H.
      destruct (parse_calibrations ver items acc) as [acc2|e2] eqn:Ea; [|discriminate H].
      apply (IH _ _ (parse_calibrations_wf _ _ _ _ Hacc Ea) H).
    + apply (IH _ _ Hacc H).
Qed.

Theorem load_ok_wf_shape : forall v d cals, load v d = Ok cals -> Forall (fun c => wf_shape c = true) cals.
Proof.
  intros v d cals H. unfold load in H. destruct (version_of v) as [ver|e]; [|discriminate H].
  destruct d as [[s|q|pairs|]|]; try discriminate H.
  apply (parse_document_wf _ _ _ _ (Forall_nil _) H).
Qed.

(* a file with descending frequencies is rejected (the fixed ascending test starts at the second entry) *)
Definition fscalar (q : Q) : node := NS (Build_scalar "f" None (RNonneg q) false None true).
Definition cxs (t : string) : node := NS (Build_scalar t None RBad true None false).
Definition keyn (k : string) : node := NS (Build_scalar k None RBad false None true).
Definition ints (z : Z) : node := NS (Build_scalar "n" (Some z) RBad false None false).
Definition t8_entry (q : Q) : node :=
  NM [(keyn "f", fscalar q); (keyn "ts", NQ [cxs "1"]); (keyn "ti", NQ [cxs "0"]); (keyn "tx", NQ [cxs "0"]); (keyn "tm", NQ [cxs "1"])].
Definition t8_doc (fs : list Q) : node :=
  NM [(keyn "calibrations",
       NQ [NM [(keyn "name", cxs "x"); (keyn "type", NS (Build_scalar "T8" None RBad false (Some T8) true));
               (keyn "rows", ints 1); (keyn "columns", ints 1); (keyn "frequencies", ints (Z.of_nat (List.length fs)));
               (keyn "data", NQ (map t8_entry fs))]])].

Example descending_rejected : load (VNew 1 0) (Some (t8_doc [2#1; 1#1])) = Err EBadMsg.
Proof. vm_compute. reflexivity. Qed.

(* non-vacuity: a document that loads, and its result is well formed *)
Example ascending_accepted :
  match load (VNew 1 0) (Some (t8_doc [1#1; 2#1; 5#2])) with
  | Ok [c] => wf_cal c = true /\ c_freqs c = 3
  | _ => False
  end.
Proof. vm_compute. split; reflexivity. Qed.

(* ---------------------------------------------------------------- emit / parse, bounded *)
Definition label (i : Z) : string := String (Ascii.ascii_of_nat (Z.to_nat i + 33)) EmptyString.
Definition labelled (n : Z) : list string := map label (zseq n).
Fixpoint cells_eqb (a : cells) (b : list string) : bool :=
  match a, b with
  | [], [] => true
  | Some x :: r, y :: s => String.eqb x y && cells_eqb r s
  | _, _ => false
  end.
Definition roundtrip_ok (t : ctype) (mr mc : Z) : bool :=
  let ly := mk_layout t mr mc in
  let c := labelled (l_terms ly) in
  match parse_entries 1 ly None [emit_entry ly (fscalar (1#1)) c] with
  | Ok [(_, got)] => cells_eqb got c && cells_defined (l_terms ly) got
  | _ => false
  end.
Definition all_types : list ctype := [T8; U8; TE10; UE10; T16; U16; UE14; E12].
Definition dims_upto (n : Z) : list (Z * Z) := flat_map (fun r => map (fun c => (r, c)) (map (fun k => k + 1) (zseq n))) (map (fun k => k + 1) (zseq n)).
Definition all_roundtrips (n : Z) : bool :=
  forallb (fun t => forallb (fun rc => if dims_fit t (fst rc) (snd rc) then roundtrip_ok t (fst rc) (snd rc) else true) (dims_upto n)) all_types.

Lemma emit_parse_terms_upto4 : all_roundtrips 4 = true.
Proof. vm_compute. reflexivity. Qed.

Lemma emit_parse_terms_bounded : forall t mr mc, In t all_types -> In (mr, mc) (dims_upto 4) -> dims_fit t mr mc = true ->
  roundtrip_ok t mr mc = true.
Proof.
  intros t mr mc Ht Hd Hf. pose proof emit_parse_terms_upto4 as H. unfold all_roundtrips in H.
  rewrite forallb_forall in H. specialize (H t Ht). rewrite forallb_forall in H. specialize (H (mr, mc) Hd).
  simpl in H. rewrite Hf in H. exact H.
Qed.
