(* Lemmas about CalFile/CalFileModel.v *)
Require Import ZArith List Bool String QArith Lia.
Import ListNotations.
Require Import LV.CalFile.CalFileModel.
Open Scope Z_scope.

Ltac brk :=
  repeat match goal with
         | H : Ok _ = Ok _ |- _ => inversion H; subst; clear H
         | H : Err _ = Ok _ |- _ => discriminate H
         | H : (match ?x with _ => _ end) = Ok _ |- _ => let E := fresh "E" in destruct x eqn:E; try discriminate H
         | H : (if ?x then _ else _) = Ok _ |- _ => let E := fresh "E" in destruct x eqn:E; try discriminate H
         end.

(* ---------------------------------------------------------------- error classes *)
(* (That [load] answers on every input needs no theorem: every Gallina function is total, and the
   model is defined by structural recursion only, which Coq's guard checker verifies.  What the
   lemmas below say is which error class can come from where.) *)
Definition only_badmsg {A : Type} (r : res A) : Prop := match r with Err e => e = EBadMsg | Ok _ => True end.
Definition badmsg_or_sys {A : Type} (r : res A) : Prop :=
  match r with Err e => e = EBadMsg \/ e = ESys | Ok _ => True end.

Lemma pv_items_ob : forall d items k c, only_badmsg (pv_items d k items c).
Proof.
  intros d. induction items as [|x r IH]; intros k c; simpl; [exact I|].
  destruct x as [s|q|p|]; try reflexivity. destruct (s_cx s); [apply IH|reflexivity].
Qed.
Lemma parse_vector_ob : forall d len n c, only_badmsg (parse_vector d len n c).
Proof.
  intros d len n c. destruct n as [s|items|p|]; simpl; try reflexivity.
  destruct (Z.of_nat (List.length items) =? len); [apply pv_items_ob|reflexivity].
Qed.
Lemma pm_row_ob : forall d nd row items col k c, only_badmsg (pm_row d nd row col k items c).
Proof.
  intros d nd row. induction items as [|x r IH]; intros col k c; simpl; [exact I|].
  destruct (nd && (row =? col)).
  - destruct x as [s|q|p|]; try reflexivity. destruct (is_null_text (s_text s)); [apply IH|reflexivity].
  - destruct x as [s|q|p|]; try reflexivity. destruct (s_cx s); [apply IH|reflexivity].
Qed.
Lemma pm_rows_ob : forall d nd cols rows row k c, only_badmsg (pm_rows d nd cols row k rows c).
Proof.
  intros d nd cols. induction rows as [|x r IH]; intros row k c; simpl; [exact I|].
  destruct x as [s|items|p|]; try reflexivity.
  destruct (Z.of_nat (List.length items) =? cols); [|reflexivity].
  pose proof (pm_row_ob d nd row items 0 k c) as H. destruct (pm_row d nd row 0 k items c) as [[c' k']|e]; [apply IH|exact H].
Qed.
Lemma parse_matrix_ob : forall d rows cols n nd c, only_badmsg (parse_matrix d rows cols n nd c).
Proof.
  intros d rows cols n nd c. destruct n as [s|rs|p|]; simpl; try reflexivity.
  destruct (Z.of_nat (List.length rs) =? rows); [apply pm_rows_ob|reflexivity].
Qed.
Lemma po_triple_ob : forall ly cell items term c, only_badmsg (po_triple ly cell term items c).
Proof.
  intros ly cell. induction items as [|x r IH]; intros term c; simpl; [exact I|].
  destruct x as [s|q|p|]; try reflexivity. destruct (s_cx s); [apply IH|reflexivity].
Qed.
Lemma po_row_ob : forall ly items cell c, only_badmsg (po_row ly cell items c).
Proof.
  intros ly. induction items as [|x r IH]; intros cell c; simpl; [exact I|].
  destruct x as [s|trip|p|]; try reflexivity.
  destruct (Z.of_nat (List.length trip) =? 3); [|reflexivity].
  pose proof (po_triple_ob ly cell trip 0 c) as H. destruct (po_triple ly cell 0 trip c) as [c'|e]; [apply IH|exact H].
Qed.
Lemma po_rows_ob : forall ly rows cell c, only_badmsg (po_rows ly cell rows c).
Proof.
  intros ly. induction rows as [|x r IH]; intros cell c; simpl; [exact I|].
  destruct x as [s|items|p|]; try reflexivity.
  destruct (Z.of_nat (List.length items) =? l_mc ly); [|reflexivity].
  pose proof (po_row_ob ly items cell c) as H. destruct (po_row ly cell items c) as [[c' cell']|e]; [apply IH|exact H].
Qed.
Lemma parse_old_e_ob : forall ly n c, only_badmsg (parse_old_e ly n c).
Proof.
  intros ly n c. destruct n as [s|rs|p|]; simpl; try reflexivity.
  destruct (Z.of_nat (List.length rs) =? l_mr ly); [apply po_rows_ob|reflexivity].
Qed.
Lemma run_steps_ob : forall ly m steps c, only_badmsg (run_steps ly m steps c).
Proof.
  intros ly m. induction steps as [|st r IH]; intros c; simpl; [exact I|].
  match goal with |- only_badmsg (match ?one with _ => _ end) => assert (H : only_badmsg one); [|destruct one as [c'|e]; [apply IH|exact H]] end.
  destruct st as [i d len|i d rows cols nd|].
  - destruct (lookup m i); [apply parse_vector_ob|reflexivity].
  - destruct (lookup m i); [apply parse_matrix_ob|reflexivity].
  - destruct (lookup m ME); [apply parse_old_e_ob|reflexivity].
Qed.
Lemma scan_entry_ob : forall pairs m f, only_badmsg (scan_entry pairs m f).
Proof.
  induction pairs as [|[k v] r IH]; intros m f; simpl; [exact I|].
  destruct k as [s|q|p|]; try apply IH.
  destruct (String.eqb (s_text s) "f").
  - destruct v as [s2|q|p|]; try reflexivity. destruct (s_real s2); try apply IH. reflexivity.
  - destruct (key_mid (s_text s)); apply IH.
Qed.
Lemma parse_entries_ob : forall ver ly items prev, only_badmsg (parse_entries ver ly prev items).
Proof.
  intros ver ly. induction items as [|x r IH]; intros prev; simpl; [exact I|].
  destruct x as [s|q|pairs|]; try reflexivity.
  pose proof (scan_entry_ob pairs [] RNeg) as H. destruct (scan_entry pairs [] RNeg) as [[m f]|e]; [|exact H].
  destruct (forallb _ _); [|reflexivity].
  destruct f as [| | |q|]; try reflexivity.
  - destruct (match prev with Some p => xle (XQ q) p | None => false end); [reflexivity|].
    pose proof (run_steps_ob ly m (psteps ver ly) (blank ly)) as H2.
    destruct (run_steps ly m (psteps ver ly) (blank ly)) as [c|e]; [|exact H2].
    pose proof (IH (Some (XQ q))) as H3. destruct (parse_entries ver ly (Some (XQ q)) r); [exact I|exact H3].
  - destruct (match prev with Some p => xle XInf p | None => false end); [reflexivity|].
    pose proof (run_steps_ob ly m (psteps ver ly) (blank ly)) as H2.
    destruct (run_steps ly m (psteps ver ly) (blank ly)) as [c|e]; [|exact H2].
    pose proof (IH (Some XInf)) as H3. destruct (parse_entries ver ly (Some XInf) r); [exact I|exact H3].
Qed.
Lemma parse_data_ob : forall ver ly freqs n, only_badmsg (parse_data ver ly freqs n).
Proof.
  intros ver ly freqs n. destruct n as [s|items|p|]; simpl; try reflexivity.
  destruct (Z.of_nat (List.length items) =? freqs); [apply parse_entries_ob|reflexivity].
Qed.
Lemma scan_set_ob : forall pairs a, only_badmsg (scan_set pairs a).
Proof.
  induction pairs as [|[k v] r IH]; intros a; simpl; [exact I|].
  destruct k as [s|q|p|]; try apply IH.
  repeat match goal with
         | |- only_badmsg (if ?b then _ else _) => destruct b
         | |- only_badmsg (match parse_int ?v with _ => _ end) => destruct (parse_int v)
         | |- only_badmsg (match ?v with NS _ => _ | _ => _ end) => destruct v
         | |- only_badmsg (match s_type ?s with _ => _ end) => destruct (s_type s)
         | |- only_badmsg (scan_set _ _) => apply IH
         | |- only_badmsg (Err EBadMsg) => reflexivity
         end.
Qed.
(* the property import: bad message (recursive alias; key rejected, fix DO91), never a version error
   (sharper: CalLoadErrClass.props_ok_ob) *)
Lemma props_ok_bs : forall n, badmsg_or_sys (props_ok n).
Proof.
  fix IH 1. intros [s|items|pairs|]; simpl.
  - exact I.
  - induction items as [|x r IHr]; [exact I|].
    pose proof (IH x) as Hx. destruct (props_ok x); [exact IHr|exact Hx].
  - induction pairs as [|[k v] r IHr]; [exact I|].
    destruct k as [s|q|p|]; try exact IHr.
    destruct (s_keyok s); [|left; reflexivity].
    pose proof (IH v) as Hv. destruct (props_ok v); [exact IHr|exact Hv].
  - left. reflexivity.
Qed.
Lemma parse_set_bs : forall ver n, badmsg_or_sys (parse_set ver n).
Proof.
  intros ver n. unfold parse_set. destruct n as [s|q|pairs|]; try (left; reflexivity).
  pose proof (scan_set_ob pairs acc0) as H. destruct (scan_set pairs acc0) as [a|e]; [|left; exact H].
  destruct (a_name a); [|left; reflexivity]. destruct (a_data a) as [data|]; [|left; reflexivity].
  destruct ((a_rows a <? 0) || (a_colsn a <? 0) || (a_fr a <? 0)); [left; reflexivity|].
  match goal with |- badmsg_or_sys (match ?ty with _ => _ end) => destruct ty as [t|]; [|left; reflexivity] end.
  destruct ((a_rows a <? min_dim) || (a_colsn a <? min_dim) || negb (dims_fit t (a_rows a) (a_colsn a))); [left; reflexivity|]. cbv zeta.
  destruct (int_max / 4 <? Z.max (a_rows a) (a_colsn a) * Z.max (a_rows a) (a_colsn a)); [left; reflexivity|].
  assert (Hp : badmsg_or_sys (match a_props a with Some pn => props_ok pn | None => Ok tt end)).
  { destruct (a_props a); [apply props_ok_bs|exact I]. }
  destruct (match a_props a with Some pn => props_ok pn | None => Ok tt end); [|exact Hp].
  pose proof (parse_data_ob ver (mk_layout t (a_rows a) (a_colsn a)) (a_fr a) data) as Hd.
  destruct (parse_data ver (mk_layout t (a_rows a) (a_colsn a)) (a_fr a) data); [exact I|left; exact Hd].
Qed.
Lemma parse_calibrations_bs : forall ver items acc, badmsg_or_sys (parse_calibrations ver items acc).
Proof.
  intros ver. induction items as [|x r IH]; intros acc; simpl; [exact I|].
  pose proof (parse_set_bs ver x) as H. destruct (parse_set ver x); [apply IH|exact H].
Qed.
Lemma parse_document_bs : forall ver pairs acc, badmsg_or_sys (parse_document ver pairs acc).
Proof.
  intros ver. induction pairs as [|[k v] r IH]; intros acc; simpl; [exact I|].
  destruct k as [s|q|p|]; try apply IH.
  assert (Hp : badmsg_or_sys (if String.eqb (s_text s) "properties" then props_ok v else Ok tt)).
  { destruct (String.eqb (s_text s) "properties"); [apply props_ok_bs|exact I]. }
  destruct (if String.eqb (s_text s) "properties" then props_ok v else Ok tt); [|exact Hp].
  destruct (String.eqb (s_text s) "calibrations" || (ver =? 0) && String.eqb (s_text s) "sets"); [|apply IH].
  destruct v as [s2|items|p2|]; try (left; reflexivity).
  pose proof (parse_calibrations_bs ver items acc) as H. destruct (parse_calibrations ver items acc); [apply IH|exact H].
Qed.

(* ENOPROTOOPT comes from the version line and from nowhere else *)
Theorem load_eproto_iff : forall v d, load v d = Err EProto <-> version_of v = Err EProto.
Proof.
  intros v d. unfold load. split.
  - destruct (version_of v) as [ver|e]; [|intro H; inversion H; reflexivity].
    destruct d as [[s|q|pairs|]|]; try discriminate.
    pose proof (parse_document_bs ver pairs []) as H. intro E. rewrite E in H. destruct H; discriminate.
  - intro E. rewrite E. reflexivity.
Qed.

(* a version line the loader accepts: the only errors left are EBADMSG, or a system error raised by
   the property import *)
Theorem load_version_ok_errors : forall v ver d e, version_of v = Ok ver -> load v d = Err e -> e = EBadMsg \/ e = ESys.
Proof.
  intros v ver d e Hv H. unfold load in H. rewrite Hv in H.
  destruct d as [[s|q|pairs|]|]; try (inversion H; left; reflexivity).
  pose proof (parse_document_bs ver pairs []) as P. rewrite H in P. exact P.
Qed.

(* ---------------------------------------------------------------- frequencies strictly ascending *)
Lemma parse_entries_ascending : forall ver ly items prev l,
  parse_entries ver ly prev items = Ok l ->
  ascending prev (map fst l) = true /\ List.length l = List.length items.
Proof.
  intros ver ly items. induction items as [|it rest IH]; intros prev l H.
  - simpl in H. inversion H. split; reflexivity.
  - simpl in H. destruct it as [s|q|pairs|]; try discriminate H.
    destruct (scan_entry pairs [] RNeg) as [[m f]|e] eqn:Es; [|discriminate H].
    destruct (forallb _ _) eqn:Er; [|discriminate H].
    destruct f as [| | |q|]; try discriminate H.
    + (* RNonneg q *)
      destruct (match prev with Some p => xle (XQ q) p | None => false end) eqn:Ea; [discriminate H|].
      destruct (run_steps ly m (psteps ver ly) (blank ly)) as [c|e] eqn:Ec; [|discriminate H].
      destruct (parse_entries ver ly (Some (XQ q)) rest) as [l'|e] eqn:Ep; [|discriminate H].
      inversion H; subst; clear H. destruct (IH _ _ Ep) as [A B]. simpl. split.
      * rewrite A. destruct prev as [p|]; [unfold xlt; rewrite Ea|]; reflexivity.
      * f_equal. exact B.
    + (* RPInf *)
      destruct (match prev with Some p => xle XInf p | None => false end) eqn:Ea; [discriminate H|].
      destruct (run_steps ly m (psteps ver ly) (blank ly)) as [c|e] eqn:Ec; [|discriminate H].
      destruct (parse_entries ver ly (Some XInf) rest) as [l'|e] eqn:Ep; [|discriminate H].
      inversion H; subst; clear H. destruct (IH _ _ Ep) as [A B]. simpl. split.
      * rewrite A. destruct prev as [p|]; [unfold xlt; rewrite Ea|]; reflexivity.
      * f_equal. exact B.
Qed.

Lemma parse_data_shape : forall ver ly freqs n l,
  parse_data ver ly freqs n = Ok l ->
  ascending None (map fst l) = true /\ Z.of_nat (List.length l) = freqs.
Proof.
  intros ver ly freqs n l H. unfold parse_data in H. destruct n as [s|items|p|]; try discriminate H.
  destruct (Z.eqb_spec (Z.of_nat (List.length items)) freqs) as [E|E]; [|discriminate H].
  destruct (parse_entries_ascending _ _ _ _ _ H) as [A B]. split; [exact A|]. rewrite B. exact E.
Qed.

Lemma parse_set_wf_shape : forall ver n c, parse_set ver n = Ok c -> wf_shape c = true.
Proof.
  intros ver n c H. unfold parse_set in H. destruct n as [s|q|pairs|]; try discriminate H.
  destruct (scan_set pairs acc0) as [a|e]; [|discriminate H].
  destruct (a_name a) as [name|]; [|discriminate H].
  destruct (a_data a) as [data|]; [|discriminate H].
  destruct ((a_rows a <? 0) || (a_colsn a <? 0) || (a_fr a <? 0)) eqn:Eneg; [discriminate H|].
  apply orb_false_elim in Eneg. destruct Eneg as [Eneg E3]. apply orb_false_elim in Eneg. destruct Eneg as [E1 E2].
  apply Z.ltb_ge in E1. apply Z.ltb_ge in E2.
  match type of H with (match ?ty with _ => _ end) = _ => destruct ty as [t|] eqn:Ety; [|discriminate H] end.
  destruct ((a_rows a <? min_dim) || (a_colsn a <? min_dim)); [discriminate H|].
  destruct (dims_fit t (a_rows a) (a_colsn a)) eqn:Ed; [|discriminate H]. simpl in H.
  destruct (int_max / 4 <? Z.max (a_rows a) (a_colsn a) * Z.max (a_rows a) (a_colsn a)); [discriminate H|].
  match type of H with (match ?p with _ => _ end) = _ => destruct p; [|discriminate H] end.
  destruct (parse_data ver (mk_layout t (a_rows a) (a_colsn a)) (a_fr a) data) as [d|e] eqn:Epd; [|discriminate H].
  inversion H; subst; clear H. destruct (parse_data_shape _ _ _ _ _ Epd) as [A B].
  unfold wf_shape. simpl. rewrite Ed, A. rewrite B, Z.eqb_refl.
  apply Z.leb_le in E1. apply Z.leb_le in E2. rewrite E1, E2. reflexivity.
Qed.

Lemma add_cal_forall : forall (P : cal -> Prop) l c, Forall P l -> P c -> Forall P (add_cal l c).
Proof.
  intros P l c Hl Hc. induction Hl as [|x r Hx Hr IH]; simpl.
  - constructor; [exact Hc|constructor].
  - destruct (String.eqb (c_name x) (c_name c)); constructor; assumption.
Qed.

Lemma parse_calibrations_wf : forall ver items acc l,
  Forall (fun c => wf_shape c = true) acc -> parse_calibrations ver items acc = Ok l ->
  Forall (fun c => wf_shape c = true) l.
Proof.
  intros ver items. induction items as [|x r IH]; intros acc l Hacc H; simpl in H.
  - inversion H; subst. exact Hacc.
  - destruct (parse_set ver x) as [c|e] eqn:Ec; [|discriminate H].
    apply (IH _ _ (add_cal_forall _ _ _ Hacc (parse_set_wf_shape _ _ _ Ec)) H).
Qed.

Lemma parse_document_wf : forall ver pairs acc l,
  Forall (fun c => wf_shape c = true) acc -> parse_document ver pairs acc = Ok l ->
  Forall (fun c => wf_shape c = true) l.
Proof.
  intros ver pairs. induction pairs as [|[k v] r IH]; intros acc l Hacc H; simpl in H.
  - inversion H; subst. exact Hacc.
  - destruct k as [s|q|p|]; try (apply (IH _ _ Hacc H)).
    match type of H with (match ?p with _ => _ end) = _ => destruct p; [|discriminate H] end.
    destruct (String.eqb (s_text s) "calibrations" || (ver =? 0) && String.eqb (s_text s) "sets").
    + destruct v as [s2|items|p2|]; try discriminate H.
      destruct (parse_calibrations ver items acc) as [acc2|e2] eqn:Ea; [|discriminate H].
      apply (IH _ _ (parse_calibrations_wf _ _ _ _ Hacc Ea) H).
    + apply (IH _ _ Hacc H).
Qed.

Theorem load_ok_wf_shape : forall v d cals, load v d = Ok cals -> Forall (fun c => wf_shape c = true) cals.
Proof.
  intros v d cals H. unfold load in H. destruct (version_of v) as [ver|e]; [|discriminate H].
  destruct d as [[s|q|pairs|]|]; try discriminate H.
  apply (parse_document_wf _ _ _ _ (Forall_nil _) H).
Qed.

(* a file with descending frequencies is rejected (the fixed ascending test starts at the second entry) *)
Definition fscalar (q : Q) : node := NS (Build_scalar "f" None (RNonneg q) false None true).
Definition cxs (t : string) : node := NS (Build_scalar t None RBad true None false).
Definition keyn (k : string) : node := NS (Build_scalar k None RBad false None true).
Definition ints (z : Z) : node := NS (Build_scalar "n" (Some z) RBad false None false).
Definition t8_entry (q : Q) : node :=
  NM [(keyn "f", fscalar q); (keyn "ts", NQ [cxs "1"]); (keyn "ti", NQ [cxs "0"]); (keyn "tx", NQ [cxs "0"]); (keyn "tm", NQ [cxs "1"])].
Definition t8_doc (fs : list Q) : node :=
  NM [(keyn "calibrations",
       NQ [NM [(keyn "name", cxs "x"); (keyn "type", NS (Build_scalar "T8" None RBad false (Some T8) true));
               (keyn "rows", ints 1); (keyn "columns", ints 1); (keyn "frequencies", ints (Z.of_nat (List.length fs)));
               (keyn "data", NQ (map t8_entry fs))]])].

Example descending_rejected : load (VNew 1 0) (Some (t8_doc [2#1; 1#1])) = Err EBadMsg.
Proof. vm_compute. reflexivity. Qed.

(* non-vacuity: a document that loads, and its result is well formed *)
Example ascending_accepted :
  match load (VNew 1 0) (Some (t8_doc [1#1; 2#1; 5#2])) with
  | Ok [c] => wf_cal c = true /\ c_freqs c = 3
  | _ => False
  end.
Proof. vm_compute. split; reflexivity. Qed.

