(* The pre-release calibration file format "#VNACAL 2.x" as a node tree, generated from the same
   container the saver model (CalFile/CalSaveModel.v) writes as "#VNACal 1.0".  Model only: no proofs.

   libvna has no writer for this format any more; what is written here is the format vnacal_load.c
   still reads when the version line maps to major version 0 (parse_document: key "sets" besides
   "calibrations"; parse_set: "type" optional and, if present, E12; parse_data: the only required
   matrix is "e"; parse_matrices -> parse_old_e_matrix: "e" is a rows x columns sequence of sequences
   whose cells are the triples [el, er, em] of that (row, column)), i.e. the layout of the test-suite
   file src/tests/compat-V2.vnacal (keys: name rows columns frequencies z0 data; entry keys: f e).
   The loader side of it (version_of (VOld 2 _) = Ok 0, parse_old_e, "sets", the type default) is in
   CalFile/CalFileModel.v as coded; this file only adds the generator used to state legacy_versions.

   The terms of the triple at (row, column) are named through the VL_*12 macros exactly as the
   current emitter names them (CalSaveModel.add_error_parameters, E12 arm):
     el = e[VL_EL12_OFFSET(column) + row], er = e[VL_ER12_OFFSET(column) + row],
     em = e[VL_EM12_OFFSET(column) + row]. *)
Require Import ZArith List Bool String QArith.
Import ListNotations.
Require Import LV.CalFile.CalFileModel LV.CalFile.CalSaveModel.
Open Scope Z_scope.

(* how a 2.x document may be spelled: the key of the list of calibrations and whether "type: E12" is written *)
Record legacy_style := { ls_sets_key : bool;      (* true: "sets" (the old spelling), false: "calibrations" *)
                         ls_type_key : bool }.    (* true: a "type" entry (E12) is present *)

Section Legacy.
  Variable num : Type.
  Variable num0 : num.
  Variable sc_int : Z -> scalar.
  Variable sc_real : Z -> num -> scalar.
  Variable sc_cx : Z -> (num * num) -> scalar.
  Variable sc_name : string -> scalar.
  Variable sc_type : ctype -> scalar.

  Notation cnum := (num * num)%type.
  Notation cx := (cx num sc_cx).
  Notation scal := (scal num).
  Notation container := (container num).

  (* the cell (row, column) of "e": [el, er, em] *)
  Definition old_cell (dp : Z) (ly : layout) (e : Z -> cnum) (row column : Z) : node :=
    NQ [cx dp (e (vl_el12_offset ly column + row));
        cx dp (e (vl_er12_offset ly column + row));
        cx dp (e (vl_em12_offset ly column + row))].
  Definition old_row (dp : Z) (ly : layout) (e : Z -> cnum) (columns : list Z) (row : Z) : node :=
    NQ (map (old_cell dp ly e row) columns).
  Definition old_e_node (dp : Z) (ly : layout) (e : Z -> cnum) : node :=
    NQ (map (old_row dp ly e (zupto (l_mc ly))) (zupto (l_mr ly))).

  Definition legacy_entry (fp dp : Z) (ly : layout) (c : scal) (findex : Z) (f : num) : node :=
    NM [(key_scalar "f", NS (sc_real fp f)); (key_scalar "e", old_e_node dp ly (e_at num num0 c findex))].
  Fixpoint legacy_entries (fp dp : Z) (ly : layout) (c : scal) (findex : Z) (fvec : list num) : list node :=
    match fvec with
    | [] => []
    | f :: r => legacy_entry fp dp ly c findex f :: legacy_entries fp dp ly c (findex + 1) r
    end.

  Definition legacy_cal (st : legacy_style) (fp dp : Z) (c : scal) : node :=
    let ly := mk_layout E12 (k_rows num c) (k_cols num c) in
    NM ([(key_scalar "name", NS (sc_name (k_name num c)))]
        ++ (if ls_type_key st then [(key_scalar "type", NS (sc_type E12))] else [])
        ++ [(key_scalar "rows", NS (sc_int (k_rows num c)));
            (key_scalar "columns", NS (sc_int (k_cols num c)));
            (key_scalar "frequencies", NS (sc_int (k_freqs num c)));
            (key_scalar "z0", cx dp (k_z0 num c))]
        ++ opt_properties (k_props num c)
        ++ [(key_scalar "data", NQ (legacy_entries fp dp ly c 0 (k_fvec num c)))]).

  Fixpoint legacy_slots (st : legacy_style) (fp dp : Z) (slots : list (option scal)) : list node :=
    match slots with
    | [] => []
    | None :: r => legacy_slots st fp dp r
    | Some c :: r => legacy_cal st fp dp c :: legacy_slots st fp dp r
    end.

  Definition legacy_doc (st : legacy_style) (v : container) : node :=
    NM (opt_properties (v_props num v)
        ++ [(key_scalar (if ls_sets_key st then "sets" else "calibrations"),
             NQ (legacy_slots st (v_fprec num v) (v_dprec num v) (v_slots num v)))]).

  (* "#VNACAL 2.<minor>" as the loader's second sscanf scans it *)
  Definition legacy_vline (minor : Z) : vline := VOld 2 minor.
  (* "#VNACAL 3.<minor>": the old spelling of the current format *)
  Definition v3_vline (minor : Z) : vline := VOld 3 minor.

  (* what the old format can express: every used slot is an E12 calibration *)
  Definition all_e12 (slots : list (option scal)) : Prop :=
    forall c, In (Some c) slots -> k_type num c = E12.
End Legacy.
