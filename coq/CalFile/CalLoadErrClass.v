(* CalLoadErrClass: after fix DO91 (a property key that is no property expression is a syntax error of
   the document, EBADMSG, not the system error EINVAL) every failure of vnacal_load behind an accepted
   version line is EBADMSG: the system class is left to allocation / I/O failures, which the model does
   not contain. *)
Require Import ZArith List Bool String QArith.
Import ListNotations.
Require Import LV.CalFile.CalFileModel LV.CalFile.CalFileProofs.
Open Scope Z_scope.

Lemma props_ok_ob : forall n, only_badmsg (props_ok n).
Proof.
  fix IH 1. intros [s|items|pairs|]; simpl.
  - exact I.
  - induction items as [|x r IHr]; [exact I|].
    pose proof (IH x) as Hx. destruct (props_ok x); [exact IHr|exact Hx].
  - induction pairs as [|[k v] r IHr]; [exact I|].
    destruct k as [s|q|p|]; try exact IHr.
    destruct (s_keyok s); [|reflexivity].
    pose proof (IH v) as Hv. destruct (props_ok v); [exact IHr|exact Hv].
  - reflexivity.
Qed.

Lemma parse_set_ob : forall ver n, only_badmsg (parse_set ver n).
Proof.
  intros ver n. unfold parse_set. destruct n as [s|q|pairs|]; try reflexivity.
  pose proof (scan_set_ob pairs acc0) as H. destruct (scan_set pairs acc0) as [a|e]; [|exact H].
  destruct (a_name a); [|reflexivity]. destruct (a_data a) as [data|]; [|reflexivity].
  destruct ((a_rows a <? 0) || (a_colsn a <? 0) || (a_fr a <? 0)); [reflexivity|].
  match goal with |- only_badmsg (match ?ty with _ => _ end) => destruct ty as [t|]; [|reflexivity] end.
  destruct ((a_rows a <? min_dim) || (a_colsn a <? min_dim) || negb (dims_fit t (a_rows a) (a_colsn a))); [reflexivity|]. cbv zeta.
  destruct (int_max / 4 <? Z.max (a_rows a) (a_colsn a) * Z.max (a_rows a) (a_colsn a)); [reflexivity|].
  assert (Hp : only_badmsg (match a_props a with Some pn => props_ok pn | None => Ok tt end)).
  { destruct (a_props a); [apply props_ok_ob|exact I]. }
  destruct (match a_props a with Some pn => props_ok pn | None => Ok tt end); [|exact Hp].
  pose proof (parse_data_ob ver (mk_layout t (a_rows a) (a_colsn a)) (a_fr a) data) as Hd.
  destruct (parse_data ver (mk_layout t (a_rows a) (a_colsn a)) (a_fr a) data); [exact I|exact Hd].
Qed.

Lemma parse_calibrations_ob : forall ver items acc, only_badmsg (parse_calibrations ver items acc).
Proof.
  intros ver. induction items as [|x r IH]; intros acc; simpl; [exact I|].
  pose proof (parse_set_ob ver x) as H. destruct (parse_set ver x); [apply IH|exact H].
Qed.

Lemma parse_document_ob : forall ver pairs acc, only_badmsg (parse_document ver pairs acc).
Proof.
  intros ver. induction pairs as [|[k v] r IH]; intros acc; simpl; [exact I|].
  destruct k as [s|q|p|]; try apply IH.
  assert (Hp : only_badmsg (if String.eqb (s_text s) "properties" then props_ok v else Ok tt)).
  { destruct (String.eqb (s_text s) "properties"); [apply props_ok_ob|exact I]. }
  destruct (if String.eqb (s_text s) "properties" then props_ok v else Ok tt); [|exact Hp].
  destruct (String.eqb (s_text s) "calibrations" || (ver =? 0) && String.eqb (s_text s) "sets"); [|apply IH].
  destruct v as [s2|items|p2|]; try reflexivity.
  pose proof (parse_calibrations_ob ver items acc) as H. destruct (parse_calibrations ver items acc); [apply IH|exact H].
Qed.

(* a version line the loader accepts: every failure is EBADMSG, for every document tree - bad property
   keys and recursive aliases inside "properties" included *)
Theorem load_version_ok_badmsg : forall v ver d e, version_of v = Ok ver -> load v d = Err e -> e = EBadMsg.
Proof.
  intros v ver d e Hv H. unfold load in H. rewrite Hv in H.
  destruct d as [[s|q|pairs|]|]; try (inversion H; reflexivity).
  pose proof (parse_document_ob ver pairs []) as P. rewrite H in P. exact P.
Qed.

(* the hypothesis is met, by the bad key and by the alias cycle:  properties: { p: 1, "a[": 2 }  and
   properties: &a [ *a ]  (the scalar oracle values other than the key test are irrelevant here) *)
Definition bad_key : node := NS (Build_scalar "a[" None RBad false None false).
Example bad_property_key_is_badmsg :
  load (VNew 1 0) (Some (NM [(key_scalar "properties", NM [(key_scalar "p", key_scalar "1"); (bad_key, key_scalar "2")])]))
  = Err EBadMsg.
Proof. vm_compute. reflexivity. Qed.
Example recursive_alias_is_badmsg :
  load (VNew 1 0) (Some (NM [(key_scalar "properties", NQ [NCYC])])) = Err EBadMsg.
Proof. vm_compute. reflexivity. Qed.
