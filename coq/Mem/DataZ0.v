(* Pointer-level model, as coded, of the z0 modes of a vnadata_t (src/vnadata_convert_to_fz0.c,
   vnadata_convert_to_z0.c, vnadata_set_z0.c, vnadata_set_fz0.c, vnadata_set_z0_vector.c,
   vnadata_set_fz0_vector.c, vnadata_set_all_z0.c, vnadata_get_z0_vector.c, vnadata_get_fz0_vector.c and
   the loops of vnadata_resize that re-initialise vacated z0 cells) on top of the allocation skeleton
   of DataAlloc.v.  The object is the [vdata] of DataAlloc.v plus the dimensions in use:
     ofr = vd_frequencies, opt = MAX(vd_rows, vd_columns).
   vdi_z0_vector and vdi_z0_vector_vector are one union in C; here they are slots 2 and 3 of the
   table, of which only the one selected by VF_PER_F_Z0 is in use.
   _vnadata_convert_to_fz0 builds its row vector in a local (clfpp) and installs it at the end; the
   model keeps the local in the (until then unused) slots 3 and 5+2i of the table and, on the failure
   path, sets them back while it frees the rows ("while (--findex >= 0) free(clfpp[findex])").
   A caller's vector is [SExt] (memory outside the object), [SOwnZ0] (the pointer returned by
   vnadata_get_z0_vector) or [SOwnRow i] (returned by vnadata_get_fz0_vector(vdp, i)).
   Variants: [ZFixed] the current tree; [ZNoCopy] before the D72 / D73 repairs (the vector setters do
   not copy the caller's vector before the conversion frees the object's own vectors); [ZRowsInUse]
   the bug shape of the seeded change C03-4 (_vnadata_convert_to_fz0 allocates rows for the
   frequencies in use only).  No proofs in this file. *)
Require Import List ZArith Bool Arith Lia.
Import ListNotations.
Require Import LV.Mem.Alloc LV.Mem.PropList LV.Mem.DataAlloc.
Open Scope Z_scope.

Inductive zvariant := ZFixed | ZNoCopy | ZRowsInUse.

Record vobj := mkO { od : vdata; ofr : nat; opt : nat }.

Definition set_perf (d : vdata) (p : bool) (zc : nat) : vdata :=
  mkD p (pal d) (mal d) (fal d) zc (dcap d) (tbl d).
Definition set_slot (d : vdata) (i : nat) (c : option block_id) : vdata := set_tbl d (upd (tbl d) i c).

(* free(vector_vector[i]) for the listed rows, in order; the cells are set to NULL in the model *)
Fixpoint free_zrows (d : vdata) (idx : list nat) : M vdata :=
  match idx with
  | [] => ret d
  | i :: rest =>
      row_access d S_ZVV i (zcap d) ;;;
      free (slot d (zrow i)) ;;;
      free_zrows (set_slot d (zrow i) None) rest
  end.

(* the loop of _vnadata_convert_to_fz0: clfpp[findex] = calloc(p_allocation, ...); on failure the rows
   allocated so far are released, last first *)
Fixpoint alloc_zrows (d : vdata) (done todo : list nat) : M (bool * vdata) :=
  match todo with
  | [] => ret (true, d)
  | i :: rest =>
      row_access d S_ZVV i (zcap d) ;;;
      m <- malloc (Z.of_nat (pal d) * 16) ;;
      match m with
      | None => d' <- free_zrows d done ;; ret (false, d')
      | Some b => alloc_zrows (set_slot d (zrow i) (Some b)) (i :: done) rest
      end
  end.

Definition convert_to_fz0 (v : zvariant) (o : vobj) : M (bool * vdata) :=
  let d := od o in
  if perf d then ret (true, d)
  else
    r <- (if (0 <? fal d)%nat then
            m <- malloc (Z.of_nat (fal d) * 8) ;;
            ret (match m with None => None | Some b => Some (Some b) end)
          else ret (Some None)) ;;
    match r with
    | None => ret (false, d)
    | Some vv =>
        let d1 := set_perf (set_slot d S_ZVV vv) false (fal d) in
        let nrows := match v with ZRowsInUse => ofr o | _ => fal d end in
        r2 <- (if (0 <? pal d)%nat then alloc_zrows d1 [] (seq 0 nrows) else ret (true, d1)) ;;
        (let (ok, d2) := r2 in
         if ok then
           free (slot d2 S_Z0) ;;;
           ret (true, set_perf (set_slot d2 S_Z0 None) true (zcap d2))
         else
           free (slot d2 S_ZVV) ;;;
           ret (false, set_perf (set_slot d2 S_ZVV None) false 0%nat))
    end.

Definition convert_to_z0 (d : vdata) : M (bool * vdata) :=
  if negb (perf d) then ret (true, d)
  else
    r <- (if (0 <? pal d)%nat then
            m <- malloc (Z.of_nat (pal d) * 16) ;;
            ret (match m with None => None | Some b => Some (Some b) end)
          else ret (Some None)) ;;
    match r with
    | None => ret (false, d)
    | Some c =>
        d1 <- free_zrows (set_slot d S_Z0 c) (seq 0 (fal d)) ;;
        free (slot d1 S_ZVV) ;;;
        ret (true, set_perf (set_slot d1 S_ZVV None) false 0%nat)
    end.

(* access to n cells from [lo] of the simple vector / of the row of frequency [findex] *)
Definition z0_cells (d : vdata) (lo n : Z) : M unit :=
  touch (slot d S_Z0) ;;; check_range lo n (Z.of_nat (pal d)).
Definition fz0_cells (d : vdata) (findex : nat) (lo n : Z) : M unit :=
  row_access d S_ZVV findex (zcap d) ;;; touch (slot d (zrow findex)) ;;; check_range lo n (Z.of_nat (pal d)).

Fixpoint fz0_rows_cells (d : vdata) (idx : list nat) (lo n : Z) : M unit :=
  match idx with
  | [] => ret tt
  | i :: rest => fz0_cells d i lo n ;;; fz0_rows_cells d rest lo n
  end.

(* vnadata_resize: the allocation part (DataAlloc.resize), then "Re-initialize vacated inner Z0 vector
   cells" and the z0 part of "Re-initialize vacated frequency rows", then the new dimensions *)
Definition oresize (o : vobj) (ports cells freqs : Z) : M (vobj * outcome) :=
  r <- resize Fixed (od o) ports cells freqs ;;
  (let (d, out) := r in
   match out with
   | Err _ => ret (mkO d (ofr o) (opt o), out)
   | Done =>
       let np := Z.to_nat ports in
       let nf := Z.to_nat freqs in
       (if (np <? opt o)%nat then
          (if perf d then fz0_rows_cells d (seq 0 (ofr o)) (Z.of_nat np) (Z.of_nat (opt o - np))
           else z0_cells d (Z.of_nat np) (Z.of_nat (opt o - np)))
        else ret tt) ;;;
       (if (nf <? ofr o)%nat && perf d && (0 <? opt o)%nat then
          fz0_rows_cells d (rev (seq nf (ofr o - nf))) 0 (Z.of_nat (opt o))
        else ret tt) ;;;
       ret (mkO d nf np, Done)
   end).

Inductive zsrc := SExt | SOwnZ0 | SOwnRow (i : Z).

(* the getter that produced the caller's pointer: None = the getter failed (EINVAL);
   Some None = memory outside the object; Some (Some p) = the pointer p (possibly NULL = None) *)
Definition resolve (o : vobj) (src : zsrc) : option (option (option block_id)) :=
  let d := od o in
  match src with
  | SExt => Some None
  | SOwnZ0 => if perf d then None else Some (Some (slot d S_Z0))
  | SOwnRow i =>
      if (i <? 0) || (Z.of_nat (ofr o) <=? i) then None
      else if perf d then Some (Some (slot d (zrow (Z.to_nat i)))) else Some (Some (slot d S_Z0))
  end.

(* reading [n] cells through the caller's pointer *)
Definition read_src (p : option (option block_id)) (n : Z) (cap : nat) : M unit :=
  match p with
  | None => ret tt
  | Some q => touch q ;;; check_range 0 n (Z.of_nat cap)
  end.

Definition with_d (o : vobj) (d : vdata) : vobj := mkO d (ofr o) (opt o).

(* the copy of the caller's vector made before the conversion (D72 / D73) *)
Definition copy_src (v : zvariant) (o : vobj) (p : option (option block_id)) :
  M (option (option block_id * option (option block_id))) :=
  if (0 <? opt o)%nat then
    match v with
    | ZNoCopy => ret (Some (None, p))
    | _ => m <- malloc (Z.of_nat (opt o) * 16) ;;
           match m with
           | None => ret None
           | Some b => read_src p (Z.of_nat (opt o)) (pal (od o)) ;;; ret (Some (Some b, Some (Some b)))
           end
    end
  else ret (Some (None, p)).

(* the common shape of the two vector setters: [needconv] = the z0 mode has to change first *)
Definition set_vec (v : zvariant) (o : vobj) (p : option (option block_id)) (needconv : bool)
                   (conv : M (bool * vdata)) (cells : vdata -> M unit) : M (vobj * outcome) :=
  r <- (if needconv then
          c <- copy_src v o p ;;
          match c with
          | None => ret (None, o)
          | Some (cp, p') =>
              r2 <- conv ;;
              (let (ok, d') := r2 in
               if ok then ret (Some (cp, p'), with_d o d') else free cp ;;; ret (None, with_d o d'))
          end
        else ret (Some (None, p), o)) ;;
  (let (c, o') := r in
   match c with
   | None => ret (o', Err ENOMEM)
   | Some (cp, p') =>
       (if (0 <? opt o')%nat then
          cells (od o') ;;; read_src p' (Z.of_nat (opt o')) (pal (od o'))
        else ret tt) ;;;
       free cp ;;; ret (o', Done)
   end).

Definition set_fz0_vector (v : zvariant) (o : vobj) (findex : Z) (src : zsrc) : M (vobj * outcome) :=
  if (findex <? 0) || (Z.of_nat (ofr o) <=? findex) then ret (o, Err EINVAL)
  else match resolve o src with
  | None => ret (o, Err EINVAL)
  | Some p => set_vec v o p (negb (perf (od o))) (convert_to_fz0 v o)
                      (fun d => fz0_cells d (Z.to_nat findex) 0 (Z.of_nat (opt o)))
  end.

Definition set_z0_vector (v : zvariant) (o : vobj) (src : zsrc) : M (vobj * outcome) :=
  match resolve o src with
  | None => ret (o, Err EINVAL)
  | Some p => set_vec v o p (perf (od o)) (convert_to_z0 (od o)) (fun d => z0_cells d 0 (Z.of_nat (opt o)))
  end.

Definition set_fz0 (v : zvariant) (o : vobj) (findex port : Z) : M (vobj * outcome) :=
  if (findex <? 0) || (Z.of_nat (ofr o) <=? findex) then ret (o, Err EINVAL)
  else if (port <? 0) || (Z.of_nat (opt o) <=? port) then ret (o, Err EINVAL)
  else
    r <- (if negb (perf (od o)) then convert_to_fz0 v o else ret (true, od o)) ;;
    (let (ok, d') := r in
     if negb ok then ret (with_d o d', Err ENOMEM)
     else fz0_cells d' (Z.to_nat findex) port 1 ;;; ret (with_d o d', Done)).

Definition set_z0 (o : vobj) (port : Z) : M (vobj * outcome) :=
  if (port <? 0) || (Z.of_nat (opt o) <=? port) then ret (o, Err EINVAL)
  else
    r <- (if perf (od o) then convert_to_z0 (od o) else ret (true, od o)) ;;
    (let (ok, d') := r in
     if negb ok then ret (with_d o d', Err ENOMEM)
     else z0_cells d' port 1 ;;; ret (with_d o d', Done)).

Definition set_all_z0 (o : vobj) : M (vobj * outcome) :=
  r <- (if perf (od o) then convert_to_z0 (od o) else ret (true, od o)) ;;
  (let (ok, d') := r in
   if negb ok then ret (with_d o d', Err ENOMEM)
   else (if (0 <? opt o)%nat then z0_cells d' 0 (Z.of_nat (opt o)) else ret tt) ;;; ret (with_d o d', Done)).

Inductive zop :=
  | ZResize (ports cells freqs : Z)
  | ZSetFz0 (findex port : Z)
  | ZSetFz0Vec (findex : Z) (src : zsrc)
  | ZSetZ0 (port : Z)
  | ZSetZ0Vec (src : zsrc)
  | ZSetAllZ0.

Definition zstep (v : zvariant) (o : vobj) (op : zop) : M (vobj * outcome) :=
  match op with
  | ZResize p m f => oresize o p m f
  | ZSetFz0 f p => set_fz0 v o f p
  | ZSetFz0Vec f s => set_fz0_vector v o f s
  | ZSetZ0 p => set_z0 o p
  | ZSetZ0Vec s => set_z0_vector v o s
  | ZSetAllZ0 => set_all_z0 o
  end.

Fixpoint zrun (v : zvariant) (o : vobj) (ops : list zop) : M (vobj * list outcome) :=
  match ops with
  | [] => ret (o, [])
  | op :: rest =>
      r <- zstep v o op ;;
      (let (o', out) := r in
       r2 <- zrun v o' rest ;;
       (let (o'', os) := r2 in ret (o'', out :: os)))
  end.

(* vnadata_alloc, the ops, vnadata_free *)
Definition zhistory (v : zvariant) (ops : list zop) : M (list outcome) :=
  o <- dnew false ;;
  match o with
  | None => ret []
  | Some d => r <- zrun v (mkO d 0 0) ops ;; (let (o', os) := r in dfree (od o') ;;; ret os)
  end.
