(* Pointer-level model, as coded, of the vnaproperty list container (src/vnaproperty.c):
   list_check_allocation (growth policy), list_subtree, list_insert, list_append, list_delete,
   scalar_alloc, the tail of vnaproperty_vset (allocate the value, free the old one, install) and
   vnaproperty_free of a list.  [Fixed] follows the code with the D02 (list_delete), D39 (index + 1 in size_t) and D39b
   (index INT_MAX refused) repairs, i.e. the current tree; [Orig] is the code as first read (kept for the refutations).
   The cells of the vector above vpl_length are not represented: the C code keeps them NULL
   (memset after realloc, vector[--length] = NULL after delete).  No proofs in this file. *)
Require Import List ZArith Bool Arith Lia.
Import ListNotations.
Require Import LV.Mem.Alloc.
Open Scope Z_scope.

Inductive variant := Fixed | Orig.

Definition child := (block_id * block_id)%type.        (* (vnaproperty_scalar_t block, strdup'd value) *)

Record plist := mkL {
  lblk : block_id;                 (* the vnaproperty_list_t itself *)
  vec : option block_id;           (* vpl_vector *)
  lalloc : Z;                      (* vpl_allocation *)
  items : list (option child)      (* vpl_vector[0 .. vpl_length) *)
}.
Definition llen (l : plist) : Z := Z.of_nat (length (items l)).

Inductive outcome := Done | Err (e : errno_c).

(* while (new_allocation <= size) new_allocation <<= 1;  (64 bits: at most 64 doublings) *)
Fixpoint grow (fuel : nat) (a size : Z) : Z :=
  match fuel with
  | O => a
  | S f => if a <=? size then grow f (2 * a) size else a
  end.

Definition check_allocation (l : plist) (size : Z) : M (bool * plist) :=
  if size <=? lalloc l then ret (true, l)
  else
    let na := grow 64 (Z.max 8 (lalloc l)) size in
    if na <=? size then ret (false, l)                      (* shifted out: errno = EINVAL *)
    else r <- realloc (vec l) (na * 8) ;;
         match r with
         | None => ret (false, l)
         | Some b => ret (true, mkL (lblk l) (Some b) na (items l))
         end.

Fixpoint remove_at {A} (n : nat) (l : list A) : list A :=
  match l, n with
  | [], _ => []
  | _ :: t, O => t
  | h :: t, S n' => h :: remove_at n' t
  end.
Fixpoint insert_at {A} (n : nat) (x : A) (l : list A) : list A :=
  match n, l with
  | O, _ => x :: l
  | S n', h :: t => h :: insert_at n' x t
  | S n', [] => [x]
  end.

(* an access to vector[i .. i+n) *)
Definition vaccess (l : plist) (i n : Z) : M unit :=
  if n =? 0 then ret tt else (touch (vec l) ;;; check_range i n (lalloc l)).

(* list_subtree(list, add, index): Some i = address of cell i *)
Definition list_subtree (v : variant) (l : plist) (add : bool) (index : Z) : M (plist * option Z * errno_c) :=
  if index <? 0 then ret (l, None, EINVAL)
  else if llen l <=? index then
    if negb add then ret (l, None, ENOENT)
    else match v with
         | Orig => if INT_MAX <? index + 1 then fail IntOverflow
                   else r <- check_allocation l (index + 1) ;;
                        (let (ok, l') := r in
                         if ok then ret (mkL (lblk l') (vec l') (lalloc l')
                                             (items l' ++ repeat None (Z.to_nat (index + 1 - llen l'))), Some index, E0)
                         else ret (l', None, ENOMEM))
         | Fixed => if index =? INT_MAX then ret (l, None, EINVAL)      (* D39b: length must fit an int *)
                    else
                    r <- check_allocation l (index + 1) ;;
                    (let (ok, l') := r in
                     if ok then ret (mkL (lblk l') (vec l') (lalloc l')
                                         (items l' ++ repeat None (Z.to_nat (index + 1 - llen l'))), Some index, E0)
                     else ret (l', None, ENOMEM))
         end
  else ret (l, Some index, E0).

Definition list_insert (v : variant) (l : plist) (index : Z) : M (plist * option Z * errno_c) :=
  if index <? 0 then ret (l, None, EINVAL)
  else if llen l <=? index then list_subtree v l true index
  else r <- check_allocation l (llen l + 1) ;;
       (let (ok, l') := r in
        if negb ok then ret (l', None, ENOMEM)
        else (* memmove(&v[index+1], &v[index], (length - index) * sizeof) ; v[index] = NULL *)
          vaccess l' index (llen l' - index) ;;;
          vaccess l' (index + 1) (llen l' - index) ;;;
          ret (mkL (lblk l') (vec l') (lalloc l') (insert_at (Z.to_nat index) None (items l')), Some index, E0)).

Definition list_append (l : plist) : M (plist * option Z * errno_c) :=
  r <- check_allocation l (llen l + 1) ;;
  (let (ok, l') := r in
   if negb ok then ret (l', None, ENOMEM)
   else vaccess l' (llen l') 1 ;;;
        ret (mkL (lblk l') (vec l') (lalloc l') (items l' ++ [None]), Some (llen l'), E0)).

(* scalar_alloc: strdup then malloc; the copy is released when the second request fails *)
Definition scalar_alloc : M (option child) :=
  a <- malloc 2 ;;
  match a with
  | None => ret None
  | Some s => b <- malloc 16 ;;
              match b with
              | None => free (Some s) ;;; ret None
              | Some p => ret (Some (p, s))
              end
  end.

Definition free_child (c : option child) : M unit :=
  match c with
  | None => ret tt
  | Some (p, s) => free (Some s) ;;; free (Some p)
  end.

(* tail of vnaproperty_vset: value = scalar_alloc(...); vnaproperty_free( *anchor ); *anchor = value *)
Definition install (l : plist) (i : Z) : M (plist * outcome) :=
  c <- scalar_alloc ;;
  match c with
  | None => ret (l, Err ENOMEM)
  | Some ch =>
      vaccess l i 1 ;;;
      free_child (nth (Z.to_nat i) (items l) None) ;;;
      ret (mkL (lblk l) (vec l) (lalloc l) (upd (items l) (Z.to_nat i) (Some ch)), Done)
  end.

Definition list_delete (v : variant) (l : plist) (index : Z) : M (plist * outcome) :=
  if index <? 0 then ret (l, Err EINVAL)
  else if llen l <=? index then ret (l, Err ENOENT)
  else match v with
       | Fixed =>
           vaccess l index 1 ;;;
           free_child (nth (Z.to_nat index) (items l) None) ;;;
           vaccess l (index + 1) (llen l - index - 1) ;;;
           vaccess l index (llen l - index - 1) ;;;
           vaccess l (llen l - 1) 1 ;;;
           ret (mkL (lblk l) (vec l) (lalloc l) (remove_at (Z.to_nat index) (items l)), Done)
       | Orig =>
           vaccess l (index + 1) (llen l - index) ;;;
           vaccess l index (llen l - index) ;;;
           vaccess l (llen l - 1) 1 ;;;
           ret (mkL (lblk l) (vec l) (lalloc l) (remove_at (Z.to_nat index) (items l)), Done)
       end.

Inductive lop := LAppend | LSet (i : Z) | LInsert (i : Z) | LDelete (i : Z) | LGet (i : Z).

(* one public call on the list: the descriptor "l[+]=v", "l[i]=v", "l[i+]=v", delete "l[i]", get "l[i]" *)
Definition lstep (v : variant) (l : plist) (op : lop) : M (plist * outcome) :=
  match op with
  | LAppend => r <- list_append l ;;
               (let '(l', a, e) := r in
                match a with Some i => install l' i | None => ret (l', Err e) end)
  | LSet i => r <- list_subtree v l true i ;;
              (let '(l', a, e) := r in
               match a with Some j => install l' j | None => ret (l', Err e) end)
  | LInsert i => r <- list_insert v l i ;;
                 (let '(l', a, e) := r in
                  match a with Some j => install l' j | None => ret (l', Err e) end)
  | LDelete i => list_delete v l i
  | LGet i => r <- list_subtree v l false i ;;
              (let '(l', a, e) := r in
               match a with Some j => vaccess l' j 1 ;;; ret (l', Done) | None => ret (l', Err e) end)
  end.

Fixpoint lrun (v : variant) (l : plist) (ops : list lop) : M (plist * list outcome) :=
  match ops with
  | [] => ret (l, [])
  | op :: rest => r <- lstep v l op ;;
                  (let (l', o) := r in
                   r2 <- lrun v l' rest ;;
                   (let (l'', os) := r2 in ret (l'', o :: os)))
  end.

(* list_alloc *)
Definition lnew : M (option plist) :=
  b <- malloc 32 ;;
  match b with None => ret None | Some p => ret (Some (mkL p None 0 [])) end.

(* vnaproperty_free of the list *)
Fixpoint free_items (l : list (option child)) : M unit :=
  match l with
  | [] => ret tt
  | c :: t => free_child c ;;; free_items t
  end.
Definition lfree (l : plist) : M unit :=
  free_items (items l) ;;; free (vec l) ;;; free (Some (lblk l)).

(* a whole history: create, ops, free; the result is the outcomes and the final ledger *)
Definition history (v : variant) (ops : list lop) : M (list outcome) :=
  o <- lnew ;;
  match o with
  | None => ret []
  | Some l => r <- lrun v l ops ;; (let (l', os) := r in lfree l' ;;; ret os)
  end.

(* what a caller can observe of the list through the API: its length and which cells are null *)
Definition observe (l : plist) : list bool := map (fun c => match c with Some _ => true | None => false end) (items l).
