(* Proofs about the chained hash tables: chains stay sorted and in their bucket, look-up finds
   exactly the stored keys (also after growth), no fault, no leak, clean allocation failure. *)
Require Import List ZArith NArith Bool Arith Lia Sorted Permutation.
Import ListNotations.
Require Import LV.Mem.Alloc LV.Mem.AllocProofs LV.Mem.PropList LV.Mem.PropListProofs LV.Mem.HashTab.
Open Scope Z_scope.

Lemma bucket_of_lt : forall hv len, (0 < len)%nat -> (bucket_of hv len < len)%nat.
Proof.
  intros hv len H; unfold bucket_of. destruct len as [|l]; [lia|].
  assert (Hm : (hv mod N.of_nat (S l) < N.of_nat (S l))%N) by (apply N.mod_lt; lia). lia.
Qed.

(* ---------------------------------------------------------------- chains *)
Definition klt (a b : node) : Prop := (nkey a < nkey b)%nat.
Definition sorted (c : chain) : Prop := StronglySorted klt c.

Lemma chain_insert_perm : forall s n c, Permutation (chain_insert s n c) (n :: c).
Proof.
  induction c as [|e t IH]; simpl; auto.
  destruct (if s then (nkey n <? nkey e)%nat else (nkey n <=? nkey e)%nat); auto.
  eapply perm_trans; [apply perm_skip; exact IH | apply perm_swap].
Qed.

Lemma chain_insert_in : forall s n c x, In x (chain_insert s n c) <-> x = n \/ In x c.
Proof.
  intros s n c x. split; intro H.
  - apply (Permutation_in _ (chain_insert_perm s n c)) in H. destruct H; auto.
  - apply (Permutation_in _ (Permutation_sym (chain_insert_perm s n c))). destruct H; [left; auto | right; auto].
Qed.

Lemma chain_insert_sorted : forall s n c, sorted c -> (forall e, In e c -> nkey e <> nkey n) ->
  sorted (chain_insert s n c).
Proof.
  induction c as [|e t IH]; simpl; intros Hs Hd.
  - constructor; [constructor | constructor].
  - inversion Hs as [|? ? Hst Hall]; subst.
    assert (Hne : nkey e <> nkey n) by (apply Hd; left; reflexivity).
    destruct (if s then (nkey n <? nkey e)%nat else (nkey n <=? nkey e)%nat) eqn:Hc.
    + assert (Hlt : (nkey n < nkey e)%nat).
      { destruct s; [apply Nat.ltb_lt in Hc; lia | apply Nat.leb_le in Hc; lia]. }
      constructor; [assumption|]. constructor; [assumption|].
      rewrite Forall_forall in *. intros x Hx. unfold klt in *. specialize (Hall x Hx). lia.
    + assert (Hgt : (nkey e < nkey n)%nat).
      { destruct s; [apply Nat.ltb_ge in Hc; lia | apply Nat.leb_gt in Hc; lia]. }
      constructor.
      * apply IH; auto.
      * rewrite Forall_forall in *. intros x Hx. apply chain_insert_in in Hx. destruct Hx as [Hx|Hx]; [subst; exact Hgt | apply Hall; assumption].
Qed.

Lemma chain_lookup_some : forall k c n, chain_lookup k c = Some n -> In n c /\ nkey n = k.
Proof.
  induction c as [|e t IH]; simpl; intros n H; [discriminate|].
  destruct (Nat.eqb_spec (nkey e) k).
  - inversion H; subst; auto.
  - destruct (k <? nkey e)%nat; [discriminate|]. destruct (IH n H); auto.
Qed.

Lemma chain_lookup_sorted : forall k c n, sorted c -> In n c -> nkey n = k -> chain_lookup k c = Some n.
Proof.
  induction c as [|e t IH]; simpl; intros n Hs Hin Hk; [destruct Hin|].
  inversion Hs as [|? ? Hst Hall]; subst. rewrite Forall_forall in Hall.
  destruct Hin as [He|Hin].
  - subst e. rewrite Nat.eqb_refl. reflexivity.
  - specialize (Hall n Hin). unfold klt in Hall.
    destruct (Nat.eqb_spec (nkey e) (nkey n)); [lia|].
    destruct (Nat.ltb_spec (nkey n) (nkey e)); [lia|]. apply IH; auto.
Qed.

Lemma chain_lookup_none : forall k c, sorted c -> chain_lookup k c = None -> forall n, In n c -> nkey n <> k.
Proof.
  intros k c Hs Hn n Hin Hk. rewrite (chain_lookup_sorted k c n Hs Hin Hk) in Hn. discriminate Hn.
Qed.

Lemma chain_remove_perm : forall k c n, chain_lookup k c = Some n -> Permutation c (n :: chain_remove k c).
Proof.
  induction c as [|e t IH]; simpl; intros n H; [discriminate|].
  destruct (Nat.eqb_spec (nkey e) k).
  - inversion H; subst; auto.
  - destruct (k <? nkey e)%nat; [discriminate|].
    eapply perm_trans; [apply perm_skip; apply IH; eassumption | apply perm_swap].
Qed.

Lemma chain_remove_sorted : forall k c, sorted c -> sorted (chain_remove k c).
Proof.
  induction c as [|e t IH]; simpl; intro Hs; auto.
  inversion Hs as [|? ? Hst Hall]; subst.
  destruct (nkey e =? k)%nat; auto.
  constructor; [apply IH; exact Hst|]. rewrite Forall_forall in *. intros x Hx. apply Hall.
  clear - Hx. induction t as [|a t IHt]; simpl in *; [destruct Hx|].
  destruct (nkey a =? k)%nat; [right; assumption|]. destruct Hx; [left; assumption | right; auto].
Qed.

(* ---------------------------------------------------------------- tables as lists of chains *)
Lemma concat_upd_split : forall (t : list chain) j c, (j < length t)%nat ->
  Permutation (concat (upd t j c)) (c ++ concat (upd t j [])) /\
  Permutation (concat t) (nth j t [] ++ concat (upd t j [])).
Proof.
  induction t as [|a t IH]; intros j c Hj; simpl in *; [lia|].
  destruct j; simpl.
  - split; apply Permutation_refl.
  - destruct (IH j c ltac:(lia)) as [H1 H2]. split.
    + eapply perm_trans; [apply Permutation_app_head; exact H1|].
      rewrite !app_assoc. apply Permutation_app_tail. apply Permutation_app_comm.
    + eapply perm_trans; [apply Permutation_app_head; exact H2|].
      rewrite !app_assoc. apply Permutation_app_tail. apply Permutation_app_comm.
Qed.

Lemma concat_set_bucket : forall (t : list chain) j c, (j < length t)%nat ->
  Permutation (nth j t [] ++ concat (upd t j c)) (c ++ concat t).
Proof.
  intros t j c Hj. destruct (concat_upd_split t j c Hj) as [H1 H2].
  eapply perm_trans; [apply Permutation_app_head; exact H1|].
  eapply perm_trans; [|apply Permutation_app_head; apply Permutation_sym; exact H2].
  rewrite !app_assoc. apply Permutation_app_tail. apply Permutation_app_comm.
Qed.

Lemma nth_upd_same' : forall A n (l : list A) v d, (n < length l)%nat -> nth n (upd l n v) d = v.
Proof. induction n; destruct l; simpl; intros; try lia; auto. apply IHn; lia. Qed.

Lemma nth_upd_other' : forall A n m (l : list A) v d, n <> m -> nth m (upd l n v) d = nth m l d.
Proof. induction n; destruct l, m; simpl; intros; try lia; auto. Qed.

Lemma length_upd' : forall A (l : list A) n v, length (upd l n v) = length l.
Proof. induction l; destruct n; simpl; auto. Qed.

(* ---------------------------------------------------------------- ownership *)
Definition nodes_blocks (l : list node) : list block_id := flat_map nblocks l.
Definition hownedP (h : htab) (pend : list node) : list block_id :=
  vecl (hblk h) ++ nodes_blocks (pend ++ all_nodes h).

Section Extra.
(* blocks of the enclosing object that are live beside the table (the vnaproperty_map_t block of a
   map; nothing for the parameter hash, which is embedded in the vnacal_new_t) *)
Variable extra : list block_id.

(* the table together with nodes that are detached from it at the moment (rehash in progress) *)
Definition HInvP (h : htab) (pend : list node) (s : astate) : Prop :=
  wf s /\ NoDup (extra ++ hownedP h pend) /\ (forall x, In x (ids s) <-> In x (extra ++ hownedP h pend)) /\
  ((0 < halloc h)%nat -> hblk h <> None).
Definition HInv (h : htab) (s : astate) : Prop := HInvP h [] s.

(* the table block is replaced (realloc) *)
Lemma swap_vec_owned : forall (old : option block_id) (b : block_id) (nb idsS idsS1 : list block_id),
  NoDup (extra ++ vecl old ++ nb) ->
  (forall x, In x idsS <-> In x (extra ++ vecl old ++ nb)) ->
  ~ In b idsS ->
  (forall x, In x idsS1 <-> x = b \/ (In x idsS /\ Some x <> old)) ->
  NoDup (extra ++ [b] ++ nb) /\ (forall x, In x idsS1 <-> In x (extra ++ [b] ++ nb)).
Proof.
  intros old b nb idsS idsS1 Hnd Hiff Hnb H1.
  destruct (NoDup_app_inv _ _ Hnd) as [He [Hvn Hd1]]. destruct (NoDup_app_inv _ _ Hvn) as [Hv [Hn Hd2]].
  assert (Hbe : ~ In b extra) by (intro Hx; apply Hnb, Hiff; apply in_or_app; left; exact Hx).
  assert (Hbn : ~ In b nb) by (intro Hx; apply Hnb, Hiff; apply in_or_app; right; apply in_or_app; right; exact Hx).
  split.
  - apply NoDup_app_intro; [exact He | |].
    + simpl. constructor; assumption.
    + intros x Hx [Hb|Hin]; [subst x; contradiction | eapply Hd1; [exact Hx | apply in_or_app; right; exact Hin]].
  - intro x; rewrite H1, Hiff, !in_app_iff; simpl. split.
    + intros [Hx|[[Hx|[Hx|Hx]] Hne]]; [right; left; left; auto | left; exact Hx | | right; right; exact Hx].
      exfalso; apply Hne. destruct old as [ob|]; simpl in Hx; [destruct Hx as [Hx|[]]; rewrite Hx; reflexivity | destruct Hx].
    + intros [Hx|[[Hx|[]]|Hx]]; [right | left; auto | right].
      * split; [left; exact Hx|]. intro Heq; subst old. eapply Hd1; [exact Hx | simpl; left; reflexivity].
      * split; [right; right; exact Hx|]. intro Heq; subst old. eapply Hd2; [simpl; left; reflexivity | exact Hx].
Qed.

Lemma HInvP_perm : forall h pend s h' pend',
  HInvP h pend s -> hblk h' = hblk h -> halloc h' = halloc h ->
  Permutation (pend' ++ all_nodes h') (pend ++ all_nodes h) -> HInvP h' pend' s.
Proof.
  intros h pend s h' pend' [Hw [Hnd [Hiff Hv]]] Hb Ha Hp. unfold HInvP, hownedP in *. rewrite Hb, Ha.
  assert (Hpb : Permutation (extra ++ vecl (hblk h) ++ nodes_blocks (pend' ++ all_nodes h'))
                            (extra ++ vecl (hblk h) ++ nodes_blocks (pend ++ all_nodes h))).
  { apply Permutation_app_head. apply Permutation_app_head. unfold nodes_blocks. apply Permutation_flat_map. exact Hp. }
  split; [assumption|]. split; [eapply Permutation_NoDup; [apply Permutation_sym; exact Hpb | assumption]|].
  split; [|assumption]. intro x; rewrite Hiff. split; intro Hx.
  - eapply Permutation_in; [apply Permutation_sym; exact Hpb | assumption].
  - eapply Permutation_in; [exact Hpb | assumption].
Qed.

Lemma HInvP_ids_eq : forall h pend s s', HInvP h pend s -> wf s' -> (forall x, In x (ids s') <-> In x (ids s)) -> HInvP h pend s'.
Proof.
  intros h pend s s' [Hw [Hnd [Hiff Hv]]] Hw' Hi. split; [assumption | split; [assumption | split; [|assumption]]].
  intro x; rewrite Hi; apply Hiff.
Qed.

Lemma safe_bucket_access : forall h pend s i, HInvP h pend s -> (i < halloc h)%nat ->
  safe (bucket_access h i) s (fun _ s' => s' = s).
Proof.
  intros h pend s i [Hw [Hnd [Hiff Hv]]] Hi; unfold bucket_access.
  destruct (hblk h) as [b|] eqn:Hb; [|exfalso; apply Hv; [lia | reflexivity]].
  assert (Hl : is_live b s = true).
  { apply is_live_iff, Hiff. apply in_or_app; right. unfold hownedP; rewrite Hb; simpl; auto. }
  exists tt, s; split; auto. unfold bind, touch; rewrite Hl. unfold check_range, range_ok; simpl.
  replace (0 <=? Z.of_nat i) with true by (symmetry; apply Z.leb_le; lia).
  replace (Z.of_nat i + 1 <=? Z.of_nat (halloc h)) with true by (symmetry; apply Z.leb_le; lia). reflexivity.
Qed.

Lemma set_bucket_insert_perm : forall strict h n i, (i < halloc h)%nat ->
  Permutation (all_nodes (set_bucket h i (chain_insert strict n (nth i (hbuckets h) [])))) (n :: all_nodes h).
Proof.
  intros strict h n i Hi. unfold all_nodes, set_bucket; simpl.
  destruct (concat_upd_split (hbuckets h) i (chain_insert strict n (nth i (hbuckets h) [])) Hi) as [H1 H2].
  eapply perm_trans; [exact H1|].
  eapply perm_trans; [apply Permutation_app_tail; apply chain_insert_perm|].
  simpl. apply perm_skip. apply Permutation_sym. exact H2.
Qed.

(* ---------------------------------------------------------------- order and placement *)
Section Functional.
  Variable hf : nat -> N.              (* the hash of a key: identity for parameters, crc32c for names *)

  Definition consistent (l : list node) : Prop := forall n, In n l -> nhash n = hf (nkey n).
  Definition distinct (l : list node) : Prop := NoDup (map nkey l).

  (* chains sorted; every node in the bucket of its hash for the current allocation, or (buckets
     lo .. old-1, not yet rehashed) for the old allocation *)
  Definition GInv (h : htab) (lo old : nat) : Prop :=
    forall j, (j < halloc h)%nat ->
      sorted (nth j (hbuckets h) []) /\
      forall n, In n (nth j (hbuckets h) []) ->
        bucket_of (nhash n) (halloc h) = j \/ ((lo <= j < old)%nat /\ bucket_of (nhash n) old = j).

  Definition TInv (h : htab) (pend : list node) (s : astate) (lo old : nat) : Prop :=
    HInvP h pend s /\ GInv h lo old /\ distinct (pend ++ all_nodes h) /\ consistent (pend ++ all_nodes h).

  Definition FInv (h : htab) : Prop := GInv h 0 0 /\ distinct (all_nodes h) /\ consistent (all_nodes h).

  Lemma in_all_nodes : forall h j n, (j < halloc h)%nat -> In n (nth j (hbuckets h) []) -> In n (all_nodes h).
  Proof.
    intros h j n Hj Hin. unfold all_nodes. apply in_concat. exists (nth j (hbuckets h) []). split; auto.
    apply nth_In; assumption.
  Qed.

  (* inserting the first pending node into its chain *)
  Lemma TInv_insert : forall strict h n rest s lo old, TInv h (n :: rest) s lo old -> (0 < halloc h)%nat ->
    let i := bucket_of (nhash n) (halloc h) in
    TInv (set_bucket h i (chain_insert strict n (nth i (hbuckets h) []))) rest s lo old.
  Proof.
    intros strict h n rest s lo old [HI [HG [Hd Hc]]] Hpos i.
    assert (Hi : (i < halloc h)%nat) by (unfold i; apply bucket_of_lt; lia).
    assert (Hperm : Permutation (rest ++ all_nodes (set_bucket h i (chain_insert strict n (nth i (hbuckets h) []))))
                                ((n :: rest) ++ all_nodes h)).
    { unfold all_nodes, set_bucket; simpl.
      destruct (concat_upd_split (hbuckets h) i (chain_insert strict n (nth i (hbuckets h) [])) Hi) as [H1 H2].
      eapply perm_trans; [apply Permutation_app_head; exact H1|].
      eapply perm_trans; [apply Permutation_app_head; apply Permutation_app_tail; apply chain_insert_perm|].
      simpl. eapply perm_trans; [apply Permutation_sym; apply Permutation_middle|]. apply perm_skip.
      apply Permutation_app_head. apply Permutation_sym. exact H2. }
    split; [|split; [|split]].
    - eapply HInvP_perm; [exact HI | reflexivity | unfold halloc, set_bucket; simpl; apply length_upd' | exact Hperm].
    - intros j Hj. unfold halloc, set_bucket in *; simpl in *. rewrite length_upd' in Hj.
      destruct (Nat.eq_dec j i) as [He|Hne].
      + subst j. rewrite nth_upd_same' by assumption. destruct (HG i Hi) as [Hs Hp]. split.
        * apply chain_insert_sorted; auto. intros e He Hk.
          unfold distinct in Hd. simpl in Hd. inversion Hd as [|? ? Hnin _]; subst. apply Hnin.
          rewrite map_app, in_app_iff. right. rewrite <- Hk. apply in_map. eapply in_all_nodes; eauto.
        * intros x Hx. rewrite length_upd'. apply chain_insert_in in Hx. destruct Hx as [Hx|Hx]; [subst x; left; reflexivity | apply Hp; assumption].
      + rewrite nth_upd_other' by auto. rewrite length_upd'. apply HG; assumption.
    - unfold distinct in *. eapply Permutation_NoDup; [apply Permutation_map; apply Permutation_sym; exact Hperm | exact Hd].
    - intros x Hx. apply Hc. eapply Permutation_in; [exact Hperm | exact Hx].
  Qed.

  Lemma safe_rehash_chain : forall strict c h s lo old, TInv h c s lo old -> (0 < halloc h)%nat ->
    safe (rehash_chain HFixed strict h c) s (fun h' s' =>
      s' = s /\ TInv h' [] s lo old /\ halloc h' = halloc h /\ hblk h' = hblk h /\ hcount h' = hcount h /\
      Permutation (all_nodes h') (c ++ all_nodes h)).
  Proof.
    intros strict c; induction c as [|n rest IH]; intros h s lo old HT Hpos; simpl.
    - apply safe_ret. split; [reflexivity | split; [exact HT | split; [reflexivity | split; [reflexivity | split; [reflexivity | apply Permutation_refl]]]]].
    - pose proof HT as [HI _].
      apply safe_bind. eapply safe_weaken; [eapply safe_bucket_access; [exact HI | apply bucket_of_lt; lia]|].
      intros u s0 Hs0; simpl in Hs0; subst s0.
      pose proof (TInv_insert strict h n rest s lo old HT Hpos) as HT'. cbv zeta in HT'.
      eapply safe_weaken; [apply IH; [exact HT' | unfold halloc, set_bucket; simpl; rewrite length_upd'; exact Hpos]|].
      intros h' s' [Hs [HT2 [Ha [Hb [Hcn Hpm]]]]].
      assert (Hi : (bucket_of (nhash n) (halloc h) < halloc h)%nat) by (apply bucket_of_lt; lia).
      pose proof (set_bucket_insert_perm strict h n _ Hi) as Hp1.
      unfold halloc, set_bucket in Ha, Hb, Hcn; simpl in Ha, Hb, Hcn. rewrite length_upd' in Ha.
      split; [assumption | split; [assumption | split; [exact Ha | split; [exact Hb | split; [exact Hcn|]]]]].
      eapply perm_trans; [exact Hpm|]. eapply perm_trans; [apply Permutation_app_head; exact Hp1|].
      apply Permutation_sym. apply Permutation_middle.
  Qed.

  Lemma safe_rehash_all : forall strict n lo h s old, TInv h [] s lo old -> (0 < halloc h)%nat ->
    (lo + n = old)%nat -> (old <= halloc h)%nat ->
    safe (rehash_all HFixed strict h (seq lo n)) s (fun h' s' =>
      s' = s /\ TInv h' [] s old old /\ halloc h' = halloc h /\ hblk h' = hblk h /\ hcount h' = hcount h /\
      Permutation (all_nodes h') (all_nodes h)).
  Proof.
    intros strict n; induction n as [|n IH]; intros lo h s old HT Hpos Hlo Hold; simpl.
    - apply safe_ret. assert (Ho : lo = old) by lia. rewrite Ho in HT. split; [reflexivity | split; [exact HT | split; [reflexivity | split; [reflexivity | split; [reflexivity | apply Permutation_refl]]]]].
    - pose proof HT as [HI [HG [Hd Hc]]].
      assert (Hlt : (lo < halloc h)%nat) by lia.
      apply safe_bind. eapply safe_weaken; [eapply safe_bucket_access; [exact HI | exact Hlt]|].
      intros u s0 Hs0; simpl in Hs0; subst s0.
      assert (HT1 : TInv (set_bucket h lo []) (nth lo (hbuckets h) []) s (S lo) old).
      { assert (Hperm : Permutation (nth lo (hbuckets h) [] ++ all_nodes (set_bucket h lo [])) ([] ++ all_nodes h)).
        { unfold all_nodes, set_bucket; simpl. apply Permutation_sym. apply (concat_upd_split (hbuckets h) lo [] Hlt). }
        split; [|split; [|split]].
        - eapply HInvP_perm; [exact HI | reflexivity | unfold halloc, set_bucket; simpl; apply length_upd' | exact Hperm].
        - intros j Hj. unfold halloc, set_bucket in *; simpl in *. rewrite length_upd' in Hj. rewrite length_upd'.
          destruct (Nat.eq_dec j lo) as [He|Hne].
          + subst j. rewrite nth_upd_same' by assumption. split; [constructor | intros x []].
          + rewrite nth_upd_other' by auto. destruct (HG j Hj) as [Hs Hp]. split; auto.
            intros x Hx. destruct (Hp x Hx) as [Hl|[Hr1 Hr2]]; [left; assumption | right; split; [lia | assumption]].
        - unfold distinct in *. eapply Permutation_NoDup; [apply Permutation_map; apply Permutation_sym; exact Hperm | exact Hd].
        - intros x Hx. apply Hc. eapply Permutation_in; [exact Hperm | exact Hx]. }
      apply safe_bind. eapply safe_weaken; [apply safe_rehash_chain; [exact HT1 | unfold halloc, set_bucket; simpl; rewrite length_upd'; exact Hpos]|].
      intros h1 s1 [Hs1 [HT2 [Ha1 [Hb1 [Hc1 Hpm1]]]]]. subst s1.
      unfold halloc, set_bucket in Ha1, Hb1, Hc1; simpl in Ha1, Hb1, Hc1. rewrite length_upd' in Ha1. fold (halloc h1) in Ha1. fold (halloc h) in Ha1.
      eapply safe_weaken; [apply (IH (S lo) h1 s old); [exact HT2 | lia | lia | lia]|].
      intros h2 s2 [Hs2 [HT3 [Ha2 [Hb2 [Hc2 Hpm2]]]]]. split; [assumption | split; [assumption | split; [congruence | split; [congruence | split; [congruence|]]]]].
      eapply perm_trans; [exact Hpm2|]. eapply perm_trans; [exact Hpm1|].
      apply Permutation_sym. apply (concat_upd_split (hbuckets h) lo [] Hlt).
  Qed.
End Functional.

Lemma concat_repeat_nil : forall (A : Type) n, concat (repeat (@nil A) n) = [].
Proof. induction n; simpl; auto. Qed.

Lemma nth_repeat_nil : forall (A : Type) n j, nth j (repeat (@nil A) n) [] = [].
Proof. induction n; destruct j; simpl; auto. Qed.

Section Tables.
  Variable hf : nat -> N.

  Lemma all_nodes_bucket : forall h n, In n (all_nodes h) -> exists j, (j < halloc h)%nat /\ In n (nth j (hbuckets h) []).
  Proof.
    intros h n Hin. unfold all_nodes in Hin. apply in_concat in Hin. destruct Hin as [c [Hc Hn]].
    destruct (In_nth _ _ [] Hc) as [j [Hj He]]. exists j; split; [exact Hj | subst c; exact Hn].
  Qed.

  Lemma GInv_final : forall h old, GInv h old old -> GInv h 0 0.
  Proof.
    intros h old HG j Hj. destruct (HG j Hj) as [Hs Hp]. split; auto.
    intros n Hn. destruct (Hp n Hn) as [Hl|[Hr _]]; [left; assumption | lia].
  Qed.

  Lemma safe_expand : forall strict h s new, HInv h s -> FInv hf h -> (halloc h < new)%nat ->
    safe (expand HFixed strict h new) s (fun r s' =>
      HInv (snd r) s' /\ FInv hf (snd r) /\ hcount (snd r) = hcount h /\
      Permutation (all_nodes (snd r)) (all_nodes h) /\
      (fst r = true -> halloc (snd r) = new) /\ (fst r = false -> snd r = h /\ fail_at s = Some O /\ fail_at s' = None)).
  Proof.
    intros strict h s new HI [HG [Hd Hc]] Hnew; unfold expand. pose proof HI as [Hw [Hnd [Hiff Hv]]].
    apply safe_bind. eapply safe_weaken; [apply safe_realloc; [assumption|]|].
    { intros b Hb. apply Hiff. apply in_or_app; right. unfold hownedP; rewrite Hb; simpl; auto. }
    intros [b|] s1 [Hw1 H1].
    - destruct H1 as [Hb [Hnb [_ Hi1]]].
      set (h0 := mkH (Some b) (hcount h) (hbuckets h ++ repeat [] (new - halloc h))).
      assert (Hall0 : all_nodes h0 = all_nodes h).
      { unfold all_nodes, h0; simpl. rewrite concat_app, concat_repeat_nil, app_nil_r. reflexivity. }
      assert (Hlen0 : halloc h0 = new).
      { unfold h0. unfold halloc in *; simpl. rewrite app_length, repeat_length. lia. }
      assert (HT0 : TInv hf h0 [] s1 0 (halloc h)).
      { split; [|split; [|split]].
        - unfold HInvP, hownedP. simpl. rewrite Hall0. unfold hownedP in Hnd, Hiff. simpl in Hnd, Hiff.
          destruct (swap_vec_owned (hblk h) b (nodes_blocks (all_nodes h)) (ids s) (ids s1) Hnd Hiff Hnb Hi1) as [Hnd1 Hiff1].
          split; [assumption|]. split; [exact Hnd1|]. split; [exact Hiff1 | intros _; discriminate].
        - intros j Hj. rewrite Hlen0 in *. unfold h0; simpl.
          destruct (Nat.lt_ge_cases j (halloc h)) as [Hlt|Hge].
          + rewrite app_nth1 by (unfold halloc in Hlt; exact Hlt). destruct (HG j Hlt) as [Hs Hp]. split; auto.
            intros n Hn. destruct (Hp n Hn) as [Hl|[Hr _]]; [right; split; [lia | exact Hl] | lia].
          + rewrite app_nth2 by (unfold halloc in Hge; exact Hge). rewrite (nth_repeat_nil node). split; [constructor | intros n []].
        - simpl. rewrite Hall0. exact Hd.
        - simpl. rewrite Hall0. exact Hc. }
      apply safe_bind. eapply safe_weaken; [apply (safe_rehash_all hf strict (halloc h) 0 h0 s1 (halloc h)); [exact HT0 | lia | lia | lia]|].
      intros h' s' [Hs' [[HI' [HG' [Hd' Hc']]] [Ha' [Hb' [Hcn' Hpm']]]]]. subst s'. apply safe_ret; cbn [fst snd].
      split; [exact HI'|]. split; [split; [eapply GInv_final; exact HG' | split; [exact Hd' | exact Hc']]|].
      split; [rewrite Hcn'; reflexivity|]. split; [rewrite <- Hall0; exact Hpm'|]. split; [intros _; congruence | discriminate].
    - destruct H1 as [Hids [_ [Hfa Hfa1]]]. apply safe_ret; cbn [fst snd].
      split; [eapply HInvP_ids_eq; eauto; intro x; rewrite Hids; tauto|].
      split; [split; [assumption | split; assumption]|]. split; [reflexivity|]. split; [apply Permutation_refl|]. split; [discriminate | auto].
  Qed.

  (* look-up finds a node with the key iff one is stored *)
  Lemma safe_table_lookup : forall h s k, HInv h s -> FInv hf h -> (0 < halloc h)%nat ->
    safe (table_lookup h (hf k) k) s (fun r s' => s' = s /\
      match r with
      | Some n => In n (all_nodes h) /\ nkey n = k
      | None => forall n, In n (all_nodes h) -> nkey n <> k
      end).
  Proof.
    intros h s k HI [HG [Hd Hc]] Hpos; unfold table_lookup.
    assert (Hi : (bucket_of (hf k) (halloc h) < halloc h)%nat) by (apply bucket_of_lt; lia).
    apply safe_bind. eapply safe_weaken; [eapply safe_bucket_access; [exact HI | exact Hi]|].
    intros u s0 Hs0; simpl in Hs0; subst s0. apply safe_ret. split; [reflexivity|].
    destruct (HG _ Hi) as [Hs Hp].
    destruct (chain_lookup k (nth (bucket_of (hf k) (halloc h)) (hbuckets h) [])) as [n|] eqn:Hl.
    - apply chain_lookup_some in Hl. destruct Hl as [Hin Hk]. split; [eapply in_all_nodes; eauto | exact Hk].
    - intros n Hn Hk. destruct (all_nodes_bucket h n Hn) as [j [Hj Hnj]].
      destruct (HG j Hj) as [_ Hpj]. destruct (Hpj n Hnj) as [Hb|[Hr _]]; [|lia].
      rewrite (Hc n Hn), Hk in Hb. subst j.
      eapply chain_lookup_none; eauto.
  Qed.
End Tables.
End Extra.

(* ---------------------------------------------------------------- releasing a table *)
Lemma safe_free_blocks : forall l s, wf s -> NoDup l -> (forall x, In x l -> In x (ids s)) ->
  safe (free_blocks l) s (fun _ s' => wf s' /\ (forall x, In x (ids s') <-> In x (ids s) /\ ~ In x l)).
Proof.
  induction l as [|b l IH]; intros s Hw Hnd Hin; simpl.
  - apply safe_ret; split; auto. intro x; tauto.
  - inversion Hnd as [|? ? Hnb Hnd']; subst.
    apply safe_bind. eapply safe_weaken; [apply safe_free; [assumption | apply Hin; left; reflexivity]|].
    intros u s1 [Hw1 [_ Hi1]].
    eapply safe_weaken; [apply IH; [assumption | assumption |]|].
    + intros x Hx. apply Hi1. split; [apply Hin; right; assumption | intro; subst; contradiction].
    + intros u2 s2 [Hw2 Hi2]. split; auto. intro x; rewrite Hi2, Hi1; simpl. intuition.
Qed.

Lemma safe_free_chain : forall c s, wf s -> NoDup (nodes_blocks c) -> (forall x, In x (nodes_blocks c) -> In x (ids s)) ->
  safe (free_chain c) s (fun _ s' => wf s' /\ (forall x, In x (ids s') <-> In x (ids s) /\ ~ In x (nodes_blocks c))).
Proof.
  induction c as [|n c IH]; intros s Hw Hnd Hin; simpl.
  - apply safe_ret; split; auto. intro x; tauto.
  - simpl in Hnd, Hin. destruct (NoDup_app_inv _ _ Hnd) as [Hn [Hc Hd]].
    apply safe_bind. eapply safe_weaken; [apply safe_free_blocks; [assumption | assumption | intros x Hx; apply Hin; apply in_or_app; auto]|].
    intros u s1 [Hw1 Hi1].
    eapply safe_weaken; [apply IH; [assumption | assumption |]|].
    + intros x Hx. apply Hi1. split; [apply Hin; apply in_or_app; auto | intro Hx'; eapply Hd; eauto].
    + intros u2 s2 [Hw2 Hi2]. split; auto. intro x; rewrite Hi2, Hi1, in_app_iff. tauto.
Qed.

Lemma safe_free_chains : forall l s, wf s -> NoDup (nodes_blocks (concat l)) -> (forall x, In x (nodes_blocks (concat l)) -> In x (ids s)) ->
  safe (free_chains l) s (fun _ s' => wf s' /\ (forall x, In x (ids s') <-> In x (ids s) /\ ~ In x (nodes_blocks (concat l)))).
Proof.
  induction l as [|c l IH]; intros s Hw Hnd Hin; simpl.
  - apply safe_ret; split; auto. intro x; tauto.
  - unfold nodes_blocks in *. simpl in Hnd, Hin. rewrite flat_map_app in Hnd, Hin.
    destruct (NoDup_app_inv _ _ Hnd) as [Hn [Hc Hd]].
    apply safe_bind. eapply safe_weaken; [apply safe_free_chain; [assumption | exact Hn | intros x Hx; apply Hin; apply in_or_app; auto]|].
    intros u s1 [Hw1 Hi1].
    eapply safe_weaken; [apply IH; [assumption | exact Hc |]|].
    + intros x Hx. apply Hi1. split; [apply Hin; apply in_or_app; auto | intro Hx'; eapply Hd; eauto].
    + intros u2 s2 [Hw2 Hi2]. split; auto. intro x; rewrite Hi2, Hi1, flat_map_app, in_app_iff. unfold nodes_blocks. tauto.
Qed.

(* releasing the table leaves exactly the blocks that were live besides it *)
Lemma safe_table_free : forall h s extra, wf s -> NoDup (extra ++ hownedP h []) ->
  (forall x, In x (ids s) <-> In x (extra ++ hownedP h [])) ->
  safe (table_free h) s (fun _ s' => wf s' /\ (forall x, In x (ids s') <-> In x extra)).
Proof.
  intros h s extra Hw Hnd Hiff; unfold table_free, hownedP in *. simpl in *.
  destruct (NoDup_app_inv _ _ Hnd) as [He [Ho Hde]].
  destruct (NoDup_app_inv _ _ Ho) as [Hv [Hb Hdv]].
  apply safe_bind. eapply safe_weaken; [apply safe_free_chains; [assumption | exact Hb |]|].
  { intros x Hx. apply Hiff. apply in_or_app; right. apply in_or_app; right. exact Hx. }
  intros u s1 [Hw1 Hi1]. destruct (hblk h) as [b|] eqn:Hblk; simpl in *.
  - eapply safe_weaken; [apply safe_free; [assumption|]|].
    + apply Hi1. split; [apply Hiff; apply in_or_app; right; left; reflexivity | intro Hx; eapply Hdv; [left; reflexivity | exact Hx]].
    + intros u2 s2 [Hw2 [_ Hi2]]. split; auto. intro x; rewrite Hi2, Hi1, Hiff, in_app_iff. simpl. split.
      * intros [[[Hx|[Hx|Hx]] Hno] Hne]; [assumption | exfalso; apply Hne; auto | contradiction].
      * intro Hx. split; [split; [left; assumption|]|].
        -- intro Hn. eapply Hde; [exact Hx | right; exact Hn].
        -- intro; subst x. eapply Hde; [exact Hx | left; reflexivity].
  - exists tt, s1; split; [reflexivity|]. split; auto. intro x; rewrite Hi1, Hiff, in_app_iff. simpl. split.
    + intros [[Hx|Hx] Hno]; [assumption | contradiction].
    + intro Hx. split; [left; assumption|]. intro Hn. eapply Hde; [exact Hx | exact Hn].
Qed.

Section Insert.
  Variable extra : list block_id.
  Variable hf : nat -> N.

  (* linking a freshly allocated node into the table *)
  Lemma safe_insert_new : forall strict h s0 s n,
    HInv extra h s0 -> FInv hf h -> (0 < halloc h)%nat ->
    nhash n = hf (nkey n) -> (forall e, In e (all_nodes h) -> nkey e <> nkey n) ->
    wf s -> NoDup (nblocks n) -> (forall x, In x (nblocks n) -> ~ In x (ids s0)) ->
    (forall x, In x (ids s) <-> In x (nblocks n) \/ In x (ids s0)) ->
    safe (table_insert HFixed strict h n) s (fun h' s' =>
      s' = s /\ HInv extra h' s /\ FInv hf h' /\ Permutation (all_nodes h') (n :: all_nodes h) /\
      halloc h' = halloc h /\ hblk h' = hblk h /\ hcount h' = hcount h).
  Proof.
    intros strict h s0 s n HI [HG [Hd Hc]] Hpos Hh Hnew Hw Hnb Hfresh Hids; unfold table_insert.
    pose proof HI as [Hw0 [Hnd0 [Hiff0 Hv0]]].
    assert (HT : TInv extra hf h [n] s 0 0).
    { split; [|split; [|split]].
      - unfold HInvP, hownedP in *. simpl in *. unfold nodes_blocks in *. simpl.
        split; [assumption|]. split; [|split; [|assumption]].
        + destruct (NoDup_app_inv _ _ Hnd0) as [He [Hvb Hde]].
          destruct (NoDup_app_inv _ _ Hvb) as [Hv [Hb Hdv]].
          assert (Hfr : forall x, In x (nblocks n) -> ~ In x (extra ++ vecl (hblk h) ++ flat_map nblocks (all_nodes h))).
          { intros x Hx Hin. eapply Hfresh; [exact Hx|]. apply Hiff0. exact Hin. }
          apply NoDup_app_intro; [assumption | | ].
          * apply NoDup_app_intro; [assumption | |].
            -- apply NoDup_app_intro; [assumption | assumption |].
               intros x Hx Hin. eapply Hfr; [exact Hx|]. apply in_or_app; right; apply in_or_app; right; assumption.
            -- intros x Hx Hin. apply in_app_or in Hin. destruct Hin as [Hin|Hin]; [|eapply Hdv; eauto].
               eapply Hfr; [exact Hin|]. apply in_or_app; right; apply in_or_app; left; assumption.
          * intros x Hx Hin. apply in_app_or in Hin. destruct Hin as [Hin|Hin].
            -- eapply Hde; [exact Hx|]. apply in_or_app; left; exact Hin.
            -- apply in_app_or in Hin. destruct Hin as [Hin|Hin].
               ++ eapply Hfr; [exact Hin|]. apply in_or_app; left; exact Hx.
               ++ eapply Hde; [exact Hx|]. apply in_or_app; right; exact Hin.
        + intro x; rewrite Hids, Hiff0, !in_app_iff. tauto.
      - exact HG.
      - unfold distinct in *. simpl. constructor; [|assumption].
        intro Hin. apply in_map_iff in Hin. destruct Hin as [e [He Hine]]. eapply Hnew; eauto.
      - intros x [Hx|Hx]; [subst; assumption | apply Hc; assumption]. }
    assert (Hi : (bucket_of (nhash n) (halloc h) < halloc h)%nat) by (apply bucket_of_lt; lia).
    pose proof HT as [HIP _].
    apply safe_bind. eapply safe_weaken; [eapply safe_bucket_access; [exact HIP | exact Hi]|].
    intros u s1 Hs1; simpl in Hs1; subst s1. apply safe_ret.
    pose proof (TInv_insert extra hf strict h n [] s 0 0 HT Hpos) as [HI' [HG' [Hd' Hc']]]. cbv zeta in *.
    split; [reflexivity|]. split; [exact HI'|]. split; [split; [exact HG' | split; [exact Hd' | exact Hc']]|].
    split; [apply set_bucket_insert_perm; exact Hi|].
    unfold halloc, set_bucket; simpl. rewrite length_upd'. auto.
  Qed.
End Insert.

(* ---------------------------------------------------------------- the vnacal_new parameter hash *)
Definition idf (k : nat) : N := N.of_nat k.

Definition PHInv (h : htab) (s : astate) : Prop := HInv [] h s /\ FInv idf h /\ (0 < halloc h)%nat.

Lemma HInv_count : forall extra h s c, HInv extra h s -> HInv extra (mkH (hblk h) c (hbuckets h)) s.
Proof. intros extra h s c H; exact H. Qed.

Lemma FInv_count : forall hf h c, FInv hf h -> FInv hf (mkH (hblk h) c (hbuckets h)).
Proof. intros hf h c H; exact H. Qed.

Lemma ph_new_alloc_gt : forall old, (old < ph_new_alloc old)%nat.
Proof. intro old; unfold ph_new_alloc, INITIAL_HASH_SIZE. lia. Qed.

Lemma perm_keys : forall (a b : list node), Permutation a b -> forall x, In x (map nkey a) <-> In x (map nkey b).
Proof.
  intros a b Hp x; split; intro H.
  - eapply Permutation_in; [apply Permutation_map; exact Hp | exact H].
  - eapply Permutation_in; [apply Permutation_map; apply Permutation_sym; exact Hp | exact H].
Qed.

(* what the operations do to the set of stored keys (the specification the table is checked
   against): get finds a stored key or stores a new one (or fails with ENOMEM, nothing stored),
   find answers exactly for the stored keys *)
Definition same (a b : list nat) : Prop := forall x, In x a <-> In x b.

Definition ph_spec (ks : list nat) (op : phop) (o : outcome) (ks' : list nat) : Prop :=
  match op with
  | PHGet p =>
      (p < 0 /\ o = Err EINVAL /\ same ks' ks) \/
      (0 <= p /\ In (Z.to_nat p) ks /\ o = Done /\ same ks' ks) \/
      (0 <= p /\ ~ In (Z.to_nat p) ks /\
         ((o = Done /\ same ks' (Z.to_nat p :: ks)) \/ (o = Err ENOMEM /\ same ks' ks)))
  | PHFind p =>
      same ks' ks /\
      ((p < 0 /\ o = Err EINVAL) \/ (0 <= p /\ In (Z.to_nat p) ks /\ o = Done) \/
       (0 <= p /\ ~ In (Z.to_nat p) ks /\ o = Err ENOENT))
  end.

Lemma same_refl : forall a, same a a.
Proof. intros a x; tauto. Qed.

Lemma lookup_key_cases : forall (h : htab) k (f : option node),
  match f with
  | Some n => In n (all_nodes h) /\ nkey n = k
  | None => forall n, In n (all_nodes h) -> nkey n <> k
  end ->
  match f with Some _ => In k (all_keys h) | None => ~ In k (all_keys h) end.
Proof.
  intros h k [n|] H.
  - destruct H as [Hin Hk]. unfold all_keys. rewrite <- Hk. apply in_map; assumption.
  - intro Hin. unfold all_keys in Hin. apply in_map_iff in Hin. destruct Hin as [n [Hk Hn]]. exact (H n Hn Hk).
Qed.

Lemma safe_ph_get : forall h s p, PHInv h s ->
  safe (ph_get HFixed h p) s (fun r s' =>
    PHInv (fst r) s' /\ ph_spec (all_keys h) (PHGet p) (snd r) (all_keys (fst r)) /\
    (snd r = Err ENOMEM -> fst r = h /\ fail_at s' = None)).
Proof.
  intros h s p [HI [HF Hpos]]; unfold ph_get.
  destruct (Z.ltb_spec p 0).
  { apply safe_ret; cbn [fst snd]. split; [split; auto|]. split; [left; split; [assumption | split; [reflexivity | apply same_refl]] | discriminate]. }
  set (k := Z.to_nat p).
  apply safe_bind. eapply safe_weaken; [apply (safe_table_lookup [] idf h s k HI HF Hpos)|].
  intros f s0 [Hs0 Hf]; subst s0. pose proof (lookup_key_cases h k f Hf) as Hk. destruct f as [n|].
  - apply safe_ret; cbn [fst snd]. split; [split; auto|].
    split; [right; left; split; [assumption | split; [exact Hk | split; [reflexivity | apply same_refl]]] | discriminate].
  - pose proof HI as [Hw _].
    apply safe_bind. eapply safe_weaken; [apply safe_malloc; assumption|].
    intros [b|] s1 [Hw1 H1].
    + destruct H1 as [Hb [Hnb [Hids1 _]]].
      apply safe_bind. unfold ph_insert.
      apply safe_bind. eapply safe_weaken; [apply (safe_insert_new [] idf true h s s1 (mkN k (N.of_nat k) [b])); auto|].
      * simpl. repeat constructor; simpl; tauto.
      * simpl. intros x [Hx|[]]; subst; assumption.
      * intro x; rewrite Hids1; simpl; tauto.
      * intros h1 s2 [Hs2 [HI1 [HF1 [Hp1 [Ha1 [Hb1 Hc1]]]]]]. subst s2.
        set (h2 := mkH (hblk h1) (S (hcount h1)) (hbuckets h1)).
        assert (HI2 : HInv [] h2 s1) by exact HI1. assert (HF2 : FInv idf h2) by exact HF1.
        assert (Hk2 : same (all_keys h2) (k :: all_keys h)).
        { intro x. unfold all_keys. change (all_nodes h2) with (all_nodes h1). rewrite (perm_keys _ _ Hp1). simpl. intuition. }
        destruct (halloc h2 <=? hcount h2)%nat.
        -- apply safe_bind. eapply safe_weaken; [apply (safe_expand [] idf true h2 s1 _ HI2 HF2 (ph_new_alloc_gt _))|].
           intros [ok h3] s3 [HI3 [HF3 [Hc3 [Hp3 [Hok Hfail]]]]]; cbn [fst snd] in *.
           apply safe_ret. apply safe_ret; cbn [fst snd].
           split; [split; [exact HI3 | split; [exact HF3|]]|].
           ++ destruct ok; [rewrite (Hok eq_refl); pose proof (ph_new_alloc_gt (halloc h2)); lia | destruct (Hfail eq_refl) as [Hfh _]; rewrite Hfh; unfold halloc, h2; simpl; fold (halloc h1); lia].
           ++ split; [|discriminate]. right; right. split; [assumption|]. split; [exact Hk|]. left. split; [reflexivity|].
              intro x. unfold all_keys. rewrite (perm_keys _ _ Hp3). apply Hk2.
        -- apply safe_ret. apply safe_ret; cbn [fst snd].
           split; [split; [exact HI2 | split; [exact HF2 | unfold halloc, h2; simpl; fold (halloc h1); lia]]|].
           split; [|discriminate]. right; right. split; [assumption|]. split; [exact Hk|]. left. split; [reflexivity | exact Hk2].
    + destruct H1 as [Hids1 [_ [_ Hfa]]]. apply safe_ret; cbn [fst snd].
      split; [split; [eapply HInvP_ids_eq; eauto; intro x; rewrite Hids1; tauto | auto]|].
      split; [|intros _; split; [reflexivity | exact Hfa]].
      right; right. split; [assumption|]. split; [exact Hk|]. right. split; [reflexivity | apply same_refl].
Qed.

Lemma safe_ph_find : forall h s p, PHInv h s ->
  safe (ph_find h p) s (fun r s' =>
    s' = s /\ fst r = h /\ ph_spec (all_keys h) (PHFind p) (snd r) (all_keys h) /\ snd r <> Err ENOMEM).
Proof.
  intros h s p [HI [HF Hpos]]; unfold ph_find.
  destruct (Z.ltb_spec p 0).
  { apply safe_ret; cbn [fst snd]. split; [reflexivity|]. split; [reflexivity|]. split; [|discriminate]. split; [apply same_refl | left; auto]. }
  set (k := Z.to_nat p).
  apply safe_bind. eapply safe_weaken; [apply (safe_table_lookup [] idf h s k HI HF Hpos)|].
  intros f s0 [Hs0 Hf]; subst s0. pose proof (lookup_key_cases h k f Hf) as Hk. destruct f as [n|]; apply safe_ret; cbn [fst snd].
  - split; [reflexivity|]. split; [reflexivity|]. split; [|discriminate]. split; [apply same_refl | right; left; auto].
  - split; [reflexivity|]. split; [reflexivity|]. split; [|discriminate]. split; [apply same_refl | right; right; auto].
Qed.

(* one call, arbitrary state satisfying the invariant (so: every fault point) *)
Lemma safe_phstep : forall h s op, PHInv h s ->
  safe (phstep HFixed h op) s (fun r s' =>
    PHInv (fst r) s' /\ ph_spec (all_keys h) op (snd r) (all_keys (fst r)) /\
    (snd r = Err ENOMEM -> fst r = h /\ fail_at s' = None)).
Proof.
  intros h s [p|p] HP; simpl.
  - apply safe_ph_get; assumption.
  - eapply safe_weaken; [apply safe_ph_find; assumption|].
    intros [h' o] s' [Hs [Hh [Hsp Hne]]]; cbn [fst snd] in *. subst s' h'. split; [assumption|]. split; [assumption | intro; contradiction].
Qed.

Fixpoint ph_spec_run (ks : list nat) (ops : list phop) (os : list outcome) : Prop :=
  match ops, os with
  | [], [] => True
  | op :: ops', o :: os' => exists ks', ph_spec ks op o ks' /\ ph_spec_run ks' ops' os'
  | _, _ => False
  end.

Lemma safe_phrun : forall ops h s, PHInv h s ->
  safe (phrun HFixed h ops) s (fun r s' => PHInv (fst r) s' /\ ph_spec_run (all_keys h) ops (snd r)).
Proof.
  induction ops as [|op ops IH]; intros h s HP; simpl.
  - apply safe_ret; cbn [fst snd]; auto.
  - apply safe_bind. eapply safe_weaken; [apply safe_phstep; assumption|].
    intros [h' o] s' [HP' [Hsp _]]; cbn [fst snd] in *.
    apply safe_bind. eapply safe_weaken; [apply IH; exact HP'|].
    intros [h'' os] s'' [HP'' Hrun]; cbn [fst snd] in *. apply safe_ret; cbn [fst snd].
    split; [assumption|]. exists (all_keys h'); auto.
Qed.

Lemma all_nodes_empty : forall b c n, all_nodes (mkH b c (repeat [] n)) = [].
Proof. intros; unfold all_nodes; simpl. apply concat_repeat_nil. Qed.

(* _vnacal_new_init_parameter_hash *)
Lemma safe_ph_init : forall s, wf s -> ids s = [] ->
  safe ph_init s (fun r s' =>
    match r with
    | Some h => PHInv h s' /\ all_keys h = []
    | None => fail_at s = Some O /\ live s' = []
    end).
Proof.
  intros s Hw Hids; unfold ph_init.
  assert (HI0 : HInv [] (mkH None 0 []) s).
  { unfold HInv, HInvP, hownedP, all_nodes, halloc; simpl. split; [assumption|]. split; [constructor|]. split; [rewrite Hids; simpl; tauto | lia]. }
  assert (HF0 : FInv idf (mkH None 0 [])).
  { split; [|split].
    - intros j Hj. unfold halloc in Hj; simpl in Hj; lia.
    - unfold distinct, all_nodes; simpl; constructor.
    - intros n Hn. unfold all_nodes in Hn; simpl in Hn; destruct Hn. }
  apply safe_bind. eapply safe_weaken; [apply (safe_expand [] idf true _ s (ph_new_alloc 0) HI0 HF0); unfold halloc; simpl; apply ph_new_alloc_gt|].
  intros [ok h] s' [HI [HF [Hc [Hp [Hok Hfail]]]]]; cbn [fst snd] in *.
  destruct ok.
  - apply safe_ret. split.
    + split; [exact HI|]. split; [exact HF|]. rewrite (Hok eq_refl). pose proof (ph_new_alloc_gt 0); lia.
    + unfold all_keys. apply Permutation_sym in Hp. unfold all_nodes at 1 in Hp; simpl in Hp. apply Permutation_nil in Hp. rewrite Hp; reflexivity.
  - apply safe_ret. destruct (Hfail eq_refl) as [Hfh [Hfa _]]. rewrite Hfh in HI. destruct HI as [_ [_ [Hiff _]]].
    split; [exact Hfa|].
    + apply ids_nil_live_nil. intros x Hx. apply Hiff in Hx. unfold hownedP, all_nodes in Hx; simpl in Hx. exact Hx.
Qed.

(* ---------------------------------------------------------------- the fault countdown *)
(* [NF m P]: run without a pending fault, m leaves no pending fault and its result satisfies P
   (in particular: no request fails) *)
Definition NF {A} (m : M A) (P : A -> Prop) : Prop :=
  forall s a s', fail_at s = None -> m s = Ok (a, s') -> fail_at s' = None /\ P a.

Lemma NF_ret : forall A (a : A) (P : A -> Prop), P a -> NF (ret a) P.
Proof. intros A a P HP s a' s' Hf H; inversion H; subst; auto. Qed.

Lemma NF_bind : forall A B (m : M A) (f : A -> M B) P Q,
  NF m P -> (forall a, P a -> NF (f a) Q) -> NF (bind m f) Q.
Proof.
  intros A B m f P Q Hm Hf s b s' Hs H. unfold bind in H. destruct (m s) as [[a s1]|e] eqn:He; [|discriminate].
  destruct (Hm s a s1 Hs He) as [Hs1 HP]. eapply Hf; eauto.
Qed.

Lemma NF_weaken : forall A (m : M A) (P Q : A -> Prop), NF m P -> (forall a, P a -> Q a) -> NF m Q.
Proof. intros A m P Q H HPQ s a s' Hs He. destruct (H s a s' Hs He); auto. Qed.

Lemma NF_malloc : forall sz, NF (malloc sz) (fun r => r <> None).
Proof. intros sz s a s' Hs H; unfold malloc in H; rewrite Hs in H; inversion H; subst; simpl; split; [reflexivity | discriminate]. Qed.

Lemma NF_realloc : forall p sz, NF (realloc p sz) (fun r => r <> None).
Proof.
  intros p sz s a s' Hs H; destruct p as [b|]; [|exact (NF_malloc sz s a s' Hs H)].
  unfold realloc in H. destruct (is_live b s); [|discriminate]. rewrite Hs in H; inversion H; subst; simpl; split; [reflexivity | discriminate].
Qed.

Lemma NF_free : forall p, NF (free p) (fun _ => True).
Proof.
  intros p s a s' Hs H; destruct p as [b|]; simpl in H; [|inversion H; subst; auto].
  unfold free in H. destruct (is_live b s); [|discriminate]. inversion H; subst; simpl; auto.
Qed.

Lemma NF_touch : forall p, NF (touch p) (fun _ => True).
Proof.
  intros p s a s' Hs H; destruct p as [b|]; simpl in H; [|discriminate].
  unfold touch in H. destruct (is_live b s); [|discriminate]. inversion H; subst; auto.
Qed.

Lemma NF_check_range : forall lo n al, NF (check_range lo n al) (fun _ => True).
Proof. intros lo n al s a s' Hs H; unfold check_range in H. destruct ((n =? 0) || range_ok lo n al); [|discriminate]. inversion H; subst; auto. Qed.

Lemma NF_fail : forall A e (P : A -> Prop), NF (@fail A e) P.
Proof. intros A e P s a s' _ H; discriminate H. Qed.

Lemma NF_bucket_access : forall h i, NF (bucket_access h i) (fun _ => True).
Proof. intros h i; unfold bucket_access. eapply NF_bind; [apply NF_touch | intros _ _; apply NF_check_range]. Qed.

Lemma NF_table_insert : forall v strict h n, NF (table_insert v strict h n) (fun _ => True).
Proof. intros; unfold table_insert. eapply NF_bind; [apply NF_bucket_access | intros _ _; apply NF_ret; exact I]. Qed.

Lemma NF_rehash_chain : forall v strict c h, NF (rehash_chain v strict h c) (fun _ => True).
Proof.
  intros v strict c; induction c as [|n rest IH]; intro h; simpl; [apply NF_ret; exact I|].
  eapply NF_bind; [apply NF_bucket_access | intros _ _; apply IH].
Qed.

Lemma NF_rehash_all : forall v strict idx h, NF (rehash_all v strict h idx) (fun _ => True).
Proof.
  intros v strict idx; induction idx as [|c rest IH]; intro h; simpl; [apply NF_ret; exact I|].
  eapply NF_bind; [apply NF_bucket_access | intros _ _].
  eapply NF_bind; [apply NF_rehash_chain | intros h' _; apply IH].
Qed.

Lemma NF_expand : forall v strict h new, NF (expand v strict h new) (fun r => fst r = true).
Proof.
  intros; unfold expand. eapply NF_bind; [apply NF_realloc|]. intros [b|] Hb; [|contradiction].
  eapply NF_bind; [apply NF_rehash_all | intros h' _; apply NF_ret; reflexivity].
Qed.

Lemma NF_table_lookup : forall h hv k, NF (table_lookup h hv k) (fun _ => True).
Proof. intros; unfold table_lookup. eapply NF_bind; [apply NF_bucket_access | intros _ _; apply NF_ret; exact I]. Qed.

Lemma NF_free_blocks : forall l, NF (free_blocks l) (fun _ => True).
Proof. induction l as [|b l IH]; simpl; [apply NF_ret; exact I | eapply NF_bind; [apply NF_free | intros _ _; exact IH]]. Qed.

Lemma NF_ph_insert : forall v h n, NF (ph_insert v h n) (fun _ => True).
Proof.
  intros v h n; unfold ph_insert.
  eapply NF_bind; [apply NF_table_insert|]. intros h1 _.
  destruct (_ <=? _)%nat; [|apply NF_ret; exact I].
  eapply NF_bind; [apply NF_expand | intros r _; apply NF_ret; exact I].
Qed.

Lemma NF_ph_get : forall v h p, NF (ph_get v h p) (fun r => snd r <> Err ENOMEM).
Proof.
  intros v h p; unfold ph_get. destruct (p <? 0); [apply NF_ret; discriminate|].
  eapply NF_bind; [apply NF_table_lookup|]. intros [n|] _; [apply NF_ret; discriminate|].
  eapply NF_bind; [apply NF_malloc|]. intros [b|] Hb; [|contradiction].
  eapply NF_bind; [apply NF_ph_insert | intros h' _; apply NF_ret; discriminate].
Qed.

Lemma NF_ph_find : forall h p, NF (ph_find h p) (fun r => snd r <> Err ENOMEM).
Proof.
  intros h p; unfold ph_find. destruct (p <? 0); [apply NF_ret; discriminate|].
  eapply NF_bind; [apply NF_table_lookup|]. intros [n|] _; apply NF_ret; discriminate.
Qed.

Lemma NF_phstep : forall v h op, NF (phstep v h op) (fun r => snd r <> Err ENOMEM).
Proof. intros v h [p|p]; [apply NF_ph_get | apply NF_ph_find]. Qed.

Lemma NF_phrun : forall v ops h, NF (phrun v h ops) (fun r => Forall (fun o => o <> Err ENOMEM) (snd r)).
Proof.
  intros v ops; induction ops as [|op rest IH]; intro h; simpl; [apply NF_ret; constructor|].
  eapply NF_bind; [apply NF_phstep|]. intros [h' o] Ho; simpl in Ho.
  eapply NF_bind; [apply IH|]. intros [h'' os] Hos; simpl in Hos. apply NF_ret; simpl. constructor; assumption.
Qed.

(* ---------------------------------------------------------------- parameter hash: whole histories *)
Lemma phhistory_safe : forall ops k,
  safe (phhistory HFixed ops) (start k) (fun os s' =>
    live s' = [] /\ ((k = Some O /\ os = []) \/ ph_spec_run [] ops os)).
Proof.
  intros ops k; unfold phhistory.
  apply safe_bind. eapply safe_weaken; [apply safe_ph_init; [apply wf_start | reflexivity]|].
  intros [h|] s1 H1.
  - destruct H1 as [HP Hk].
    apply safe_bind. eapply safe_weaken; [apply safe_phrun; exact HP|].
    intros [h' os] s2 [[HI [HF Hpos]] Hrun]; cbn [fst snd] in *. rewrite Hk in Hrun.
    destruct HI as [Hw [Hnd [Hiff _]]].
    apply safe_bind. eapply safe_weaken; [apply (safe_table_free h' s2 []); [exact Hw | exact Hnd | exact Hiff]|].
    intros u s3 [Hw3 Hi3]. apply safe_ret. split; [|right; exact Hrun].
    apply ids_nil_live_nil. intros x Hx. apply Hi3 in Hx. exact Hx.
  - destruct H1 as [Hfa Hl]. apply safe_ret. split; [exact Hl | left; split; [exact Hfa | reflexivity]].
Qed.

Theorem ph_no_fault_lemma : forall ops k f, phhistory HFixed ops (start k) <> Fault f.
Proof. intros ops k f H. destruct (phhistory_safe ops k) as [a [s' [He _]]]. rewrite He in H; discriminate. Qed.

Theorem ph_no_leak_lemma : forall ops k os s', phhistory HFixed ops (start k) = Ok (os, s') -> live s' = [].
Proof. intros ops k os s' H. destruct (phhistory_safe ops k) as [a [s2 [He [Hl _]]]]. rewrite He in H; inversion H; subst; assumption. Qed.

(* look-up finds exactly the stored keys, in every history, with or without a failing request *)
Theorem ph_lookup_exact_lemma : forall ops k os s', phhistory HFixed ops (start k) = Ok (os, s') ->
  (k = Some O /\ os = []) \/ ph_spec_run [] ops os.
Proof. intros ops k os s' H. destruct (phhistory_safe ops k) as [a [s2 [He [_ Hr]]]]. rewrite He in H; inversion H; subst; assumption. Qed.

(* the fault-free run is a function of the op list *)
Definition memb (k : nat) (ks : list nat) : bool := existsb (Nat.eqb k) ks.

Lemma memb_in : forall k ks, memb k ks = true <-> In k ks.
Proof.
  intros k ks; unfold memb; rewrite existsb_exists; split.
  - intros [x [Hx He]]; apply Nat.eqb_eq in He; subst; assumption.
  - intro H; exists k; split; [assumption | apply Nat.eqb_refl].
Qed.

Fixpoint ph_fun (ks : list nat) (ops : list phop) : list outcome :=
  match ops with
  | [] => []
  | PHGet p :: r =>
      if p <? 0 then Err EINVAL :: ph_fun ks r
      else if memb (Z.to_nat p) ks then Done :: ph_fun ks r
      else Done :: ph_fun (Z.to_nat p :: ks) r
  | PHFind p :: r =>
      (if p <? 0 then Err EINVAL else if memb (Z.to_nat p) ks then Done else Err ENOENT) :: ph_fun ks r
  end.

Lemma memb_same : forall k a b, same a b -> memb k a = memb k b.
Proof.
  intros k a b H. destruct (memb k a) eqn:Ha; destruct (memb k b) eqn:Hb; auto.
  - apply memb_in, H, memb_in in Ha; congruence.
  - apply memb_in, H, memb_in in Hb; congruence.
Qed.

Lemma ph_spec_run_fun : forall ops ks ks0 os, same ks ks0 -> ph_spec_run ks ops os ->
  Forall (fun o => o <> Err ENOMEM) os -> os = ph_fun ks0 ops.
Proof.
  induction ops as [|op ops IH]; intros ks ks0 os Hs Hrun Hne; destruct os as [|o os]; simpl in Hrun; try contradiction; [reflexivity|].
  destruct Hrun as [ks' [Hsp Hrun]]. inversion Hne as [|? ? Ho Hos]; subst.
  destruct op as [p|p]; simpl in *.
  - destruct Hsp as [[Hp [Ho' Hk]]|[[Hp [Hin [Ho' Hk]]]|[Hp [Hnin [[Ho' Hk]|[Ho' Hk]]]]]].
    + apply Z.ltb_lt in Hp; rewrite Hp. subst o. f_equal. apply (IH ks'); auto. intro x; rewrite (Hk x); apply Hs.
    + assert (Hp' : p <? 0 = false) by (apply Z.ltb_ge; lia). rewrite Hp'.
      assert (Hm : memb (Z.to_nat p) ks0 = true) by (apply memb_in, Hs; assumption). rewrite Hm.
      subst o. f_equal. apply (IH ks'); auto. intro x; rewrite (Hk x); apply Hs.
    + assert (Hp' : p <? 0 = false) by (apply Z.ltb_ge; lia). rewrite Hp'.
      assert (Hm : memb (Z.to_nat p) ks0 = false).
      { destruct (memb (Z.to_nat p) ks0) eqn:Hm; auto. apply memb_in, Hs in Hm; contradiction. }
      rewrite Hm. subst o. f_equal. apply (IH ks'); auto. intro x; rewrite (Hk x); simpl. rewrite (Hs x); tauto.
    + subst o; contradiction.
  - destruct Hsp as [Hk Hsp]. f_equal.
    + destruct Hsp as [[Hp Ho']|[[Hp [Hin Ho']]|[Hp [Hnin Ho']]]].
      * apply Z.ltb_lt in Hp; rewrite Hp; assumption.
      * assert (Hp' : p <? 0 = false) by (apply Z.ltb_ge; lia). rewrite Hp'.
        assert (Hm : memb (Z.to_nat p) ks0 = true) by (apply memb_in, Hs; assumption). rewrite Hm; assumption.
      * assert (Hp' : p <? 0 = false) by (apply Z.ltb_ge; lia). rewrite Hp'.
        assert (Hm : memb (Z.to_nat p) ks0 = false).
        { destruct (memb (Z.to_nat p) ks0) eqn:Hm; auto. apply memb_in, Hs in Hm; contradiction. }
        rewrite Hm; assumption.
    + apply (IH ks'); auto. intro x; rewrite (Hk x); apply Hs.
Qed.

Lemma NF_free_chain : forall c, NF (free_chain c) (fun _ => True).
Proof. induction c as [|n c IH]; simpl; [apply NF_ret; exact I | eapply NF_bind; [apply NF_free_blocks | intros _ _; exact IH]]. Qed.

Lemma NF_free_chains : forall l, NF (free_chains l) (fun _ => True).
Proof. induction l as [|c l IH]; simpl; [apply NF_ret; exact I | eapply NF_bind; [apply NF_free_chain | intros _ _; exact IH]]. Qed.

Lemma NF_table_free : forall h, NF (table_free h) (fun _ => True).
Proof. intro h; unfold table_free. eapply NF_bind; [apply NF_free_chains | intros _ _; apply NF_free]. Qed.

Lemma NF_ph_init : NF ph_init (fun r => r <> None).
Proof.
  unfold ph_init. eapply NF_bind; [apply NF_expand|]. intros [ok h] Hok; simpl in Hok; subst ok. apply NF_ret; discriminate.
Qed.

Lemma NF_phhistory : forall v ops, NF (phhistory v ops) (fun os => Forall (fun o => o <> Err ENOMEM) os).
Proof.
  intros v ops; unfold phhistory. eapply NF_bind; [apply NF_ph_init|]. intros [h|] Hh; [|contradiction].
  eapply NF_bind; [apply NF_phrun|]. intros [h' os] Hos; simpl in Hos.
  eapply NF_bind; [apply NF_table_free|]. intros _ _. apply NF_ret. assumption.
Qed.

Theorem ph_fault_free_exact_lemma : forall ops os s',
  phhistory HFixed ops (start None) = Ok (os, s') -> os = ph_fun [] ops.
Proof.
  intros ops os s' H. destruct (NF_phhistory HFixed ops (start None) os s' eq_refl H) as [_ Hne].
  destruct (ph_lookup_exact_lemma ops None os s' H) as [[Hk _]|Hrun]; [discriminate|].
  eapply ph_spec_run_fun; [apply same_refl | exact Hrun | exact Hne].
Qed.

Lemma ph_fault_history_lemma : forall ops k os s',
  phhistory HFixed ops (start (Some k)) = Ok (os, s') -> live s' = [].
Proof. intros ops k; exact (ph_no_leak_lemma ops (Some k)). Qed.

Lemma ph_fault_history_no_fault_lemma : forall ops k f, phhistory HFixed ops (start (Some k)) <> Fault f.
Proof. intros ops k; exact (ph_no_fault_lemma ops (Some k)). Qed.

(* one call with any fault point: clean failure, table unchanged, and the retry succeeds *)
Theorem ph_fault_clean_lemma : forall op h s, PHInv h s ->
  exists h' o s', phstep HFixed h op s = Ok ((h', o), s') /\ PHInv h' s' /\
    ph_spec (all_keys h) op o (all_keys h') /\ (o = Err ENOMEM -> h' = h /\ fail_at s' = None).
Proof.
  intros op h s HP. destruct (safe_phstep h s op HP) as [[h' o] [s' [He [HP' [Hsp Hen]]]]]. exists h', o, s'; auto.
Qed.

Theorem ph_retry_lemma : forall h s p h' s', PHInv h s ->
  ph_get HFixed h p s = Ok ((h', Err ENOMEM), s') ->
  h' = h /\ exists h'' s'', ph_get HFixed h' p s' = Ok ((h'', Done), s'') /\ PHInv h'' s'' /\
    same (all_keys h'') (Z.to_nat p :: all_keys h).
Proof.
  intros h s p h' s' HP H1.
  destruct (safe_ph_get h s p HP) as [[h1 o1] [s1 [He [HP1 [Hsp1 Hen1]]]]]. rewrite He in H1; inversion H1; subst; clear H1.
  cbn [fst snd] in *. destruct (Hen1 eq_refl) as [Hh Hfa]. subst h'. split; [reflexivity|].
  assert (Hnin : 0 <= p /\ ~ In (Z.to_nat p) (all_keys h)).
  { destruct Hsp1 as [[_ [Ho _]]|[[_ [_ [Ho _]]]|[Hp [Hn _]]]]; [discriminate | discriminate | auto]. }
  destruct (safe_ph_get h s' p HP1) as [[h2 o2] [s2 [He2 [HP2 [Hsp2 _]]]]]. cbn [fst snd] in *.
  destruct (NF_ph_get HFixed h p s' (h2, o2) s2 Hfa He2) as [_ Hne]; cbn [snd] in Hne.
  destruct Hnin as [Hp Hn].
  destruct Hsp2 as [[Hp2 _]|[[_ [Hin _]]|[_ [_ [[Ho Hk]|[Ho _]]]]]]; [lia | contradiction | | contradiction].
  subst o2. exists h2, s2. auto.
Qed.

(* non-vacuity: a reachable table that has grown to 16 buckets and holds colliding keys *)
Example PHInv_satisfiable : exists h s, PHInv h s /\ halloc h = 16%nat /\ hcount h = 9%nat /\
  nth 0 (map (map nkey) (hbuckets h)) [] = [0; 16; 32]%nat.
Proof.
  destruct (safe_ph_init (start None) (wf_start None) eq_refl) as [[h0|] [s0 [He0 H0]]]; [|vm_compute in He0; discriminate].
  destruct H0 as [HP0 _].
  destruct (safe_phrun [PHGet 32; PHGet 16; PHGet 0; PHGet 8; PHGet 24; PHGet 1; PHGet 9; PHGet 17; PHGet 40; PHFind 16] h0 s0 HP0)
    as [[h1 os] [s1 [He1 [HP1 _]]]].
  vm_compute in He0. inversion He0; subst. vm_compute in He1. inversion He1; subst.
  eexists; eexists; split; [exact HP1|]. vm_compute. auto.
Qed.

(* the bug shapes: with hash_insert pushing on the chain head, or hash_expand pushing rehashed nodes
   on the chain head, the sorted-chain early exit of hash_lookup misses a stored key *)
Theorem ph_head_insert_refuted_lemma : exists ops os s,
  phhistory HHeadInsert ops (start None) = Ok (os, s) /\ os <> ph_fun [] ops.
Proof. exists [PHGet 0; PHGet 8; PHFind 0]; eexists; eexists; split; [vm_compute; reflexivity | vm_compute; discriminate]. Qed.

Theorem ph_rehash_head_refuted_lemma : exists ops os s,
  phhistory HRehashHead ops (start None) = Ok (os, s) /\ os <> ph_fun [] ops.
Proof.
  exists [PHGet 3; PHGet 19; PHGet 4; PHGet 5; PHGet 6; PHGet 7; PHGet 9; PHGet 10; PHFind 3]; eexists; eexists;
    split; [vm_compute; reflexivity | vm_compute; discriminate].
Qed.

(* ================================================================ the vnaproperty map *)
Lemma table_lookup_eq : forall h hv k s r s', table_lookup h hv k s = Ok (r, s') ->
  r = chain_lookup k (nth (bucket_of hv (halloc h)) (hbuckets h) []).
Proof.
  intros h hv k s r s' H. unfold table_lookup, bind in H.
  destruct (bucket_access h (bucket_of hv (halloc h)) s) as [[u s1]|e]; [|discriminate].
  unfold ret in H. inversion H; reflexivity.
Qed.

Lemma safe_free_fa : forall b s, wf s -> In b (ids s) ->
  safe (free (Some b)) s (fun _ s' => wf s' /\ fail_at s' = fail_at s /\ (forall x, In x (ids s') <-> In x (ids s) /\ x <> b)).
Proof.
  intros b s Hwf Hin. destruct (free_spec b s Hwf Hin) as [s' [H [Hw [Hfa [_ Hi]]]]].
  exists tt, s'; auto.
Qed.

Lemma NoDup_flat_map_in : forall (l : list node) n, NoDup (nodes_blocks l) -> In n l -> NoDup (nblocks n).
Proof.
  induction l as [|a l IH]; intros n Hnd Hin; [destruct Hin|]. unfold nodes_blocks in *; simpl in Hnd.
  destruct (NoDup_app_inv _ _ Hnd) as [Ha [Hl _]]. destruct Hin as [He|Hin]; [subst; assumption | apply IH; assumption].
Qed.

Lemma nodes_blocks_in : forall (l : list node) n x, In n l -> In x (nblocks n) -> In x (nodes_blocks l).
Proof. intros l n x Hn Hx. unfold nodes_blocks. apply in_flat_map. exists n; auto. Qed.

Lemma nodes_blocks_disjoint : forall (l : list node) a b x, NoDup (nodes_blocks l) -> In a l -> In b l -> a <> b ->
  In x (nblocks a) -> ~ In x (nblocks b).
Proof.
  induction l as [|c l IH]; intros a b x Hnd Ha Hb Hne Hxa Hxb; [destruct Ha|].
  unfold nodes_blocks in Hnd; simpl in Hnd. destruct (NoDup_app_inv _ _ Hnd) as [Hc [Hl Hd]].
  destruct Ha as [Ha|Ha], Hb as [Hb|Hb].
  - subst; contradiction.
  - subst c. eapply Hd; [exact Hxa | eapply nodes_blocks_in; eauto].
  - subst c. eapply Hd; [exact Hxb | eapply nodes_blocks_in; eauto].
  - eapply (IH a b x); eauto.
Qed.

(* vnaproperty_free of a map walks the order list *)
Lemma safe_free_order : forall nodes order s,
  wf s -> NoDup order -> (forall k, In k order -> In k (map nkey nodes)) ->
  NoDup (map nkey nodes) -> NoDup (nodes_blocks nodes) ->
  (forall n x, In n nodes -> In (nkey n) order -> In x (nblocks n) -> In x (ids s)) ->
  safe (free_order order nodes) s (fun _ s' => wf s' /\
    forall x, In x (ids s') <-> In x (ids s) /\ ~ (exists n, In n nodes /\ In (nkey n) order /\ In x (nblocks n))).
Proof.
  intros nodes order; induction order as [|k t IH]; intros s Hw Hnd Hsub Hkeys Hblocks Hlive; simpl.
  - apply safe_ret. split; [assumption|]. intro x; split; [intro Hx; split; [assumption | intros [n [_ [[] _]]]] | tauto].
  - inversion Hnd as [|? ? Hkt Hndt]; subst.
    destruct (find (fun n => (nkey n =? k)%nat) nodes) as [n|] eqn:Hf.
    + apply find_some in Hf. destruct Hf as [Hn Hk]. apply Nat.eqb_eq in Hk.
      assert (Hndn : NoDup (rev (nblocks n))) by (apply NoDup_rev; eapply NoDup_flat_map_in; eauto).
      apply safe_bind. eapply safe_weaken; [apply safe_free_blocks; [assumption | exact Hndn |]|].
      { intros x Hx. apply in_rev in Hx. eapply Hlive; [exact Hn | left; auto | exact Hx]. }
      intros u s1 [Hw1 Hi1].
      eapply safe_weaken; [apply IH; [assumption | assumption | intros k' Hk'; apply Hsub; right; assumption | assumption | assumption |]|].
      * intros n' x Hn' Hk' Hx. apply Hi1. split; [eapply Hlive; [exact Hn' | right; exact Hk' | exact Hx]|].
        intro Hxr. apply in_rev in Hxr.
        assert (Hne : n' <> n) by (intro; subst n'; rewrite Hk in Hk'; contradiction).
        eapply (nodes_blocks_disjoint nodes n' n x); eauto.
      * intros u2 s2 [Hw2 Hi2]. split; [assumption|]. intro x; rewrite Hi2, Hi1. split.
        -- intros [[Hx Hnr] Hnt]. split; [assumption|]. intros [n' [Hn' [[Hk'|Hk'] Hx']]].
           ++ assert (n' = n).
              { clear - Hkeys Hn Hn' Hk Hk'. rewrite <- Hk in Hk'. revert Hkeys Hn Hn' Hk'. generalize nodes. induction nodes0 as [|a l IHl]; simpl; intros Hkeys Hn Hn' Hk'; [destruct Hn|].
                inversion Hkeys as [|? ? Hna Hkl]; subst.
                destruct Hn as [Hn|Hn], Hn' as [Hn'|Hn'].
                - congruence.
                - subst a. exfalso; apply Hna. rewrite Hk'. apply in_map; assumption.
                - subst a. exfalso; apply Hna. rewrite <- Hk'. apply in_map; assumption.
                - apply IHl; assumption. }
              subst n'. apply Hnr. apply -> in_rev. exact Hx'.
           ++ apply Hnt. exists n'; auto.
        -- intros [Hx Hno]. split; [split; [assumption|]|].
           ++ intro Hxr. apply in_rev in Hxr. apply Hno. exists n. split; [assumption | split; [left; auto | assumption]].
           ++ intros [n' [Hn' [Hk' Hx']]]. apply Hno. exists n'. split; [assumption | split; [right; assumption | assumption]].
    + exfalso. assert (Hin : In k (map nkey nodes)) by (apply Hsub; left; reflexivity).
      apply in_map_iff in Hin. destruct Hin as [n [Hk Hn]].
      apply (find_none _ _ Hf) in Hn. simpl in Hn. rewrite Hk, Nat.eqb_refl in Hn. discriminate.
Qed.

Lemma NoDup_remove_mid : forall (a b c : list block_id), NoDup (a ++ b ++ c) ->
  NoDup (a ++ c) /\ (forall x, In x b -> ~ In x (a ++ c)).
Proof.
  intros a b c H. destruct (NoDup_app_inv _ _ H) as [Ha [Hbc Hd]]. destruct (NoDup_app_inv _ _ Hbc) as [Hb [Hc Hd2]].
  split.
  - apply NoDup_app_intro; auto. intros x Hx Hxc. eapply Hd; [exact Hx | apply in_or_app; right; exact Hxc].
  - intros x Hx Hin. apply in_app_or in Hin. destruct Hin as [Hin|Hin].
    + eapply Hd; [exact Hin | apply in_or_app; left; exact Hx].
    + eapply Hd2; eauto.
Qed.

(* a detached node whose blocks have been released leaves the accounting *)
Lemma HInvP_drop_pend : forall extra h n s s', HInvP extra h [n] s -> wf s' ->
  (forall x, In x (ids s') <-> In x (ids s) /\ ~ In x (nblocks n)) -> HInvP extra h [] s'.
Proof.
  intros extra h n s s' [Hw [Hnd [Hiff Hv]]] Hw' Hi. unfold HInvP, hownedP in *. simpl in *.
  unfold nodes_blocks in *. simpl in *.
  assert (Hre : extra ++ vecl (hblk h) ++ nblocks n ++ flat_map nblocks (all_nodes h) =
                (extra ++ vecl (hblk h)) ++ nblocks n ++ flat_map nblocks (all_nodes h)) by (rewrite app_assoc; reflexivity).
  rewrite Hre in Hnd. destruct (NoDup_remove_mid _ _ _ Hnd) as [Hnd' Hdis]. rewrite <- app_assoc in Hnd'.
  split; [assumption|]. split; [exact Hnd'|]. split; [|assumption].
  intro x; rewrite Hi, Hiff, Hre. rewrite <- (app_assoc extra). rewrite !in_app_iff. split.
  - intros [[Hx|[Hx|[Hx|Hx]]] Hn]; auto. contradiction.
  - intro Hx. split; [tauto|]. intro Hn. apply (Hdis x Hn). rewrite !in_app_iff. tauto.
Qed.

Section MapProofs.
  Variable hf : nat -> N.

  Definition MInv (m : pmap) (s : astate) : Prop :=
    HInv [mblk m] (mtab m) s /\ FInv hf (mtab m) /\ hcount (mtab m) = length (all_nodes (mtab m)) /\
    Permutation (morder m) (all_keys (mtab m)).

  Lemma MInv_order_nodup : forall m s, MInv m s -> NoDup (morder m).
  Proof.
    intros m s [_ [[_ [Hd _]] [_ Hp]]]. eapply Permutation_NoDup; [apply Permutation_sym; exact Hp | exact Hd].
  Qed.

  Lemma map_new_alloc_gt : forall h, (2 * halloc h <= hcount h + 1)%nat -> (halloc h < map_new_alloc (hcount h))%nat.
  Proof. intros h H. unfold map_new_alloc. lia. Qed.

  Lemma count_pos_alloc_pos : forall h, hcount h = length (all_nodes h) -> (0 < hcount h)%nat -> (0 < halloc h)%nat.
  Proof.
    intros h Hc Hp. unfold halloc. destruct (hbuckets h) as [|c l] eqn:Hb; [|simpl; lia].
    unfold all_nodes in Hc; rewrite Hb in Hc; simpl in Hc. lia.
  Qed.

  (* the abstract effect of a call on the insertion-order list of keys *)
  Inductive kop := KSet (k : nat) | KGet (k : nat) | KDel (k : nat) | KKeys.
  Definition mop_of (o : kop) : mop :=
    match o with KSet k => MSet k (hf k) | KGet k => MGet k (hf k) | KDel k => MDel k (hf k) | KKeys => MKeys end.

  Definition m_spec (ord : list nat) (op : kop) (o : outcome) (ks : list nat) (ord' : list nat) : Prop :=
    match op with
    | KSet k => ks = [] /\
        ((o = Err ENOMEM /\ ord' = ord) \/ (In k ord /\ o = Done /\ ord' = ord) \/ (~ In k ord /\ o = Done /\ ord' = ord ++ [k]))
    | KGet k => ks = [] /\ ord' = ord /\
        (o = Err ENOMEM \/ (In k ord /\ o = Done) \/ (~ In k ord /\ o = Err ENOENT))
    | KDel k => ks = [] /\
        ((In k ord /\ o = Done /\ ord' = remove Nat.eq_dec k ord) \/ (~ In k ord /\ o = Err ENOENT /\ ord' = ord))
    | KKeys => ord' = ord /\ ((o = Done /\ ks = ord) \/ (o = Err ENOMEM /\ ks = []))
    end.

  Lemma in_order_keys : forall m s k, MInv m s -> (In k (morder m) <-> In k (all_keys (mtab m))).
  Proof.
    intros m s k [_ [_ [_ Hp]]]. split; intro H; [eapply Permutation_in; [exact Hp | exact H] | eapply Permutation_in; [apply Permutation_sym; exact Hp | exact H]].
  Qed.

  (* map_subtree *)
  Lemma safe_map_subtree : forall m s add k, MInv m s ->
    safe (map_subtree HFixed m add k (hf k)) s (fun r s' =>
      MInv (fst r) s' /\ mblk (fst r) = mblk m /\
      m_spec (morder m) (if add then KSet k else KGet k) (snd r) [] (morder (fst r)) /\
      (snd r = Err ENOMEM -> fail_at s' = None /\ same (all_keys (mtab (fst r))) (all_keys (mtab m)))).
  Proof.
    intros m s add k HM. pose proof HM as [HI [HF [Hcnt Hord]]]. unfold map_subtree.
    apply safe_bind.
    (* the optional expansion *)
    assert (Hexp : safe (if (2 * halloc (mtab m) <=? hcount (mtab m) + 1)%nat
                         then expand HFixed false (mtab m) (map_new_alloc (hcount (mtab m))) else ret (true, mtab m)) s
              (fun r s1 => HInv [mblk m] (snd r) s1 /\ FInv hf (snd r) /\ hcount (snd r) = hcount (mtab m) /\
                 Permutation (all_nodes (snd r)) (all_nodes (mtab m)) /\
                 (fst r = true -> (0 < halloc (snd r))%nat) /\ (fst r = false -> snd r = mtab m /\ fail_at s1 = None))).
    { destruct (Nat.leb_spec (2 * halloc (mtab m)) (hcount (mtab m) + 1)) as [Hle|Hgt].
      - eapply safe_weaken; [apply (safe_expand [mblk m] hf false (mtab m) s _ HI HF (map_new_alloc_gt _ Hle))|].
        intros [ok h] s1 [HI1 [HF1 [Hc1 [Hp1 [Hok Hfail]]]]]; cbn [fst snd] in *.
        split; [assumption|]. split; [assumption|]. split; [assumption|]. split; [assumption|]. split.
        + intro He. rewrite (Hok He). unfold map_new_alloc. lia.
        + intro He. destruct (Hfail He) as [Hh [_ Hfa]]. auto.
      - apply safe_ret; cbn [fst snd]. split; [assumption|]. split; [assumption|]. split; [reflexivity|]. split; [apply Permutation_refl|].
        split; [intros _; lia | discriminate]. }
    eapply safe_weaken; [exact Hexp|]. clear Hexp.
    intros [ok h] s1 [HI1 [HF1 [Hc1 [Hp1 [Hok Hfail]]]]]; cbn [fst snd] in *.
    assert (Hk1 : same (all_keys h) (all_keys (mtab m))) by (intro x; unfold all_keys; apply perm_keys; exact Hp1).
    assert (HM1 : MInv (mkM (mblk m) h (morder m)) s1).
    { split; [exact HI1|]. split; [exact HF1|]. simpl. split; [rewrite Hc1, Hcnt; symmetry; apply Permutation_length; exact Hp1|].
      eapply perm_trans; [exact Hord|]. unfold all_keys. apply Permutation_map. apply Permutation_sym; exact Hp1. }
    destruct ok; simpl.
    2:{ destruct (Hfail eq_refl) as [Hh Hfa]. apply safe_ret; cbn [fst snd].
        split; [exact HM1|]. split; [reflexivity|]. split; [|intros _; split; [exact Hfa | exact Hk1]].
        destruct add; simpl; [split; [reflexivity|]; left; auto | split; [reflexivity|]; split; [reflexivity|]; left; reflexivity]. }
    pose proof (Hok eq_refl) as Hpos.
    apply safe_bind. eapply safe_weaken; [apply (safe_table_lookup [mblk m] hf h s1 k HI1 HF1 Hpos)|].
    intros f s0 [Hs0 Hf]; subst s0. pose proof (lookup_key_cases h k f Hf) as Hk.
    assert (Hko : In k (morder m) <-> In k (all_keys h)).
    { rewrite (Hk1 k). eapply in_order_keys; exact HM. }
    destruct f as [n|].
    - apply safe_ret; cbn [fst snd]. split; [exact HM1|]. split; [reflexivity|]. split; [|discriminate].
      apply Hko in Hk. destruct add; simpl; [split; [reflexivity|]; right; left; auto | split; [reflexivity|]; split; [reflexivity|]; right; left; auto].
    - assert (Hnk : ~ In k (morder m)) by (intro Hx; apply Hk, Hko, Hx).
      destruct add; simpl.
      2:{ apply safe_ret; cbn [fst snd]. split; [exact HM1|]. split; [reflexivity|]. split; [|discriminate].
          split; [reflexivity|]; split; [reflexivity|]; right; right; auto. }
      pose proof HI1 as [Hw1 _].
      apply safe_bind. eapply safe_weaken; [apply safe_malloc; exact Hw1|].
      intros [eb|] s2 [Hw2 H2].
      2:{ destruct H2 as [Hids2 [_ [_ Hfa2]]]. apply safe_ret; cbn [fst snd].
          split; [|split; [reflexivity|]; split; [split; [reflexivity|]; left; auto | intros _; split; [exact Hfa2 | exact Hk1]]].
          destruct HM1 as [HIa HMr]. split; [|exact HMr]. eapply HInvP_ids_eq; [exact HIa | exact Hw2 | intro x; rewrite Hids2; tauto]. }
      destruct H2 as [Heb [Hneb [Hids2 _]]].
      apply safe_bind. eapply safe_weaken; [apply safe_malloc; exact Hw2|].
      intros [sb|] s3 [Hw3 H3].
      + destruct H3 as [Hsb [Hnsb [Hids3 _]]].
        apply safe_bind. eapply safe_weaken; [apply (safe_insert_new [mblk m] hf false h s1 s3 (mkN k (hf k) [eb; sb])); auto|].
        * simpl. constructor; [simpl; intros [Hx|[]]; apply Hnsb; rewrite Hids2, Hx; left; reflexivity | constructor; [simpl; tauto | constructor]].
        * simpl. intros x [Hx|[Hx|[]]] Hin; [apply Hneb; rewrite Hx; exact Hin | apply Hnsb; rewrite Hids2, Hx; right; exact Hin].
        * intro x; rewrite Hids3, Hids2; simpl. tauto.
        * intros h1 s4 [Hs4 [HIn [HFn [Hpn [Han [Hbn Hcn]]]]]]. subst s4. apply safe_ret; cbn [fst snd].
          split; [|split; [reflexivity|]; split; [split; [reflexivity|]; right; right; auto | discriminate]].
          split; [exact HIn|]. split; [exact HFn|]. cbn [mtab morder]. split.
          -- change (S (hcount h1) = length (all_nodes h1)).
             rewrite Hcn, Hc1, Hcnt. rewrite (Permutation_length Hpn). simpl. rewrite (Permutation_length Hp1). reflexivity.
          -- unfold all_keys. change (all_nodes {| hblk := hblk h1; hcount := S (hcount h1); hbuckets := hbuckets h1 |}) with (all_nodes h1).
             eapply perm_trans; [|apply Permutation_map; apply Permutation_sym; exact Hpn]. simpl.
             eapply perm_trans; [apply Permutation_app_comm|]. simpl. apply perm_skip.
             eapply perm_trans; [exact Hord|]. apply Permutation_map. apply Permutation_sym; exact Hp1.
      + destruct H3 as [Hids3 [_ [_ Hfa3]]].
        apply safe_bind. eapply safe_weaken; [apply safe_free_fa; [exact Hw3 | rewrite Hids3, Hids2; left; reflexivity]|].
        intros u s4 [Hw4 [Hfa4 Hi4]]. apply safe_ret; cbn [fst snd].
        split; [|split; [reflexivity|]; split; [split; [reflexivity|]; left; auto | intros _; split; [rewrite Hfa4; exact Hfa3 | exact Hk1]]].
        destruct HM1 as [HIa HMr]. split; [|exact HMr]. eapply HInvP_ids_eq; [exact HIa | exact Hw4|].
        intro x; rewrite Hi4, Hids3, Hids2; simpl. split; [intros [[Hx|Hx] Hne]; [congruence | exact Hx] | intro Hx; split; [right; exact Hx | intro; subst x; contradiction]].
  Qed.

  Lemma remove_perm : forall (l l' : list nat) k, NoDup l -> Permutation l (k :: l') ->
    Permutation (remove Nat.eq_dec k l) l'.
  Proof.
    intros l l' k Hnd Hp.
    assert (Hin : In k l) by (eapply Permutation_in; [apply Permutation_sym; exact Hp | left; reflexivity]).
    destruct (in_split _ _ Hin) as [l1 [l2 He]]. subst l.
    assert (Hn : ~ In k (l1 ++ l2)) by (apply NoDup_remove_2; exact Hnd).
    rewrite remove_app. simpl. destruct (Nat.eq_dec k k) as [_|Hne]; [|contradiction].
    rewrite <- remove_app. rewrite notin_remove by exact Hn.
    apply (Permutation_app_inv l1 l2 [] l' k). exact Hp.
  Qed.

  Lemma chain_remove_in : forall k c x, In x (chain_remove k c) -> In x c.
  Proof.
    induction c as [|e t IH]; simpl; intros x H; [destruct H|].
    destruct (nkey e =? k)%nat; [right; assumption|]. destruct H; [left; assumption | right; auto].
  Qed.

  (* map_delete *)
  Lemma safe_map_delete : forall m s k, MInv m s ->
    safe (map_delete m k (hf k)) s (fun r s' =>
      MInv (fst r) s' /\ mblk (fst r) = mblk m /\
      m_spec (morder m) (KDel k) (snd r) [] (morder (fst r))).
  Proof.
    intros m s k HM. pose proof HM as [HI [HF [Hcnt Hord]]]. unfold map_delete.
    destruct (Nat.eqb_spec (hcount (mtab m)) 0) as [Hz|Hnz].
    { apply safe_ret; cbn [fst snd]. split; [exact HM|]. split; [reflexivity|]. split; [reflexivity|]. right.
      split; [|auto]. intro Hin. apply (in_order_keys m s k HM) in Hin. unfold all_keys in Hin.
      rewrite Hz in Hcnt. symmetry in Hcnt. apply length_zero_iff_nil in Hcnt. rewrite Hcnt in Hin. destruct Hin. }
    assert (Hpos : (0 < halloc (mtab m))%nat) by (apply count_pos_alloc_pos; [exact Hcnt | lia]).
    pose proof (MInv_order_nodup m s HM) as Hondup.
    pose proof (in_order_keys m s k HM) as Hko.
    set (h := mtab m) in *. set (i := bucket_of (hf k) (halloc h)).
    assert (Hi : (i < halloc h)%nat) by (apply bucket_of_lt; exact Hpos).
    destruct (safe_table_lookup [mblk m] hf h s k HI HF Hpos) as [f [s0 [Hlk [Hs0 Hf]]]]. subst s0.
    pose proof (table_lookup_eq _ _ _ _ _ _ Hlk) as Hfe. fold i in Hfe.
    pose proof (lookup_key_cases h k f Hf) as Hk.
    apply safe_bind. exists f, s. split; [exact Hlk|].
    destruct f as [n|].
    - destruct Hf as [Hnin Hnk].
      pose proof (chain_remove_perm k _ n (eq_sym Hfe)) as Hcp.
      set (h' := mkH (hblk h) (pred (hcount h)) (upd (hbuckets h) i (chain_remove k (nth i (hbuckets h) [])))).
      assert (Hpn : Permutation (all_nodes h) (n :: all_nodes h')).
      { unfold all_nodes, h'; simpl.
        destruct (concat_upd_split (hbuckets h) i (chain_remove k (nth i (hbuckets h) [])) Hi) as [H1 H2].
        eapply perm_trans; [exact H2|]. eapply perm_trans; [apply Permutation_app_tail; exact Hcp|]. simpl. apply perm_skip.
        apply Permutation_sym. exact H1. }
      assert (Hal : halloc h' = halloc h) by (unfold halloc, h'; simpl; apply length_upd').
      assert (HIp : HInvP [mblk m] h' [n] s).
      { eapply HInvP_perm; [exact HI | reflexivity | exact Hal | simpl; apply Permutation_sym; exact Hpn]. }
      pose proof HIp as [Hw [Hnd [Hiff _]]].
      assert (Hndn : NoDup (nblocks n)).
      { unfold hownedP, nodes_blocks in Hnd. simpl in Hnd. inversion Hnd as [|? ? _ Hx]; subst.
        destruct (NoDup_app_inv _ _ Hx) as [_ [Hy _]]. destruct (NoDup_app_inv _ _ Hy) as [Hz _]. exact Hz. }
      apply safe_bind. eapply safe_weaken; [apply safe_free_blocks; [exact Hw | apply NoDup_rev; exact Hndn |]|].
      { intros x Hx. apply in_rev in Hx. apply Hiff. apply in_or_app; right. unfold hownedP. apply in_or_app; right.
        unfold nodes_blocks; simpl. apply in_or_app; left; exact Hx. }
      intros u s1 [Hw1 Hi1]. apply safe_ret; cbn [fst snd].
      destruct HF as [HG [Hd Hc]].
      assert (Hd' : NoDup (map nkey (n :: all_nodes h'))).
      { eapply Permutation_NoDup; [apply Permutation_map; exact Hpn | exact Hd]. }
      split; [|split; [reflexivity|]; split; [reflexivity|]; left; split; [apply Hko; exact Hk | auto]].
      split; [|split; [|split]]; cbn [mtab morder mblk].
      + eapply HInvP_drop_pend; [exact HIp | exact Hw1|]. intro x; rewrite Hi1, <- in_rev; tauto.
      + split; [|split].
        * intros j Hj. rewrite Hal in *. unfold h'; cbn [hbuckets].
          destruct (Nat.eq_dec j i) as [He|Hne].
          -- subst j. rewrite nth_upd_same' by exact Hi. destruct (HG i Hi) as [Hs Hp]. split.
             ++ apply chain_remove_sorted; exact Hs.
             ++ intros x Hx. apply Hp. eapply chain_remove_in; exact Hx.
          -- rewrite nth_upd_other' by auto. apply HG; exact Hj.
        * unfold distinct. simpl in Hd'. inversion Hd'; assumption.
        * intros x Hx. apply Hc. eapply Permutation_in; [apply Permutation_sym; exact Hpn | right; exact Hx].
      + unfold h' at 1; cbn [hcount]. rewrite Hcnt. rewrite (Permutation_length Hpn). reflexivity.
      + apply remove_perm; [exact Hondup|].
        eapply perm_trans; [exact Hord|]. unfold all_keys. rewrite <- Hnk. change (nkey n :: map nkey (all_nodes h')) with (map nkey (n :: all_nodes h')).
        apply Permutation_map; exact Hpn.
    - apply safe_ret; cbn [fst snd]. split; [exact HM|]. split; [reflexivity|]. split; [reflexivity|]. right.
      split; [|auto]. intro Hin. apply Hk. apply Hko; exact Hin.
  Qed.

  (* vnaproperty_vkeys on the map *)
  Lemma safe_map_keys : forall m s, MInv m s ->
    safe (map_keys m) s (fun r s' =>
      MInv (fst (fst r)) s' /\ fst (fst r) = m /\
      m_spec (morder m) KKeys (snd (fst r)) (snd r) (morder m) /\
      (snd (fst r) = Err ENOMEM -> fail_at s' = None)).
  Proof.
    intros m s HM. pose proof HM as [HI [HF [Hcnt Hord]]]. unfold map_keys. pose proof HI as [Hw _].
    apply safe_bind. eapply safe_weaken; [apply safe_malloc; exact Hw|].
    intros [b|] s1 [Hw1 H1].
    - destruct H1 as [Hb [Hnb [Hids1 _]]].
      apply safe_bind. exists tt, s1. split.
      { unfold check_range, range_ok. rewrite (Permutation_length Hord). unfold all_keys. rewrite map_length, <- Hcnt.
        replace (0 <=? 0) with true by reflexivity.
        replace (0 <=? Z.of_nat (hcount (mtab m) + 1)) with true by (symmetry; apply Z.leb_le; lia).
        replace (0 + Z.of_nat (hcount (mtab m) + 1) <=? Z.of_nat (hcount (mtab m) + 1)) with true by (symmetry; apply Z.leb_le; lia).
        rewrite orb_true_r. reflexivity. }
      apply safe_bind. eapply safe_weaken; [apply safe_free_fa; [exact Hw1 | rewrite Hids1; left; reflexivity]|].
      intros u s2 [Hw2 [_ Hi2]]. apply safe_ret; cbn [fst snd].
      split; [|split; [reflexivity|]; split; [split; [reflexivity|]; left; auto | discriminate]].
      split; [|split; [exact HF | split; [exact Hcnt | exact Hord]]].
      eapply HInvP_ids_eq; [exact HI | exact Hw2|]. intro x; rewrite Hi2, Hids1; simpl.
      split; [intros [[Hx|Hx] Hne]; [congruence | exact Hx] | intro Hx; split; [right; exact Hx | intro; subst x; contradiction]].
    - destruct H1 as [Hids1 [_ [_ Hfa]]]. apply safe_ret; cbn [fst snd].
      split; [|split; [reflexivity|]; split; [split; [reflexivity|]; right; auto | intros _; exact Hfa]].
      split; [|split; [exact HF | split; [exact Hcnt | exact Hord]]].
      eapply HInvP_ids_eq; [exact HI | exact Hw1 | intro x; rewrite Hids1; tauto].
  Qed.

  (* one call, arbitrary state satisfying the invariant (so: every fault point) *)
  Lemma safe_mstep : forall m s op, MInv m s ->
    safe (mstep HFixed m (mop_of op)) s (fun r s' =>
      MInv (fst (fst r)) s' /\ mblk (fst (fst r)) = mblk m /\
      m_spec (morder m) op (snd (fst r)) (snd r) (morder (fst (fst r))) /\
      (snd (fst r) = Err ENOMEM -> fail_at s' = None /\ same (all_keys (mtab (fst (fst r)))) (all_keys (mtab m)))).
  Proof.
    intros m s [k|k|k|] HM; simpl.
    - apply safe_bind. eapply safe_weaken; [apply (safe_map_subtree m s true k HM)|].
      intros [m' o] s' [HM' [Hb [Hsp Hen]]]. apply safe_ret; cbn [fst snd] in *. auto.
    - apply safe_bind. eapply safe_weaken; [apply (safe_map_subtree m s false k HM)|].
      intros [m' o] s' [HM' [Hb [Hsp Hen]]]. apply safe_ret; cbn [fst snd] in *. auto.
    - apply safe_bind. eapply safe_weaken; [apply (safe_map_delete m s k HM)|].
      intros [m' o] s' [HM' [Hb Hsp]]. apply safe_ret; cbn [fst snd] in *.
      split; [assumption|]. split; [assumption|]. split; [assumption|].
      intro He. exfalso. destruct Hsp as [_ [[_ [Ho _]]|[_ [Ho _]]]]; rewrite Ho in He; discriminate.
    - eapply safe_weaken; [apply (safe_map_keys m s HM)|].
      intros [[m' o] ks] s' [HM' [Hm [Hsp Hen]]]; cbn [fst snd] in *. subst m'.
      split; [assumption|]. split; [reflexivity|]. split; [assumption|]. intro He. split; [auto | apply same_refl].
  Qed.

  Fixpoint m_spec_run (ord : list nat) (ops : list kop) (os : list (outcome * list nat)) : Prop :=
    match ops, os with
    | [], [] => True
    | op :: ops', (o, ks) :: os' => exists ord', m_spec ord op o ks ord' /\ m_spec_run ord' ops' os'
    | _, _ => False
    end.

  Lemma safe_mrun : forall ops m s, MInv m s ->
    safe (mrun HFixed m (map mop_of ops)) s (fun r s' =>
      MInv (fst r) s' /\ mblk (fst r) = mblk m /\ m_spec_run (morder m) ops (snd r)).
  Proof.
    induction ops as [|op ops IH]; intros m s HM; simpl.
    - apply safe_ret; cbn [fst snd]; auto.
    - apply safe_bind. eapply safe_weaken; [apply safe_mstep; exact HM|].
      intros [[m' o] ks] s' [HM' [Hb [Hsp _]]]; cbn [fst snd] in *.
      apply safe_bind. eapply safe_weaken; [apply IH; exact HM'|].
      intros [m'' os] s'' [HM'' [Hb' Hrun]]; cbn [fst snd] in *. apply safe_ret; cbn [fst snd].
      split; [assumption|]. split; [congruence|]. exists (morder m'); auto.
  Qed.

  (* vnaproperty_free of the map *)
  Lemma safe_map_free : forall m s, MInv m s -> safe (map_free m) s (fun _ s' => live s' = []).
  Proof.
    intros m s HM. pose proof HM as [HI [[HG [Hd Hc]] [Hcnt Hord]]]. unfold map_free.
    pose proof (MInv_order_nodup m s HM) as Hondup.
    destruct HI as [Hw [Hnd [Hiff Hv]]]. unfold hownedP in Hnd, Hiff. simpl in Hnd, Hiff.
    inversion Hnd as [|? ? Hmb Hnd1]; subst. destruct (NoDup_app_inv _ _ Hnd1) as [Hvn [Hnb Hdv]].
    apply safe_bind. eapply safe_weaken; [apply (safe_free_order (all_nodes (mtab m)) (morder m) s Hw Hondup)|].
    - intros k Hk. eapply Permutation_in; [exact Hord | exact Hk].
    - exact Hd.
    - exact Hnb.
    - intros n x Hn _ Hx. apply Hiff. right. apply in_or_app; right. eapply nodes_blocks_in; eauto.
    - intros u s1 [Hw1 Hi1].
      assert (Hi1' : forall x, In x (ids s1) <-> x = mblk m \/ In x (vecl (hblk (mtab m)))).
      { intro x; rewrite Hi1, Hiff, in_app_iff. split.
        - intros [[Hx|[Hx|Hx]] Hno]; [left; auto | right; auto |].
          exfalso. apply Hno. unfold nodes_blocks in Hx. apply in_flat_map in Hx. destruct Hx as [n [Hn Hx]].
          exists n. split; [exact Hn|]. split; [|exact Hx].
          eapply Permutation_in; [apply Permutation_sym; exact Hord | unfold all_keys; apply in_map; exact Hn].
        - intros [Hx|Hx].
          + split; [left; auto|]. intros [n [Hn [_ Hxn]]]. apply Hmb. rewrite <- Hx. apply in_or_app; right. eapply nodes_blocks_in; eauto.
          + split; [right; left; exact Hx|]. intros [n [Hn [_ Hxn]]]. eapply Hdv; [exact Hx | eapply nodes_blocks_in; eauto]. }
      apply safe_bind.
      assert (Hlast : forall s2, wf s2 -> (forall x, In x (ids s2) <-> x = mblk m) ->
                safe (free (Some (mblk m))) s2 (fun _ s' => live s' = [])).
      { intros s2 Hw2 Hi2. eapply safe_weaken; [apply safe_free; [assumption | apply Hi2; reflexivity]|].
        intros u3 s3 [Hw3 [_ Hi3]]. apply ids_nil_live_nil. intros x Hx; apply Hi3 in Hx. destruct Hx as [Hx Hne]; apply Hi2 in Hx; contradiction. }
      destruct (hblk (mtab m)) as [b|] eqn:Hblk; simpl in *.
      + eapply safe_weaken; [apply safe_free; [assumption | apply Hi1'; right; left; reflexivity]|].
        intros u2 s2 [Hw2 [_ Hi2]]. apply Hlast; [assumption|].
        intro x; rewrite Hi2, Hi1'. split; [intros [[Hx|[Hx|[]]] Hne]; [auto | congruence] | intro Hx; split; [left; exact Hx|]].
        intro He. apply Hmb. left. congruence.
      + exists tt, s1. split; [reflexivity|]. apply Hlast; [assumption|]. intro x; rewrite Hi1'. tauto.
  Qed.

  Lemma mhistory_safe : forall ops k,
    safe (mhistory HFixed (map mop_of ops)) (start k) (fun os s' =>
      live s' = [] /\ ((k = Some O /\ os = []) \/ m_spec_run [] ops os)).
  Proof.
    intros ops k; unfold mhistory, map_new.
    apply safe_bind. apply safe_bind. eapply safe_weaken; [apply safe_malloc; apply wf_start|].
    intros [b|] s1 [Hw1 H1].
    - destruct H1 as [Hb [Hnb [Hids Hf]]]. apply safe_ret.
      assert (HM : MInv (mkM b (mkH None 0 []) []) s1).
      { split; [|split; [|split]]; simpl.
        - unfold HInv, HInvP, hownedP, all_nodes, halloc; simpl. split; [assumption|]. split; [repeat constructor; simpl; tauto|].
          split; [intro x; rewrite Hids; simpl; tauto | lia].
        - split; [|split].
          + intros j Hj. unfold halloc in Hj; simpl in Hj; lia.
          + unfold distinct, all_nodes; simpl; constructor.
          + intros n Hn. unfold all_nodes in Hn; simpl in Hn; destruct Hn.
        - reflexivity.
        - apply Permutation_refl. }
      apply safe_bind. eapply safe_weaken; [apply safe_mrun; exact HM|].
      intros [m' os] s2 [HM2 [_ Hrun]]; cbn [fst snd] in *.
      apply safe_bind. eapply safe_weaken; [apply safe_map_free; exact HM2|].
      intros u s3 H3. apply safe_ret. split; [assumption | right; exact Hrun].
    - destruct H1 as [Hids [_ [Hfa _]]]. apply safe_ret. apply safe_ret. split.
      + apply ids_nil_live_nil. rewrite Hids; simpl; tauto.
      + left. split; [exact Hfa | reflexivity].
  Qed.

  Theorem map_no_fault_lemma : forall ops k f, mhistory HFixed (map mop_of ops) (start k) <> Fault f.
  Proof. intros ops k f H. destruct (mhistory_safe ops k) as [a [s' [He _]]]. rewrite He in H; discriminate. Qed.

  Theorem map_no_leak_lemma : forall ops k os s', mhistory HFixed (map mop_of ops) (start k) = Ok (os, s') -> live s' = [].
  Proof. intros ops k os s' H. destruct (mhistory_safe ops k) as [a [s2 [He [Hl _]]]]. rewrite He in H; inversion H; subst; assumption. Qed.

  Theorem map_lookup_exact_lemma : forall ops k os s', mhistory HFixed (map mop_of ops) (start k) = Ok (os, s') ->
    (k = Some O /\ os = []) \/ m_spec_run [] ops os.
  Proof. intros ops k os s' H. destruct (mhistory_safe ops k) as [a [s2 [He [_ Hr]]]]. rewrite He in H; inversion H; subst; assumption. Qed.

  (* the fault-free run is a function of the op list *)
  Fixpoint m_fun (ord : list nat) (ops : list kop) : list (outcome * list nat) :=
    match ops with
    | [] => []
    | KSet k :: r => if memb k ord then (Done, []) :: m_fun ord r else (Done, []) :: m_fun (ord ++ [k]) r
    | KGet k :: r => ((if memb k ord then Done else Err ENOENT), []) :: m_fun ord r
    | KDel k :: r => if memb k ord then (Done, []) :: m_fun (remove Nat.eq_dec k ord) r else (Err ENOENT, []) :: m_fun ord r
    | KKeys :: r => (Done, ord) :: m_fun ord r
    end.

  Lemma memb_false : forall k ks, ~ In k ks -> memb k ks = false.
  Proof. intros k ks H. destruct (memb k ks) eqn:Hm; auto. apply memb_in in Hm; contradiction. Qed.

  Lemma m_spec_run_fun : forall ops ord os, m_spec_run ord ops os ->
    Forall (fun o => fst o <> Err ENOMEM) os -> os = m_fun ord ops.
  Proof.
    induction ops as [|op ops IH]; intros ord os Hrun Hne; destruct os as [|[o ks] os]; simpl in Hrun; try contradiction; [reflexivity|].
    destruct Hrun as [ord' [Hsp Hrun]]. inversion Hne as [|? ? Ho Hos]; subst. simpl in Ho.
    destruct op as [k|k|k|]; simpl in *.
    - destruct Hsp as [Hks [[Ho' _]|[[Hin [Ho' Hord]]|[Hnin [Ho' Hord]]]]]; [contradiction | |]; subst.
      + rewrite (proj2 (memb_in k ord) Hin). f_equal. apply IH; auto.
      + rewrite (memb_false k ord Hnin). f_equal. apply IH; auto.
    - destruct Hsp as [Hks [Hord [Ho'|[[Hin Ho']|[Hnin Ho']]]]]; [contradiction | |]; subst.
      + rewrite (proj2 (memb_in k ord) Hin). f_equal. apply IH; auto.
      + rewrite (memb_false k ord Hnin). f_equal. apply IH; auto.
    - destruct Hsp as [Hks [[Hin [Ho' Hord]]|[Hnin [Ho' Hord]]]]; subst.
      + rewrite (proj2 (memb_in k ord) Hin). f_equal. apply IH; auto.
      + rewrite (memb_false k ord Hnin). f_equal. apply IH; auto.
    - destruct Hsp as [Hord [[Ho' Hks]|[Ho' _]]]; [|contradiction]. subst. f_equal. apply IH; auto.
  Qed.

  Lemma NF_map_subtree : forall v m add k hv, NF (map_subtree v m add k hv) (fun r => snd r <> Err ENOMEM).
  Proof.
    intros v m add k hv; unfold map_subtree.
    eapply NF_bind with (P := fun r => fst r = true).
    { destruct (_ <=? _)%nat; [apply NF_expand | apply NF_ret; reflexivity]. }
    intros [ok h] Hok; simpl in Hok; subst ok; simpl.
    eapply NF_bind; [apply NF_table_lookup|]. intros [n|] _; [apply NF_ret; discriminate|].
    destruct add; simpl; [|apply NF_ret; discriminate].
    eapply NF_bind; [apply NF_malloc|]. intros [eb|] He; [|contradiction].
    eapply NF_bind; [apply NF_malloc|]. intros [sb|] Hs; [|contradiction].
    eapply NF_bind; [apply NF_table_insert | intros h1 _; apply NF_ret; discriminate].
  Qed.

  Lemma NF_map_delete : forall m k hv, NF (map_delete m k hv) (fun r => snd r <> Err ENOMEM).
  Proof.
    intros m k hv; unfold map_delete. destruct (_ =? _)%nat; [apply NF_ret; discriminate|].
    eapply NF_bind; [apply NF_table_lookup|]. intros [n|] _; [|apply NF_ret; discriminate].
    eapply NF_bind; [apply NF_free_blocks | intros _ _; apply NF_ret; discriminate].
  Qed.

  Lemma NF_map_keys : forall m, NF (map_keys m) (fun r => snd (fst r) <> Err ENOMEM).
  Proof.
    intro m; unfold map_keys. eapply NF_bind; [apply NF_malloc|]. intros [b|] Hb; [|contradiction].
    eapply NF_bind; [apply NF_check_range|]. intros _ _.
    eapply NF_bind; [apply NF_free | intros _ _; apply NF_ret; discriminate].
  Qed.

  Lemma NF_mstep : forall v m op, NF (mstep v m op) (fun r => snd (fst r) <> Err ENOMEM).
  Proof.
    intros v m [k hv|k hv|k hv|]; simpl.
    - eapply NF_bind; [apply NF_map_subtree | intros r Hr; apply NF_ret; exact Hr].
    - eapply NF_bind; [apply NF_map_subtree | intros r Hr; apply NF_ret; exact Hr].
    - eapply NF_bind; [apply NF_map_delete | intros r Hr; apply NF_ret; exact Hr].
    - apply NF_map_keys.
  Qed.

  Lemma NF_mrun : forall v ops m, NF (mrun v m ops) (fun r => Forall (fun o => fst o <> Err ENOMEM) (snd r)).
  Proof.
    intros v ops; induction ops as [|op rest IH]; intro m; simpl; [apply NF_ret; constructor|].
    eapply NF_bind; [apply NF_mstep|]. intros [[m' o] ks] Ho; simpl in Ho.
    eapply NF_bind; [apply IH|]. intros [m'' os] Hos; simpl in Hos. apply NF_ret; simpl. constructor; assumption.
  Qed.

  Lemma NF_free_order : forall order nodes, NF (free_order order nodes) (fun _ => True).
  Proof.
    induction order as [|k t IH]; intro nodes; simpl; [apply NF_ret; exact I|].
    destruct (find _ nodes); [|apply NF_fail]. eapply NF_bind; [apply NF_free_blocks | intros _ _; apply IH].
  Qed.

  Lemma NF_mhistory : forall v ops, NF (mhistory v ops) (fun os => Forall (fun o => fst o <> Err ENOMEM) os).
  Proof.
    intros v ops; unfold mhistory, map_new.
    eapply NF_bind with (P := fun r => r <> None).
    { eapply NF_bind; [apply NF_malloc|]. intros [b|] Hb; [|contradiction]. apply NF_ret; discriminate. }
    intros [m|] Hm; [|contradiction].
    eapply NF_bind; [apply NF_mrun|]. intros [m' os] Hos; simpl in Hos.
    eapply NF_bind; [|intros _ _; apply NF_ret; exact Hos].
    unfold map_free. eapply NF_bind; [apply NF_free_order|]. intros _ _.
    eapply NF_bind; [apply NF_free | intros _ _; apply NF_free].
  Qed.

  Theorem map_fault_free_exact_lemma : forall ops os s',
    mhistory HFixed (map mop_of ops) (start None) = Ok (os, s') -> os = m_fun [] ops.
  Proof.
    intros ops os s' H. destruct (NF_mhistory HFixed _ (start None) os s' eq_refl H) as [_ Hne].
    destruct (map_lookup_exact_lemma ops None os s' H) as [[Hk _]|Hrun]; [discriminate|].
    apply m_spec_run_fun; assumption.
  Qed.

  Lemma map_fault_history_lemma : forall ops k os s',
    mhistory HFixed (map mop_of ops) (start (Some k)) = Ok (os, s') -> live s' = [].
  Proof. intros ops k; exact (map_no_leak_lemma ops (Some k)). Qed.

  Lemma map_fault_history_no_fault_lemma : forall ops k f,
    mhistory HFixed (map mop_of ops) (start (Some k)) <> Fault f.
  Proof. intros ops k; exact (map_no_fault_lemma ops (Some k)). Qed.

  (* one call with any fault point: clean failure, key set and order unchanged; the retry succeeds *)
  Theorem map_fault_clean_lemma : forall op m s, MInv m s ->
    exists m' o ks s', mstep HFixed m (mop_of op) s = Ok ((m', o, ks), s') /\ MInv m' s' /\
      m_spec (morder m) op o ks (morder m') /\
      (o = Err ENOMEM -> fail_at s' = None /\ morder m' = morder m /\ same (all_keys (mtab m')) (all_keys (mtab m))).
  Proof.
    intros op m s HM. destruct (safe_mstep m s op HM) as [[[m' o] ks] [s' [He [HM' [_ [Hsp Hen]]]]]]; cbn [fst snd] in *.
    exists m', o, ks, s'. split; [assumption|]. split; [assumption|]. split; [assumption|].
    intro Ho. destruct (Hen Ho) as [Hfa Hk]. split; [assumption|]. split; [|assumption].
    subst o. destruct op as [k|k|k|]; simpl in Hsp.
    - destruct Hsp as [_ [[_ H]|[[_ [H _]]|[_ [H _]]]]]; [assumption | discriminate | discriminate].
    - destruct Hsp as [_ [H _]]; assumption.
    - destruct Hsp as [_ [[_ [H _]]|[_ [H _]]]]; discriminate.
    - destruct Hsp as [H _]; assumption.
  Qed.

  Theorem map_retry_lemma : forall m s k m' s', MInv m s ->
    map_subtree HFixed m true k (hf k) s = Ok ((m', Err ENOMEM), s') ->
    MInv m' s' /\ morder m' = morder m /\
    exists m'' s'', map_subtree HFixed m' true k (hf k) s' = Ok ((m'', Done), s'') /\ MInv m'' s'' /\
      ((In k (morder m) /\ morder m'' = morder m) \/ (~ In k (morder m) /\ morder m'' = morder m ++ [k])).
  Proof.
    intros m s k m' s' HM H1.
    destruct (safe_map_subtree m s true k HM) as [[m1 o1] [s1 [He [HM1 [_ [Hsp1 Hen1]]]]]]. rewrite He in H1; inversion H1; subst; clear H1.
    cbn [fst snd] in *. destruct (Hen1 eq_refl) as [Hfa _].
    assert (Hord : morder m' = morder m).
    { destruct Hsp1 as [_ [[_ H]|[[_ [H _]]|[_ [H _]]]]]; [assumption | discriminate | discriminate]. }
    split; [assumption|]. split; [assumption|].
    destruct (safe_map_subtree m' s' true k HM1) as [[m2 o2] [s2 [He2 [HM2 [_ [Hsp2 _]]]]]]. cbn [fst snd] in *.
    destruct (NF_map_subtree HFixed m' true k (hf k) s' (m2, o2) s2 Hfa He2) as [_ Hne]; cbn [snd] in Hne.
    rewrite Hord in Hsp2.
    destruct Hsp2 as [_ [[Ho _]|[[Hin [Ho Ho2]]|[Hnin [Ho Ho2]]]]]; [contradiction | |]; subst o2; exists m2, s2; auto.
  Qed.
End MapProofs.

(* non-vacuity: a reachable map whose table has grown from 11 to 33 buckets, with colliding keys *)
Definition hf_demo (k : nat) : N := if (k <=? 1)%nat then 0%N else if (k =? 2)%nat then 33%N else N.of_nat k.

Example MInv_satisfiable : exists m s, MInv hf_demo m s /\ halloc (mtab m) = 33%nat /\ hcount (mtab m) = 21%nat /\
  nth 0 (map (map nkey) (hbuckets (mtab m))) [] = [0; 2]%nat /\ length (live s) = 44%nat.
Proof.
  assert (HM0 : MInv hf_demo (mkM 0%nat (mkH None 0 []) []) (mkA None [(0%nat, 56)] 1)).
  { split; [|split; [|split]]; simpl.
    - unfold HInv, HInvP, hownedP, all_nodes, halloc, wf, ids; simpl.
      split; [split; [repeat constructor; simpl; tauto | intros x [Hx|[]]; subst; lia]|]. split; [repeat constructor; simpl; tauto|].
      split; [intro x; tauto | lia].
    - split; [|split].
      + intros j Hj. unfold halloc in Hj; simpl in Hj; lia.
      + unfold distinct, all_nodes; simpl; constructor.
      + intros n Hn. unfold all_nodes in Hn; simpl in Hn; destruct Hn.
    - reflexivity.
    - apply Permutation_refl. }
  destruct (safe_mrun hf_demo (map KSet (seq 0 22) ++ [KDel 1; KGet 0; KKeys]) _ _ HM0) as [[m' os] [s' [He [HM' _]]]].
  vm_compute in He. inversion He; subst. eexists; eexists; split; [exact HM'|]. vm_compute. auto.
Qed.

(* bug shapes: insertion at the chain head / rehash pushing on the chain head hide stored keys *)
Theorem map_head_insert_refuted_lemma : exists ops os s,
  mhistory HHeadInsert (map (mop_of hf_demo) ops) (start None) = Ok (os, s) /\ os <> m_fun [] ops.
Proof. exists [KSet 0%nat; KSet 1%nat; KGet 0%nat]; eexists; eexists; split; [vm_compute; reflexivity | vm_compute; discriminate]. Qed.

Theorem map_rehash_head_refuted_lemma : exists ops os s,
  mhistory HRehashHead (map (mop_of hf_demo) ops) (start None) = Ok (os, s) /\ os <> m_fun [] ops.
Proof.
  exists (map KSet (seq 0 22) ++ [KGet 0%nat]); eexists; eexists; split; [vm_compute; reflexivity | vm_compute; discriminate].
Qed.
