(* Proofs about the chained hash tables: chains stay sorted and in their bucket, look-up finds
   exactly the stored keys (also after growth), no fault, no leak, clean allocation failure. *)
Require Import List ZArith Bool Arith Lia Sorted Permutation.
Import ListNotations.
Require Import LV.Mem.Alloc LV.Mem.AllocProofs LV.Mem.PropList LV.Mem.PropListProofs LV.Mem.HashTab.
Open Scope Z_scope.

(* ---------------------------------------------------------------- chains *)
Definition klt (a b : node) : Prop := (nkey a < nkey b)%nat.
Definition sorted (c : chain) : Prop := StronglySorted klt c.

Lemma chain_insert_perm : forall s n c, Permutation (chain_insert s n c) (n :: c).
Proof.
  induction c as [|e t IH]; simpl; auto.
  destruct (if s then (nkey n <? nkey e)%nat else (nkey n <=? nkey e)%nat); auto.
  eapply perm_trans; [apply perm_skip; exact IH | apply perm_swap].
Qed.

Lemma chain_insert_in : forall s n c x, In x (chain_insert s n c) <-> x = n \/ In x c.
Proof.
  intros s n c x. split; intro H.
  - apply (Permutation_in _ (chain_insert_perm s n c)) in H. destruct H; auto.
  - apply (Permutation_in _ (Permutation_sym (chain_insert_perm s n c))). destruct H; [left; auto | right; auto].
Qed.

Lemma chain_insert_sorted : forall s n c, sorted c -> (forall e, In e c -> nkey e <> nkey n) ->
  sorted (chain_insert s n c).
Proof.
  induction c as [|e t IH]; simpl; intros Hs Hd.
  - constructor; [constructor | constructor].
  - inversion Hs as [|? ? Hst Hall]; subst.
    assert (Hne : nkey e <> nkey n) by (apply Hd; left; reflexivity).
    destruct (if s then (nkey n <? nkey e)%nat else (nkey n <=? nkey e)%nat) eqn:Hc.
    + assert (Hlt : (nkey n < nkey e)%nat).
      { destruct s; [apply Nat.ltb_lt in Hc; lia | apply Nat.leb_le in Hc; lia]. }
      constructor; [assumption|]. constructor; [assumption|].
      rewrite Forall_forall in *. intros x Hx. unfold klt in *. specialize (Hall x Hx). lia.
    + assert (Hgt : (nkey e < nkey n)%nat).
      { destruct s; [apply Nat.ltb_ge in Hc; lia | apply Nat.leb_gt in Hc; lia]. }
      constructor.
      * apply IH; auto.
      * rewrite Forall_forall in *. intros x Hx. apply chain_insert_in in Hx. destruct Hx as [Hx|Hx]; [subst; exact Hgt | apply Hall; assumption].
Qed.

Lemma chain_lookup_some : forall k c n, chain_lookup k c = Some n -> In n c /\ nkey n = k.
Proof.
  induction c as [|e t IH]; simpl; intros n H; [discriminate|].
  destruct (Nat.eqb_spec (nkey e) k).
  - inversion H; subst; auto.
  - destruct (k <? nkey e)%nat; [discriminate|]. destruct (IH n H); auto.
Qed.

Lemma chain_lookup_sorted : forall k c n, sorted c -> In n c -> nkey n = k -> chain_lookup k c = Some n.
Proof.
  induction c as [|e t IH]; simpl; intros n Hs Hin Hk; [destruct Hin|].
  inversion Hs as [|? ? Hst Hall]; subst. rewrite Forall_forall in Hall.
  destruct Hin as [He|Hin].
  - subst e. rewrite Nat.eqb_refl. reflexivity.
  - specialize (Hall n Hin). unfold klt in Hall.
    destruct (Nat.eqb_spec (nkey e) (nkey n)); [lia|].
    destruct (Nat.ltb_spec (nkey n) (nkey e)); [lia|]. apply IH; auto.
Qed.

Lemma chain_lookup_none : forall k c, sorted c -> chain_lookup k c = None -> forall n, In n c -> nkey n <> k.
Proof.
  intros k c Hs Hn n Hin Hk. rewrite (chain_lookup_sorted k c n Hs Hin Hk) in Hn. discriminate Hn.
Qed.

Lemma chain_remove_perm : forall k c n, chain_lookup k c = Some n -> Permutation c (n :: chain_remove k c).
Proof.
  induction c as [|e t IH]; simpl; intros n H; [discriminate|].
  destruct (Nat.eqb_spec (nkey e) k).
  - inversion H; subst; auto.
  - destruct (k <? nkey e)%nat; [discriminate|].
    eapply perm_trans; [apply perm_skip; apply IH; eassumption | apply perm_swap].
Qed.

Lemma chain_remove_sorted : forall k c, sorted c -> sorted (chain_remove k c).
Proof.
  induction c as [|e t IH]; simpl; intro Hs; auto.
  inversion Hs as [|? ? Hst Hall]; subst.
  destruct (nkey e =? k)%nat; auto.
  constructor; [apply IH; exact Hst|]. rewrite Forall_forall in *. intros x Hx. apply Hall.
  clear - Hx. induction t as [|a t IHt]; simpl in *; [destruct Hx|].
  destruct (nkey a =? k)%nat; [right; assumption|]. destruct Hx; [left; assumption | right; auto].
Qed.

(* ---------------------------------------------------------------- tables as lists of chains *)
Lemma concat_upd_split : forall (t : list chain) j c, (j < length t)%nat ->
  Permutation (concat (upd t j c)) (c ++ concat (upd t j [])) /\
  Permutation (concat t) (nth j t [] ++ concat (upd t j [])).
Proof.
  induction t as [|a t IH]; intros j c Hj; simpl in *; [lia|].
  destruct j; simpl.
  - split; apply Permutation_refl.
  - destruct (IH j c ltac:(lia)) as [H1 H2]. split.
    + eapply perm_trans; [apply Permutation_app_head; exact H1|].
      rewrite !app_assoc. apply Permutation_app_tail. apply Permutation_app_comm.
    + eapply perm_trans; [apply Permutation_app_head; exact H2|].
      rewrite !app_assoc. apply Permutation_app_tail. apply Permutation_app_comm.
Qed.

Lemma concat_set_bucket : forall (t : list chain) j c, (j < length t)%nat ->
  Permutation (nth j t [] ++ concat (upd t j c)) (c ++ concat t).
Proof.
  intros t j c Hj. destruct (concat_upd_split t j c Hj) as [H1 H2].
  eapply perm_trans; [apply Permutation_app_head; exact H1|].
  eapply perm_trans; [|apply Permutation_app_head; apply Permutation_sym; exact H2].
  rewrite !app_assoc. apply Permutation_app_tail. apply Permutation_app_comm.
Qed.

Lemma nth_upd_same' : forall A n (l : list A) v d, (n < length l)%nat -> nth n (upd l n v) d = v.
Proof. induction n; destruct l; simpl; intros; try lia; auto. apply IHn; lia. Qed.

Lemma nth_upd_other' : forall A n m (l : list A) v d, n <> m -> nth m (upd l n v) d = nth m l d.
Proof. induction n; destruct l, m; simpl; intros; try lia; auto. Qed.

Lemma length_upd' : forall A (l : list A) n v, length (upd l n v) = length l.
Proof. induction l; destruct n; simpl; auto. Qed.

(* ---------------------------------------------------------------- ownership *)
Definition nodes_blocks (l : list node) : list block_id := flat_map nblocks l.
Definition hownedP (h : htab) (pend : list node) : list block_id :=
  vecl (hblk h) ++ nodes_blocks (pend ++ all_nodes h).

(* the table together with nodes that are detached from it at the moment (rehash in progress) *)
Definition HInvP (h : htab) (pend : list node) (s : astate) : Prop :=
  wf s /\ NoDup (hownedP h pend) /\ (forall x, In x (ids s) <-> In x (hownedP h pend)) /\
  ((0 < halloc h)%nat -> hblk h <> None).
Definition HInv (h : htab) (s : astate) : Prop := HInvP h [] s.

Lemma HInvP_perm : forall h pend s h' pend',
  HInvP h pend s -> hblk h' = hblk h -> halloc h' = halloc h ->
  Permutation (pend' ++ all_nodes h') (pend ++ all_nodes h) -> HInvP h' pend' s.
Proof.
  intros h pend s h' pend' [Hw [Hnd [Hiff Hv]]] Hb Ha Hp. unfold HInvP, hownedP in *. rewrite Hb, Ha.
  assert (Hpb : Permutation (vecl (hblk h) ++ nodes_blocks (pend' ++ all_nodes h'))
                            (vecl (hblk h) ++ nodes_blocks (pend ++ all_nodes h))).
  { apply Permutation_app_head. unfold nodes_blocks. apply Permutation_flat_map. exact Hp. }
  split; [assumption|]. split; [eapply Permutation_NoDup; [apply Permutation_sym; exact Hpb | assumption]|].
  split; [|assumption]. intro x; rewrite Hiff. split; intro Hx.
  - eapply Permutation_in; [apply Permutation_sym; exact Hpb | assumption].
  - eapply Permutation_in; [exact Hpb | assumption].
Qed.

Lemma HInvP_ids_eq : forall h pend s s', HInvP h pend s -> wf s' -> (forall x, In x (ids s') <-> In x (ids s)) -> HInvP h pend s'.
Proof.
  intros h pend s s' [Hw [Hnd [Hiff Hv]]] Hw' Hi. split; [assumption | split; [assumption | split; [|assumption]]].
  intro x; rewrite Hi; apply Hiff.
Qed.

Lemma safe_bucket_access : forall h pend s i, HInvP h pend s -> (i < halloc h)%nat ->
  safe (bucket_access h i) s (fun _ s' => s' = s).
Proof.
  intros h pend s i [Hw [Hnd [Hiff Hv]]] Hi; unfold bucket_access.
  destruct (hblk h) as [b|] eqn:Hb; [|exfalso; apply Hv; [lia | reflexivity]].
  assert (Hl : is_live b s = true).
  { apply is_live_iff, Hiff. unfold hownedP; rewrite Hb; simpl; auto. }
  exists tt, s; split; auto. unfold bind, touch; rewrite Hl. unfold check_range, range_ok; simpl.
  replace (0 <=? Z.of_nat i) with true by (symmetry; apply Z.leb_le; lia).
  replace (Z.of_nat i + 1 <=? Z.of_nat (halloc h)) with true by (symmetry; apply Z.leb_le; lia). reflexivity.
Qed.

Lemma set_bucket_insert_perm : forall strict h n i, (i < halloc h)%nat ->
  Permutation (all_nodes (set_bucket h i (chain_insert strict n (nth i (hbuckets h) [])))) (n :: all_nodes h).
Proof.
  intros strict h n i Hi. unfold all_nodes, set_bucket; simpl.
  destruct (concat_upd_split (hbuckets h) i (chain_insert strict n (nth i (hbuckets h) [])) Hi) as [H1 H2].
  eapply perm_trans; [exact H1|].
  eapply perm_trans; [apply Permutation_app_tail; apply chain_insert_perm|].
  simpl. apply perm_skip. apply Permutation_sym. exact H2.
Qed.

(* ---------------------------------------------------------------- order and placement *)
Section Functional.
  Variable hf : nat -> nat.            (* the hash of a key: identity for parameters, crc32c for names *)

  Definition consistent (l : list node) : Prop := forall n, In n l -> nhash n = hf (nkey n).
  Definition distinct (l : list node) : Prop := NoDup (map nkey l).

  (* chains sorted; every node in the bucket of its hash for the current allocation, or (buckets
     lo .. old-1, not yet rehashed) for the old allocation *)
  Definition GInv (h : htab) (lo old : nat) : Prop :=
    forall j, (j < halloc h)%nat ->
      sorted (nth j (hbuckets h) []) /\
      forall n, In n (nth j (hbuckets h) []) ->
        bucket_of (nhash n) (halloc h) = j \/ ((lo <= j < old)%nat /\ bucket_of (nhash n) old = j).

  Definition TInv (h : htab) (pend : list node) (s : astate) (lo old : nat) : Prop :=
    HInvP h pend s /\ GInv h lo old /\ distinct (pend ++ all_nodes h) /\ consistent (pend ++ all_nodes h).

  Definition FInv (h : htab) : Prop := GInv h 0 0 /\ distinct (all_nodes h) /\ consistent (all_nodes h).

  Lemma in_all_nodes : forall h j n, (j < halloc h)%nat -> In n (nth j (hbuckets h) []) -> In n (all_nodes h).
  Proof.
    intros h j n Hj Hin. unfold all_nodes. apply in_concat. exists (nth j (hbuckets h) []). split; auto.
    apply nth_In; assumption.
  Qed.

  (* inserting the first pending node into its chain *)
  Lemma TInv_insert : forall strict h n rest s lo old, TInv h (n :: rest) s lo old -> (0 < halloc h)%nat ->
    let i := bucket_of (nhash n) (halloc h) in
    TInv (set_bucket h i (chain_insert strict n (nth i (hbuckets h) []))) rest s lo old.
  Proof.
    intros strict h n rest s lo old [HI [HG [Hd Hc]]] Hpos i.
    assert (Hi : (i < halloc h)%nat) by (unfold i, bucket_of; apply Nat.mod_upper_bound; lia).
    assert (Hperm : Permutation (rest ++ all_nodes (set_bucket h i (chain_insert strict n (nth i (hbuckets h) []))))
                                ((n :: rest) ++ all_nodes h)).
    { unfold all_nodes, set_bucket; simpl.
      destruct (concat_upd_split (hbuckets h) i (chain_insert strict n (nth i (hbuckets h) [])) Hi) as [H1 H2].
      eapply perm_trans; [apply Permutation_app_head; exact H1|].
      eapply perm_trans; [apply Permutation_app_head; apply Permutation_app_tail; apply chain_insert_perm|].
      simpl. eapply perm_trans; [apply Permutation_sym; apply Permutation_middle|]. apply perm_skip.
      apply Permutation_app_head. apply Permutation_sym. exact H2. }
    split; [|split; [|split]].
    - eapply HInvP_perm; [exact HI | reflexivity | unfold halloc, set_bucket; simpl; apply length_upd' | exact Hperm].
    - intros j Hj. unfold halloc, set_bucket in *; simpl in *. rewrite length_upd' in Hj.
      destruct (Nat.eq_dec j i) as [He|Hne].
      + subst j. rewrite nth_upd_same' by assumption. destruct (HG i Hi) as [Hs Hp]. split.
        * apply chain_insert_sorted; auto. intros e He Hk.
          unfold distinct in Hd. simpl in Hd. inversion Hd as [|? ? Hnin _]; subst. apply Hnin.
          rewrite map_app, in_app_iff. right. rewrite <- Hk. apply in_map. eapply in_all_nodes; eauto.
        * intros x Hx. rewrite length_upd'. apply chain_insert_in in Hx. destruct Hx as [Hx|Hx]; [subst x; left; reflexivity | apply Hp; assumption].
      + rewrite nth_upd_other' by auto. rewrite length_upd'. apply HG; assumption.
    - unfold distinct in *. eapply Permutation_NoDup; [apply Permutation_map; apply Permutation_sym; exact Hperm | exact Hd].
    - intros x Hx. apply Hc. eapply Permutation_in; [exact Hperm | exact Hx].
  Qed.

  Lemma safe_rehash_chain : forall strict c h s lo old, TInv h c s lo old -> (0 < halloc h)%nat ->
    safe (rehash_chain HFixed strict h c) s (fun h' s' =>
      s' = s /\ TInv h' [] s lo old /\ halloc h' = halloc h /\ hblk h' = hblk h /\ hcount h' = hcount h /\
      Permutation (all_nodes h') (c ++ all_nodes h)).
  Proof.
    intros strict c; induction c as [|n rest IH]; intros h s lo old HT Hpos; simpl.
    - apply safe_ret. split; [reflexivity | split; [exact HT | split; [reflexivity | split; [reflexivity | split; [reflexivity | apply Permutation_refl]]]]].
    - pose proof HT as [HI _].
      apply safe_bind. eapply safe_weaken; [eapply safe_bucket_access; [exact HI | unfold bucket_of; apply Nat.mod_upper_bound; lia]|].
      intros u s0 Hs0; simpl in Hs0; subst s0.
      pose proof (TInv_insert strict h n rest s lo old HT Hpos) as HT'. cbv zeta in HT'.
      eapply safe_weaken; [apply IH; [exact HT' | unfold halloc, set_bucket; simpl; rewrite length_upd'; exact Hpos]|].
      intros h' s' [Hs [HT2 [Ha [Hb [Hcn Hpm]]]]].
      assert (Hi : (bucket_of (nhash n) (halloc h) < halloc h)%nat) by (unfold bucket_of; apply Nat.mod_upper_bound; lia).
      pose proof (set_bucket_insert_perm strict h n _ Hi) as Hp1.
      unfold halloc, set_bucket in Ha, Hb, Hcn; simpl in Ha, Hb, Hcn. rewrite length_upd' in Ha.
      split; [assumption | split; [assumption | split; [exact Ha | split; [exact Hb | split; [exact Hcn|]]]]].
      eapply perm_trans; [exact Hpm|]. eapply perm_trans; [apply Permutation_app_head; exact Hp1|].
      apply Permutation_sym. apply Permutation_middle.
  Qed.

  Lemma safe_rehash_all : forall strict n lo h s old, TInv h [] s lo old -> (0 < halloc h)%nat ->
    (lo + n = old)%nat -> (old <= halloc h)%nat ->
    safe (rehash_all HFixed strict h (seq lo n)) s (fun h' s' =>
      s' = s /\ TInv h' [] s old old /\ halloc h' = halloc h /\ hblk h' = hblk h /\ hcount h' = hcount h /\
      Permutation (all_nodes h') (all_nodes h)).
  Proof.
    intros strict n; induction n as [|n IH]; intros lo h s old HT Hpos Hlo Hold; simpl.
    - apply safe_ret. assert (Ho : lo = old) by lia. rewrite Ho in HT. split; [reflexivity | split; [exact HT | split; [reflexivity | split; [reflexivity | split; [reflexivity | apply Permutation_refl]]]]].
    - pose proof HT as [HI [HG [Hd Hc]]].
      assert (Hlt : (lo < halloc h)%nat) by lia.
      apply safe_bind. eapply safe_weaken; [eapply safe_bucket_access; [exact HI | exact Hlt]|].
      intros u s0 Hs0; simpl in Hs0; subst s0.
      assert (HT1 : TInv (set_bucket h lo []) (nth lo (hbuckets h) []) s (S lo) old).
      { assert (Hperm : Permutation (nth lo (hbuckets h) [] ++ all_nodes (set_bucket h lo [])) ([] ++ all_nodes h)).
        { unfold all_nodes, set_bucket; simpl. apply Permutation_sym. apply (concat_upd_split (hbuckets h) lo [] Hlt). }
        split; [|split; [|split]].
        - eapply HInvP_perm; [exact HI | reflexivity | unfold halloc, set_bucket; simpl; apply length_upd' | exact Hperm].
        - intros j Hj. unfold halloc, set_bucket in *; simpl in *. rewrite length_upd' in Hj. rewrite length_upd'.
          destruct (Nat.eq_dec j lo) as [He|Hne].
          + subst j. rewrite nth_upd_same' by assumption. split; [constructor | intros x []].
          + rewrite nth_upd_other' by auto. destruct (HG j Hj) as [Hs Hp]. split; auto.
            intros x Hx. destruct (Hp x Hx) as [Hl|[Hr1 Hr2]]; [left; assumption | right; split; [lia | assumption]].
        - unfold distinct in *. eapply Permutation_NoDup; [apply Permutation_map; apply Permutation_sym; exact Hperm | exact Hd].
        - intros x Hx. apply Hc. eapply Permutation_in; [exact Hperm | exact Hx]. }
      apply safe_bind. eapply safe_weaken; [apply safe_rehash_chain; [exact HT1 | unfold halloc, set_bucket; simpl; rewrite length_upd'; exact Hpos]|].
      intros h1 s1 [Hs1 [HT2 [Ha1 [Hb1 [Hc1 Hpm1]]]]]. subst s1.
      unfold halloc, set_bucket in Ha1, Hb1, Hc1; simpl in Ha1, Hb1, Hc1. rewrite length_upd' in Ha1. fold (halloc h1) in Ha1. fold (halloc h) in Ha1.
      eapply safe_weaken; [apply (IH (S lo) h1 s old); [exact HT2 | lia | lia | lia]|].
      intros h2 s2 [Hs2 [HT3 [Ha2 [Hb2 [Hc2 Hpm2]]]]]. split; [assumption | split; [assumption | split; [congruence | split; [congruence | split; [congruence|]]]]].
      eapply perm_trans; [exact Hpm2|]. eapply perm_trans; [exact Hpm1|].
      apply Permutation_sym. apply (concat_upd_split (hbuckets h) lo [] Hlt).
  Qed.
End Functional.

Lemma concat_repeat_nil : forall (A : Type) n, concat (repeat (@nil A) n) = [].
Proof. induction n; simpl; auto. Qed.

Lemma nth_repeat_nil : forall (A : Type) n j, nth j (repeat (@nil A) n) [] = [].
Proof. induction n; destruct j; simpl; auto. Qed.

Section Tables.
  Variable hf : nat -> nat.

  Lemma all_nodes_bucket : forall h n, In n (all_nodes h) -> exists j, (j < halloc h)%nat /\ In n (nth j (hbuckets h) []).
  Proof.
    intros h n Hin. unfold all_nodes in Hin. apply in_concat in Hin. destruct Hin as [c [Hc Hn]].
    destruct (In_nth _ _ [] Hc) as [j [Hj He]]. exists j; split; [exact Hj | subst c; exact Hn].
  Qed.

  Lemma GInv_final : forall h old, GInv h old old -> GInv h 0 0.
  Proof.
    intros h old HG j Hj. destruct (HG j Hj) as [Hs Hp]. split; auto.
    intros n Hn. destruct (Hp n Hn) as [Hl|[Hr _]]; [left; assumption | lia].
  Qed.

  Lemma safe_expand : forall strict h s new, HInv h s -> FInv hf h -> (halloc h < new)%nat ->
    safe (expand HFixed strict h new) s (fun r s' =>
      HInv (snd r) s' /\ FInv hf (snd r) /\ hcount (snd r) = hcount h /\
      Permutation (all_nodes (snd r)) (all_nodes h) /\
      (fst r = true -> halloc (snd r) = new) /\ (fst r = false -> snd r = h)).
  Proof.
    intros strict h s new HI [HG [Hd Hc]] Hnew; unfold expand. pose proof HI as [Hw [Hnd [Hiff Hv]]].
    apply safe_bind. eapply safe_weaken; [apply safe_realloc; [assumption|]|].
    { intros b Hb. apply Hiff. unfold hownedP; rewrite Hb; simpl; auto. }
    intros [b|] s1 [Hw1 H1].
    - destruct H1 as [Hb [Hnb [_ Hi1]]].
      set (h0 := mkH (Some b) (hcount h) (hbuckets h ++ repeat [] (new - halloc h))).
      assert (Hall0 : all_nodes h0 = all_nodes h).
      { unfold all_nodes, h0; simpl. rewrite concat_app, concat_repeat_nil, app_nil_r. reflexivity. }
      assert (Hlen0 : halloc h0 = new).
      { unfold h0. unfold halloc in *; simpl. rewrite app_length, repeat_length. lia. }
      assert (HT0 : TInv hf h0 [] s1 0 (halloc h)).
      { split; [|split; [|split]].
        - unfold HInvP, hownedP. simpl. rewrite Hall0. unfold hownedP in Hnd, Hiff. simpl in Hnd, Hiff.
          split; [assumption|]. split; [|split; [|intros _; discriminate]].
          + constructor.
            * intro Hin. apply Hnb. apply Hiff. apply in_or_app; right; assumption.
            * apply NoDup_app_inv in Hnd; tauto.
          + intro x; rewrite Hi1; simpl. split.
            * intros [Hx|[Hx Hne]]; [left; auto|]. apply Hiff in Hx. apply in_app_or in Hx. destruct Hx as [Hx|Hx]; [|right; assumption].
              exfalso; apply Hne. destruct (hblk h) as [ob|]; simpl in Hx; [destruct Hx as [Hx|[]]; rewrite Hx; reflexivity | destruct Hx].
            * intros [Hx|Hx]; [left; auto|]. right; split; [apply Hiff; apply in_or_app; right; assumption|].
              intro He. destruct (NoDup_app_inv _ _ Hnd) as [_ [_ Hdis]]. apply (Hdis x); [rewrite <- He; simpl; auto | assumption].
        - intros j Hj. rewrite Hlen0 in *. unfold h0; simpl.
          destruct (Nat.lt_ge_cases j (halloc h)) as [Hlt|Hge].
          + rewrite app_nth1 by (unfold halloc in Hlt; exact Hlt). destruct (HG j Hlt) as [Hs Hp]. split; auto.
            intros n Hn. destruct (Hp n Hn) as [Hl|[Hr _]]; [right; split; [lia | exact Hl] | lia].
          + rewrite app_nth2 by (unfold halloc in Hge; exact Hge). rewrite (nth_repeat_nil node). split; [constructor | intros n []].
        - simpl. rewrite Hall0. exact Hd.
        - simpl. rewrite Hall0. exact Hc. }
      apply safe_bind. eapply safe_weaken; [apply (safe_rehash_all hf strict (halloc h) 0 h0 s1 (halloc h)); [exact HT0 | lia | lia | lia]|].
      intros h' s' [Hs' [[HI' [HG' [Hd' Hc']]] [Ha' [Hb' [Hcn' Hpm']]]]]. subst s'. apply safe_ret; cbn [fst snd].
      split; [exact HI'|]. split; [split; [eapply GInv_final; exact HG' | split; [exact Hd' | exact Hc']]|].
      split; [rewrite Hcn'; reflexivity|]. split; [rewrite <- Hall0; exact Hpm'|]. split; [intros _; congruence | discriminate].
    - destruct H1 as [Hids _]. apply safe_ret; cbn [fst snd].
      split; [eapply HInvP_ids_eq; eauto; intro x; rewrite Hids; tauto|].
      split; [split; [assumption | split; assumption]|]. split; [reflexivity|]. split; [apply Permutation_refl|]. split; [discriminate | reflexivity].
  Qed.

  (* look-up finds a node with the key iff one is stored *)
  Lemma safe_table_lookup : forall h s k, HInv h s -> FInv hf h -> (0 < halloc h)%nat ->
    safe (table_lookup h (hf k) k) s (fun r s' => s' = s /\
      match r with
      | Some n => In n (all_nodes h) /\ nkey n = k
      | None => forall n, In n (all_nodes h) -> nkey n <> k
      end).
  Proof.
    intros h s k HI [HG [Hd Hc]] Hpos; unfold table_lookup.
    assert (Hi : (bucket_of (hf k) (halloc h) < halloc h)%nat) by (unfold bucket_of; apply Nat.mod_upper_bound; lia).
    apply safe_bind. eapply safe_weaken; [eapply safe_bucket_access; [exact HI | exact Hi]|].
    intros u s0 Hs0; simpl in Hs0; subst s0. apply safe_ret. split; [reflexivity|].
    destruct (HG _ Hi) as [Hs Hp].
    destruct (chain_lookup k (nth (bucket_of (hf k) (halloc h)) (hbuckets h) [])) as [n|] eqn:Hl.
    - apply chain_lookup_some in Hl. destruct Hl as [Hin Hk]. split; [eapply in_all_nodes; eauto | exact Hk].
    - intros n Hn Hk. destruct (all_nodes_bucket h n Hn) as [j [Hj Hnj]].
      destruct (HG j Hj) as [_ Hpj]. destruct (Hpj n Hnj) as [Hb|[Hr _]]; [|lia].
      rewrite (Hc n Hn), Hk in Hb. subst j.
      eapply chain_lookup_none; eauto.
  Qed.
End Tables.

(* ---------------------------------------------------------------- releasing a table *)
Lemma safe_free_blocks : forall l s, wf s -> NoDup l -> (forall x, In x l -> In x (ids s)) ->
  safe (free_blocks l) s (fun _ s' => wf s' /\ (forall x, In x (ids s') <-> In x (ids s) /\ ~ In x l)).
Proof.
  induction l as [|b l IH]; intros s Hw Hnd Hin; simpl.
  - apply safe_ret; split; auto. intro x; tauto.
  - inversion Hnd as [|? ? Hnb Hnd']; subst.
    apply safe_bind. eapply safe_weaken; [apply safe_free; [assumption | apply Hin; left; reflexivity]|].
    intros u s1 [Hw1 [_ Hi1]].
    eapply safe_weaken; [apply IH; [assumption | assumption |]|].
    + intros x Hx. apply Hi1. split; [apply Hin; right; assumption | intro; subst; contradiction].
    + intros u2 s2 [Hw2 Hi2]. split; auto. intro x; rewrite Hi2, Hi1; simpl. intuition.
Qed.

Lemma safe_free_chain : forall c s, wf s -> NoDup (nodes_blocks c) -> (forall x, In x (nodes_blocks c) -> In x (ids s)) ->
  safe (free_chain c) s (fun _ s' => wf s' /\ (forall x, In x (ids s') <-> In x (ids s) /\ ~ In x (nodes_blocks c))).
Proof.
  induction c as [|n c IH]; intros s Hw Hnd Hin; simpl.
  - apply safe_ret; split; auto. intro x; tauto.
  - simpl in Hnd, Hin. destruct (NoDup_app_inv _ _ Hnd) as [Hn [Hc Hd]].
    apply safe_bind. eapply safe_weaken; [apply safe_free_blocks; [assumption | assumption | intros x Hx; apply Hin; apply in_or_app; auto]|].
    intros u s1 [Hw1 Hi1].
    eapply safe_weaken; [apply IH; [assumption | assumption |]|].
    + intros x Hx. apply Hi1. split; [apply Hin; apply in_or_app; auto | intro Hx'; eapply Hd; eauto].
    + intros u2 s2 [Hw2 Hi2]. split; auto. intro x; rewrite Hi2, Hi1, in_app_iff. tauto.
Qed.

Lemma safe_free_chains : forall l s, wf s -> NoDup (nodes_blocks (concat l)) -> (forall x, In x (nodes_blocks (concat l)) -> In x (ids s)) ->
  safe (free_chains l) s (fun _ s' => wf s' /\ (forall x, In x (ids s') <-> In x (ids s) /\ ~ In x (nodes_blocks (concat l)))).
Proof.
  induction l as [|c l IH]; intros s Hw Hnd Hin; simpl.
  - apply safe_ret; split; auto. intro x; tauto.
  - unfold nodes_blocks in *. simpl in Hnd, Hin. rewrite flat_map_app in Hnd, Hin.
    destruct (NoDup_app_inv _ _ Hnd) as [Hn [Hc Hd]].
    apply safe_bind. eapply safe_weaken; [apply safe_free_chain; [assumption | exact Hn | intros x Hx; apply Hin; apply in_or_app; auto]|].
    intros u s1 [Hw1 Hi1].
    eapply safe_weaken; [apply IH; [assumption | exact Hc |]|].
    + intros x Hx. apply Hi1. split; [apply Hin; apply in_or_app; auto | intro Hx'; eapply Hd; eauto].
    + intros u2 s2 [Hw2 Hi2]. split; auto. intro x; rewrite Hi2, Hi1, flat_map_app, in_app_iff. unfold nodes_blocks. tauto.
Qed.

(* releasing the table leaves exactly the blocks that were live besides it *)
Lemma safe_table_free : forall h s extra, wf s -> NoDup (extra ++ hownedP h []) ->
  (forall x, In x (ids s) <-> In x (extra ++ hownedP h [])) ->
  safe (table_free h) s (fun _ s' => wf s' /\ (forall x, In x (ids s') <-> In x extra)).
Proof.
  intros h s extra Hw Hnd Hiff; unfold table_free, hownedP in *. simpl in *.
  destruct (NoDup_app_inv _ _ Hnd) as [He [Ho Hde]].
  destruct (NoDup_app_inv _ _ Ho) as [Hv [Hb Hdv]].
  apply safe_bind. eapply safe_weaken; [apply safe_free_chains; [assumption | exact Hb |]|].
  { intros x Hx. apply Hiff. apply in_or_app; right. apply in_or_app; right. exact Hx. }
  intros u s1 [Hw1 Hi1]. destruct (hblk h) as [b|] eqn:Hblk; simpl in *.
  - eapply safe_weaken; [apply safe_free; [assumption|]|].
    + apply Hi1. split; [apply Hiff; apply in_or_app; right; left; reflexivity | intro Hx; eapply Hdv; [left; reflexivity | exact Hx]].
    + intros u2 s2 [Hw2 [_ Hi2]]. split; auto. intro x; rewrite Hi2, Hi1, Hiff, in_app_iff. simpl. split.
      * intros [[[Hx|[Hx|Hx]] Hno] Hne]; [assumption | exfalso; apply Hne; auto | contradiction].
      * intro Hx. split; [split; [left; assumption|]|].
        -- intro Hn. eapply Hde; [exact Hx | right; exact Hn].
        -- intro; subst x. eapply Hde; [exact Hx | left; reflexivity].
  - exists tt, s1; split; [reflexivity|]. split; auto. intro x; rewrite Hi1, Hiff, in_app_iff. simpl. split.
    + intros [[Hx|Hx] Hno]; [assumption | contradiction].
    + intro Hx. split; [left; assumption|]. intro Hn. eapply Hde; [exact Hx | exact Hn].
Qed.

Section Insert.
  Variable hf : nat -> nat.

  (* linking a freshly allocated node into the table *)
  Lemma safe_insert_new : forall strict h s0 s n,
    HInv h s0 -> FInv hf h -> (0 < halloc h)%nat ->
    nhash n = hf (nkey n) -> (forall e, In e (all_nodes h) -> nkey e <> nkey n) ->
    wf s -> NoDup (nblocks n) -> (forall x, In x (nblocks n) -> ~ In x (ids s0)) ->
    (forall x, In x (ids s) <-> In x (nblocks n) \/ In x (ids s0)) ->
    safe (table_insert HFixed strict h n) s (fun h' s' =>
      s' = s /\ HInv h' s /\ FInv hf h' /\ Permutation (all_nodes h') (n :: all_nodes h) /\
      halloc h' = halloc h /\ hblk h' = hblk h /\ hcount h' = hcount h).
  Proof.
    intros strict h s0 s n HI [HG [Hd Hc]] Hpos Hh Hnew Hw Hnb Hfresh Hids; unfold table_insert.
    pose proof HI as [Hw0 [Hnd0 [Hiff0 Hv0]]].
    assert (HT : TInv hf h [n] s 0 0).
    { split; [|split; [|split]].
      - unfold HInvP, hownedP in *. simpl in *. unfold nodes_blocks in *. simpl.
        split; [assumption|]. split; [|split; [|assumption]].
        + destruct (NoDup_app_inv _ _ Hnd0) as [Hv [Hb Hdv]].
          apply NoDup_app_intro; [assumption | | ].
          * apply NoDup_app_intro; [assumption | assumption |].
            intros x Hx Hin. eapply Hfresh; eauto. apply Hiff0. apply in_or_app; right; assumption.
          * intros x Hx Hin. apply in_app_or in Hin. destruct Hin as [Hin|Hin]; [|eapply Hdv; eauto].
            eapply Hfresh; eauto. apply Hiff0. apply in_or_app; left; assumption.
        + intro x; rewrite Hids, Hiff0, !in_app_iff. tauto.
      - exact HG.
      - unfold distinct in *. simpl. constructor; [|assumption].
        intro Hin. apply in_map_iff in Hin. destruct Hin as [e [He Hine]]. eapply Hnew; eauto.
      - intros x [Hx|Hx]; [subst; assumption | apply Hc; assumption]. }
    assert (Hi : (bucket_of (nhash n) (halloc h) < halloc h)%nat) by (unfold bucket_of; apply Nat.mod_upper_bound; lia).
    pose proof HT as [HIP _].
    apply safe_bind. eapply safe_weaken; [eapply safe_bucket_access; [exact HIP | exact Hi]|].
    intros u s1 Hs1; simpl in Hs1; subst s1. apply safe_ret.
    pose proof (TInv_insert hf strict h n [] s 0 0 HT Hpos) as [HI' [HG' [Hd' Hc']]]. cbv zeta in *.
    split; [reflexivity|]. split; [exact HI'|]. split; [split; [exact HG' | split; [exact Hd' | exact Hc']]|].
    split; [apply set_bucket_insert_perm; exact Hi|].
    unfold halloc, set_bucket; simpl. rewrite length_upd'. auto.
  Qed.
End Insert.

(* ---------------------------------------------------------------- the vnacal_new parameter hash *)
Definition idf (k : nat) : nat := k.

Definition PHInv (h : htab) (s : astate) : Prop := HInv h s /\ FInv idf h /\ (0 < halloc h)%nat.

Lemma HInv_count : forall h s c, HInv h s -> HInv (mkH (hblk h) c (hbuckets h)) s.
Proof. intros h s c H; exact H. Qed.

Lemma FInv_count : forall hf h c, FInv hf h -> FInv hf (mkH (hblk h) c (hbuckets h)).
Proof. intros hf h c H; exact H. Qed.

Lemma ph_new_alloc_gt : forall old, (old < ph_new_alloc old)%nat.
Proof. intro old; unfold ph_new_alloc, INITIAL_HASH_SIZE. lia. Qed.

Lemma perm_keys : forall (a b : list node), Permutation a b -> forall x, In x (map nkey a) <-> In x (map nkey b).
Proof.
  intros a b Hp x; split; intro H.
  - eapply Permutation_in; [apply Permutation_map; exact Hp | exact H].
  - eapply Permutation_in; [apply Permutation_map; apply Permutation_sym; exact Hp | exact H].
Qed.

Lemma safe_ph_get : forall h s p, PHInv h s ->
  safe (ph_get HFixed h p) s (fun r s' =>
    PHInv (fst r) s' /\
    match snd r with
    | Done => 0 <= p /\ forall x, In x (all_keys (fst r)) <-> x = Z.to_nat p \/ In x (all_keys h)
    | _ => forall x, In x (all_keys (fst r)) <-> In x (all_keys h)
    end).
Proof.
  intros h s p [HI [HF Hpos]]; unfold ph_get.
  destruct (Z.ltb_spec p 0); [apply safe_ret; cbn [fst snd]; split; [split; auto | tauto]|].
  set (k := Z.to_nat p).
  apply safe_bind. eapply safe_weaken; [apply (safe_table_lookup idf h s k HI HF Hpos)|].
  intros f s0 [Hs0 Hf]; subst s0. destruct f as [n|].
  - apply safe_ret; cbn [fst snd]. split; [split; auto|]. split; [assumption|].
    destruct Hf as [Hin Hk]. intro x; split; [auto | intros [Hx|Hx]; auto]. subst x. unfold all_keys. rewrite <- Hk. apply in_map; assumption.
  - pose proof HI as [Hw _].
    apply safe_bind. eapply safe_weaken; [apply safe_malloc; assumption|].
    intros [b|] s1 [Hw1 H1].
    + destruct H1 as [Hb [Hnb [Hids1 _]]].
      apply safe_bind. unfold ph_insert.
      apply safe_bind. eapply safe_weaken; [apply (safe_insert_new idf true h s s1 (mkN k k [b])); auto|].
      * simpl. repeat constructor; simpl; tauto.
      * simpl. intros x [Hx|[]]; subst; assumption.
      * intro x; rewrite Hids1; simpl; tauto.
      * intros h1 s2 [Hs2 [HI1 [HF1 [Hp1 [Ha1 [Hb1 Hc1]]]]]]. subst s2.
        set (h2 := mkH (hblk h1) (S (hcount h1)) (hbuckets h1)).
        assert (HI2 : HInv h2 s1) by exact HI1. assert (HF2 : FInv idf h2) by exact HF1.
        assert (Hk2 : forall x, In x (all_keys h2) <-> x = k \/ In x (all_keys h)).
        { intro x. unfold all_keys. change (all_nodes h2) with (all_nodes h1). rewrite (perm_keys _ _ Hp1). simpl. intuition. }
        destruct (halloc h2 <=? hcount h2)%nat.
        -- apply safe_bind. eapply safe_weaken; [apply (safe_expand idf true h2 s1 _ HI2 HF2 (ph_new_alloc_gt _))|].
           intros [ok h3] s3 [HI3 [HF3 [Hc3 [Hp3 [Hok Hfail]]]]]; cbn [fst snd] in *.
           apply safe_ret. apply safe_ret; cbn [fst snd].
           split; [split; [exact HI3 | split; [exact HF3|]]|].
           ++ destruct ok; [rewrite (Hok eq_refl); pose proof (ph_new_alloc_gt (halloc h2)); lia | rewrite (Hfail eq_refl); unfold halloc, h2; simpl; fold (halloc h1); lia].
           ++ split; [assumption|]. intro x. unfold all_keys. rewrite (perm_keys _ _ Hp3). apply Hk2.
        -- apply safe_ret. apply safe_ret; cbn [fst snd].
           split; [split; [exact HI2 | split; [exact HF2 | unfold halloc, h2; simpl; fold (halloc h1); lia]]|].
           split; [assumption | exact Hk2].
    + destruct H1 as [Hids1 _]. apply safe_ret; cbn [fst snd].
      split; [split; [eapply HInvP_ids_eq; eauto; intro x; rewrite Hids1; tauto | auto] | tauto].
Qed.
