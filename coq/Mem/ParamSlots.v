(* Pointer-level model, as coded, of the vnacal parameter-slot allocator (src/vnacal_parameter.c):
   _vnacal_alloc_parameter (first_free scan, growth 3 / 8 / doubling), the removal of a parameter
   from the table (_vnacal_free_parameter for a scalar parameter) and
   _vnacal_teardown_parameter_collection.  [Fixed] = current tree (D11 repaired: first_free is
   restored when the malloc of the parameter fails); [Orig] = as first read.  No proofs here. *)
Require Import List ZArith Bool Arith Lia.
Import ListNotations.
Require Import LV.Mem.Alloc LV.Mem.PropList.
Open Scope Z_scope.

Record pcoll := mkP {
  pvec : option block_id;          (* vprmc_vector *)
  pcount : nat;                    (* vprmc_count *)
  pfirst : nat;                    (* vprmc_first_free *)
  slots : list (option block_id)   (* vprmc_vector[0 .. vprmc_allocation) *)
}.
Definition palloc (c : pcoll) : nat := length (slots c).

(* while (vector[parameter] != NULL) ++parameter;   None = the read left the allocation *)
Fixpoint scan (fuel : nat) (i : nat) (sl : list (option block_id)) : option nat :=
  match fuel with
  | O => None
  | S f => match nth_error sl i with
           | None => None
           | Some None => Some i
           | Some (Some _) => scan f (S i) sl
           end
  end.

Definition new_allocation (old : nat) : nat :=
  if (old <? 3)%nat then 3%nat else if (old <? 8)%nat then 8%nat else (2 * old)%nat.

(* result: Some index, or None for the NULL return (errno ENOMEM) *)
Definition alloc_parameter (v : variant) (c : pcoll) : M (pcoll * option nat) :=
  r <- (if (pcount c <? palloc c)%nat then
          match scan (S (palloc c)) (pfirst c) (slots c) with
          | None => fail OOB
          | Some i => ret (Some (mkP (pvec c) (pcount c) (S i) (slots c), i))
          end
        else
          (b <- realloc (pvec c) (Z.of_nat (new_allocation (palloc c)) * 8) ;;
           match b with
           | None => ret None
           | Some nb => ret (Some (mkP (Some nb) (pcount c) (pfirst c)
                                       (slots c ++ repeat None (new_allocation (palloc c) - palloc c)), pcount c))
           end)) ;;
  match r with
  | None => ret (c, None)
  | Some (c1, parameter) =>
      m <- malloc 96 ;;
      match m with
      | None =>
          match v with
          | Fixed => ret (mkP (pvec c1) (pcount c1) (Nat.min (pfirst c1) parameter) (slots c1), None)
          | Orig => ret (c1, None)
          end
      | Some p =>
          touch (pvec c1) ;;;
          check_range (Z.of_nat parameter) 1 (Z.of_nat (palloc c1)) ;;;
          ret (mkP (pvec c1) (S (pcount c1)) (pfirst c1) (upd (slots c1) parameter (Some p)), Some parameter)
      end
  end.

(* vnacal_delete_parameter of a scalar parameter: look-up (bounds, NULL) then _vnacal_free_parameter *)
Definition delete_parameter (c : pcoll) (index : Z) : M (pcoll * outcome) :=
  if index <? 0 then ret (c, Err EINVAL)              (* D61: negative handles are refused *)
  else if index <? 3 then ret (c, Done)
  else if Z.of_nat (palloc c) <=? index then ret (c, Err EINVAL)
  else match nth (Z.to_nat index) (slots c) None with
       | None => ret (c, Err EINVAL)
       | Some p =>
           touch (pvec c) ;;;
           free (Some p) ;;;
           ret (mkP (pvec c) (pred (pcount c)) (Nat.min (pfirst c) (Z.to_nat index))
                    (upd (slots c) (Z.to_nat index) None), Done)
       end.

Fixpoint free_slots (l : list (option block_id)) : M unit :=
  match l with
  | [] => ret tt
  | p :: t => free p ;;; free_slots t
  end.
Definition teardown (c : pcoll) : M unit := free_slots (slots c) ;;; free (pvec c).

Inductive pop := PAlloc | PDelete (i : Z).

Definition pstep (v : variant) (c : pcoll) (op : pop) : M (pcoll * outcome) :=
  match op with
  | PAlloc => r <- alloc_parameter v c ;;
              (let (c', i) := r in match i with Some _ => ret (c', Done) | None => ret (c', Err ENOMEM) end)
  | PDelete i => delete_parameter c i
  end.

Fixpoint prun (v : variant) (c : pcoll) (ops : list pop) : M (pcoll * list outcome) :=
  match ops with
  | [] => ret (c, [])
  | op :: rest => r <- pstep v c op ;;
                  (let (c', o) := r in
                   r2 <- prun v c' rest ;;
                   (let (c'', os) := r2 in ret (c'', o :: os)))
  end.

Definition pempty : pcoll := mkP None 0 0 [].

Definition phistory (v : variant) (ops : list pop) : M (list outcome) :=
  r <- prun v pempty ops ;; (let (c, os) := r in teardown c ;;; ret os).

(* observable: which handles are valid *)
Definition pobserve (c : pcoll) : list bool := map (fun s => match s with Some _ => true | None => false end) (slots c).
