(* Proofs about the z0-mode model (DataZ0.v): the structural invariant ZInv (which of the z0 slots are
   in use in which mode; every allocated frequency row has its z0 vector) through the allocation
   skeleton, then safety of the conversions and setters for every op list, argument and fault point. *)
Require Import List ZArith Bool Arith Lia.
Import ListNotations.
Require Import LV.Mem.Alloc LV.Mem.AllocProofs LV.Mem.PropList LV.Mem.PropListProofs LV.Mem.Owned
               LV.Mem.ParamSlots LV.Mem.ParamProofs LV.Mem.DataAlloc LV.Mem.DataProofs LV.Mem.DataZ0.
Open Scope Z_scope.

(* ---------------------------------------------------------------- partial correctness, state-free post-conditions *)
Definition post {A} (m : M A) (s : astate) (Q : A -> Prop) : Prop := forall a s', m s = Ok (a, s') -> Q a.

Lemma post_ret : forall A (a : A) s (Q : A -> Prop), Q a -> post (ret a) s Q.
Proof. intros A a s Q H b s' He; inversion He; subst; assumption. Qed.

Lemma post_bind : forall A B (m : M A) (f : A -> M B) s (Q1 : A -> Prop) (Q : B -> Prop),
  post m s Q1 -> (forall a s', Q1 a -> post (f a) s' Q) -> post (bind m f) s Q.
Proof.
  intros A B m f s Q1 Q H1 H2 b s' He. unfold bind in He. destruct (m s) as [[a s1]|e] eqn:Hm; [|discriminate].
  eapply H2; [eapply H1; eauto | exact He].
Qed.

Lemma post_any : forall A (m : M A) s, post m s (fun _ => True).
Proof. intros A m s a s' _; exact I. Qed.

Lemma post_weaken : forall A (m : M A) s (Q Q' : A -> Prop), post m s Q -> (forall a, Q a -> Q' a) -> post m s Q'.
Proof. intros A m s Q Q' H Hi a s' He; apply Hi; eapply H; eauto. Qed.

Lemma safe_post : forall A (m : M A) s (Q : A -> astate -> Prop) (P : A -> Prop),
  safe m s Q -> post m s P -> safe m s (fun a s' => Q a s' /\ P a).
Proof. intros A m s Q P [a [s' [He HQ]]] HP. exists a, s'; split; auto. split; auto. eapply HP; eauto. Qed.

(* ---------------------------------------------------------------- slots *)
Lemma slot_set_same : forall d i c, (i < length (tbl d))%nat -> slot (set_slot d i c) i = c.
Proof. intros; unfold slot, set_slot, set_tbl; simpl. apply nth_upd_same; assumption. Qed.

Lemma slot_set_other : forall d i j c, i <> j -> slot (set_slot d i c) j = slot d j.
Proof. intros; unfold slot, set_slot, set_tbl; simpl. apply nth_upd_other; assumption. Qed.

Lemma same_shape_set_slot : forall d i c, same_shape d (set_slot d i c).
Proof. intros; unfold same_shape, set_slot, set_tbl; simpl. rewrite length_upd. tauto. Qed.

Lemma post_realloc_slot : forall d i sz s,
  post (realloc_slot d i sz) s (fun r => (fst r = true -> exists b, snd r = set_slot d i (Some b)) /\ (fst r = false -> snd r = d)).
Proof.
  intros d i sz s; unfold realloc_slot. eapply post_bind; [apply post_any|].
  intros [b|] s' _; apply post_ret; cbn [fst snd]; split; intro H; try discriminate H; auto. exists b; reflexivity.
Qed.

Definition row_post (d : vdata) (row : nat -> nat) (idx : list nat) (r : bool * vdata) : Prop :=
  let d' := snd r in
  same_shape d d' /\
  (forall j, (forall i, In i idx -> j <> row i) -> slot d' j = slot d j) /\
  (forall j, slot d j <> None -> slot d' j <> None) /\
  (fst r = true -> forall i, In i idx -> slot d' (row i) <> None).

Lemma post_realloc_rows : forall arr cap row sz idx d s,
  (forall i, In i idx -> (row i < length (tbl d))%nat) ->
  post (realloc_rows d arr cap row sz idx) s (row_post d row idx).
Proof.
  intros arr cap row sz idx; induction idx as [|i rest IH]; intros d s Hlen; simpl.
  - apply post_ret. unfold row_post; simpl. split; [apply same_shape_refl | repeat split; auto; try (intros _ k [])].
  - eapply post_bind; [apply post_any|]. intros _ s1 _.
    eapply post_bind; [apply post_realloc_slot|]. intros [ok d1] s2 [Hok Hfail]; cbn [fst snd] in *.
    destruct ok.
    + destruct (Hok eq_refl) as [b Hd1]. subst d1.
      assert (Hi : (row i < length (tbl d))%nat) by (apply Hlen; left; reflexivity).
      eapply post_weaken; [apply IH|].
      * intros k Hk. pose proof (same_shape_set_slot d (row i) (Some b)) as [_ [_ [_ [_ [_ [_ Hl]]]]]]. rewrite Hl. apply Hlen; right; assumption.
      * intros [ok2 d2] [Hsh [Hoth [Hmono Hall]]]; unfold row_post; cbn [fst snd] in *.
        split; [eapply same_shape_trans; [apply same_shape_set_slot | exact Hsh]|].
        split; [|split].
        -- intros j Hj. rewrite Hoth by (intros k Hk; apply Hj; right; assumption).
           apply slot_set_other. intro He; apply (Hj i); [left; reflexivity | symmetry; assumption].
        -- intros j Hj. apply Hmono. destruct (Nat.eq_dec (row i) j) as [He|Hne].
           ++ subst j. rewrite slot_set_same by assumption. discriminate.
           ++ rewrite slot_set_other by assumption. assumption.
        -- intros Ht k [Hk|Hk].
           ++ subst k. apply Hmono. rewrite slot_set_same by assumption. discriminate.
           ++ apply Hall; assumption.
    + rewrite (Hfail eq_refl). apply post_ret. unfold row_post; cbn [fst snd].
      split; [apply same_shape_refl|]. split; auto. split; auto. discriminate.
Qed.

(* ---------------------------------------------------------------- the structural invariant *)
Definition ZInv (d : vdata) : Prop :=
  length (tbl d) = (5 + 2 * fal d)%nat /\
  (perf d = false -> slot d S_ZVV = None /\ (forall i, (i < fal d)%nat -> slot d (zrow i) = None) /\
                     ((0 < pal d)%nat -> slot d S_Z0 <> None)) /\
  (perf d = true -> slot d S_Z0 = None /\ ((0 < pal d)%nat -> forall i, (i < fal d)%nat -> slot d (zrow i) <> None)).

Definition grown (d d' : vdata) : Prop :=
  perf d' = perf d /\ (pal d <= pal d')%nat /\ (fal d <= fal d')%nat.

Lemma grown_refl : forall d, grown d d.
Proof. intro d; unfold grown; auto. Qed.

Lemma grown_trans : forall a b c, grown a b -> grown b c -> grown a c.
Proof. unfold grown; intros a b c [A1 [A2 A3]] [B1 [B2 B3]]. split; [congruence | lia]. Qed.

Lemma zrow_inj : forall i j, zrow i = zrow j -> i = j.
Proof. unfold zrow; intros; lia. Qed.

Lemma zinv_extend_p : forall d new s, ZInv d ->
  post (extend_p d new) s (fun r => ZInv (snd r) /\ grown d (snd r) /\ fal (snd r) = fal d /\ (fst r = true -> (new <= pal (snd r))%nat)).
Proof.
  intros d new s HZ; unfold extend_p. pose proof HZ as [Hl [Hf Ht]].
  destruct (Nat.leb_spec new (pal d)).
  { apply post_ret; cbn [fst snd]. split; [assumption | split; [apply grown_refl | split; auto]]. }
  destruct (perf d) eqn:Hp.
  - (* per-frequency: one realloc per row *)
    eapply post_bind; [apply (post_realloc_rows S_ZVV (zcap d) zrow)|].
    { intros i Hi. apply in_seq in Hi. unfold zrow. lia. }
    intros [ok d'] s' [Hsh [Hoth [Hmono Hall]]]; cbn [fst snd] in *.
    destruct Hsh as [E1 [E2 [E3 [E4 [E5 [E6 E7]]]]]].
    destruct (Ht eq_refl) as [Hz0 Hrows].
    assert (HZ0' : slot d' S_Z0 = None).
    { rewrite Hoth; auto. intros i _. unfold S_Z0, zrow; lia. }
    destruct ok; apply post_ret; cbn [fst snd perf pal mal fal zcap dcap tbl].
    + split; [|split; [unfold grown; cbn [perf pal fal]; split; [congruence | split; lia] | split; [assumption | intros _; lia]]].
      unfold ZInv, slot in *; cbn [perf pal mal fal zcap dcap tbl]. rewrite E1, E4, E7.
      split; [assumption|]. split; [intro; congruence|]. intros _. split; [assumption|].
      intros _ i Hi. apply Hall; auto. apply in_seq; lia.
    + split; [|split; [unfold grown; split; [congruence | split; lia] | split; [assumption | discriminate]]].
      unfold ZInv. rewrite E1, E4, E7, E2. split; [assumption|]. split; [intro; congruence|]. intros _. split; [assumption|].
      intros Hpos i Hi. apply Hmono. apply Hrows; assumption.
  - (* one vector *)
    eapply post_bind; [apply post_realloc_slot|].
    intros [ok d'] s' [Hok Hfail]; cbn [fst snd] in *.
    destruct (Hf eq_refl) as [Hzvv [Hrows Hz0]].
    destruct ok; apply post_ret; cbn [fst snd].
    + destruct (Hok eq_refl) as [b Hd']. subst d'.
      split; [|split; [unfold grown, set_slot, set_tbl; cbn [perf pal fal]; split; [congruence | split; lia] | split; [reflexivity | intros _; cbn [pal]; lia]]].
      unfold ZInv; cbn [perf pal mal fal zcap dcap tbl]. unfold set_slot, set_tbl; cbn [perf pal mal fal zcap dcap tbl].
      rewrite length_upd. split; [assumption|]. split; [|intro; congruence].
      intros _. unfold slot; cbn [tbl]. split; [|split].
      * rewrite nth_upd_other by (unfold S_Z0, S_ZVV; lia). exact Hzvv.
      * intros i Hi. rewrite nth_upd_other by (unfold S_Z0, zrow; lia). apply Hrows; assumption.
      * intros _. rewrite nth_upd_same by (unfold S_Z0; lia). discriminate.
    + rewrite (Hfail eq_refl). split; [assumption | split; [apply grown_refl | split; [reflexivity | discriminate]]].
Qed.

Lemma drow_zrow : forall i j, drow i <> zrow j.
Proof. unfold drow, zrow; intros; lia. Qed.

Lemma zinv_extend_m : forall d new s, ZInv d ->
  post (extend_m d new) s (fun r => ZInv (snd r) /\ grown d (snd r) /\ fal (snd r) = fal d /\ pal (snd r) = pal d).
Proof.
  intros d new s HZ; unfold extend_m. pose proof HZ as [Hl [Hf Ht]].
  destruct (Nat.leb_spec new (mal d)).
  { apply post_ret; cbn [fst snd]. split; [assumption | split; [apply grown_refl | auto]]. }
  eapply post_bind; [apply (post_realloc_rows S_DVEC (dcap d) drow)|].
  { intros i Hi. apply in_seq in Hi. unfold drow. lia. }
  intros [ok d'] s' [Hsh [Hoth [Hmono Hall]]]; cbn [fst snd] in *.
  destruct Hsh as [E1 [E2 [E3 [E4 [E5 [E6 E7]]]]]].
  assert (HZ' : ZInv d').
  { unfold ZInv. rewrite E1, E2, E4, E7.
    assert (Ho : forall j, (forall i, j <> drow i) -> slot d' j = slot d j) by (intros j Hj; apply Hoth; intros i _; apply Hj).
    rewrite !Ho by (intro i; unfold S_ZVV, S_Z0, drow; lia).
    split; [assumption|]. split.
    - intro Hp. destruct (Hf Hp) as [A [B C]]. split; [assumption | split; [|assumption]].
      intros i Hi. rewrite Ho by (intro k; intro He; symmetry in He; revert He; apply drow_zrow). apply B; assumption.
    - intro Hp. destruct (Ht Hp) as [A B]. split; [assumption|].
      intros Hpos i Hi. rewrite Ho by (intro k; intro He; symmetry in He; revert He; apply drow_zrow). apply B; assumption. }
  destruct ok; apply post_ret; cbn [fst snd perf pal mal fal zcap dcap tbl].
  - split; [|split; [unfold grown; cbn [perf pal fal]; split; [congruence | lia] | split; assumption]].
    destruct HZ' as [A [B C]]. unfold ZInv, slot in *; cbn [perf pal mal fal zcap dcap tbl]. tauto.
  - split; [assumption | split; [unfold grown; split; [congruence | lia] | split; assumption]].
Qed.

(* the loop that adds the row pairs of new frequencies *)
Lemma post_opt_calloc : forall (c : bool) d a i cap sz s,
  post (if c then row_access d a i cap ;;; (m <- malloc sz ;; ret (Some m)) else ret None) s
       (fun z : option (option block_id) => match z with None => c = false | Some _ => c = true end).
Proof.
  intros c d a i cap sz s. destruct c.
  - eapply post_bind; [apply post_any|]. intros _ s1 _.
    eapply post_bind; [apply post_any|]. intros m s2 _. apply post_ret. reflexivity.
  - apply post_ret. reflexivity.
Qed.

Lemma zinv_append : forall d zv dv, ZInv d ->
  (perf d = false -> zv = None) -> (perf d = true -> (0 < pal d)%nat -> zv <> None) ->
  ZInv (mkD (perf d) (pal d) (mal d) (S (fal d)) (zcap d) (dcap d) (tbl d ++ [zv; dv])).
Proof.
  intros d zv dv [Hl [Hf Ht]] Hzf Hzt. unfold ZInv, slot; cbn [perf pal mal fal zcap dcap tbl].
  split; [rewrite app_length; simpl; lia|].
  assert (Hlow : forall j, (j < length (tbl d))%nat -> nth j (tbl d ++ [zv; dv]) None = nth j (tbl d) None)
    by (intros j Hj; apply app_nth1; assumption).
  assert (Hnew : nth (zrow (fal d)) (tbl d ++ [zv; dv]) None = zv).
  { rewrite app_nth2 by (unfold zrow; lia). replace (zrow (fal d) - length (tbl d))%nat with 0%nat by (unfold zrow; lia). reflexivity. }
  split.
  - intro Hp. destruct (Hf Hp) as [A [B C]]. unfold slot in *.
    split; [rewrite Hlow by (unfold S_ZVV; lia); assumption|]. split.
    + intros i Hi. destruct (Nat.eq_dec i (fal d)) as [He|Hne].
      * subst i. rewrite Hnew. apply Hzf; assumption.
      * rewrite Hlow by (unfold zrow; lia). apply B; lia.
    + intro Hpos. rewrite Hlow by (unfold S_Z0; lia). apply C; assumption.
  - intro Hp. destruct (Ht Hp) as [A B]. unfold slot in *.
    split; [rewrite Hlow by (unfold S_Z0; lia); assumption|].
    intros Hpos i Hi. destruct (Nat.eq_dec i (fal d)) as [He|Hne].
    + subst i. rewrite Hnew. apply Hzt; assumption.
    + rewrite Hlow by (unfold zrow; lia). apply B; auto; lia.
Qed.

Lemma zinv_add_rows : forall n d s, ZInv d ->
  post (add_rows Fixed d n) s (fun r => ZInv (snd r) /\ grown d (snd r) /\ pal (snd r) = pal d /\ (fst r = true -> fal (snd r) = (fal d + n)%nat)).
Proof.
  induction n as [|n IH]; intros d s HZ; simpl.
  { apply post_ret; cbn [fst snd]. split; [assumption | split; [apply grown_refl | split; [reflexivity | intros _; lia]]]. }
  assert (Hfail : forall s0, post (ret (false, d)) s0
            (fun r : bool * vdata => ZInv (snd r) /\ grown d (snd r) /\ pal (snd r) = pal d /\ (fst r = true -> fal (snd r) = (fal d + S n)%nat))).
  { intro s0. apply post_ret; cbn [fst snd]. split; [assumption | split; [apply grown_refl | split; [reflexivity | discriminate]]]. }
  assert (Hstep : forall zv dv s0, (perf d = false -> zv = None) -> (perf d = true -> (0 < pal d)%nat -> zv <> None) ->
            post (add_rows Fixed (mkD (perf d) (pal d) (mal d) (S (fal d)) (zcap d) (dcap d) (tbl d ++ [zv; dv])) n) s0
              (fun r : bool * vdata => ZInv (snd r) /\ grown d (snd r) /\ pal (snd r) = pal d /\ (fst r = true -> fal (snd r) = (fal d + S n)%nat))).
  { intros zv dv s0 H1 H2. eapply post_weaken; [apply IH; apply zinv_append; assumption|].
    intros [ok d2] [HZ2 [Hg [Hp Hfa]]]; cbn [fst snd perf pal mal fal zcap dcap tbl] in *.
    split; [assumption|]. split; [|split; [assumption | intros Ht; rewrite (Hfa Ht); lia]].
    destruct Hg as [G1 [G2 G3]]; cbn [perf pal fal] in *. unfold grown; split; [assumption | lia]. }
  eapply post_bind; [apply post_opt_calloc|]. intros z s1 Hz.
  destruct z as [[zb|]|]; try apply Hfail.
  - apply andb_true_iff in Hz. destruct Hz as [Hp Hpal].
    eapply post_bind; [apply post_any|]. intros dd s2 _.
    destruct dd as [[db|]|].
    + apply Hstep; [intro; congruence | intros _ _; discriminate].
    + eapply post_bind; [apply post_any|]. intros u s3 _. apply Hfail.
    + apply Hstep; [intro; congruence | intros _ _; discriminate].
  - eapply post_bind; [apply post_any|]. intros dd s2 _.
    assert (Hnz : perf d = true -> (0 < pal d)%nat -> (None : option block_id) <> None).
    { intros Hp Hpos. rewrite Hp in Hz. simpl in Hz. apply negb_false_iff in Hz. apply Nat.eqb_eq in Hz. lia. }
    destruct dd as [[db|]|].
    + apply Hstep; auto.
    + eapply post_bind; [apply post_any|]. intros u s3 _. apply Hfail.
    + apply Hstep; auto.
Qed.

(* changing only the recorded capacities *)
Lemma zinv_caps : forall d zc dc, ZInv d -> ZInv (mkD (perf d) (pal d) (mal d) (fal d) zc dc (tbl d)).
Proof. intros d zc dc H; exact H. Qed.

Lemma zinv_set_other : forall d i b, ZInv d -> (i = S_FVEC \/ i = S_DVEC \/ (i = S_ZVV /\ perf d = true)) ->
  ZInv (set_slot d i (Some b)).
Proof.
  intros d i b [Hl [Hf Ht]] Hi. unfold ZInv. unfold set_slot at 1 2 3 4 5 6, set_tbl; cbn [perf pal mal fal zcap dcap tbl].
  rewrite length_upd. split; [assumption|].
  assert (Ho : forall j, j <> i -> slot (set_slot d i (Some b)) j = slot d j) by (intros; apply slot_set_other; auto).
  split.
  - intro Hp. destruct (Hf Hp) as [A [B C]].
    assert (Hi' : i = S_FVEC \/ i = S_DVEC) by (destruct Hi as [H|[H|[_ H]]]; [auto | auto | congruence]).
    rewrite !Ho by (unfold S_ZVV, S_Z0, S_FVEC, S_DVEC in *; lia).
    split; [assumption | split; [|assumption]].
    intros k Hk. rewrite Ho by (unfold zrow, S_FVEC, S_DVEC in *; lia). apply B; assumption.
  - intro Hp. destruct (Ht Hp) as [A B].
    rewrite Ho by (unfold S_ZVV, S_Z0, S_FVEC, S_DVEC in *; lia).
    split; [assumption|]. intros Hpos k Hk. rewrite Ho by (unfold zrow, S_ZVV, S_FVEC, S_DVEC in *; lia). apply B; assumption.
Qed.

Lemma zinv_extend_f : forall d new s, ZInv d ->
  post (extend_f Fixed d new) s (fun r => ZInv (snd r) /\ grown d (snd r) /\ pal (snd r) = pal d /\ (fst r = true -> (new <= fal (snd r))%nat)).
Proof.
  intros d new s HZ; unfold extend_f.
  destruct (Nat.leb_spec new (fal d)).
  { apply post_ret; cbn [fst snd]. split; [assumption | split; [apply grown_refl | split; [reflexivity | intros _; lia]]]. }
  assert (Hstop : forall d' s0, ZInv d' -> grown d d' -> pal d' = pal d ->
            post (ret (false, d')) s0 (fun r : bool * vdata => ZInv (snd r) /\ grown d (snd r) /\ pal (snd r) = pal d /\ (fst r = true -> (new <= fal (snd r))%nat))).
  { intros d' s0 H1 H2 H3. apply post_ret; cbn [fst snd]. split; [assumption | split; [assumption | split; [assumption | discriminate]]]. }
  eapply post_bind; [apply post_realloc_slot|]. intros [ok1 d1] s1 [Hok1 Hf1]; cbn [fst snd] in *.
  destruct ok1; cbn [negb]; [|rewrite (Hf1 eq_refl); apply Hstop; [assumption | apply grown_refl | reflexivity]].
  destruct (Hok1 eq_refl) as [b1 Hd1]. subst d1.
  assert (HZ1 : ZInv (set_slot d S_FVEC (Some b1))) by (apply zinv_set_other; auto).
  set (d1 := set_slot d S_FVEC (Some b1)) in *.
  assert (G1 : grown d d1 /\ pal d1 = pal d /\ fal d1 = fal d) by (unfold d1, grown, set_slot, set_tbl; simpl; repeat split; lia).
  eapply post_bind.
  { instantiate (1 := fun r : bool * vdata => ZInv (snd r) /\ perf (snd r) = perf d /\ pal (snd r) = pal d /\ fal (snd r) = fal d).
    destruct (perf d1) eqn:Hp1.
    - eapply post_bind; [apply post_realloc_slot|]. intros [ok d'] s' [Hok Hf]; cbn [fst snd] in *.
      apply post_ret; cbn [fst snd]. destruct ok.
      + destruct (Hok eq_refl) as [b Hd']. subst d'.
        split; [apply zinv_caps; apply zinv_set_other; auto|].
        cbn [perf pal fal]. unfold d1, set_slot, set_tbl; simpl. auto.
      + rewrite (Hf eq_refl). split; [assumption|]. unfold d1, set_slot, set_tbl; simpl. auto.
    - apply post_ret; cbn [fst snd]. split; [assumption|]. unfold d1, set_slot, set_tbl; simpl. auto. }
  intros [ok2 d2] s2 [HZ2 [P2 [A2 F2]]]; cbn [fst snd] in *.
  assert (G2 : grown d d2) by (unfold grown; split; [assumption | lia]).
  destruct ok2; cbn [negb]; [|apply Hstop; assumption].
  eapply post_bind; [apply post_realloc_slot|]. intros [ok3 d3] s3 [Hok3 Hf3]; cbn [fst snd] in *.
  destruct ok3; cbn [negb]; [|rewrite (Hf3 eq_refl); apply Hstop; assumption].
  destruct (Hok3 eq_refl) as [b3 Hd3]. subst d3.
  eapply post_weaken; [apply zinv_add_rows; apply zinv_caps; apply zinv_set_other; auto|].
  intros [ok d4] [HZ4 [[G41 [G42 G43]] [P4 F4]]]; cbn [fst snd perf pal mal fal zcap dcap tbl] in *.
  unfold set_slot, set_tbl in *; cbn [perf pal mal fal zcap dcap tbl] in *.
  split; [assumption|]. split; [unfold grown; split; [congruence | lia]|]. split; [congruence|].
  intros Ht. rewrite (F4 Ht). lia.
Qed.

Lemma zinv_resize : forall d p m f s, ZInv d ->
  post (resize Fixed d p m f) s (fun r => ZInv (fst r) /\ grown d (fst r) /\
     (snd r = Done -> 0 <= p /\ 0 <= f /\ (Z.to_nat p <= pal (fst r))%nat /\ (Z.to_nat f <= fal (fst r))%nat)).
Proof.
  intros d p m f s HZ; unfold resize.
  destruct ((p <? 0) || (m <? 0) || (f <? 0)) eqn:Hneg.
  { apply post_ret; cbn [fst snd]. split; [assumption | split; [apply grown_refl | discriminate]]. }
  apply orb_false_iff in Hneg. destruct Hneg as [Hneg Hf0]. apply orb_false_iff in Hneg. destruct Hneg as [Hp0 Hm0].
  apply Z.ltb_ge in Hp0. apply Z.ltb_ge in Hf0.
  eapply post_bind; [apply zinv_extend_p; assumption|].
  intros [ok1 d1] s1 [HZ1 [G1 [F1 L1]]]; cbn [fst snd] in *.
  destruct ok1; cbn [negb]; [|apply post_ret; cbn [fst snd]; split; [assumption | split; [assumption | discriminate]]].
  eapply post_bind; [apply zinv_extend_m; assumption|].
  intros [ok2 d2] s2 [HZ2 [G2 [F2 P2]]]; cbn [fst snd] in *.
  assert (G12 : grown d d2) by (eapply grown_trans; eauto).
  destruct ok2; cbn [negb]; [|apply post_ret; cbn [fst snd]; split; [assumption | split; [assumption | discriminate]]].
  eapply post_bind; [apply zinv_extend_f; assumption|].
  intros [ok3 d3] s3 [HZ3 [G3 [P3 L3]]]; cbn [fst snd] in *.
  assert (G13 : grown d d3) by (eapply grown_trans; eauto).
  destruct ok3; cbn [negb]; apply post_ret; cbn [fst snd]; (split; [assumption | split; [assumption|]]); [|discriminate].
  intros _. specialize (L1 eq_refl). specialize (L3 eq_refl). repeat split; auto; lia.
Qed.

(* ---------------------------------------------------------------- ledger reasoning with a frame: the blocks F
   (the copy of the caller's vector) are live beside the blocks of the table *)
Definition xt (F : list (option block_id)) (d : vdata) : vdata := set_tbl d (tbl d ++ F).
Definition corex (F : list (option block_id)) (d : vdata) (s : astate) : Prop := core (xt F d) s.

Lemma upd_app : forall A (l F : list A) i c, (i < length l)%nat -> upd (l ++ F) i c = upd l i c ++ F.
Proof. induction l; destruct i; simpl; intros; try lia; auto. rewrite IHl by lia. reflexivity. Qed.

Lemma slot_xt : forall F d j, (j < length (tbl d))%nat -> slot (xt F d) j = slot d j.
Proof. intros; unfold slot, xt, set_tbl; simpl. apply app_nth1; assumption. Qed.

Lemma corex_nil : forall d s, corex [] d s <-> core d s.
Proof. intros; unfold corex, xt, core, set_tbl; simpl. rewrite app_nil_r. tauto. Qed.

Lemma corex_fields : forall F d s p zc, corex F (set_perf d p zc) s <-> corex F d s.
Proof. intros; unfold corex, xt, core, set_perf, set_tbl; simpl. tauto. Qed.

Lemma corex_set : forall F d s s2 i c,
  corex F d s -> (i < length (tbl d))%nat -> wf s2 -> NoDup (slotk c) -> (forall x, In x (slotk c) -> ~ In x (ids s)) ->
  (forall x, In x (ids s2) <-> (In x (slotk c) \/ In x (ids s)) /\ ~ In x (slotk (slot d i))) ->
  corex F (set_slot d i c) s2.
Proof.
  intros F d s s2 i c HC Hi Hw Hc Hf Hids. unfold corex in *.
  assert (Hi' : (i < length (tbl (xt F d)))%nat) by (unfold xt, set_tbl; simpl; rewrite app_length; lia).
  pose proof (core_set (xt F d) s s2 i c HC Hi' Hw Hc Hf) as H.
  assert (Hn : nth i (tbl (xt F d)) None = slot d i) by (unfold xt, set_tbl, slot; simpl; apply app_nth1; assumption).
  rewrite Hn in H. specialize (H Hids).
  unfold xt, set_slot, set_tbl in *; simpl in *. rewrite upd_app in H by assumption. exact H.
Qed.

Lemma corex_live : forall F d s i b, corex F d s -> (i < length (tbl d))%nat -> slot d i = Some b -> In b (ids s).
Proof. intros F d s i b HC Hi Hs. eapply (slot_live (xt F d) s i b HC). rewrite slot_xt; assumption. Qed.

Lemma corex_wf : forall F d s, corex F d s -> wf s.
Proof. intros F d s [Hw _]; exact Hw. Qed.

Lemma safe_touch_x : forall F d s i, corex F d s -> (i < length (tbl d))%nat -> slot d i <> None ->
  safe (touch (slot d i)) s (fun _ s' => s' = s).
Proof.
  intros F d s i HC Hi Hs. destruct (slot d i) as [b|] eqn:Hb; [|congruence].
  assert (Hl : is_live b s = true) by (apply is_live_iff; eapply corex_live; eauto).
  exists tt, s; split; auto. unfold touch; rewrite Hl; reflexivity.
Qed.

Lemma safe_check_range : forall lo n cap s, (n = 0 \/ (0 <= lo /\ 0 <= n /\ lo + n <= cap)) ->
  safe (check_range lo n cap) s (fun _ s' => s' = s).
Proof.
  intros lo n cap s H. exists tt, s; split; auto. unfold check_range, range_ok.
  destruct H as [H|[H1 [H2 H3]]].
  - subst n; reflexivity.
  - replace (0 <=? lo) with true by (symmetry; apply Z.leb_le; lia).
    replace (0 <=? n) with true by (symmetry; apply Z.leb_le; lia).
    replace (lo + n <=? cap) with true by (symmetry; apply Z.leb_le; lia).
    rewrite orb_true_r; reflexivity.
Qed.

Lemma safe_row_access_x : forall F d s a i cap, corex F d s -> (a < length (tbl d))%nat -> slot d a <> None -> (i < cap)%nat ->
  safe (row_access d a i cap) s (fun _ s' => s' = s).
Proof.
  intros F d s a i cap HC Ha Hs Hi; unfold row_access.
  apply safe_bind. eapply safe_weaken; [eapply safe_touch_x; eauto|]. intros u1 s1 Hs1; simpl in Hs1; subst s1; clear u1.
  apply safe_check_range. right; lia.
Qed.

(* free of whatever a slot holds, the slot set to NULL *)
Lemma safe_free_slot_x : forall F d s i, corex F d s -> (i < length (tbl d))%nat ->
  safe (free (slot d i)) s (fun _ s' => corex F (set_slot d i None) s').
Proof.
  intros F d s i HC Hi. pose proof (corex_wf _ _ _ HC) as Hw.
  destruct (slot d i) as [b|] eqn:Hb.
  - eapply safe_weaken; [apply safe_free; [assumption | eapply corex_live; eauto]|].
    intros ? s1 [Hw1 [_ Hi1]]. apply (corex_set F d s s1 i None HC Hi Hw1); simpl; [constructor | tauto |].
    intro x; rewrite Hi1, Hb; simpl. intuition.
  - exists tt, s; split; [reflexivity|]. apply (corex_set F d s s i None HC Hi Hw); simpl; [constructor | tauto |].
    intro x; rewrite Hb; simpl; tauto.
Qed.

Definition zrows_post (d : vdata) (idx : list nat) (d' : vdata) : Prop :=
  same_shape d d' /\
  (forall j, (forall i, In i idx -> j <> zrow i) -> slot d' j = slot d j) /\
  (forall j, slot d j = None -> slot d' j = None) /\
  (forall i, In i idx -> slot d' (zrow i) = None).

Lemma safe_free_zrows_x : forall F idx d s, corex F d s -> length (tbl d) = (5 + 2 * fal d)%nat ->
  (idx <> [] -> slot d S_ZVV <> None) -> (forall i, In i idx -> (i < zcap d)%nat /\ (i < fal d)%nat) ->
  safe (free_zrows d idx) s (fun d' s' => corex F d' s' /\ zrows_post d idx d').
Proof.
  intros F idx; induction idx as [|i rest IH]; intros d s HC Hl Hz Hidx; simpl.
  - apply safe_ret. split; [assumption|]. unfold zrows_post. split; [apply same_shape_refl|]. repeat split; auto; try (intros k []).
  - destruct (Hidx i (or_introl eq_refl)) as [Hc Hf].
    assert (Hzi : (zrow i < length (tbl d))%nat) by (unfold zrow; lia).
    apply safe_bind. eapply safe_weaken; [eapply safe_row_access_x; eauto; [unfold S_ZVV; lia | apply Hz; discriminate]|].
    intros u0 s0 Hs0; simpl in Hs0; subst s0; clear u0.
    apply safe_bind. eapply safe_weaken; [eapply safe_free_slot_x; eauto|].
    intros ? s1 HC1.
    set (d1 := set_slot d (zrow i) None) in *.
    pose proof (same_shape_set_slot d (zrow i) None) as Hsh1. fold d1 in Hsh1.
    pose proof Hsh1 as [E1 [E2 [E3 [E4 [E5 [E6 E7]]]]]].
    eapply safe_weaken; [apply IH; [exact HC1 | rewrite E7, E4; assumption | |]|].
    + intros _. unfold d1. rewrite slot_set_other by (unfold zrow, S_ZVV; lia). apply Hz; discriminate.
    + intros k Hk. rewrite E5, E4. apply Hidx; right; assumption.
    + intros d2 s2 [HC2 [Hsh2 [Hoth2 [Hnone2 Hall2]]]]. split; [assumption|]. unfold zrows_post.
      split; [eapply same_shape_trans; eauto|]. split; [|split].
      * intros j Hj. rewrite Hoth2 by (intros k Hk; apply Hj; right; assumption).
        unfold d1. apply slot_set_other. intro He. apply (Hj i); [left; reflexivity | symmetry; assumption].
      * intros j Hj. apply Hnone2. unfold d1. destruct (Nat.eq_dec (zrow i) j) as [He|Hne].
        -- subst j. apply slot_set_same; assumption.
        -- rewrite slot_set_other by assumption. assumption.
      * intros k [Hk|Hk].
        -- subst k. apply Hnone2. unfold d1. apply slot_set_same; assumption.
        -- apply Hall2; assumption.
Qed.

Lemma safe_alloc_zrows_x : forall F todo done d s, corex F d s -> length (tbl d) = (5 + 2 * fal d)%nat ->
  (todo ++ done <> [] -> slot d S_ZVV <> None) -> (forall i, In i (todo ++ done) -> (i < zcap d)%nat /\ (i < fal d)%nat) ->
  NoDup todo -> (forall i, In i todo -> slot d (zrow i) = None) ->
  safe (alloc_zrows d done todo) s (fun r s' =>
    corex F (snd r) s' /\ same_shape d (snd r) /\
    (forall j, (forall i, In i (todo ++ done) -> j <> zrow i) -> slot (snd r) j = slot d j) /\
    (fst r = true -> (forall i, In i todo -> slot (snd r) (zrow i) <> None) /\
                     (forall j, (forall i, In i todo -> j <> zrow i) -> slot (snd r) j = slot d j)) /\
    (fst r = false -> forall i, In i (todo ++ done) -> slot (snd r) (zrow i) = None)).
Proof.
  intros F todo; induction todo as [|i rest IH]; intros done d s HC Hl Hz Hidx Hnd Hnone; simpl.
  - apply safe_ret; cbn [fst snd]. split; [assumption|]. split; [apply same_shape_refl|]. split; [auto|].
    split; [intros _; split; [intros k [] | auto] | discriminate].
  - destruct (Hidx i (or_introl eq_refl)) as [Hc Hf].
    assert (Hzi : (zrow i < length (tbl d))%nat) by (unfold zrow; lia).
    pose proof (corex_wf _ _ _ HC) as Hw.
    apply safe_bind. eapply safe_weaken; [eapply safe_row_access_x; eauto; [unfold S_ZVV; lia | apply Hz; discriminate]|].
    intros u0 s0 Hs0; simpl in Hs0; subst s0; clear u0.
    apply safe_bind. eapply safe_weaken; [apply safe_malloc; assumption|].
    intros [b|] s1 [Hw1 H1].
    + destruct H1 as [Hb [Hnb [Hids1 _]]].
      assert (HC1 : corex F (set_slot d (zrow i) (Some b)) s1).
      { apply (corex_set F d s s1 (zrow i) (Some b) HC Hzi Hw1).
        - simpl; repeat constructor; simpl; tauto.
        - simpl; intros x [Hx|[]]; subst; assumption.
        - intro x. rewrite Hids1, (Hnone i (or_introl eq_refl)); simpl. intuition. }
      set (d1 := set_slot d (zrow i) (Some b)) in *.
      pose proof (same_shape_set_slot d (zrow i) (Some b)) as Hsh1. fold d1 in Hsh1.
      pose proof Hsh1 as [E1 [E2 [E3 [E4 [E5 [E6 E7]]]]]].
      inversion Hnd as [|? ? Hni Hnd']; subst.
      eapply safe_weaken; [apply (IH (i :: done)); [exact HC1 | rewrite E7, E4; assumption | | | assumption |]|].
      * intros _. unfold d1. rewrite slot_set_other by (unfold zrow, S_ZVV; lia). apply Hz; discriminate.
      * intros k Hk. rewrite E5, E4. apply Hidx. apply in_app_or in Hk. simpl. destruct Hk as [Hk|[Hk|Hk]]; auto.
        right; apply in_or_app; auto. right; apply in_or_app; auto.
      * intros k Hk. unfold d1. rewrite slot_set_other by (intro He; apply zrow_inj in He; subst; contradiction).
        apply Hnone; right; assumption.
      * intros [ok d2] s2 [HC2 [Hsh2 [Hoth2 [Hok2 Hfail2]]]]; cbn [fst snd] in *.
        split; [assumption|]. split; [eapply same_shape_trans; eauto|]. split; [|split].
        -- intros j Hj. rewrite Hoth2.
           ++ unfold d1. apply slot_set_other. intro He. apply (Hj i); [left; reflexivity | symmetry; assumption].
           ++ intros k Hk. apply Hj. apply in_app_or in Hk. simpl. destruct Hk as [Hk|[Hk|Hk]]; auto.
              right; apply in_or_app; auto. right; apply in_or_app; auto.
        -- intros Ht. destruct (Hok2 Ht) as [Hall Hothers]. split.
           ++ intros k [Hk|Hk]; [|apply Hall; assumption]. subst k.
              rewrite Hothers by (intros k Hk He; apply zrow_inj in He; subst; contradiction).
              unfold d1. rewrite slot_set_same by assumption. discriminate.
           ++ intros j Hj. rewrite Hothers by (intros k Hk; apply Hj; right; assumption).
              unfold d1. apply slot_set_other. intro He. apply (Hj i); [left; reflexivity | symmetry; assumption].
        -- intros Hfa k Hk. apply (Hfail2 Hfa). apply in_or_app. simpl. destruct Hk as [Hk|Hk]; auto.
           apply in_app_or in Hk. destruct Hk as [Hk|Hk]; auto.
    + (* the calloc failed: release the rows allocated so far *)
      destruct H1 as [Hids1 _].
      assert (HC1 : corex F d s1).
      { unfold corex in *. eapply core_ids_eq; eauto. intro x; rewrite Hids1; tauto. }
      apply safe_bind. eapply safe_weaken; [apply safe_free_zrows_x; [exact HC1 | assumption | |]|].
      * intros _. apply Hz; discriminate.
      * intros k Hk. apply Hidx. right. apply in_or_app; auto.
      * intros d2 s2 [HC2 [Hsh2 [Hoth2 [Hnone2 Hall2]]]]. apply safe_ret; cbn [fst snd].
        split; [assumption|]. split; [assumption|]. split; [|split; [discriminate|]].
        -- intros j Hj. apply Hoth2. intros k Hk. apply Hj. right; apply in_or_app; auto.
        -- intros _ k Hk. simpl in Hk. destruct Hk as [Hk|Hk].
           ++ subst k. apply Hnone2. apply Hnone; left; reflexivity.
           ++ apply in_app_or in Hk. destruct Hk as [Hk|Hk]; [apply Hnone2; apply Hnone; right; assumption | apply Hall2; assumption].
Qed.

(* ---------------------------------------------------------------- the conversions *)
Definition DSh (d : vdata) : Prop :=
  length (tbl d) = (5 + 2 * fal d)%nat /\ (fal d <= dcap d)%nat /\
  (perf d = true -> (fal d <= zcap d)%nat) /\
  ((0 < fal d)%nat -> slot d S_DVEC <> None) /\
  (perf d = true -> (0 < fal d)%nat -> slot d S_ZVV <> None).

Lemma DInv_split : forall d s, DInv d s <-> core d s /\ DSh d.
Proof. intros; unfold DInv, DSh; tauto. Qed.

Lemma slot_set_perf : forall d p zc j, slot (set_perf d p zc) j = slot d j.
Proof. reflexivity. Qed.

Lemma corex_ids_eq : forall F d s s', corex F d s -> wf s' -> (forall x, In x (ids s') <-> In x (ids s)) -> corex F d s'.
Proof. intros F d s s' HC Hw Hi. unfold corex in *. eapply core_ids_eq; eauto. Qed.

Lemma fields_final : forall d2 i c p zc,
  let dF := set_perf (set_slot d2 i c) p zc in
  perf dF = p /\ pal dF = pal d2 /\ fal dF = fal d2 /\ zcap dF = zc /\ dcap dF = dcap d2 /\
  length (tbl dF) = length (tbl d2) /\ (forall j, j <> i -> slot dF j = slot d2 j) /\
  ((i < length (tbl d2))%nat -> slot dF i = c).
Proof.
  intros d2 i c p zc dF. unfold dF, set_perf, set_slot, set_tbl; cbn [perf pal mal fal zcap dcap tbl].
  rewrite length_upd. repeat split; auto.
  - intros j Hj. unfold slot; cbn [tbl]. apply nth_upd_other; auto.
  - intro Hi. unfold slot; cbn [tbl]. apply nth_upd_same; auto.
Qed.

(* an optional request for a fresh block that goes into an empty slot *)
Lemma safe_opt_malloc_slot : forall F d s i (c : bool) sz, corex F d s -> (i < length (tbl d))%nat -> slot d i = None ->
  safe (if c then (m <- malloc sz ;; ret (match m with None => None | Some b => Some (Some b) end)) else ret (Some None)) s
       (fun r s' => match r with
                    | None => c = true /\ corex F d s'
                    | Some vv => corex F (set_slot d i vv) s' /\ (c = true -> vv <> None)
                    end).
Proof.
  intros F d s i c sz HC Hi Hn. pose proof (corex_wf _ _ _ HC) as Hw. destruct c.
  - apply safe_bind. eapply safe_weaken; [apply safe_malloc; assumption|].
    intros [b|] s1 [Hw1 H1]; apply safe_ret.
    + destruct H1 as [Hb [Hnb [Hids1 _]]]. split; [|intros _; discriminate].
      apply (corex_set F d s s1 i (Some b) HC Hi Hw1).
      * simpl; repeat constructor; simpl; tauto.
      * simpl; intros x [Hx|[]]; subst; assumption.
      * intro x. rewrite Hids1, Hn; simpl. intuition.
    + destruct H1 as [Hids1 _]. split; [reflexivity|]. eapply corex_ids_eq; eauto. intro x; rewrite Hids1; tauto.
  - apply safe_ret. split; [|discriminate].
    apply (corex_set F d s s i None HC Hi Hw); simpl; [constructor | tauto |].
    intro x; rewrite Hn; simpl; tauto.
Qed.

Definition conv_post (F : list (option block_id)) (d : vdata) (want : bool) (r : bool * vdata) (s' : astate) : Prop :=
  corex F (snd r) s' /\ DSh (snd r) /\ ZInv (snd r) /\ pal (snd r) = pal d /\ fal (snd r) = fal d /\
  (fst r = true -> perf (snd r) = want) /\ (fst r = false -> snd r = d \/ perf (snd r) = perf d).

Lemma safe_convert_to_fz0 : forall F o s, corex F (od o) s -> DSh (od o) -> ZInv (od o) ->
  safe (convert_to_fz0 ZFixed o) s (conv_post F (od o) true).
Proof.
  intros F o s HC HD HZ; unfold convert_to_fz0. set (d := od o) in *.
  destruct (perf d) eqn:Hp.
  { apply safe_ret. unfold conv_post; cbn [fst snd]. split; [assumption|]. split; [assumption|]. split; [assumption|].
    split; [reflexivity|]. split; [reflexivity|]. split; [intros _; assumption | discriminate]. }
  pose proof HD as [Hl [Hdc [Hzc [Hdv Hzv]]]]. pose proof HZ as [_ [Hf _]]. destruct (Hf Hp) as [Hzvv [Hrows Hz0]].
  apply safe_bind. eapply safe_weaken; [apply (safe_opt_malloc_slot F d s S_ZVV); [assumption | unfold S_ZVV; lia | assumption]|].
  intros [vv|] s1 H1.
  2:{ destruct H1 as [_ HC1]. apply safe_ret. unfold conv_post; cbn [fst snd]. split; [assumption|]. split; [assumption|]. split; [assumption|].
      split; [reflexivity|]. split; [reflexivity|]. split; [discriminate | intros _; left; reflexivity]. }
  destruct H1 as [HC1 Hvv].
  set (d1 := set_perf (set_slot d S_ZVV vv) false (fal d)).
  assert (HC1' : corex F d1 s1) by (apply corex_fields; assumption).
  assert (Hsh1 : same_shape d (set_slot d S_ZVV vv)) by apply same_shape_set_slot.
  assert (Hl1 : length (tbl d1) = (5 + 2 * fal d1)%nat).
  { unfold d1, set_perf, set_slot, set_tbl; simpl. rewrite length_upd. assumption. }
  assert (Hs1 : forall j, j <> S_ZVV -> slot d1 j = slot d j).
  { intros j Hj. unfold d1. rewrite slot_set_perf. apply slot_set_other. auto. }
  assert (Hs1z : slot d1 S_ZVV = vv).
  { unfold d1. rewrite slot_set_perf. apply slot_set_same. unfold S_ZVV; lia. }
  apply safe_bind.
  apply (safe_weaken _ _ _ (fun r s' => corex F (snd r) s' /\ same_shape d1 (snd r) /\
            (forall j, (forall i, (i < fal d)%nat -> j <> zrow i) -> slot (snd r) j = slot d1 j) /\
            (fst r = true -> (0 < pal d)%nat -> forall i, (i < fal d)%nat -> slot (snd r) (zrow i) <> None) /\
            (fst r = false -> forall i, (i < fal d)%nat -> slot (snd r) (zrow i) = None))).
  { destruct (Nat.ltb_spec 0 (pal d)) as [Hpos|Hzero].
    - eapply safe_weaken; [apply (safe_alloc_zrows_x F (seq 0 (fal d)) [] d1 s1); auto|].
      + rewrite app_nil_r. intro Hne. rewrite Hs1z. apply Hvv. apply Nat.ltb_lt.
        destruct (fal d); [simpl in Hne; congruence | lia].
      + intros i Hi. rewrite app_nil_r in Hi. apply in_seq in Hi. unfold d1; simpl. lia.
      + apply seq_NoDup.
      + intros i Hi. apply in_seq in Hi. rewrite Hs1 by (unfold zrow, S_ZVV; lia). apply Hrows; lia.
      + intros [ok d2] s2 [HC2 [Hsh2 [Hoth2 [Hok2 Hfail2]]]]; cbn [fst snd] in *.
        split; [assumption|]. split; [assumption|]. split; [|split].
        * intros j Hj. apply Hoth2. intros i Hi. rewrite app_nil_r in Hi. apply in_seq in Hi. apply Hj; lia.
        * intros Ht _ i Hi. destruct (Hok2 Ht) as [Hall _]. apply Hall. apply in_seq; lia.
        * intros Hfa i Hi. apply (Hfail2 Hfa). rewrite app_nil_r. apply in_seq; lia.
    - apply safe_ret; cbn [fst snd]. split; [assumption|]. split; [apply same_shape_refl|]. split; [auto|].
      split; [intros _ Hpos; lia | discriminate]. }
  intros [ok d2] s2 [HC2 [Hsh2 [Hoth2 [Hok2 Hfail2]]]]; cbn [fst snd] in *.
  pose proof Hsh2 as [E1 [E2 [E3 [E4 [E5 [E6 E7]]]]]].
  assert (Hfal1 : fal d1 = fal d) by reflexivity. assert (Hpal1 : pal d1 = pal d) by reflexivity.
  assert (Hl2 : length (tbl d2) = (5 + 2 * fal d)%nat) by (rewrite E7, Hl1; reflexivity).
  assert (Hlow : forall j, (j < 5)%nat -> slot d2 j = slot d1 j).
  { intros j Hj. apply Hoth2. intros i _. unfold zrow; lia. }
  assert (Hdrow : forall i, slot d2 (drow i) = slot d (drow i)).
  { intro i. rewrite Hoth2 by (intros k _; apply drow_zrow). apply Hs1. unfold drow, S_ZVV; lia. }
  assert (Hfal2 : fal d2 = fal d) by congruence. assert (Hpal2 : pal d2 = pal d) by congruence.
  assert (Hdc2 : dcap d2 = dcap d) by (rewrite E6; reflexivity). assert (Hzc2 : zcap d2 = fal d) by (rewrite E5; reflexivity).
  destruct ok.
  - (* all rows exist: release the simple vector, switch the mode *)
    apply safe_bind. eapply safe_weaken; [apply (safe_free_slot_x F d2 s2 S_Z0); [assumption | unfold S_Z0; lia]|].
    intros ? s3 HC3. apply safe_ret. unfold conv_post; cbn [fst snd].
    destruct (fields_final d2 S_Z0 None true (zcap d2)) as [F1 [F2 [F3 [F4 [F5 [F6 [F7 F8]]]]]]].
    set (dF := set_perf (set_slot d2 S_Z0 None) true (zcap d2)) in *.
    split; [apply corex_fields; assumption|].
    split; [|split; [|split; [congruence | split; [congruence | split; [intros _; assumption | discriminate]]]]].
    + unfold DSh. rewrite F1, F3, F4, F5, F6, Hl2, Hfal2, Hdc2, Hzc2.
      split; [reflexivity|]. split; [assumption|]. split; [intros _; lia|]. split.
      * intro Hpos. rewrite F7 by (unfold S_DVEC, S_Z0; lia).
        rewrite Hlow by (unfold S_DVEC; lia). rewrite Hs1 by (unfold S_DVEC, S_ZVV; lia). apply Hdv; assumption.
      * intros _ Hpos. rewrite F7 by (unfold S_ZVV, S_Z0; lia).
        rewrite Hlow by (unfold S_ZVV; lia). rewrite Hs1z. apply Hvv. apply Nat.ltb_lt; assumption.
    + unfold ZInv. rewrite F1, F2, F3, F6, Hl2, Hfal2, Hpal2. split; [reflexivity|]. split; [intro; discriminate|].
      intros _. split; [apply F8; rewrite Hl2; unfold S_Z0; lia|].
      intros Hpos i Hi. rewrite F7 by (unfold zrow, S_Z0; lia). apply Hok2; auto.
  - (* a row could not be allocated: the rows are gone, release the row vector *)
    apply safe_bind. eapply safe_weaken; [apply (safe_free_slot_x F d2 s2 S_ZVV); [assumption | unfold S_ZVV; lia]|].
    intros ? s3 HC3. apply safe_ret. unfold conv_post; cbn [fst snd].
    destruct (fields_final d2 S_ZVV None false 0%nat) as [F1 [F2 [F3 [F4 [F5 [F6 [F7 F8]]]]]]].
    set (dF := set_perf (set_slot d2 S_ZVV None) false 0%nat) in *.
    split; [apply corex_fields; assumption|].
    split; [|split; [|split; [congruence | split; [congruence | split; [discriminate | intros _; right; congruence]]]]].
    + unfold DSh. rewrite F1, F3, F5, F6, Hl2, Hfal2, Hdc2.
      split; [reflexivity|]. split; [assumption|]. split; [intro; discriminate|]. split; [|intro; discriminate].
      intro Hpos. rewrite F7 by (unfold S_DVEC, S_ZVV; lia).
      rewrite Hlow by (unfold S_DVEC; lia). rewrite Hs1 by (unfold S_DVEC, S_ZVV; lia). apply Hdv; assumption.
    + unfold ZInv. rewrite F1, F2, F3, F6, Hl2, Hfal2, Hpal2. split; [reflexivity|]. split; [|intro; discriminate].
      intros _. split; [apply F8; rewrite Hl2; unfold S_ZVV; lia|]. split.
      * intros i Hi. rewrite F7 by (unfold zrow, S_ZVV; lia). apply Hfail2; auto.
      * intro Hpos. rewrite F7 by (unfold S_Z0, S_ZVV; lia). rewrite Hlow by (unfold S_Z0; lia).
        rewrite Hs1 by (unfold S_Z0, S_ZVV; lia). apply Hz0; assumption.
Qed.

Lemma safe_convert_to_z0 : forall F d s, corex F d s -> DSh d -> ZInv d ->
  safe (convert_to_z0 d) s (conv_post F d false).
Proof.
  intros F d s HC HD HZ; unfold convert_to_z0.
  destruct (perf d) eqn:Hp; cbn [negb].
  2:{ apply safe_ret. unfold conv_post; cbn [fst snd]. split; [assumption|]. split; [assumption|]. split; [assumption|].
      split; [reflexivity|]. split; [reflexivity|]. split; [intros _; assumption | discriminate]. }
  pose proof HD as [Hl [Hdc [Hzc [Hdv Hzv]]]]. pose proof HZ as [_ [_ Ht]]. destruct (Ht Hp) as [Hz0 Hrows].
  apply safe_bind. eapply safe_weaken; [apply (safe_opt_malloc_slot F d s S_Z0); [assumption | unfold S_Z0; lia | assumption]|].
  intros [c|] s1 H1.
  2:{ destruct H1 as [_ HC1]. apply safe_ret. unfold conv_post; cbn [fst snd]. split; [assumption|]. split; [assumption|]. split; [assumption|].
      split; [reflexivity|]. split; [reflexivity|]. split; [discriminate | intros _; left; reflexivity]. }
  destruct H1 as [HC1 Hc].
  set (d1 := set_slot d S_Z0 c) in *.
  pose proof (same_shape_set_slot d S_Z0 c) as Hsh1. fold d1 in Hsh1. pose proof Hsh1 as [A1 [A2 [A3 [A4 [A5 [A6 A7]]]]]].
  assert (Hs1 : forall j, j <> S_Z0 -> slot d1 j = slot d j) by (intros j Hj; unfold d1; apply slot_set_other; auto).
  assert (Hs1z : slot d1 S_Z0 = c) by (unfold d1; apply slot_set_same; unfold S_Z0; lia).
  apply safe_bind. eapply safe_weaken; [apply (safe_free_zrows_x F (seq 0 (fal d)) d1 s1); [assumption | rewrite A7, A4; assumption | |]|].
  { intro Hne. rewrite Hs1 by (unfold S_ZVV, S_Z0; lia). apply Hzv; auto. destruct (fal d); [simpl in Hne; congruence | lia]. }
  { intros i Hi. apply in_seq in Hi. rewrite A5, A4. specialize (Hzc Hp). lia. }
  intros d2 s2 [HC2 [Hsh2 [Hoth2 [Hnone2 Hall2]]]].
  pose proof Hsh2 as [E1 [E2 [E3 [E4 [E5 [E6 E7]]]]]].
  assert (Hl2 : length (tbl d2) = (5 + 2 * fal d)%nat) by (rewrite E7, A7; assumption).
  assert (Hfal2 : fal d2 = fal d) by congruence. assert (Hpal2 : pal d2 = pal d) by congruence.
  assert (Hdc2 : dcap d2 = dcap d) by congruence.
  assert (Hlow : forall j, (j < 5)%nat -> slot d2 j = slot d1 j).
  { intros j Hj. apply Hoth2. intros i _. unfold zrow; lia. }
  apply safe_bind. eapply safe_weaken; [apply (safe_free_slot_x F d2 s2 S_ZVV); [assumption | unfold S_ZVV; lia]|].
  intros ? s3 HC3. apply safe_ret. unfold conv_post; cbn [fst snd].
  destruct (fields_final d2 S_ZVV None false 0%nat) as [F1 [F2 [F3 [F4 [F5 [F6 [F7 F8]]]]]]].
  set (dF := set_perf (set_slot d2 S_ZVV None) false 0%nat) in *.
  split; [apply corex_fields; assumption|].
  split; [|split; [|split; [congruence | split; [congruence | split; [intros _; assumption | discriminate]]]]].
  - unfold DSh. rewrite F1, F3, F5, F6, Hl2, Hfal2, Hdc2.
    split; [reflexivity|]. split; [assumption|]. split; [intro; discriminate|]. split; [|intro; discriminate].
    intro Hpos. rewrite F7 by (unfold S_DVEC, S_ZVV; lia).
    rewrite Hlow by (unfold S_DVEC; lia). rewrite Hs1 by (unfold S_DVEC, S_Z0; lia). apply Hdv; assumption.
  - unfold ZInv. rewrite F1, F2, F3, F6, Hl2, Hfal2, Hpal2. split; [reflexivity|]. split; [|intro; discriminate].
    intros _. split; [apply F8; rewrite Hl2; unfold S_ZVV; lia|]. split.
    + intros i Hi. rewrite F7 by (unfold zrow, S_ZVV; lia). apply Hall2. apply in_seq; lia.
    + intro Hpos. rewrite F7 by (unfold S_Z0, S_ZVV; lia). rewrite Hlow by (unfold S_Z0; lia).
      rewrite Hs1z. apply Hc. apply Nat.ltb_lt; assumption.
Qed.

(* ---------------------------------------------------------------- cell accesses *)
Lemma safe_z0_cells : forall F d s lo n, corex F d s -> DSh d -> slot d S_Z0 <> None ->
  (n = 0 \/ (0 <= lo /\ 0 <= n /\ lo + n <= Z.of_nat (pal d))) ->
  safe (z0_cells d lo n) s (fun _ s' => s' = s).
Proof.
  intros F d s lo n HC [Hl _] Hs Hr; unfold z0_cells.
  apply safe_bind. eapply safe_weaken; [eapply safe_touch_x; eauto; unfold S_Z0; lia|].
  intros ? s1 Hs1; simpl in Hs1; subst s1. apply safe_check_range; assumption.
Qed.

Lemma safe_fz0_cells : forall F d s i lo n, corex F d s -> DSh d -> ZInv d -> perf d = true -> (i < fal d)%nat -> (0 < pal d)%nat ->
  (n = 0 \/ (0 <= lo /\ 0 <= n /\ lo + n <= Z.of_nat (pal d))) ->
  safe (fz0_cells d i lo n) s (fun _ s' => s' = s).
Proof.
  intros F d s i lo n HC [Hl [_ [Hzc [_ Hzv]]]] [_ [_ Ht]] Hp Hi Hpos Hr; unfold fz0_cells.
  destruct (Ht Hp) as [_ Hrows].
  apply safe_bind. eapply safe_weaken; [eapply safe_row_access_x; eauto; [unfold S_ZVV; lia | apply Hzv; auto; lia | specialize (Hzc Hp); lia]|].
  intros ? s1 Hs1; simpl in Hs1; subst s1.
  apply safe_bind. eapply safe_weaken; [eapply safe_touch_x; eauto; unfold zrow; lia|].
  intros ? s1 Hs1; simpl in Hs1; subst s1. apply safe_check_range; assumption.
Qed.

Lemma safe_fz0_rows_cells : forall F d s idx lo n, corex F d s -> DSh d -> ZInv d -> perf d = true -> (0 < pal d)%nat ->
  (forall i, In i idx -> (i < fal d)%nat) -> (n = 0 \/ (0 <= lo /\ 0 <= n /\ lo + n <= Z.of_nat (pal d))) ->
  safe (fz0_rows_cells d idx lo n) s (fun _ s' => s' = s).
Proof.
  intros F d s idx; induction idx as [|i rest IH]; intros lo n HC HD HZ Hp Hpos Hidx Hr; simpl.
  - apply safe_ret; reflexivity.
  - apply safe_bind. eapply safe_weaken; [eapply safe_fz0_cells; eauto; apply Hidx; left; reflexivity|].
    intros ? s1 Hs1; simpl in Hs1; subst s1. apply IH; auto. intros k Hk; apply Hidx; right; assumption.
Qed.

(* ---------------------------------------------------------------- the object invariant and the ops *)
Definition OInv (o : vobj) (s : astate) : Prop :=
  DInv (od o) s /\ ZInv (od o) /\ (ofr o <= fal (od o))%nat /\ (opt o <= pal (od o))%nat.

Lemma frame_add : forall d s s1 b, core d s -> wf s1 -> ~ In b (ids s) -> ids s1 = b :: ids s -> corex [Some b] d s1.
Proof.
  intros d s s1 b [Hw [Hnd Hiff]] Hw1 Hnb Hids. unfold corex, xt, core, set_tbl; cbn [tbl].
  split; [assumption|]. split.
  - unfold somes. rewrite own_app. apply NoDup_app_intro'; auto.
    + simpl. repeat constructor. simpl; tauto.
    + intros x Hx Hin. simpl in Hin. destruct Hin as [Hin|[]]. subst x. apply Hnb. apply Hiff. exact Hx.
  - intro x. rewrite Hids. rewrite somes_snoc. simpl. rewrite Hiff. tauto.
Qed.

Lemma frame_live : forall d s b, corex [Some b] d s -> In b (ids s).
Proof.
  intros d s b [_ [_ Hiff]]. apply Hiff. unfold xt, set_tbl; cbn [tbl]. apply somes_snoc. right; simpl; auto.
Qed.

Lemma frame_free : forall d s b, corex [Some b] d s -> safe (free (Some b)) s (fun _ s' => core d s').
Proof.
  intros d s b HC. pose proof HC as [Hw [Hnd Hiff]]. unfold xt, set_tbl in *; cbn [tbl] in *.
  eapply safe_weaken; [apply safe_free; [assumption | eapply frame_live; eauto]|].
  intros ? s1 [Hw1 [_ Hi1]]. split; [assumption|].
  unfold somes in Hnd. rewrite own_app in Hnd. destruct (NoDup_app_inv' _ _ Hnd) as [Hn1 [_ Hd]].
  split; [exact Hn1|]. intro x. rewrite Hi1, Hiff, somes_snoc. simpl. split.
  - intros [[Hx|[Hx|[]]] Hne]; [assumption | congruence].
  - intro Hx. split; [left; assumption|]. intro He; subst x. eapply Hd; eauto. simpl; auto.
Qed.

(* the caller's pointer, when it comes from a getter of the object and a vector is to be read through it *)
Definition src_ok (d : vdata) (p : option (option block_id)) : Prop :=
  match p with
  | None => True
  | Some q => exists X, (X < length (tbl d))%nat /\ q = slot d X /\ slot d X <> None
  end.

Lemma resolve_ok : forall o s src p, OInv o s -> (0 < opt o)%nat -> resolve o src = Some p -> src_ok (od o) p.
Proof.
  intros o s src p [HI [[Hl [Hf Ht]] [Hfr Hpt]]] Hpos Hr. unfold resolve in Hr.
  destruct src as [| |i].
  - inversion Hr; subst; exact I.
  - destruct (perf (od o)) eqn:Hp; [discriminate|]. inversion Hr; subst. simpl.
    exists S_Z0. split; [unfold S_Z0; lia|]. split; [reflexivity|]. destruct (Hf eq_refl) as [_ [_ H]]. apply H. lia.
  - destruct ((i <? 0) || (Z.of_nat (ofr o) <=? i)) eqn:Hb; [discriminate|].
    apply orb_false_iff in Hb. destruct Hb as [H0 H1]. apply Z.ltb_ge in H0. apply Z.leb_gt in H1.
    destruct (perf (od o)) eqn:Hp; inversion Hr; subst; simpl.
    + exists (zrow (Z.to_nat i)). split; [unfold zrow; lia|]. split; [reflexivity|]. destruct (Ht eq_refl) as [_ H]. apply H; lia.
    + exists S_Z0. split; [unfold S_Z0; lia|]. split; [reflexivity|]. destruct (Hf eq_refl) as [_ [_ H]]. apply H. lia.
Qed.

Lemma safe_read_src : forall F d s p n cap, corex F d s -> src_ok d p -> (0 <= n <= Z.of_nat cap) ->
  safe (read_src p n cap) s (fun _ s' => s' = s).
Proof.
  intros F d s p n cap HC Hp Hn. destruct p as [q|]; [|apply safe_ret; reflexivity].
  destruct Hp as [X [HX [Hq Hne]]]. subst q. unfold read_src.
  apply safe_bind. eapply safe_weaken; [eapply safe_touch_x; eauto|].
  intros ? s1 Hs1; simpl in Hs1; subst s1. apply safe_check_range. right; lia.
Qed.

Lemma OInv_intro : forall o d s, core d s -> DSh d -> ZInv d -> (ofr o <= fal d)%nat -> (opt o <= pal d)%nat -> OInv (with_d o d) s.
Proof. intros o d s HC HD HZ H1 H2. unfold OInv, with_d; cbn [od ofr opt]. split; [apply DInv_split; split; assumption | tauto]. Qed.

Lemma with_d_id : forall o, with_d o (od o) = o.
Proof. destruct o; reflexivity. Qed.

Lemma safe_set_vec : forall o s p needconv conv cells want,
  OInv o s -> ((0 < opt o)%nat -> src_ok (od o) p) ->
  (needconv = true -> forall F s0, corex F (od o) s0 -> safe conv s0 (conv_post F (od o) want)) ->
  (forall F d' s0, corex F d' s0 -> DSh d' -> ZInv d' -> pal d' = pal (od o) -> fal d' = fal (od o) ->
                   (needconv = true -> perf d' = want) -> (needconv = false -> d' = od o) -> (0 < opt o)%nat ->
                   safe (cells d') s0 (fun _ s' => s' = s0)) ->
  safe (set_vec ZFixed o p needconv conv cells) s (fun r s' => OInv (fst r) s').
Proof.
  intros o s p needconv conv cells want HO Hsrc Hconv Hcells; unfold set_vec.
  pose proof HO as [HI [HZ [Hfr Hpt]]]. apply DInv_split in HI. destruct HI as [HC HD].
  pose proof HC as [Hw _].
  destruct needconv.
  - (* the mode changes: copy first *)
    apply safe_bind. apply safe_bind. unfold copy_src.
    destruct (Nat.ltb_spec 0 (opt o)) as [Hpos|Hzero].
    + apply safe_bind. eapply safe_weaken; [apply safe_malloc; assumption|].
      intros [b|] s1 [Hw1 H1].
      * destruct H1 as [Hb [Hnb [Hids1 _]]].
        assert (HF : corex [Some b] (od o) s1) by (eapply frame_add; eauto).
        apply safe_bind. eapply safe_weaken; [eapply safe_read_src; [exact HF | apply Hsrc; assumption | lia]|].
        intros ? s2 Hs2; simpl in Hs2; subst s2. apply safe_ret.
        apply safe_bind. eapply safe_weaken; [apply (Hconv eq_refl [Some b]); exact HF|].
        intros [ok d'] s2 [HC2 [HD2 [HZ2 [P2 [F2 [Hok Hfail]]]]]]; cbn [fst snd] in *.
        destruct ok.
        -- apply safe_ret. cbn [opt with_d od].
           replace (0 <? opt o)%nat with true by (symmetry; apply Nat.ltb_lt; assumption).
           apply safe_bind. apply safe_bind.
           eapply safe_weaken; [apply (Hcells [Some b] d' s2); auto; discriminate|].
           intros ? s3 Hs3; simpl in Hs3; subst s3.
           eapply safe_weaken; [unfold read_src; apply safe_bind|].
           { assert (Hl : is_live b s2 = true) by (apply is_live_iff; eapply frame_live; eauto).
             exists tt, s2; split; [unfold touch; rewrite Hl; reflexivity|]. apply safe_check_range. right; lia. }
           intros ? s3 Hs3; simpl in Hs3; subst s3.
           apply safe_bind. eapply safe_weaken; [eapply frame_free; eauto|].
           intros ? s3 HC3. apply safe_ret; cbn [fst]. apply OInv_intro; [assumption | exact HD2 | exact HZ2 | rewrite F2; exact Hfr | rewrite P2; exact Hpt].
        -- apply safe_bind. eapply safe_weaken; [eapply frame_free; eauto|].
           intros ? s3 HC3. apply safe_ret. apply safe_ret; cbn [fst]. apply OInv_intro; [assumption | exact HD2 | exact HZ2 | rewrite F2; exact Hfr | rewrite P2; exact Hpt].
      * destruct H1 as [Hids1 _]. apply safe_ret. apply safe_ret. apply safe_ret; cbn [fst].
        unfold OInv. split; [apply DInv_split; split; [eapply core_ids_eq; eauto; intro x; rewrite Hids1; tauto | assumption] | tauto].
    + (* no ports: nothing to copy *)
      apply safe_ret.
      apply safe_bind. eapply safe_weaken; [apply (Hconv eq_refl []); apply corex_nil; assumption|].
      intros [ok d'] s2 [HC2 [HD2 [HZ2 [P2 [F2 [Hok Hfail]]]]]]; cbn [fst snd] in *. apply (proj1 (corex_nil _ _)) in HC2.
      destruct ok.
      * apply safe_ret. cbn [opt with_d od].
        replace (0 <? opt o)%nat with false by (symmetry; apply Nat.ltb_ge; assumption).
        apply safe_bind. apply safe_ret. apply safe_bind. exists tt, s2; split; [reflexivity|].
        apply safe_ret; cbn [fst]. apply OInv_intro; [assumption | exact HD2 | exact HZ2 | rewrite F2; exact Hfr | rewrite P2; exact Hpt].
      * apply safe_bind. exists tt, s2; split; [reflexivity|]. apply safe_ret. apply safe_ret; cbn [fst]. apply OInv_intro; [assumption | exact HD2 | exact HZ2 | rewrite F2; exact Hfr | rewrite P2; exact Hpt].
  - apply safe_bind. apply safe_ret.
    destruct (Nat.ltb_spec 0 (opt o)) as [Hpos|Hzero].
    + apply safe_bind. apply safe_bind.
      eapply safe_weaken; [apply (Hcells [] (od o) s); auto; [apply corex_nil; assumption | discriminate]|].
      intros ? s3 Hs3; simpl in Hs3; subst s3.
      eapply safe_weaken; [eapply safe_read_src; [apply corex_nil; exact HC | apply Hsrc; assumption | lia]|].
      intros ? s3 Hs3; simpl in Hs3; subst s3.
      apply safe_bind. exists tt, s; split; [reflexivity|]. apply safe_ret; assumption.
    + apply safe_bind. apply safe_ret. apply safe_bind. exists tt, s; split; [reflexivity|]. apply safe_ret; assumption.
Qed.

Lemma OInv_parts : forall o s, OInv o s -> core (od o) s /\ DSh (od o) /\ ZInv (od o) /\ (ofr o <= fal (od o))%nat /\ (opt o <= pal (od o))%nat.
Proof. intros o s [HI [HZ [H1 H2]]]. apply (proj1 (DInv_split _ _)) in HI. tauto. Qed.

Lemma safe_set_fz0_vector : forall o s findex src, OInv o s ->
  safe (set_fz0_vector ZFixed o findex src) s (fun r s' => OInv (fst r) s').
Proof.
  intros o s findex src HO; unfold set_fz0_vector.
  destruct ((findex <? 0) || (Z.of_nat (ofr o) <=? findex)) eqn:Hb; [apply safe_ret; assumption|].
  apply orb_false_iff in Hb. destruct Hb as [H0 H1]. apply Z.ltb_ge in H0. apply Z.leb_gt in H1.
  destruct (resolve o src) as [p|] eqn:Hr; [|apply safe_ret; assumption].
  destruct (OInv_parts _ _ HO) as [HC [HD [HZ [Hfr Hpt]]]].
  apply (safe_set_vec o s p _ _ _ true HO).
  - intro Hpos. eapply resolve_ok; eauto.
  - intros _ F s0 HC0. apply safe_convert_to_fz0; assumption.
  - intros F d' s0 HC' HD' HZ' P' F' Hw Hsame Hpos.
    assert (Hp' : perf d' = true).
    { destruct (perf (od o)) eqn:Hp; cbn [negb] in *; [rewrite (Hsame eq_refl); assumption | apply Hw; reflexivity]. }
    eapply safe_fz0_cells; eauto; try lia; try (right; lia).
Qed.

Lemma safe_set_z0_vector : forall o s src, OInv o s ->
  safe (set_z0_vector ZFixed o src) s (fun r s' => OInv (fst r) s').
Proof.
  intros o s src HO; unfold set_z0_vector.
  destruct (resolve o src) as [p|] eqn:Hr; [|apply safe_ret; assumption].
  destruct (OInv_parts _ _ HO) as [HC [HD [HZ [Hfr Hpt]]]].
  apply (safe_set_vec o s p _ _ _ false HO).
  - intro Hpos. eapply resolve_ok; eauto.
  - intros _ F s0 HC0. apply safe_convert_to_z0; assumption.
  - intros F d' s0 HC' HD' HZ' P' F' Hw Hsame Hpos.
    assert (Hp' : perf d' = false).
    { destruct (perf (od o)) eqn:Hp; [apply Hw; reflexivity | rewrite (Hsame eq_refl); assumption]. }
    destruct HZ' as [_ [Hf' _]]. destruct (Hf' Hp') as [_ [_ Hz0]].
    eapply safe_z0_cells; eauto; [apply Hz0; lia | right; lia].
Qed.

Lemma safe_set_fz0 : forall o s findex port, OInv o s ->
  safe (set_fz0 ZFixed o findex port) s (fun r s' => OInv (fst r) s').
Proof.
  intros o s findex port HO; unfold set_fz0.
  destruct ((findex <? 0) || (Z.of_nat (ofr o) <=? findex)) eqn:Hb; [apply safe_ret; assumption|].
  apply orb_false_iff in Hb. destruct Hb as [H0 H1]. apply Z.ltb_ge in H0. apply Z.leb_gt in H1.
  destruct ((port <? 0) || (Z.of_nat (opt o) <=? port)) eqn:Hb2; [apply safe_ret; assumption|].
  apply orb_false_iff in Hb2. destruct Hb2 as [H2 H3]. apply Z.ltb_ge in H2. apply Z.leb_gt in H3.
  destruct (OInv_parts _ _ HO) as [HC [HD [HZ [Hfr Hpt]]]].
  apply safe_bind.
  apply (safe_weaken _ _ _ (fun r s' => core (snd r) s' /\ DSh (snd r) /\ ZInv (snd r) /\ pal (snd r) = pal (od o) /\
            fal (snd r) = fal (od o) /\ (fst r = true -> perf (snd r) = true))).
  { destruct (perf (od o)) eqn:Hp; cbn [negb].
    - apply safe_ret; cbn [fst snd]. tauto.
    - eapply safe_weaken; [apply (safe_convert_to_fz0 [] o s); [apply corex_nil; assumption | assumption | assumption]|].
      intros [ok d'] s2 [HC2 [HD2 [HZ2 [P2 [F2 [Hok _]]]]]]; cbn [fst snd] in *. apply (proj1 (corex_nil _ _)) in HC2. tauto. }
  intros [ok d'] s2 [HC2 [HD2 [HZ2 [P2 [F2 Hok]]]]]; cbn [fst snd] in *.
  destruct ok; cbn [negb].
  - apply safe_bind. eapply safe_weaken;
      [apply (safe_fz0_cells [] d' s2 (Z.to_nat findex) port 1 (proj2 (corex_nil _ _) HC2) HD2 HZ2 (Hok eq_refl)); [lia | lia | right; lia]|].
    intros ? s3 Hs3; simpl in Hs3; subst s3. apply safe_ret; cbn [fst]. apply OInv_intro; auto; lia.
  - apply safe_ret; cbn [fst]. apply OInv_intro; auto; lia.
Qed.

Lemma safe_conv_z0_opt : forall o s, OInv o s ->
  safe (if perf (od o) then convert_to_z0 (od o) else ret (true, od o)) s
       (fun r s' => core (snd r) s' /\ DSh (snd r) /\ ZInv (snd r) /\ pal (snd r) = pal (od o) /\
                    fal (snd r) = fal (od o) /\ (fst r = true -> perf (snd r) = false)).
Proof.
  intros o s HO. destruct (OInv_parts _ _ HO) as [HC [HD [HZ [Hfr Hpt]]]].
  destruct (perf (od o)) eqn:Hp.
  - eapply safe_weaken; [apply (safe_convert_to_z0 [] (od o) s); [apply corex_nil; assumption | assumption | assumption]|].
    intros [ok d'] s2 [HC2 [HD2 [HZ2 [P2 [F2 [Hok _]]]]]]; cbn [fst snd] in *. apply (proj1 (corex_nil _ _)) in HC2. tauto.
  - apply safe_ret; cbn [fst snd]. tauto.
Qed.

Lemma safe_set_z0 : forall o s port, OInv o s -> safe (set_z0 o port) s (fun r s' => OInv (fst r) s').
Proof.
  intros o s port HO; unfold set_z0.
  destruct ((port <? 0) || (Z.of_nat (opt o) <=? port)) eqn:Hb2; [apply safe_ret; assumption|].
  apply orb_false_iff in Hb2. destruct Hb2 as [H2 H3]. apply Z.ltb_ge in H2. apply Z.leb_gt in H3.
  destruct (OInv_parts _ _ HO) as [HC [HD [HZ [Hfr Hpt]]]].
  apply safe_bind. eapply safe_weaken; [apply safe_conv_z0_opt; assumption|].
  intros [ok d'] s2 [HC2 [HD2 [HZ2 [P2 [F2 Hok]]]]]; cbn [fst snd] in *.
  destruct ok; cbn [negb].
  - pose proof HZ2 as [_ [Hf' _]]. destruct (Hf' (Hok eq_refl)) as [_ [_ Hz0]].
    apply safe_bind. eapply safe_weaken; [apply (safe_z0_cells [] d' s2 port 1 (proj2 (corex_nil _ _) HC2) HD2); [apply Hz0; lia | right; lia]|].
    intros ? s3 Hs3; simpl in Hs3; subst s3. apply safe_ret; cbn [fst]. apply OInv_intro; auto; lia.
  - apply safe_ret; cbn [fst]. apply OInv_intro; auto; lia.
Qed.

Lemma safe_set_all_z0 : forall o s, OInv o s -> safe (set_all_z0 o) s (fun r s' => OInv (fst r) s').
Proof.
  intros o s HO; unfold set_all_z0.
  destruct (OInv_parts _ _ HO) as [HC [HD [HZ [Hfr Hpt]]]].
  apply safe_bind. eapply safe_weaken; [apply safe_conv_z0_opt; assumption|].
  intros [ok d'] s2 [HC2 [HD2 [HZ2 [P2 [F2 Hok]]]]]; cbn [fst snd] in *.
  destruct ok; cbn [negb].
  - apply safe_bind.
    apply (safe_weaken _ _ _ (fun _ s' => s' = s2)).
    + destruct (Nat.ltb_spec 0 (opt o)) as [Hpos|Hzero]; [|apply safe_ret; reflexivity].
      pose proof HZ2 as [_ [Hf' _]]. destruct (Hf' (Hok eq_refl)) as [_ [_ Hz0]].
      apply (safe_z0_cells [] d' s2 0 (Z.of_nat (opt o)) (proj2 (corex_nil _ _) HC2) HD2); [apply Hz0; lia | right; lia].
    + intros ? s3 Hs3; simpl in Hs3; subst s3. apply safe_ret; cbn [fst]. apply OInv_intro; auto; lia.
  - apply safe_ret; cbn [fst]. apply OInv_intro; auto; lia.
Qed.

Lemma safe_oresize : forall o s p m f, OInv o s -> safe (oresize o p m f) s (fun r s' => OInv (fst r) s').
Proof.
  intros o s p m f HO; unfold oresize.
  destruct (OInv_parts _ _ HO) as [HC [HD [HZ [Hfr Hpt]]]]. destruct HO as [HI _].
  apply safe_bind. eapply safe_weaken; [apply safe_post; [apply safe_resize; exact HI | apply zinv_resize; exact HZ]|].
  intros [d out] s1 [HI1 [HZ1 [[G1 [G2 G3]] Hdone]]]; cbn [fst snd] in *.
  pose proof (proj1 (DInv_split _ _) HI1) as [HC1 HD1].
  destruct out as [|e].
  2:{ apply safe_ret; cbn [fst]. unfold OInv; cbn [od ofr opt]. split; [assumption | split; [assumption | lia]]. }
  destruct (Hdone eq_refl) as [Hp0 [Hf0 [Hpl Hfl]]].
  apply safe_bind.
  apply (safe_weaken _ _ _ (fun _ s' => s' = s1)).
  { destruct (Nat.ltb_spec (Z.to_nat p) (opt o)) as [Hlt|Hge]; [|apply safe_ret; reflexivity].
    destruct (perf d) eqn:Hp.
    - apply (safe_fz0_rows_cells [] d s1 _ _ _ (proj2 (corex_nil _ _) HC1) HD1 HZ1 Hp); [lia | intros i Hi; apply in_seq in Hi; lia | right; lia].
    - destruct HZ1 as [_ [Hf' _]]. destruct (Hf' Hp) as [_ [_ Hz0]].
      apply (safe_z0_cells [] d s1 _ _ (proj2 (corex_nil _ _) HC1) HD1); [apply Hz0; lia | right; lia]. }
  intros ? s2 Hs2; simpl in Hs2; subst s2.
  apply safe_bind.
  apply (safe_weaken _ _ _ (fun _ s' => s' = s1)).
  { destruct ((Z.to_nat f <? ofr o)%nat && perf d && (0 <? opt o)%nat) eqn:Hc; [|apply safe_ret; reflexivity].
    apply andb_true_iff in Hc. destruct Hc as [Hc Hc3]. apply andb_true_iff in Hc. destruct Hc as [Hc1 Hc2].
    apply Nat.ltb_lt in Hc1. apply Nat.ltb_lt in Hc3.
    apply (safe_fz0_rows_cells [] d s1 _ _ _ (proj2 (corex_nil _ _) HC1) HD1 HZ1 Hc2); [lia | | right; lia].
    intros i Hi. apply in_rev in Hi. apply in_seq in Hi. lia. }
  intros ? s2 Hs2; simpl in Hs2; subst s2.
  apply safe_ret; cbn [fst]. unfold OInv; cbn [od ofr opt]. split; [assumption | split; [assumption | lia]].
Qed.

Lemma safe_zstep : forall o s op, OInv o s -> safe (zstep ZFixed o op) s (fun r s' => OInv (fst r) s').
Proof.
  intros o s op HO; destruct op; simpl.
  - apply safe_oresize; assumption.
  - apply safe_set_fz0; assumption.
  - apply safe_set_fz0_vector; assumption.
  - apply safe_set_z0; assumption.
  - apply safe_set_z0_vector; assumption.
  - apply safe_set_all_z0; assumption.
Qed.

Lemma safe_zrun : forall ops o s, OInv o s -> safe (zrun ZFixed o ops) s (fun r s' => OInv (fst r) s').
Proof.
  induction ops as [|op ops IH]; intros o s HO; simpl.
  - apply safe_ret; assumption.
  - apply safe_bind. eapply safe_weaken; [apply safe_zstep; assumption|].
    intros [o' out] s' HO'; simpl in HO'.
    apply safe_bind. eapply safe_weaken; [apply IH; exact HO'|].
    intros [o'' os] s'' HO''; simpl in *. apply safe_ret; assumption.
Qed.

Lemma OInv_new : forall b s, wf s -> ids s = [b] -> OInv (mkO (mkD false 0 0 0 0 0 [Some b; None; None; None; None]) 0 0) s.
Proof.
  intros b s Hw Hids. unfold OInv; cbn [od ofr opt pal fal]. split; [|split; [|lia]].
  - unfold DInv, core, slot, somes; simpl. split; [split; [assumption | split; [repeat constructor; simpl; tauto|]]|].
    + intro x; rewrite Hids; simpl; tauto.
    + split; [reflexivity | split; [lia | split; [intros; lia | split; intros; lia]]].
  - unfold ZInv, slot; simpl. split; [reflexivity|]. split; [|intro; discriminate].
    intros _. split; [reflexivity|]. split; intros; lia.
Qed.

Lemma zhistory_safe : forall ops k, safe (zhistory ZFixed ops) (start k) (fun _ s' => live s' = []).
Proof.
  intros ops k; unfold zhistory, dnew.
  apply safe_bind. apply safe_bind.
  eapply safe_weaken; [apply safe_malloc; apply wf_start|].
  intros [b|] s1 [Hw1 H1].
  - destruct H1 as [Hb [Hnb [Hids Hf]]]. apply safe_ret.
    apply safe_bind. eapply safe_weaken; [apply safe_zrun; apply (OInv_new b s1); [assumption | rewrite Hids; reflexivity]|].
    intros [o' os] s2 HO2; simpl in HO2. destruct HO2 as [HI2 _].
    apply safe_bind. eapply safe_weaken; [apply safe_dfree; exact HI2|].
    intros u s3 H3. apply safe_ret; assumption.
  - destruct H1 as [Hids _]. apply safe_ret. apply safe_ret.
    apply ids_nil_live_nil. rewrite Hids; simpl; tauto.
Qed.

Theorem vdataz_no_fault_lemma : forall ops k f, zhistory ZFixed ops (start k) <> Fault f.
Proof.
  intros ops k f H. destruct (zhistory_safe ops k) as [a [s' [He _]]]. rewrite He in H; discriminate.
Qed.

Theorem vdataz_no_leak_lemma : forall ops k os s', zhistory ZFixed ops (start k) = Ok (os, s') -> live s' = [].
Proof.
  intros ops k os s' H. destruct (zhistory_safe ops k) as [a [s2 [He Hl]]]. rewrite He in H; inversion H; subst; assumption.
Qed.

(* single call, arbitrary fault point *)
Theorem vdataz_fault_clean_lemma : forall op o s, OInv o s ->
  exists o' out s', zstep ZFixed o op s = Ok ((o', out), s') /\ OInv o' s'.
Proof.
  intros op o s HO. destruct (safe_zstep o s op HO) as [[o' out] [s' [He HO']]]. exists o', out, s'; auto.
Qed.

Example OInv_satisfiable : exists o s, OInv o s /\ perf (od o) = true /\ fal (od o) = 4%nat /\ ofr o = 2%nat /\ opt o = 2%nat /\
  length (live s) = 12%nat.
Proof.
  assert (HO : OInv (mkO (mkD false 0 0 0 0 0 [Some 0%nat; None; None; None; None]) 0 0) (mkA None [(0%nat, 120)] 1)).
  { apply OInv_new; [|reflexivity]. split; simpl; [repeat constructor; simpl; tauto | intros x [Hx|[]]; subst; lia]. }
  destruct (safe_zrun [ZResize 2 4 4; ZResize 2 4 2; ZSetFz0Vec 1 SOwnZ0] _ _ HO) as [[o' os] [s' [He HO']]].
  vm_compute in He. inversion He; subst. eexists; eexists; split; [exact HO'|]. vm_compute; auto.
Qed.

(* D72 / D73 as first read: the object's own vector handed to the setter that changes the mode *)
Theorem set_fz0_vector_alias_refuted_lemma : exists ops, zhistory ZNoCopy ops (start None) = Fault UseAfterFree.
Proof. exists [ZResize 2 4 2; ZSetFz0Vec 1 SOwnZ0]; vm_compute; reflexivity. Qed.

Theorem set_z0_vector_alias_refuted_lemma : exists ops, zhistory ZNoCopy ops (start None) = Fault UseAfterFree.
Proof. exists [ZResize 2 4 2; ZSetFz0 0 0; ZSetZ0Vec (SOwnRow 1)]; vm_compute; reflexivity. Qed.

(* the shape of the seeded change C03-4: rows only for the frequencies in use; growing back inside the allocation
   then reaches a row that does not exist *)
Theorem convert_rows_in_use_refuted_lemma : exists ops f, zhistory ZRowsInUse ops (start None) = Fault f.
Proof. exists [ZResize 2 4 4; ZResize 2 4 1; ZSetFz0 0 1; ZResize 2 4 3; ZSetFz0 2 1], NullDeref; vm_compute; reflexivity. Qed.
