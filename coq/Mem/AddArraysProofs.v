Require Import List ZArith Bool Arith Lia.
Import ListNotations.
Require Import LV.Mem.Alloc LV.Mem.PropList LV.Mem.AddArrays.
Open Scope Z_scope.

Lemma vla_pos : forall n s, 0 < n -> vla n s = Ok (n, s).
Proof. intros n s H; unfold vla. destruct (Z.leb_spec n 0); [lia | reflexivity]. Qed.

Lemma loop_ok : forall n len s, n <= len -> loop n len s = Ok (tt, s).
Proof.
  intros n len s H; unfold loop. destruct (Z.leb_spec n 0); [reflexivity|].
  unfold check_range, range_ok. destruct (Z.eqb_spec n 0); [reflexivity|].
  replace (0 <=? 0) with true by reflexivity.
  replace (0 <=? n) with true by (symmetry; apply Z.leb_le; lia).
  replace (0 + n <=? len) with true by (symmetry; apply Z.leb_le; lia). reflexivity.
Qed.

(* all integer arguments (including 0, -1, n + 1) on a valid vnacal_new_t: never a fault *)
Theorem add_arrays_no_fault_lemma : forall a s, valid_new a ->
  exists o, add_arrays Fixed a s = Ok (o, s).
Proof.
  intros a s [Hr [Hc [Hs [Hm1 Hm2]]]]; unfold add_arrays, bind.
  rewrite vla_pos by lia. rewrite vla_pos by lia. rewrite !vla_pos by lia.
  destruct ((s_rows a <? 1) || (full_s a <? s_rows a)) eqn:E1; [eexists; reflexivity|].
  destruct ((s_columns a <? 1) || (full_s a <? s_columns a)) eqn:E2; [eexists; reflexivity|].
  destruct (negb (s_rows a =? full_s a) || negb (s_columns a =? full_s a)) eqn:E3; [eexists; reflexivity|].
  destruct (negb (b_rows a =? min_b_rows a) && negb (b_rows a =? full_m_rows a)) eqn:E4; [eexists; reflexivity|].
  destruct (negb (b_columns a =? min_b_columns a) && negb (b_columns a =? full_m_columns a)) eqn:E5; [eexists; reflexivity|].
  destruct ((full_m_rows a <? b_rows a) || (full_m_columns a <? b_columns a)) eqn:E6; [eexists; reflexivity|].
  apply orb_false_iff in E1, E2, E3, E6. destruct E1 as [A1 A2], E2 as [B1 B2], E3 as [C1 C2], E6 as [D1 D2].
  apply Z.ltb_ge in A1, A2, B1, B2, D1, D2. apply negb_false_iff, Z.eqb_eq in C1, C2.
  assert (Hbr : 1 <= b_rows a).
  { apply andb_false_iff in E4. destruct E4 as [E|E]; apply negb_false_iff, Z.eqb_eq in E; lia. }
  assert (Hbc : 1 <= b_columns a).
  { apply andb_false_iff in E5. destruct E5 as [E|E]; apply negb_false_iff, Z.eqb_eq in E; lia. }
  assert (Hcells : b_rows a * b_columns a <= full_m_rows a * full_m_columns a) by nia.
  assert (Hpos : 1 <= b_rows a * b_columns a) by nia.
  rewrite loop_ok by lia.
  rewrite loop_ok by lia.
  rewrite loop_ok by lia.
  rewrite loop_ok by lia.
  rewrite loop_ok by nia.
  rewrite loop_ok by lia.
  rewrite loop_ok by lia.
  eexists; reflexivity.
Qed.

Example valid_new_satisfiable : valid_new (mkAdd 2 3 3 2 3 3 3 3 3).
Proof. unfold valid_new; simpl; lia. Qed.

(* D14: rows > columns (U8 2x1): m_column_given[full_m_columns] written up to b_rows *)
Theorem add_arrays_d14_refuted_lemma : exists a s, valid_new a /\ add_arrays Orig a s = Fault OOB.
Proof. exists (mkAdd 2 1 2 2 1 2 2 2 1), (start None); split; [unfold valid_new; simpl; lia | vm_compute; reflexivity]. Qed.

(* D50: s_rows = 0: the bound of s_cell_map is 0 before the argument is validated *)
Theorem add_arrays_d50_refuted_lemma : exists a s, valid_new a /\ add_arrays Orig a s = Fault VlaBound.
Proof. exists (mkAdd 2 2 2 2 2 0 0 2 2), (start None); split; [unfold valid_new; simpl; lia | vm_compute; reflexivity]. Qed.

(* D48: T8 2x3: a 3x3 m matrix passes the dimension test (min_b_rows = s_ports = 3) and overruns m_cell_map[6] *)
Theorem add_arrays_d48_refuted_lemma : exists a s, valid_new a /\ add_arrays Orig a s = Fault OOB.
Proof. exists (mkAdd 2 3 3 3 3 3 3 3 3), (start None); split; [unfold valid_new; simpl; lia | vm_compute; reflexivity]. Qed.
