(* Proofs about the vnacal_new_t allocation skeleton (NewAlloc.v).
   Ownership is counted: [cnt x l] is the number of occurrences of block x in l, the invariant says that the
   multiset of blocks the world refers to equals the ledger, and every step of a proof about a free / malloc
   is a linear equation between such counts (tactic [ms]). *)
Require Import List ZArith Bool Arith Lia.
Import ListNotations.
Require Import LV.Mem.Alloc LV.Mem.AllocProofs LV.Mem.PropList LV.Mem.PropListProofs LV.Mem.NewAlloc.
Open Scope nat_scope.

(* ---------------------------------------------------------------- counting *)
Definition cnt (x : nat) (l : list nat) : nat := count_occ Nat.eq_dec l x.
Definition ind (x b : nat) : nat := if Nat.eq_dec b x then 1 else 0.

Lemma cnt_nil : forall x, cnt x [] = 0.
Proof. reflexivity. Qed.
Lemma cnt_cons : forall x b l, cnt x (b :: l) = ind x b + cnt x l.
Proof. intros; unfold cnt, ind; simpl; destruct (Nat.eq_dec b x); reflexivity. Qed.
Lemma cnt_app : forall x a b, cnt x (a ++ b) = cnt x a + cnt x b.
Proof. intros; unfold cnt; apply count_occ_app. Qed.
Lemma cnt_rev : forall x l, cnt x (rev l) = cnt x l.
Proof. intros; unfold cnt; induction l; simpl; auto. rewrite count_occ_app; simpl. destruct (Nat.eq_dec a x); lia. Qed.
Lemma cnt_optl : forall x o, cnt x (optl o) = match o with Some b => ind x b | None => 0 end.
Proof. intros x [b|]; unfold optl; [rewrite cnt_cons, cnt_nil; lia | reflexivity]. Qed.
Lemma ind_same : forall b, ind b b = 1.
Proof. intro b; unfold ind; destruct (Nat.eq_dec b b); congruence. Qed.
Lemma ind_le : forall x b, ind x b <= 1.
Proof. intros; unfold ind; destruct (Nat.eq_dec b x); lia. Qed.
Lemma ind_other : forall x b, x <> b -> ind x b = 0.
Proof. intros; unfold ind; destruct (Nat.eq_dec b x); congruence. Qed.

Lemma cnt_in : forall x l, 1 <= cnt x l <-> In x l.
Proof. intros; unfold cnt; rewrite (count_occ_In Nat.eq_dec); lia. Qed.

Lemma cnt_nodup : forall l, NoDup l -> forall x, cnt x l <= 1.
Proof. intros l H x; unfold cnt; rewrite (NoDup_count_occ Nat.eq_dec) in H; apply H. Qed.

Lemma nodup_cnt : forall l, (forall x, cnt x l <= 1) -> NoDup l.
Proof. intros l H; apply (NoDup_count_occ Nat.eq_dec); exact H. Qed.

Lemma cnt_optl_some : forall x b, cnt x (optl (Some b)) = ind x b.
Proof. intros; unfold optl; rewrite cnt_cons, cnt_nil; lia. Qed.
Lemma cnt_optl_none : forall x, cnt x (optl None) = 0.
Proof. reflexivity. Qed.
Arguments cnt : simpl never.
Arguments ind : simpl never.
#[export] Hint Rewrite cnt_nil cnt_cons cnt_app cnt_rev cnt_optl_some cnt_optl_none : cntdb.

Ltac inst_all x :=
  repeat match goal with
         | H : forall y : nat, cnt y _ = _ |- _ => let H' := fresh H in pose proof (H x) as H'; clear H; rename H' into H
         end;
  repeat match goal with
         | H : forall y : nat, _ + _ = _ |- _ => let H' := fresh H in pose proof (H x) as H'; clear H; rename H' into H
         end.
Ltac ms :=
  let x := fresh "x" in
  intro x; inst_all x; autorewrite with cntdb in *; simpl; try lia.

(* ---------------------------------------------------------------- the ledger invariant *)
Definition LI (own : list block_id) (s : astate) : Prop := wf s /\ forall x, cnt x own = cnt x (ids s).

Lemma LI_eq : forall own own' s, LI own s -> (forall x, cnt x own' = cnt x own) -> LI own' s.
Proof. intros own own' s [Hw H] He; split; auto. intro x; rewrite He; apply H. Qed.

Lemma LI_live : forall own s b, LI own s -> 1 <= cnt b own -> In b (ids s).
Proof. intros own s b [_ H] Hc. apply cnt_in. rewrite <- H. exact Hc. Qed.

Lemma LI_nodup : forall own s, LI own s -> forall x, cnt x own <= 1.
Proof. intros own s [[Hnd _] H] x. rewrite H. apply cnt_nodup; exact Hnd. Qed.

Lemma li_malloc : forall own s sz, LI own s ->
  safe (malloc sz) s (fun r s' => match r with Some b => LI (b :: own) s' | None => LI own s' end).
Proof.
  intros own s sz [Hw H]. eapply safe_weaken; [apply safe_malloc; exact Hw|].
  intros [b|] s' [Hw' Hr].
  - destruct Hr as [_ [_ [Hids _]]]. split; auto. intro x. rewrite Hids, !cnt_cons, H. reflexivity.
  - destruct Hr as [Hids _]. split; auto. intro x. rewrite Hids. apply H.
Qed.

Lemma li_free : forall own own' s b, LI own s -> (forall x, cnt x own = ind x b + cnt x own') ->
  safe (free (Some b)) s (fun _ s' => LI own' s').
Proof.
  intros own own' s b HL He. pose proof HL as [Hw H].
  assert (Hin : In b (ids s)). { eapply LI_live; eauto. rewrite He, ind_same; lia. }
  eapply safe_weaken; [apply safe_free; eauto|].
  intros u s' [Hw' [_ Hi]]. split; auto. intro x.
  pose proof (cnt_nodup _ (proj1 Hw) x) as H1. pose proof (cnt_nodup _ (proj1 Hw') x) as H2.
  specialize (He x). rewrite H in He.
  destruct (Nat.eq_dec x b) as [->|Hne].
  - rewrite ind_same in He. assert (~ In b (ids s')) by (intro Hx; apply Hi in Hx; tauto).
    assert (cnt b (ids s') = 0). { destruct (cnt b (ids s')) eqn:E; auto. exfalso; apply H0, cnt_in; lia. }
    lia.
  - rewrite ind_other in He by auto.
    destruct (in_dec Nat.eq_dec x (ids s)) as [Hx|Hx].
    + assert (In x (ids s')) by (apply Hi; auto). apply cnt_in in Hx. apply cnt_in in H0. lia.
    + assert (~ In x (ids s')) by (intro Hx'; apply Hi in Hx'; tauto).
      assert (cnt x (ids s) = 0). { destruct (cnt x (ids s)) eqn:E; auto. exfalso; apply Hx, cnt_in; lia. }
      assert (cnt x (ids s') = 0). { destruct (cnt x (ids s')) eqn:E; auto. exfalso; apply H0, cnt_in; lia. }
      lia.
Qed.

Lemma li_free_opt : forall own own' s o, LI own s -> (forall x, cnt x own = cnt x (optl o) + cnt x own') ->
  safe (free o) s (fun _ s' => LI own' s').
Proof.
  intros own own' s [b|] HL He.
  - apply (li_free own own' s b HL). intro x; rewrite He, cnt_optl; reflexivity.
  - exists tt, s; split; [reflexivity|]. eapply LI_eq; eauto. intro x; rewrite He; reflexivity.
Qed.

Lemma li_frees : forall l own own' s, LI own s -> (forall x, cnt x own = cnt x l + cnt x own') ->
  safe (frees l) s (fun _ s' => LI own' s').
Proof.
  induction l as [|b l IH]; intros own own' s HL He; simpl.
  - apply safe_ret. eapply LI_eq; eauto. intro x; rewrite He; reflexivity.
  - apply safe_bind.
    assert (He1 : forall x, cnt x own = ind x b + cnt x (l ++ own')) by (intro x; rewrite He, cnt_cons, cnt_app; lia).
    eapply safe_weaken; [exact (li_free own (l ++ own') s b HL He1)|].
    intros u s' HL'. apply (IH (l ++ own') own' s' HL'). intro x; rewrite cnt_app; reflexivity.
Qed.

Lemma li_allocl : forall szs acc own s, LI own s ->
  safe (allocl szs acc) s (fun r s' => exists new, snd r = acc ++ new /\ LI (new ++ own) s').
Proof.
  induction szs as [|sz szs IH]; intros acc own s HL; simpl.
  - apply safe_ret. exists []; simpl; rewrite app_nil_r; auto.
  - apply safe_bind. eapply safe_weaken; [apply li_malloc; eauto|].
    intros [b|] s' HL'.
    + eapply safe_weaken; [apply (IH (acc ++ [b]) (b :: own)); eauto|].
      intros [ok got] s'' [new [Hs HL'']]; simpl in *. exists (b :: new). split.
      * rewrite Hs, <- app_assoc; reflexivity.
      * eapply LI_eq; eauto. intro x; autorewrite with cntdb; lia.
    + apply safe_ret. exists []; simpl; rewrite app_nil_r; auto.
Qed.

Lemma li_touch : forall own s b, LI own s -> 1 <= cnt b own -> safe (touch (Some b)) s (fun _ s' => s' = s).
Proof.
  intros own s b HL Hc. exists tt, s; split; auto. unfold touch.
  assert (Hl : is_live b s = true) by (apply is_live_iff; eapply LI_live; eauto). rewrite Hl; reflexivity.
Qed.

Lemma li_realloc : forall own rest s b sz, LI own s -> (forall x, cnt x own = ind x b + cnt x rest) ->
  safe (realloc (Some b) sz) s (fun r s' => match r with Some nb => LI (nb :: rest) s' | None => LI own s' end).
Proof.
  intros own rest s b sz HL He. pose proof HL as [Hw H].
  assert (Hin : In b (ids s)). { eapply LI_live; eauto. rewrite He, ind_same; lia. }
  eapply safe_weaken; [apply safe_realloc; [exact Hw | intros b' Hb'; inversion Hb'; subst; exact Hin]|].
  intros [nb|] s' [Hw' Hr].
  - destruct Hr as [Hnb [Hni [_ Hi]]]. split; auto. intro x. rewrite cnt_cons.
    pose proof (cnt_nodup _ (proj1 Hw) x) as H1. pose proof (cnt_nodup _ (proj1 Hw') x) as H2.
    specialize (He x). rewrite H in He.
    assert (Hc : forall l y, ~ In y l -> cnt y l = 0).
    { intros l y Hy. destruct (cnt y l) eqn:E; auto. exfalso; apply Hy, cnt_in; lia. }
    destruct (Nat.eq_dec x nb) as [->|Hne].
    + rewrite ind_same. assert (In nb (ids s')) by (apply Hi; auto). apply cnt_in in H0.
      rewrite (Hc _ _ Hni) in He. assert (cnt nb rest = 0) by lia. lia.
    + rewrite (ind_other x nb) by auto.
      destruct (Nat.eq_dec x b) as [->|Hnb'].
      * rewrite ind_same in He. assert (~ In b (ids s')).
        { intro Hx; apply Hi in Hx. destruct Hx as [Hx|[_ Hx]]; [congruence | apply Hx; reflexivity]. }
        rewrite (Hc _ _ H0). lia.
      * rewrite ind_other in He by auto.
        destruct (in_dec Nat.eq_dec x (ids s)) as [Hx|Hx].
        -- assert (In x (ids s')) by (apply Hi; right; split; auto; intro Hs; inversion Hs; congruence).
           apply cnt_in in Hx. apply cnt_in in H0. lia.
        -- assert (~ In x (ids s')) by (intro Hx'; apply Hi in Hx'; destruct Hx' as [Hx'|[Hx' _]]; auto).
           rewrite (Hc _ _ Hx) in He. rewrite (Hc _ _ H0). lia.
  - destruct Hr as [Hids _]. split; auto. intro x; rewrite Hids; apply H.
Qed.

(* ---------------------------------------------------------------- what the world owns *)
Definition pown (p : prm) : list block_id := optl (pfv p) ++ optl (pgv p).
Definition psown (ps : list prm) : list block_id := flat_map pown ps.
Definition vown (v : vnew) : list block_id :=
  vn_blk v :: optl (vn_fvec v) ++ optl (vn_tab v) ++ map snd (vn_nodes v) ++ optl (vn_sysv v) ++ optl (vn_merr v) ++
  vn_mblocks v ++ vn_eblocks v ++ vn_cal v.
Definition oown (o : option vnew) : list block_id := match o with Some v => vown v | None => [] end.
Definition wown (w : world) : list block_id := psown (w_prm w) ++ flat_map oown (w_new w).

Definition cfgok (ps : list prm) : Prop := forall i o, pother (pkd (nth i ps pdummy)) = Some o -> o < i.

Lemma nth_upd_eq : forall A (l : list A) n v d, n < length l -> nth n (upd l n v) d = v.
Proof. induction l; destruct n; simpl; intros; try lia; auto. apply IHl; lia. Qed.
Lemma nth_upd_ne : forall A (l : list A) n m v d, n <> m -> nth m (upd l n v) d = nth m l d.
Proof. induction l; destruct n, m; simpl; intros; try lia; auto. Qed.
Lemma upd_short : forall A (l : list A) n v, length l <= n -> upd l n v = l.
Proof. induction l; destruct n; simpl; intros; try lia; auto. f_equal; apply IHl; lia. Qed.
Lemma length_upd2 : forall A (l : list A) n v, length (upd l n v) = length l.
Proof. induction l; destruct n; simpl; intros; auto. Qed.

Lemma cnt_flat_upd : forall A (f : A -> list nat) (l : list A) n v d x, n < length l ->
  cnt x (flat_map f (upd l n v)) + cnt x (f (nth n l d)) = cnt x (flat_map f l) + cnt x (f v).
Proof.
  induction l; destruct n; simpl; intros; try lia.
  - rewrite !cnt_app; lia.
  - rewrite !cnt_app. specialize (IHl n v d x ltac:(lia)). lia.
Qed.

(* replacing parameter u by one that owns [new] instead of [old] *)
Lemma psown_upd : forall ps u p' x,
  cnt x (psown (upd ps u p')) + (if u <? length ps then cnt x (pown (nth u ps pdummy)) else 0) =
  cnt x (psown ps) + (if u <? length ps then cnt x (pown p') else 0).
Proof.
  intros. unfold psown. destruct (Nat.ltb_spec u (length ps)).
  - apply cnt_flat_upd; auto.
  - rewrite upd_short by lia. lia.
Qed.

Lemma psown_hold : forall ps i x, cnt x (psown (hold ps i)) = cnt x (psown ps).
Proof.
  intros. unfold hold. pose proof (psown_upd ps i (mkPr (pkd (nth i ps pdummy)) (S (pheld (nth i ps pdummy))) (pfv (nth i ps pdummy)) (pgv (nth i ps pdummy)) (pfn (nth i ps pdummy))) x) as H.
  unfold pown in *; simpl in *. destruct (i <? length ps); lia.
Qed.
Lemma psown_release : forall ps i x, cnt x (psown (release ps i)) = cnt x (psown ps).
Proof.
  intros. unfold release. pose proof (psown_upd ps i (mkPr (pkd (nth i ps pdummy)) (pred (pheld (nth i ps pdummy))) (pfv (nth i ps pdummy)) (pgv (nth i ps pdummy)) (pfn (nth i ps pdummy))) x) as H.
  unfold pown in *; simpl in *. destruct (i <? length ps); lia.
Qed.
Lemma psown_release_all : forall ks ps x, cnt x (psown (release_all ps ks)) = cnt x (psown ps).
Proof. induction ks; simpl; intros; auto. rewrite IHks. apply psown_release. Qed.

Lemma pkd_upd : forall ps u p' i, pkd p' = pkd (nth u ps pdummy) -> pkd (nth i (upd ps u p') pdummy) = pkd (nth i ps pdummy).
Proof.
  intros. destruct (Nat.ltb_spec u (length ps)).
  - destruct (Nat.eq_dec u i) as [->|Hne]; [rewrite nth_upd_eq by auto; auto | rewrite nth_upd_ne by auto; auto].
  - rewrite upd_short by lia; auto.
Qed.
Lemma cfgok_upd : forall ps u p', cfgok ps -> pkd p' = pkd (nth u ps pdummy) -> cfgok (upd ps u p').
Proof. intros ps u p' H He i o Ho. rewrite pkd_upd in Ho by auto. apply H; auto. Qed.
Lemma cfgok_hold : forall ps i, cfgok ps -> cfgok (hold ps i).
Proof. intros; unfold hold; apply cfgok_upd; auto. Qed.
Lemma cfgok_release : forall ps i, cfgok ps -> cfgok (release ps i).
Proof. intros; unfold release; apply cfgok_upd; auto. Qed.
Lemma cfgok_release_all : forall ks ps, cfgok ps -> cfgok (release_all ps ks).
Proof. induction ks; simpl; intros; auto. apply IHks, cfgok_release; auto. Qed.
Lemma length_hold : forall ps i, length (hold ps i) = length ps.
Proof. intros; unfold hold; apply length_upd2. Qed.

(* ---------------------------------------------------------------- vnacal_new_set_m_error *)
Definition Post (F : list block_id) (v : vnew) (ps : list prm) (s : astate) : Prop :=
  LI (vown v ++ psown ps ++ F) s /\ vn_tab v <> None /\ cfgok ps.

Lemma li_spline_calc : forall own s, LI own s -> safe spline_calc s (fun _ s' => LI own s').
Proof.
  intros own s HL; unfold spline_calc. apply safe_bind.
  eapply safe_weaken; [apply li_allocl; eauto|]. intros [ok bs] s' [new [Hs HL']]; simpl in *. subst bs.
  apply safe_bind. eapply safe_weaken; [apply (li_frees new (new ++ own) own); eauto|].
  - intro x; rewrite cnt_app; reflexivity.
  - intros u s'' HL''. apply safe_ret; auto.
Qed.
Lemma li_spline_calcs : forall n own s, LI own s -> safe (spline_calcs n) s (fun _ s' => LI own s').
Proof.
  induction n; intros own s HL; simpl; [apply safe_ret; auto|].
  apply safe_bind. eapply safe_weaken; [apply li_spline_calc; eauto|].
  intros [|] s' HL'; [apply IHn; auto | apply safe_ret; auto].
Qed.

Lemma li_set_m_error : forall F v ps a s, Post F v ps s ->
  safe (set_m_error NFixed v a) s (fun r s' => Post F (fst r) ps s').
Proof.
  intros F v ps a s [HL [Ht Hc]]. unfold set_m_error. destruct a as [| | |n].
  - apply safe_ret; split; auto.
  - apply safe_bind.
    assert (He : forall x, cnt x (vown v ++ psown ps ++ F) = cnt x (optl (vn_merr v)) + cnt x (vown (set_merr v None) ++ psown ps ++ F)).
    { unfold vown; simpl. ms. }
    eapply safe_weaken; [exact (li_free_opt _ _ s (vn_merr v) HL He)|].
    intros u s' HL'. apply safe_ret; simpl. split; auto.
  - apply safe_ret; split; auto.
  - destruct (vn_fvalid v); simpl; [|apply safe_ret; split; auto].
    apply safe_bind. destruct (vn_merr v) as [b|] eqn:Hm.
    + apply safe_ret. apply safe_bind.
      assert (Hb : 1 <= cnt b (vown v ++ psown ps ++ F)).
      { unfold vown; rewrite Hm. autorewrite with cntdb. rewrite ind_same. lia. }
      destruct (0 <? c_freqs (vn_cfg v)).
      * rewrite Hm. eapply safe_weaken; [eapply li_touch; eauto|]. intros u s' ->.
        apply safe_bind. eapply safe_weaken; [apply li_spline_calcs; eauto|]. intros ok s' HL'. apply safe_ret; simpl; split; auto.
      * apply safe_ret. apply safe_bind. eapply safe_weaken; [apply li_spline_calcs; eauto|]. intros ok s' HL'. apply safe_ret; simpl; split; auto.
    + apply safe_bind. eapply safe_weaken; [apply li_malloc; eauto|]. intros [b|] s' HL'.
      * apply safe_ret. apply safe_bind.
        assert (HL2 : LI (vown (set_merr v (Some b)) ++ psown ps ++ F) s').
        { eapply LI_eq; eauto. unfold vown; simpl; rewrite Hm. ms. }
        destruct (0 <? c_freqs (vn_cfg v)).
        -- simpl. eapply safe_weaken; [eapply li_touch; [exact HL2|]|].
           { unfold vown; simpl. autorewrite with cntdb. rewrite ind_same. lia. }
           intros u s'' ->.
           apply safe_bind. eapply safe_weaken; [apply li_spline_calcs; eauto|]. intros ok s'' HL''. apply safe_ret; simpl; split; auto.
        -- apply safe_ret. apply safe_bind. eapply safe_weaken; [apply li_spline_calcs; eauto|]. intros ok s'' HL''. apply safe_ret; simpl; split; auto.
      * apply safe_ret. apply safe_ret; simpl; split; auto.
Qed.

(* the call completes for every fault point; the ledger still equals what the world refers to *)
Theorem new_merr_fault_clean_lemma : forall F v ps a s, Post F v ps s ->
  exists v' o s', set_m_error NFixed v a s = Ok ((v', o), s') /\ Post F v' ps s'.
Proof.
  intros F v ps a s HP. destruct (li_set_m_error F v ps a s HP) as [[v' o] [s' [He HP']]]. exists v', o, s'; auto.
Qed.

(* without splines a failed vnacal_new_set_m_error leaves the structure as it was *)
Theorem new_merr_atomic_lemma : forall v a s v' s', (a = MESet 0 \/ a = MEClear \/ a = MEBadCount \/ a = MEInvalid) ->
  set_m_error NFixed v a s = Ok ((v', Err ENOMEM), s') -> v' = v.
Proof.
  intros v a s v' s' Ha H. unfold set_m_error in H.
  destruct Ha as [Ha|[Ha|[Ha|Ha]]]; subst a; try (unfold ret in H; inversion H; fail).
  - destruct (vn_fvalid v); cbn [negb] in H; [|unfold ret in H; inversion H].
    unfold bind, ret in H. cbn [spline_calcs] in H. unfold ret in H.
    destruct (vn_merr v) as [b|] eqn:Hm.
    + destruct (0 <? c_freqs (vn_cfg v)).
      * rewrite Hm in H. destruct (touch (Some b) s) as [[u s1]|]; inversion H.
      * inversion H.
    + destruct (malloc (Z.of_nat (c_freqs (vn_cfg v)) * 16) s) as [[[b|] s1]|]; try discriminate.
      * destruct (0 <? c_freqs (vn_cfg v)).
        -- cbn [set_merr vn_merr] in H. destruct (touch (Some b) s1) as [[u s2]|]; inversion H.
        -- inversion H.
      * inversion H; reflexivity.
  - unfold bind, ret in H. destruct (free (vn_merr v) s) as [[u s1]|]; inversion H.
Qed.

(* ---------------------------------------------------------------- refutations (bug shapes, non-atomic exits) *)
Definition cfgA : ncfg := mkCfg true 2 1 1 4 None 1 true 4.
Definition addA (p : nat) : addargs := mkAdd AOk 1 [p] [(0, 2)].
Definition ks5 : list pkind := [KScalar; KScalar; KScalar; KScalar; KCorr 3; KUnknown 3].

(* seeded change C03-9: the clear branch frees the vector and leaves the pointer: the next set / free uses it *)
Theorem new_merr_clear_dangling_refuted_lemma :
  exists ops, whistory NClearDangling [KScalar; KScalar; KScalar] ops (start None) = Fault UseAfterFree /\
              exists r, whistory NFixed [KScalar; KScalar; KScalar] ops (start None) = Ok r.
Proof.
  exists [WNew cfgA; WSetF 0; WMErr 0 (MESet 0); WMErr 0 MEClear; WMErr 0 (MESet 0)]. split; [vm_compute; reflexivity|].
  eexists; vm_compute; reflexivity.
Qed.

(* seeded change C12-9: the hold taken before the recursion is not given back when the correlate's node cannot be allocated *)
Theorem new_hold_early_leak_refuted_lemma :
  exists ks ops k os held s, whistory NHoldEarly ks ops (start (Some k)) = Ok ((os, held), s) /\ held <> map (fun _ => 0) ks /\
    exists os' s', whistory NFixed ks ops (start (Some k)) = Ok ((os', map (fun _ => 0) ks), s').
Proof.
  exists ks5, [WNew cfgA; WAdd 0 (addA 4)], 9. eexists; eexists; eexists. split; [vm_compute; reflexivity|].
  split; [discriminate|]. eexists; eexists; vm_compute; reflexivity.
Qed.

(* as coded: a standard whose add fails with ENOMEM after _vnacal_new_get_parameter has run leaves its parameters (and
   unknowns) in the vnacal_new_t *)
Theorem new_add_not_atomic_refuted_lemma :
  exists ks ops k w os s, wrun NFixed (mkW (mkprms ks) []) ops (start (Some k)) = Ok ((w, os), s) /\
    last os Done = Err ENOMEM /\
    map (fun o => match o with Some v => (vn_unk v, vn_nmeas v) | None => ([], 0) end) (w_new w) = [([4], 0)].
Proof.
  exists ks5, [WNew cfgA; WAdd 0 (addA 4)], 11.
  eexists; eexists; eexists. split; [vm_compute; reflexivity|]. split; vm_compute; reflexivity.
Qed.

(* as coded: when _vnacommon_spline_calc fails, vnacal_new_set_m_error returns -1 with a freshly allocated, zeroed vector installed *)
Theorem new_merr_spline_not_atomic_refuted_lemma :
  exists ks ops k w os s, wrun NFixed (mkW (mkprms ks) []) ops (start (Some k)) = Ok ((w, os), s) /\
    last os Done = Err ENOMEM /\
    map (fun o => match o with Some v => match vn_merr v with Some _ => true | None => false end | None => false end) (w_new w) = [true].
Proof.
  exists ks5, [WNew cfgA; WSetF 0; WMErr 0 (MESet 1)], 7.
  eexists; eexists; eexists. split; [vm_compute; reflexivity|]. split; vm_compute; reflexivity.
Qed.

(* as coded: the write-back stores the first solved vector and then fails on the frequency vector of the second unknown:
   vnacal_new_solve returns -1, vn_calibration is unchanged, and one parameter already carries the new solution *)
Theorem new_solve_writeback_not_atomic_refuted_lemma :
  exists ks ops k w os s, wrun NFixed (mkW (mkprms ks) []) ops (start (Some k)) = Ok ((w, os), s) /\
    last os Done = Err ENOMEM /\
    map (fun p => match pgv p with Some _ => true | None => false end) (w_prm w) = [false; false; false; false; true; false].
Proof.
  exists ks5, [WNew cfgA; WSetF 0; WAdd 0 (addA 4); WAdd 0 (addA 5); WSolve 0 0 false], 40.
  eexists; eexists; eexists. split; [vm_compute; reflexivity|]. split; vm_compute; reflexivity.
Qed.

(* the invariant of the per-call theorems is met by a reachable state: a calibration with its frequency vector,
   bucket array, the node of VNACAL_ZERO, the system vector and a measurement-error vector (6 live blocks) *)
Example new_post_satisfiable : exists v ps s, Post [] v ps s /\ vn_merr v <> None /\ length (live s) = 6.
Proof.
  exists (mkVn cfgA 0 (Some 1) true (Some 2) 8 [(0, 3)] [] (Some 4) (Some 5) 0 [] [] [] []),
         (hold (mkprms [KScalar; KScalar; KScalar]) 0),
         (mkA None [(5, 32%Z); (4, 32%Z); (3, 64%Z); (2, 64%Z); (1, 16%Z); (0, 400%Z)] 6).
  split; [|split; [discriminate | reflexivity]].
  split; [|split; [discriminate|]].
  - split.
    + split; [repeat constructor; simpl; intuition lia | simpl; intros x Hx; intuition lia].
    + intro x. change (cnt x [0; 1; 2; 3; 4; 5] = cnt x (rev [0; 1; 2; 3; 4; 5])). rewrite cnt_rev. reflexivity.
  - intros i o Ho. destruct i as [|[|[|i]]]; simpl in Ho; try discriminate. destruct i; discriminate.
Qed.

(* ---------------------------------------------------------------- vnacal_new_free *)
(* of a complete or partly built structure: every block it refers to is released, nothing else is touched *)
Lemma li_new_free : forall F v ps s, LI (vown v ++ psown ps ++ F) s -> (vn_tab v = None -> vn_nodes v = []) ->
  safe (new_free v ps) s (fun ps' s' => LI (psown ps' ++ F) s' /\ (cfgok ps -> cfgok ps') /\ length ps' = length ps).
Proof.
  intros F v ps s HL Hn. unfold new_free, vown in *.
  set (P := psown ps ++ F) in *.
  apply safe_bind. eapply safe_weaken; [apply (li_frees (rev (vn_cal v)) _
     (vn_blk v :: optl (vn_fvec v) ++ optl (vn_tab v) ++ map snd (vn_nodes v) ++ optl (vn_sysv v) ++ optl (vn_merr v) ++ vn_mblocks v ++ vn_eblocks v ++ P) s HL)|]; [ms|].
  intros u1 s1 H1.
  apply safe_bind. eapply safe_weaken; [apply (li_frees (vn_eblocks v) _
     (vn_blk v :: optl (vn_fvec v) ++ optl (vn_tab v) ++ map snd (vn_nodes v) ++ optl (vn_sysv v) ++ optl (vn_merr v) ++ vn_mblocks v ++ P) s1 H1)|]; [ms|].
  intros u2 s2 H2.
  apply safe_bind. eapply safe_weaken; [apply (li_free_opt _
     (vn_blk v :: optl (vn_fvec v) ++ optl (vn_tab v) ++ map snd (vn_nodes v) ++ optl (vn_merr v) ++ vn_mblocks v ++ P) s2 (vn_sysv v) H2)|]; [ms|].
  intros u3 s3 H3.
  apply safe_bind. eapply safe_weaken; [apply (li_frees (vn_mblocks v) _
     (vn_blk v :: optl (vn_fvec v) ++ optl (vn_tab v) ++ map snd (vn_nodes v) ++ optl (vn_merr v) ++ P) s3 H3)|]; [ms|].
  intros u4 s4 H4.
  apply safe_bind. eapply safe_weaken; [apply (li_free_opt _
     (vn_blk v :: optl (vn_fvec v) ++ optl (vn_tab v) ++ map snd (vn_nodes v) ++ P) s4 (vn_merr v) H4)|]; [ms|].
  intros u5 s5 H5.
  apply safe_bind.
  assert (Hh : safe (match vn_tab v with
                     | None => ret ps
                     | Some t => frees (map snd (vn_nodes v)) ;;; free (Some t) ;;; ret (release_all ps (map fst (vn_nodes v)))
                     end) s5
                 (fun ps' s' => LI (vn_blk v :: optl (vn_fvec v) ++ psown ps' ++ F) s' /\ (cfgok ps -> cfgok ps') /\ length ps' = length ps)).
  { destruct (vn_tab v) as [t|] eqn:Ht.
    - apply safe_bind. eapply safe_weaken; [apply (li_frees (map snd (vn_nodes v)) _ (vn_blk v :: optl (vn_fvec v) ++ optl (Some t) ++ P) s5 H5)|]; [ms|].
      intros u6 s6 H6.
      apply safe_bind. eapply safe_weaken; [apply (li_free _ (vn_blk v :: optl (vn_fvec v) ++ P) s6 t H6)|]; [ms|].
      intros u7 s7 H7. apply safe_ret. split; [|split].
      + apply (LI_eq _ _ _ H7). unfold P. intro x. autorewrite with cntdb. rewrite psown_release_all. reflexivity.
      + apply cfgok_release_all.
      + clear. generalize ps. induction (map fst (vn_nodes v)); simpl; intros; auto. rewrite IHl. unfold release. apply length_upd2.
    - apply safe_ret. rewrite (Hn eq_refl) in H5. split; [|split]; auto. }
  eapply safe_weaken; [exact Hh|]. intros ps' s6 [H6 [Hc Hlen]].
  apply safe_bind. eapply safe_weaken; [apply (li_free_opt _ (vn_blk v :: psown ps' ++ F) s6 (vn_fvec v) H6)|]; [ms|].
  intros u7 s7 H7.
  apply safe_bind. eapply safe_weaken; [apply (li_free _ (psown ps' ++ F) s7 (vn_blk v) H7)|]; [ms|].
  intros u8 s8 H8. apply safe_ret. auto.
Qed.

Theorem new_free_clean_lemma : forall F v ps s, LI (vown v ++ psown ps ++ F) s -> (vn_tab v = None -> vn_nodes v = []) ->
  exists ps' s', new_free v ps s = Ok (ps', s') /\ LI (psown ps' ++ F) s' /\ length ps' = length ps.
Proof.
  intros F v ps s HL Hn. destruct (li_new_free F v ps s HL Hn) as [ps' [s' [He [H1 [_ H2]]]]]. exists ps', s'; auto.
Qed.
