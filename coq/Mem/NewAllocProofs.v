(* Proofs about the vnacal_new_t allocation skeleton (NewAlloc.v).
   Ownership is counted: [cnt x l] is the number of occurrences of block x in l, the invariant says that the
   multiset of blocks the world refers to equals the ledger, and every step of a proof about a free / malloc
   is a linear equation between such counts (tactic [ms]). *)
Require Import List ZArith Bool Arith Lia.
Import ListNotations.
Require Import LV.Mem.Alloc LV.Mem.AllocProofs LV.Mem.PropList LV.Mem.PropListProofs LV.Mem.NewAlloc.
Open Scope nat_scope.

(* ---------------------------------------------------------------- counting *)
Definition cnt (x : nat) (l : list nat) : nat := count_occ Nat.eq_dec l x.
Definition ind (x b : nat) : nat := if Nat.eq_dec b x then 1 else 0.

Lemma cnt_nil : forall x, cnt x [] = 0.
Proof. reflexivity. Qed.
Lemma cnt_cons : forall x b l, cnt x (b :: l) = ind x b + cnt x l.
Proof. intros; unfold cnt, ind; simpl; destruct (Nat.eq_dec b x); reflexivity. Qed.
Lemma cnt_app : forall x a b, cnt x (a ++ b) = cnt x a + cnt x b.
Proof. intros; unfold cnt; apply count_occ_app. Qed.
Lemma cnt_rev : forall x l, cnt x (rev l) = cnt x l.
Proof. intros; unfold cnt; induction l; simpl; auto. rewrite count_occ_app; simpl. destruct (Nat.eq_dec a x); lia. Qed.
Lemma cnt_optl : forall x o, cnt x (optl o) = match o with Some b => ind x b | None => 0 end.
Proof. intros x [b|]; unfold optl; [rewrite cnt_cons, cnt_nil; lia | reflexivity]. Qed.
Lemma ind_same : forall b, ind b b = 1.
Proof. intro b; unfold ind; destruct (Nat.eq_dec b b); congruence. Qed.
Lemma ind_le : forall x b, ind x b <= 1.
Proof. intros; unfold ind; destruct (Nat.eq_dec b x); lia. Qed.
Lemma ind_other : forall x b, x <> b -> ind x b = 0.
Proof. intros; unfold ind; destruct (Nat.eq_dec b x); congruence. Qed.

Lemma cnt_in : forall x l, 1 <= cnt x l <-> In x l.
Proof. intros; unfold cnt; rewrite (count_occ_In Nat.eq_dec); lia. Qed.

Lemma cnt_nodup : forall l, NoDup l -> forall x, cnt x l <= 1.
Proof. intros l H x; unfold cnt; rewrite (NoDup_count_occ Nat.eq_dec) in H; apply H. Qed.

Lemma nodup_cnt : forall l, (forall x, cnt x l <= 1) -> NoDup l.
Proof. intros l H; apply (NoDup_count_occ Nat.eq_dec); exact H. Qed.

Lemma cnt_optl_some : forall x b, cnt x (optl (Some b)) = ind x b.
Proof. intros; unfold optl; rewrite cnt_cons, cnt_nil; lia. Qed.
Lemma cnt_optl_none : forall x, cnt x (optl None) = 0.
Proof. reflexivity. Qed.
Arguments cnt : simpl never.
Arguments ind : simpl never.
#[export] Hint Rewrite cnt_nil cnt_cons cnt_app cnt_rev cnt_optl_some cnt_optl_none : cntdb.

Ltac inst_all x :=
  repeat match goal with
         | H : forall y : nat, cnt y _ = _ |- _ => let H' := fresh H in pose proof (H x) as H'; clear H; rename H' into H
         end;
  repeat match goal with
         | H : forall y : nat, _ + _ = _ |- _ => let H' := fresh H in pose proof (H x) as H'; clear H; rename H' into H
         end.
Ltac ms :=
  let x := fresh "x" in
  intro x; inst_all x; autorewrite with cntdb in *; simpl; try lia.

(* ---------------------------------------------------------------- the ledger invariant *)
Definition LI (own : list block_id) (s : astate) : Prop := wf s /\ forall x, cnt x own = cnt x (ids s).

Lemma LI_eq : forall own own' s, LI own s -> (forall x, cnt x own' = cnt x own) -> LI own' s.
Proof. intros own own' s [Hw H] He; split; auto. intro x; rewrite He; apply H. Qed.

Lemma LI_live : forall own s b, LI own s -> 1 <= cnt b own -> In b (ids s).
Proof. intros own s b [_ H] Hc. apply cnt_in. rewrite <- H. exact Hc. Qed.

Lemma LI_nodup : forall own s, LI own s -> forall x, cnt x own <= 1.
Proof. intros own s [[Hnd _] H] x. rewrite H. apply cnt_nodup; exact Hnd. Qed.

Lemma li_malloc : forall own s sz, LI own s ->
  safe (malloc sz) s (fun r s' => match r with Some b => LI (b :: own) s' | None => LI own s' end).
Proof.
  intros own s sz [Hw H]. eapply safe_weaken; [apply safe_malloc; exact Hw|].
  intros [b|] s' [Hw' Hr].
  - destruct Hr as [_ [_ [Hids _]]]. split; auto. intro x. rewrite Hids, !cnt_cons, H. reflexivity.
  - destruct Hr as [Hids _]. split; auto. intro x. rewrite Hids. apply H.
Qed.

Lemma li_free : forall own own' s b, LI own s -> (forall x, cnt x own = ind x b + cnt x own') ->
  safe (free (Some b)) s (fun _ s' => LI own' s').
Proof.
  intros own own' s b HL He. pose proof HL as [Hw H].
  assert (Hin : In b (ids s)). { eapply LI_live; eauto. rewrite He, ind_same; lia. }
  eapply safe_weaken; [apply safe_free; eauto|].
  intros u s' [Hw' [_ Hi]]. split; auto. intro x.
  pose proof (cnt_nodup _ (proj1 Hw) x) as H1. pose proof (cnt_nodup _ (proj1 Hw') x) as H2.
  specialize (He x). rewrite H in He.
  destruct (Nat.eq_dec x b) as [->|Hne].
  - rewrite ind_same in He. assert (~ In b (ids s')) by (intro Hx; apply Hi in Hx; tauto).
    assert (cnt b (ids s') = 0). { destruct (cnt b (ids s')) eqn:E; auto. exfalso; apply H0, cnt_in; lia. }
    lia.
  - rewrite ind_other in He by auto.
    destruct (in_dec Nat.eq_dec x (ids s)) as [Hx|Hx].
    + assert (In x (ids s')) by (apply Hi; auto). apply cnt_in in Hx. apply cnt_in in H0. lia.
    + assert (~ In x (ids s')) by (intro Hx'; apply Hi in Hx'; tauto).
      assert (cnt x (ids s) = 0). { destruct (cnt x (ids s)) eqn:E; auto. exfalso; apply Hx, cnt_in; lia. }
      assert (cnt x (ids s') = 0). { destruct (cnt x (ids s')) eqn:E; auto. exfalso; apply H0, cnt_in; lia. }
      lia.
Qed.

Lemma li_free_opt : forall own own' s o, LI own s -> (forall x, cnt x own = cnt x (optl o) + cnt x own') ->
  safe (free o) s (fun _ s' => LI own' s').
Proof.
  intros own own' s [b|] HL He.
  - apply (li_free own own' s b HL). intro x; rewrite He, cnt_optl; reflexivity.
  - exists tt, s; split; [reflexivity|]. eapply LI_eq; eauto. intro x; rewrite He; reflexivity.
Qed.

Lemma li_frees : forall l own own' s, LI own s -> (forall x, cnt x own = cnt x l + cnt x own') ->
  safe (frees l) s (fun _ s' => LI own' s').
Proof.
  induction l as [|b l IH]; intros own own' s HL He; simpl.
  - apply safe_ret. eapply LI_eq; eauto. intro x; rewrite He; reflexivity.
  - apply safe_bind.
    assert (He1 : forall x, cnt x own = ind x b + cnt x (l ++ own')) by (intro x; rewrite He, cnt_cons, cnt_app; lia).
    eapply safe_weaken; [exact (li_free own (l ++ own') s b HL He1)|].
    intros u s' HL'. apply (IH (l ++ own') own' s' HL'). intro x; rewrite cnt_app; reflexivity.
Qed.

Lemma li_allocl : forall szs acc own s, LI own s ->
  safe (allocl szs acc) s (fun r s' => exists new, snd r = acc ++ new /\ LI (new ++ own) s').
Proof.
  induction szs as [|sz szs IH]; intros acc own s HL; simpl.
  - apply safe_ret. exists []; simpl; rewrite app_nil_r; auto.
  - apply safe_bind. eapply safe_weaken; [apply li_malloc; eauto|].
    intros [b|] s' HL'.
    + eapply safe_weaken; [apply (IH (acc ++ [b]) (b :: own)); eauto|].
      intros [ok got] s'' [new [Hs HL'']]; simpl in *. exists (b :: new). split.
      * rewrite Hs, <- app_assoc; reflexivity.
      * eapply LI_eq; eauto. intro x; autorewrite with cntdb; lia.
    + apply safe_ret. exists []; simpl; rewrite app_nil_r; auto.
Qed.

Lemma li_touch : forall own s b, LI own s -> 1 <= cnt b own -> safe (touch (Some b)) s (fun _ s' => s' = s).
Proof.
  intros own s b HL Hc. exists tt, s; split; auto. unfold touch.
  assert (Hl : is_live b s = true) by (apply is_live_iff; eapply LI_live; eauto). rewrite Hl; reflexivity.
Qed.

Lemma li_realloc : forall own rest s b sz, LI own s -> (forall x, cnt x own = ind x b + cnt x rest) ->
  safe (realloc (Some b) sz) s (fun r s' => match r with Some nb => LI (nb :: rest) s' | None => LI own s' end).
Proof.
  intros own rest s b sz HL He. pose proof HL as [Hw H].
  assert (Hin : In b (ids s)). { eapply LI_live; eauto. rewrite He, ind_same; lia. }
  eapply safe_weaken; [apply safe_realloc; [exact Hw | intros b' Hb'; inversion Hb'; subst; exact Hin]|].
  intros [nb|] s' [Hw' Hr].
  - destruct Hr as [Hnb [Hni [_ Hi]]]. split; auto. intro x. rewrite cnt_cons.
    pose proof (cnt_nodup _ (proj1 Hw) x) as H1. pose proof (cnt_nodup _ (proj1 Hw') x) as H2.
    specialize (He x). rewrite H in He.
    assert (Hc : forall l y, ~ In y l -> cnt y l = 0).
    { intros l y Hy. destruct (cnt y l) eqn:E; auto. exfalso; apply Hy, cnt_in; lia. }
    destruct (Nat.eq_dec x nb) as [->|Hne].
    + rewrite ind_same. assert (In nb (ids s')) by (apply Hi; auto). apply cnt_in in H0.
      rewrite (Hc _ _ Hni) in He. assert (cnt nb rest = 0) by lia. lia.
    + rewrite (ind_other x nb) by auto.
      destruct (Nat.eq_dec x b) as [->|Hnb'].
      * rewrite ind_same in He. assert (~ In b (ids s')).
        { intro Hx; apply Hi in Hx. destruct Hx as [Hx|[_ Hx]]; [congruence | apply Hx; reflexivity]. }
        rewrite (Hc _ _ H0). lia.
      * rewrite ind_other in He by auto.
        destruct (in_dec Nat.eq_dec x (ids s)) as [Hx|Hx].
        -- assert (In x (ids s')) by (apply Hi; right; split; auto; intro Hs; inversion Hs; congruence).
           apply cnt_in in Hx. apply cnt_in in H0. lia.
        -- assert (~ In x (ids s')) by (intro Hx'; apply Hi in Hx'; destruct Hx' as [Hx'|[Hx' _]]; auto).
           rewrite (Hc _ _ Hx) in He. rewrite (Hc _ _ H0). lia.
  - destruct Hr as [Hids _]. split; auto. intro x; rewrite Hids; apply H.
Qed.

(* ---------------------------------------------------------------- what the world owns *)
Definition pown (p : prm) : list block_id := optl (pfv p) ++ optl (pgv p).
Definition psown (ps : list prm) : list block_id := flat_map pown ps.
Definition vown (v : vnew) : list block_id :=
  vn_blk v :: optl (vn_fvec v) ++ optl (vn_tab v) ++ map snd (vn_nodes v) ++ optl (vn_sysv v) ++ optl (vn_merr v) ++
  vn_mblocks v ++ vn_eblocks v ++ vn_cal v.
Definition oown (o : option vnew) : list block_id := match o with Some v => vown v | None => [] end.
Definition wown (w : world) : list block_id := psown (w_prm w) ++ flat_map oown (w_new w).

(* parameters are in creation order, and a parameter that records a frequency count has its frequency vector *)
Definition cfgok (ps : list prm) : Prop :=
  (forall i o, pother (pkd (nth i ps pdummy)) = Some o -> o < i) /\
  (forall i, pfn (nth i ps pdummy) <> 0 -> pfv (nth i ps pdummy) <> None).

Lemma nth_upd_eq : forall A (l : list A) n v d, n < length l -> nth n (upd l n v) d = v.
Proof. induction l; destruct n; simpl; intros; try lia; auto. apply IHl; lia. Qed.
Lemma nth_upd_ne : forall A (l : list A) n m v d, n <> m -> nth m (upd l n v) d = nth m l d.
Proof. induction l; destruct n, m; simpl; intros; try lia; auto. Qed.
Lemma upd_short : forall A (l : list A) n v, length l <= n -> upd l n v = l.
Proof. induction l; destruct n; simpl; intros; try lia; auto. f_equal; apply IHl; lia. Qed.
Lemma length_upd2 : forall A (l : list A) n v, length (upd l n v) = length l.
Proof. induction l; destruct n; simpl; intros; auto. Qed.

Lemma cnt_flat_upd : forall A (f : A -> list nat) (l : list A) n v d x, n < length l ->
  cnt x (flat_map f (upd l n v)) + cnt x (f (nth n l d)) = cnt x (flat_map f l) + cnt x (f v).
Proof.
  induction l; destruct n; simpl; intros; try lia.
  - rewrite !cnt_app; lia.
  - rewrite !cnt_app. specialize (IHl n v d x ltac:(lia)). lia.
Qed.

(* replacing parameter u by one that owns [new] instead of [old] *)
Lemma psown_upd : forall ps u p' x,
  cnt x (psown (upd ps u p')) + (if u <? length ps then cnt x (pown (nth u ps pdummy)) else 0) =
  cnt x (psown ps) + (if u <? length ps then cnt x (pown p') else 0).
Proof.
  intros. unfold psown. destruct (Nat.ltb_spec u (length ps)).
  - apply cnt_flat_upd; auto.
  - rewrite upd_short by lia. lia.
Qed.

Lemma psown_hold : forall ps i x, cnt x (psown (hold ps i)) = cnt x (psown ps).
Proof.
  intros. unfold hold. pose proof (psown_upd ps i (mkPr (pkd (nth i ps pdummy)) (S (pheld (nth i ps pdummy))) (pfv (nth i ps pdummy)) (pgv (nth i ps pdummy)) (pfn (nth i ps pdummy))) x) as H.
  unfold pown in *; simpl in *. destruct (i <? length ps); lia.
Qed.
Lemma psown_release : forall ps i x, cnt x (psown (release ps i)) = cnt x (psown ps).
Proof.
  intros. unfold release. pose proof (psown_upd ps i (mkPr (pkd (nth i ps pdummy)) (pred (pheld (nth i ps pdummy))) (pfv (nth i ps pdummy)) (pgv (nth i ps pdummy)) (pfn (nth i ps pdummy))) x) as H.
  unfold pown in *; simpl in *. destruct (i <? length ps); lia.
Qed.
Lemma psown_release_all : forall ks ps x, cnt x (psown (release_all ps ks)) = cnt x (psown ps).
Proof. induction ks; simpl; intros; auto. rewrite IHks. apply psown_release. Qed.

Lemma pkd_upd : forall ps u p' i, pkd p' = pkd (nth u ps pdummy) -> pkd (nth i (upd ps u p') pdummy) = pkd (nth i ps pdummy).
Proof.
  intros. destruct (Nat.ltb_spec u (length ps)).
  - destruct (Nat.eq_dec u i) as [->|Hne]; [rewrite nth_upd_eq by auto; auto | rewrite nth_upd_ne by auto; auto].
  - rewrite upd_short by lia; auto.
Qed.
Lemma cfgok_upd : forall ps u p', cfgok ps -> pkd p' = pkd (nth u ps pdummy) -> (pfn p' <> 0 -> pfv p' <> None) -> cfgok (upd ps u p').
Proof.
  intros ps u p' [H1 H2] He Hv. split.
  - intros i o Ho. rewrite pkd_upd in Ho by auto. apply H1; auto.
  - intros i. destruct (Nat.ltb_spec u (length ps)).
    + destruct (Nat.eq_dec u i) as [->|Hne]; [rewrite nth_upd_eq by auto; auto | rewrite nth_upd_ne by auto; apply H2].
    + rewrite upd_short by lia. apply H2.
Qed.
Lemma cfgok_hold : forall ps i, cfgok ps -> cfgok (hold ps i).
Proof. intros ps i H; unfold hold; apply cfgok_upd; auto. simpl. apply (proj2 H). Qed.
Lemma cfgok_release : forall ps i, cfgok ps -> cfgok (release ps i).
Proof. intros ps i H; unfold release; apply cfgok_upd; auto. simpl. apply (proj2 H). Qed.
Lemma cfgok_release_all : forall ks ps, cfgok ps -> cfgok (release_all ps ks).
Proof. induction ks; simpl; intros; auto. apply IHks, cfgok_release; auto. Qed.
Lemma length_hold : forall ps i, length (hold ps i) = length ps.
Proof. intros; unfold hold; apply length_upd2. Qed.

(* ---------------------------------------------------------------- vnacal_new_set_m_error *)
Definition Post (F : list block_id) (v : vnew) (ps : list prm) (s : astate) : Prop :=
  LI (vown v ++ psown ps ++ F) s /\ vn_tab v <> None /\ cfgok ps.

Lemma li_spline_calc : forall own s, LI own s -> safe spline_calc s (fun _ s' => LI own s').
Proof.
  intros own s HL; unfold spline_calc. apply safe_bind.
  eapply safe_weaken; [apply li_allocl; eauto|]. intros [ok bs] s' [new [Hs HL']]; simpl in *. subst bs.
  apply safe_bind. eapply safe_weaken; [apply (li_frees new (new ++ own) own); eauto|].
  - intro x; rewrite cnt_app; reflexivity.
  - intros u s'' HL''. apply safe_ret; auto.
Qed.
Lemma li_spline_calcs : forall n own s, LI own s -> safe (spline_calcs n) s (fun _ s' => LI own s').
Proof.
  induction n; intros own s HL; simpl; [apply safe_ret; auto|].
  apply safe_bind. eapply safe_weaken; [apply li_spline_calc; eauto|].
  intros [|] s' HL'; [apply IHn; auto | apply safe_ret; auto].
Qed.

Lemma li_set_m_error : forall F v ps a s, Post F v ps s ->
  safe (set_m_error NFixed v a) s (fun r s' => Post F (fst r) ps s' /\ (snd r <> Done -> fst r = v) /\ vn_unk (fst r) = vn_unk v).
Proof.
  intros F v ps a s [HL [Ht Hc]]. unfold set_m_error. destruct a as [| | |n|n].
  - apply safe_ret; simpl; split; [split|split]; auto.
  - apply safe_bind.
    assert (He : forall x, cnt x (vown v ++ psown ps ++ F) = cnt x (optl (vn_merr v)) + cnt x (vown (set_merr v None) ++ psown ps ++ F)).
    { unfold vown; simpl. ms. }
    eapply safe_weaken; [exact (li_free_opt _ _ s (vn_merr v) HL He)|].
    intros u s' HL'. apply safe_ret; simpl. split; [split; auto | split; [intro H; congruence | reflexivity]].
  - apply safe_ret; simpl; split; [split|split]; auto.
  - destruct (vn_fvalid v); simpl; [|apply safe_ret; simpl; split; [split|split]; auto].
    apply safe_bind. eapply safe_weaken; [apply li_spline_calcs; exact HL|]. intros [|] s0 HL0; simpl;
      [|apply safe_ret; simpl; split; [split|split]; auto].
    apply safe_bind. destruct (vn_merr v) as [b|] eqn:Hm.
    + apply safe_ret. apply safe_bind.
      assert (Hb : 1 <= cnt b (vown v ++ psown ps ++ F)).
      { unfold vown; rewrite Hm. autorewrite with cntdb. rewrite ind_same. lia. }
      destruct (0 <? c_freqs (vn_cfg v)).
      * rewrite Hm. eapply safe_weaken; [eapply li_touch; eauto|]. intros u s' ->.
        apply safe_ret; simpl; split; [split; auto | split; [intro H; congruence | reflexivity]].
      * apply safe_ret. apply safe_ret; simpl; split; [split; auto | split; [intro H; congruence | reflexivity]].
    + apply safe_bind. eapply safe_weaken; [apply li_malloc; eauto|]. intros [b|] s' HL'.
      * apply safe_ret. apply safe_bind.
        assert (HL2 : LI (vown (set_merr v (Some b)) ++ psown ps ++ F) s').
        { eapply LI_eq; eauto. unfold vown; simpl; rewrite Hm. ms. }
        destruct (0 <? c_freqs (vn_cfg v)).
        -- simpl. eapply safe_weaken; [eapply li_touch; [exact HL2|]|].
           { unfold vown; simpl. autorewrite with cntdb. rewrite ind_same. lia. }
           intros u s'' ->. apply safe_ret; simpl; split; [split; auto | split; [intro H; congruence | reflexivity]].
        -- apply safe_ret. apply safe_ret; simpl; split; [split; auto | split; [intro H; congruence | reflexivity]].
      * apply safe_ret. apply safe_ret; simpl; split; [split|split]; auto.
  - destruct (vn_fvalid v); simpl; [|apply safe_ret; simpl; split; [split|split]; auto].
    apply safe_bind. eapply safe_weaken; [apply li_spline_calcs; exact HL|]. intros [|] s0 HL0; simpl;
      [|apply safe_ret; simpl; split; [split|split]; auto].
    apply safe_bind. eapply safe_weaken; [apply li_spline_calc; exact HL0|]. intros ok2 s1 HL1.
    apply safe_ret; simpl. split; [split; auto | split; [auto | reflexivity]].
Qed.

(* vnacal_new_set_m_error, every argument class, every fault point, any state: the call completes, the ledger still equals
   what the world refers to, and a call that does not succeed leaves the structure exactly as it was (DI90) *)
Theorem new_merr_fault_clean_lemma : forall F v ps a s, Post F v ps s ->
  exists v' o s', set_m_error NFixed v a s = Ok ((v', o), s') /\ Post F v' ps s' /\ (o <> Done -> v' = v).
Proof.
  intros F v ps a s HP. destruct (li_set_m_error F v ps a s HP) as [[v' o] [s' [He [HP' [Ha _]]]]]. exists v', o, s'; auto.
Qed.

(* ---------------------------------------------------------------- refutations (bug shapes, non-atomic exits) *)
Definition cfgA : ncfg := mkCfg true 2 1 1 4 None 1 true 4.
Definition addA (p : nat) : addargs := mkAdd AOk 1 [p] [(0, 2)].
Definition ks5 : list pkind := [KScalar; KScalar; KScalar; KScalar; KCorr 3; KUnknown 3].

(* seeded change C03-9: the clear branch frees the vector and leaves the pointer: the next set / free uses it *)
Theorem new_merr_clear_dangling_refuted_lemma :
  exists ops, whistory NClearDangling [KScalar; KScalar; KScalar] ops (start None) = Fault UseAfterFree /\
              exists r, whistory NFixed [KScalar; KScalar; KScalar] ops (start None) = Ok r.
Proof.
  exists [WNew cfgA; WSetF 0; WMErr 0 (MESet 0); WMErr 0 MEClear; WMErr 0 (MESet 0)]. split; [vm_compute; reflexivity|].
  eexists; vm_compute; reflexivity.
Qed.

(* seeded change C12-9: the hold taken before the recursion is not given back when the correlate's node cannot be allocated *)
Theorem new_hold_early_leak_refuted_lemma :
  exists ks ops k os held s, whistory NHoldEarly ks ops (start (Some k)) = Ok ((os, held), s) /\ held <> map (fun _ => 0) ks /\
    exists os' s', whistory NFixed ks ops (start (Some k)) = Ok ((os', map (fun _ => 0) ks), s').
Proof.
  exists ks5, [WNew cfgA; WAdd 0 (addA 4)], 9. eexists; eexists; eexists. split; [vm_compute; reflexivity|].
  split; [discriminate|]. eexists; eexists; vm_compute; reflexivity.
Qed.

(* as coded: a standard whose add fails with ENOMEM after _vnacal_new_get_parameter has run leaves its parameters (and
   unknowns) in the vnacal_new_t *)
Theorem new_add_not_atomic_refuted_lemma :
  exists ks ops k w os s, wrun NFixed (mkW (mkprms ks) []) ops (start (Some k)) = Ok ((w, os), s) /\
    last os Done = Err ENOMEM /\
    map (fun o => match o with Some v => (vn_unk v, vn_nmeas v) | None => ([], 0) end) (w_new w) = [([4], 0)].
Proof.
  exists ks5, [WNew cfgA; WAdd 0 (addA 4)], 11.
  eexists; eexists; eexists. split; [vm_compute; reflexivity|]. split; vm_compute; reflexivity.
Qed.

(* before the repair DI90: when _vnacommon_spline_calc fails, vnacal_new_set_m_error returns -1 with a freshly allocated, zeroed vector installed *)
Theorem new_merr_spline_not_atomic_refuted_lemma :
  exists ks ops k w os s, wrun NSplineLate (mkW (mkprms ks) []) ops (start (Some k)) = Ok ((w, os), s) /\
    last os Done = Err ENOMEM /\
    map (fun o => match o with Some v => match vn_merr v with Some _ => true | None => false end | None => false end) (w_new w) = [true].
Proof.
  exists ks5, [WNew cfgA; WSetF 0; WMErr 0 (MESet 1)], 7.
  eexists; eexists; eexists. split; [vm_compute; reflexivity|]. split; vm_compute; reflexivity.
Qed.

(* before the repair DI92 (variant NWriteBackLate): the write-back stores the first solved vector and then fails on the frequency vector of the second unknown:
   vnacal_new_solve returns -1, vn_calibration is unchanged, and one parameter already carries the new solution *)
Theorem new_solve_writeback_not_atomic_refuted_lemma :
  exists ks ops k w os s, wrun NWriteBackLate (mkW (mkprms ks) []) ops (start (Some k)) = Ok ((w, os), s) /\
    last os Done = Err ENOMEM /\
    map (fun p => match pgv p with Some _ => true | None => false end) (w_prm w) = [false; false; false; false; true; false].
Proof.
  exists ks5, [WNew cfgA; WSetF 0; WAdd 0 (addA 4); WAdd 0 (addA 5); WSolve 0 0 false false], 40.
  eexists; eexists; eexists. split; [vm_compute; reflexivity|]. split; vm_compute; reflexivity.
Qed.

(* the invariant of the per-call theorems is met by a reachable state: a calibration with its frequency vector,
   bucket array, the node of VNACAL_ZERO, the system vector and a measurement-error vector (6 live blocks) *)
Example new_post_satisfiable : exists v ps s, Post [] v ps s /\ vn_merr v <> None /\ length (live s) = 6.
Proof.
  exists (mkVn cfgA 0 (Some 1) true (Some 2) 8 [(0, 3)] [] (Some 4) (Some 5) 0 [] [] [] []),
         (hold (mkprms [KScalar; KScalar; KScalar]) 0),
         (mkA None [(5, 32%Z); (4, 32%Z); (3, 64%Z); (2, 64%Z); (1, 16%Z); (0, 400%Z)] 6).
  split; [|split; [discriminate | reflexivity]].
  split; [|split; [discriminate|]].
  - split.
    + split; [repeat constructor; simpl; intuition lia | simpl; intros x Hx; intuition lia].
    + intro x. change (cnt x [0; 1; 2; 3; 4; 5] = cnt x (rev [0; 1; 2; 3; 4; 5])). rewrite cnt_rev. reflexivity.
  - split; [intros i o Ho | intros i Hi]; destruct i as [|[|[|i]]]; simpl in *; try discriminate; try congruence; destruct i; simpl in *; try discriminate; congruence.
Qed.

(* ---------------------------------------------------------------- vnacal_new_free *)
(* of a complete or partly built structure: every block it refers to is released, nothing else is touched *)
Lemma li_new_free : forall F v ps s, LI (vown v ++ psown ps ++ F) s -> (vn_tab v = None -> vn_nodes v = []) ->
  safe (new_free v ps) s (fun ps' s' => LI (psown ps' ++ F) s' /\ (cfgok ps -> cfgok ps') /\ length ps' = length ps).
Proof.
  intros F v ps s HL Hn. unfold new_free, vown in *.
  set (P := psown ps ++ F) in *.
  apply safe_bind. eapply safe_weaken; [apply (li_frees (rev (vn_cal v)) _
     (vn_blk v :: optl (vn_fvec v) ++ optl (vn_tab v) ++ map snd (vn_nodes v) ++ optl (vn_sysv v) ++ optl (vn_merr v) ++ vn_mblocks v ++ vn_eblocks v ++ P) s HL)|]; [ms|].
  intros u1 s1 H1.
  apply safe_bind. eapply safe_weaken; [apply (li_frees (vn_eblocks v) _
     (vn_blk v :: optl (vn_fvec v) ++ optl (vn_tab v) ++ map snd (vn_nodes v) ++ optl (vn_sysv v) ++ optl (vn_merr v) ++ vn_mblocks v ++ P) s1 H1)|]; [ms|].
  intros u2 s2 H2.
  apply safe_bind. eapply safe_weaken; [apply (li_free_opt _
     (vn_blk v :: optl (vn_fvec v) ++ optl (vn_tab v) ++ map snd (vn_nodes v) ++ optl (vn_merr v) ++ vn_mblocks v ++ P) s2 (vn_sysv v) H2)|]; [ms|].
  intros u3 s3 H3.
  apply safe_bind. eapply safe_weaken; [apply (li_frees (vn_mblocks v) _
     (vn_blk v :: optl (vn_fvec v) ++ optl (vn_tab v) ++ map snd (vn_nodes v) ++ optl (vn_merr v) ++ P) s3 H3)|]; [ms|].
  intros u4 s4 H4.
  apply safe_bind. eapply safe_weaken; [apply (li_free_opt _
     (vn_blk v :: optl (vn_fvec v) ++ optl (vn_tab v) ++ map snd (vn_nodes v) ++ P) s4 (vn_merr v) H4)|]; [ms|].
  intros u5 s5 H5.
  apply safe_bind.
  assert (Hh : safe (match vn_tab v with
                     | None => ret ps
                     | Some t => frees (map snd (vn_nodes v)) ;;; free (Some t) ;;; ret (release_all ps (map fst (vn_nodes v)))
                     end) s5
                 (fun ps' s' => LI (vn_blk v :: optl (vn_fvec v) ++ psown ps' ++ F) s' /\ (cfgok ps -> cfgok ps') /\ length ps' = length ps)).
  { destruct (vn_tab v) as [t|] eqn:Ht.
    - apply safe_bind. eapply safe_weaken; [apply (li_frees (map snd (vn_nodes v)) _ (vn_blk v :: optl (vn_fvec v) ++ optl (Some t) ++ P) s5 H5)|]; [ms|].
      intros u6 s6 H6.
      apply safe_bind. eapply safe_weaken; [apply (li_free _ (vn_blk v :: optl (vn_fvec v) ++ P) s6 t H6)|]; [ms|].
      intros u7 s7 H7. apply safe_ret. split; [|split].
      + apply (LI_eq _ _ _ H7). unfold P. intro x. autorewrite with cntdb. rewrite psown_release_all. reflexivity.
      + apply cfgok_release_all.
      + clear. generalize ps. induction (map fst (vn_nodes v)); simpl; intros; auto. rewrite IHl. unfold release. apply length_upd2.
    - apply safe_ret. rewrite (Hn eq_refl) in H5. split; [|split]; auto. }
  eapply safe_weaken; [exact Hh|]. intros ps' s6 [H6 [Hc Hlen]].
  apply safe_bind. eapply safe_weaken; [apply (li_free_opt _ (vn_blk v :: psown ps' ++ F) s6 (vn_fvec v) H6)|]; [ms|].
  intros u7 s7 H7.
  apply safe_bind. eapply safe_weaken; [apply (li_free _ (psown ps' ++ F) s7 (vn_blk v) H7)|]; [ms|].
  intros u8 s8 H8. apply safe_ret. auto.
Qed.

Theorem new_free_clean_lemma : forall F v ps s, LI (vown v ++ psown ps ++ F) s -> (vn_tab v = None -> vn_nodes v = []) ->
  exists ps' s', new_free v ps s = Ok (ps', s') /\ LI (psown ps' ++ F) s' /\ length ps' = length ps.
Proof.
  intros F v ps s HL Hn. destruct (li_new_free F v ps s HL Hn) as [ps' [s' [He [H1 [_ H2]]]]]. exists ps', s'; auto.
Qed.

(* ---------------------------------------------------------------- _vnacal_new_get_parameter *)
Lemma set_nodes_id : forall v, v = set_nodes v (vn_tab v) (vn_cap v) (vn_nodes v) (vn_unk v).
Proof. destruct v; reflexivity. Qed.

Ltac oms :=
  let x := fresh "x" in
  intro x; inst_all x; unfold vown; simpl; rewrite ?map_app; simpl; autorewrite with cntdb; rewrite ?psown_hold; try lia.

Lemma tab_live : forall v t ps F, vn_tab v = Some t -> 1 <= cnt t (vown v ++ psown ps ++ F).
Proof. intros v t ps F Ht. unfold vown; rewrite Ht. autorewrite with cntdb. rewrite ind_same. lia. Qed.

(* every parameter on the unknown list exists *)
Definition UOK (v : vnew) (ps : list prm) : Prop := forall u, In u (vn_unk v) -> u < length ps.

Lemma uok_step : forall v1 ps1 i tb c nodes (b : bool), UOK v1 ps1 -> i < length ps1 ->
  UOK (set_nodes v1 tb c nodes (if b then vn_unk v1 ++ [i] else vn_unk v1)) (hold ps1 i).
Proof.
  intros v1 ps1 i tb c nodes b Hu Hi u Hin. rewrite length_hold. simpl in Hin. destruct b; [|apply Hu; auto].
  apply in_app_or in Hin. destruct Hin as [Hin|[<-|[]]]; [apply Hu; auto | auto].
Qed.

Definition GPost (F : list block_id) (v : vnew) (ps : list prm) (r : vnew * list prm * outcome) (s' : astate) : Prop :=
  let '(v', ps', out) := r in
  Post F v' ps' s' /\ length ps' = length ps /\ (exists t c n u, v' = set_nodes v t c n u) /\ (UOK v ps -> UOK v' ps').

Lemma li_get_parameter : forall fuel F v ps i s, Post F v ps s -> (i < fuel \/ (length ps <= i /\ 0 < fuel)) ->
  safe (get_parameter NFixed fuel v ps i) s (GPost F v ps).
Proof.
  induction fuel as [|f IH]; intros F v ps i s HP Hf; [lia|].
  pose proof HP as [HL [Ht Hc]]. simpl.
  destruct (vn_tab v) as [t|] eqn:Htab; [|congruence].
  destruct (in_hash v i).
  { apply safe_bind. eapply safe_weaken; [eapply li_touch; [exact HL | apply tab_live; auto]|].
    intros u s' ->. apply safe_ret. split; [exact HP|]. split; auto. split; [exists (vn_tab v), (vn_cap v), (vn_nodes v), (vn_unk v); apply set_nodes_id | auto]. }
  destruct (Nat.leb_spec (length ps) i) as [Hge|Hlt].
  { apply safe_ret. split; [exact HP|]. split; auto. split; [exists (vn_tab v), (vn_cap v), (vn_nodes v), (vn_unk v); apply set_nodes_id | auto]. }
  apply safe_bind.
  assert (Hrec : safe (match pkd (nth i ps pdummy) with
                       | KCorr o => get_parameter NFixed f v ps o
                       | _ => ret (v, ps, Done)
                       end) s (GPost F v ps)).
  { destruct (pkd (nth i ps pdummy)) as [|o|o] eqn:Hk.
    - apply safe_ret. split; [exact HP|]. split; auto. split; [exists (vn_tab v), (vn_cap v), (vn_nodes v), (vn_unk v); apply set_nodes_id | auto].
    - apply safe_ret. split; [exact HP|]. split; auto. split; [exists (vn_tab v), (vn_cap v), (vn_nodes v), (vn_unk v); apply set_nodes_id | auto].
    - apply IH; auto. left. assert (o < i) by (apply (proj1 Hc); rewrite Hk; reflexivity). lia. }
  eapply safe_weaken; [exact Hrec|]. clear Hrec.
  intros [[v1 ps1] out] s1 [HP1 [Hlen1 [[t1 [c1 [n1 [u1 Hv1]]]] Hu1]]].
  destruct out as [|e]; [|apply safe_ret; split; [exact HP1|]; split; auto; split; [exists t1, c1, n1, u1; exact Hv1 | exact Hu1]].
  destruct HP1 as [HL1 [Ht1 Hc1]].
  apply safe_bind. eapply safe_weaken; [apply li_malloc; exact HL1|].
  intros [b|] s2 HL2.
  2:{ apply safe_ret. split; [split; auto|]. split; auto. split; [exists t1, c1, n1, u1; exact Hv1 | exact Hu1]. }
  destruct (vn_tab v1) as [tb|] eqn:Htab1; [|congruence].
  apply safe_bind. eapply safe_weaken; [eapply li_touch; [exact HL2|]|].
  { rewrite cnt_cons. pose proof (tab_live v1 tb ps1 F Htab1). lia. }
  intros u s3 ->.
  set (unk := if is_unknown (pkd (nth i ps pdummy)) then vn_unk v1 ++ [i] else vn_unk v1).
  destruct (vn_cap v1 <=? length (vn_nodes v1 ++ [(i, b)])).
  - apply safe_bind.
    assert (He : forall x, cnt x (b :: vown v1 ++ psown ps1 ++ F) = ind x tb +
              cnt x (b :: vn_blk v1 :: optl (vn_fvec v1) ++ map snd (vn_nodes v1) ++ optl (vn_sysv v1) ++ optl (vn_merr v1) ++
                     vn_mblocks v1 ++ vn_eblocks v1 ++ vn_cal v1 ++ psown ps1 ++ F)).
    { unfold vown. rewrite Htab1. ms. }
    eapply safe_weaken; [exact (li_realloc _ _ s2 tb _ HL2 He)|].
    intros [nb|] s4 HL4; apply safe_ret.
    + split; [split; [|split]|].
      * apply (LI_eq _ _ _ HL4). oms.
      * simpl; discriminate.
      * apply cfgok_hold; auto.
      * split; [rewrite length_hold; auto|]. split; [subst v1; eexists; eexists; eexists; eexists; reflexivity|]. intro Hu; apply uok_step; [apply Hu1; exact Hu | lia].
    + split; [split; [|split]|].
      * apply (LI_eq _ _ _ HL4). rewrite <- Htab1. oms.
      * simpl; congruence.
      * apply cfgok_hold; auto.
      * split; [rewrite length_hold; auto|]. split; [subst v1; eexists; eexists; eexists; eexists; reflexivity|]. intro Hu; apply uok_step; [apply Hu1; exact Hu | lia].
  - apply safe_ret. split; [split; [|split]|].
    * apply (LI_eq _ _ _ HL2). rewrite <- Htab1. oms.
    * simpl; congruence.
    * apply cfgok_hold; auto.
    * split; [rewrite length_hold; auto|]. split; [subst v1; eexists; eexists; eexists; eexists; reflexivity|]. intro Hu; apply uok_step; [apply Hu1; exact Hu | lia].
Qed.

Lemma set_nodes_twice : forall v t c n u t' c' n' u', set_nodes (set_nodes v t c n u) t' c' n' u' = set_nodes v t' c' n' u'.
Proof. reflexivity. Qed.

Lemma li_get_parameters : forall l F v ps s, Post F v ps s -> safe (get_parameters NFixed v ps l) s (GPost F v ps).
Proof.
  induction l as [|i l IH]; intros F v ps s HP; simpl.
  - apply safe_ret. split; [exact HP|]. split; auto. split; [exists (vn_tab v), (vn_cap v), (vn_nodes v), (vn_unk v); apply set_nodes_id | auto].
  - apply safe_bind. eapply safe_weaken; [apply (li_get_parameter (S (length ps)) F v ps i s HP)|].
    { destruct (Nat.ltb_spec i (S (length ps))); [left; auto | right; lia]. }
    intros [[v1 ps1] out] s1 [HP1 [Hlen1 [[t1 [c1 [n1 [u1 Hv1]]]] Hu1]]].
    destruct out as [|e].
    + eapply safe_weaken; [apply (IH F v1 ps1 s1 HP1)|].
      intros [[v2 ps2] out2] s2 [HP2 [Hlen2 [[t2 [c2 [n2 [u2 Hv2]]]] Hu2]]].
      split; [exact HP2|]. split; [congruence|]. split; [subst v1 v2; exists t2, c2, n2, u2; reflexivity | intro Hu; apply Hu2, Hu1, Hu].
    + apply safe_ret. split; [exact HP1|]. split; auto. split; [exists t1, c1, n1, u1; exact Hv1 | exact Hu1].
Qed.

(* ---------------------------------------------------------------- _vnacal_new_add_common *)
Lemma li_add_standard : forall F v ps a s, Post F v ps s ->
  safe (add_standard NFixed v ps a) s (fun r s' => let '(v', ps', out) := r in Post F v' ps' s' /\ length ps' = length ps /\ (UOK v ps -> UOK v' ps')).
Proof.
  intros F v ps a s HP. pose proof HP as [HL [Ht Hc]]. unfold add_standard.
  destruct (is_bad (a_ok a)); [apply safe_ret; split; [exact HP | split; auto]|].
  destruct (negb (forallb (check_parameter (S (length ps)) v ps) (a_prm a))); [apply safe_ret; split; [exact HP | split; auto]|].
  apply safe_bind. eapply safe_weaken; [apply li_allocl; exact HL|].
  intros [ok mb] s1 [new [Hmb HL1]]; simpl in Hmb; subst mb.
  destruct ok; simpl.
  2:{ apply safe_bind. eapply safe_weaken; [apply (li_frees new _ (vown v ++ psown ps ++ F) s1 HL1); ms|].
      intros u s2 HL2. apply safe_ret. split; [split; auto | split; auto]. }
  destruct (is_singular (a_ok a) || is_needfulls (a_ok a)).
  { apply safe_bind. eapply safe_weaken; [apply (li_frees new _ (vown v ++ psown ps ++ F) s1 HL1); ms|].
    intros u s2 HL2. apply safe_ret. split; [split; auto | split; auto]. }
  apply safe_bind.
  assert (HPm : Post (new ++ F) v ps s1).
  { split; [|split; auto]. apply (LI_eq _ _ _ HL1). ms. }
  eapply safe_weaken; [apply (li_get_parameters (a_prm a) (new ++ F) v ps s1 HPm)|].
  intros [[v1 ps1] out] s2 [[HL2 [Ht2 Hc2]] [Hlen2 [_ Hu2]]].
  destruct out as [|e].
  2:{ apply safe_bind. eapply safe_weaken; [apply (li_frees new _ (vown v1 ++ psown ps1 ++ F) s2 HL2); ms|].
      intros u s3 HL3. apply safe_ret. split; [split; auto | split; auto]. }
  apply safe_bind. eapply safe_weaken; [apply li_allocl; exact HL2|].
  intros [ok2 mb2] s3 [new2 [Hmb2 HL3]]; simpl in Hmb2; subst mb2.
  destruct ok2; simpl.
  2:{ apply safe_bind. eapply safe_weaken; [apply (li_frees (new ++ new2) _ (vown v1 ++ psown ps1 ++ F) s3 HL3); ms|].
      intros u s4 HL4. apply safe_ret. split; [split; auto | split; auto]. }
  apply safe_bind. eapply safe_weaken; [apply li_allocl; exact HL3|].
  intros [ok3 eb] s4 [new3 [Heb HL4]]; simpl in Heb; subst eb.
  destruct ok3; simpl.
  2:{ apply safe_bind. eapply safe_weaken; [apply (li_frees new3 _ (new2 ++ vown v1 ++ psown ps1 ++ new ++ F) s4 HL4); ms|].
      intros u s5 HL5.
      apply safe_bind. eapply safe_weaken; [apply (li_frees (new ++ new2) _ (vown v1 ++ psown ps1 ++ F) s5 HL5); ms|].
      intros u' s6 HL6. apply safe_ret. split; [split; auto | split; auto]. }
  apply safe_ret. split; [split; [|split; auto] | split; [auto | exact Hu2]].
  apply (LI_eq _ _ _ HL4). oms.
Qed.

(* ---------------------------------------------------------------- vnacal_new_alloc *)
Definition NPost (F : list block_id) (ps : list prm) (r : option vnew * list prm * outcome) (s' : astate) : Prop :=
  let '(ov, ps', out) := r in
  LI (oown ov ++ psown ps' ++ F) s' /\ cfgok ps' /\ length ps' = length ps /\ (forall v', ov = Some v' -> vn_tab v' <> None /\ UOK v' ps').

Lemma li_new_alloc : forall F c ps s, LI (psown ps ++ F) s -> cfgok ps ->
  safe (new_alloc NFixed c ps) s (NPost F ps).
Proof.
  intros F c ps s HL Hc. unfold new_alloc.
  assert (Hnone : forall o s', LI (psown ps ++ F) s' -> NPost F ps (None, ps, o) s').
  { intros o s' H. split; [exact H|]. split; auto. split; auto. intros v' Hv; discriminate. }
  assert (Hfree : forall v ps0 o s0, LI (vown v ++ psown ps0 ++ F) s0 -> (vn_tab v = None -> vn_nodes v = []) -> cfgok ps0 -> length ps0 = length ps ->
            safe (ps' <- new_free v ps0 ;; ret (@None vnew, ps', o)) s0 (NPost F ps)).
  { intros v ps0 o s0 H0 Hn Hc0 Hl0. apply safe_bind. eapply safe_weaken; [apply (li_new_free F v ps0 s0 H0 Hn)|].
    intros ps' s' [H1 [H2 H3]]. apply safe_ret. split; [exact H1|]. split; auto. split; [congruence|]. intros v' Hv; discriminate. }
  destruct (c_valid c); simpl; [|apply safe_ret; apply Hnone; auto].
  apply safe_bind. eapply safe_weaken; [apply li_malloc; exact HL|]. intros [b|] s1 HL1; [|apply safe_ret; apply Hnone; auto].
  apply safe_bind. eapply safe_weaken; [apply li_malloc; exact HL1|]. intros [fb|] s2 HL2.
  2:{ apply Hfree; auto. }
  apply safe_bind. change (realloc None (8 * 8)) with (malloc (8 * 8)).
  eapply safe_weaken; [apply li_malloc; exact HL2|]. intros [tb|] s3 HL3.
  2:{ apply Hfree; auto. apply (LI_eq _ _ _ HL3). oms. }
  apply safe_bind.
  set (v2 := set_nodes (mkVn c b (Some fb) false None 0 [] [] None None 0 [] [] [] []) (Some tb) 8 [] []).
  assert (HP2 : Post F v2 ps s3).
  { split; [|split; [simpl; discriminate | auto]]. apply (LI_eq _ _ _ HL3). oms. }
  eapply safe_weaken; [apply (li_get_parameter (S (length ps)) F v2 ps 0 s3 HP2)|].
  { destruct ps; [right; simpl; lia | left; simpl; lia]. }
  intros [[v3 ps3] out] s4 [[HL4 [Ht4 Hc4]] [Hlen4 [[t [cp [n [u Hv3]]]] Hu3]]].
  destruct out as [|e].
  2:{ apply Hfree; auto. intro H; congruence. }
  apply safe_bind. eapply safe_weaken; [apply li_malloc; exact HL4|]. intros [sb|] s5 HL5.
  2:{ apply Hfree; auto. intro H; congruence. }
  apply safe_ret. split; [|split; [auto | split; [auto|]]].
  - apply (LI_eq _ _ _ HL5). subst v3. unfold oown. oms.
  - intros v' Hv; inversion Hv; subst v'. simpl. split; [exact Ht4|]. apply Hu3. intros u0 [].
Qed.

(* ---------------------------------------------------------------- vnacal_new_solve *)
Lemma li_allocl_len : forall szs acc own s, LI own s ->
  safe (allocl szs acc) s (fun r s' => exists new, snd r = acc ++ new /\ LI (new ++ own) s' /\ (fst r = true -> length new = length szs)).
Proof.
  induction szs as [|sz szs IH]; intros acc own s HL; simpl.
  - apply safe_ret. exists []; simpl; rewrite app_nil_r; auto.
  - apply safe_bind. eapply safe_weaken; [apply li_malloc; eauto|].
    intros [b|] s' HL'.
    + eapply safe_weaken; [apply (IH (acc ++ [b]) (b :: own)); eauto|].
      intros [ok got] s'' [new [Hs [HL'' Hlen]]]; simpl in *. exists (b :: new). split; [|split].
      * rewrite Hs, <- app_assoc; reflexivity.
      * eapply LI_eq; eauto. intro x; autorewrite with cntdb; lia.
      * intro H; simpl; rewrite Hlen; auto.
    + apply safe_ret. exists []; simpl; rewrite app_nil_r; split; [auto | split; [auto | discriminate]].
Qed.

Lemma cnt_somes_app : forall x a b, cnt x (somes (a ++ b)) = cnt x (somes a) + cnt x (somes b).
Proof. induction a as [|[y|] a IH]; intros; simpl; autorewrite with cntdb; try rewrite IH; lia. Qed.

(* what a NULL entry of new_frequency_vector[] means for the parameter it belongs to *)
Definition NFR (freqs : nat) (ps : list prm) (u : nat) (f : option block_id) : Prop :=
  f = None -> freqs = 0 \/ pfn (nth u ps pdummy) = freqs.

Lemma li_prealloc : forall unk freqs ps acc own s, LI own s ->
  safe (prealloc freqs ps unk acc) s (fun r s' => exists nf, snd r = acc ++ nf /\ LI (somes nf ++ own) s' /\
        (fst r = true -> Forall2 (NFR freqs ps) unk nf)).
Proof.
  induction unk as [|u rest IH]; intros freqs ps acc own s HL; simpl.
  - apply safe_ret. exists []. rewrite app_nil_r. split; [reflexivity|]. split; [exact HL|]. intro; constructor.
  - destruct ((freqs =? 0) || (pfn (nth u ps pdummy) =? freqs)) eqn:Hc.
    + eapply safe_weaken; [apply (IH freqs ps (acc ++ [None]) own s HL)|].
      intros [ok got] s' [nf [Hs [HL' Hf]]]; simpl in *. exists (None :: nf). split; [rewrite Hs, <- app_assoc; reflexivity|].
      split; [exact HL'|]. intro Hok. constructor; [|apply Hf; auto].
      intros _. apply orb_true_iff in Hc. destruct Hc as [Hc|Hc]; apply Nat.eqb_eq in Hc; auto.
    + apply safe_bind. eapply safe_weaken; [apply li_malloc; exact HL|]. intros [b|] s1 HL1.
      * eapply safe_weaken; [apply (IH freqs ps (acc ++ [Some b]) (b :: own) s1 HL1)|].
        intros [ok got] s' [nf [Hs [HL' Hf]]]; simpl in *. exists (Some b :: nf). split; [rewrite Hs, <- app_assoc; reflexivity|].
        split; [apply (LI_eq _ _ _ HL'); simpl; ms|]. intro Hok. constructor; [intro; discriminate | apply Hf; auto].
      * apply safe_ret. exists []. rewrite app_nil_r. simpl. split; [reflexivity|]. split; [exact HL1|]. discriminate.
Qed.

Lemma NFR_upd : forall freqs ps u0 p' unk nf, pfn p' = freqs -> Forall2 (NFR freqs ps) unk nf -> Forall2 (NFR freqs (upd ps u0 p')) unk nf.
Proof.
  intros freqs ps u0 p' unk nf Hp H. induction H as [|u f unk nf Hh Ht IH]; constructor; auto.
  intro Hf. destruct (Hh Hf) as [Hz|He]; [left; auto|]. right.
  destruct (Nat.ltb_spec u0 (length ps)).
  - destruct (Nat.eq_dec u0 u) as [->|Hne]; [rewrite nth_upd_eq by auto; auto | rewrite nth_upd_ne by auto; auto].
  - rewrite upd_short by lia. auto.
Qed.

Lemma li_commit : forall unk freqs ps nf pv G s, LI (psown ps ++ somes nf ++ pv ++ G) s -> cfgok ps ->
  (forall u, In u unk -> u < length ps) -> length unk <= length pv -> Forall2 (NFR freqs ps) unk nf ->
  safe (commit freqs ps unk nf pv) s (fun r s' => LI (psown (fst r) ++ snd r ++ G) s' /\ cfgok (fst r) /\ length (fst r) = length ps).
Proof.
  induction unk as [|u rest IH]; intros freqs ps nf pv G s HL Hc Hu Hlen HF; simpl.
  - inversion HF; subst. apply safe_ret. simpl in *. auto.
  - inversion HF as [|u' f rest' nf' Hh Ht]; subst.
    destruct pv as [|g pv']; [simpl in Hlen; lia|].
    assert (Hul : u < length ps) by (apply Hu; simpl; auto).
    set (p := nth u ps pdummy) in *.
    assert (Hps : forall p' x, cnt x (psown (upd ps u p')) + cnt x (pown p) = cnt x (psown ps) + cnt x (pown p')).
    { intros p' x. pose proof (psown_upd ps u p' x) as H. apply Nat.ltb_lt in Hul. rewrite Hul in H. exact H. }
    set (p0 := mkPr (pkd p) (pheld p) None None 0).
    set (Q := psown (upd ps u p0) ++ somes nf' ++ g :: pv' ++ G).
    assert (HL0 : LI (optl (pgv p) ++ optl (pfv p) ++ optl f ++ Q) s).
    { apply (LI_eq _ _ _ HL). intro x. pose proof (Hps p0 x) as H. unfold pown in H; simpl in H.
      unfold Q. destruct f; simpl; autorewrite with cntdb in *; lia. }
    apply safe_bind. eapply safe_weaken; [apply (li_free_opt _ (optl (pfv p) ++ optl f ++ Q) s (pgv p) HL0); ms|].
    intros u1 s1 HL1.
    apply safe_bind.
    assert (Hmid : safe (match f with
                         | Some b => free (pfv p) ;;; ret (Some b)
                         | None => if pfn p =? freqs then ret (pfv p) else free (pfv p) ;;; ret None
                         end) s1
                    (fun fv s' => LI (optl fv ++ Q) s' /\ (freqs <> 0 -> fv <> None))).
    { destruct f as [b|].
      - apply safe_bind. eapply safe_weaken; [apply (li_free_opt _ (optl (Some b) ++ Q) s1 (pfv p) HL1); ms|].
        intros u2 s2 HL2. apply safe_ret. split; [exact HL2 | intros _; discriminate].
      - destruct (Nat.eqb_spec (pfn p) freqs) as [He|Hne].
        + apply safe_ret. split; [apply (LI_eq _ _ _ HL1); simpl; ms|]. intro Hz. apply (proj2 Hc). fold p. lia.
        + apply safe_bind. eapply safe_weaken; [apply (li_free_opt _ Q s1 (pfv p) HL1); simpl; ms|].
          intros u2 s2 HL2. apply safe_ret. split; [exact HL2|]. intro Hz. exfalso. destruct (Hh eq_refl) as [H0|H0]; [lia | apply Hne; exact H0]. }
    eapply safe_weaken; [exact Hmid|]. clear Hmid. intros fv s2 [HL2 Hfv].
    apply safe_bind.
    assert (Htouch : safe (if freqs =? 0 then ret tt else touch fv) s2 (fun _ s' => s' = s2)).
    { destruct (freqs =? 0) eqn:Hz; [apply safe_ret; auto|].
      apply Nat.eqb_neq in Hz. destruct fv as [b|]; [|exfalso; apply (Hfv Hz); reflexivity].
      eapply li_touch; [exact HL2|]. autorewrite with cntdb. rewrite ind_same. lia. }
    eapply safe_weaken; [exact Htouch|]. intros u3 s3 ->.
    set (p2 := mkPr (pkd p) (pheld p) fv (Some g) freqs).
    assert (HL3 : LI (psown (upd ps u p2) ++ somes nf' ++ pv' ++ G) s2).
    { apply (LI_eq _ _ _ HL2). intro x. pose proof (Hps p0 x) as H0. pose proof (Hps p2 x) as H2.
      unfold pown in H0, H2; simpl in H0, H2. unfold Q. autorewrite with cntdb in *. lia. }
    eapply safe_weaken; [apply (IH freqs (upd ps u p2) nf' pv' G s2 HL3)|].
    + apply cfgok_upd; auto.
    + intros u' Hin. rewrite length_upd2. apply Hu; simpl; auto.
    + simpl in Hlen; lia.
    + apply NFR_upd; auto.
    + intros [ps' pv''] s4 [H4 [H5 H6]]. simpl in *. split; [exact H4|]. split; auto. rewrite H6. apply length_upd2.
Qed.

Lemma li_write_back : forall unk freqs ps pv G s, LI (psown ps ++ pv ++ G) s -> cfgok ps ->
  (forall u, In u unk -> u < length ps) -> length unk <= length pv ->
  safe (write_back freqs ps unk pv) s (fun r s' => let '(ok, ps', pv') := r in
        LI (psown ps' ++ pv' ++ G) s' /\ cfgok ps' /\ length ps' = length ps /\ (ok = false -> ps' = ps /\ pv' = pv)).
Proof.
  intros unk freqs ps pv G s HL Hc Hu Hlen. unfold write_back.
  apply safe_bind. eapply safe_weaken; [apply (li_prealloc unk freqs ps [] _ s HL)|].
  intros [ok nf] s1 [nf' [Hs [HL1 HF]]]; simpl in Hs; subst nf. destruct ok; simpl.
  - apply safe_bind.
    assert (HL2 : LI (psown ps ++ somes nf' ++ pv ++ G) s1) by (apply (LI_eq _ _ _ HL1); ms).
    eapply safe_weaken; [apply (li_commit unk freqs ps nf' pv G s1 HL2 Hc Hu Hlen (HF eq_refl))|].
    intros [ps' pv''] s2 [H1 [H2 H3]]. apply safe_ret. simpl in *. split; [exact H1|]. split; auto. split; auto. discriminate.
  - apply safe_bind. eapply safe_weaken; [apply (li_frees (somes nf') _ (psown ps ++ pv ++ G) s1 HL1); ms|].
    intros u s2 HL2. apply safe_ret. split; [exact HL2|]. split; auto.
Qed.

Lemma li_frees3 : forall a b c own own' s, LI own s -> (forall x, cnt x own = cnt x a + cnt x b + cnt x c + cnt x own') ->
  safe (frees (rev a) ;;; frees (rev b) ;;; frees (rev c)) s (fun _ s' => LI own' s').
Proof.
  intros a b c own own' s HL He.
  apply safe_bind. eapply safe_weaken; [apply (li_frees (rev a) own (b ++ c ++ own') s HL); ms|]. intros u1 s1 H1.
  apply safe_bind. eapply safe_weaken; [apply (li_frees (rev b) _ (c ++ own') s1 H1); ms|]. intros u2 s2 H2.
  eapply safe_weaken; [apply (li_frees (rev c) _ own' s2 H2); ms|]. auto.
Qed.

Definition SPost (F : list block_id) (v : vnew) (ps : list prm) (r : vnew * list prm * outcome) (s' : astate) : Prop :=
  let '(v', ps', out) := r in Post F v' ps' s' /\ length ps' = length ps /\ UOK v' ps'.

Lemma li_alloc_opt : forall (c : bool) sz own s, LI own s ->
  safe (allocl (if c then [sz] else []) []) s (fun r s' => LI (snd r ++ own) s' /\ (fst r = false -> snd r = [])).
Proof.
  intros c sz own s HL. destruct c; simpl.
  - apply safe_bind. eapply safe_weaken; [apply li_malloc; exact HL|]. intros [b|] s' HL'; apply safe_ret; simpl; auto. split; auto; discriminate.
  - apply safe_ret; simpl; split; auto; discriminate.
Qed.

Arguments allocl : simpl never.

Lemma li_solve : forall F v ps body trl fails s, Post F v ps s -> UOK v ps ->
  safe (solve NFixed v ps body trl fails) s (SPost F v ps).
Proof.
  intros F v ps body trl fails s HP HU. pose proof HP as [HL [Ht Hc]]. unfold solve. cbv zeta.
  assert (Hsame : forall s0, LI (vown v ++ psown ps ++ F) s0 -> SPost F v ps (v, ps, Err ENOMEM) s0).
  { intros s0 H0. split; [split; auto | split; auto]. }
  destruct (vn_fvalid v); simpl; [|apply safe_ret; split; [exact HP | split; auto]].
  set (O := vown v ++ psown ps ++ F) in *.
  (* msv *)
  apply safe_bind. eapply safe_weaken; [apply (li_alloc_opt true); exact HL|]. intros [ok0 sm0] s0 [HL0 Hsm0]; simpl in HL0, Hsm0.
  destruct ok0; simpl.
  2:{ rewrite (Hsm0 eq_refl) in HL0. apply safe_ret. apply Hsame; exact HL0. }
  apply safe_bind. eapply safe_weaken; [apply li_allocl; exact HL0|].
  intros [ok1 sm] s1 [n1 [Hsm HL1]]; simpl in Hsm; subst sm. destruct ok1; simpl.
  2:{ apply safe_bind. eapply safe_weaken; [apply (li_frees (rev (sm0 ++ n1)) _ O s1 HL1); ms|]. intros u s2 H2. apply safe_ret. apply Hsame; exact H2. }
  set (sm := sm0 ++ n1) in *.
  assert (HL1' : LI (sm ++ O) s1) by (apply (LI_eq _ _ _ HL1); unfold sm; ms).
  apply safe_bind. eapply safe_weaken; [apply li_allocl; exact HL1'|].
  intros [ok2 sl] s2 [n2 [Hsl HL2]]; simpl in Hsl; subst sl. destruct ok2; simpl.
  2:{ apply safe_bind. eapply safe_weaken; [apply (li_frees (rev n2) _ (sm ++ O) s2 HL2); ms|]. intros u s3 H3.
      apply safe_bind. eapply safe_weaken; [apply (li_frees (rev sm) _ O s3 H3); ms|]. intros u' s4 H4. apply safe_ret. apply Hsame; exact H4. }
  rename n2 into sl.
  apply safe_bind. eapply safe_weaken; [apply li_allocl_len; exact HL2|].
  intros [ok3 sp] s3 [n3 [Hsp [HL3 Hlen3]]]; simpl in Hsp; subst sp. rename n3 into sp. destruct ok3; simpl.
  2:{ apply safe_bind. eapply safe_weaken; [apply (li_frees3 sp sl sm _ O s3 HL3); ms|]. intros u s4 H4. apply safe_ret. apply Hsame; exact H4. }
  specialize (Hlen3 eq_refl).
  apply safe_bind. eapply safe_weaken; [apply li_allocl; exact HL3|].
  intros [ok4 cal] s4 [n4 [Hcal HL4]]; simpl in Hcal; subst cal. rename n4 into cal. destruct ok4; simpl.
  2:{ apply safe_bind. eapply safe_weaken; [apply (li_frees (rev cal) _ (sp ++ sl ++ sm ++ O) s4 HL4); ms|]. intros u s5 H5.
      apply safe_bind. eapply safe_weaken; [apply (li_frees3 sp sl sm _ O s5 H5); ms|]. intros u' s6 H6. apply safe_ret. apply Hsame; exact H6. }
  apply safe_bind. eapply safe_weaken; [apply li_alloc_opt; exact HL4|].
  intros [ok5 tb] s5 [HL5 Htb]; simpl in HL5, Htb. destruct ok5; simpl.
  2:{ rewrite (Htb eq_refl) in HL5. simpl in HL5.
      apply safe_bind. eapply safe_weaken; [apply (li_frees (rev cal) _ (sp ++ sl ++ sm ++ O) s5 HL5); ms|]. intros u s6 H6.
      apply safe_bind. eapply safe_weaken; [apply (li_frees3 sp sl sm _ O s6 H6); ms|]. intros u' s7 H7. apply safe_ret. apply Hsame; exact H7. }
  apply safe_bind. eapply safe_weaken; [apply li_allocl; exact HL5|].
  intros [ok6 tm] s6 [n6 [Htm HL6]]; simpl in Htm; subst tm. rename n6 into tm.
  apply safe_bind. eapply safe_weaken; [apply (li_frees tm _ (tb ++ cal ++ sp ++ sl ++ sm ++ O) s6 HL6); ms|]. intros u6 s7 HL7.
  destruct ok6; simpl.
  2:{ apply safe_bind. eapply safe_weaken; [apply (li_frees tb _ (cal ++ sp ++ sl ++ sm ++ O) s7 HL7); ms|]. intros u s8 H8.
      apply safe_bind. eapply safe_weaken; [apply (li_frees (rev cal) _ (sp ++ sl ++ sm ++ O) s8 H8); ms|]. intros u' s9 H9.
      apply safe_bind. eapply safe_weaken; [apply (li_frees3 sp sl sm _ O s9 H9); ms|]. intros u'' s10 H10. apply safe_ret. apply Hsame; exact H10. }
  destruct fails.
  { apply safe_bind. eapply safe_weaken; [apply (li_frees tb _ (cal ++ sp ++ sl ++ sm ++ O) s7 HL7); ms|]. intros u s8 H8.
    apply safe_bind. eapply safe_weaken; [apply (li_frees (rev cal) _ (sp ++ sl ++ sm ++ O) s8 H8); ms|]. intros u' s9 H9.
    apply safe_bind. eapply safe_weaken; [apply (li_frees3 sp sl sm _ O s9 H9); ms|]. intros u'' s10 H10. apply safe_ret.
    split; [split; auto | split; auto]. }
  (* the write-back *)
  set (hs := match sp with [] => [] | h :: _ => [h] end).
  assert (Hoc : forall l, ocons (hd_error sp) l = hs ++ l) by (intro l; unfold hs; destruct sp; reflexivity).
  assert (Hsp : forall x, cnt x sp = cnt x hs + cnt x (tl sp)) by (intro x; unfold hs; destruct sp; simpl; autorewrite with cntdb; lia).
  assert (Hlen : length (vn_unk v) <= length (tl sp)).
  { unfold init_p_sizes in Hlen3. destruct (vn_unk v) as [|u0 l0]; [simpl; lia|]. destruct sp; simpl in Hlen3; [lia|]. rewrite repeat_length in Hlen3. simpl in *. lia. }
  set (G := hs ++ tb ++ cal ++ sl ++ sm ++ vown v ++ F).
  assert (HLw : LI (psown ps ++ tl sp ++ G) s7) by (apply (LI_eq _ _ _ HL7); unfold G, O; ms).
  apply safe_bind. eapply safe_weaken; [apply (li_write_back (vn_unk v) (c_freqs (vn_cfg v)) ps (tl sp) G s7 HLw Hc HU Hlen)|].
  intros [[okw ps'] pv'] s8 [HL8 [Hc8 [Hlen8 _]]]. rewrite Hoc.
  destruct okw; simpl.
  - apply safe_bind. eapply safe_weaken; [apply (li_frees (rev (vn_cal v)) _
       (psown ps' ++ pv' ++ hs ++ tb ++ cal ++ sl ++ sm ++
        (vn_blk v :: optl (vn_fvec v) ++ optl (vn_tab v) ++ map snd (vn_nodes v) ++ optl (vn_sysv v) ++ optl (vn_merr v) ++ vn_mblocks v ++ vn_eblocks v) ++ F) s8 HL8);
       unfold G, vown; ms|]. intros u s9 H9.
    apply safe_bind. eapply safe_weaken; [apply (li_frees tb _
       (psown ps' ++ pv' ++ hs ++ cal ++ sl ++ sm ++
        (vn_blk v :: optl (vn_fvec v) ++ optl (vn_tab v) ++ map snd (vn_nodes v) ++ optl (vn_sysv v) ++ optl (vn_merr v) ++ vn_mblocks v ++ vn_eblocks v) ++ F) s9 H9); ms|].
    intros u' s10 H10.
    apply safe_bind. eapply safe_weaken; [apply (li_frees3 (hs ++ pv') sl sm _ (vown (set_cal v cal) ++ psown ps' ++ F) s10 H10); unfold vown; simpl; ms|].
    intros u'' s11 H11. apply safe_ret. split; [split; [exact H11 | split; [simpl; exact Ht | exact Hc8]] |].
    split; [exact Hlen8|]. intros u0 Hin. rewrite Hlen8. apply HU. exact Hin.
  - apply safe_bind. eapply safe_weaken; [apply (li_frees tb _ (psown ps' ++ pv' ++ hs ++ cal ++ sl ++ sm ++ vown v ++ F) s8 HL8); unfold G; ms|]. intros u s9 H9.
    apply safe_bind. eapply safe_weaken; [apply (li_frees (rev cal) _ (psown ps' ++ pv' ++ hs ++ sl ++ sm ++ vown v ++ F) s9 H9); ms|]. intros u' s10 H10.
    apply safe_bind. eapply safe_weaken; [apply (li_frees3 (hs ++ pv') sl sm _ (vown v ++ psown ps' ++ F) s10 H10); ms|].
    intros u'' s11 H11. apply safe_ret. split; [split; [exact H11 | split; [exact Ht | exact Hc8]] |].
    split; [exact Hlen8|]. intros u0 Hin. rewrite Hlen8. apply HU. exact Hin.
Qed.

(* ---------------------------------------------------------------- the world: every op, every history *)
Definition WInv (w : world) (s : astate) : Prop :=
  LI (wown w) s /\ cfgok (w_prm w) /\
  forall h v, nth h (w_new w) None = Some v -> vn_tab v <> None /\ UOK v (w_prm w).

Lemma nth_some_lt : forall (l : list (option vnew)) h v, nth h l None = Some v -> h < length l.
Proof. intros l h v H. destruct (Nat.ltb_spec h (length l)); auto. rewrite nth_overflow in H by lia. discriminate. Qed.

(* taking one calibration out of the ring / putting one back *)
Lemma flat_take : forall news h v x, nth h news None = Some v ->
  cnt x (flat_map oown news) = cnt x (vown v) + cnt x (flat_map oown (upd news h None)).
Proof.
  intros news h v x H. pose proof (cnt_flat_upd _ oown news h None None x (nth_some_lt _ _ _ H)) as E.
  rewrite H in E. change (oown (Some v)) with (vown v) in E. change (oown None) with (@nil nat) in E. rewrite cnt_nil in E. unfold block_id in *. lia.
Qed.
Lemma flat_put : forall news h v o x, nth h news None = Some v ->
  cnt x (flat_map oown (upd news h o)) = cnt x (oown o) + cnt x (flat_map oown (upd news h None)).
Proof.
  intros news h v o x H. pose proof (cnt_flat_upd _ oown news h o None x (nth_some_lt _ _ _ H)) as E.
  pose proof (flat_take news h v x H) as E2. rewrite H in E. change (oown (Some v)) with (vown v) in E. unfold block_id in *. lia.
Qed.

Lemma winv_put : forall w h v v' ps' s', nth h (w_new w) None = Some v ->
  LI (vown v' ++ psown ps' ++ flat_map oown (upd (w_new w) h None)) s' -> vn_tab v' <> None -> cfgok ps' ->
  length ps' = length (w_prm w) -> UOK v' ps' ->
  (forall h0 v0, nth h0 (w_new w) None = Some v0 -> vn_tab v0 <> None /\ UOK v0 (w_prm w)) ->
  WInv (put w h (Some v') ps') s'.
Proof.
  intros w h v v' ps' s' Hh HL Ht Hc Hlen Hu Hall. unfold put, WInv, wown; simpl. split; [|split; auto].
  - apply (LI_eq _ _ _ HL). intro x. autorewrite with cntdb. rewrite (flat_put _ _ _ (Some v') x Hh). simpl. lia.
  - intros h0 v0 H0. destruct (Nat.eq_dec h h0) as [->|Hne].
    + rewrite nth_upd_eq in H0 by (eapply nth_some_lt; eauto). inversion H0; subst; auto.
    + rewrite nth_upd_ne in H0 by auto. destruct (Hall _ _ H0) as [A B]. split; auto. intros u Hin. rewrite Hlen. apply B; auto.
Qed.

Lemma winv_step : forall w op s, WInv w s -> safe (wstep NFixed w op) s (fun r s' => WInv (fst r) s').
Proof.
  intros w op s [HL [Hc Hall]]. destruct op as [c|h|h a|h a|h body trl fails|h]; simpl.
  - (* vnacal_new_alloc *)
    apply safe_bind.
    assert (HL0 : LI (psown (w_prm w) ++ flat_map oown (w_new w)) s) by exact HL.
    eapply safe_weaken; [apply (li_new_alloc (flat_map oown (w_new w)) c (w_prm w) s HL0 Hc)|].
    intros [[ov ps'] out] s' [HL' [Hc' [Hlen' Hov]]].
    assert (Hold : forall h0 v0, nth h0 (w_new w) None = Some v0 -> vn_tab v0 <> None /\ UOK v0 ps').
    { intros h0 v0 H0. destruct (Hall _ _ H0) as [A B]. split; auto. intros u Hin. rewrite Hlen'. apply B; auto. }
    destruct ov as [vn|]; apply safe_ret; unfold WInv, wown; simpl.
    + split; [|split; auto].
      * apply (LI_eq _ _ _ HL'). intro x. rewrite flat_map_app. simpl. autorewrite with cntdb. lia.
      * intros h0 v0 H0. destruct (Nat.ltb_spec h0 (length (w_new w))).
        -- rewrite app_nth1 in H0 by auto. apply (Hold h0 v0 H0).
        -- rewrite app_nth2 in H0 by auto. destruct (h0 - length (w_new w)) as [|[|k]]; simpl in H0; try discriminate.
           inversion H0; subst. apply Hov; reflexivity.
    + split; [|split; auto]. apply (LI_eq _ _ _ HL'). intro x. simpl. autorewrite with cntdb. lia.
  - (* set_frequency_vector *)
    unfold handle. destruct (nth h (w_new w) None) as [v|] eqn:Hh; apply safe_ret; simpl; [|split; auto].
    destruct (Hall _ _ Hh) as [A B].
    apply (winv_put w h v (set_fvalid v) (w_prm w) s Hh); auto.
    apply (LI_eq _ _ _ HL). intro x. unfold wown, vown. simpl. autorewrite with cntdb. rewrite (flat_take _ _ _ x Hh). unfold vown. autorewrite with cntdb. lia.
  - (* add *)
    unfold handle. destruct (nth h (w_new w) None) as [v|] eqn:Hh; [|apply safe_ret; simpl; split; auto].
    destruct (Hall _ _ Hh) as [A B].
    assert (HP : Post (flat_map oown (upd (w_new w) h None)) v (w_prm w) s).
    { split; [|split; auto]. apply (LI_eq _ _ _ HL). intro x. unfold wown. autorewrite with cntdb. rewrite (flat_take _ _ _ x Hh). lia. }
    apply safe_bind. eapply safe_weaken; [apply (li_add_standard _ v (w_prm w) a s HP)|].
    intros [[v' ps'] out] s' [[HL' [Ht' Hc']] [Hlen' Hu']]. apply safe_ret. simpl.
    apply (winv_put w h v v' ps' s' Hh); auto.
  - (* set_m_error *)
    unfold handle. destruct (nth h (w_new w) None) as [v|] eqn:Hh; [|apply safe_ret; simpl; split; auto].
    destruct (Hall _ _ Hh) as [A B].
    assert (HP : Post (flat_map oown (upd (w_new w) h None)) v (w_prm w) s).
    { split; [|split; auto]. apply (LI_eq _ _ _ HL). intro x. unfold wown. autorewrite with cntdb. rewrite (flat_take _ _ _ x Hh). lia. }
    apply safe_bind. eapply safe_weaken; [apply (li_set_m_error _ v (w_prm w) a s HP)|].
    intros [v' out] s' [[HL' [Ht' Hc']] [_ Hunk]]. apply safe_ret. simpl in *.
    apply (winv_put w h v v' (w_prm w) s' Hh); auto. intros u Hin. rewrite Hunk in Hin. apply B; auto.
  - (* solve *)
    unfold handle. destruct (nth h (w_new w) None) as [v|] eqn:Hh; [|apply safe_ret; simpl; split; auto].
    destruct (Hall _ _ Hh) as [A B].
    assert (HP : Post (flat_map oown (upd (w_new w) h None)) v (w_prm w) s).
    { split; [|split; auto]. apply (LI_eq _ _ _ HL). intro x. unfold wown. autorewrite with cntdb. rewrite (flat_take _ _ _ x Hh). lia. }
    apply safe_bind. eapply safe_weaken; [apply (li_solve _ v (w_prm w) body trl fails s HP B)|].
    intros [[v' ps'] out] s' [[HL' [Ht' Hc']] [Hlen' Hu']]. apply safe_ret. simpl.
    apply (winv_put w h v v' ps' s' Hh); auto.
  - (* vnacal_new_free *)
    unfold handle. destruct (nth h (w_new w) None) as [v|] eqn:Hh; [|apply safe_ret; simpl; split; auto].
    destruct (Hall _ _ Hh) as [A B].
    assert (HL0 : LI (vown v ++ psown (w_prm w) ++ flat_map oown (upd (w_new w) h None)) s).
    { apply (LI_eq _ _ _ HL). intro x. unfold wown. autorewrite with cntdb. rewrite (flat_take _ _ _ x Hh). lia. }
    apply safe_bind. eapply safe_weaken; [apply (li_new_free _ v (w_prm w) s HL0)|]; [intro H; congruence|].
    intros ps' s' [HL' [Hc' Hlen']]. apply safe_ret. unfold put, WInv, wown; simpl. split; [exact HL' | split; auto].
    intros h0 v0 H0. destruct (Nat.eq_dec h h0) as [->|Hne].
    + rewrite nth_upd_eq in H0 by (eapply nth_some_lt; eauto). discriminate.
    + rewrite nth_upd_ne in H0 by auto. destruct (Hall _ _ H0) as [A0 B0]. split; auto. intros u Hin. rewrite Hlen'. apply B0; auto.
Qed.

Lemma winv_run : forall ops w s, WInv w s -> safe (wrun NFixed w ops) s (fun r s' => WInv (fst r) s').
Proof.
  induction ops as [|op ops IH]; intros w s HI; simpl.
  - apply safe_ret; exact HI.
  - apply safe_bind. eapply safe_weaken; [apply winv_step; exact HI|].
    intros [w' o] s' HI'; simpl in HI'.
    apply safe_bind. eapply safe_weaken; [apply IH; exact HI'|].
    intros [w'' os] s'' HI''; simpl in *. apply safe_ret; exact HI''.
Qed.

(* vnacal_free: the ring ... *)
Lemma li_free_ring : forall l ps R s, LI (psown ps ++ flat_map oown l ++ R) s -> cfgok ps ->
  (forall v, In (Some v) l -> vn_tab v <> None) ->
  safe (free_ring l ps) s (fun ps' s' => LI (psown ps' ++ R) s' /\ length ps' = length ps).
Proof.
  induction l as [|[v|] l IH]; intros ps R s HL Hc Ht; simpl.
  - apply safe_ret; auto.
  - apply safe_bind.
    assert (HL0 : LI (vown v ++ psown ps ++ flat_map oown l ++ R) s) by (apply (LI_eq _ _ _ HL); simpl; ms).
    eapply safe_weaken; [apply (li_new_free _ v ps s HL0)|].
    { intro H. exfalso. apply (Ht v); simpl; auto. }
    intros ps' s' [HL' [Hc' Hlen']].
    eapply safe_weaken; [apply (IH ps' R s' HL' (Hc' Hc))|]; [intros v0 Hin; apply Ht; simpl; auto|].
    intros ps'' s'' [H1 H2]. split; auto. congruence.
  - apply IH; auto. intros v0 Hin; apply Ht; simpl; auto.
Qed.

(* ... then the parameters: one that nothing holds any more gives up its vectors *)
Definition still_held (ps : list prm) : list prm := filter (fun p => negb (pheld p =? 0)) ps.

Lemma li_free_prms : forall ps R s, LI (psown ps ++ R) s ->
  safe (free_prms ps) s (fun _ s' => LI (psown (still_held ps) ++ R) s').
Proof.
  induction ps as [|p ps IH]; intros R s HL.
  - apply safe_ret; exact HL.
  - assert (HL' : LI (optl (pfv p) ++ optl (pgv p) ++ psown ps ++ R) s).
    { apply (LI_eq _ _ _ HL). intro x. unfold psown, pown. simpl. autorewrite with cntdb. lia. }
    assert (Hsh : still_held (p :: ps) = if negb (pheld p =? 0) then p :: still_held ps else still_held ps) by reflexivity.
    rewrite Hsh. cbn [free_prms]. apply safe_bind. destruct (pheld p =? 0); cbn [negb].
    + apply safe_bind. eapply safe_weaken; [apply (li_free_opt _ (optl (pgv p) ++ psown ps ++ R) s (pfv p) HL')|]; [ms|].
      intros u s1 H1. eapply safe_weaken; [apply (li_free_opt _ (psown ps ++ R) s1 (pgv p) H1)|]; [ms|].
      intros u' s2 H2. apply IH; exact H2.
    + apply safe_ret.
      assert (HL0 : LI (psown ps ++ (optl (pfv p) ++ optl (pgv p)) ++ R) s) by (apply (LI_eq _ _ _ HL'); ms).
      eapply safe_weaken; [apply (IH ((optl (pfv p) ++ optl (pgv p)) ++ R) s HL0)|].
      intros u s1 H1. apply (LI_eq _ _ _ H1). intro x. unfold psown, pown. simpl. autorewrite with cntdb. lia.
Qed.

Lemma LI_nil_live : forall s, LI [] s -> live s = [].
Proof.
  intros s [_ H]. apply ids_nil_live_nil. intros x Hx. apply cnt_in in Hx. rewrite <- H in Hx. rewrite cnt_nil in Hx. lia.
Qed.

Lemma cfgok_mkprms : forall ks, cfg_ok ks -> cfgok (mkprms ks).
Proof.
  intros ks H. unfold mkprms. split.
  - intros i o Ho. apply H. destruct (Nat.ltb_spec i (length ks)).
    + rewrite (nth_indep _ pdummy (mkPr KScalar 0 None None 0)) in Ho by (rewrite map_length; auto).
      change (mkPr KScalar 0 None None 0) with ((fun k => mkPr k 0 None None 0) KScalar) in Ho. rewrite map_nth in Ho. exact Ho.
    + rewrite nth_overflow in Ho by (rewrite map_length; auto). discriminate.
  - intros i Hi. exfalso. apply Hi. destruct (Nat.ltb_spec i (length ks)).
    + rewrite (nth_indep _ pdummy (mkPr KScalar 0 None None 0)) by (rewrite map_length; auto).
      change (mkPr KScalar 0 None None 0) with ((fun k => mkPr k 0 None None 0) KScalar). rewrite map_nth. reflexivity.
    + rewrite nth_overflow by (rewrite map_length; auto). reflexivity.
Qed.

Lemma psown_mkprms : forall ks, psown (mkprms ks) = [].
Proof. induction ks; simpl; auto. Qed.

(* the whole history, for every creation-ordered parameter set, every op list, every fault point *)
Lemma whistory_safe : forall ks ops k, cfg_ok ks ->
  safe (whistory NFixed ks ops) (start k) (fun r s' => (forall h, In h (snd r) -> h = 0) -> live s' = []).
Proof.
  intros ks ops k Hk. unfold whistory.
  assert (HI : WInv (mkW (mkprms ks) []) (start k)).
  { split; [|split; [apply cfgok_mkprms; auto | intros h v H; destruct h; discriminate]].
    unfold wown; simpl. rewrite psown_mkprms. split; [apply wf_start | intro x; reflexivity]. }
  apply safe_bind. eapply safe_weaken; [apply winv_run; exact HI|].
  intros [w os] s1 [HL [Hc Hall]]; simpl in *.
  apply safe_bind. unfold wfinish. apply safe_bind.
  assert (HL0 : LI (psown (w_prm w) ++ flat_map oown (w_new w) ++ []) s1) by (apply (LI_eq _ _ _ HL); unfold wown; ms).
  eapply safe_weaken; [apply (li_free_ring (w_new w) (w_prm w) [] s1 HL0 Hc)|].
  { intros v Hin. destruct (In_nth _ _ None Hin) as [h [_ Hh]]. apply (Hall h v Hh). }
  intros ps' s2 [HL2 _].
  apply safe_bind. eapply safe_weaken; [apply (li_free_prms ps' [] s2 HL2)|].
  intros u s3 HL3. apply safe_ret. apply safe_ret. simpl. intro Hheld.
  apply LI_nil_live. apply (LI_eq _ _ _ HL3).
  assert (Hs : still_held ps' = []).
  { clear - Hheld. induction ps' as [|p ps IH]; simpl; auto.
    rewrite (Hheld (pheld p)) by (simpl; auto). simpl. apply IH. intros h Hin. apply Hheld; simpl; auto. }
  rewrite Hs. intro x; reflexivity.
Qed.

Theorem new_no_fault_lemma : forall ks ops k f, cfg_ok ks -> whistory NFixed ks ops (start k) <> Fault f.
Proof.
  intros ks ops k f Hk H. destruct (whistory_safe ks ops k Hk) as [a [s' [He _]]]. rewrite He in H; discriminate.
Qed.

Theorem new_no_leak_lemma : forall ks ops k os held s', cfg_ok ks ->
  whistory NFixed ks ops (start k) = Ok ((os, held), s') -> (forall h, In h held -> h = 0) -> live s' = [].
Proof.
  intros ks ops k os held s' Hk H Hh. destruct (whistory_safe ks ops k Hk) as [a [s2 [He Hl]]].
  rewrite He in H; inversion H; subst. apply Hl. exact Hh.
Qed.

Theorem new_fault_clean_lemma : forall w op s, WInv w s ->
  exists w' o s', wstep NFixed w op s = Ok ((w', o), s') /\ WInv w' s'.
Proof.
  intros w op s HI. destruct (winv_step w op s HI) as [[w' o] [s' [He HI']]]. exists w', o, s'; auto.
Qed.
