(* Proofs about the parameter-slot allocator model. *)
Require Import List ZArith Bool Arith Lia.
Import ListNotations.
Require Import LV.Mem.Alloc LV.Mem.AllocProofs LV.Mem.PropList LV.Mem.PropListProofs LV.Mem.Owned LV.Mem.ParamSlots.
Open Scope Z_scope.

Definition slotk (o : option block_id) : list block_id := match o with Some p => [p] | None => [] end.
Definition somes (l : list (option block_id)) : list block_id := own _ slotk l.
Definition powned (c : pcoll) : list block_id := vecl (pvec c) ++ somes (slots c).

Fixpoint count_some (l : list (option block_id)) : nat :=
  match l with [] => O | Some _ :: t => S (count_some t) | None :: t => count_some t end.

Definition PInv (c : pcoll) (s : astate) : Prop :=
  wf s /\ NoDup (powned c) /\ (forall x, In x (ids s) <-> In x (powned c)) /\
  pcount c = count_some (slots c) /\ (pfirst c <= palloc c)%nat /\
  (forall j, (j < pfirst c)%nat -> nth j (slots c) None <> None) /\
  ((0 < palloc c)%nat -> pvec c <> None).

Lemma slotk_none : slotk None = [].
Proof. reflexivity. Qed.

Lemma count_le : forall l, (count_some l <= length l)%nat.
Proof. induction l as [|[p|] l]; simpl; lia. Qed.

Lemma count_lt_exists : forall l, (count_some l < length l)%nat -> exists j, (j < length l)%nat /\ nth j l None = None.
Proof.
  induction l as [|[p|] l]; simpl; intro H; try lia.
  - destruct (IHl ltac:(lia)) as [j [Hj Hn]]. exists (S j); split; [lia | assumption].
  - exists O; split; [lia | reflexivity].
Qed.

Lemma count_upd_some : forall n l p, (n < length l)%nat -> nth n l None = None ->
  count_some (upd l n (Some p)) = S (count_some l).
Proof.
  induction n; destruct l as [|[q|] l]; simpl; intros p Hn He; try lia; try discriminate; auto.
  - rewrite IHn; auto; lia.
  - rewrite IHn; auto; lia.
Qed.

Lemma count_upd_none : forall n l p, (n < length l)%nat -> nth n l None = Some p ->
  count_some (upd l n None) = pred (count_some l).
Proof.
  induction n; destruct l as [|[q|] l]; simpl; intros p Hn He; try lia; try discriminate; auto.
  - rewrite (IHn l p); auto; [|lia]. assert (count_some l <> O).
    { clear - He Hn. revert n Hn He. induction l as [|[r|] l]; destruct n; simpl; intros; try lia; try discriminate.
      - apply (IHl n); auto; lia. }
    lia.
  - rewrite (IHn l p); auto; lia.
Qed.

Lemma nth_upd_same : forall A n (l : list A) v d, (n < length l)%nat -> nth n (upd l n v) d = v.
Proof. induction n; destruct l; simpl; intros; try lia; auto. apply IHn; lia. Qed.

Lemma nth_upd_other : forall A n m (l : list A) v d, n <> m -> nth m (upd l n v) d = nth m l d.
Proof. induction n; destruct l, m; simpl; intros; try lia; auto. Qed.

Lemma scan_spec : forall fuel i sl,
  (exists j, (i <= j < length sl)%nat /\ nth j sl None = None) -> (length sl - i < fuel)%nat ->
  exists r, scan fuel i sl = Some r /\ (i <= r < length sl)%nat /\ nth r sl None = None /\
            (forall j, (i <= j < r)%nat -> nth j sl None <> None).
Proof.
  induction fuel; intros i sl [j [Hj Hn]] Hf; [lia|]. simpl.
  destruct (nth_error sl i) as [[p|]|] eqn:He.
  - assert (Hi : nth i sl None = Some p) by (apply nth_error_nth; assumption).
    assert (j <> i) by (intro; subst; congruence).
    destruct (IHfuel (S i) sl) as [r [Hs [Hr [Hrn Hb]]]]; [exists j; split; [lia | assumption] | lia|].
    exists r; split; [assumption | split; [lia | split; [assumption|]]].
    intros k Hk. destruct (Nat.eq_dec k i); [subst; congruence | apply Hb; lia].
  - exists i. assert (Hi : nth i sl None = None) by (apply nth_error_nth; assumption).
    split; [reflexivity | split; [lia | split; [assumption | intros k Hk; lia]]].
  - apply nth_error_None in He. lia.
Qed.

Lemma somes_in_nth : forall n l p, nth n l None = Some p -> In p (somes l).
Proof. intros n l p H. apply (nth_own_in _ slotk None slotk_none n l p). rewrite H; simpl; auto. Qed.

Lemma PInv_ids_eq : forall c s s', PInv c s -> wf s' -> (forall x, In x (ids s') <-> In x (ids s)) -> PInv c s'.
Proof.
  intros c s s' [Hw [Hnd [Hiff R]]] Hw' Hi. split; [assumption | split; [assumption | split; [|exact R]]].
  intro x; rewrite Hi; apply Hiff.
Qed.

Lemma P_vec_ok : forall c s, PInv c s -> (0 < palloc c)%nat -> exists b, pvec c = Some b /\ In b (ids s).
Proof.
  intros c s [_ [_ [Hiff [_ [_ [_ Hv]]]]]] Hp. destruct (pvec c) as [b|] eqn:Hb; [|exfalso; apply Hv; auto].
  exists b; split; auto. apply Hiff; unfold powned; rewrite Hb; simpl; auto.
Qed.

(* placing a fresh block into an empty slot *)
Lemma PInv_place : forall c s s2 n p f,
  PInv c s -> (n < palloc c)%nat -> nth n (slots c) None = None -> wf s2 -> ~ In p (ids s) ->
  (forall x, In x (ids s2) <-> x = p \/ In x (ids s)) ->
  (f <= palloc c)%nat -> (forall j, (j < f)%nat -> j <> n -> nth j (slots c) None <> None) ->
  PInv (mkP (pvec c) (S (pcount c)) f (upd (slots c) n (Some p))) s2.
Proof.
  intros c s s2 n p f [Hw [Hnd [Hiff [Hc [Hfl [Hbelow Hv]]]]]] Hn He Hw2 Hp Hi2 Hf Hb.
  unfold PInv, powned, palloc in *; simpl.
  destruct (NoDup_app_inv' _ _ Hnd) as [Hv1 [Hs Hd]].
  assert (Hrm := own_remove_empty _ slotk None n (slots c) Hn ltac:(rewrite He; reflexivity)).
  assert (Hup := own_upd _ slotk n (slots c) (Some p) Hn).
  split; [assumption|]. split; [|split; [|split; [|split; [|split]]]].
  - apply NoDup_app_intro'; auto.
    + apply (NoDup_own_upd _ slotk); auto; [simpl; repeat constructor; simpl; tauto | |].
      * destruct (own_remove_at _ slotk None slotk_none n (slots c) Hn Hs); assumption.
      * simpl; intros x [Hx|[]] Hin; subst x. apply Hp, Hiff, in_or_app; right. apply Hrm; assumption.
    + intros x Hx Hin. apply Hup in Hin. simpl in Hin. destruct Hin as [[Hin|[]]|Hin].
      * subst x. apply Hp, Hiff, in_or_app; auto.
      * eapply Hd; eauto. apply Hrm; assumption.
  - intro x; rewrite Hi2, Hiff, !in_app_iff. unfold somes. rewrite (Hup x), (Hrm x). simpl. intuition.
  - rewrite count_upd_some; auto.
  - rewrite length_upd; assumption.
  - intros j Hj. destruct (Nat.eq_dec j n); [subst; rewrite nth_upd_same by assumption; discriminate|].
    rewrite nth_upd_other by auto. apply Hb; auto.
  - rewrite length_upd; assumption.
Qed.

Lemma safe_alloc_parameter : forall c s, PInv c s ->
  safe (alloc_parameter Fixed c) s (fun r s' => PInv (fst r) s').
Proof.
  intros c s HI; unfold alloc_parameter. pose proof HI as [Hw [Hnd [Hiff [Hc [Hfl [Hbelow Hv]]]]]].
  apply safe_bind. destruct (Nat.ltb_spec (pcount c) (palloc c)) as [Hlt|Hge].
  - (* a free slot exists: scan from first_free *)
    assert (Hex : exists j, (pfirst c <= j < length (slots c))%nat /\ nth j (slots c) None = None).
    { destruct (count_lt_exists (slots c)) as [j [Hj Hn]]; [unfold palloc in Hlt; lia|].
      exists j; split; auto. split; auto. destruct (le_lt_dec (pfirst c) j); auto. exfalso; eapply Hbelow; eauto. }
    destruct (scan_spec (S (palloc c)) (pfirst c) (slots c) Hex ltac:(unfold palloc; lia)) as [i [Hs [Hi [Hin Hbet]]]].
    rewrite Hs. apply safe_ret.
    apply safe_bind. eapply safe_weaken; [apply safe_malloc; assumption|].
    intros [p|] s1 [Hw1 H1].
    + destruct H1 as [Hp [Hnp [Hids1 _]]]. simpl.
      destruct (P_vec_ok c s HI ltac:(unfold palloc; lia)) as [b [Hb Hbl]].
      assert (Hlive : is_live b s1 = true) by (apply is_live_iff; rewrite Hids1; simpl; auto).
      apply safe_bind. exists tt, s1; split; [unfold touch; rewrite Hb, Hlive; reflexivity|].
      apply safe_bind. exists tt, s1; split.
      { unfold check_range, range_ok, palloc; simpl.
        replace (0 <=? Z.of_nat i) with true by (symmetry; apply Z.leb_le; lia).
        replace (Z.of_nat i + 1 <=? Z.of_nat (length (slots c))) with true by (symmetry; apply Z.leb_le; lia).
        reflexivity. }
      apply safe_ret; simpl.
      apply (PInv_place c s s1 i p (S i)); auto; [unfold palloc; lia | | unfold palloc; lia |].
      * intro x; rewrite Hids1; simpl; intuition.
      * intros j Hj Hne. destruct (le_lt_dec (pfirst c) j); [apply Hbet; lia | apply Hbelow; assumption].
    + destruct H1 as [Hids1 _]. apply safe_ret; cbn [fst].
      assert (HI1 : PInv c s1) by (eapply PInv_ids_eq; eauto; intro x; rewrite Hids1; tauto).
      destruct HI1 as [A1 [A2 [A3 [A4 [A5 [A6 A7]]]]]].
      unfold PInv, powned, palloc in *; cbn [fst snd pvec pcount pfirst slots].
      rewrite Nat.min_r by lia.
      split; [assumption | split; [assumption | split; [assumption | split; [assumption | split; [lia | split; [|assumption]]]]]].
      intros j Hj. destruct (le_lt_dec (pfirst c) j); [apply Hbet; lia | apply Hbelow; assumption].
  - (* the table is full: grow it *)
    assert (Hfull : pcount c = palloc c) by (pose proof (count_le (slots c)); unfold palloc in *; lia).
    assert (Hall : forall j, (j < palloc c)%nat -> nth j (slots c) None <> None).
    { intros j Hj Hn. clear - Hc Hfull Hj Hn. unfold palloc in *. rewrite Hc in Hfull. clear Hc.
      revert j Hj Hn. induction (slots c) as [|[q|] l IH]; simpl in *; intros; try lia.
      - destruct j; [discriminate | apply (IH ltac:(lia) j); [lia | assumption]].
      - pose proof (count_le l); lia. }
    apply safe_bind. eapply safe_weaken; [apply safe_realloc; [assumption|]|].
    { intros b Hb. apply Hiff; unfold powned; rewrite Hb; simpl; auto. }
    intros [nb|] s1 [Hw1 H1].
    + destruct H1 as [Hnb [Hni [_ Hi1]]]. apply safe_ret.
      set (na := new_allocation (palloc c)).
      assert (Hna : (palloc c < na)%nat).
      { unfold na, new_allocation. destruct (Nat.ltb_spec (palloc c) 3); [lia|]. destruct (Nat.ltb_spec (palloc c) 8); lia. }
      set (c1 := mkP (Some nb) (pcount c) (pfirst c) (slots c ++ repeat None (na - palloc c))).
      assert (Hlen1 : palloc c1 = na) by (unfold c1; unfold palloc in *; simpl; rewrite app_length, repeat_length; unfold palloc in *; lia).
      assert (Hsom : somes (slots c1) = somes (slots c)).
      { unfold c1, somes; simpl. rewrite own_app, (own_repeat_d _ slotk None slotk_none), app_nil_r; reflexivity. }
      destruct (NoDup_app_inv' _ _ Hnd) as [Hv1 [Hs Hd]].
      assert (HI1 : PInv c1 s1).
      { unfold PInv, powned. rewrite Hsom. change (pvec c1) with (Some nb). simpl vecl.
        split; [assumption|]. split; [|split; [|split; [|split; [|split]]]].
        - simpl. constructor; auto. intro Hin; apply Hni, Hiff, in_or_app; auto.
        - intro x; rewrite Hi1, Hiff; simpl. unfold powned; rewrite in_app_iff. split.
          + intros [Hx|[[Hx|Hx] Hne]]; auto. exfalso; apply Hne. destruct (pvec c); simpl in Hx; [destruct Hx as [Hx|[]]; subst; reflexivity | destruct Hx].
          + intros [Hx|Hx]; [left; auto | right; split; [auto|]]. intro He. eapply Hd; [rewrite <- He; simpl; left; reflexivity | exact Hx].
        - unfold c1; simpl. rewrite Hc. clear. induction (slots c) as [|[q|] l IH]; simpl; auto.
          induction (na - palloc c)%nat; simpl; auto.
        - rewrite Hlen1. unfold c1; simpl. lia.
        - intros j Hj. unfold c1 in *; simpl in *. rewrite app_nth1 by (unfold palloc in *; lia). apply Hbelow; assumption.
        - intros _; discriminate. }
      apply safe_bind. eapply safe_weaken; [apply safe_malloc; assumption|].
      intros [p|] s2 [Hw2 H2].
      * destruct H2 as [Hp [Hnp [Hids2 _]]].
        assert (Hlive : is_live nb s2 = true) by (apply is_live_iff; rewrite Hids2; simpl; right; apply Hi1; auto).
        apply safe_bind. exists tt, s2; split; [unfold touch; simpl; rewrite Hlive; reflexivity|].
        apply safe_bind. exists tt, s2; split.
        { unfold check_range, range_ok. fold c1. rewrite Hlen1.
          replace (0 <=? Z.of_nat (pcount c)) with true by (symmetry; apply Z.leb_le; lia).
          replace (Z.of_nat (pcount c) + 1 <=? Z.of_nat na) with true by (symmetry; apply Z.leb_le; lia).
          reflexivity. }
        apply safe_ret. simpl fst. fold c1.
        apply (PInv_place c1 s1 s2 (pcount c) p (pfirst c)); auto.
        -- rewrite Hlen1; lia.
        -- unfold c1; simpl. rewrite app_nth2 by (unfold palloc in *; lia). apply nth_repeat.
        -- intro x; rewrite Hids2; simpl; intuition.
        -- rewrite Hlen1; lia.
        -- intros j Hj Hne. unfold c1; simpl. rewrite app_nth1 by (unfold palloc in *; lia). apply Hbelow; assumption.
      * destruct H2 as [Hids2 _]. apply safe_ret; cbn [fst].
        assert (HI2 : PInv c1 s2) by (eapply PInv_ids_eq; eauto; intro x; rewrite Hids2; tauto).
        destruct HI2 as [A1 [A2 [A3 [A4 [A5 [A6 A7]]]]]].
        unfold PInv, powned in *; cbn [fst snd pvec pcount pfirst slots] in *.
        split; [assumption | split; [assumption | split; [assumption | split; [assumption | split; [|split; [|assumption]]]]]].
        -- pose proof (Nat.le_min_l (pfirst c) (pcount c)). unfold palloc in *; cbn [slots] in *. lia.
        -- intros j Hj. apply A6. pose proof (Nat.le_min_l (pfirst c) (pcount c)). lia.
    + destruct H1 as [Hids1 _]. apply safe_ret. apply safe_ret; simpl.
      eapply PInv_ids_eq; eauto. intro x; rewrite Hids1; tauto.
Qed.

Lemma safe_delete_parameter : forall c s index, PInv c s ->
  safe (delete_parameter c index) s (fun r s' => PInv (fst r) s').
Proof.
  intros c s index HI; unfold delete_parameter. pose proof HI as [Hw [Hnd [Hiff [Hc [Hfl [Hbelow Hv]]]]]].
  destruct (Z.ltb_spec index 0); [apply safe_ret; assumption|].
  destruct (Z.ltb_spec index 3); [apply safe_ret; assumption|].
  destruct (Z.leb_spec (Z.of_nat (palloc c)) index); [apply safe_ret; assumption|].
  set (n := Z.to_nat index). assert (Hn : (n < length (slots c))%nat) by (unfold n, palloc in *; lia).
  destruct (nth n (slots c) None) as [p|] eqn:Hp; [|apply safe_ret; assumption].
  destruct (P_vec_ok c s HI ltac:(unfold palloc; lia)) as [b [Hb Hbl]].
  assert (Hlive : is_live b s = true) by (apply is_live_iff; assumption).
  apply safe_bind. exists tt, s; split; [unfold touch; rewrite Hb, Hlive; reflexivity|].
  destruct (NoDup_app_inv' _ _ Hnd) as [Hv1 [Hs Hd]].
  assert (Hpin : In p (somes (slots c))) by (eapply somes_in_nth; eauto).
  apply safe_bind. eapply safe_weaken; [apply safe_free; [assumption | apply Hiff, in_or_app; auto]|].
  intros u s1 [Hw1 [_ Hi1]]. apply safe_ret; cbn [fst].
  destruct (own_remove_at _ slotk None slotk_none n (slots c) Hn Hs) as [Hrn Hriff].
  assert (Hup := own_upd _ slotk n (slots c) None Hn).
  unfold PInv, powned, palloc in *; cbn [pvec pcount pfirst slots].
  split; [assumption|]. split; [|split; [|split; [|split; [|split]]]].
  - apply NoDup_app_intro'; auto.
    + apply (NoDup_own_upd _ slotk); auto; simpl; try constructor; try tauto.
    + intros x Hx Hin. apply Hup in Hin. simpl in Hin. destruct Hin as [[]|Hin]. apply Hriff in Hin. eapply Hd; eauto; tauto.
  - intro x; rewrite Hi1, Hiff, !in_app_iff. unfold somes. rewrite (Hup x), (Hriff x), Hp. simpl. split.
    + intros [[Hx|Hx] Hne]; auto. right; right; split; auto. intros [He|[]]; congruence.
    + intros [Hx|[[]|[Hx Hno]]].
      * split; auto. intro; subst x. eapply Hd; eauto.
      * split; auto; intro; subst x; apply Hno; auto.
  - rewrite (count_upd_none n (slots c) p); auto; rewrite Hc; reflexivity.
  - rewrite length_upd. pose proof (Nat.le_min_l (pfirst c) n). lia.
  - intros j Hj. assert (j <> n) by (pose proof (Nat.le_min_r (pfirst c) n); lia).
    rewrite nth_upd_other by auto. apply Hbelow. pose proof (Nat.le_min_l (pfirst c) n). lia.
  - rewrite length_upd; assumption.
Qed.

Lemma safe_pstep : forall c s op, PInv c s -> safe (pstep Fixed c op) s (fun r s' => PInv (fst r) s').
Proof.
  intros c s [|i] HI; simpl.
  - apply safe_bind. eapply safe_weaken; [apply safe_alloc_parameter; assumption|].
    intros [c' [j|]] s' HI'; apply safe_ret; assumption.
  - apply safe_delete_parameter; assumption.
Qed.

Lemma safe_prun : forall ops c s, PInv c s -> safe (prun Fixed c ops) s (fun r s' => PInv (fst r) s').
Proof.
  induction ops as [|op ops IH]; intros c s HI; simpl.
  - apply safe_ret; assumption.
  - apply safe_bind. eapply safe_weaken; [apply safe_pstep; assumption|].
    intros [c' o] s' HI'; simpl in HI'.
    apply safe_bind. eapply safe_weaken; [apply IH; exact HI'|].
    intros [c'' os] s'' HI''; simpl in *. apply safe_ret; assumption.
Qed.

Lemma safe_free_slots : forall l s, wf s -> NoDup (somes l) -> (forall x, In x (somes l) -> In x (ids s)) ->
  safe (free_slots l) s (fun _ s' => wf s' /\ (forall x, In x (ids s') <-> In x (ids s) /\ ~ In x (somes l))).
Proof.
  induction l as [|o l IH]; intros s Hw Hnd Hin; simpl.
  - apply safe_ret; split; auto. intro x; unfold somes; simpl; tauto.
  - unfold somes in *; simpl in *. destruct (NoDup_app_inv' _ _ Hnd) as [Hc [Hk Hd]].
    apply safe_bind. destruct o as [p|]; simpl in *.
    + eapply safe_weaken; [apply safe_free; [assumption | apply Hin; auto]|].
      intros u s1 [Hw1 [_ Hi1]].
      eapply safe_weaken; [apply IH; [assumption | assumption |]|].
      * intros x Hx; apply Hi1; split; [apply Hin; auto | intro; subst; eapply Hd; eauto; simpl; auto].
      * intros u2 s2 [Hw2 Hi2]; split; auto. intro x; rewrite Hi2, Hi1; simpl. intuition.
    + exists tt, s; split; [reflexivity|].
      eapply safe_weaken; [apply IH; auto|]. intros u2 s2 [Hw2 Hi2]; split; auto.
Qed.

Lemma safe_teardown : forall c s, PInv c s -> safe (teardown c) s (fun _ s' => live s' = []).
Proof.
  intros c s [Hw [Hnd [Hiff _]]]; unfold teardown, powned in *.
  destruct (NoDup_app_inv' _ _ Hnd) as [Hv1 [Hs Hd]].
  apply safe_bind. eapply safe_weaken; [apply safe_free_slots; [assumption | assumption |]|].
  { intros x Hx; apply Hiff, in_or_app; auto. }
  intros u s1 [Hw1 Hi1]. destruct (pvec c) as [b|] eqn:Hb; simpl in *.
  - eapply safe_weaken; [apply safe_free; [assumption|]|].
    + apply Hi1; split; [apply Hiff; simpl; auto | intro Hx; eapply Hd; eauto].
    + intros u2 s2 [Hw2 [_ Hi2]]. apply ids_nil_live_nil. intros x Hx.
      apply Hi2 in Hx. destruct Hx as [Hx Hne]. apply Hi1 in Hx. destruct Hx as [Hx Hno]. apply Hiff in Hx.
      destruct Hx as [Hx|Hx]; [congruence | contradiction].
  - exists tt, s1; split; [reflexivity|]. apply ids_nil_live_nil. intros x Hx.
    apply Hi1 in Hx. destruct Hx as [Hx Hno]. apply Hiff in Hx. contradiction.
Qed.

Lemma PInv_empty : forall k, PInv pempty (start k).
Proof.
  intro k; unfold PInv, powned, pempty, palloc; simpl.
  split; [apply wf_start|]. split; [constructor|]. split; [intro x; tauto|].
  split; [reflexivity|]. split; [lia|]. split; [intros j Hj; lia | lia].
Qed.

Lemma phistory_safe : forall ops k, safe (phistory Fixed ops) (start k) (fun _ s' => live s' = []).
Proof.
  intros ops k; unfold phistory.
  apply safe_bind. eapply safe_weaken; [apply safe_prun; apply PInv_empty|].
  intros [c os] s1 HI1; simpl in HI1.
  apply safe_bind. eapply safe_weaken; [apply safe_teardown; exact HI1|].
  intros u s2 H2. apply safe_ret; assumption.
Qed.

Theorem pslots_no_fault_lemma : forall ops k f, phistory Fixed ops (start k) <> Fault f.
Proof.
  intros ops k f H. destruct (phistory_safe ops k) as [a [s' [He _]]]. rewrite He in H; discriminate.
Qed.

Theorem pslots_no_leak_lemma : forall ops k os s',
  phistory Fixed ops (start k) = Ok (os, s') -> live s' = [].
Proof.
  intros ops k os s' H. destruct (phistory_safe ops k) as [a [s2 [He Hl]]]. rewrite He in H; inversion H; subst; assumption.
Qed.

Theorem pslots_fault_clean_lemma : forall op c s, PInv c s ->
  exists c' o s', pstep Fixed c op s = Ok ((c', o), s') /\ PInv c' s'.
Proof.
  intros op c s HI. destruct (safe_pstep c s op HI) as [[c' o] [s' [He HI']]]. exists c', o, s'; auto.
Qed.

(* a failed allocation leaves the set of valid handles unchanged: concrete instance (table of 8 with
   slot 7 free; the malloc of the parameter fails).  The general statement is not proved. *)
Example pslots_fault_atomic_example :
  match prun Fixed pempty (repeat PAlloc 8 ++ [PDelete 7]) (start None) with
  | Ok ((c, _), s) =>
      match alloc_parameter Fixed c (mkA (Some O) (live s) (fresh s)) with
      | Ok ((c', None), _) => pobserve c' = pobserve c /\ pcount c' = pcount c /\ pfirst c' = 7%nat
      | _ => False
      end
  | _ => False
  end.
Proof. vm_compute. repeat split. Qed.

Example PInv_satisfiable : exists c s, PInv c s /\ palloc c = 8%nat /\ pcount c = 4%nat.
Proof.
  destruct (safe_prun [PAlloc; PAlloc; PAlloc; PAlloc; PAlloc; PDelete 3] _ _ (PInv_empty None)) as [[c' os] [s' [He HI']]].
  vm_compute in He. inversion He; subst. eexists; eexists; split; [exact HI'|]. vm_compute; auto.
Qed.

(* D11 as first read: first_free is not restored; the next allocation reads past the table *)
Theorem pslots_orig_refuted_lemma :
  exists ops k, phistory Orig ops (start (Some k)) = Fault OOB.
Proof. exists (repeat PAlloc 8 ++ [PDelete 7; PAlloc; PAlloc]), 10%nat; vm_compute; reflexivity. Qed.

Lemma pslots_fault_history_lemma : forall ops k os s',
  phistory Fixed ops (start (Some k)) = Ok (os, s') -> live s' = [].
Proof. intros ops k; exact (pslots_no_leak_lemma ops (Some k)). Qed.

Lemma pslots_fault_history_no_fault_lemma : forall ops k f, phistory Fixed ops (start (Some k)) <> Fault f.
Proof. intros ops k; exact (pslots_no_fault_lemma ops (Some k)). Qed.
