(* Pointer-level model, as coded, of the two chained hash tables of libvna:
     - the vnacal_new_t parameter hash (src/vnacal_new_parameter.c: hash_expand, hash_lookup,
       hash_insert, _vnacal_new_init_parameter_hash, _vnacal_new_free_parameter_hash and the
       look-up / malloc / insert sequence of _vnacal_new_get_parameter);
     - the vnaproperty map (src/vnaproperty.c: map_find_anchor, map_expand, map_subtree,
       map_delete, map_alloc, vnaproperty_vkeys, vnaproperty_free of a map).
   A bucket is a chain of nodes linked through a next pointer; the model keeps a chain as the list
   of its nodes in link order.  A node is (key, hashval, blocks it owns).  Chains are kept in
   ascending key order by the code: both look-ups stop at the first node whose key is greater
   than the key searched, so an unsorted chain hides nodes.  For the parameter hash key = hashval =
   parameter index; for the property map the order is (hashval, strcmp): the model's key is the
   rank of (crc32c(name), name) in that order (computed by the driver), hashval = crc32c(name)
   (a binary number: hash values are 32-bit).
   [HFixed] is the code of the tree; the other variants are bug shapes (hash_insert pushing on the
   chain head, hash_expand / map_expand pushing rehashed nodes on the chain head) kept for
   refutations.  No proofs in this file. *)
Require Import List ZArith NArith Bool Arith Lia.
Import ListNotations.
Require Import LV.Mem.Alloc LV.Mem.PropList.
Open Scope Z_scope.

Record node := mkN { nkey : nat; nhash : N; nblocks : list block_id }.
Definition chain := list node.

Record htab := mkH {
  hblk : option block_id;      (* the bucket array *)
  hcount : nat;                (* number of stored nodes *)
  hbuckets : list chain        (* bucket array contents; its length is the allocation *)
}.
Definition halloc (h : htab) : nat := length (hbuckets h).

Inductive hvariant := HFixed | HHeadInsert | HRehashHead.

(* insertion into a chain: walk while the next node does not stop us.
   strict = true : stop at the first node with key > new key   (hash_insert, hash_expand)
   strict = false: stop at the first node with key >= new key  (map_find_anchor, map_expand) *)
Fixpoint chain_insert (strict : bool) (n : node) (c : chain) : chain :=
  match c with
  | [] => [n]
  | e :: t =>
      if (if strict then (nkey n <? nkey e)%nat else (nkey n <=? nkey e)%nat) then n :: c
      else e :: chain_insert strict n t
  end.

(* hash_lookup / map_find_anchor: found, or stop at the first greater key *)
Fixpoint chain_lookup (k : nat) (c : chain) : option node :=
  match c with
  | [] => None
  | e :: t =>
      if (nkey e =? k)%nat then Some e
      else if (k <? nkey e)%nat then None
      else chain_lookup k t
  end.

Fixpoint chain_remove (k : nat) (c : chain) : chain :=
  match c with
  | [] => []
  | e :: t => if (nkey e =? k)%nat then t else e :: chain_remove k t
  end.

(* hashval % allocation (allocation = 0 would be a division by zero in C; every caller touches the
   NULL table right after computing the index, which is the fault the model reports) *)
Definition bucket_of (hv : N) (len : nat) : nat :=
  match len with O => O | S _ => N.to_nat (hv mod N.of_nat len) end.

(* table[index] for reading or writing: the array must be live and the index inside it *)
Definition bucket_access (h : htab) (i : nat) : M unit :=
  touch (hblk h) ;;; check_range (Z.of_nat i) 1 (Z.of_nat (halloc h)).

Definition set_bucket (h : htab) (i : nat) (c : chain) : htab :=
  mkH (hblk h) (hcount h) (upd (hbuckets h) i c).

(* insert node n into its chain of table h (allocation > 0) *)
Definition table_insert (v : hvariant) (strict : bool) (h : htab) (n : node) : M htab :=
  let i := bucket_of (nhash n) (halloc h) in
  bucket_access h i ;;;
  ret (set_bucket h i (match v with
                       | HHeadInsert => n :: nth i (hbuckets h) []
                       | _ => chain_insert strict n (nth i (hbuckets h) [])
                       end)).

(* re-insert the nodes of one detached chain *)
Fixpoint rehash_chain (v : hvariant) (strict : bool) (h : htab) (c : chain) : M htab :=
  match c with
  | [] => ret h
  | n :: rest =>
      let i := bucket_of (nhash n) (halloc h) in
      bucket_access h i ;;;
      rehash_chain v strict
        (set_bucket h i (match v with
                         | HRehashHead => n :: nth i (hbuckets h) []
                         | _ => chain_insert strict n (nth i (hbuckets h) [])
                         end)) rest
  end.

(* for (chain = 0; chain < old_allocation; ++chain) { head = table[chain]; table[chain] = NULL; ... } *)
Fixpoint rehash_all (v : hvariant) (strict : bool) (h : htab) (idx : list nat) : M htab :=
  match idx with
  | [] => ret h
  | c :: rest =>
      bucket_access h c ;;;
      h' <- rehash_chain v strict (set_bucket h c []) (nth c (hbuckets h) []) ;;
      rehash_all v strict h' rest
  end.

(* hash_expand / map_expand: realloc the array to new_alloc buckets, clear the new ones, rehash.
   false = the realloc failed (nothing changed). *)
Definition expand (v : hvariant) (strict : bool) (h : htab) (new_alloc : nat) : M (bool * htab) :=
  r <- realloc (hblk h) (Z.of_nat new_alloc * 8) ;;
  match r with
  | None => ret (false, h)
  | Some b =>
      let old := halloc h in
      h' <- rehash_all v strict
              (mkH (Some b) (hcount h) (hbuckets h ++ repeat [] (new_alloc - old))) (seq 0 old) ;;
      ret (true, h')
  end.

Definition table_lookup (h : htab) (hv : N) (k : nat) : M (option node) :=
  let i := bucket_of hv (halloc h) in
  bucket_access h i ;;; ret (chain_lookup k (nth i (hbuckets h) [])).

(* free every node of every chain, then the array *)
Fixpoint free_blocks (l : list block_id) : M unit :=
  match l with [] => ret tt | b :: t => free (Some b) ;;; free_blocks t end.
Fixpoint free_chain (c : chain) : M unit :=
  match c with [] => ret tt | n :: t => free_blocks (nblocks n) ;;; free_chain t end.
Fixpoint free_chains (l : list chain) : M unit :=
  match l with [] => ret tt | c :: t => free_chain c ;;; free_chains t end.
Definition table_free (h : htab) : M unit := free_chains (hbuckets h) ;;; free (hblk h).

(* ------------------------------------------------------------------ vnacal_new parameter hash *)
Definition INITIAL_HASH_SIZE : nat := 8.
Definition ph_new_alloc (old : nat) : nat := Nat.max (2 * old) INITIAL_HASH_SIZE.

(* _vnacal_new_init_parameter_hash: memset 0, hash_expand *)
Definition ph_init : M (option htab) :=
  r <- expand HFixed true (mkH None 0 []) (ph_new_alloc 0) ;;
  (let (ok, h) := r in if ok then ret (Some h) else ret None).

(* hash_insert: sorted insertion, then  if (++count >= allocation) (void)hash_expand()  *)
Definition ph_insert (v : hvariant) (h : htab) (n : node) : M htab :=
  h1 <- table_insert v true h n ;;
  (let h2 := mkH (hblk h1) (S (hcount h1)) (hbuckets h1) in
   if (halloc h2 <=? hcount h2)%nat then
     r <- expand v true h2 (ph_new_alloc (halloc h2)) ;; ret (snd r)
   else ret h2).

(* _vnacal_new_get_parameter for a scalar parameter: negative index refused (D44), look-up, else
   malloc a node and insert it *)
Definition ph_get (v : hvariant) (h : htab) (parameter : Z) : M (htab * outcome) :=
  if parameter <? 0 then ret (h, Err EINVAL)
  else
    let k := Z.to_nat parameter in
    f <- table_lookup h (N.of_nat k) k ;;
    match f with
    | Some _ => ret (h, Done)
    | None =>
        m <- malloc 64 ;;
        match m with
        | None => ret (h, Err ENOMEM)
        | Some b => h' <- ph_insert v h (mkN k (N.of_nat k) [b]) ;; ret (h', Done)
        end
    end.

(* is the parameter in the table?  (the first test of _vnacal_new_check_parameter) *)
Definition ph_find (h : htab) (parameter : Z) : M (htab * outcome) :=
  if parameter <? 0 then ret (h, Err EINVAL)
  else
    let k := Z.to_nat parameter in
    f <- table_lookup h (N.of_nat k) k ;;
    match f with Some _ => ret (h, Done) | None => ret (h, Err ENOENT) end.

Inductive phop := PHGet (p : Z) | PHFind (p : Z).

Definition phstep (v : hvariant) (h : htab) (op : phop) : M (htab * outcome) :=
  match op with PHGet p => ph_get v h p | PHFind p => ph_find h p end.

Fixpoint phrun (v : hvariant) (h : htab) (ops : list phop) : M (htab * list outcome) :=
  match ops with
  | [] => ret (h, [])
  | op :: rest => r <- phstep v h op ;;
                  (let (h', o) := r in
                   r2 <- phrun v h' rest ;;
                   (let (h'', os) := r2 in ret (h'', o :: os)))
  end.

Definition phhistory (v : hvariant) (ops : list phop) : M (list outcome) :=
  o <- ph_init ;;
  match o with
  | None => ret []
  | Some h => r <- phrun v h ops ;; (let (h', os) := r in table_free h' ;;; ret os)
  end.

(* ------------------------------------------------------------------ vnaproperty map *)
(* a map: the vnaproperty_map_t block, the table, and the insertion-order list of keys
   (vpm_order_head .. vpm_order_tail through vme_order_next/prev) *)
Record pmap := mkM { mblk : block_id; mtab : htab; morder : list nat }.

Definition map_new_alloc (count : nat) : nat :=
  let n := (count + 1)%nat in Nat.max (n + (n + 1) / 2) 11.

(* map_alloc *)
Definition map_new : M (option pmap) :=
  b <- malloc 56 ;;
  match b with None => ret None | Some p => ret (Some (mkM p (mkH None 0 []) [])) end.

(* map_subtree(map, add, key): expand when count + 1 >= 2 * hash_size (failure: NULL), look-up,
   else (add) malloc the element, strdup the key (unwind), link into the chain and the order list *)
Definition map_subtree (v : hvariant) (m : pmap) (add : bool) (k : nat) (hv : N) : M (pmap * outcome) :=
  r <- (if (2 * halloc (mtab m) <=? hcount (mtab m) + 1)%nat
        then expand v false (mtab m) (map_new_alloc (hcount (mtab m)))
        else ret (true, mtab m)) ;;
  (let (ok, h) := r in
   if negb ok then ret (mkM (mblk m) h (morder m), Err ENOMEM)
   else
     f <- table_lookup h hv k ;;
     match f with
     | Some _ => ret (mkM (mblk m) h (morder m), Done)
     | None =>
         if negb add then ret (mkM (mblk m) h (morder m), Err ENOENT)
         else
           e <- malloc 56 ;;
           match e with
           | None => ret (mkM (mblk m) h (morder m), Err ENOMEM)
           | Some eb =>
               s <- malloc 8 ;;
               match s with
               | None => free (Some eb) ;;; ret (mkM (mblk m) h (morder m), Err ENOMEM)
               | Some sb =>
                   h1 <- table_insert v false h (mkN k hv [eb; sb]) ;;
                   ret (mkM (mblk m) (mkH (hblk h1) (S (hcount h1)) (hbuckets h1)) (morder m ++ [k]), Done)
               end
           end
     end).

(* map_delete *)
Definition map_delete (m : pmap) (k : nat) (hv : N) : M (pmap * outcome) :=
  let h := mtab m in
  if (hcount h =? 0)%nat then ret (m, Err ENOENT)
  else
    f <- table_lookup h hv k ;;
    match f with
    | None => ret (m, Err ENOENT)
    | Some n =>
        let i := bucket_of hv (halloc h) in
        free_blocks (rev (nblocks n)) ;;;
        ret (mkM (mblk m)
                 (mkH (hblk h) (pred (hcount h)) (upd (hbuckets h) i (chain_remove k (nth i (hbuckets h) []))))
                 (remove Nat.eq_dec k (morder m)), Done)
    end.

(* vnaproperty_vkeys: calloc(count + 1) filled from the order list; the caller frees it *)
Definition map_keys (m : pmap) : M (pmap * outcome * list nat) :=
  v <- malloc (Z.of_nat (hcount (mtab m) + 1) * 8) ;;
  match v with
  | None => ret (m, Err ENOMEM, [])
  | Some b =>
      check_range 0 (Z.of_nat (length (morder m) + 1)) (Z.of_nat (hcount (mtab m) + 1)) ;;;
      free (Some b) ;;; ret (m, Done, morder m)
  end.

Inductive mop := MSet (k : nat) (hv : N) | MGet (k : nat) (hv : N) | MDel (k : nat) (hv : N) | MKeys.

Definition mstep (v : hvariant) (m : pmap) (op : mop) : M (pmap * outcome * list nat) :=
  match op with
  | MSet k hv => r <- map_subtree v m true k hv ;; ret (r, [])
  | MGet k hv => r <- map_subtree v m false k hv ;; ret (r, [])
  | MDel k hv => r <- map_delete m k hv ;; ret (r, [])
  | MKeys => map_keys m
  end.

Fixpoint mrun (v : hvariant) (m : pmap) (ops : list mop) : M (pmap * list (outcome * list nat)) :=
  match ops with
  | [] => ret (m, [])
  | op :: rest => r <- mstep v m op ;;
                  (let '(m', o, ks) := r in
                   r2 <- mrun v m' rest ;;
                   (let (m'', os) := r2 in ret (m'', (o, ks) :: os)))
  end.

(* vnaproperty_free of a map: the elements are reached through the order list (not through the
   chains): key string, then element; then the table; then the map.  An order entry without an
   element in the table is a dangling vme_order_next pointer. *)
Definition all_nodes (h : htab) : list node := concat (hbuckets h).
Definition all_keys (h : htab) : list nat := map nkey (all_nodes h).

Fixpoint free_order (order : list nat) (nodes : list node) : M unit :=
  match order with
  | [] => ret tt
  | k :: t =>
      match find (fun n => (nkey n =? k)%nat) nodes with
      | Some n => free_blocks (rev (nblocks n)) ;;; free_order t nodes
      | None => fail UseAfterFree
      end
  end.

Definition map_free (m : pmap) : M unit :=
  free_order (morder m) (all_nodes (mtab m)) ;;; free (hblk (mtab m)) ;;; free (Some (mblk m)).

Definition mhistory (v : hvariant) (ops : list mop) : M (list (outcome * list nat)) :=
  o <- map_new ;;
  match o with
  | None => ret []
  | Some m => r <- mrun v m ops ;; (let (m', os) := r in map_free m' ;;; ret os)
  end.
