(* Allocation ledger, checked arrays and the allocation-fault monad (DESIGN.md section 3, "Memory"
   and "Allocation failure"; Appendix E "Fault-monad pattern").  Definitions only; lemmas are in
   AllocProofs.v. *)
Require Import List ZArith Bool Arith Lia.
Import ListNotations.
Open Scope Z_scope.

Inductive fault := OOB | UseUninit | UseAfterFree | NullDeref | IntOverflow | VlaBound.

(* the ledger: every block handed out by malloc/calloc/realloc/strdup and not yet released *)
Definition block_id := nat.
Record astate := mkA {
  fail_at : option nat;                (* Some k: the (k+1)-th request from now fails (once) *)
  live : list (block_id * Z);          (* live blocks with their sizes *)
  fresh : nat                          (* next block id; every live id is below it *)
}.

Definition ids (s : astate) : list block_id := map fst (live s).

Inductive res (A : Type) := Ok (a : A) | Fault (f : fault).
Arguments Ok {A} a.
Arguments Fault {A} f.

(* the allocation-fault monad: state = ledger + fault point; a memory fault aborts the run *)
Definition M (A : Type) := astate -> res (A * astate).
Definition ret {A} (a : A) : M A := fun s => Ok (a, s).
Definition bind {A B} (m : M A) (f : A -> M B) : M B :=
  fun s => match m s with Ok (a, s') => f a s' | Fault e => Fault e end.
Definition fail {A} (e : fault) : M A := fun _ => Fault e.
Notation "x <- m ;; f" := (bind m (fun x => f)) (at level 61, m at next level, right associativity).
Notation "m ;;; f" := (bind m (fun _ => f)) (at level 61, right associativity).

(* malloc/calloc/strdup/vasprintf: None models the NULL / -1 return with errno = ENOMEM *)
Definition malloc (sz : Z) : M (option block_id) := fun s =>
  match fail_at s with
  | Some O => Ok (None, mkA None (live s) (fresh s))
  | Some (S k) => Ok (Some (fresh s), mkA (Some k) ((fresh s, sz) :: live s) (S (fresh s)))
  | None => Ok (Some (fresh s), mkA None ((fresh s, sz) :: live s) (S (fresh s)))
  end.

Definition is_live (p : block_id) (s : astate) : bool := existsb (Nat.eqb p) (ids s).
Definition drop (p : block_id) (l : list (block_id * Z)) := filter (fun b => negb (Nat.eqb (fst b) p)) l.

(* free(NULL) is a no-op; freeing a block that is not live is a fault (double free / wild free) *)
Definition free (p : option block_id) : M unit := fun s =>
  match p with
  | None => Ok (tt, s)
  | Some b => if is_live b s then Ok (tt, mkA (fail_at s) (drop b (live s)) (fresh s)) else Fault UseAfterFree
  end.

(* realloc: on failure the old block stays; on success the old block is gone and a new one exists *)
Definition realloc (p : option block_id) (sz : Z) : M (option block_id) := fun s =>
  match p with
  | Some b => if is_live b s then
      match fail_at s with
      | Some O => Ok (None, mkA None (live s) (fresh s))
      | Some (S k) => Ok (Some (fresh s), mkA (Some k) ((fresh s, sz) :: drop b (live s)) (S (fresh s)))
      | None => Ok (Some (fresh s), mkA None ((fresh s, sz) :: drop b (live s)) (S (fresh s)))
      end else Fault UseAfterFree
  | None => malloc sz s
  end.

(* use of a block (read or write through a pointer): it must be live *)
Definition touch (p : option block_id) : M unit := fun s =>
  match p with
  | None => Fault NullDeref
  | Some b => if is_live b s then Ok (tt, s) else Fault UseAfterFree
  end.

(* checked arrays: contents with an explicit allocation; every access is bounds checked *)
Inductive cell (A : Type) := Init (v : A) | Uninit.
Arguments Init {A} v.
Arguments Uninit {A}.
Record carray (A : Type) := mkArr { cells : list (cell A); calloc : Z }.
Arguments mkArr {A} cells calloc.
Arguments cells {A} c.
Arguments calloc {A} c.

Definition rd {A} (a : carray A) (i : Z) : res A :=
  if (i <? 0) || (calloc a <=? i) then Fault OOB
  else match nth_error (cells a) (Z.to_nat i) with
       | Some (Init v) => Ok v
       | _ => Fault UseUninit
       end.

Fixpoint upd {A} (l : list A) (n : nat) (v : A) : list A :=
  match l, n with
  | [], _ => []
  | _ :: t, O => v :: t
  | h :: t, S n' => h :: upd t n' v
  end.

Definition wr {A} (a : carray A) (i : Z) (v : A) : res (carray A) :=
  if (i <? 0) || (calloc a <=? i) then Fault OOB
  else Ok (mkArr (upd (cells a) (Z.to_nat i) (Init v)) (calloc a)).

(* an index range [lo, lo+n) used by memmove / memset / loops must lie inside [0, alloc) *)
Definition range_ok (lo n alloc : Z) : bool := (0 <=? lo) && (0 <=? n) && (lo + n <=? alloc).
Definition check_range (lo n alloc : Z) : M unit := fun s =>
  if (n =? 0) || range_ok lo n alloc then Ok (tt, s) else Fault OOB.

Definition start (k : option nat) : astate := mkA k [] 0.

(* outcome of a modelled call: the C return class and errno class *)
Inductive errno_c := E0 | EINVAL | ENOENT | ENOMEM.
Definition INT_MAX : Z := 2147483647.
