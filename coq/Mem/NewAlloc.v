(* Allocation skeleton, as coded, of the life cycle of a vnacal_new_t (src/vnacal_new.c: vnacal_new_alloc,
   vnacal_new_free, _vnacal_new_free_measurement; src/vnacal_new_add_common.c: _vnacal_new_add_common with
   add_equation and the term lists of _vnacal_new_build_equation_terms; src/vnacal_new_parameter.c:
   _vnacal_new_check_parameter, _vnacal_new_get_parameter with the recursion for VNACAL_CORRELATED, the
   hold / release of the parameters; src/vnacal_new_set_m_error.c; src/vnacal_new_solve.c:
   _vnacal_new_solve_init, _vnacal_new_solve_free, _vnacal_new_solve_internal with the write-back of the
   solved vectors into the parameter objects; src/vnacal_calibration.c: _vnacal_calibration_alloc / _free;
   src/vnacal_free.c: the ring walk), in the allocation monad of Alloc.v (ledger + fault index).

   What is kept: every request (malloc / calloc / realloc) in the order the code makes it, what every
   ENOMEM exit releases, which pointer fields stay set, the hold counts the vnacal_new_t takes on the
   parameters, the unknown-parameter list, the solved vectors (vpmr_frequency_vector, vpmr_gamma_vector,
   vpmr_frequencies) of the parameters.
   What is abstracted:
   - a call is described by its argument CLASS: the calibration by [ncfg] (frequencies, cells of the M matrix,
     error terms, leakage terms, systems, connectivity matrix or not, vl_t_terms), a standard by [addargs]
     (argument check passes or not, number of m vectors, the parameter indices of its S matrix, the
     (system, number of terms) shape of the equations it generates), set_m_error by [merr_arg], solve by the
     number of temporary requests of the numeric kernels, whether the TRL shortcut applies and whether a kernel gives up;
   - blocks that are only ever released together are kept as a list in allocation order (measurement:
     struct, vnm_m_matrix, the m vectors, vnm_s_matrix, the connectivity matrix; equation: struct, terms;
     calibration: struct, frequency vector, term vector, terms; the three parts of the solve state); an
     exit releases the list, the order of the free calls inside one exit is not modelled;
   - the parameter hash is the bucket array, its allocation and the list of (key, node) - chains and
     rehash are in HashTab.v; hash_expand is the realloc when ++count >= allocation, failure ignored;
   - parameters are numbered in creation order (so the correlate of a parameter has a smaller number:
     [cfg_ok]); their structures live outside this ledger, only the vectors the solve installs are in it;
     parameters are created before and deleted after the history (vnacal_free);
   - numeric kernels (solve_simple / auto / trl, pvalue) are [body] temporary requests, released again.
   Variants: [NFixed] the tree; [NClearDangling] the shape of seeded change C03-9 (the clear branch of
   vnacal_new_set_m_error frees through a local copy and leaves vn_m_error_vector set); [NHoldEarly] the
   shape of C12-9 (_vnacal_new_get_parameter takes its hold before the recursion and releases it only when
   its own malloc fails); [NSplineLate] vnacal_new_set_m_error before the repair DI90 (the vector is allocated and zeroed
   before _vnacommon_spline_calc runs, so a failing spline leaves it behind); [NWriteBackLate] the write-back of vnacal_new_solve before the
   repair DI92 (the frequency vector of a parameter is allocated while the parameters are being overwritten).  No proofs in this file. *)
Require Import List ZArith Bool Arith Lia.
Import ListNotations.
Require Import LV.Mem.Alloc LV.Mem.PropList.
Open Scope Z_scope.

Inductive nvariant := NFixed | NClearDangling | NHoldEarly | NSplineLate | NWriteBackLate.

(* ------------------------------------------------------------------ generic request sequences *)
(* requests of the given sizes, one after the other; stops at the first failure.
   Result: (all succeeded, blocks obtained, in request order) *)
Fixpoint allocl (szs : list Z) (acc : list block_id) : M (bool * list block_id) :=
  match szs with
  | [] => ret (true, acc)
  | sz :: rest =>
      m <- malloc sz ;;
      match m with
      | None => ret (false, acc)
      | Some b => allocl rest (acc ++ [b])
      end
  end.

Fixpoint frees (l : list block_id) : M unit :=
  match l with
  | [] => ret tt
  | b :: t => free (Some b) ;;; frees t
  end.

Definition optl (o : option block_id) : list block_id := match o with Some b => [b] | None => [] end.

(* ------------------------------------------------------------------ parameters *)
Inductive pkind := KScalar | KUnknown (o : nat) | KCorr (o : nat).
Record prm := mkPr {
  pkd : pkind;
  pheld : nat;                  (* holds taken by nodes of vnacal_new_t parameter hashes *)
  pfv : option block_id;        (* vpmr_frequency_vector of an unknown / correlated parameter *)
  pgv : option block_id;        (* vpmr_gamma_vector *)
  pfn : nat                     (* vpmr_frequencies *)
}.
Definition pother (k : pkind) : option nat :=
  match k with KScalar => None | KUnknown o => Some o | KCorr o => Some o end.
Definition is_unknown (k : pkind) : bool := match k with KScalar => false | _ => true end.
Definition pdummy : prm := mkPr KScalar 0 None None 0.

Definition hold (ps : list prm) (i : nat) : list prm :=
  let p := nth i ps pdummy in upd ps i (mkPr (pkd p) (S (pheld p)) (pfv p) (pgv p) (pfn p)).
Definition release (ps : list prm) (i : nat) : list prm :=
  let p := nth i ps pdummy in upd ps i (mkPr (pkd p) (pred (pheld p)) (pfv p) (pgv p) (pfn p)).
Fixpoint release_all (ps : list prm) (keys : list nat) : list prm :=
  match keys with [] => ps | k :: t => release_all (release ps k) t end.

(* ------------------------------------------------------------------ the vnacal_new_t *)
Record ncfg := mkCfg {
  c_valid : bool;               (* the argument checks of vnacal_new_alloc pass *)
  c_freqs : nat;                (* vn_frequencies *)
  c_mcells : nat;               (* m_rows * m_columns *)
  c_scells : nat;               (* s_rows * s_columns *)
  c_eterms : nat;               (* error terms of the resulting calibration *)
  c_leak : option nat;          (* Some n: leakage terms outside the linear system, n off-diagonal cells *)
  c_systems : nat;              (* vn_systems *)
  c_conn : bool;                (* the type builds a connectivity matrix *)
  c_tterms : nat                (* vl_t_terms *)
}.

Record vnew := mkVn {
  vn_cfg : ncfg;
  vn_blk : block_id;
  vn_fvec : option block_id;            (* vn_frequency_vector *)
  vn_fvalid : bool;                     (* vn_frequencies_valid *)
  vn_tab : option block_id;             (* vnph_table *)
  vn_cap : nat;                         (* vnph_allocation *)
  vn_nodes : list (nat * block_id);     (* parameter index, vnacal_new_parameter_t *)
  vn_unk : list nat;                    (* vn_unknown_parameter_list *)
  vn_sysv : option block_id;            (* vn_system_vector *)
  vn_merr : option block_id;            (* vn_m_error_vector *)
  vn_nmeas : nat;                       (* vn_measurement_count *)
  vn_mblocks : list block_id;           (* blocks of the measurements *)
  vn_eqs : list (nat * nat);            (* (system, terms) of every equation *)
  vn_eblocks : list block_id;           (* equation and term blocks *)
  vn_cal : list block_id                (* vn_calibration: [] = NULL *)
}.

Definition set_nodes (v : vnew) tab cap nodes unk : vnew :=
  mkVn (vn_cfg v) (vn_blk v) (vn_fvec v) (vn_fvalid v) tab cap nodes unk (vn_sysv v) (vn_merr v)
       (vn_nmeas v) (vn_mblocks v) (vn_eqs v) (vn_eblocks v) (vn_cal v).
Definition set_merr (v : vnew) m : vnew :=
  mkVn (vn_cfg v) (vn_blk v) (vn_fvec v) (vn_fvalid v) (vn_tab v) (vn_cap v) (vn_nodes v) (vn_unk v) (vn_sysv v) m
       (vn_nmeas v) (vn_mblocks v) (vn_eqs v) (vn_eblocks v) (vn_cal v).
Definition set_fvalid (v : vnew) : vnew :=
  mkVn (vn_cfg v) (vn_blk v) (vn_fvec v) true (vn_tab v) (vn_cap v) (vn_nodes v) (vn_unk v) (vn_sysv v) (vn_merr v)
       (vn_nmeas v) (vn_mblocks v) (vn_eqs v) (vn_eblocks v) (vn_cal v).
Definition set_std (v : vnew) mb eqs eb : vnew :=
  mkVn (vn_cfg v) (vn_blk v) (vn_fvec v) (vn_fvalid v) (vn_tab v) (vn_cap v) (vn_nodes v) (vn_unk v) (vn_sysv v) (vn_merr v)
       (S (vn_nmeas v)) (vn_mblocks v ++ mb) (vn_eqs v ++ eqs) (vn_eblocks v ++ eb) (vn_cal v).
Definition set_cal (v : vnew) c : vnew :=
  mkVn (vn_cfg v) (vn_blk v) (vn_fvec v) (vn_fvalid v) (vn_tab v) (vn_cap v) (vn_nodes v) (vn_unk v) (vn_sysv v) (vn_merr v)
       (vn_nmeas v) (vn_mblocks v) (vn_eqs v) (vn_eblocks v) c.

Record world := mkW { w_prm : list prm; w_new : list (option vnew) }.

Definition in_hash (v : vnew) (i : nat) : bool := existsb (Nat.eqb i) (map fst (vn_nodes v)).

(* _vnacal_new_check_parameter: in the hash, or a valid parameter whose correlate (if any) checks *)
Fixpoint check_parameter (fuel : nat) (v : vnew) (ps : list prm) (i : nat) : bool :=
  match fuel with
  | O => false
  | S f =>
      if in_hash v i then true
      else if (length ps <=? i)%nat then false
      else match pkd (nth i ps pdummy) with
           | KCorr o => check_parameter f v ps o
           | _ => true
           end
  end.

(* _vnacal_new_get_parameter.  Result: the vnacal_new_t, the parameters, Done / Err ENOMEM / Err EINVAL *)
Fixpoint get_parameter (nv : nvariant) (fuel : nat) (v : vnew) (ps : list prm) (i : nat) : M (vnew * list prm * outcome) :=
  match fuel with
  | O => fail VlaBound                                   (* unbounded recursion *)
  | S f =>
      if in_hash v i then touch (vn_tab v) ;;; ret (v, ps, Done)
      else if (length ps <=? i)%nat then ret (v, ps, Err EINVAL)
      else
        let k := pkd (nth i ps pdummy) in
        let ps0 := match nv with NHoldEarly => hold ps i | _ => ps end in
        r <- (match k with
              | KCorr o => get_parameter nv f v ps0 o
              | _ => ret (v, ps0, Done)
              end) ;;
        (let '(v1, ps1, out) := r in
         match out with
         | Err e => ret (v1, ps1, Err e)                 (* free of vnprp, a NULL pointer here *)
         | Done =>
             m <- malloc 64 ;;
             match m with
             | None => ret (v1, match nv with NHoldEarly => release ps1 i | _ => ps1 end, Err ENOMEM)
             | Some b =>
                 let ps2 := match nv with NHoldEarly => ps1 | _ => hold ps1 i end in
                 touch (vn_tab v1) ;;;
                 (let nodes := vn_nodes v1 ++ [(i, b)] in
                  let unk := if is_unknown k then vn_unk v1 ++ [i] else vn_unk v1 in
                  (* hash_insert: if (++count >= allocation) (void)hash_expand() *)
                  if (vn_cap v1 <=? length nodes)%nat then
                    t <- realloc (vn_tab v1) (Z.of_nat (2 * vn_cap v1) * 8) ;;
                    match t with
                    | None => ret (set_nodes v1 (vn_tab v1) (vn_cap v1) nodes unk, ps2, Done)
                    | Some nb => ret (set_nodes v1 (Some nb) (2 * vn_cap v1)%nat nodes unk, ps2, Done)
                    end
                  else ret (set_nodes v1 (vn_tab v1) (vn_cap v1) nodes unk, ps2, Done))
             end
         end)
  end.

Fixpoint get_parameters (nv : nvariant) (v : vnew) (ps : list prm) (l : list nat) : M (vnew * list prm * outcome) :=
  match l with
  | [] => ret (v, ps, Done)
  | i :: rest =>
      r <- get_parameter nv (S (length ps)) v ps i ;;
      (let '(v1, ps1, out) := r in
       match out with
       | Done => get_parameters nv v1 ps1 rest
       | Err e => ret (v1, ps1, Err e)
       end)
  end.

(* vnacal_new_free of a (possibly partly built) structure *)
Definition new_free (v : vnew) (ps : list prm) : M (list prm) :=
  frees (rev (vn_cal v)) ;;;
  frees (vn_eblocks v) ;;;
  free (vn_sysv v) ;;;
  frees (vn_mblocks v) ;;;
  free (vn_merr v) ;;;
  ps' <- (match vn_tab v with
          | None => ret ps
          | Some t => frees (map snd (vn_nodes v)) ;;; free (Some t) ;;; ret (release_all ps (map fst (vn_nodes v)))
          end) ;;
  free (vn_fvec v) ;;;
  free (Some (vn_blk v)) ;;;
  ret ps'.

Definition SZ_NEW : Z := 400.
Definition SZ_NODE : Z := 64.

(* vnacal_new_alloc *)
Definition new_alloc (nv : nvariant) (c : ncfg) (ps : list prm) : M (option vnew * list prm * outcome) :=
  if negb (c_valid c) then ret (None, ps, Err EINVAL)
  else
    m <- malloc SZ_NEW ;;
    match m with
    | None => ret (None, ps, Err ENOMEM)
    | Some b =>
        let v0 := mkVn c b None false None 0 [] [] None None 0 [] [] [] [] in
        f <- malloc (Z.of_nat (c_freqs c) * 8) ;;
        match f with
        | None => ps' <- new_free v0 ps ;; ret (None, ps', Err ENOMEM)
        | Some fb =>
            let v1 := mkVn c b (Some fb) false None 0 [] [] None None 0 [] [] [] [] in
            t <- realloc None (8 * 8) ;;                  (* _vnacal_new_init_parameter_hash *)
            match t with
            | None => ps' <- new_free v1 ps ;; ret (None, ps', Err ENOMEM)
            | Some tb =>
                let v2 := set_nodes v1 (Some tb) 8 [] [] in
                r <- get_parameter nv (S (length ps)) v2 ps 0 ;;     (* VNACAL_ZERO *)
                (let '(v3, ps3, out) := r in
                 match out with
                 | Err e => ps' <- new_free v3 ps3 ;; ret (None, ps', Err e)
                 | Done =>
                     sv <- malloc (Z.of_nat (c_systems c) * 32) ;;
                     match sv with
                     | None => ps' <- new_free v3 ps3 ;; ret (None, ps', Err ENOMEM)
                     | Some sb =>
                         ret (Some (mkVn c b (Some fb) false (vn_tab v3) (vn_cap v3) (vn_nodes v3) (vn_unk v3)
                                         (Some sb) None 0 [] [] [] []), ps3, Done)
                     end
                 end)
            end
        end
    end.

(* ------------------------------------------------------------------ adding a standard *)
Inductive addcheck :=
  | AOk
  | ABad                        (* a dimension / port-map check made before any request fails *)
  | ASingular                   (* the 'a' matrix is singular: found after the m vectors were allocated *)
  | ANeedFullS.                 (* T16 / U16 with measurement errors and an incomplete S matrix: found after vnm_s_matrix *)
Definition is_bad (c : addcheck) : bool := match c with ABad => true | _ => false end.
Definition is_singular (c : addcheck) : bool := match c with ASingular => true | _ => false end.
Definition is_needfulls (c : addcheck) : bool := match c with ANeedFullS => true | _ => false end.

Record addargs := mkAdd {
  a_ok : addcheck;              (* the argument checks *)
  a_cells : nat;                (* b_cells: m vectors allocated *)
  a_prm : list nat;             (* s_matrix, in s_cell order *)
  a_eqs : list (nat * nat)      (* (system, terms) of the equations, in generation order *)
}.

Definition eq_sizes (eqs : list (nat * nat)) : list Z :=
  flat_map (fun e => 80 :: repeat 40 (snd e)) eqs.

Definition add_standard (nv : nvariant) (v : vnew) (ps : list prm) (a : addargs) : M (vnew * list prm * outcome) :=
  if is_bad (a_ok a) then ret (v, ps, Err EINVAL)
  else if negb (forallb (check_parameter (S (length ps)) v ps) (a_prm a)) then ret (v, ps, Err EINVAL)
  else
    let c := vn_cfg v in
    (* vnmp, vnm_m_matrix, the m vectors; then vnm_s_matrix *)
    r <- allocl ([120; Z.of_nat (c_mcells c) * 8] ++ repeat (Z.of_nat (c_freqs c) * 16) (a_cells a) ++
                 (if is_singular (a_ok a) then [] else [Z.of_nat (c_scells c) * 8])) [] ;;
    (let (ok, mb) := r in
     if negb ok then frees mb ;;; ret (v, ps, Err ENOMEM)
     else if is_singular (a_ok a) || is_needfulls (a_ok a) then frees mb ;;; ret (v, ps, Err EINVAL)
     else
       g <- get_parameters nv v ps (a_prm a) ;;
       (let '(v1, ps1, out) := g in
        match out with
        | Err e => frees mb ;;; ret (v1, ps1, Err e)
        | Done =>
            r2 <- allocl (if c_conn c then [4 * Z.of_nat (c_scells c)] else []) mb ;;
            (let (ok2, mb2) := r2 in
             if negb ok2 then frees mb2 ;;; ret (v1, ps1, Err ENOMEM)
             else
               r3 <- allocl (eq_sizes (a_eqs a)) [] ;;
               (let (ok3, eb) := r3 in
                if negb ok3 then frees eb ;;; frees mb2 ;;; ret (v1, ps1, Err ENOMEM)
                else ret (set_std v1 mb2 (a_eqs a) eb, ps1, Done)))
        end)).

(* ------------------------------------------------------------------ vnacal_new_set_m_error *)
Inductive merr_arg :=
  | MEBadCount                  (* frequencies < 1: refused before anything else *)
  | MEClear                     (* both sigma vectors NULL *)
  | MEInvalid                   (* any later argument check fails *)
  | MESet (splines : nat)       (* 0: one frequency or the calibration's; 1: spline of sigma_nf; 2: of both *)
  | MESplineInvalid (before : nat).  (* as MESet, but after [before] splines _vnacommon_spline_calc refuses the frequencies (a gap below
                                     MIN_DX): -1 / EINVAL after its five temporaries were allocated and released *)

(* _vnacommon_spline_calc: five temporaries, all released *)
Definition spline_calc : M bool :=
  r <- allocl [8; 8; 8; 8; 8] [] ;; (let (ok, bs) := r in frees bs ;;; ret ok).

Fixpoint spline_calcs (n : nat) : M bool :=
  match n with
  | O => ret true
  | S k => ok <- spline_calc ;; if ok then spline_calcs k else ret false
  end.

Definition set_m_error (nv : nvariant) (v : vnew) (a : merr_arg) : M (vnew * outcome) :=
  match a with
  | MEBadCount => ret (v, Err EINVAL)
  | MEClear =>
      free (vn_merr v) ;;;
      ret (match nv with NClearDangling => v | _ => set_merr v None end, Done)
  | MEInvalid => ret (v, Err EINVAL)
  | MESplineInvalid n =>
      if negb (vn_fvalid v) then ret (v, Err EINVAL)
      else
        ok <- spline_calcs n ;;
        if negb ok then ret (v, Err ENOMEM)
        else ok2 <- spline_calc ;; ret (v, if ok2 then Err EINVAL else Err ENOMEM)
  | MESet n =>
      if negb (vn_fvalid v) then ret (v, Err EINVAL)
      else
        let install : M (option vnew) :=
          match vn_merr v with
          | Some b => ret (Some v)
          | None =>
              m <- malloc (Z.of_nat (c_freqs (vn_cfg v)) * 16) ;;
              ret (match m with None => None | Some b => Some (set_merr v (Some b)) end)
          end in
        let init (v1 : vnew) : M unit :=                       (* "Always init the vector" *)
          if (0 <? c_freqs (vn_cfg v))%nat then touch (vn_merr v1) else ret tt in
        match nv with
        | NSplineLate =>
            r <- install ;;
            match r with
            | None => ret (v, Err ENOMEM)
            | Some v1 => init v1 ;;; ok <- spline_calcs n ;; ret (v1, if ok then Done else Err ENOMEM)
            end
        | _ =>
            (* DI90: the spline coefficients are calculated before the vector is touched *)
            ok <- spline_calcs n ;;
            if negb ok then ret (v, Err ENOMEM)
            else
              r <- install ;;
              match r with
              | None => ret (v, Err ENOMEM)
              | Some v1 => init v1 ;;; ret (v1, Done)
              end
        end
  end.

(* ------------------------------------------------------------------ vnacal_new_solve *)
Definition count_sys (eqs : list (nat * nat)) (s : nat) : nat :=
  length (filter (fun e => Nat.eqb (fst e) s) eqs).
Definition max_equations (v : vnew) : nat :=
  fold_right Nat.max O (map (count_sys (vn_eqs v)) (seq 0 (c_systems (vn_cfg v)))).

(* requests of _vnacal_new_solve_init for one measured standard *)
Definition msv_sizes (v : vnew) : list Z :=
  let c := vn_cfg v in
  [Z.of_nat (c_mcells c) * 16; Z.of_nat (c_scells c) * 16] ++
  (if (c_tterms c - 1 <? max_equations v)%nat && (match vn_merr v with Some _ => true | None => false end) then
     (Z.of_nat (c_systems c) * 8) ::
     flat_map (fun s => if (c_tterms c - 1 <? count_sys (vn_eqs v) s)%nat then [16 * 16] else []) (seq 0 (c_systems c))
   else []).

(* the write-back before the repair DI92: for every unknown parameter, in list order, release the old vectors, allocate, install *)
Fixpoint write_back_late (freqs : nat) (ps : list prm) (unk : list nat) (pv : list block_id)
  : M (bool * list prm * list block_id) :=      (* all stored, parameters, p-vectors still owned by the solve state *)
  match unk with
  | [] => ret (true, ps, pv)
  | u :: rest =>
      match pv with
      | [] => fail NullDeref                                 (* assert(vnss.vnss_p_vector[index] != NULL) *)
      | g :: pv' =>
          let p := nth u ps pdummy in
          free (pgv p) ;;;
          r <- (if negb (pfn p =? freqs)%nat then
                  free (pfv p) ;;;
                  (if (freqs =? 0)%nat then ret (Some (None, O))
                   else m <- malloc (Z.of_nat freqs * 8) ;;
                        ret (match m with None => None | Some b => Some (Some b, freqs) end))
                else ret (Some (pfv p, pfn p))) ;;
          match r with
          | None => ret (false, upd ps u (mkPr (pkd p) (pheld p) None None O), pv)
          | Some (fv, fn) =>
              (if (freqs =? 0)%nat then ret tt else touch fv) ;;;
              b <- write_back_late freqs (upd ps u (mkPr (pkd p) (pheld p) fv (Some g) fn)) rest pv' ;;
              ret b
          end
      end
  end.

(* the write-back (DI92): first the new frequency vector of every parameter whose number of frequencies changes (new_frequency_vector[],
   NULL where none is needed); when one cannot be had the ones obtained are released and nothing was touched ... *)
Fixpoint prealloc (freqs : nat) (ps : list prm) (unk : list nat) (acc : list (option block_id)) : M (bool * list (option block_id)) :=
  match unk with
  | [] => ret (true, acc)
  | u :: rest =>
      if (freqs =? 0)%nat || (pfn (nth u ps pdummy) =? freqs)%nat then prealloc freqs ps rest (acc ++ [None])
      else m <- malloc (Z.of_nat freqs * 8) ;;
           match m with
           | None => ret (false, acc)
           | Some b => prealloc freqs ps rest (acc ++ [Some b])
           end
  end.

(* ... then the commit, which makes no request: release the old gamma vector, replace the frequency vector when a new one was
   allocated or the count differs, take the p-vector *)
Fixpoint commit (freqs : nat) (ps : list prm) (unk : list nat) (nf : list (option block_id)) (pv : list block_id)
  : M (list prm * list block_id) :=
  match unk with
  | [] => ret (ps, pv)
  | u :: rest =>
      match nf, pv with
      | f :: nf', g :: pv' =>
          let p := nth u ps pdummy in
          free (pgv p) ;;;
          fv <- (match f with
                 | Some b => free (pfv p) ;;; ret (Some b)
                 | None => if (pfn p =? freqs)%nat then ret (pfv p) else free (pfv p) ;;; ret None
                 end) ;;
          (if (freqs =? 0)%nat then ret tt else touch fv) ;;;
          commit freqs (upd ps u (mkPr (pkd p) (pheld p) fv (Some g) freqs)) rest nf' pv'
      | _, _ => fail NullDeref                               (* assert(vnss.vnss_p_vector[index] != NULL) *)
      end
  end.

Fixpoint somes (l : list (option block_id)) : list block_id :=
  match l with [] => [] | Some b :: t => b :: somes t | None :: t => somes t end.

Definition write_back (freqs : nat) (ps : list prm) (unk : list nat) (pv : list block_id) : M (bool * list prm * list block_id) :=
  r <- prealloc freqs ps unk [] ;;
  (let (ok, nf) := r in
   if negb ok then frees (somes nf) ;;; ret (false, ps, pv)
   else c <- commit freqs ps unk nf pv ;; ret (true, fst c, snd c)).

(* the request lists of _vnacal_new_solve_init (after the msv vector) and of _vnacal_calibration_alloc *)
Definition init_m_sizes (v : vnew) : list Z := flat_map (fun _ => msv_sizes v) (seq 0 (vn_nmeas v)).
Definition init_l_sizes (c : ncfg) : list Z :=
  match c_leak c with
  | Some n => (Z.of_nat (c_mcells c) * 8) :: repeat 24 n
  | None => []
  end.
Definition init_p_sizes (v : vnew) : list Z :=
  match vn_unk v with
  | [] => []
  | _ => (Z.of_nat (length (vn_unk v)) * 8) :: repeat (Z.of_nat (c_freqs (vn_cfg v)) * 16) (length (vn_unk v))
  end.
Definition cal_sizes (c : ncfg) : list Z :=
  [96; Z.of_nat (c_freqs c) * 8; Z.of_nat (c_eterms c) * 8] ++ repeat (Z.of_nat (c_freqs c) * 16) (c_eterms c).
(* how many requests each of the two makes when nothing fails (compared with the library one by one by the tie) *)
Definition solve_init_requests (v : vnew) : nat :=
  S (length (init_m_sizes v) + length (init_l_sizes (vn_cfg v)) + length (init_p_sizes v)).
Definition cal_requests (c : ncfg) : nat := length (cal_sizes c).

Definition tmps (n : nat) : list Z := repeat 8 n.
Definition ocons (o : option block_id) (l : list block_id) : list block_id :=
  match o with Some x => x :: l | None => l end.

(* [fails]: a numeric kernel gives up after its [body] requests (singular system, p-value below the limit, convert_ue14_to_e12,
   no convergence): goto out with everything released, -1 with a math error (outcome class Err EINVAL here) *)
Definition solve (nv : nvariant) (v : vnew) (ps : list prm) (body : nat) (trl : bool) (fails : bool) : M (vnew * list prm * outcome) :=
  if negb (vn_fvalid v) then ret (v, ps, Err EINVAL)
  else
    let c := vn_cfg v in
    (* _vnacal_new_solve_init *)
    r <- allocl [Z.of_nat (vn_nmeas v) * 40] [] ;;
    (let (ok0, sm0) := r in
     if negb ok0 then ret (v, ps, Err ENOMEM)
     else
       r1 <- allocl (init_m_sizes v) sm0 ;;
       (let (ok1, sm) := r1 in
        if negb ok1 then frees (rev sm) ;;; ret (v, ps, Err ENOMEM)
        else
          r2 <- allocl (init_l_sizes c) [] ;;
          (let (ok2, sl) := r2 in
           if negb ok2 then frees (rev sl) ;;; frees (rev sm) ;;; ret (v, ps, Err ENOMEM)
           else
             r3 <- allocl (init_p_sizes v) [] ;;
             (let (ok3, sp) := r3 in
              let vs_free (sp' : list block_id) := frees (rev sp') ;;; frees (rev sl) ;;; frees (rev sm) in
              if negb ok3 then vs_free sp ;;; ret (v, ps, Err ENOMEM)
              else
                (* _vnacal_calibration_alloc *)
                r4 <- allocl (cal_sizes c) [] ;;
                (let (ok4, cal) := r4 in
                 if negb ok4 then frees (rev cal) ;;; vs_free sp ;;; ret (v, ps, Err ENOMEM)
                 else
                   r5 <- allocl (if trl then [48] else []) [] ;;
                   (let (ok5, tb) := r5 in
                    if negb ok5 then frees (rev cal) ;;; vs_free sp ;;; ret (v, ps, Err ENOMEM)
                    else
                      (* the numeric kernels, frequency by frequency *)
                      r6 <- allocl (tmps body) [] ;;
                      (let (ok6, tm) := r6 in
                       frees tm ;;;
                       if negb ok6 then frees tb ;;; frees (rev cal) ;;; vs_free sp ;;; ret (v, ps, Err ENOMEM)
                       else if fails then frees tb ;;; frees (rev cal) ;;; vs_free sp ;;; ret (v, ps, Err EINVAL)
                       else
                         w <- (match nv with NWriteBackLate => write_back_late | _ => write_back end) (c_freqs c) ps (vn_unk v) (tl sp) ;;
                         (let '(okw, ps', pv') := w in
                          if negb okw then
                            frees tb ;;; frees (rev cal) ;;; vs_free (ocons (hd_error sp) pv') ;;; ret (v, ps', Err ENOMEM)
                          else
                            frees (rev (vn_cal v)) ;;;
                            frees tb ;;; vs_free (ocons (hd_error sp) pv') ;;;
                            ret (set_cal v cal, ps', Done))))))))).

(* ------------------------------------------------------------------ the vnacal_t with its ring *)
Inductive wop :=
  | WNew (c : ncfg)
  | WSetF (h : nat)                               (* vnacal_new_set_frequency_vector (no request) *)
  | WAdd (h : nat) (a : addargs)
  | WMErr (h : nat) (a : merr_arg)
  | WSolve (h : nat) (body : nat) (trl : bool) (fails : bool)
  | WFree (h : nat).

Definition handle (w : world) (h : nat) : option vnew := nth h (w_new w) None.
Definition put (w : world) (h : nat) (v : option vnew) (ps : list prm) : world := mkW ps (upd (w_new w) h v).

Definition wstep (nv : nvariant) (w : world) (op : wop) : M (world * outcome) :=
  match op with
  | WNew c =>
      r <- new_alloc nv c (w_prm w) ;;
      (let '(v, ps, out) := r in
       match v with
       | Some vn => ret (mkW ps (w_new w ++ [Some vn]), out)
       | None => ret (mkW ps (w_new w), out)
       end)
  | WSetF h =>
      match handle w h with
      | None => ret (w, Err EINVAL)
      | Some v => ret (put w h (Some (set_fvalid v)) (w_prm w), Done)
      end
  | WAdd h a =>
      match handle w h with
      | None => ret (w, Err EINVAL)
      | Some v => r <- add_standard nv v (w_prm w) a ;; (let '(v', ps, out) := r in ret (put w h (Some v') ps, out))
      end
  | WMErr h a =>
      match handle w h with
      | None => ret (w, Err EINVAL)
      | Some v => r <- set_m_error nv v a ;; (let (v', out) := r in ret (put w h (Some v') (w_prm w), out))
      end
  | WSolve h body trl fails =>
      match handle w h with
      | None => ret (w, Err EINVAL)
      | Some v => r <- solve nv v (w_prm w) body trl fails ;; (let '(v', ps, out) := r in ret (put w h (Some v') ps, out))
      end
  | WFree h =>
      match handle w h with
      | None => ret (w, Done)                      (* vnacal_new_free(NULL) *)
      | Some v => ps <- new_free v (w_prm w) ;; ret (put w h None ps, Done)
      end
  end.

Fixpoint wrun (nv : nvariant) (w : world) (ops : list wop) : M (world * list outcome) :=
  match ops with
  | [] => ret (w, [])
  | op :: rest =>
      r <- wstep nv w op ;;
      (let (w', o) := r in
       r2 <- wrun nv w' rest ;;
       (let (w'', os) := r2 in ret (w'', o :: os)))
  end.

(* vnacal_free: every vnacal_new_t still on the ring, then the parameters.  A parameter is released
   only when nothing holds it any more; a hold that was never given back keeps its vectors alive. *)
Fixpoint free_ring (l : list (option vnew)) (ps : list prm) : M (list prm) :=
  match l with
  | [] => ret ps
  | None :: t => free_ring t ps
  | Some v :: t => ps' <- new_free v ps ;; free_ring t ps'
  end.

Fixpoint free_prms (ps : list prm) : M unit :=
  match ps with
  | [] => ret tt
  | p :: t => (if (pheld p =? 0)%nat then free (pfv p) ;;; free (pgv p) else ret tt) ;;; free_prms t
  end.

Definition wfinish (w : world) : M (list nat) :=
  ps <- free_ring (w_new w) (w_prm w) ;; free_prms ps ;;; ret (map pheld ps).

(* the parameters as created: nothing solved, nothing held *)
Definition mkprms (ks : list pkind) : list prm := map (fun k => mkPr k 0 None None 0) ks.

(* a whole history: the parameters exist, the calls, vnacal_free.  Result: outcomes and the holds left *)
Definition whistory (nv : nvariant) (ks : list pkind) (ops : list wop) : M (list outcome * list nat) :=
  r <- wrun nv (mkW (mkprms ks) []) ops ;;
  (let (w, os) := r in held <- wfinish w ;; ret (os, held)).

(* creation order: the correlate / initial guess of a parameter was created before it *)
Definition cfg_ok (ks : list pkind) : Prop :=
  forall i o, pother (nth i ks KScalar) = Some o -> (o < i)%nat.

(* what a caller can observe of the world without looking at the ledger *)
Definition observe (w : world) :=
  (map (fun p => (pheld p, pfn p, match pgv p with Some _ => true | None => false end)) (w_prm w),
   map (fun o => match o with
                 | None => None
                 | Some v => Some (map fst (vn_nodes v), vn_unk v, vn_nmeas v, vn_eqs v,
                                   match vn_merr v with Some _ => true | None => false end,
                                   match vn_cal v with [] => false | _ => true end)
                 end) (w_new w)).
