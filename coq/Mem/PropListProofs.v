(* Proofs about the list-container model: invariant, no fault, no leak, clean allocation failure. *)
Require Import List ZArith Bool Arith Lia.
Import ListNotations.
Require Import LV.Mem.Alloc LV.Mem.AllocProofs LV.Mem.PropList.
Open Scope Z_scope.

(* ---------------------------------------------------------------- a small program logic *)
Definition safe {A} (m : M A) (s : astate) (Q : A -> astate -> Prop) : Prop :=
  exists a s', m s = Ok (a, s') /\ Q a s'.

Lemma safe_ret : forall A (a : A) s (Q : A -> astate -> Prop), Q a s -> safe (ret a) s Q.
Proof. intros; exists a, s; split; auto. Qed.

Lemma safe_bind : forall A B (m : M A) (f : A -> M B) s Q,
  safe m s (fun a s' => safe (f a) s' Q) -> safe (bind m f) s Q.
Proof.
  intros A B m f s Q [a [s' [Hm [b [s'' [Hf HQ]]]]]]; exists b, s''; split; auto.
  unfold bind; rewrite Hm; assumption.
Qed.

Lemma safe_weaken : forall A (m : M A) s (Q Q' : A -> astate -> Prop),
  safe m s Q -> (forall a s', Q a s' -> Q' a s') -> safe m s Q'.
Proof. intros A m s Q Q' [a [s' [H HQ]]] Himp; exists a, s'; auto. Qed.

Lemma safe_malloc : forall sz s, wf s ->
  safe (malloc sz) s (fun r s' => wf s' /\
    match r with
    | Some b => b = fresh s /\ ~ In b (ids s) /\ ids s' = b :: ids s /\ fresh s' = S (fresh s)
    | None => ids s' = ids s /\ fresh s' = fresh s /\ fail_at s = Some O /\ fail_at s' = None
    end).
Proof.
  intros sz s Hwf. destruct (malloc sz s) as [[r s']|e] eqn:H.
  - exists r, s'; split; auto. eapply malloc_spec; eauto.
  - unfold malloc in H; destruct (fail_at s) as [[|k]|]; discriminate.
Qed.

Lemma safe_free : forall b s, wf s -> In b (ids s) ->
  safe (free (Some b)) s (fun _ s' => wf s' /\ fresh s' = fresh s /\ (forall x, In x (ids s') <-> In x (ids s) /\ x <> b)).
Proof.
  intros b s Hwf Hin. destruct (free_spec b s Hwf Hin) as [s' [H [Hw [_ [Hf Hi]]]]].
  exists tt, s'; auto.
Qed.

Lemma safe_realloc : forall p sz s, wf s -> (forall b, p = Some b -> In b (ids s)) ->
  safe (realloc p sz) s (fun r s' => wf s' /\
    match r with
    | Some b => b = fresh s /\ ~ In b (ids s) /\ fresh s' = S (fresh s) /\
                (forall x, In x (ids s') <-> x = b \/ (In x (ids s) /\ Some x <> p))
    | None => ids s' = ids s /\ fresh s' = fresh s /\ fail_at s = Some O /\ fail_at s' = None
    end).
Proof.
  intros p sz s Hwf Hp. destruct (realloc p sz s) as [[r s']|e] eqn:H.
  - exists r, s'; split; auto. eapply realloc_spec; eauto.
  - exfalso. destruct p as [b|]; simpl in H.
    + unfold realloc in H. assert (Hl : is_live b s = true) by (apply is_live_iff; auto). rewrite Hl in H.
      destruct (fail_at s) as [[|k]|]; discriminate.
    + unfold malloc in H; destruct (fail_at s) as [[|k]|]; discriminate.
Qed.

(* ---------------------------------------------------------------- ownership *)
Definition kid (c : option child) : list block_id := match c with Some (p, s) => [p; s] | None => [] end.
Definition kids (l : list (option child)) : list block_id := flat_map kid l.
Definition vecl (v : option block_id) : list block_id := match v with Some b => [b] | None => [] end.
Definition owned (l : plist) : list block_id := lblk l :: vecl (vec l) ++ kids (items l).

Definition Inv (l : plist) (s : astate) : Prop :=
  wf s /\ NoDup (owned l) /\ (forall x, In x (ids s) <-> In x (owned l)) /\
  llen l <= lalloc l /\ (0 < lalloc l -> vec l <> None).

Lemma kids_app : forall a b, kids (a ++ b) = kids a ++ kids b.
Proof. intros; unfold kids; apply flat_map_app. Qed.

Lemma kids_repeat_none : forall n, kids (repeat None n) = [].
Proof. induction n; simpl; auto. Qed.

Lemma kids_insert_none : forall n l, kids (insert_at n None l) = kids l.
Proof. induction n; destruct l; simpl; auto. rewrite IHn; reflexivity. Qed.

Lemma length_insert_at : forall A n (x : A) l, length (insert_at n x l) = S (length l).
Proof. induction n; destruct l; simpl; auto. Qed.

Lemma length_remove_at : forall A n (l : list A), (n < length l)%nat -> length (remove_at n l) = pred (length l).
Proof.
  induction n; destruct l; simpl; intros; try lia.
  rewrite IHn by lia. destruct l; simpl in *; lia.
Qed.

Lemma length_upd : forall A (l : list A) n v, length (upd l n v) = length l.
Proof. induction l; destruct n; simpl; auto. Qed.

Lemma NoDup_app_inv : forall (a b : list block_id), NoDup (a ++ b) ->
  NoDup a /\ NoDup b /\ (forall x, In x a -> ~ In x b).
Proof.
  induction a as [|y a IH]; simpl; intros b H.
  - repeat split; auto; constructor.
  - inversion H; subst. destruct (IH b H3) as [Ha [Hb Hd]]. repeat split; auto.
    + constructor; auto. intro Hin; apply H2; apply in_or_app; auto.
    + intros x [Hx|Hx]; [subst; intro Hin; apply H2; apply in_or_app; auto | auto].
Qed.

Lemma NoDup_app_intro : forall (a b : list block_id), NoDup a -> NoDup b ->
  (forall x, In x a -> ~ In x b) -> NoDup (a ++ b).
Proof.
  induction a as [|y a IH]; simpl; intros b Ha Hb Hd; auto.
  inversion Ha; subst. constructor.
  - intro Hin; apply in_app_or in Hin; destruct Hin; auto. eapply Hd; eauto.
  - apply IH; auto.
Qed.

Lemma nth_kids_in : forall n l x, In x (kid (nth n l None)) -> In x (kids l).
Proof.
  intros n l; revert n; induction l; destruct n; simpl; intros; try tauto.
  - apply in_or_app; auto.
  - apply in_or_app; right; eapply IHl; eauto.
Qed.

(* removing cell n: exactly the blocks of that cell leave the owned set *)
Lemma kids_remove_at : forall n l, (n < length l)%nat -> NoDup (kids l) ->
  NoDup (kids (remove_at n l)) /\
  (forall x, In x (kids (remove_at n l)) <-> In x (kids l) /\ ~ In x (kid (nth n l None))).
Proof.
  induction n; destruct l as [|c l]; simpl; intros Hn Hnd; try lia.
  - fold (kids l) in *. destruct (NoDup_app_inv _ _ Hnd) as [Hc [Hl Hd]]. split; auto.
    intro x; rewrite in_app_iff; split.
    + intro Hx; split; auto. intro Hc'; eapply Hd; eauto.
    + intros [[Hx|Hx] Hc']; tauto.
  - fold (kids l) in *. fold (kids (remove_at n l)).
    destruct (NoDup_app_inv _ _ Hnd) as [Hc [Hl Hd]].
    destruct (IHn l ltac:(lia) Hl) as [Hn1 Hiff]. split.
    + apply NoDup_app_intro; auto. intros x Hx Hin; apply Hiff in Hin; eapply Hd; eauto; tauto.
    + intro x; rewrite !in_app_iff, Hiff. split.
      * intros [Hx|[Hx Hc']]; auto. split; auto. intro Hc'. eapply Hd; eauto. eapply nth_kids_in; eauto.
      * intros [[Hx|Hx] Hc']; auto.
Qed.

(* replacing cell n (whose old blocks have been released) by a new child *)
Lemma kids_upd : forall n l c, (n < length l)%nat ->
  forall x, In x (kids (upd l n c)) <-> In x (kid c) \/ In x (kids (remove_at n l)).
Proof.
  induction n; destruct l as [|a l]; simpl; intros c Hn x; try lia.
  - rewrite in_app_iff; tauto.
  - fold (kids (upd l n c)); fold (kids (remove_at n l)). rewrite !in_app_iff, IHn by lia. tauto.
Qed.

Lemma NoDup_kids_upd : forall n l c, (n < length l)%nat ->
  NoDup (kid c) -> NoDup (kids (remove_at n l)) -> (forall x, In x (kid c) -> ~ In x (kids (remove_at n l))) ->
  NoDup (kids (upd l n c)).
Proof.
  induction n; destruct l as [|a l]; simpl; intros c Hn Hc Hr Hd; try lia.
  - apply NoDup_app_intro; auto.
  - fold (kids (remove_at n l)) in *. fold (kids (upd l n c)).
    destruct (NoDup_app_inv _ _ Hr) as [Ha [Hr2 Hd2]].
    apply NoDup_app_intro; auto.
    + apply IHn; auto; [lia|]. intros x Hx Hin; eapply Hd; eauto; apply in_or_app; auto.
    + intros x Hx Hin. apply kids_upd in Hin; [|lia]. destruct Hin as [Hin|Hin].
      * eapply Hd; eauto; apply in_or_app; auto.
      * eapply Hd2; eauto.
Qed.

(* ---------------------------------------------------------------- invariant plumbing *)
Lemma NoDup_vecl : forall v, NoDup (vecl v).
Proof. destruct v; simpl; repeat constructor; auto. Qed.

Lemma NoDup_owned_inv : forall b v k, NoDup (b :: vecl v ++ k) ->
  ~ In b (vecl v) /\ ~ In b k /\ NoDup k /\ (forall x, In x (vecl v) -> ~ In x k).
Proof.
  intros b v k H; inversion H; subst. destruct (NoDup_app_inv _ _ H3) as [_ [Hk Hd]].
  split; [intro Hin; apply H2; apply in_or_app; auto|].
  split; [intro Hin; apply H2; apply in_or_app; auto|].
  split; assumption.
Qed.

Lemma NoDup_owned_intro : forall b v k,
  ~ In b (vecl v) -> ~ In b k -> NoDup k -> (forall x, In x (vecl v) -> ~ In x k) -> NoDup (b :: vecl v ++ k).
Proof.
  intros b v k H1 H2 H3 H4; constructor.
  - intro Hin; apply in_app_or in Hin; tauto.
  - apply NoDup_app_intro; auto. apply NoDup_vecl.
Qed.

Lemma Inv_ids_eq : forall l s s', Inv l s -> wf s' -> (forall x, In x (ids s') <-> In x (ids s)) -> Inv l s'.
Proof.
  intros l s s' [Hw [Hnd [Hiff [Hlen Hv]]]] Hw' Hi.
  split; [assumption|split; [assumption|split; [|split; assumption]]].
  intro x; rewrite Hi; apply Hiff.
Qed.

Lemma Inv_vec_live : forall l s b, Inv l s -> vec l = Some b -> In b (ids s).
Proof.
  intros l s b [_ [_ [Hiff _]]] Hv; apply Hiff; unfold owned; rewrite Hv; simpl; auto.
Qed.

Lemma safe_vaccess : forall l s i n, Inv l s ->
  (n = 0 \/ (0 <= i /\ 0 < n /\ i + n <= lalloc l)) -> safe (vaccess l i n) s (fun _ s' => s' = s).
Proof.
  intros l s i n HI Hr; unfold vaccess. destruct (Z.eqb_spec n 0) as [He|Hne].
  - apply safe_ret; reflexivity.
  - destruct Hr as [Hr|[H0 [Hn Hle]]]; [contradiction|].
    destruct HI as [Hw [Hnd [Hiff [Hlen Hv]]]].
    destruct (vec l) as [b|] eqn:Hvec; [|exfalso; apply Hv; [lia | reflexivity]].
    assert (Hlive : is_live b s = true).
    { apply is_live_iff, Hiff; unfold owned; rewrite Hvec; simpl; auto. }
    exists tt, s; split; auto. unfold bind, touch; rewrite Hlive. unfold check_range, range_ok.
    replace (0 <=? i) with true by (symmetry; apply Z.leb_le; lia).
    replace (0 <=? n) with true by (symmetry; apply Z.leb_le; lia).
    replace (i + n <=? lalloc l) with true by (symmetry; apply Z.leb_le; lia).
    rewrite orb_true_r; reflexivity.
Qed.

Arguments grow : simpl never.

Lemma safe_check_allocation : forall l s size, Inv l s ->
  safe (check_allocation l size) s (fun r s' =>
    Inv (snd r) s' /\ items (snd r) = items l /\ (fst r = true -> size <= lalloc (snd r)) /\
    (forall x, In x (ids s) -> (x < fresh s')%nat) /\ (fresh s <= fresh s')%nat).
Proof.
  intros l s size HI; unfold check_allocation.
  assert (Hfr : forall x, In x (ids s) -> (x < fresh s)%nat) by (destruct HI as [[_ H] _]; exact H).
  destruct (Z.leb_spec size (lalloc l)) as [Hle|Hgt].
  - apply safe_ret; simpl; split; [assumption|]; repeat split; auto.
  - destruct (Z.leb_spec (grow 64 (Z.max 8 (lalloc l)) size) size) as [Hov|Hbig].
    + apply safe_ret; simpl; split; [assumption|]; repeat split; auto; discriminate.
    + apply safe_bind. pose proof HI as [Hw [Hnd [Hiff [Hlen Hv]]]].
      eapply safe_weaken; [apply safe_realloc; auto; intros b Hb; eapply Inv_vec_live; eauto|].
      intros r s' [Hw' Hr]; destruct r as [b|].
      * destruct Hr as [Hb [Hni [Hfs Hi]]]. apply safe_ret; simpl.
        split; [|split; [reflexivity|split; [intros _; lia|split; [intros x Hx; apply Hfr in Hx; lia | lia]]]].
        unfold Inv, owned, llen in *; simpl.
        destruct (NoDup_owned_inv _ _ _ Hnd) as [Hb1 [Hb2 [Hk Hd]]].
        assert (Hnb : forall x, In x (lblk l :: vecl (vec l) ++ kids (items l)) -> x <> b).
        { intros x Hx He; subst x; apply Hni, Hiff; assumption. }
        split; [assumption|split; [|split; [|split; [lia | intros _; discriminate]]]].
        -- apply (NoDup_owned_intro (lblk l) (Some b) (kids (items l))); auto.
           ++ simpl; intros [He|[]]. apply (Hnb (lblk l)); [left; reflexivity | auto].
           ++ simpl; intros x [Hx|[]] Hin; subst x. apply (Hnb b); [right; apply in_or_app; auto | reflexivity].
        -- intro x; rewrite Hi; simpl; split.
           ++ intros [Hx|[Hx Hne]]; [right; left; auto|]. apply Hiff in Hx; destruct Hx as [Hx|Hx]; [left; auto|].
              apply in_app_or in Hx; destruct Hx as [Hx|Hx]; [|right; right; auto].
              exfalso; apply Hne. destruct (vec l); simpl in Hx; [destruct Hx as [Hx|[]]; subst; reflexivity | destruct Hx].
           ++ intros [Hx|[Hx|Hx]].
              ** right; split; [apply Hiff; left; auto|]. intro He. apply Hb1. rewrite <- He; simpl; left; auto.
              ** left; auto.
              ** right; split; [apply Hiff; right; apply in_or_app; auto|]. intro He.
                 eapply Hd; [rewrite <- He; simpl; left; reflexivity | exact Hx].
      * destruct Hr as [Hi [Hf _]]. apply safe_ret; simpl.
        split; [eapply Inv_ids_eq; eauto; intro x; rewrite Hi; tauto|].
        repeat split; auto; [intro; discriminate | rewrite Hf; auto | rewrite Hf; lia].
Qed.

Lemma Inv_items : forall l s its, Inv l s -> kids its = kids (items l) ->
  Z.of_nat (length its) <= lalloc l -> Inv (mkL (lblk l) (vec l) (lalloc l) its) s.
Proof.
  intros l s its [Hw [Hnd [Hiff [Hlen Hv]]]] Hk Hl; unfold Inv, owned, llen in *; simpl; rewrite Hk.
  split; [assumption|split; [assumption|split; [assumption|split; assumption]]].
Qed.

Definition anchor_post (r : plist * option Z * errno_c) (s' : astate) : Prop :=
  let '(l', a, e) := r in Inv l' s' /\ match a with Some i => 0 <= i < llen l' | None => True end.

Lemma safe_list_subtree : forall l s add index, Inv l s ->
  safe (list_subtree Fixed l add index) s anchor_post.
Proof.
  intros l s add index HI; unfold list_subtree.
  destruct (Z.ltb_spec index 0); [apply safe_ret; simpl; auto|].
  destruct (Z.leb_spec (llen l) index).
  - destruct add; simpl; [|apply safe_ret; simpl; auto].
    destruct (Z.eqb_spec index INT_MAX); [apply safe_ret; simpl; auto|].
    apply safe_bind. eapply safe_weaken; [apply safe_check_allocation; assumption|].
    intros [ok l'] s' [HI' [Hit [Hsz _]]]; simpl in *. destruct ok.
    + apply safe_ret; simpl. specialize (Hsz eq_refl).
      assert (Hll : llen l' = llen l) by (unfold llen; rewrite Hit; reflexivity).
      assert (Hlen : Z.of_nat (length (items l' ++ repeat None (Z.to_nat (index + 1 - llen l')))) = index + 1).
      { rewrite app_length, repeat_length. unfold llen in *. rewrite Hit in *. lia. }
      split.
      * apply Inv_items; auto; [rewrite kids_app, kids_repeat_none, app_nil_r; reflexivity | lia].
      * unfold llen; simpl. unfold llen in Hlen. lia.
    + apply safe_ret; simpl; auto.
  - apply safe_ret; simpl; split; auto; lia.
Qed.

Lemma safe_list_insert : forall l s index, Inv l s ->
  safe (list_insert Fixed l index) s anchor_post.
Proof.
  intros l s index HI; unfold list_insert.
  destruct (Z.ltb_spec index 0); [apply safe_ret; simpl; auto|].
  destruct (Z.leb_spec (llen l) index); [apply safe_list_subtree; assumption|].
  apply safe_bind. eapply safe_weaken; [apply safe_check_allocation; assumption|].
  intros [ok l'] s' [HI' [Hit [Hsz _]]]; simpl in *. destruct ok; simpl; [|apply safe_ret; simpl; auto].
  specialize (Hsz eq_refl).
  assert (Hll : llen l' = llen l) by (unfold llen; rewrite Hit; reflexivity).
  apply safe_bind. eapply safe_weaken; [apply safe_vaccess; [exact HI' | right; lia]|].
  intros u1 s1 Hs1; simpl in Hs1; subst s1; clear u1.
  apply safe_bind. eapply safe_weaken; [apply safe_vaccess; [exact HI' | right; lia]|].
  intros u1 s1 Hs1; simpl in Hs1; subst s1; clear u1.
  apply safe_ret; simpl. split.
  - apply Inv_items; auto; [apply kids_insert_none | rewrite length_insert_at; unfold llen in *; lia].
  - unfold llen in *; simpl. rewrite length_insert_at. lia.
Qed.

Lemma safe_list_append : forall l s, Inv l s -> safe (list_append l) s anchor_post.
Proof.
  intros l s HI; unfold list_append.
  apply safe_bind. eapply safe_weaken; [apply safe_check_allocation; assumption|].
  intros [ok l'] s' [HI' [Hit [Hsz _]]]; simpl in *. destruct ok; simpl; [|apply safe_ret; simpl; auto].
  specialize (Hsz eq_refl).
  assert (Hll : llen l' = llen l) by (unfold llen; rewrite Hit; reflexivity).
  assert (H0 : 0 <= llen l') by (unfold llen; lia).
  apply safe_bind. eapply safe_weaken; [apply safe_vaccess; [exact HI' | right; lia]|].
  intros u1 s1 Hs1; simpl in Hs1; subst s1; clear u1.
  apply safe_ret; simpl. split.
  - apply Inv_items; auto; [rewrite kids_app; simpl; apply app_nil_r | rewrite app_length; simpl; unfold llen in *; lia].
  - unfold llen in *; simpl. rewrite app_length; simpl. lia.
Qed.

(* scalar_alloc: both blocks or nothing *)
Lemma safe_scalar_alloc : forall s, wf s ->
  safe scalar_alloc s (fun c s' => wf s' /\
    match c with
    | Some (p, v) => p <> v /\ ~ In p (ids s) /\ ~ In v (ids s) /\
                     (forall x, In x (ids s') <-> x = p \/ x = v \/ In x (ids s))
    | None => forall x, In x (ids s') <-> In x (ids s)
    end).
Proof.
  intros s Hw; unfold scalar_alloc.
  apply safe_bind. eapply safe_weaken; [apply safe_malloc; assumption|].
  intros [v|] s1 [Hw1 H1].
  - destruct H1 as [Hv [Hnv [Hids1 Hf1]]].
    apply safe_bind. eapply safe_weaken; [apply safe_malloc; assumption|].
    intros [p|] s2 [Hw2 H2].
    + destruct H2 as [Hp [Hnp [Hids2 Hf2]]]. apply safe_ret. split; auto.
      rewrite Hids1 in Hnp. simpl in Hnp.
      split; [intro; subst; apply Hnp; auto|]. split; [intro; apply Hnp; auto|]. split; [assumption|].
      intro x; rewrite Hids2, Hids1; simpl; split; intros [H|[H|H]]; subst; auto.
    + destruct H2 as [Hids2 [Hf2 _]].
      apply safe_bind. eapply safe_weaken; [apply safe_free; [assumption | rewrite Hids2, Hids1; simpl; auto]|].
      intros _ s3 [Hw3 [Hf3 Hi3]]. apply safe_ret. split; auto.
      intro x; rewrite Hi3, Hids2, Hids1; simpl. split; [intros [[He|Hx] Hne]; [congruence | auto] | intro Hx; split; auto; intro; subst; tauto].
  - apply safe_ret. split; auto. destruct H1 as [Hi _]. intro x; rewrite Hi; tauto.
Qed.

Lemma safe_free_child : forall c s, wf s -> NoDup (kid c) -> (forall x, In x (kid c) -> In x (ids s)) ->
  safe (free_child c) s (fun _ s' => wf s' /\ (forall x, In x (ids s') <-> In x (ids s) /\ ~ In x (kid c))).
Proof.
  intros [[p v]|] s Hw Hnd Hin; simpl.
  - apply safe_bind. eapply safe_weaken; [apply safe_free; [assumption | apply Hin; simpl; auto]|].
    intros _ s1 [Hw1 [_ Hi1]].
    eapply safe_weaken; [apply safe_free; [assumption|]|].
    + apply Hi1; split; [apply Hin; simpl; auto|]. inversion Hnd; subst; simpl in *; intro; subst; tauto.
    + intros _ s2 [Hw2 [_ Hi2]]. split; auto.
      intro x; rewrite Hi2, Hi1; simpl. split.
      * intros [[Hx Hv] Hp]; split; auto. intros [He|[He|[]]]; subst; tauto.
      * intros [Hx Hn]; repeat split; auto; intro; subst; apply Hn; auto.
  - apply safe_ret; split; auto. intro x; simpl; tauto.
Qed.

Lemma NoDup_kid_nth : forall n l, NoDup (kids l) -> NoDup (kid (nth n l None)).
Proof.
  induction n; destruct l as [|c l]; simpl; intro H; try constructor.
  - fold (kids l) in H. apply NoDup_app_inv in H; tauto.
  - fold (kids l) in H. apply NoDup_app_inv in H. apply IHn; tauto.
Qed.

Definition vec_ok (l : plist) (s : astate) : Prop := 0 < lalloc l -> exists b, vec l = Some b /\ In b (ids s).

Lemma Inv_vec_ok : forall l s, Inv l s -> vec_ok l s.
Proof.
  intros l s HI Hpos. pose proof HI as [_ [_ [_ [_ Hv]]]]. destruct (vec l) as [b|] eqn:Hb; [|exfalso; apply Hv; auto].
  exists b; split; auto. eapply Inv_vec_live; eauto.
Qed.

Lemma safe_vaccess' : forall l s i n, vec_ok l s ->
  (n = 0 \/ (0 <= i /\ 0 < n /\ i + n <= lalloc l)) -> safe (vaccess l i n) s (fun _ s' => s' = s).
Proof.
  intros l s i n Hok Hr; unfold vaccess. destruct (Z.eqb_spec n 0) as [He|Hne].
  - apply safe_ret; reflexivity.
  - destruct Hr as [Hr|[H0 [Hn Hle]]]; [contradiction|].
    destruct (Hok ltac:(lia)) as [b [Hvec Hin]].
    assert (Hlive : is_live b s = true) by (apply is_live_iff; assumption).
    exists tt, s; split; auto. unfold bind, touch; rewrite Hvec, Hlive. unfold check_range, range_ok.
    replace (0 <=? i) with true by (symmetry; apply Z.leb_le; lia).
    replace (0 <=? n) with true by (symmetry; apply Z.leb_le; lia).
    replace (i + n <=? lalloc l) with true by (symmetry; apply Z.leb_le; lia).
    rewrite orb_true_r; reflexivity.
Qed.

(* the common core of install and delete: cell n's blocks leave, optionally a new child enters *)
Lemma Inv_replace : forall l s s2 n c,
  Inv l s -> (n < length (items l))%nat -> wf s2 ->
  NoDup (kid c) -> (forall x, In x (kid c) -> ~ In x (ids s)) ->
  (forall x, In x (ids s2) <-> (In x (kid c) \/ In x (ids s)) /\ ~ In x (kid (nth n (items l) None))) ->
  Inv (mkL (lblk l) (vec l) (lalloc l) (upd (items l) n c)) s2.
Proof.
  intros l s s2 n c [Hw [Hnd [Hiff [Hlen Hv]]]] Hn Hw2 Hc Hfresh Hi2.
  unfold Inv, owned, llen in *; simpl.
  destruct (NoDup_owned_inv _ _ _ Hnd) as [Hb1 [Hb2 [Hk Hd]]].
  destruct (kids_remove_at n (items l) Hn Hk) as [Hrn Hriff].
  assert (Hsub : forall x, In x (kids (remove_at n (items l))) -> In x (kids (items l))) by (intros x Hx; apply Hriff in Hx; tauto).
  assert (Hkin : forall x, In x (kids (items l)) -> In x (ids s)) by (intros x Hx; apply Hiff; right; apply in_or_app; auto).
  assert (Hold : forall x, In x (kid (nth n (items l) None)) -> In x (kids (items l))) by (intros x Hx; eapply nth_kids_in; eauto).
  split; [assumption|]. split; [|split; [|split; [rewrite length_upd; assumption | assumption]]].
  - apply NoDup_owned_intro; auto.
    + intro Hin; apply kids_upd in Hin; [|assumption]. destruct Hin as [Hin|Hin].
      * eapply Hfresh; eauto. apply Hiff; left; reflexivity.
      * apply Hb2; auto.
    + apply NoDup_kids_upd; auto. intros x Hx Hin; eapply Hfresh; eauto.
    + intros x Hx Hin. apply kids_upd in Hin; [|assumption]. destruct Hin as [Hin|Hin].
      * eapply Hfresh; eauto. apply Hiff; right; apply in_or_app; auto.
      * eapply Hd; eauto.
  - intro x; rewrite Hi2. simpl. rewrite in_app_iff. rewrite (kids_upd n (items l) c Hn x). rewrite Hriff. rewrite Hiff. simpl. rewrite in_app_iff.
    split.
    + intros [[Hx|[Hx|[Hx|Hx]]] Hno]; auto.
    + intros [Hx|[Hx|[Hx|[Hx Hno]]]].
      * split; [right; left; assumption|]. intro Ho; apply Hb2; apply Hold; subst; assumption.
      * split; [right; right; left; assumption|]. intro Ho; eapply Hd; eauto.
      * split; [left; assumption|]. intro Ho; eapply Hfresh; eauto.
      * split; auto.
Qed.

Lemma upd_remove_none : forall A n (l : list (option A)), (n < length l)%nat -> True.
Proof. auto. Qed.

Lemma safe_install : forall l s i, Inv l s -> 0 <= i < llen l ->
  safe (install l i) s (fun r s' => Inv (fst r) s').
Proof.
  intros l s i HI Hi; unfold install. pose proof HI as [Hw [Hnd [Hiff [Hlen Hv]]]].
  apply safe_bind. eapply safe_weaken; [apply safe_scalar_alloc; assumption|].
  intros [[p v]|] s1 [Hw1 H1].
  - destruct H1 as [Hpv [Hnp [Hnv Hi1]]].
    assert (Hn : (Z.to_nat i < length (items l))%nat) by (unfold llen in Hi; lia).
    destruct (NoDup_owned_inv _ _ _ Hnd) as [Hb1 [Hb2 [Hk Hd]]].
    apply safe_bind. eapply safe_weaken; [apply safe_vaccess'; [|right; unfold llen in *; lia]|].
    { intro Hpos. destruct (Inv_vec_ok l s HI Hpos) as [b [Hb Hin]]. exists b; split; auto. apply Hi1; auto. }
    intros u1 s2 Hs2; simpl in Hs2; subst s2; clear u1.
    apply safe_bind. eapply safe_weaken; [apply safe_free_child; [assumption | apply NoDup_kid_nth; assumption |]|].
    { intros x Hx. apply Hi1. right; right. apply Hiff. right; apply in_or_app; right. eapply nth_kids_in; eauto. }
    intros u1 s2 [Hw2 Hi2]. apply safe_ret; simpl.
    apply (Inv_replace l s s2 (Z.to_nat i) (Some (p, v))); auto.
    + simpl. constructor; [simpl; intros [He|[]]; congruence | constructor; [simpl; tauto | constructor]].
    + simpl; intros x [Hx|[Hx|[]]]; subst; assumption.
    + intro x; rewrite Hi2, Hi1; simpl. split.
      * intros [[Hx|[Hx|Hx]] Hno]; split; auto.
      * intros [[[Hx|[Hx|[]]]|Hx] Hno]; split; auto.
  - apply safe_ret; simpl. eapply Inv_ids_eq; eauto.
Qed.

Lemma safe_list_delete : forall l s index, Inv l s ->
  safe (list_delete Fixed l index) s (fun r s' => Inv (fst r) s').
Proof.
  intros l s index HI; unfold list_delete. pose proof HI as [Hw [Hnd [Hiff [Hlen Hv]]]].
  destruct (Z.ltb_spec index 0); [apply safe_ret; assumption|].
  destruct (Z.leb_spec (llen l) index); [apply safe_ret; assumption|].
  assert (Hn : (Z.to_nat index < length (items l))%nat) by (unfold llen in *; lia).
  destruct (NoDup_owned_inv _ _ _ Hnd) as [Hb1 [Hb2 [Hk Hd]]].
  apply safe_bind. eapply safe_weaken; [apply safe_vaccess; [assumption | right; unfold llen in *; lia]|].
  intros u1 s1 Hs1; simpl in Hs1; subst s1; clear u1.
  apply safe_bind. eapply safe_weaken; [apply safe_free_child; [assumption | apply NoDup_kid_nth; assumption |]|].
  { intros x Hx. apply Hiff. right; apply in_or_app; right. eapply nth_kids_in; eauto. }
  intros u1 s2 [Hw2 Hi2].
  assert (Hok2 : vec_ok l s2).
  { intro Hpos. destruct (Inv_vec_ok l s HI Hpos) as [b [Hb Hin]]. exists b; split; auto. apply Hi2; split; auto.
    intro Ho. eapply Hd; [rewrite Hb; simpl; left; reflexivity | eapply nth_kids_in; eauto]. }
  apply safe_bind. eapply safe_weaken; [apply safe_vaccess'; [assumption | unfold llen in *; lia]|].
  intros u2 s3 Hs3; simpl in Hs3; subst s3; clear u2.
  apply safe_bind. eapply safe_weaken; [apply safe_vaccess'; [assumption | unfold llen in *; lia]|].
  intros u2 s3 Hs3; simpl in Hs3; subst s3; clear u2.
  apply safe_bind. eapply safe_weaken; [apply safe_vaccess'; [assumption | right; unfold llen in *; lia]|].
  intros u2 s3 Hs3; simpl in Hs3; subst s3; clear u2.
  apply safe_ret; simpl.
  destruct (kids_remove_at (Z.to_nat index) (items l) Hn Hk) as [Hrn Hriff].
  unfold Inv, owned, llen in *; simpl.
  split; [assumption|]. split; [|split; [|split; [rewrite length_remove_at by assumption; lia | assumption]]].
  - apply NoDup_owned_intro; auto.
    + intro Hin; apply Hriff in Hin; tauto.
    + intros x Hx Hin; apply Hriff in Hin; eapply Hd; eauto; tauto.
  - intro x; rewrite Hi2, Hiff; simpl. rewrite !in_app_iff, Hriff. split.
    + intros [[Hx|[Hx|Hx]] Hno]; auto.
    + intros [Hx|[Hx|[Hx Hno]]].
      * split; auto. intro Ho; apply Hb2; subst; eapply nth_kids_in; eauto.
      * split; auto. intro Ho; eapply Hd; eauto; eapply nth_kids_in; eauto.
      * split; auto.
Qed.

Lemma safe_lstep : forall l s op, Inv l s -> safe (lstep Fixed l op) s (fun r s' => Inv (fst r) s').
Proof.
  intros l s op HI; destruct op as [|i|i|i|i]; simpl.
  - apply safe_bind. eapply safe_weaken; [apply safe_list_append; assumption|].
    intros [[l' a] e] s' [HI' Ha]. destruct a as [j|]; [apply safe_install; assumption | apply safe_ret; assumption].
  - apply safe_bind. eapply safe_weaken; [apply safe_list_subtree; assumption|].
    intros [[l' a] e] s' [HI' Ha]. destruct a as [j|]; [apply safe_install; assumption | apply safe_ret; assumption].
  - apply safe_bind. eapply safe_weaken; [apply safe_list_insert; assumption|].
    intros [[l' a] e] s' [HI' Ha]. destruct a as [j|]; [apply safe_install; assumption | apply safe_ret; assumption].
  - apply safe_list_delete; assumption.
  - apply safe_bind. eapply safe_weaken; [apply safe_list_subtree; assumption|].
    intros [[l' a] e] s' [HI' Ha]. destruct a as [j|]; [|apply safe_ret; assumption].
    apply safe_bind. eapply safe_weaken; [apply safe_vaccess; [exact HI' | right; destruct HI' as [_ [_ [_ [Hl _]]]]; lia]|].
    intros u1 s1 Hs1; simpl in Hs1; subst s1. apply safe_ret; assumption.
Qed.

Lemma safe_lrun : forall ops l s, Inv l s -> safe (lrun Fixed l ops) s (fun r s' => Inv (fst r) s').
Proof.
  induction ops as [|op ops IH]; intros l s HI; simpl.
  - apply safe_ret; assumption.
  - apply safe_bind. eapply safe_weaken; [apply safe_lstep; assumption|].
    intros [l' o] s' HI'; simpl in HI'.
    apply safe_bind. eapply safe_weaken; [apply IH; exact HI'|].
    intros [l'' os] s'' HI''; simpl in *. apply safe_ret; assumption.
Qed.

Lemma safe_free_items : forall its s, wf s -> NoDup (kids its) -> (forall x, In x (kids its) -> In x (ids s)) ->
  safe (free_items its) s (fun _ s' => wf s' /\ (forall x, In x (ids s') <-> In x (ids s) /\ ~ In x (kids its))).
Proof.
  induction its as [|c its IH]; intros s Hw Hnd Hin; simpl.
  - apply safe_ret; split; auto. intro x; tauto.
  - fold (kids its) in *. destruct (NoDup_app_inv _ _ Hnd) as [Hc [Hk Hd]].
    apply safe_bind. eapply safe_weaken; [apply safe_free_child; [assumption | assumption | intros x Hx; apply Hin; apply in_or_app; auto]|].
    intros u1 s1 [Hw1 Hi1].
    eapply safe_weaken; [apply IH; [assumption | assumption |]|].
    + intros x Hx; apply Hi1; split; [apply Hin; apply in_or_app; auto | intro Hc'; eapply Hd; eauto].
    + intros u2 s2 [Hw2 Hi2]; split; auto. intro x; rewrite Hi2, Hi1, in_app_iff; tauto.
Qed.

Lemma safe_lfree : forall l s, Inv l s -> safe (lfree l) s (fun _ s' => live s' = []).
Proof.
  intros l s [Hw [Hnd [Hiff [Hlen Hv]]]]; unfold lfree.
  destruct (NoDup_owned_inv _ _ _ Hnd) as [Hb1 [Hb2 [Hk Hd]]].
  apply safe_bind. eapply safe_weaken; [apply safe_free_items; [assumption | assumption |]|].
  { intros x Hx; apply Hiff; right; apply in_or_app; auto. }
  intros u1 s1 [Hw1 Hi1].
  assert (Hlb : forall s2, wf s2 -> (forall x, In x (ids s2) <-> x = lblk l) ->
                safe (free (Some (lblk l))) s2 (fun _ s' => live s' = [])).
  { intros s2 Hw2 Hi2. eapply safe_weaken; [apply safe_free; [assumption | apply Hi2; reflexivity]|].
    intros u s3 [Hw3 [_ Hi3]]. apply ids_nil_live_nil. intros x Hx; apply Hi3 in Hx. destruct Hx as [Hx Hne]; apply Hi2 in Hx; contradiction. }
  apply safe_bind. unfold owned in Hiff. destruct (vec l) as [b|] eqn:Hvec; simpl in Hd, Hb1, Hiff.
  - eapply safe_weaken; [apply safe_free; [assumption|]|].
    + apply Hi1; split; [apply Hiff; right; left; reflexivity | intro Hx; eapply Hd; eauto].
    + intros u2 s2 [Hw2 [_ Hi2]]. apply Hlb; auto.
      intro x; rewrite Hi2, Hi1, Hiff. split.
      * intros [[[Hx|[Hx|Hx]] Hno] Hne]; [auto | subst; contradiction | contradiction].
      * intro; subst x. split; [split; auto|]. intro He; apply Hb1; auto.
  - exists tt, s1; split; [reflexivity|]. apply Hlb; auto.
    intro x; rewrite Hi1, Hiff. split.
    + intros [[Hx|Hx] Hno]; [auto | contradiction].
    + intro; subst x; split; auto.
Qed.

(* every history, every fault point: the run never faults and ends with an empty ledger *)
Lemma history_safe : forall ops k,
  safe (history Fixed ops) (start k) (fun _ s' => live s' = []).
Proof.
  intros ops k; unfold history, lnew.
  apply safe_bind. apply safe_bind.
  eapply safe_weaken; [apply safe_malloc; apply wf_start|].
  intros [b|] s1 [Hw1 H1].
  - destruct H1 as [Hb [Hnb [Hids Hf]]]. apply safe_ret.
    assert (HI : Inv (mkL b None 0 []) s1).
    { unfold Inv, owned, llen; simpl. split; [assumption|]. split; [repeat constructor; simpl; tauto|].
      split; [|split; lia]. intro x; rewrite Hids; simpl. tauto. }
    apply safe_bind. eapply safe_weaken; [apply safe_lrun; exact HI|].
    intros [l' os] s2 HI2; simpl in HI2.
    apply safe_bind. eapply safe_weaken; [apply safe_lfree; exact HI2|].
    intros u s3 H3. apply safe_ret; assumption.
  - destruct H1 as [Hids _]. apply safe_ret. apply safe_ret.
    apply ids_nil_live_nil. rewrite Hids; simpl; tauto.
Qed.

Theorem plist_no_fault_lemma : forall ops k f, history Fixed ops (start k) <> Fault f.
Proof.
  intros ops k f H. destruct (history_safe ops k) as [a [s' [He _]]]. rewrite He in H; discriminate.
Qed.

Theorem plist_no_leak_lemma : forall ops k os s',
  history Fixed ops (start k) = Ok (os, s') -> live s' = [].
Proof.
  intros ops k os s' H. destruct (history_safe ops k) as [a [s2 [He Hl]]]. rewrite He in H; inversion H; subst; assumption.
Qed.

(* single call, arbitrary fault point: the call completes (Done or an errno), the invariant holds
   afterwards: every live block is owned by the list (nothing orphaned) and the list is usable *)
Theorem plist_fault_clean_lemma : forall op l s, Inv l s ->
  exists l' o s', lstep Fixed l op s = Ok ((l', o), s') /\ Inv l' s'.
Proof.
  intros op l s HI. destruct (safe_lstep l s op HI) as [[l' o] [s' [He HI']]]. exists l', o, s'; auto.
Qed.

Lemma Inv_initial : Inv (mkL 0%nat None 0 []) (mkA None [(0%nat, 32)] 1).
Proof.
  unfold Inv, owned, llen, wf, ids; simpl.
  split; [split; [repeat constructor; simpl; tauto | intros x [Hx|[]]; subst; lia]|].
  split; [repeat constructor; simpl; tauto|]. split; [intro x; tauto | split; lia].
Qed.

(* the hypotheses are satisfiable: a list with three cells, two of them filled, allocation 8 *)
Example Inv_satisfiable : exists l s, Inv l s /\ llen l = 3 /\ lalloc l = 8 /\ length (live s) = 6%nat.
Proof.
  destruct (safe_lrun [LAppend; LSet 2] _ _ Inv_initial) as [[l' os] [s' [He HI']]].
  vm_compute in He. inversion He; subst. eexists; eexists; split; [exact HI'|]. vm_compute; auto.
Qed.

(* ---------------------------------------------------------------- refutations of the code as first read *)
Theorem plist_delete_orig_oob_refuted_lemma :
  exists ops, history Orig ops (start None) = Fault OOB.
Proof. exists (repeat LAppend 8 ++ [LDelete 0]); vm_compute; reflexivity. Qed.

Theorem plist_delete_orig_leak_refuted_lemma :
  exists ops os s, history Orig ops (start None) = Ok (os, s) /\ live s <> [].
Proof. exists [LAppend; LAppend; LDelete 0]; eexists; eexists; split; [vm_compute; reflexivity | discriminate]. Qed.

Theorem plist_index_overflow_orig_refuted_lemma :
  exists ops, history Orig ops (start None) = Fault IntOverflow.
Proof. exists [LSet INT_MAX]; vm_compute; reflexivity. Qed.

(* D55: a failed set is not atomic: the appended cell stays (the length grew) although the call
   returned -1/ENOMEM.  This holds of the current code (Fixed) as well. *)
Theorem plist_set_not_atomic_refuted_lemma :
  exists l s op l' s', Inv l s /\ lstep Fixed l op s = Ok ((l', Err ENOMEM), s') /\ observe l' <> observe l.
Proof.
  exists (mkL 0%nat None 0 []), (mkA (Some 1%nat) [(0%nat, 32)] 1), LAppend.
  eexists; eexists. split; [|split; [vm_compute; reflexivity | vm_compute; discriminate]].
  destruct Inv_initial as [[Hnd Hlt] H]. split; [split; assumption | exact H].
Qed.

Lemma plist_fault_history_lemma : forall ops k os s',
  history Fixed ops (start (Some k)) = Ok (os, s') -> live s' = [].
Proof. intros ops k; exact (plist_no_leak_lemma ops (Some k)). Qed.

Lemma plist_fault_history_no_fault_lemma : forall ops k f, history Fixed ops (start (Some k)) <> Fault f.
Proof. intros ops k; exact (plist_no_fault_lemma ops (Some k)). Qed.
