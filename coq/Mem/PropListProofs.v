(* Proofs about the list-container model: invariant, no fault, no leak, clean allocation failure. *)
Require Import List ZArith Bool Arith Lia.
Import ListNotations.
Require Import LV.Mem.Alloc LV.Mem.AllocProofs LV.Mem.PropList.
Open Scope Z_scope.

(* ---------------------------------------------------------------- a small program logic *)
Definition safe {A} (m : M A) (s : astate) (Q : A -> astate -> Prop) : Prop :=
  exists a s', m s = Ok (a, s') /\ Q a s'.

Lemma safe_ret : forall A (a : A) s (Q : A -> astate -> Prop), Q a s -> safe (ret a) s Q.
Proof. intros; exists a, s; split; auto. Qed.

Lemma safe_bind : forall A B (m : M A) (f : A -> M B) s Q,
  safe m s (fun a s' => safe (f a) s' Q) -> safe (bind m f) s Q.
Proof.
  intros A B m f s Q [a [s' [Hm [b [s'' [Hf HQ]]]]]]; exists b, s''; split; auto.
  unfold bind; rewrite Hm; assumption.
Qed.

Lemma safe_weaken : forall A (m : M A) s (Q Q' : A -> astate -> Prop),
  safe m s Q -> (forall a s', Q a s' -> Q' a s') -> safe m s Q'.
Proof. intros A m s Q Q' [a [s' [H HQ]]] Himp; exists a, s'; auto. Qed.

Lemma safe_malloc : forall sz s, wf s ->
  safe (malloc sz) s (fun r s' => wf s' /\
    match r with
    | Some b => b = fresh s /\ ~ In b (ids s) /\ ids s' = b :: ids s /\ fresh s' = S (fresh s)
    | None => ids s' = ids s /\ fresh s' = fresh s /\ fail_at s = Some O /\ fail_at s' = None
    end).
Proof.
  intros sz s Hwf. destruct (malloc sz s) as [[r s']|e] eqn:H.
  - exists r, s'; split; auto. eapply malloc_spec; eauto.
  - unfold malloc in H; destruct (fail_at s) as [[|k]|]; discriminate.
Qed.

Lemma safe_free : forall b s, wf s -> In b (ids s) ->
  safe (free (Some b)) s (fun _ s' => wf s' /\ fresh s' = fresh s /\ (forall x, In x (ids s') <-> In x (ids s) /\ x <> b)).
Proof.
  intros b s Hwf Hin. destruct (free_spec b s Hwf Hin) as [s' [H [Hw [_ [Hf Hi]]]]].
  exists tt, s'; auto.
Qed.

Lemma safe_realloc : forall p sz s, wf s -> (forall b, p = Some b -> In b (ids s)) ->
  safe (realloc p sz) s (fun r s' => wf s' /\
    match r with
    | Some b => b = fresh s /\ ~ In b (ids s) /\ fresh s' = S (fresh s) /\
                (forall x, In x (ids s') <-> x = b \/ (In x (ids s) /\ Some x <> p))
    | None => ids s' = ids s /\ fresh s' = fresh s /\ fail_at s = Some O /\ fail_at s' = None
    end).
Proof.
  intros p sz s Hwf Hp. destruct (realloc p sz s) as [[r s']|e] eqn:H.
  - exists r, s'; split; auto. eapply realloc_spec; eauto.
  - exfalso. destruct p as [b|]; simpl in H.
    + unfold realloc in H. assert (Hl : is_live b s = true) by (apply is_live_iff; auto). rewrite Hl in H.
      destruct (fail_at s) as [[|k]|]; discriminate.
    + unfold malloc in H; destruct (fail_at s) as [[|k]|]; discriminate.
Qed.

(* ---------------------------------------------------------------- ownership *)
Definition kid (c : option child) : list block_id := match c with Some (p, s) => [p; s] | None => [] end.
Definition kids (l : list (option child)) : list block_id := flat_map kid l.
Definition vecl (v : option block_id) : list block_id := match v with Some b => [b] | None => [] end.
Definition owned (l : plist) : list block_id := lblk l :: vecl (vec l) ++ kids (items l).

Definition Inv (l : plist) (s : astate) : Prop :=
  wf s /\ NoDup (owned l) /\ (forall x, In x (ids s) <-> In x (owned l)) /\
  llen l <= lalloc l /\ (0 < lalloc l -> vec l <> None).

Lemma kids_app : forall a b, kids (a ++ b) = kids a ++ kids b.
Proof. intros; unfold kids; apply flat_map_app. Qed.

Lemma kids_repeat_none : forall n, kids (repeat None n) = [].
Proof. induction n; simpl; auto. Qed.

Lemma kids_insert_none : forall n l, kids (insert_at n None l) = kids l.
Proof. induction n; destruct l; simpl; auto. rewrite IHn; reflexivity. Qed.

Lemma length_insert_at : forall A n (x : A) l, length (insert_at n x l) = S (length l).
Proof. induction n; destruct l; simpl; auto. Qed.

Lemma length_remove_at : forall A n (l : list A), (n < length l)%nat -> length (remove_at n l) = pred (length l).
Proof.
  induction n; destruct l; simpl; intros; try lia.
  rewrite IHn by lia. destruct l; simpl in *; lia.
Qed.

Lemma length_upd : forall A (l : list A) n v, length (upd l n v) = length l.
Proof. induction l; destruct n; simpl; auto. Qed.

Lemma NoDup_app_inv : forall (a b : list block_id), NoDup (a ++ b) ->
  NoDup a /\ NoDup b /\ (forall x, In x a -> ~ In x b).
Proof.
  induction a as [|y a IH]; simpl; intros b H.
  - repeat split; auto; constructor.
  - inversion H; subst. destruct (IH b H3) as [Ha [Hb Hd]]. repeat split; auto.
    + constructor; auto. intro Hin; apply H2; apply in_or_app; auto.
    + intros x [Hx|Hx]; [subst; intro Hin; apply H2; apply in_or_app; auto | auto].
Qed.

Lemma NoDup_app_intro : forall (a b : list block_id), NoDup a -> NoDup b ->
  (forall x, In x a -> ~ In x b) -> NoDup (a ++ b).
Proof.
  induction a as [|y a IH]; simpl; intros b Ha Hb Hd; auto.
  inversion Ha; subst. constructor.
  - intro Hin; apply in_app_or in Hin; destruct Hin; auto. eapply Hd; eauto.
  - apply IH; auto.
Qed.

Lemma nth_kids_in : forall n l x, In x (kid (nth n l None)) -> In x (kids l).
Proof.
  intros n l; revert n; induction l; destruct n; simpl; intros; try tauto.
  - apply in_or_app; auto.
  - apply in_or_app; right; eapply IHl; eauto.
Qed.

(* removing cell n: exactly the blocks of that cell leave the owned set *)
Lemma kids_remove_at : forall n l, (n < length l)%nat -> NoDup (kids l) ->
  NoDup (kids (remove_at n l)) /\
  (forall x, In x (kids (remove_at n l)) <-> In x (kids l) /\ ~ In x (kid (nth n l None))).
Proof.
  induction n; destruct l as [|c l]; simpl; intros Hn Hnd; try lia.
  - fold (kids l) in *. destruct (NoDup_app_inv _ _ Hnd) as [Hc [Hl Hd]]. split; auto.
    intro x; rewrite in_app_iff; split.
    + intro Hx; split; auto. intro Hc'; eapply Hd; eauto.
    + intros [[Hx|Hx] Hc']; tauto.
  - fold (kids l) in *. fold (kids (remove_at n l)).
    destruct (NoDup_app_inv _ _ Hnd) as [Hc [Hl Hd]].
    destruct (IHn l ltac:(lia) Hl) as [Hn1 Hiff]. split.
    + apply NoDup_app_intro; auto. intros x Hx Hin; apply Hiff in Hin; eapply Hd; eauto; tauto.
    + intro x; rewrite !in_app_iff, Hiff. split.
      * intros [Hx|[Hx Hc']]; auto. split; auto. intro Hc'. eapply Hd; eauto. eapply nth_kids_in; eauto.
      * intros [[Hx|Hx] Hc']; auto.
Qed.

(* replacing cell n (whose old blocks have been released) by a new child *)
Lemma kids_upd : forall n l c, (n < length l)%nat ->
  forall x, In x (kids (upd l n c)) <-> In x (kid c) \/ In x (kids (remove_at n l)).
Proof.
  induction n; destruct l as [|a l]; simpl; intros c Hn x; try lia.
  - rewrite in_app_iff; tauto.
  - fold (kids (upd l n c)); fold (kids (remove_at n l)). rewrite !in_app_iff, IHn by lia. tauto.
Qed.

Lemma NoDup_kids_upd : forall n l c, (n < length l)%nat ->
  NoDup (kid c) -> NoDup (kids (remove_at n l)) -> (forall x, In x (kid c) -> ~ In x (kids (remove_at n l))) ->
  NoDup (kids (upd l n c)).
Proof.
  induction n; destruct l as [|a l]; simpl; intros c Hn Hc Hr Hd; try lia.
  - apply NoDup_app_intro; auto.
  - fold (kids (remove_at n l)) in *. fold (kids (upd l n c)).
    destruct (NoDup_app_inv _ _ Hr) as [Ha [Hr2 Hd2]].
    apply NoDup_app_intro; auto.
    + apply IHn; auto; [lia|]. intros x Hx Hin; eapply Hd; eauto; apply in_or_app; auto.
    + intros x Hx Hin. apply kids_upd in Hin; [|lia]. destruct Hin as [Hin|Hin].
      * eapply Hd; eauto; apply in_or_app; auto.
      * eapply Hd2; eauto.
Qed.
