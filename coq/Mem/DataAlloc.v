(* Pointer-level model, as coded, of the vnadata allocation skeleton (src/vnadata_alloc.c):
   vnadata_alloc, _vnadata_extend_p, _vnadata_extend_m, _vnadata_extend_f, the allocation part of
   vnadata_resize (the three extends in order) and vnadata_free.  The z0 mode (one vector, or one
   row per frequency: VF_PER_F_Z0) is a fixed attribute of the modelled object; the conversions
   between the modes are not modelled.  All pointers of the object live in one table:
     slot 0 vdip, 1 vd_frequency_vector, 2 vdi_z0_vector, 3 vdi_z0_vector_vector, 4 vd_data,
     slot 5+2i vdi_z0_vector_vector[i], slot 6+2i vd_data[i]   for i < vdi_f_allocation.
   Row cells at and above vdi_f_allocation are not represented (the code keeps them NULL: memset
   after realloc; D07 added the missing memset for the z0 row pointers).  [Orig] = before D07: the
   new z0 row pointer of a frequency row is garbage when p_allocation = 0.  No proofs here. *)
Require Import List ZArith Bool Arith Lia.
Import ListNotations.
Require Import LV.Mem.Alloc LV.Mem.PropList.
Open Scope Z_scope.

Record vdata := mkD {
  perf : bool;                       (* VF_PER_F_Z0 *)
  pal : nat; mal : nat; fal : nat;   (* vdi_p_allocation, vdi_m_allocation, vdi_f_allocation *)
  zcap : nat; dcap : nat;            (* elements of the row-pointer arrays (slots 3 and 4) *)
  tbl : list (option block_id)
}.
Definition S_VDIP := 0%nat.  Definition S_FVEC := 1%nat.  Definition S_Z0 := 2%nat.
Definition S_ZVV := 3%nat.   Definition S_DVEC := 4%nat.
Definition zrow (i : nat) : nat := (5 + 2 * i)%nat.
Definition drow (i : nat) : nat := (6 + 2 * i)%nat.
Definition slot (d : vdata) (i : nat) : option block_id := nth i (tbl d) None.
Definition set_tbl (d : vdata) (t : list (option block_id)) : vdata :=
  mkD (perf d) (pal d) (mal d) (fal d) (zcap d) (dcap d) t.

(* p = realloc(slot, size); if (p == NULL) fail; slot = p *)
Definition realloc_slot (d : vdata) (i : nat) (sz : Z) : M (bool * vdata) :=
  r <- realloc (slot d i) sz ;;
  match r with
  | None => ret (false, d)
  | Some b => ret (true, set_tbl d (upd (tbl d) i (Some b)))
  end.

(* reading or writing array[i] of the row-pointer array in slot a with capacity cap *)
Definition row_access (d : vdata) (a : nat) (i cap : nat) : M unit :=
  touch (slot d a) ;;; check_range (Z.of_nat i) 1 (Z.of_nat cap).

(* for (findex = 0; findex < f_allocation; ++findex) realloc(row[findex]) : stops at the first failure *)
Fixpoint realloc_rows (d : vdata) (arr cap : nat) (row : nat -> nat) (sz : Z) (idx : list nat) : M (bool * vdata) :=
  match idx with
  | [] => ret (true, d)
  | i :: rest =>
      row_access d arr i cap ;;;
      r <- realloc_slot d (row i) sz ;;
      (let (ok, d') := r in if ok then realloc_rows d' arr cap row sz rest else ret (false, d'))
  end.

Definition extend_p (d : vdata) (new : nat) : M (bool * vdata) :=
  if (new <=? pal d)%nat then ret (true, d)
  else
    r <- (if perf d then realloc_rows d S_ZVV (zcap d) zrow (Z.of_nat new * 16) (seq 0 (fal d))
          else realloc_slot d S_Z0 (Z.of_nat new * 16)) ;;
    (let (ok, d') := r in
     if ok then ret (true, mkD (perf d') new (mal d') (fal d') (zcap d') (dcap d') (tbl d')) else ret (false, d')).

Definition extend_m (d : vdata) (new : nat) : M (bool * vdata) :=
  if (new <=? mal d)%nat then ret (true, d)
  else
    r <- realloc_rows d S_DVEC (dcap d) drow (Z.of_nat new * 16) (seq 0 (fal d)) ;;
    (let (ok, d') := r in
     if ok then ret (true, mkD (perf d') (pal d') new (fal d') (zcap d') (dcap d') (tbl d')) else ret (false, d')).

Definition garbage : block_id := 4000%nat.     (* an uninitialised pointer: not a live block in any short run *)

(* the loop "Add the new sub-vectors" of _vnadata_extend_f, for findex = fal .. new-1 *)
Fixpoint add_rows (v : variant) (d : vdata) (n : nat) : M (bool * vdata) :=
  match n with
  | O => ret (true, d)
  | S n' =>
      let findex := fal d in
      z <- (if perf d && negb (pal d =? 0)%nat then
              row_access d S_ZVV findex (zcap d) ;;; (m <- malloc (Z.of_nat (pal d) * 16) ;; ret (Some m))
            else ret None) ;;
      match z with
      | Some None => ret (false, d)                                   (* calloc of the z0 row failed *)
      | _ =>
          let zv := match z with
                    | Some (Some b) => Some b
                    | _ => match v with
                           | Fixed => None
                           | Orig => if perf d then Some garbage else None
                           end
                    end in
          dd <- (if negb (mal d =? 0)%nat then
                   row_access d S_DVEC findex (dcap d) ;;; (m <- malloc (Z.of_nat (mal d) * 16) ;; ret (Some m))
                 else ret None) ;;
          match dd with
          | Some None =>                                              (* calloc of the data row failed *)
              (if perf d then free (match z with Some (Some b) => Some b | _ => None end) else ret tt) ;;;
              ret (false, d)
          | _ =>
              let dv := match dd with Some (Some b) => Some b | _ => None end in
              add_rows v (mkD (perf d) (pal d) (mal d) (S (fal d)) (zcap d) (dcap d) (tbl d ++ [zv; dv])) n'
          end
      end
  end.

Definition extend_f (v : variant) (d : vdata) (new : nat) : M (bool * vdata) :=
  if (new <=? fal d)%nat then ret (true, d)
  else
    r1 <- realloc_slot d S_FVEC (Z.of_nat new * 8) ;;
    (let (ok1, d1) := r1 in
     if negb ok1 then ret (false, d1) else
     r2 <- (if perf d1 then
              r <- realloc_slot d1 S_ZVV (Z.of_nat new * 8) ;;
              (let (ok, d') := r in
               ret (ok, if ok then mkD (perf d') (pal d') (mal d') (fal d') new (dcap d') (tbl d') else d'))
            else ret (true, d1)) ;;
     (let (ok2, d2) := r2 in
      if negb ok2 then ret (false, d2) else
      r3 <- realloc_slot d2 S_DVEC (Z.of_nat new * 8) ;;
      (let (ok3, d3) := r3 in
       if negb ok3 then ret (false, d3) else
       add_rows v (mkD (perf d3) (pal d3) (mal d3) (fal d3) (zcap d3) new (tbl d3)) (new - fal d3)))).

(* the allocation part of vnadata_resize(rows, columns, frequencies) *)
Definition resize (v : variant) (d : vdata) (ports cells freqs : Z) : M (vdata * outcome) :=
  if (ports <? 0) || (cells <? 0) || (freqs <? 0) then ret (d, Err EINVAL)
  else
    r <- extend_p d (Z.to_nat ports) ;;
    (let (ok, d1) := r in
     if negb ok then ret (d1, Err ENOMEM) else
     r2 <- extend_m d1 (Z.to_nat cells) ;;
     (let (ok2, d2) := r2 in
      if negb ok2 then ret (d2, Err ENOMEM) else
      r3 <- extend_f v d2 (Z.to_nat freqs) ;;
      (let (ok3, d3) := r3 in
       if negb ok3 then ret (d3, Err ENOMEM) else ret (d3, Done)))).

Definition dnew (per_f : bool) : M (option vdata) :=
  b <- malloc 120 ;;
  match b with
  | None => ret None
  | Some p => ret (Some (mkD per_f 0 0 0 0 0 [Some p; None; None; None; None]))
  end.

(* vnadata_free: every pointer of the object is released exactly once *)
Fixpoint free_all (l : list (option block_id)) : M unit :=
  match l with
  | [] => ret tt
  | p :: t => free p ;;; free_all t
  end.
Definition dfree (d : vdata) : M unit := free_all (rev (tbl d)).

Inductive dop := DResize (ports cells freqs : Z).

Fixpoint drun (v : variant) (d : vdata) (ops : list dop) : M (vdata * list outcome) :=
  match ops with
  | [] => ret (d, [])
  | DResize p m f :: rest =>
      r <- resize v d p m f ;;
      (let (d', o) := r in
       r2 <- drun v d' rest ;;
       (let (d'', os) := r2 in ret (d'', o :: os)))
  end.

Definition dhistory (v : variant) (per_f : bool) (ops : list dop) : M (list outcome) :=
  o <- dnew per_f ;;
  match o with
  | None => ret []
  | Some d => r <- drun v d ops ;; (let (d', os) := r in dfree d' ;;; ret os)
  end.
