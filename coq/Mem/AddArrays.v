(* Model, as coded, of the stack arrays of _vnacal_new_add_common (src/vnacal_new_add_common.c):
   declared lengths against the loop bounds, for the calls without a port map and with a full
   (non-diagonal) M and S argument, i.e. vnacal_new_add_mapped_matrix[_m] with port_map == NULL.
   A variable-length array whose bound is not positive is undefined behaviour (Fault VlaBound);
   every loop that writes arr[0 .. n) is an access to that range of the declared array.
   [Fixed] = current tree (D14 loop bound, D48 b/m matrix bound, D50 positive s_cell_map bound);
   [Orig] = as first read.  The full calibration dimensions are those of a valid vnacal_new_t
   (all >= 1, full_s_rows = full_s_columns = full_s_ports as in every layout).  No proofs here. *)
Require Import List ZArith Bool Arith Lia.
Import ListNotations.
Require Import LV.Mem.Alloc LV.Mem.PropList.
Open Scope Z_scope.

Record add_args := mkAdd {
  full_m_rows : Z; full_m_columns : Z; full_s : Z;     (* from the layout of the vnacal_new_t *)
  b_rows : Z; b_columns : Z;                           (* caller's m / b matrix dimensions *)
  s_rows : Z; s_columns : Z;                           (* caller's s matrix dimensions *)
  min_b_rows : Z; min_b_columns : Z                    (* from the type: s_ports, s_rows, full_m_columns, ... *)
}.

Definition vla (n : Z) : M Z := if n <=? 0 then fail VlaBound else ret n.
(* for (i = 0; i < n; ++i) arr[i] = ...   (no iteration when n <= 0) *)
Definition loop (n len : Z) : M unit := if n <=? 0 then ret tt else check_range 0 n len.

Definition add_arrays (v : variant) (a : add_args) : M outcome :=
  let b_cells := b_rows a * b_columns a in
  let s_cells := s_rows a * s_columns a in
  m_cell_map <- vla (Z.max 1 (Z.min b_cells (full_m_rows a * full_m_columns a))) ;;
  s_cell_map <- vla (match v with Fixed => Z.max 1 s_cells | Orig => s_cells end) ;;
  port_connected <- vla (full_s a) ;;
  m_row_given <- vla (full_m_rows a) ;;
  m_column_given <- vla (full_m_columns a) ;;
  s_row_given <- vla (full_s a) ;;
  s_column_given <- vla (full_s a) ;;
  (* argument validation, in the order of the code *)
  if (s_rows a <? 1) || (full_s a <? s_rows a) then ret (Err EINVAL)
  else if (s_columns a <? 1) || (full_s a <? s_columns a) then ret (Err EINVAL)
  else if negb (s_rows a =? full_s a) || negb (s_columns a =? full_s a) then ret (Err EINVAL)   (* port map required *)
  else if negb (b_rows a =? min_b_rows a) && negb (b_rows a =? full_m_rows a) then ret (Err EINVAL)
  else if negb (b_columns a =? min_b_columns a) && negb (b_columns a =? full_m_columns a) then ret (Err EINVAL)
  else if (match v with Fixed => (full_m_rows a <? b_rows a) || (full_m_columns a <? b_columns a) | Orig => false end)
       then ret (Err EINVAL)                                                                      (* D48 *)
  else
    loop (full_s a) port_connected ;;;            (* port_connected[i] = true, i < full_s_ports *)
    loop b_cells m_cell_map ;;;                   (* m_cell_map[b_cell] = b_cell *)
    loop (b_rows a) m_row_given ;;;               (* m_row_given[b_row] = true *)
    loop (match v with Fixed => b_columns a | Orig => b_rows a end) m_column_given ;;;   (* D14 *)
    loop s_cells s_cell_map ;;;
    loop (s_rows a) s_row_given ;;;
    loop (s_columns a) s_column_given ;;;
    ret Done.

(* min_b_rows / min_b_columns are s_ports, s_rows, s_columns or a full dimension, all >= 1 once the
   s dimensions have been validated *)
Definition valid_new (a : add_args) : Prop :=
  1 <= full_m_rows a /\ 1 <= full_m_columns a /\ 1 <= full_s a /\ 1 <= min_b_rows a /\ 1 <= min_b_columns a.
