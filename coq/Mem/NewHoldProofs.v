(* The hold balance of the vnacal_new_t life cycle (NewAlloc.v): the holds a parameter carries on behalf of the calibrations
   equal the number of hash nodes that refer to it, over the whole ring; hence after vnacal_free every hold has been given
   back.  Partial-correctness logic [post] (what holds of every Ok result); the ledger side is in NewAllocProofs.v. *)
Require Import List ZArith Bool Arith Lia.
Import ListNotations.
Require Import LV.Mem.Alloc LV.Mem.AllocProofs LV.Mem.PropList LV.Mem.PropListProofs LV.Mem.NewAlloc LV.Mem.NewAllocProofs.
Open Scope nat_scope.

Definition post {A} (m : M A) (s : astate) (Q : A -> astate -> Prop) : Prop :=
  forall a s', m s = Ok (a, s') -> Q a s'.

Lemma post_ret : forall A (a : A) s (Q : A -> astate -> Prop), Q a s -> post (ret a) s Q.
Proof. intros A a s Q H a' s' E. inversion E; subst; auto. Qed.
Lemma post_bind : forall A B (m : M A) (f : A -> M B) s Q,
  (forall a s', m s = Ok (a, s') -> post (f a) s' Q) -> post (bind m f) s Q.
Proof.
  intros A B m f s Q H b s'' E. unfold bind in E. destruct (m s) as [[a s']|e] eqn:Em; [|discriminate].
  exact (H a s' eq_refl b s'' E).
Qed.
Lemma post_weaken : forall A (m : M A) s (Q Q' : A -> astate -> Prop), post m s Q -> (forall a s', Q a s' -> Q' a s') -> post m s Q'.
Proof. intros A m s Q Q' H Hi a s' E. apply Hi, H; auto. Qed.
Lemma post_fail : forall A e s (Q : A -> astate -> Prop), post (@fail A e) s Q.
Proof. intros A e s Q a s' E. discriminate. Qed.

(* ---------------------------------------------------------------- hold counts *)
Definition keys (v : vnew) : list nat := map fst (vn_nodes v).
Definition hcount (ps : list prm) (j : nat) : nat := pheld (nth j ps pdummy).

(* the holds of the parameters = the nodes of this calibration + those of the others (G); every key names a parameter *)
Definition HBv (G : nat -> nat) (v : vnew) (ps : list prm) : Prop :=
  (forall j, hcount ps j = cnt j (keys v) + G j) /\ (forall k, In k (keys v) -> k < length ps) /\
  (vn_tab v = None -> vn_nodes v = []).

Lemma hcount_upd : forall ps u p' j, u < length ps ->
  hcount (upd ps u p') j = if Nat.eq_dec u j then pheld p' else hcount ps j.
Proof.
  intros ps u p' j Hu. unfold hcount. destruct (Nat.eq_dec u j) as [->|Hne].
  - rewrite nth_upd_eq by auto. reflexivity.
  - rewrite nth_upd_ne by auto. reflexivity.
Qed.

Lemma hcount_hold : forall ps i j, i < length ps -> hcount (hold ps i) j = hcount ps j + ind j i.
Proof.
  intros ps i j Hi. unfold hold. rewrite hcount_upd by auto. unfold ind. destruct (Nat.eq_dec i j) as [->|Hne]; simpl; unfold hcount; lia.
Qed.
Lemma hcount_release : forall ps i j, i < length ps -> hcount (release ps i) j = hcount ps j - ind j i.
Proof.
  intros ps i j Hi. unfold release. rewrite hcount_upd by auto. unfold ind. destruct (Nat.eq_dec i j) as [->|Hne]; simpl; unfold hcount; lia.
Qed.
Lemma length_release : forall ps i, length (release ps i) = length ps.
Proof. intros; unfold release; apply length_upd2. Qed.
Lemma length_release_all : forall ks ps, length (release_all ps ks) = length ps.
Proof. induction ks; simpl; intros; auto. rewrite IHks. apply length_release. Qed.
Lemma hcount_release_all : forall ks ps j, (forall k, In k ks -> k < length ps) ->
  hcount (release_all ps ks) j = hcount ps j - cnt j ks.
Proof.
  induction ks as [|k ks IH]; intros ps j Hk; simpl.
  - rewrite cnt_nil; lia.
  - rewrite IH by (intros k' Hin; rewrite length_release; apply Hk; simpl; auto).
    rewrite hcount_release by (apply Hk; simpl; auto). rewrite cnt_cons. lia.
Qed.

(* ---------------------------------------------------------------- _vnacal_new_get_parameter *)
Definition HBr (G : nat -> nat) (ps : list prm) (r : vnew * list prm * outcome) : Prop :=
  let '(v', ps', _) := r in HBv G v' ps' /\ length ps' = length ps.

Lemma keys_set_nodes : forall v t c n u, keys (set_nodes v t c n u) = map fst n.
Proof. reflexivity. Qed.

Lemma hb_insert : forall G v1 ps1 i b t c u, HBv G v1 ps1 -> i < length ps1 -> t <> None ->
  HBv G (set_nodes v1 t c (vn_nodes v1 ++ [(i, b)]) u) (hold ps1 i).
Proof.
  intros G v1 ps1 i b t c u [H1 [H2 H3]] Hi Ht. split; [|split; [|simpl; intro; congruence]].
  - intro j. rewrite hcount_hold by auto. rewrite keys_set_nodes, map_app. simpl. rewrite cnt_app, cnt_cons, cnt_nil.
    specialize (H1 j). unfold keys in H1. lia.
  - intros k Hin. rewrite length_hold. rewrite keys_set_nodes, map_app in Hin. apply in_app_or in Hin.
    destruct Hin as [Hin|[<-|[]]]; [apply H2; exact Hin | exact Hi].
Qed.

Lemma hb_get_parameter : forall fuel G v ps i s, HBv G v ps ->
  post (get_parameter NFixed fuel v ps i) s (fun r _ => HBr G ps r).
Proof.
  induction fuel as [|f IH]; intros G v ps i s HB; simpl; [apply post_fail|].
  destruct (in_hash v i).
  { apply post_bind; intros u s1 _. apply post_ret. split; auto. }
  destruct (Nat.leb_spec (length ps) i) as [Hge|Hlt]; [apply post_ret; split; auto|].
  apply post_bind. intros [[v1 ps1] out] s1 E1.
  assert (HB1 : HBv G v1 ps1 /\ length ps1 = length ps).
  { destruct (pkd (nth i ps pdummy)) as [|o|o].
    - inversion E1; subst; auto.
    - inversion E1; subst; auto.
    - exact (IH G v ps o s HB _ _ E1). }
  destruct HB1 as [HB1 Hl1].
  destruct out as [|e]; [|apply post_ret; split; auto].
  apply post_bind. intros [b|] s2 _; [|apply post_ret; split; auto].
  apply post_bind. intros u s3 Et.
  assert (Ht1 : vn_tab v1 <> None) by (intro Hn; rewrite Hn in Et; discriminate).
  assert (Hi1 : i < length ps1) by lia.
  destruct (vn_cap v1 <=? length (vn_nodes v1 ++ [(i, b)])).
  - apply post_bind. intros [nb|] s4 _; apply post_ret; (split; [apply hb_insert; auto; discriminate | rewrite length_hold; auto]).
  - apply post_ret. split; [apply hb_insert; auto | rewrite length_hold; auto].
Qed.

Arguments get_parameter : simpl never.

Lemma hb_get_parameters : forall l G v ps s, HBv G v ps ->
  post (get_parameters NFixed v ps l) s (fun r _ => HBr G ps r).
Proof.
  induction l as [|i l IH]; intros G v ps s HB; simpl; [apply post_ret; split; auto|].
  apply post_bind. intros [[v1 ps1] out] s1 E1. destruct (hb_get_parameter _ G v ps i s HB _ _ E1) as [HB1 Hl1].
  destruct out as [|e]; [|apply post_ret; split; auto].
  eapply post_weaken; [apply (IH G v1 ps1 s1 HB1)|]. intros [[v2 ps2] o2] s2 [H2 Hl2]. split; auto. congruence.
Qed.

(* ---------------------------------------------------------------- the other calls *)
Lemma hb_add_standard : forall G v ps a s, HBv G v ps ->
  post (add_standard NFixed v ps a) s (fun r _ => HBr G ps r).
Proof.
  intros G v ps a s HB. unfold add_standard.
  destruct (is_bad (a_ok a)); [apply post_ret; split; auto|].
  destruct (negb (forallb (check_parameter (S (length ps)) v ps) (a_prm a))); [apply post_ret; split; auto|].
  apply post_bind. intros [ok mb] s1 _.
  destruct (negb ok); [apply post_bind; intros u s2 _; apply post_ret; split; auto|].
  destruct (is_singular (a_ok a) || is_needfulls (a_ok a)); [apply post_bind; intros u s2 _; apply post_ret; split; auto|].
  apply post_bind. intros [[v1 ps1] out] s2 E2. destruct (hb_get_parameters _ G v ps s1 HB _ _ E2) as [HB1 Hl1].
  destruct out as [|e]; [|apply post_bind; intros u s3 _; apply post_ret; split; auto].
  apply post_bind. intros [ok2 mb2] s3 _.
  destruct (negb ok2); [apply post_bind; intros u s4 _; apply post_ret; split; auto|].
  apply post_bind. intros [ok3 eb] s4 _.
  destruct (negb ok3); [apply post_bind; intros u s5 _; apply post_bind; intros u' s6 _; apply post_ret; split; auto|].
  apply post_ret. split; auto.
Qed.

Lemma hb_new_free : forall G v ps s, HBv G v ps ->
  post (new_free v ps) s (fun ps' _ => (forall j, hcount ps' j = G j) /\ length ps' = length ps).
Proof.
  intros G v ps s [H1 [H2 Hn]]. unfold new_free.
  apply post_bind; intros u1 s1 _. apply post_bind; intros u2 s2 _. apply post_bind; intros u3 s3 _.
  apply post_bind; intros u4 s4 _. apply post_bind; intros u5 s5 _.
  apply post_bind. intros ps' s6 E6.
  assert (Hps : (forall j, hcount ps' j = G j) /\ length ps' = length ps).
  { destruct (vn_tab v) as [t|] eqn:Ht.
    - unfold bind in E6. destruct (frees (map snd (vn_nodes v)) s5) as [[x s7]|]; [|discriminate].
      destruct (free (Some t) s7) as [[y s8]|]; [|discriminate]. inversion E6; subst. split.
      + intro j. rewrite hcount_release_all by exact H2. specialize (H1 j). unfold keys in H1. lia.
      + apply length_release_all.
    - inversion E6; subst. split; auto. intro j. specialize (H1 j). unfold keys in H1. rewrite (Hn eq_refl) in H1. simpl in H1. try rewrite cnt_nil in H1. lia. }
  apply post_bind; intros u7 s7 _. apply post_bind; intros u8 s8 _. apply post_ret. exact Hps.
Qed.

Lemma hb_set_m_error : forall G v ps a s, HBv G v ps ->
  post (set_m_error NFixed v a) s (fun r _ => HBv G (fst r) ps).
Proof.
  intros G v ps a s HB. unfold set_m_error. destruct a as [| | |n|n].
  - apply post_ret; auto.
  - apply post_bind; intros u s1 _. apply post_ret; exact HB.
  - apply post_ret; auto.
  - destruct (negb (vn_fvalid v)); [apply post_ret; auto|].
    apply post_bind; intros ok s1 _. destruct (negb ok); [apply post_ret; auto|].
    apply post_bind. intros r s2 E2.
    assert (Hr : match r with Some v1 => HBv G v1 ps | None => True end).
    { destruct (vn_merr v) as [b|]; [inversion E2; subst; exact HB|].
      unfold bind in E2. destruct (malloc _ s1) as [[[b|] s3]|]; inversion E2; subst; auto. }
    destruct r as [v1|]; [|apply post_ret; auto].
    apply post_bind; intros u s3 _. apply post_ret; exact Hr.
  - destruct (negb (vn_fvalid v)); [apply post_ret; auto|].
    apply post_bind; intros ok s1 _. destruct (negb ok); [apply post_ret; auto|].
    apply post_bind; intros ok2 s2 _. apply post_ret; exact HB.
Qed.

Lemma hb_commit : forall unk freqs ps nf pv s,
  post (commit freqs ps unk nf pv) s (fun r _ => (forall j, hcount (fst r) j = hcount ps j) /\ length (fst r) = length ps).
Proof.
  induction unk as [|u rest IH]; intros freqs ps nf pv s; simpl; [apply post_ret; auto|].
  destruct nf as [|f nf']; [apply post_fail|]. destruct pv as [|g pv']; [apply post_fail|].
  assert (Hu : forall p', pheld p' = pheld (nth u ps pdummy) -> forall j, hcount (upd ps u p') j = hcount ps j).
  { intros p' Hp j. destruct (Nat.ltb_spec u (length ps)).
    - rewrite hcount_upd by auto. destruct (Nat.eq_dec u j) as [->|]; auto.
    - rewrite upd_short by lia. reflexivity. }
  apply post_bind; intros u1 s1 _. apply post_bind; intros fv s2 _. apply post_bind; intros u3 s3 _.
  intros [ps' pv''] s4 E4. destruct (IH freqs _ nf' pv' s3 _ _ E4) as [H1 H2]. simpl in *. split.
  - intro j. rewrite H1. apply Hu; reflexivity.
  - rewrite H2. apply length_upd2.
Qed.

Lemma hb_write_back : forall unk freqs ps pv s,
  post (write_back freqs ps unk pv) s (fun r _ => let '(_, ps', _) := r in (forall j, hcount ps' j = hcount ps j) /\ length ps' = length ps).
Proof.
  intros unk freqs ps pv s. unfold write_back. apply post_bind. intros [ok nf] s1 _.
  destruct (negb ok).
  - apply post_bind; intros u s2 _. apply post_ret; auto.
  - apply post_bind. intros [ps' pv'] s2 E2. destruct (hb_commit _ _ _ _ _ _ _ _ E2) as [H1 H2]. apply post_ret. simpl in *. auto.
Qed.

Lemma HBv_ps : forall G v v' ps ps', HBv G v ps -> keys v' = keys v -> vn_tab v' = vn_tab v -> vn_nodes v' = vn_nodes v ->
  (forall j, hcount ps' j = hcount ps j) -> length ps' = length ps -> HBv G v' ps'.
Proof.
  intros G v v' ps ps' [H1 [H2 H3]] Hk Ht Hn Hh Hl. split; [|split].
  - intro j. rewrite Hh, Hk. apply H1.
  - intros k Hin. rewrite Hl. apply H2. rewrite <- Hk. exact Hin.
  - rewrite Ht, Hn. exact H3.
Qed.

Arguments allocl : simpl never.
Arguments write_back : simpl never.
Arguments commit : simpl never.

Lemma hb_solve : forall G v ps body trl fails s, HBv G v ps ->
  post (solve NFixed v ps body trl fails) s (fun r _ => HBr G ps r).
Proof.
  intros G v ps body trl fails s HB. unfold solve. cbv zeta.
  assert (Hsame : HBr G ps (v, ps, Err ENOMEM)) by (split; auto).
  assert (Hsame' : HBr G ps (v, ps, Err EINVAL)) by (split; auto).
  destruct (negb (vn_fvalid v)); [apply post_ret; split; auto|].
  apply post_bind. intros [ok0 sm0] s0 _. destruct (negb ok0); [apply post_ret; exact Hsame|].
  apply post_bind. intros [ok1 sm] s1 _. destruct (negb ok1); [apply post_bind; intros u s2 _; apply post_ret; exact Hsame|].
  apply post_bind. intros [ok2 sl] s2 _.
  destruct (negb ok2); [apply post_bind; intros u s3 _; apply post_bind; intros u' s4 _; apply post_ret; exact Hsame|].
  apply post_bind. intros [ok3 sp] s3 _.
  destruct (negb ok3); [apply post_bind; intros u s4 _; apply post_ret; exact Hsame|].
  apply post_bind. intros [ok4 cal] s4 _.
  destruct (negb ok4); [apply post_bind; intros u s5 _; apply post_bind; intros u' s6 _; apply post_ret; exact Hsame|].
  apply post_bind. intros [ok5 tb] s5 _.
  destruct (negb ok5); [apply post_bind; intros u s6 _; apply post_bind; intros u' s7 _; apply post_ret; exact Hsame|].
  apply post_bind. intros [ok6 tm] s6 _. apply post_bind; intros u6 s7 _.
  destruct (negb ok6); [apply post_bind; intros u s8 _; apply post_bind; intros u' s9 _; apply post_bind; intros u'' s10 _; apply post_ret; exact Hsame|].
  destruct fails; [apply post_bind; intros u s8 _; apply post_bind; intros u' s9 _; apply post_bind; intros u'' s10 _; apply post_ret; exact Hsame' |].
  apply post_bind. intros [[okw ps'] pv'] s8 E8. destruct (hb_write_back _ _ _ _ _ _ _ E8) as [Hh Hl].
  destruct (negb okw).
  - apply post_bind; intros u s9 _; apply post_bind; intros u' s10 _; apply post_bind; intros u'' s11 _. apply post_ret.
    split; auto. apply (HBv_ps G v v ps ps'); auto.
  - apply post_bind; intros u s9 _; apply post_bind; intros u' s10 _; apply post_bind; intros u'' s11 _. apply post_ret.
    split; auto. apply (HBv_ps G v (set_cal v cal) ps ps'); auto.
Qed.

Lemma hb_new_alloc : forall G c ps s, (forall j, hcount ps j = G j) ->
  post (new_alloc NFixed c ps) s (fun r _ => let '(ov, ps', _) := r in
        match ov with Some v' => HBv G v' ps' | None => forall j, hcount ps' j = G j end /\ length ps' = length ps).
Proof.
  intros G c ps s HG. unfold new_alloc.
  assert (Hfree : forall v ps0 (o : outcome) s0, HBv G v ps0 -> length ps0 = length ps ->
            post (ps' <- new_free v ps0 ;; ret (@None vnew, ps', o)) s0
                 (fun r _ => let '(ov, ps', _) := r in
                    match ov with Some v' => HBv G v' ps' | None => forall j, hcount ps' j = G j end /\ length ps' = length ps)).
  { intros v ps0 o s0 HB Hl. apply post_bind. intros ps' s1 E1. destruct (hb_new_free G v ps0 s0 HB _ _ E1) as [H1 H2].
    apply post_ret. split; auto. congruence. }
  assert (Hempty : forall v, vn_nodes v = [] -> HBv G v ps).
  { intros v Hn. split; [|split; auto].
    - intro j. unfold keys. rewrite Hn. simpl. try rewrite cnt_nil. rewrite HG. lia.
    - intros k Hin. unfold keys in Hin. rewrite Hn in Hin. destruct Hin. }
  destruct (negb (c_valid c)); [apply post_ret; split; auto|].
  apply post_bind. intros [b|] s1 _; [|apply post_ret; split; auto].
  apply post_bind. intros [fb|] s2 _; [|apply Hfree; auto].
  apply post_bind. intros [tb|] s3 _; [|apply Hfree; auto].
  apply post_bind. intros [[v3 ps3] out] s4 E4.
  match type of E4 with get_parameter _ _ ?v2 _ _ _ = _ => destruct (hb_get_parameter _ G v2 ps 0 s3 (Hempty v2 eq_refl) _ _ E4) as [HB3 Hl3] end.
  destruct out as [|e]; [|apply Hfree; auto].
  apply post_bind. intros [sb|] s5 _; [|apply Hfree; auto].
  apply post_ret. split; auto.
Qed.

(* ---------------------------------------------------------------- the ring *)
Definition okeys (o : option vnew) : list nat := match o with Some v => keys v | None => [] end.
Definition HBW (w : world) : Prop :=
  (forall j, hcount (w_prm w) j = cnt j (flat_map okeys (w_new w))) /\
  (forall h v, nth h (w_new w) None = Some v -> (forall k, In k (keys v) -> k < length (w_prm w)) /\ (vn_tab v = None -> vn_nodes v = [])).

Lemma okeys_take : forall news h v j, nth h news None = Some v ->
  cnt j (flat_map okeys news) = cnt j (keys v) + cnt j (flat_map okeys (upd news h None)).
Proof.
  intros news h v j H. pose proof (cnt_flat_upd _ okeys news h None None j (nth_some_lt _ _ _ H)) as E.
  rewrite H in E. change (okeys (Some v)) with (keys v) in E. change (okeys None) with (@nil nat) in E. rewrite cnt_nil in E. lia.
Qed.
Lemma okeys_put : forall news h v o j, nth h news None = Some v ->
  cnt j (flat_map okeys (upd news h o)) = cnt j (okeys o) + cnt j (flat_map okeys (upd news h None)).
Proof.
  intros news h v o j H. pose proof (cnt_flat_upd _ okeys news h o None j (nth_some_lt _ _ _ H)) as E.
  pose proof (okeys_take news h v j H) as E2. rewrite H in E. change (okeys (Some v)) with (keys v) in E. lia.
Qed.

Lemma hbw_take : forall w h v, HBW w -> nth h (w_new w) None = Some v ->
  HBv (fun j => cnt j (flat_map okeys (upd (w_new w) h None))) v (w_prm w).
Proof.
  intros w h v [H1 H2] Hh. destruct (H2 _ _ Hh) as [A B]. split; [|split; auto].
  intro j. rewrite H1. apply okeys_take; auto.
Qed.

Lemma hbw_put : forall w h v v' ps', HBW w -> nth h (w_new w) None = Some v ->
  HBv (fun j => cnt j (flat_map okeys (upd (w_new w) h None))) v' ps' -> length ps' = length (w_prm w) ->
  HBW (put w h (Some v') ps').
Proof.
  intros w h v v' ps' [H1 H2] Hh [A [B C]] Hl. unfold put, HBW; simpl. split.
  - intro j. rewrite A. rewrite (okeys_put _ _ _ (Some v') j Hh). reflexivity.
  - intros h0 v0 H0. destruct (Nat.eq_dec h h0) as [->|Hne].
    + rewrite nth_upd_eq in H0 by (eapply nth_some_lt; eauto). inversion H0; subst. auto.
    + rewrite nth_upd_ne in H0 by auto. destruct (H2 _ _ H0) as [A0 B0]. split; auto. intros k Hin. rewrite Hl. apply A0; auto.
Qed.

Lemma hbw_step : forall w op s, HBW w -> post (wstep NFixed w op) s (fun r _ => HBW (fst r)).
Proof.
  intros w op s HW. pose proof HW as [H1 H2]. destruct op as [c|h|h a|h a|h body trl fails|h]; simpl.
  - apply post_bind. intros [[ov ps'] out] s1 E1.
    destruct (hb_new_alloc (fun j => cnt j (flat_map okeys (w_new w))) c (w_prm w) s H1 _ _ E1) as [A Hl].
    assert (Hold : forall h0 v0, nth h0 (w_new w) None = Some v0 ->
                   (forall k, In k (keys v0) -> k < length ps') /\ (vn_tab v0 = None -> vn_nodes v0 = [])).
    { intros h0 v0 H0. destruct (H2 _ _ H0) as [A0 B0]. split; auto. intros k Hin. rewrite Hl. apply A0; auto. }
    destruct ov as [vn|]; apply post_ret; unfold HBW; simpl.
    + destruct A as [A1 [A2 A3]]. split.
      * intro j. rewrite flat_map_app. simpl. rewrite cnt_app, app_nil_r. rewrite A1. lia.
      * intros h0 v0 H0. destruct (Nat.ltb_spec h0 (length (w_new w))).
        -- rewrite app_nth1 in H0 by auto. apply (Hold h0 v0 H0).
        -- rewrite app_nth2 in H0 by auto. destruct (h0 - length (w_new w)) as [|[|k]]; simpl in H0; try discriminate.
           inversion H0; subst. auto.
    + split; auto.
  - unfold handle. destruct (nth h (w_new w) None) as [v|] eqn:Hh; apply post_ret; simpl; auto.
    apply (hbw_put w h v (set_fvalid v) (w_prm w) HW Hh); auto. apply (hbw_take w h v HW Hh).
  - unfold handle. destruct (nth h (w_new w) None) as [v|] eqn:Hh; [|apply post_ret; simpl; auto].
    apply post_bind. intros [[v' ps'] out] s1 E1.
    destruct (hb_add_standard _ v (w_prm w) a s (hbw_take w h v HW Hh) _ _ E1) as [A Hl].
    apply post_ret. simpl. apply (hbw_put w h v v' ps' HW Hh); auto.
  - unfold handle. destruct (nth h (w_new w) None) as [v|] eqn:Hh; [|apply post_ret; simpl; auto].
    apply post_bind. intros [v' out] s1 E1.
    pose proof (hb_set_m_error _ v (w_prm w) a s (hbw_take w h v HW Hh) _ _ E1) as A. simpl in A.
    apply post_ret. simpl. apply (hbw_put w h v v' (w_prm w) HW Hh); auto.
  - unfold handle. destruct (nth h (w_new w) None) as [v|] eqn:Hh; [|apply post_ret; simpl; auto].
    apply post_bind. intros [[v' ps'] out] s1 E1.
    destruct (hb_solve _ v (w_prm w) body trl fails s (hbw_take w h v HW Hh) _ _ E1) as [A Hl].
    apply post_ret. simpl. apply (hbw_put w h v v' ps' HW Hh); auto.
  - unfold handle. destruct (nth h (w_new w) None) as [v|] eqn:Hh; [|apply post_ret; simpl; auto].
    apply post_bind. intros ps' s1 E1.
    destruct (hb_new_free _ v (w_prm w) s (hbw_take w h v HW Hh) _ _ E1) as [A Hl].
    apply post_ret. unfold put, HBW; simpl. split.
    + intro j. apply A.
    + intros h0 v0 H0. destruct (Nat.eq_dec h h0) as [->|Hne].
      * rewrite nth_upd_eq in H0 by (eapply nth_some_lt; eauto). discriminate.
      * rewrite nth_upd_ne in H0 by auto. destruct (H2 _ _ H0) as [A0 B0]. split; auto. intros k Hin. rewrite Hl. apply A0; auto.
Qed.

Lemma hbw_run : forall ops w s, HBW w -> post (wrun NFixed w ops) s (fun r _ => HBW (fst r)).
Proof.
  induction ops as [|op ops IH]; intros w s HW; simpl; [apply post_ret; exact HW|].
  apply post_bind. intros [w' o] s1 E1. pose proof (hbw_step w op s HW _ _ E1) as HW1. simpl in HW1.
  apply post_bind. intros [w'' os] s2 E2. pose proof (IH w' s1 HW1 _ _ E2) as HW2. simpl in HW2.
  apply post_ret. exact HW2.
Qed.

Lemma hb_free_ring : forall l ps s, (forall j, hcount ps j = cnt j (flat_map okeys l)) ->
  (forall v, In (Some v) l -> (forall k, In k (keys v) -> k < length ps) /\ (vn_tab v = None -> vn_nodes v = [])) ->
  post (free_ring l ps) s (fun ps' _ => forall j, hcount ps' j = 0).
Proof.
  induction l as [|[v|] l IH]; intros ps s Hh Hall; simpl.
  - apply post_ret. intro j. rewrite Hh. apply cnt_nil.
  - apply post_bind. intros ps' s1 E1.
    assert (HB : HBv (fun j => cnt j (flat_map okeys l)) v ps).
    { destruct (Hall v (or_introl eq_refl)) as [A B]. split; [|split; auto]. intro j. rewrite Hh. simpl. rewrite cnt_app. reflexivity. }
    destruct (hb_new_free _ v ps s HB _ _ E1) as [H1 H2].
    apply (IH ps' s1 H1). intros v0 Hin. destruct (Hall v0 (or_intror Hin)) as [A B]. split; auto. intros k Hk. rewrite H2. apply A; auto.
  - apply IH; auto. intros v0 Hin. apply Hall. simpl; auto.
Qed.

Lemma hcount_mkprms : forall ks j, hcount (mkprms ks) j = 0.
Proof.
  intros ks j. unfold hcount, mkprms. destruct (Nat.ltb_spec j (length ks)).
  - rewrite (nth_indep _ pdummy (mkPr KScalar 0 None None 0)) by (rewrite map_length; auto).
    change (mkPr KScalar 0 None None 0) with ((fun k => mkPr k 0 None None 0) KScalar). rewrite map_nth. reflexivity.
  - rewrite nth_overflow by (rewrite map_length; auto). reflexivity.
Qed.

(* the hold balance: after vnacal_free every hold a vnacal_new_t took on a parameter has been given back *)
Theorem new_hold_balance_lemma : forall ks ops k os held s',
  whistory NFixed ks ops (start k) = Ok ((os, held), s') -> forall h, In h held -> h = 0.
Proof.
  intros ks ops k os held s' H. unfold whistory in H.
  assert (HW0 : HBW (mkW (mkprms ks) [])).
  { split; [intro j; cbn [w_prm w_new flat_map]; rewrite hcount_mkprms, cnt_nil; reflexivity | intros h v Hh; cbn [w_new] in Hh; destruct h; discriminate]. }
  unfold bind in H. destruct (wrun NFixed (mkW (mkprms ks) []) ops (start k)) as [[[w os0] s1]|] eqn:E1; [|discriminate].
  pose proof (hbw_run ops _ _ HW0 _ _ E1) as [H1 H2]. simpl in H1, H2.
  unfold wfinish, bind in H.
  destruct (free_ring (w_new w) (w_prm w) s1) as [[ps' s2]|] eqn:E2; [|discriminate].
  assert (Hz : forall j, hcount ps' j = 0).
  { apply (hb_free_ring (w_new w) (w_prm w) s1 H1) with (a := ps') (s' := s2); auto.
    intros v Hin. destruct (In_nth _ _ None Hin) as [h [_ Hh]]. apply (H2 h v Hh). }
  destruct (free_prms ps' s2) as [[u s3]|]; [|discriminate]. unfold ret in H. inversion H; subst.
  intros h Hin. apply in_map_iff in Hin. destruct Hin as [p [Hp Hin]]. destruct (In_nth _ _ pdummy Hin) as [j [_ Hj]].
  specialize (Hz j). unfold hcount in Hz. rewrite Hj in Hz. congruence.
Qed.

(* no leak, without condition *)
Theorem new_no_leak_full_lemma : forall ks ops k os held s', cfg_ok ks ->
  whistory NFixed ks ops (start k) = Ok ((os, held), s') -> live s' = [] /\ forall h, In h held -> h = 0.
Proof.
  intros ks ops k os held s' Hk H. pose proof (new_hold_balance_lemma ks ops k os held s' H) as Hb.
  split; auto. eapply new_no_leak_lemma; eauto.
Qed.

(* the invariant is met by a reachable world: two calibrations share parameter 3, each holds it once *)
Example hbw_satisfiable : exists w, HBW w /\ hcount (w_prm w) 3 = 2 /\ length (w_new w) = 2.
Proof.
  destruct (wrun NFixed (mkW (mkprms [KScalar; KScalar; KScalar; KScalar]) []) [WNew cfgA; WNew cfgA; WAdd 0 (addA 3); WAdd 1 (addA 3)] (start None))
    as [[[w os] s]|] eqn:E; [|vm_compute in E; discriminate].
  assert (HW0 : HBW (mkW (mkprms [KScalar; KScalar; KScalar; KScalar]) [])).
  { split; [intro j; cbn [w_prm w_new flat_map]; rewrite hcount_mkprms, cnt_nil; reflexivity | intros h v Hh; cbn [w_new] in Hh; destruct h; discriminate]. }
  pose proof (hbw_run _ _ _ HW0 _ _ E) as HW. simpl in HW.
  exists w. split; [exact HW|]. vm_compute in E. inversion E; subst. vm_compute. auto.
Qed.

(* every world a history reaches satisfies the hold invariant ... *)
Theorem hbw_reachable : forall ks ops k w os s, wrun NFixed (mkW (mkprms ks) []) ops (start k) = Ok ((w, os), s) -> HBW w.
Proof.
  intros ks ops k w os s E.
  assert (HW0 : HBW (mkW (mkprms ks) [])).
  { split; [intro j; cbn [w_prm w_new flat_map]; rewrite hcount_mkprms, cnt_nil; reflexivity | intros h v Hh; cbn [w_new] in Hh; destruct h; discriminate]. }
  exact (hbw_run ops _ _ HW0 _ _ E).
Qed.

(* ... in which no release can underflow: a calibration never holds a parameter more often than the parameter records
   (the model's [release] is [pred], the C code asserts vpmr_hold_count > 0: the assertion cannot fire, the saturation is never used) *)
Theorem release_no_underflow : forall w h v, HBW w -> nth h (w_new w) None = Some v ->
  forall j, cnt j (keys v) <= hcount (w_prm w) j.
Proof.
  intros w h v HW Hh j. destruct (hbw_take w h v HW Hh) as [H1 _]. rewrite H1. lia.
Qed.

(* ---------------------------------------------------------------- vnacal_new_solve is atomic (DI92) *)
Lemma wb_fail_same : forall unk freqs ps pv s,
  post (write_back freqs ps unk pv) s (fun r _ => let '(ok, ps', pv') := r in ok = false -> ps' = ps /\ pv' = pv).
Proof.
  intros unk freqs ps pv s. unfold write_back. apply post_bind. intros [ok nf] s1 _.
  destruct (negb ok).
  - apply post_bind; intros u s2 _. apply post_ret; auto.
  - apply post_bind. intros [ps' pv'] s2 _. apply post_ret. simpl. discriminate.
Qed.

(* every outcome of vnacal_new_solve other than success - a refused call, any failing request incl. those of the write-back, a kernel
   that gives up - leaves the vnacal_new_t and every parameter (holds, frequency and gamma vectors) exactly as they were *)
Lemma solve_atomic_lemma : forall v ps body trl fails s,
  post (solve NFixed v ps body trl fails) s (fun r _ => let '(v', ps', out) := r in out <> Done -> v' = v /\ ps' = ps).
Proof.
  intros v ps body trl fails s. unfold solve. cbv zeta.
  assert (Hsame : forall e, (let '(v', ps', out) := (v, ps, Err e) in out <> Done -> v' = v /\ ps' = ps)) by (intros e _; auto).
  destruct (negb (vn_fvalid v)); [apply post_ret; apply Hsame|].
  apply post_bind. intros [ok0 sm0] s0 _. destruct (negb ok0); [apply post_ret; apply Hsame|].
  apply post_bind. intros [ok1 sm] s1 _. destruct (negb ok1); [apply post_bind; intros u s2 _; apply post_ret; apply Hsame|].
  apply post_bind. intros [ok2 sl] s2 _.
  destruct (negb ok2); [apply post_bind; intros u s3 _; apply post_bind; intros u' s4 _; apply post_ret; apply Hsame|].
  apply post_bind. intros [ok3 sp] s3 _.
  destruct (negb ok3); [apply post_bind; intros u s4 _; apply post_ret; apply Hsame|].
  apply post_bind. intros [ok4 cal] s4 _.
  destruct (negb ok4); [apply post_bind; intros u s5 _; apply post_bind; intros u' s6 _; apply post_ret; apply Hsame|].
  apply post_bind. intros [ok5 tb] s5 _.
  destruct (negb ok5); [apply post_bind; intros u s6 _; apply post_bind; intros u' s7 _; apply post_ret; apply Hsame|].
  apply post_bind. intros [ok6 tm] s6 _. apply post_bind; intros u6 s7 _.
  destruct (negb ok6); [apply post_bind; intros u s8 _; apply post_bind; intros u' s9 _; apply post_bind; intros u'' s10 _; apply post_ret; apply Hsame|].
  destruct fails; [apply post_bind; intros u s8 _; apply post_bind; intros u' s9 _; apply post_bind; intros u'' s10 _; apply post_ret; apply Hsame|].
  apply post_bind. intros [[okw ps'] pv'] s8 E8. pose proof (wb_fail_same _ _ _ _ _ _ _ E8) as Hw. simpl in Hw.
  destruct okw; simpl.
  - apply post_bind; intros u s9 _; apply post_bind; intros u' s10 _; apply post_bind; intros u'' s11 _. apply post_ret. intro H; congruence.
  - apply post_bind; intros u s9 _; apply post_bind; intros u' s10 _; apply post_bind; intros u'' s11 _. apply post_ret.
    intros _. destruct (Hw eq_refl) as [H1 _]. auto.
Qed.

Theorem new_solve_atomic_lemma : forall v ps body trl fails s v' ps' out s',
  solve NFixed v ps body trl fails s = Ok ((v', ps', out), s') -> out <> Done -> v' = v /\ ps' = ps.
Proof. intros v ps body trl fails s v' ps' out s' E. exact (solve_atomic_lemma v ps body trl fails s _ _ E). Qed.
