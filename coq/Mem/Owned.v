(* Generic ownership lemmas: a table of cells, each cell owning a list of blocks. *)
Require Import List ZArith Bool Arith Lia.
Import ListNotations.
Require Import LV.Mem.Alloc LV.Mem.PropList.

Lemma NoDup_app_inv' : forall (a b : list block_id), NoDup (a ++ b) ->
  NoDup a /\ NoDup b /\ (forall x, In x a -> ~ In x b).
Proof.
  induction a as [|y a IH]; simpl; intros b H.
  - split; [constructor | split; [assumption | intros x []]].
  - inversion H; subst. destruct (IH b H3) as [Ha [Hb Hd]]. split; [|split; [assumption|]].
    + constructor; auto. intro Hin; apply H2; apply in_or_app; auto.
    + intros x [Hx|Hx]; [subst; intro Hin; apply H2; apply in_or_app; auto | auto].
Qed.

Lemma NoDup_app_intro' : forall (a b : list block_id), NoDup a -> NoDup b ->
  (forall x, In x a -> ~ In x b) -> NoDup (a ++ b).
Proof.
  induction a as [|y a IH]; simpl; intros b Ha Hb Hd; auto.
  inversion Ha; subst. constructor.
  - intro Hin; apply in_app_or in Hin; destruct Hin; auto. eapply Hd; eauto.
  - apply IH; auto.
Qed.

Section Table.
  Variable X : Type.
  Variable kidf : X -> list block_id.
  Variable d : X.
  Hypothesis kid_d : kidf d = [].
  Definition own (l : list X) : list block_id := flat_map kidf l.

  Lemma own_app : forall a b, own (a ++ b) = own a ++ own b.
  Proof. intros; unfold own; apply flat_map_app. Qed.

  Lemma own_repeat_d : forall n, own (repeat d n) = [].
  Proof. induction n; simpl; auto. rewrite kid_d; simpl; assumption. Qed.

  Lemma nth_own_in : forall n l x, In x (kidf (nth n l d)) -> In x (own l).
  Proof.
    intros n l; revert n; induction l; destruct n; simpl; intros x Hx; try (rewrite kid_d in Hx; destruct Hx).
    - apply in_or_app; auto.
    - apply in_or_app; right; eapply IHl; eauto.
  Qed.

  Lemma NoDup_kid_nth' : forall n l, NoDup (own l) -> NoDup (kidf (nth n l d)).
  Proof.
    induction n; destruct l as [|c l]; simpl; intro H; try (rewrite kid_d; constructor).
    - apply NoDup_app_inv' in H; tauto.
    - apply NoDup_app_inv' in H. apply IHn; tauto.
  Qed.

  Lemma own_remove_at : forall n l, (n < length l)%nat -> NoDup (own l) ->
    NoDup (own (remove_at n l)) /\
    (forall x, In x (own (remove_at n l)) <-> In x (own l) /\ ~ In x (kidf (nth n l d))).
  Proof.
    induction n; destruct l as [|c l]; simpl; intros Hn Hnd; try lia.
    - destruct (NoDup_app_inv' _ _ Hnd) as [Hc [Hl Hd]]. split; auto.
      intro x; rewrite in_app_iff; split.
      + intro Hx; split; auto. intro Hc'; eapply Hd; eauto.
      + intros [[Hx|Hx] Hc']; tauto.
    - destruct (NoDup_app_inv' _ _ Hnd) as [Hc [Hl Hd]].
      destruct (IHn l ltac:(lia) Hl) as [Hn1 Hiff]. split.
      + apply NoDup_app_intro'; auto. intros x Hx Hin; apply Hiff in Hin; eapply Hd; eauto; tauto.
      + intro x; rewrite !in_app_iff, Hiff. split.
        * intros [Hx|[Hx Hc']]; auto. split; auto. intro Hc'. eapply Hd; eauto. eapply nth_own_in; eauto.
        * intros [[Hx|Hx] Hc']; auto.
  Qed.

  Lemma own_upd : forall n l c, (n < length l)%nat ->
    forall x, In x (own (upd l n c)) <-> In x (kidf c) \/ In x (own (remove_at n l)).
  Proof.
    induction n; destruct l as [|a l]; simpl; intros c Hn x; try lia.
    - rewrite in_app_iff; tauto.
    - rewrite !in_app_iff. unfold own in IHn. rewrite IHn by lia. tauto.
  Qed.

  Lemma NoDup_own_upd : forall n l c, (n < length l)%nat ->
    NoDup (kidf c) -> NoDup (own (remove_at n l)) -> (forall x, In x (kidf c) -> ~ In x (own (remove_at n l))) ->
    NoDup (own (upd l n c)).
  Proof.
    induction n; destruct l as [|a l]; simpl; intros c Hn Hc Hr Hd; try lia.
    - apply NoDup_app_intro'; auto.
    - destruct (NoDup_app_inv' _ _ Hr) as [Ha [Hr2 Hd2]].
      apply NoDup_app_intro'; auto.
      + apply IHn; auto; [lia|]. intros x Hx Hin; eapply Hd; eauto; apply in_or_app; auto.
      + intros x Hx Hin. apply own_upd in Hin; [|lia]. destruct Hin as [Hin|Hin].
        * eapply Hd; eauto; apply in_or_app; auto.
        * eapply Hd2; eauto.
  Qed.

  (* overwriting an empty cell *)
  Lemma own_remove_empty : forall n l, (n < length l)%nat -> kidf (nth n l d) = [] ->
    forall x, In x (own (remove_at n l)) <-> In x (own l).
  Proof.
    induction n; destruct l as [|a l]; simpl; intros Hn He x; try lia.
    - rewrite He; simpl; tauto.
    - rewrite !in_app_iff. unfold own in IHn. rewrite IHn by (auto; lia). tauto.
  Qed.
End Table.
