(* Proofs about the vnadata allocation-skeleton model. *)
Require Import List ZArith Bool Arith Lia.
Import ListNotations.
Require Import LV.Mem.Alloc LV.Mem.AllocProofs LV.Mem.PropList LV.Mem.PropListProofs LV.Mem.Owned
               LV.Mem.ParamSlots LV.Mem.ParamProofs LV.Mem.DataAlloc.
Open Scope Z_scope.

Definition core (d : vdata) (s : astate) : Prop :=
  wf s /\ NoDup (somes (tbl d)) /\ (forall x, In x (ids s) <-> In x (somes (tbl d))).

Definition same_shape (d d' : vdata) : Prop :=
  perf d' = perf d /\ pal d' = pal d /\ mal d' = mal d /\ fal d' = fal d /\ zcap d' = zcap d /\ dcap d' = dcap d /\
  length (tbl d') = length (tbl d).

Lemma same_shape_refl : forall d, same_shape d d.
Proof. intro d; unfold same_shape; tauto. Qed.

Lemma same_shape_trans : forall a b c, same_shape a b -> same_shape b c -> same_shape a c.
Proof. unfold same_shape; intros a b c H1 H2; intuition congruence. Qed.

Lemma core_ids_eq : forall d s s', core d s -> wf s' -> (forall x, In x (ids s') <-> In x (ids s)) -> core d s'.
Proof.
  intros d s s' [Hw [Hnd Hiff]] Hw' Hi. split; [assumption | split; [assumption|]].
  intro x; rewrite Hi; apply Hiff.
Qed.

(* slot i gets content c (fresh blocks or nothing); the old content of the slot has left the ledger *)
Lemma core_set : forall d s s2 i c,
  core d s -> (i < length (tbl d))%nat -> wf s2 -> NoDup (slotk c) -> (forall x, In x (slotk c) -> ~ In x (ids s)) ->
  (forall x, In x (ids s2) <-> (In x (slotk c) \/ In x (ids s)) /\ ~ In x (slotk (nth i (tbl d) None))) ->
  core (set_tbl d (upd (tbl d) i c)) s2.
Proof.
  intros d s s2 i c [Hw [Hnd Hiff]] Hi Hw2 Hc Hfresh Hi2. unfold core, set_tbl, somes in *; simpl.
  destruct (own_remove_at _ slotk None slotk_none i (tbl d) Hi Hnd) as [Hrn Hriff].
  assert (Hup := own_upd _ slotk i (tbl d) c Hi).
  split; [assumption|]. split.
  - apply (NoDup_own_upd _ slotk); auto. intros x Hx Hin. apply Hriff in Hin. eapply Hfresh; eauto. apply Hiff; tauto.
  - intro x; rewrite Hi2, (Hup x), (Hriff x), Hiff. split.
    + intros [[Hx|Hx] Hno]; auto.
    + intros [Hx|[Hx Hno]]; [|tauto]. split; auto. intro Ho. eapply Hfresh; eauto. apply Hiff.
      eapply (nth_own_in _ slotk None slotk_none); eauto.
Qed.

Lemma slot_live : forall d s i b, core d s -> slot d i = Some b -> In b (ids s).
Proof.
  intros d s i b [_ [_ Hiff]] H. apply Hiff. unfold somes. eapply (nth_own_in _ slotk None slotk_none i).
  unfold slot in H; rewrite H; simpl; auto.
Qed.

Lemma safe_realloc_slot : forall d s i sz, core d s -> (i < length (tbl d))%nat ->
  safe (realloc_slot d i sz) s (fun r s' =>
    core (snd r) s' /\ same_shape d (snd r) /\ (forall j, j <> i -> slot (snd r) j = slot d j) /\
    (fst r = true -> slot (snd r) i <> None) /\ (fst r = false -> snd r = d)).
Proof.
  intros d s i sz HC Hi; unfold realloc_slot. pose proof HC as [Hw [Hnd Hiff]].
  apply safe_bind. eapply safe_weaken; [apply safe_realloc; [assumption | intros b Hb; eapply slot_live; eauto]|].
  intros [b|] s1 [Hw1 H1].
  - destruct H1 as [Hb [Hnb [_ Hi1]]]. apply safe_ret; cbn [fst snd].
    split; [|split; [|split; [|split]]].
    + apply (core_set d s s1 i (Some b)); auto.
      * simpl; repeat constructor; simpl; tauto.
      * simpl; intros x [Hx|[]]; subst; assumption.
      * intro x; rewrite Hi1. unfold slot. destruct (nth i (tbl d) None) as [o|] eqn:Ho; simpl.
        -- assert (Hol : In o (ids s)) by (eapply slot_live; eauto).
           split.
           ++ intros [Hx|[Hx Hne]].
              ** split; [left; left; auto|]. intros [He|[]]. subst. apply Hnb. assumption.
              ** split; [right; auto|]. intros [He|[]]. apply Hne. subst; reflexivity.
           ++ intros [[[Hx|[]]|Hx] Hno].
              ** left; auto.
              ** right; split; auto. intro He; inversion He; subst. apply Hno; auto.
        -- split.
           ++ intros [Hx|[Hx Hne]]; [split; [left; left; auto | tauto] | split; [right; auto | tauto]].
           ++ intros [[[Hx|[]]|Hx] Hno]; [left; auto | right; split; auto; discriminate].
    + unfold same_shape, set_tbl; simpl; rewrite length_upd; tauto.
    + intros j Hj; unfold slot, set_tbl; simpl. apply nth_upd_other; auto.
    + intros _; unfold slot, set_tbl; simpl. rewrite nth_upd_same by assumption; discriminate.
    + discriminate.
  - destruct H1 as [Hids _]. apply safe_ret; cbn [fst snd].
    split; [eapply core_ids_eq; eauto; intro x; rewrite Hids; tauto|].
    split; [apply same_shape_refl|]. split; [auto|]. split; [discriminate | auto].
Qed.

Definition DInv (d : vdata) (s : astate) : Prop :=
  core d s /\ length (tbl d) = (5 + 2 * fal d)%nat /\ (fal d <= dcap d)%nat /\
  (perf d = true -> (fal d <= zcap d)%nat) /\
  ((0 < fal d)%nat -> slot d S_DVEC <> None) /\
  (perf d = true -> (0 < fal d)%nat -> slot d S_ZVV <> None).

Lemma safe_row_access : forall d s a i cap, core d s -> slot d a <> None -> (i < cap)%nat ->
  safe (row_access d a i cap) s (fun _ s' => s' = s).
Proof.
  intros d s a i cap HC Hs Hi; unfold row_access. destruct (slot d a) as [b|] eqn:Hb; [|congruence].
  assert (Hl : is_live b s = true) by (apply is_live_iff; eapply slot_live; eauto).
  exists tt, s; split; auto. unfold bind, touch; rewrite Hl. unfold check_range, range_ok; simpl.
  replace (0 <=? Z.of_nat i) with true by (symmetry; apply Z.leb_le; lia).
  replace (Z.of_nat i + 1 <=? Z.of_nat cap) with true by (symmetry; apply Z.leb_le; lia). reflexivity.
Qed.

Lemma safe_realloc_rows : forall arr cap row sz idx d s,
  core d s ->
  (forall i, In i idx -> (row i < length (tbl d))%nat /\ (i < cap)%nat /\ row i <> arr) ->
  (idx <> [] -> slot d arr <> None) ->
  safe (realloc_rows d arr cap row sz idx) s (fun r s' =>
    core (snd r) s' /\ same_shape d (snd r) /\
    (forall j, (forall i, In i idx -> j <> row i) -> slot (snd r) j = slot d j)).
Proof.
  intros arr cap row sz idx; induction idx as [|i rest IH]; intros d s HC Hidx Harr; simpl.
  - apply safe_ret; simpl. split; [assumption | split; [apply same_shape_refl | auto]].
  - destruct (Hidx i (or_introl eq_refl)) as [Hr [Hc Hne]].
    apply safe_bind. eapply safe_weaken; [apply safe_row_access; [assumption | apply Harr; discriminate | assumption]|].
    intros u s0 Hs0; simpl in Hs0; subst s0.
    apply safe_bind. eapply safe_weaken; [apply safe_realloc_slot; assumption|].
    intros [ok d1] s1 [HC1 [Hsh1 [Hoth1 [Hok1 Hfail1]]]]; cbn [fst snd] in *.
    destruct ok.
    + eapply safe_weaken; [apply IH; [exact HC1 | |]|].
      * intros k Hk. destruct (Hidx k (or_intror Hk)) as [A [B C]]. destruct Hsh1 as [_ [_ [_ [_ [_ [_ Hl]]]]]].
        rewrite Hl; auto.
      * intros _. rewrite Hoth1 by auto. apply Harr; discriminate.
      * intros [ok2 d2] s2 [HC2 [Hsh2 Hoth2]]; cbn [fst snd] in *.
        split; [assumption | split; [eapply same_shape_trans; eauto|]].
        intros j Hj. rewrite Hoth2 by (intros k Hk; apply Hj; right; assumption).
        apply Hoth1. apply Hj; left; reflexivity.
    + apply safe_ret; cbn [fst snd]. split; [assumption | split; [assumption|]].
      intros j Hj. apply Hoth1. apply Hj; left; reflexivity.
Qed.

(* rebuilding the invariant after a loop that only replaced row slots *)
Lemma DInv_after_rows : forall d s d' s',
  DInv d s -> core d' s' -> same_shape d d' -> slot d' S_ZVV = slot d S_ZVV -> slot d' S_DVEC = slot d S_DVEC -> DInv d' s'.
Proof.
  intros d s d' s' [HC [Hl [Hd [Hz [Hdv Hzv]]]]] HC' [E1 [E2 [E3 [E4 [E5 [E6 E7]]]]]] Ez Ed.
  unfold DInv. rewrite E1, E4, E5, E6, E7, Ez, Ed. tauto.
Qed.

Lemma seq_in : forall n i, In i (seq 0 n) -> (i < n)%nat.
Proof. intros n i H; apply in_seq in H; lia. Qed.

Lemma safe_extend_p : forall d s new, DInv d s ->
  safe (extend_p d new) s (fun r s' => DInv (snd r) s').
Proof.
  intros d s new HI; unfold extend_p. pose proof HI as [HC [Hl [Hd [Hz [Hdv Hzv]]]]].
  destruct (Nat.leb_spec new (pal d)); [apply safe_ret; assumption|].
  apply safe_bind. destruct (perf d) eqn:Hp.
  - eapply safe_weaken; [apply (safe_realloc_rows S_ZVV (zcap d) zrow); [assumption | |]|].
    + intros i Hi. apply seq_in in Hi. unfold zrow, S_ZVV. specialize (Hz eq_refl). lia.
    + intros Hne. apply Hzv; auto. destruct (fal d); [simpl in Hne; congruence | lia].
    + intros [ok d'] s' [HC' [Hsh Hoth]]; cbn [fst snd] in *.
      assert (HI' : DInv d' s').
      { eapply DInv_after_rows; eauto; apply Hoth; intros i _; unfold zrow, S_ZVV, S_DVEC; lia. }
      destruct ok; apply safe_ret; cbn [snd]; [|assumption].
      destruct HI' as [A [B [C [D [E F]]]]]. unfold DInv, core, slot in *; simpl in *. tauto.
  - eapply safe_weaken; [apply safe_realloc_slot; [assumption | unfold S_Z0; lia]|].
    intros [ok d'] s' [HC' [Hsh [Hoth _]]]; cbn [fst snd] in *.
    assert (HI' : DInv d' s').
    { eapply DInv_after_rows; eauto; apply Hoth; unfold S_Z0, S_ZVV, S_DVEC; lia. }
    destruct ok; apply safe_ret; cbn [snd]; [|assumption].
    destruct HI' as [A [B [C [D [E F]]]]]. unfold DInv, core, slot in *; simpl in *. tauto.
Qed.

Lemma safe_extend_m : forall d s new, DInv d s ->
  safe (extend_m d new) s (fun r s' => DInv (snd r) s').
Proof.
  intros d s new HI; unfold extend_m. pose proof HI as [HC [Hl [Hd [Hz [Hdv Hzv]]]]].
  destruct (Nat.leb_spec new (mal d)); [apply safe_ret; assumption|].
  apply safe_bind.
  eapply safe_weaken; [apply (safe_realloc_rows S_DVEC (dcap d) drow); [assumption | |]|].
  - intros i Hi. apply seq_in in Hi. unfold drow, S_DVEC. lia.
  - intros Hne. apply Hdv. destruct (fal d); [simpl in Hne; congruence | lia].
  - intros [ok d'] s' [HC' [Hsh Hoth]]; cbn [fst snd] in *.
    assert (HI' : DInv d' s').
    { eapply DInv_after_rows; eauto; apply Hoth; intros i _; unfold drow, S_ZVV, S_DVEC; lia. }
    destruct ok; apply safe_ret; cbn [snd]; [|assumption].
    destruct HI' as [A [B [C [D [E F]]]]]. unfold DInv, core, slot in *; simpl in *. tauto.
Qed.

Lemma safe_opt_calloc : forall (c : bool) d s a i cap sz, core d s ->
  (c = true -> slot d a <> None /\ (i < cap)%nat) ->
  safe (if c then row_access d a i cap ;;; (m <- malloc sz ;; ret (Some m)) else ret None) s
       (fun r s' => wf s' /\
          match r with
          | None => c = false /\ s' = s
          | Some None => c = true /\ forall x, In x (ids s') <-> In x (ids s)
          | Some (Some b) => c = true /\ ~ In b (ids s) /\ (forall x, In x (ids s') <-> x = b \/ In x (ids s))
          end).
Proof.
  intros c d s a i cap sz HC Hc. pose proof HC as [Hw _]. destruct c.
  - destruct (Hc eq_refl) as [Hs Hi].
    apply safe_bind. eapply safe_weaken; [apply safe_row_access; eauto|].
    intros u s0 Hs0; simpl in Hs0; subst s0.
    apply safe_bind. eapply safe_weaken; [apply safe_malloc; assumption|].
    intros [b|] s1 [Hw1 H1]; apply safe_ret; split; auto.
    + destruct H1 as [Hb [Hnb [Hids _]]]. split; auto. split; auto. intro x; rewrite Hids; simpl. split; intros [H|H]; auto.
    + destruct H1 as [Hids _]. split; auto. intro x; rewrite Hids; tauto.
  - apply safe_ret; auto.
Qed.

(* appending the row pair of a new frequency *)
Lemma core_append : forall d s s2 zv dv,
  core d s -> wf s2 -> NoDup (slotk zv ++ slotk dv) ->
  (forall x, In x (slotk zv ++ slotk dv) -> ~ In x (ids s)) ->
  (forall x, In x (ids s2) <-> In x (slotk zv ++ slotk dv) \/ In x (ids s)) ->
  core (mkD (perf d) (pal d) (mal d) (S (fal d)) (zcap d) (dcap d) (tbl d ++ [zv; dv])) s2.
Proof.
  intros d s s2 zv dv [Hw [Hnd Hiff]] Hw2 Hn Hf Hi2. unfold core, somes in *; simpl.
  rewrite own_app. simpl. rewrite app_nil_r.
  split; [assumption|]. split.
  - apply NoDup_app_intro'; auto. intros x Hx Hin. eapply Hf; eauto. apply Hiff; assumption.
  - intro x; rewrite Hi2, Hiff, !in_app_iff. tauto.
Qed.

Definition AInv (d : vdata) (s : astate) (n : nat) : Prop :=
  core d s /\ length (tbl d) = (5 + 2 * fal d)%nat /\ (fal d + n <= dcap d)%nat /\
  (perf d = true -> (fal d + n <= zcap d)%nat) /\
  slot d S_DVEC <> None /\ (perf d = true -> slot d S_ZVV <> None).

Lemma AInv_DInv : forall d s n, AInv d s n -> DInv d s.
Proof.
  intros d s n [HC [Hl [Hd [Hz [Hdv Hzv]]]]]. unfold DInv.
  split; [assumption | split; [assumption | split; [lia | split; [intro H; specialize (Hz H); lia | split; auto]]]].
Qed.

Lemma AInv_ids_eq : forall d s s' n, AInv d s n -> wf s' -> (forall x, In x (ids s') <-> In x (ids s)) -> AInv d s' n.
Proof.
  intros d s s' n [HC R] Hw Hi. split; [eapply core_ids_eq; eauto | exact R].
Qed.

Lemma safe_add_rows : forall n d s, AInv d s n ->
  safe (add_rows Fixed d n) s (fun r s' => DInv (snd r) s').
Proof.
  induction n as [|n IH]; intros d s HA; simpl.
  - apply safe_ret; simpl. eapply AInv_DInv; eauto.
  - pose proof HA as [HC [Hl [Hd [Hz [Hdv Hzv]]]]]. pose proof HC as [Hw [Hnd Hiff]].
    apply safe_bind. eapply safe_weaken; [apply safe_opt_calloc; [exact HC|]|].
    { intro Hc. apply andb_true_iff in Hc. destruct Hc as [Hp _]. split; [apply Hzv; assumption | specialize (Hz Hp); lia]. }
    intros z s1 [Hw1 H1].
    destruct z as [[zb|]|].
    + (* z0 row allocated *)
      destruct H1 as [Hctrue [Hzb Hi1]].
      apply safe_bind.
      assert (Hlive3 : forall a b, slot d a = Some b -> In b (ids s1)) by (intros a b Hb; apply Hi1; right; eapply slot_live; eauto).
      (* the data row *)
      destruct (negb (mal d =? 0)%nat) eqn:Hm.
      * (* row_access + malloc by hand: the ledger is not that of [core d] any more *)
        destruct (slot d S_DVEC) as [dvb|] eqn:Hdvb; [|congruence].
        assert (Hl4 : is_live dvb s1 = true) by (apply is_live_iff; eapply Hlive3; eauto).
        unfold row_access. rewrite Hdvb.
        apply safe_bind. exists tt, s1; split.
        { unfold bind, touch; rewrite Hl4. unfold check_range, range_ok; simpl.
          replace (0 <=? Z.of_nat (fal d)) with true by (symmetry; apply Z.leb_le; lia).
          replace (Z.of_nat (fal d) + 1 <=? Z.of_nat (dcap d)) with true by (symmetry; apply Z.leb_le; lia). reflexivity. }
        apply safe_bind. eapply safe_weaken; [apply safe_malloc; assumption|].
        intros [db|] s2 [Hw2 H2]; apply safe_ret.
        -- destruct H2 as [Hdb [Hndb [Hids2 _]]].
           eapply safe_weaken; [apply IH|intros r s' H; exact H].
           assert (Hne : db <> zb) by (intro; subst; apply Hndb; apply Hi1; left; reflexivity).
           split; [|split; [|split; [|split; [|split]]]]; cbn [perf pal mal fal zcap dcap tbl].
           ++ apply (core_append d s s2 (Some zb) (Some db)); auto.
              ** simpl. repeat constructor; simpl; intuition.
              ** simpl. intros x [Hx|[Hx|[]]]; subst; auto. intro Hin; apply Hndb; apply Hi1; right; assumption.
              ** intro x; rewrite Hids2; simpl. rewrite Hi1. intuition.
           ++ rewrite app_length; simpl; lia.
           ++ lia.
           ++ intro Hp; specialize (Hz Hp); lia.
           ++ unfold slot in *; cbn [tbl]. rewrite app_nth1 by (unfold S_DVEC; lia). rewrite Hdvb; discriminate.
           ++ intro Hp. unfold slot in *; cbn [tbl]. rewrite app_nth1 by (unfold S_ZVV; lia). apply Hzv; assumption.
        -- (* data row failed: the z0 row is released *)
           destruct H2 as [Hids2 _].
           assert (Hzin : In zb (ids s2)) by (rewrite Hids2; apply Hi1; left; reflexivity).
           destruct (perf d) eqn:Hp.
           ++ apply safe_bind. eapply safe_weaken; [apply safe_free; eauto|].
              intros u s3 [Hw3 [_ Hi3]]. apply safe_ret; cbn [snd].
              eapply AInv_DInv. eapply (AInv_ids_eq d s s3 (S n)); eauto.
              intro x; rewrite Hi3, Hids2, Hi1. split; [intros [[Hx|Hx] Hne]; [contradiction | assumption] | intro Hx; split; auto; intro; subst; contradiction].
           ++ simpl in Hctrue; discriminate.
      * (* no data row (m_allocation = 0) *)
        apply safe_ret. eapply safe_weaken; [apply IH|intros r s' H; exact H].
        split; [|split; [|split; [|split; [|split]]]]; cbn [perf pal mal fal zcap dcap tbl].
        -- apply (core_append d s s1 (Some zb) None); auto.
           ++ simpl; repeat constructor; simpl; tauto.
           ++ simpl; intros x [Hx|[]]; subst; assumption.
           ++ intro x; rewrite Hi1; simpl; intuition.
        -- rewrite app_length; simpl; lia.
        -- lia.
        -- intro Hp; specialize (Hz Hp); lia.
        -- unfold slot in *; cbn [tbl]. rewrite app_nth1 by (unfold S_DVEC; lia). assumption.
        -- intro Hp. unfold slot in *; cbn [tbl]. rewrite app_nth1 by (unfold S_ZVV; lia). apply Hzv; assumption.
    + (* calloc of the z0 row failed *)
      destruct H1 as [_ H1]. apply safe_ret; cbn [snd]. eapply AInv_DInv. eapply AInv_ids_eq; eauto.
    + (* no z0 row to allocate *)
      destruct H1 as [Hc Hs1]; subst s1.
      apply safe_bind. eapply safe_weaken; [apply safe_opt_calloc; [exact HC|]|].
      { intros _. split; [assumption | lia]. }
      intros dd s2 [Hw2 H2]. destruct dd as [[db|]|].
      * destruct H2 as [_ [Hndb Hi2]].
        eapply safe_weaken; [apply IH|intros r s' H; exact H].
        split; [|split; [|split; [|split; [|split]]]]; cbn [perf pal mal fal zcap dcap tbl].
        -- apply (core_append d s s2 None (Some db)); auto.
           ++ simpl; repeat constructor; simpl; tauto.
           ++ simpl; intros x [Hx|[]]; subst; assumption.
           ++ intro x; rewrite Hi2; simpl; intuition.
        -- rewrite app_length; simpl; lia.
        -- lia.
        -- intro Hp; specialize (Hz Hp); lia.
        -- unfold slot in *; cbn [tbl]. rewrite app_nth1 by (unfold S_DVEC; lia). assumption.
        -- intro Hp. unfold slot in *; cbn [tbl]. rewrite app_nth1 by (unfold S_ZVV; lia). apply Hzv; assumption.
      * (* data row failed, nothing to release *)
        destruct H2 as [_ H2].
        assert (HA2 : AInv d s2 (S n)) by (eapply AInv_ids_eq; eauto).
        destruct (perf d); [apply safe_bind; exists tt, s2; split; [reflexivity|] |]; apply safe_ret; cbn [snd]; eapply AInv_DInv; eauto.
      * destruct H2 as [_ Hs2]; subst s2.
        eapply safe_weaken; [apply IH|intros r s' H; exact H].
        split; [|split; [|split; [|split; [|split]]]]; cbn [perf pal mal fal zcap dcap tbl].
        -- apply (core_append d s s None None); auto; simpl; try apply NoDup_nil; try tauto; intro x; tauto.
        -- rewrite app_length; simpl; lia.
        -- lia.
        -- intro Hp; specialize (Hz Hp); lia.
        -- unfold slot in *; cbn [tbl]. rewrite app_nth1 by (unfold S_DVEC; lia). assumption.
        -- intro Hp. unfold slot in *; cbn [tbl]. rewrite app_nth1 by (unfold S_ZVV; lia). apply Hzv; assumption.
Qed.

Lemma DInv_rebuild : forall d s d' s',
  DInv d s -> core d' s' -> same_shape d d' ->
  (slot d S_ZVV <> None -> slot d' S_ZVV <> None) -> (slot d S_DVEC <> None -> slot d' S_DVEC <> None) -> DInv d' s'.
Proof.
  intros d s d' s' [HC [Hl [Hd [Hz [Hdv Hzv]]]]] HC' [E1 [E2 [E3 [E4 [E5 [E6 E7]]]]]] Ez Ed.
  unfold DInv. rewrite E1, E4, E5, E6, E7.
  split; [assumption | split; [assumption | split; [assumption | split; [assumption | split; auto]]]].
Qed.

(* changing only the recorded capacities of the row-pointer arrays *)
Lemma DInv_caps : forall d s zc dc, DInv d s -> (fal d <= zc)%nat -> (fal d <= dc)%nat ->
  DInv (mkD (perf d) (pal d) (mal d) (fal d) zc dc (tbl d)) s.
Proof.
  intros d s zc dc [HC [Hl [Hd [Hz [Hdv Hzv]]]]] H1 H2. unfold DInv, core, slot in *; simpl.
  split; [assumption | split; [assumption | split; [lia | split; [intro Hp; lia | split; assumption]]]].
Qed.

Lemma safe_extend_f : forall d s new, DInv d s ->
  safe (extend_f Fixed d new) s (fun r s' => DInv (snd r) s').
Proof.
  intros d s new HI; unfold extend_f.
  destruct (Nat.leb_spec new (fal d)) as [Hle|Hgt]; [apply safe_ret; assumption|].
  (* stage 1: the frequency vector *)
  pose proof HI as [HC [Hl _]].
  apply safe_bind. eapply safe_weaken; [apply safe_realloc_slot; [assumption | unfold S_FVEC; lia]|].
  intros [ok1 d1] s1 [HC1 [Hsh1 [Hoth1 _]]]; cbn [fst snd] in *.
  assert (HI1 : DInv d1 s1).
  { eapply DInv_rebuild; eauto; rewrite Hoth1; auto; unfold S_FVEC, S_ZVV, S_DVEC; lia. }
  destruct ok1; cbn [negb]; [|apply safe_ret; assumption].
  assert (Hfal1 : fal d1 = fal d) by (destruct Hsh1 as [_ [_ [_ [H _]]]]; exact H).
  clear HI HC Hl HC1 Hsh1 Hoth1.
  (* stage 2: the z0 row-pointer array *)
  pose proof HI1 as [HC1 [Hl1 [Hd1 [Hz1 [Hdv1 Hzv1]]]]].
  apply safe_bind.
  apply (safe_weaken _ _ _ (fun r s' => DInv (snd r) s' /\ fal (snd r) = fal d /\
           (fst r = true -> perf (snd r) = true -> (new <= zcap (snd r))%nat /\ slot (snd r) S_ZVV <> None))).
  { destruct (perf d1) eqn:Hp1.
    - apply safe_bind. eapply safe_weaken; [apply safe_realloc_slot; [assumption | unfold S_ZVV; lia]|].
      intros [ok d'] s' [HC' [Hsh' [Hoth' [Hok' Hfail']]]]; cbn [fst snd] in *.
      apply safe_ret; cbn [fst snd]. destruct ok.
      + assert (HI' : DInv d' s').
        { eapply DInv_rebuild; [exact HI1 | assumption | assumption | intros _; apply Hok'; reflexivity|].
          rewrite Hoth'; auto; unfold S_ZVV, S_DVEC; lia. }
        pose proof Hsh' as [Q1 [Q2 [Q3 [Q4 [Q5 [Q6 Q7]]]]]].
        split; [|split].
        * apply (DInv_caps d' s' new (dcap d')) in HI'; [exact HI' | lia | lia].
        * cbn [fal]. congruence.
        * intros _ _. cbn [zcap]. split; [lia|]. unfold slot; cbn [tbl]. apply Hok'; reflexivity.
      + rewrite (Hfail' eq_refl). split; [|split; [assumption | discriminate]].
        destruct HI1 as [_ R]. split; [|exact R]. rewrite <- (Hfail' eq_refl); assumption.
    - apply safe_ret; cbn [fst snd]. split; [assumption | split; [assumption|]]. intros _ Hp; congruence. }
  intros [ok2 d2] s2 [HI2 [Hfal2 Hz2]]; cbn [fst snd] in *.
  destruct ok2; cbn [negb]; [|apply safe_ret; assumption].
  (* stage 3: the data row-pointer array *)
  pose proof HI2 as [HC2 [Hl2 [Hd2 [Hzz2 [Hdv2 Hzv2]]]]].
  apply safe_bind. eapply safe_weaken; [apply safe_realloc_slot; [assumption | unfold S_DVEC; lia]|].
  intros [ok3 d3] s3 [HC3 [Hsh3 [Hoth3 [Hok3 Hfail3]]]]; cbn [fst snd] in *.
  destruct ok3; cbn [negb].
  - pose proof Hsh3 as [Q1 [Q2 [Q3 [Q4 [Q5 [Q6 Q7]]]]]].
    apply safe_add_rows. unfold AInv; cbn [perf pal mal fal zcap dcap tbl].
    split; [|split; [|split; [|split; [|split]]]].
    + destruct HC3 as [A [B C]]. unfold core; simpl. auto.
    + rewrite Q7, Q4. assumption.
    + lia.
    + intro Hp. rewrite Q1 in Hp. destruct (Hz2 eq_refl Hp) as [Hcap _]. rewrite Q5. lia.
    + unfold slot; cbn [tbl]. apply Hok3; reflexivity.
    + intro Hp. rewrite Q1 in Hp. destruct (Hz2 eq_refl Hp) as [_ Hs].
      assert (Hz3 : slot d3 S_ZVV = slot d2 S_ZVV) by (apply Hoth3; unfold S_ZVV, S_DVEC; lia).
      unfold slot in *; cbn [tbl]. rewrite Hz3. exact Hs.
  - apply safe_ret; cbn [snd]. rewrite (Hfail3 eq_refl).
    destruct HI2 as [_ R]. split; [|exact R]. rewrite <- (Hfail3 eq_refl); assumption.
Qed.

Lemma safe_resize : forall d s p m f, DInv d s ->
  safe (resize Fixed d p m f) s (fun r s' => DInv (fst r) s').
Proof.
  intros d s p m f HI; unfold resize.
  destruct ((p <? 0) || (m <? 0) || (f <? 0)); [apply safe_ret; assumption|].
  apply safe_bind. eapply safe_weaken; [apply safe_extend_p; assumption|].
  intros [ok1 d1] s1 HI1; cbn [snd] in HI1. destruct ok1; cbn [negb]; [|apply safe_ret; assumption].
  apply safe_bind. eapply safe_weaken; [apply safe_extend_m; assumption|].
  intros [ok2 d2] s2 HI2; cbn [snd] in HI2. destruct ok2; cbn [negb]; [|apply safe_ret; assumption].
  apply safe_bind. eapply safe_weaken; [apply safe_extend_f; assumption|].
  intros [ok3 d3] s3 HI3; cbn [snd] in HI3. destruct ok3; cbn [negb]; apply safe_ret; assumption.
Qed.

Lemma safe_drun : forall ops d s, DInv d s -> safe (drun Fixed d ops) s (fun r s' => DInv (fst r) s').
Proof.
  induction ops as [|[p m f] ops IH]; intros d s HI; simpl.
  - apply safe_ret; assumption.
  - apply safe_bind. eapply safe_weaken; [apply safe_resize; assumption|].
    intros [d' o] s' HI'; simpl in HI'.
    apply safe_bind. eapply safe_weaken; [apply IH; exact HI'|].
    intros [d'' os] s'' HI''; simpl in *. apply safe_ret; assumption.
Qed.

Lemma somes_snoc : forall l o x, In x (somes (l ++ [o])) <-> In x (somes l) \/ In x (slotk o).
Proof.
  intros l o x. unfold somes. rewrite own_app, in_app_iff. simpl. rewrite app_nil_r. tauto.
Qed.

Lemma somes_rev : forall l x, In x (somes (rev l)) <-> In x (somes l).
Proof.
  induction l as [|o l IH]; simpl; intro x; [tauto|].
  rewrite somes_snoc, IH. unfold somes; simpl. rewrite in_app_iff. tauto.
Qed.

Lemma NoDup_somes_rev : forall l, NoDup (somes l) -> NoDup (somes (rev l)).
Proof.
  induction l as [|o l IH]; simpl; intro H; auto.
  unfold somes in H; simpl in H. destruct (NoDup_app_inv' _ _ H) as [Ho [Hl Hd]].
  unfold somes. rewrite own_app. apply NoDup_app_intro'.
  - apply IH; assumption.
  - simpl. rewrite app_nil_r. assumption.
  - intros x Hx Hin. simpl in Hin. rewrite app_nil_r in Hin. apply (somes_rev l x) in Hx. eapply Hd; eauto.
Qed.

Lemma safe_free_all : forall l s, wf s -> NoDup (somes l) -> (forall x, In x (somes l) -> In x (ids s)) ->
  safe (free_all l) s (fun _ s' => wf s' /\ (forall x, In x (ids s') <-> In x (ids s) /\ ~ In x (somes l))).
Proof.
  induction l as [|o l IH]; intros s Hw Hnd Hin; simpl.
  - apply safe_ret; split; auto. intro x; unfold somes; simpl; tauto.
  - unfold somes in *; simpl in *. destruct (NoDup_app_inv' _ _ Hnd) as [Hc [Hk Hd]].
    apply safe_bind. destruct o as [p|]; simpl in *.
    + eapply safe_weaken; [apply safe_free; [assumption | apply Hin; auto]|].
      intros u s1 [Hw1 [_ Hi1]].
      eapply safe_weaken; [apply IH; [assumption | assumption |]|].
      * intros x Hx; apply Hi1; split; [apply Hin; auto | intro; subst; eapply Hd; eauto; simpl; auto].
      * intros u2 s2 [Hw2 Hi2]; split; auto. intro x; rewrite Hi2, Hi1; simpl. intuition.
    + exists tt, s; split; [reflexivity|].
      eapply safe_weaken; [apply IH; auto|]. intros u2 s2 [Hw2 Hi2]; split; auto.
Qed.

Lemma safe_dfree : forall d s, DInv d s -> safe (dfree d) s (fun _ s' => live s' = []).
Proof.
  intros d s [[Hw [Hnd Hiff]] _]; unfold dfree.
  eapply safe_weaken; [apply safe_free_all; [assumption | apply NoDup_somes_rev; assumption |]|].
  - intros x Hx. apply Hiff. apply somes_rev; assumption.
  - intros u s1 [Hw1 Hi1]. apply ids_nil_live_nil. intros x Hx. apply Hi1 in Hx. destruct Hx as [Hx Hno].
    apply Hno. apply somes_rev. apply Hiff; assumption.
Qed.

Lemma dhistory_safe : forall pf ops k, safe (dhistory Fixed pf ops) (start k) (fun _ s' => live s' = []).
Proof.
  intros pf ops k; unfold dhistory, dnew.
  apply safe_bind. apply safe_bind.
  eapply safe_weaken; [apply safe_malloc; apply wf_start|].
  intros [b|] s1 [Hw1 H1].
  - destruct H1 as [Hb [Hnb [Hids Hf]]]. apply safe_ret.
    assert (HI : DInv (mkD pf 0 0 0 0 0 [Some b; None; None; None; None]) s1).
    { unfold DInv, core, slot, somes; simpl. split; [split; [assumption | split; [repeat constructor; simpl; tauto|]]|].
      - intro x; rewrite Hids; simpl; tauto.
      - split; [reflexivity | split; [lia | split; [intros; lia | split; intros; lia]]]. }
    apply safe_bind. eapply safe_weaken; [apply safe_drun; exact HI|].
    intros [d' os] s2 HI2; simpl in HI2.
    apply safe_bind. eapply safe_weaken; [apply safe_dfree; exact HI2|].
    intros u s3 H3. apply safe_ret; assumption.
  - destruct H1 as [Hids _]. apply safe_ret. apply safe_ret.
    apply ids_nil_live_nil. rewrite Hids; simpl; tauto.
Qed.

Theorem vdata_no_fault_lemma : forall pf ops k f, dhistory Fixed pf ops (start k) <> Fault f.
Proof.
  intros pf ops k f H. destruct (dhistory_safe pf ops k) as [a [s' [He _]]]. rewrite He in H; discriminate.
Qed.

Theorem vdata_no_leak_lemma : forall pf ops k os s',
  dhistory Fixed pf ops (start k) = Ok (os, s') -> live s' = [].
Proof.
  intros pf ops k os s' H. destruct (dhistory_safe pf ops k) as [a [s2 [He Hl]]]. rewrite He in H; inversion H; subst; assumption.
Qed.

Theorem vdata_fault_clean_lemma : forall d s p m f, DInv d s ->
  exists d' o s', resize Fixed d p m f s = Ok ((d', o), s') /\ DInv d' s'.
Proof.
  intros d s p m f HI. destruct (safe_resize d s p m f HI) as [[d' o] [s' [He HI']]]. exists d', o, s'; auto.
Qed.

Lemma vdata_fault_history_lemma : forall pf ops k os s',
  dhistory Fixed pf ops (start (Some k)) = Ok (os, s') -> live s' = [].
Proof. intros pf ops k; exact (vdata_no_leak_lemma pf ops (Some k)). Qed.

Lemma vdata_fault_history_no_fault_lemma : forall pf ops k f, dhistory Fixed pf ops (start (Some k)) <> Fault f.
Proof. intros pf ops k; exact (vdata_no_fault_lemma pf ops (Some k)). Qed.

Example DInv_satisfiable : exists d s, DInv d s /\ fal d = 3%nat /\ pal d = 2%nat /\ perf d = true /\ length (live s) = 10%nat.
Proof.
  assert (HI : DInv (mkD true 0 0 0 0 0 [Some 0%nat; None; None; None; None]) (mkA None [(0%nat, 120)] 1)).
  { unfold DInv, core, slot, somes, wf, ids; simpl.
    split; [split; [split; [repeat constructor; simpl; tauto | intros x [Hx|[]]; subst; lia] | split; [repeat constructor; simpl; tauto | intro x; tauto]]|].
    split; [reflexivity | split; [lia | split; [intros; lia | split; intros; lia]]]. }
  destruct (safe_drun [DResize 2 4 3] _ _ HI) as [[d' os] [s' [He HI']]].
  vm_compute in He. inversion He; subst. eexists; eexists; split; [exact HI'|]. vm_compute; auto.
Qed.

(* D7 as first read: per-frequency z0, p_allocation = 0: the row pointers of new frequencies are
   garbage, the next growth of the port allocation passes them to realloc *)
Theorem vdata_extend_f_orig_refuted_lemma :
  exists ops f, dhistory Orig true ops (start None) = Fault f.
Proof. exists [DResize 0 0 2; DResize 2 0 2], UseAfterFree; vm_compute; reflexivity. Qed.
