(* Lemmas about the ledger and the allocation-fault monad. *)
Require Import List ZArith Bool Arith Lia.
Import ListNotations.
Require Import LV.Mem.Alloc.
Open Scope Z_scope.

(* ---------------------------------------------------------------- the bind lemma (Appendix E) *)
Lemma bind_ok : forall A B (m : M A) (f : A -> M B) s a s',
  m s = Ok (a, s') -> bind m f s = f a s'.
Proof. intros; unfold bind; rewrite H; reflexivity. Qed.

Lemma bind_fault : forall A B (m : M A) (f : A -> M B) s e,
  m s = Fault e -> bind m f s = Fault e.
Proof. intros; unfold bind; rewrite H; reflexivity. Qed.

(* composite operations: either the first part faults, or the second part runs in the state the
   first one left: in particular it sees the remaining fault countdown (k - j after j successes) *)
Lemma bind_inv : forall A B (m : M A) (f : A -> M B) s r,
  bind m f s = r ->
  (exists e, m s = Fault e /\ r = Fault e) \/ (exists a s', m s = Ok (a, s') /\ r = f a s').
Proof.
  intros A B m f s r H; unfold bind in H; destruct (m s) as [[a s']|e].
  - right; eauto.
  - left; eauto.
Qed.

Lemma malloc_countdown : forall sz s k,
  fail_at s = Some (S k) -> exists b s', malloc sz s = Ok (Some b, s') /\ fail_at s' = Some k.
Proof. intros sz s k H; unfold malloc; rewrite H; eexists; eexists; split; reflexivity. Qed.

Lemma malloc_fails_once : forall sz s,
  fail_at s = Some O -> exists s', malloc sz s = Ok (None, s') /\ fail_at s' = None /\ live s' = live s /\ fresh s' = fresh s.
Proof. intros sz s H; unfold malloc; rewrite H; eexists; repeat split. Qed.

Lemma malloc_nofault : forall sz s,
  fail_at s = None -> exists s', malloc sz s = Ok (Some (fresh s), s') /\ fail_at s' = None.
Proof. intros sz s H; unfold malloc; rewrite H; eexists; split; reflexivity. Qed.

(* ---------------------------------------------------------------- well-formed ledgers *)
Definition wf (s : astate) : Prop := NoDup (ids s) /\ forall x, In x (ids s) -> (x < fresh s)%nat.

Lemma wf_start : forall k, wf (start k).
Proof. intro k; split; simpl; [constructor | intros x []]. Qed.

Lemma is_live_iff : forall p s, is_live p s = true <-> In p (ids s).
Proof.
  intros p s; unfold is_live; rewrite existsb_exists; split.
  - intros [x [Hx He]]; apply Nat.eqb_eq in He; subst; assumption.
  - intro H; exists p; split; [assumption | apply Nat.eqb_refl].
Qed.

Lemma ids_drop : forall p l x, In x (map fst (drop p l)) <-> In x (map fst l) /\ x <> p.
Proof.
  intros p l x; unfold drop; rewrite !in_map_iff; split.
  - intros [[b z] [Hb Hin]]; apply filter_In in Hin; destruct Hin as [Hin Hn]; simpl in *; subst.
    split; [exists (x, z); auto | intro; subst; rewrite Nat.eqb_refl in Hn; discriminate].
  - intros [[[b z] [Hb Hin]] Hne]; simpl in *; subst; exists (x, z); split; auto.
    apply filter_In; split; auto; simpl; destruct (Nat.eqb_spec x p); [contradiction | reflexivity].
Qed.

Lemma NoDup_ids_drop : forall p l, NoDup (map fst l) -> NoDup (map fst (drop p l)).
Proof.
  intros p l; induction l as [|[b z] l IH]; simpl; intro H; [constructor|].
  inversion H; subst; destruct (Nat.eqb b p); simpl; auto.
  constructor; auto. intro Hin; apply ids_drop in Hin; tauto.
Qed.

(* what one request does to a well-formed ledger *)
Lemma malloc_spec : forall sz s r s',
  wf s -> malloc sz s = Ok (r, s') ->
  wf s' /\
  match r with
  | Some b => b = fresh s /\ ~ In b (ids s) /\ ids s' = b :: ids s /\ fresh s' = S (fresh s)
  | None => ids s' = ids s /\ fresh s' = fresh s /\ fail_at s = Some O /\ fail_at s' = None
  end.
Proof.
  intros sz s r s' [Hnd Hlt] H; unfold malloc in H.
  assert (Hfr : ~ In (fresh s) (ids s)) by (intro Hin; apply Hlt in Hin; lia).
  destruct (fail_at s) as [[|k]|] eqn:Hf; inversion H; subst; clear H; unfold wf, ids in *; simpl;
    repeat split; auto; try (constructor; auto; fail);
    try (intros x [Hx|Hx]; [subst; lia | apply Hlt in Hx; lia]).
Qed.

Lemma free_spec : forall b s,
  wf s -> In b (ids s) ->
  exists s', free (Some b) s = Ok (tt, s') /\ wf s' /\ fail_at s' = fail_at s /\ fresh s' = fresh s /\
             (forall x, In x (ids s') <-> In x (ids s) /\ x <> b).
Proof.
  intros b s [Hnd Hlt] Hin; unfold free; apply is_live_iff in Hin; rewrite Hin.
  eexists; split; [reflexivity|]; unfold wf, ids in *; simpl.
  split; [split|split; [reflexivity|split; [reflexivity|]]].
  - apply NoDup_ids_drop; assumption.
  - intros x Hx; apply ids_drop in Hx; apply Hlt; tauto.
  - intro x; apply ids_drop.
Qed.

Lemma free_null : forall s, free None s = Ok (tt, s).
Proof. reflexivity. Qed.

Lemma realloc_spec : forall p sz s r s',
  wf s -> (forall b, p = Some b -> In b (ids s)) -> realloc p sz s = Ok (r, s') ->
  wf s' /\
  match r with
  | Some b => b = fresh s /\ ~ In b (ids s) /\ fresh s' = S (fresh s) /\
              (forall x, In x (ids s') <-> x = b \/ (In x (ids s) /\ Some x <> p))
  | None => ids s' = ids s /\ fresh s' = fresh s /\ fail_at s = Some O /\ fail_at s' = None
  end.
Proof.
  intros p sz s r s' Hwf Hp H; destruct p as [b|].
  - unfold realloc in H. assert (Hin : In b (ids s)) by (apply Hp; reflexivity).
    pose proof Hin as Hl; apply is_live_iff in Hl; rewrite Hl in H.
    destruct Hwf as [Hnd Hlt].
    assert (Hfr : ~ In (fresh s) (ids s)) by (intro Hi; apply Hlt in Hi; lia).
    assert (Hiff : forall x, In x (fresh s :: map fst (drop b (live s))) <->
                   x = fresh s \/ (In x (map fst (live s)) /\ Some x <> Some b)).
    { intro x; simpl; rewrite ids_drop; split.
      - intros [Hx|[Hx Hne]]; [left; auto | right; split; auto; intro He; inversion He; auto].
      - intros [Hx|[Hx Hne]]; [left; auto | right; split; auto; intro; subst; apply Hne; reflexivity]. }
    assert (Hwf' : forall fa, wf (mkA fa ((fresh s, sz) :: drop b (live s)) (S (fresh s)))).
    { intro fa; unfold wf, ids; simpl; split.
      - constructor; [intro Hi; apply ids_drop in Hi; unfold ids in Hfr; tauto | apply NoDup_ids_drop; assumption].
      - intros x [Hx|Hx]; [subst; lia | apply ids_drop in Hx; destruct Hx as [Hx _]; apply Hlt in Hx; lia]. }
    destruct (fail_at s) as [[|k]|] eqn:Hf; inversion H; subst; clear H.
    + split; [split; assumption | unfold ids; simpl; auto].
    + split; [apply Hwf' | unfold ids in *; simpl; auto].
    + split; [apply Hwf' | unfold ids in *; simpl; auto].
  - simpl in H. apply malloc_spec in H; auto. destruct H as [Hw H]; split; auto.
    destruct r as [b|]; auto. destruct H as [Hb [Hni [Hids Hfr]]].
    split; [assumption | split; [assumption | split; [assumption|]]].
    intro x; rewrite Hids; simpl; split.
    + intros [Hx|Hx]; [left; auto | right; split; auto; discriminate].
    + intros [Hx|[Hx _]]; [left; auto | right; auto].
Qed.

Lemma ids_nil_live_nil : forall s, (forall x, ~ In x (ids s)) -> live s = [].
Proof.
  intros s H; unfold ids in H; destruct (live s) as [|[b z] l]; auto.
  exfalso; apply (H b); simpl; auto.
Qed.
