(* C11: lemmas about the vnacal_new family, the parameter family, vnadata_convert and the
   clean-up paths that follow a reported failure. *)
Require Import String.
Require Import List ZArith QArith Bool Lia.
Import ListNotations.
Require Import LV.Err.ErrBase LV.Gen.ErrnoGen LV.Err.OrderModel LV.Err.OrderProofs LV.Err.ContractModel
               LV.Err.ContractProofs LV.Err.RefutedModel LV.Err.ContractProofs2 LV.Err.NewModel.
Open Scope Z_scope.

Ltac ifs :=
  repeat match goal with
         | |- context [if ?b then _ else _] => destruct b eqn:?
         end.

(* ------------------------------------------------------------------ vnacal_new_alloc *)
Definition doc_alloc_valid (t r c f : Z) : bool :=
  (1 <=? r) && (1 <=? c) && (0 <=? f) &&
  (if (t =? T8) || (t =? TE10) || (t =? T16) then r <=? c
   else if (t =? U8) || (t =? UE10) || (t =? U16) || (t =? UE14) || (t =? E12) then c <=? r
   else false).

Lemma new_alloc_fail_classified_l : forall t r c f v rp,
  check_new_alloc t r c f = Refuse v rp -> v = VNULL /\ rp = Via USAGE.
Proof. intros t r c f v rp. unfold check_new_alloc. ifs; intro H; inversion H; split; reflexivity. Qed.

Lemma new_alloc_refusal_iff_invalid_l : forall t r c f,
  is_pass (check_new_alloc t r c f) = doc_alloc_valid t r c f.
Proof.
  intros t r c f. unfold check_new_alloc, doc_alloc_valid, T8, U8, TE10, UE10, T16, U16, UE14, E12.
  destruct (Z.ltb_spec r 1), (Z.ltb_spec c 1), (Z.ltb_spec f 0), (Z.leb_spec 1 r), (Z.leb_spec 1 c), (Z.leb_spec 0 f);
    simpl; try lia; try reflexivity.
  destruct (t =? 0), (t =? 2), (t =? 4), (t =? 8), (t =? 1), (t =? 3), (t =? 6), (t =? 5); simpl;
    try reflexivity; rewrite ?Z.gtb_ltb;
    destruct (Z.ltb_spec c r), (Z.ltb_spec r c), (Z.leb_spec r c), (Z.leb_spec c r); simpl; try reflexivity; lia.
Qed.

(* ------------------------------------------------------------------ vnacal_new family *)
Lemma check_add_classified : forall s a v r,
  check_add s a = Refuse v r ->
  v = VM1 /\ (r = Via USAGE \/ (r = Via MATH /\ aa_a a <> None /\ aa_a_singular a = true)).
Proof.
  intros s a v r. unfold check_add, usage1.
  repeat match goal with
         | |- context [if ?b then _ else _] => destruct b eqn:?
         end; intro H; inversion H; subst; split; try reflexivity; try (left; reflexivity).
  right. split; [reflexivity|].
  match goal with H : match aa_a a with _ => _ end = true |- _ => destruct (aa_a a); [split; [discriminate | exact H] | discriminate] end.
Qed.

Lemma new_fail_classified_l : forall h c v r,
  check_new h c = Refuse v r ->
  v = VM1 /\
  callbacks r = match h with None => 0%nat | Some _ => 1%nat end /\
  match h with
  | None => r = Direct E_INVAL
  | Some _ => r = Via USAGE \/ new_math_refusal c r
  end.
Proof.
  intros h c v r. destruct h as [s|]; simpl.
  - destruct c; simpl.
    + unfold check_set_fv, usage1. destruct fv; ifs; intro H; inversion H; subst; repeat split; left; reflexivity.
    + discriminate.
    + intro H. apply check_add_classified in H. destruct H as [Hv [Hr|[Hr [Ha Hs]]]]; subst;
        repeat split; [left; reflexivity | right; simpl; split; assumption].
    + unfold check_set_m_error, usage1. destruct nf, tr; ifs; intro H; inversion H; subst; repeat split; left; reflexivity.
    + unfold check_set_pvalue, check_set_pvalue_with, usage1. ifs; intro H; inversion H; subst; repeat split; left; reflexivity.
    + unfold check_set_et_tolerance, check_set_tolerance_with, usage1. ifs; intro H; inversion H; subst; repeat split; left; reflexivity.
    + unfold check_set_p_tolerance, check_set_tolerance_with, usage1. ifs; intro H; inversion H; subst; repeat split; left; reflexivity.
    + unfold check_set_iteration, usage1. ifs; intro H; inversion H; subst; repeat split; left; reflexivity.
    + unfold check_solve, usage1. destruct (negb (v_fvalid s)).
      * intro H; inversion H; subst; repeat split; left; reflexivity.
      * destruct kernel; intro H; inversion H; subst. repeat split. right. reflexivity.
  - destruct (fst (ncall_handle c)); intro H; inversion H; subst. repeat split.
Qed.

(* errno classes: usage -> EINVAL; singular 'a' -> EDOM; a solve failure -> the class of the
   category the kernel reported (EDOM for VNAERR_MATH) *)
Lemma new_errno_l : forall s c v r,
  check_new (Some s) c = Refuse v r ->
  actual_errno r = E_INVAL \/
  (actual_errno r = E_DOM /\ exists a, c = NAdd a) \/
  (exists k, c = NSolve (Some k) /\ actual_errno r = doc_errno k).
Proof.
  intros s c v r H. apply new_fail_classified_l in H. destruct H as [_ [_ [H|H]]].
  - left. subst. reflexivity.
  - destruct c; simpl in H; try contradiction.
    + destruct r as [e|k]; [contradiction|]. destruct k; try contradiction. right. left. split; [reflexivity | eauto].
    + destruct kernel as [k0|]; [|contradiction]. destruct r as [e|k1]; [contradiction|]. subst.
      right. right. eexists. split; [reflexivity|]. simpl. apply errno_table_l.
Qed.

Lemma check_new_some_no_fault : forall s c, check_new_some s c <> Fault.
Proof.
  intros s c. destruct c; simpl.
  - unfold check_set_fv, usage1. destruct fv; ifs; discriminate.
  - discriminate.
  - unfold check_add, usage1. ifs; discriminate.
  - unfold check_set_m_error, usage1. destruct nf, tr; ifs; discriminate.
  - unfold check_set_pvalue, check_set_pvalue_with, usage1. ifs; discriminate.
  - unfold check_set_et_tolerance, check_set_tolerance_with, usage1. ifs; discriminate.
  - unfold check_set_p_tolerance, check_set_tolerance_with, usage1. ifs; discriminate.
  - unfold check_set_iteration, usage1. ifs; discriminate.
  - unfold check_solve, usage1. destruct (negb (v_fvalid s)); [discriminate|]. destruct kernel; discriminate.
Qed.

(* whatever _vnacal_new_add_common accepts has passed the validation of every parameter *)
Lemma check_add_pass_validated : forall s a,
  check_add s a = Pass -> forallb (check_parameter (v_params s)) (aa_cells a) = true.
Proof.
  intros s a H. unfold check_add, usage1 in H.
  repeat match type of H with
         | (if ?b then _ else _) = Pass =>
             lazymatch b with
             | negb (forallb _ _) => fail
             | _ => destruct b; [discriminate|]
             end
         end.
  destruct (forallb (check_parameter (v_params s)) (aa_cells a)); [reflexivity | discriminate].
Qed.

(* as found: the argument checks of every function of the family precede its first write *)
Lemma new_orders_checks_first_l : forall c, ncall_ordered c = true.
Proof. intro c. destruct c; reflexivity. Qed.

Section NewStepProofs.
  Variable payload : Type.
  Variable work : nobj payload -> ncall -> nobj payload.
  Variable pre : nobj payload -> nobj payload.
  Let nrun := new_run payload work pre.
  Let nstep := new_step payload work pre.

  (* for every function whose generated order has the argument checks before the first write: a call
     refused by an argument check leaves the object - summary, registered parameters, rest - equal *)
  Lemma new_arg_refused_unchanged_l : forall o c o' v r,
    ncall_ordered c = true -> nrun o c = (o', MRefused v r) -> o' = o.
  Proof.
    intros o c o' v r H R. unfold nrun, new_run, new_body in R.
    eapply two_phase_refused_unchanged; eassumption.
  Qed.

  (* "a rejected standard adds nothing", about the tied registration in the order found in the C text:
     when the validation pass precedes the registration loop (gen_add_common_prevalidates) and the
     argument checks precede the first write, EVERY refusal of an add - usage, singular 'a', incomplete
     S - leaves the whole modelled object as it was, and no refusal comes from the registration *)
  Lemma rejected_standard_adds_nothing_l : forall o a v r,
    gen_add_common_prevalidates = true -> gen_check_parameter_recurses = true -> ncall_ordered (NAdd a) = true ->
    snd (nstep o (NAdd a)) = Refuse v r ->
    fst (nstep o (NAdd a)) = o /\ exists v' r', nrun o (NAdd a) = (o, MRefused v' r').
  Proof.
    intros o a v r G GR H. unfold nstep, new_step. fold (nrun o (NAdd a)).
    unfold nrun, new_run, new_body. rewrite H, two_phase_run. unfold arg_check, new_work. cbn [check_new_some].
    pose proof (check_new_some_no_fault (no_sum payload o) (NAdd a)) as NF. cbn [check_new_some] in NF.
    destruct (check_add (no_sum payload o) a) as [|v1 r1|] eqn:E; [|simpl; intros _; split; [reflexivity | eauto] | contradiction].
    pose proof (validated_standard_accepted_l _ _ G GR (check_add_pass_validated _ _ E)) as P.
    destruct (add_standard_current (v_params (no_sum payload o)) (aa_cells a)) as [p' oc].
    simpl in P. subst oc. simpl. discriminate.
  Qed.

  (* link to the decision function *)
  Lemma new_step_outcome_l : forall o c,
    gen_add_common_prevalidates = true -> gen_check_parameter_recurses = true -> ncall_ordered c = true ->
    snd (nstep o c) = check_new_some (no_sum payload o) c.
  Proof.
    intros o c G GR H. unfold nstep, new_step. fold (nrun o c). unfold nrun, new_run, new_body. rewrite H, two_phase_run.
    pose proof (check_new_some_no_fault (no_sum payload o) c) as NF.
    destruct c as [fv rb| |a|e lo hi n fv nf tr s16|x|x|x|n|kernel]; unfold arg_check, new_work; cbn [check_new_some] in *.
    1, 2, 4, 5, 6, 7, 8:
      try reflexivity;
      match goal with |- context [match ?x with Pass => _ | Refuse _ _ => _ | Fault => _ end] =>
        destruct x as [|v1 r1|]; [reflexivity | reflexivity | contradiction] end.
    - (* add *)
      destruct (check_add (no_sum payload o) a) as [|v1 r1|] eqn:E; [|reflexivity | contradiction].
      pose proof (validated_standard_accepted_l _ _ G GR (check_add_pass_validated _ _ E)) as P.
      destruct (add_standard_current (v_params (no_sum payload o)) (aa_cells a)) as [p' oc].
      simpl in P. subst oc. reflexivity.
    - (* solve *)
      unfold check_solve, usage1. destruct (negb (v_fvalid (no_sum payload o))); [reflexivity|].
      destruct kernel; reflexivity.
  Qed.
End NewStepProofs.

(* an accepted frequency vector is free of NaN, non-negative and strictly ascending *)
Inductive ascending : list dval -> Prop :=
| asc_nil : ascending []
| asc_one : forall x, ascending [x]
| asc_cons : forall a b r, dlt a b = true -> ascending (b :: r) -> ascending (a :: b :: r).

Definition nonneg (x : dval) : Prop := exists q, x = Some q /\ (0 <= q)%Q.

Lemma nonneg_of_test : forall x, (dnan x || dlt x d0) = false -> nonneg x.
Proof.
  intros [q|] H; simpl in H; [|discriminate]. exists q. split; [reflexivity|].
  apply negb_false_iff in H. apply Qle_bool_iff in H. exact H.
Qed.

Lemma ascending_of_test : forall l, Forall nonneg l -> adjacent_ge l = false -> ascending l.
Proof.
  induction l as [|a r IH]; intros F H; [constructor|].
  destruct r as [|b r']; [constructor|].
  simpl in H. apply orb_false_iff in H. destruct H as [H1 H2].
  inversion F as [|? ? Fa Fr]; subst. inversion Fr as [|? ? Fb _]; subst.
  destruct Fa as [qa [Ea _]], Fb as [qb [Eb _]]. subst.
  constructor; [|apply IH; assumption].
  unfold dge, dle in H1. simpl. rewrite H1. reflexivity.
Qed.

Lemma set_fv_accepts_only_valid_l : forall s l rb,
  check_set_fv s (Some l) rb = Pass -> Forall nonneg l /\ ascending l /\ ((0 <? v_freqs s) && rb = false).
Proof.
  intros s l rb. unfold check_set_fv, usage1.
  destruct (existsb (fun x => dnan x || dlt x d0) l) eqn:E; [discriminate|].
  destruct (adjacent_ge l) eqn:A; [discriminate|].
  destruct ((0 <? v_freqs s) && rb) eqn:R; [discriminate|]. intros _.
  assert (F : Forall nonneg l).
  { apply Forall_forall. intros x Hx. apply nonneg_of_test.
    destruct (dnan x || dlt x d0) eqn:T; [|reflexivity].
    assert (existsb (fun x => dnan x || dlt x d0) l = true) by (apply existsb_exists; eauto). congruence. }
  repeat split; [exact F | apply ascending_of_test; assumption].
Qed.

Lemma set_fv_null_refused_l : forall s rb, check_set_fv s None rb = Refuse VM1 (Via USAGE).
Proof. reflexivity. Qed.

(* scalar setters: exactly the documented ranges - and NaN when the range test has no isnan (every comparison is false) *)
Lemma set_pvalue_iff_l : forall nan x,
  check_set_pvalue_with nan x = Pass <-> ((nan = false /\ x = None) \/ exists q, x = Some q /\ (0 < q)%Q /\ (q <= 1)%Q).
Proof.
  intros nan [q|]; unfold check_set_pvalue_with, usage1, dle, dgt, dlt, d0, d1, dnan; rewrite ?andb_false_r; simpl.
  - destruct (Qle_bool q 0) eqn:A; simpl.
    + split; [discriminate|]. intros [[_ H]|[q' [E [H1 _]]]]; [discriminate|]. inversion E; subst.
      apply Qle_bool_iff in A. exfalso. apply (Qlt_not_le _ _ H1 A).
    + destruct (Qle_bool q 1) eqn:B; simpl.
      * split; [|reflexivity]. intros _. right. exists q. repeat split.
        -- apply Qnot_le_lt. intro H. apply Qle_bool_iff in H. congruence.
        -- apply Qle_bool_iff. exact B.
      * split; [discriminate|]. intros [[_ H]|[q' [E [_ H2]]]]; [discriminate|]. inversion E; subst.
        apply Qle_bool_iff in H2. congruence.
  - destruct nan; simpl.
    + split; [discriminate|]. intros [[H _]|[q' [E _]]]; discriminate.
    + split; [intros _; left; split; reflexivity | reflexivity].
Qed.

Lemma set_tolerance_iff_l : forall nan x,
  check_set_tolerance_with nan x = Pass <-> ((nan = false /\ x = None) \/ exists q, x = Some q /\ (0 <= q)%Q).
Proof.
  intros nan [q|]; unfold check_set_tolerance_with, usage1, dlt, d0, dnan; rewrite ?andb_false_r; simpl.
  - destruct (Qle_bool 0 q) eqn:A; simpl.
    + split; [|reflexivity]. intros _. right. exists q. split; [reflexivity | apply Qle_bool_iff; exact A].
    + split; [discriminate|]. intros [[_ H]|[q' [E H1]]]; [discriminate|]. inversion E; subst.
      apply Qle_bool_iff in H1. congruence.
  - destruct nan; simpl.
    + split; [discriminate|]. intros [[H _]|[q' [E _]]]; discriminate.
    + split; [intros _; left; split; reflexivity | reflexivity].
Qed.

Lemma set_iteration_iff_l : forall n, check_set_iteration n = Pass <-> 1 <= n.
Proof.
  intros n. unfold check_set_iteration, usage1. destruct (Z.ltb_spec n 1); split; try discriminate; try lia; reflexivity.
Qed.

(* an accepted port map has pairwise distinct entries, all within 1..ports *)
Lemma scan_map_sound : forall P l seen mx,
  scan_map P l seen mx = false -> mx <= P ->
  NoDup l /\ Forall (fun p => 1 <= p <= P) l /\ (forall p, In p l -> ~ In p seen).
Proof.
  induction l as [|p r IH]; intros seen mx H Hm; simpl in *.
  - repeat split; [constructor | constructor | intros p []].
  - destruct (Z.ltb_spec p 1); [discriminate|].
    rewrite Z.gtb_ltb in H. destruct (Z.ltb_spec P (Z.max mx p)); [discriminate|].
    destruct (existsb (Z.eqb p) seen) eqn:E; [discriminate|].
    apply IH in H; [|lia]. destruct H as [ND [F D]].
    assert (Hp : ~ In p seen).
    { intro Hin. assert (existsb (Z.eqb p) seen = true) by (apply existsb_exists; exists p; split; [exact Hin | apply Z.eqb_refl]). congruence. }
    repeat split.
    + constructor; [|exact ND]. intro Hin. apply (D p Hin). left. reflexivity.
    + constructor; [lia | exact F].
    + intros q [Hq|Hq]; [subst; exact Hp|]. intro Hs. apply (D q Hq). right. exact Hs.
Qed.

Lemma add_accepts_only_valid_map_l : forall s a m,
  check_add s a = Pass -> aa_map a = Some m -> 1 <= v_ports s ->
  NoDup m /\ Forall (fun p => 1 <= p <= v_ports s) m /\
  1 <= aa_s_rows a <= v_ports s /\ 1 <= aa_s_cols a <= v_ports s /\
  aa_b_rows a <= v_rows s /\ aa_b_cols a <= v_cols s /\
  forallb (check_parameter (v_params s)) (aa_cells a) = true.
Proof.
  intros s a m. unfold check_add, usage1. intros H Hm HP. rewrite Hm in H.
  destruct (aa_b_null a); [discriminate|].
  destruct ((aa_s_rows a <? 1) || (aa_s_rows a >? v_ports s)) eqn:A1; [discriminate|].
  destruct ((aa_s_cols a <? 1) || (aa_s_cols a >? v_ports s)) eqn:A2; [discriminate|].
  repeat match type of H with
         | (if ?b then _ else _) = Pass =>
             lazymatch b with
             | (aa_b_rows a >? v_rows s) || (aa_b_cols a >? v_cols s) => fail
             | scan_map _ _ _ _ => fail
             | negb (forallb _ _) => fail
             | _ => destruct b; [discriminate|]
             end
         end.
  destruct ((aa_b_rows a >? v_rows s) || (aa_b_cols a >? v_cols s)) eqn:A3; [discriminate|].
  repeat match type of H with
         | (if ?b then _ else _) = Pass =>
             lazymatch b with
             | scan_map _ _ _ _ => fail
             | negb (forallb _ _) => fail
             | _ => destruct b; [discriminate|]
             end
         end.
  destruct (scan_map (v_ports s) m [] 0) eqn:S; [discriminate|].
  destruct (forallb (check_parameter (v_params s)) (aa_cells a)) eqn:C; [|discriminate].
  apply scan_map_sound in S; [|lia]. destruct S as [ND [F _]].
  apply orb_false_iff in A1, A2, A3. destruct A1 as [a1 a2], A2 as [a3 a4], A3 as [a5 a6].
  rewrite Z.gtb_ltb in a2, a4, a5, a6.
  apply Z.ltb_ge in a1, a2, a3, a4, a5, a6.
  repeat split; try assumption; lia.
Qed.

(* ------------------------------------------------------------------ parameter family *)
Lemma param_fail_classified_l : forall h c v r,
  check_param h c = Refuse v r ->
  v = pcall_fval c /\
  r = match h with None => Direct E_INVAL | Some _ => Via USAGE end.
Proof.
  intros h c v r. destruct h as [tb|]; simpl.
  - destruct c; simpl.
    + discriminate.
    + destruct fv; ifs; intro H; inversion H; subst; split; reflexivity.
    + ifs; intro H; inversion H; subst; split; reflexivity.
    + destruct sigma; ifs; intro H; inversion H; subst; split; reflexivity.
    + ifs; intro H; inversion H; subst; split; reflexivity.
    + repeat match goal with
             | |- context [match ?x with _ => _ end] => destruct x
             end; intro HH; inversion HH; subst; split; reflexivity.
  - destruct (fst (pcall_handle c)); intro H; inversion H; subst; split; reflexivity.
Qed.

Lemma check_param_some_no_fault : forall tb c, check_param_some tb c <> Fault.
Proof.
  intros tb c. destruct c; simpl.
  - discriminate.
  - destruct fv; ifs; discriminate.
  - ifs; discriminate.
  - destruct sigma; ifs; discriminate.
  - ifs; discriminate.
  - repeat match goal with
           | |- context [match ?x with _ => _ end] => destruct x
           end; discriminate.
Qed.

(* as found: every function of the parameter family makes its tests before its first write *)
Lemma param_orders_checks_first_l : forall c, checks_first (pcall_order c) = true.
Proof. intro c. destruct c; reflexivity. Qed.

Lemma param_step_spec_l : forall work pre tb c,
  checks_first (pcall_order c) = true ->
  param_step work pre tb c = (match check_param_some tb c with Pass => work tb c | _ => tb end, check_param_some tb c).
Proof.
  intros work pre tb c H. unfold param_step, param_run, param_body. rewrite H, two_phase_run.
  pose proof (check_param_some_no_fault tb c) as NF.
  destruct (check_param_some tb c) as [|v r|]; [reflexivity | reflexivity | contradiction].
Qed.

Lemma param_refused_unchanged_l : forall work pre tb c v r,
  checks_first (pcall_order c) = true ->
  snd (param_step work pre tb c) = Refuse v r -> fst (param_step work pre tb c) = tb.
Proof.
  intros work pre tb c v r H. rewrite (param_step_spec_l work pre tb c H). simpl.
  destruct (check_param_some tb c); [discriminate | reflexivity | reflexivity].
Qed.

(* handles: accepted exactly when they name a live parameter (or, for delete, a predefined one) *)
Lemma param_handle_iff_l : forall tb h,
  (check_param_some tb (PMakeUnknown h) = Pass <-> plive tb h = true) /\
  (check_param_some tb (PDelete h) = Pass <-> (0 <= h < 3 \/ plive tb h = true)).
Proof.
  intros tb h. simpl. split.
  - destruct (plive tb h); split; try discriminate; reflexivity.
  - destruct (Z.leb_spec 0 h) as [L0|L0], (Z.ltb_spec h 3) as [L3|L3]; simpl; destruct (plive tb h);
      split; try discriminate; try reflexivity; try (intros _; auto; left; lia);
      intros [HH|HH]; try lia; try discriminate; reflexivity.
Qed.

(* the value of a vector parameter is given exactly inside the extrapolation band *)
Lemma get_value_range_iff_l : forall tb e h n a b q,
  pslot_at tb h = PVectorP n a b ->
  (check_param_some tb (PGetValue e h (Some q)) = Pass <-> ((1 - e) * a <= q)%Q /\ (q <= (1 + e) * b)%Q).
Proof.
  intros tb e h n a b q Hs. simpl. rewrite Hs. unfold dlt, dgt, dlt, dq.
  destruct (Qle_bool ((1 - e) * a) q) eqn:A; simpl.
  - destruct (Qle_bool q ((1 + e) * b)) eqn:B; simpl.
    + split; [intros _; split; apply Qle_bool_iff; assumption | reflexivity].
    + split; [discriminate|]. intros [_ H]. apply Qle_bool_iff in H. congruence.
  - split; [discriminate|]. intros [H _]. apply Qle_bool_iff in H. congruence.
Qed.

(* ------------------------------------------------------------------ vnadata_convert *)
Lemma convert_fail_classified_l : forall h on nt v r,
  check_convert h on nt = Refuse v r ->
  v = VM1 /\ r = match h with None => Direct E_INVAL | Some _ => Via USAGE end.
Proof.
  intros h on nt v r. destruct h as [s|]; simpl.
  - unfold check_convert_some, usage1. destruct on; [intro H; inversion H; split; reflexivity|].
    destruct ((nt <? 0) || (nt >=? 11)); [intro H; inversion H; split; reflexivity|].
    destruct (conv_req (d_type s) nt) as [[| | |]|]; ifs; intro H; inversion H; split; reflexivity.
  - destruct (fst gen_handle_vnadata_convert); intro H; inversion H; split; reflexivity.
Qed.

Lemma type_cases : forall t, 0 <= t <= 10 ->
  t = 0 \/ t = 1 \/ t = 2 \/ t = 3 \/ t = 4 \/ t = 5 \/ t = 6 \/ t = 7 \/ t = 8 \/ t = 9 \/ t = 10.
Proof. intros; lia. Qed.

Lemma validate_type_range : forall t r c, validate_type t r c = true -> 0 <= t <= 10.
Proof.
  intros t r c. unfold validate_type.
  repeat match goal with
         | |- context [?a =? ?b] => destruct (Z.eqb_spec a b); [intros; lia|]
         end.
  simpl. discriminate.
Qed.

(* for every well-formed object: the conversion is refused exactly when vnadata(3) excludes it *)
Lemma convert_refusal_iff_invalid_l : forall s nt,
  data_inv s -> is_pass (check_convert_some s false nt) = doc_convert_valid s nt.
Proof.
  intros [t r c f z] nt [Hr [Hc [Hf Hv]]]. simpl in *.
  pose proof (validate_type_range _ _ _ Hv) as Ht.
  unfold check_convert_some, doc_convert_valid, usage1. simpl.
  destruct (Z.ltb_spec nt 0) as [N0|N0].
  { simpl. destruct (Z.leb_spec 0 nt); [lia | reflexivity]. }
  rewrite Z.geb_leb. destruct (Z.leb_spec 11 nt) as [N1|N1].
  { simpl. destruct (Z.leb_spec 0 nt), (Z.leb_spec nt 10); simpl; try lia; reflexivity. }
  simpl.
  assert (Hn : 0 <= nt <= 10) by lia.
  unfold validate_type in Hv.
  remember (r =? c) as e1. remember (r =? 2) as e2. remember (c =? 2) as e3.
  remember (r =? 1) as e4. remember (c =? 1) as e5.
  clear Heqe1 Heqe2 Heqe3 Heqe4 Heqe5 Hr Hc Hf.
  destruct (type_cases t Ht) as [E|[E|[E|[E|[E|[E|[E|[E|[E|[E|E]]]]]]]]]]; subst t;
    destruct (type_cases nt Hn) as [E|[E|[E|[E|[E|[E|[E|[E|[E|[E|E]]]]]]]]]]; subst nt;
    vm_compute in Hv; vm_compute;
    destruct e1, e2, e3, e4, e5; try discriminate; reflexivity.
Qed.

(* ------------------------------------------------------------------ clean-up after a report *)
Lemma cleanup_preserves_reported_errno_l : forall e steps,
  Forall (fun st => st = None) steps -> errno_after_cleanup e steps = e.
Proof.
  intros e steps. revert e. induction steps as [|st r IH]; intros e F; simpl; [reflexivity|].
  inversion F; subst. apply IH. assumption.
Qed.

(* ... and only then: the last disturbing call decides *)
Lemma cleanup_last_disturbance_l : forall e steps e' rest,
  Forall (fun st => st = None) rest -> errno_after_cleanup e (steps ++ Some e' :: rest) = e'.
Proof.
  intros e steps e' rest F. unfold errno_after_cleanup. rewrite fold_left_app. simpl.
  apply cleanup_preserves_reported_errno_l. exact F.
Qed.

(* applied to the generated call lists: whatever each call does to errno (effect), as long as every
   call of the benign list leaves it alone - the trusted reading of fclose(3), free(3), libyaml and the
   library's own destructors WHEN THEY SUCCEED - errno on return from each of the four clean-up paths
   is the reported one *)
Lemma cleanup_paths_preserve_errno_l : forall (effect : String.string -> option errno_class),
  (forall c, existsb (String.eqb c) benign_cleanup_calls = true -> effect c = None) ->
  forall p e, In p gen_cleanup_calls -> errno_after_cleanup e (map effect (snd p)) = e.
Proof.
  intros effect B p e Hp. apply cleanup_preserves_reported_errno_l.
  assert (A : all_benign (snd p) = true).
  { assert (F : forallb (fun p => all_benign (snd p)) gen_cleanup_calls = true) by (vm_compute; reflexivity).
    rewrite forallb_forall in F. apply F. exact Hp. }
  unfold all_benign in A. rewrite forallb_forall in A.
  apply Forall_forall. intros st Hst. apply in_map_iff in Hst. destruct Hst as [c [Hc Hin]]. subst st.
  apply B. apply A. exact Hin.
Qed.

(* every call found on the clean-up paths of vnadata_save, vnadata_load, vnacal_save, vnacal_load
   in the C text is one that leaves errno alone when it succeeds, and none of these paths assigns
   errno (the translator refuses that) *)
Lemma cleanup_calls_benign_l : forallb (fun p => all_benign (snd p)) gen_cleanup_calls = true.
Proof. vm_compute. reflexivity. Qed.

Lemma cleanup_sites_l : map fst gen_cleanup_calls =
  ["vnadata_save_common"; "vnacal_save"; "vnacal_load"; "vnadata_load"]%string.
Proof. vm_compute. reflexivity. Qed.

(* ------------------------------------------------------------------ examples *)
Definition ex_cells (hs : list Z) : list pchain := map (flat_cell (fun h => (0 <=? h) && (h <=? 5)) (fun h => h =? 5)) hs.
Definition ex_new0 : newsum := mknew [0] 0 0 0 None.

Example new_examples :
  check_new_alloc T8 2 1 3 = Refuse VNULL (Via USAGE) /\
  check_new_alloc E12 2 1 3 = Pass /\
  check_set_fv (mknsum T8 2 2 3 false false ex_new0) (Some [Some 1%Q; Some 3%Q; Some 2%Q]) false
    = Refuse VM1 (Via USAGE) /\
  check_set_fv (mknsum T8 2 2 3 false false ex_new0) (Some [Some 1%Q; None; Some 2%Q]) false
    = Refuse VM1 (Via USAGE) /\
  check_set_fv (mknsum T8 2 2 3 false false ex_new0) (Some [Some 1%Q; Some 2%Q; Some 3%Q]) false = Pass /\
  (* double reflect on ports 1, 1 *)
  check_add (mknsum T8 2 2 3 true false ex_new0)
    (mkadd false None 2 2 2 2 (Some [1; 1]) (ex_cells [2; 1]) false false) = Refuse VM1 (Via USAGE) /\
  (* an m matrix larger than the calibration (D48) *)
  check_add (mknsum T16 2 2 3 true false ex_new0)
    (mkadd false None 3 2 2 2 (Some [1; 2]) (ex_cells [2; 0; 0; 1]) false false) = Refuse VM1 (Via USAGE) /\
  (* unknown parameter then invalid handle (D17): refused by the validation pass *)
  check_add (mknsum T8 2 2 3 true false ex_new0)
    (mkadd false None 2 2 2 2 (Some [1; 2]) (ex_cells [5; 99]) false false) = Refuse VM1 (Via USAGE) /\
  (* unknown parameter then a correlated parameter whose correlate is too narrow / deleted (seeded C11-4) *)
  check_add (mknsum T8 2 2 3 true false ex_s0)
    (mkadd false None 2 2 2 2 (Some [1; 2]) [ex_u5; ex_c7_narrow] false false) = Refuse VM1 (Via USAGE) /\
  check_add (mknsum T8 2 2 3 true false ex_s0)
    (mkadd false None 2 2 2 2 (Some [1; 2]) [ex_u5; ex_c9_deleted] false false) = Refuse VM1 (Via USAGE) /\
  check_add (mknsum T8 2 2 3 true false ex_s0)
    (mkadd false None 2 2 2 2 (Some [1; 2]) [ex_u5; ex_c11_good] false false) = Pass /\
  check_add (mknsum T8 2 2 3 true false ex_new0)
    (mkadd false None 2 2 2 2 (Some [2; 1]) (ex_cells [2; 1]) false false) = Pass /\
  check_add (mknsum UE14 2 2 3 true false ex_new0)
    (mkadd false (Some (1, 2)) 2 2 2 2 (Some [1; 2]) (ex_cells [2; 1]) true false) = Refuse VM1 (Via MATH) /\
  check_solve (mknsum T8 2 2 3 false false ex_new0) None = Refuse VM1 (Via USAGE) /\
  check_solve (mknsum T8 2 2 3 true false ex_new0) (Some MATH) = Refuse VM1 (Via MATH).
Proof. repeat split; vm_compute; reflexivity. Qed.

Example param_examples :
  let tb := [PScalarP; PScalarP; PScalarP; PScalarP; PVectorP 3 1 3; PUnknownP None None; PFree] in
  check_param (Some tb) (PMakeUnknown 6) = Refuse VM1 (Via USAGE) /\
  check_param (Some tb) (PMakeUnknown 3) = Pass /\
  check_param (Some tb) (PDelete (-1)) = Refuse VM1 (Via USAGE) /\
  check_param (Some tb) (PDelete 1) = Pass /\
  check_param (Some tb) (PGetValue (1#100) 4 (Some 2%Q)) = Pass /\
  check_param (Some tb) (PGetValue (1#100) 4 (Some 10%Q)) = Refuse VHUGE (Via USAGE) /\
  check_param (Some tb) (PGetValue (1#100) 5 (Some 2%Q)) = Refuse VHUGE (Via USAGE) /\
  check_param (Some tb) (PMakeVector 3 (Some [Some 1%Q; Some 1%Q; Some 2%Q]) false) = Refuse VM1 (Via USAGE) /\
  check_param None (PDelete 5) = Refuse VM1 (Direct E_INVAL) /\
  check_convert (Some (mkdsum 1 3 3 2 false)) false 2 = Refuse VM1 (Via USAGE) /\
  check_convert (Some (mkdsum 1 3 3 2 false)) false 10 = Pass.
Proof. repeat split; vm_compute; reflexivity. Qed.
