(* C11: what the variables of the generated contracts (LV.Gen.ContractGen) stand for - one hand-written
   environment per API function over the summary models of NewModel.v / ContractModel.v - the decision
   functions the contracts are proved equal to, the reporter on top of the prologue, and the
   vnacal_new_t settings as a state machine whose steps run the generated contracts (no proofs here).

   An environment is an association list variable name -> value; a name the C function does not
   mention is irrelevant.  "atom:..." variables stand for tests outside the expression grammar of the
   translator (loops over vectors, callees); their meaning is given here from the lists the C code
   reads (or is an oracle argument). *)
Require Import String.
Require Import List ZArith QArith Bool.
Import ListNotations.
Require Import LV.Err.ErrBase LV.Gen.ErrnoGen LV.Err.OrderModel LV.Err.ContractModel LV.Err.RefutedModel LV.Err.NewModel
               LV.Err.New2Base LV.Gen.ContractGen.
Open Scope string_scope.
Open Scope Z_scope.

Definition bval (b : bool) : val := VInt (if b then 1 else 0).
Definition dvalv (d : dval) : val := VDbl d.
Definition lookup (l : list (string * val)) : env :=
  fun s => match find (fun p => String.eqb (fst p) s) l with Some p => snd p | None => VInt 0 end.

(* an object pointer argument: NULL, a pointer to something whose magic number is wrong, the object *)
Inductive handle : Type := HNull | HBad | HOk.
Definition hnull (h : handle) : bool := match h with HNull => true | _ => false end.
Definition hmagic (h : handle) (magic : Z) : Z := match h with HOk => magic | _ => 0 end.
Definition vcp_vars (h : handle) : list (string * val) :=
  [("vcp", VPtr (hnull h)); ("vcp->vc_magic", VInt (hmagic h gen_vc_magic))].
Definition vnp_vars (h : handle) : list (string * val) :=
  [("vnp", VPtr (hnull h)); ("vnp->vn_magic", VInt (hmagic h gen_vn_magic))].

Definition optnull {A} (o : option A) : val := VPtr (match o with None => true | Some _ => false end).

(* does a generated contract test the variable / atom of that name? (which generation of a test the C text has) *)
Fixpoint cexp_mentions (n : string) (c : cexp) : bool :=
  match c with
  | CVar s => String.eqb s n
  | CCmp _ a b | COr a b | CAnd a b => cexp_mentions n a || cexp_mentions n b
  | CTrue a | CNot a => cexp_mentions n a
  | _ => false
  end.
Definition contract_mentions (n : string) (c : list cstep) : bool :=
  existsb (fun s => match s with
                    | SDirect e _ _ | SReport e _ _ | SExit e | SSkip e _ => cexp_mentions n e
                    | _ => false end) c.

(* ------------------------------------------------------------------ vnacal_new_alloc *)
Definition env_new_alloc (h : handle) (t r c f : Z) : env :=
  lookup (vcp_vars h ++ [("type", VInt t); ("m_rows", VInt r); ("m_columns", VInt c); ("frequencies", VInt f)]).

Definition lift (o : outcome) : cout := match o with Refuse v r => CRefused v r | _ => CPass end.

(* ------------------------------------------------------------------ vnacal_new_set_frequency_vector *)
(* fv = the vn_frequencies entries the C code reads; inforce = vn_frequency_vector as it is (the vector given last) *)
Definition dne (a b : dval) : bool :=                    (* C's a != b on doubles *)
  match a, b with Some x, Some y => negb (Qeq_bool x y) | _, _ => true end.
Definition dvec_differs (l inforce : list dval) : bool := existsb (fun p => dne (fst p) (snd p)) (combine l inforce).
Definition env_set_fv (h : handle) (s : nsum) (inforce : list dval) (fv : option (list dval)) (ranges_bad : bool) : env :=
  let l := match fv with Some l => l | None => [] end in
  lookup (vnp_vars h ++
          [("frequency_vector", optnull fv); ("vnp->vn_frequencies", VInt (v_freqs s));
           ("atom:fv_has_nan_or_negative", bval (existsb (fun x => dnan x || dlt x d0) l));
           ("atom:fv_has_nan_inf_or_negative", bval (existsb (fun x => dnan x || dlt x d0) l));   (* no infinities in a dval *)
           ("atom:fv_not_ascending", bval (adjacent_ge l));
           ("atom:parameter_ranges_bad", bval ranges_bad);
           ("atom:fv_changes_under_m_error", bval (v_merror s && dvec_differs l inforce))]).

(* does the C text refuse to change the frequencies under a measurement error model (fix DM90)? *)
Definition gen_fv_tests_m_error : bool :=
  Eval vm_compute in contract_mentions "atom:fv_changes_under_m_error" gen_contract_vnacal_new_set_frequency_vector.
(* check_set_fv of NewModel.v followed by that test *)
Definition check_set_fv2 (guard : bool) (s : nsum) (inforce : list dval) (fv : option (list dval)) (ranges_bad : bool) : outcome :=
  match check_set_fv s fv ranges_bad with
  | Pass => if guard && v_merror s && dvec_differs (match fv with Some l => l | None => [] end) inforce then usage1 else Pass
  | o => o
  end.

(* ------------------------------------------------------------------ scalar setters, set_z0, solve *)
Definition env_dbl (h : handle) (name : string) (x : dval) : env := lookup (vnp_vars h ++ [(name, VDbl x)]).
Definition env_int (h : handle) (name : string) (n : Z) : env := lookup (vnp_vars h ++ [(name, VInt n)]).
Definition env_solve (h : handle) (s : nsum) : env :=
  lookup (vnp_vars h ++ [("vnp->vn_frequencies_valid", bval (v_fvalid s))]).

(* ------------------------------------------------------------------ vnacal_new_set_m_error *)
Record merr_args : Type := mkmerr {
  me_n : Z;                          (* frequencies *)
  me_fv : option (list dval);        (* frequency_vector (me_n entries) *)
  me_nf : option (list dval);        (* sigma_nf_vector *)
  me_tr : option (list dval);        (* sigma_tr_vector *)
  me_narrow : bool;                  (* oracle: frequency_vector[0] > lower || frequency_vector[n-1] < upper *)
  me_s16 : bool                      (* oracle: a standard given so far leaves an S cell unspecified *)
}.
Definition olist {A} (o : option (list A)) : list A := match o with Some l => l | None => [] end.
Definition env_set_m_error (h : handle) (s : nsum) (a : merr_args) : env :=
  lookup (vnp_vars h ++
          [("frequencies", VInt (me_n a)); ("frequency_vector", optnull (me_fv a));
           ("sigma_nf_vector", optnull (me_nf a)); ("sigma_tr_vector", optnull (me_tr a));
           ("vnp->vn_frequencies_valid", bval (v_fvalid s)); ("vnp->vn_frequencies", VInt (v_freqs s));
           ("atom:sigma_nf_has_nonpositive", bval (existsb (fun x => dle x d0) (olist (me_nf a))));
           ("atom:sigma_tr_has_negative", bval (existsb (fun x => dlt x d0) (olist (me_tr a))));
           ("atom:m_error_fv_not_ascending", bval (adjacent_ge (olist (me_fv a))));
           ("atom:m_error_range_too_narrow",
            bval (match me_fv a with Some _ => (0 <? v_freqs s) && me_narrow a | None => false end));
           ("atom:s_matrix_incomplete_16", bval (is_16 (v_type s) && me_s16 a))]).

(* the decision in the order of vnacal_new_set_m_error(3): MExit = both sigma vectors NULL (error model removed) *)
Inductive mdec : Type := MRefuse | MExitD | MPassD.
Definition set_m_error_decision (s : nsum) (a : merr_args) : mdec :=
  if me_n a <? 1 then MRefuse
  else match me_nf a, me_tr a with
  | None, None => MExitD
  | None, Some _ => MRefuse
  | Some nfl, _ =>
      if existsb (fun x => dle x d0) nfl then MRefuse
      else if existsb (fun x => dlt x d0) (olist (me_tr a)) then MRefuse
      else if negb (v_fvalid s) then MRefuse
      else if (match me_fv a with
               | Some l => adjacent_ge l || ((0 <? v_freqs s) && me_narrow a)
               | None => negb (me_n a =? 1) && negb (me_n a =? v_freqs s)
               end) then MRefuse
      else if is_16 (v_type s) && me_s16 a then MRefuse
      else MPassD
  end.
Definition mdec_of (o : cout) : mdec :=
  match o with CRefused _ _ => MRefuse | CExitOk => MExitD | CPass => MPassD end.

(* ------------------------------------------------------------------ vnacal_add_calibration *)
Definition env_add_calibration (hv hn : handle) (other_vcp solved : bool) : env :=
  lookup (vcp_vars hv ++ vnp_vars hn ++
          [("atom:vnp_of_another_vcp", bval other_vcp); ("vnp->vn_calibration", VPtr (negb solved))]).
Definition add_calibration_valid (hn : handle) (other_vcp solved : bool) : bool :=
  match hn with HOk => negb other_vcp && solved | _ => false end.

(* ------------------------------------------------------------------ the calibration table *)
(* vc_calibration_vector: None = free slot, Some c = a calibration *)
Record calsum : Type := mkcal { cs_type : Z; cs_rows : Z; cs_cols : Z; cs_freqs : Z }.
Definition caltab := list (option calsum).
Definition cal_at (tb : caltab) (ci : Z) : option calsum :=
  if (ci <? 0) || (ci >=? Z.of_nat (length tb)) then None else nth (Z.to_nat ci) tb None.
Definition table_vars (civar : string) (h : handle) (tb : caltab) (ci : Z) : list (string * val) :=
  vcp_vars h ++
  [(civar, VInt ci); ("vcp->vc_calibration_allocation", VInt (Z.of_nat (length tb)));
   ("atom:slot_empty", bval (match nth (Z.to_nat ci) tb None with None => true | Some _ => false end));
   ("calp->cal_frequencies", VInt (match cal_at tb ci with Some c => cs_freqs c | None => 0 end))].
Definition env_get (h : handle) (tb : caltab) (ci : Z) : env := lookup (table_vars "ci" h tb ci).

(* does the getter need frequency points (vnacal_get_fmin, vnacal_get_fmax)? *)
Definition get_valid (needs_freqs : bool) (tb : caltab) (ci : Z) : bool :=
  match cal_at tb ci with
  | Some c => negb needs_freqs || negb (cs_freqs c =? 0)
  | None => false
  end.
Definition property_ci_valid (tb : caltab) (ci : Z) : bool :=
  (ci =? -1) || match cal_at tb ci with Some _ => true | None => false end.

(* ------------------------------------------------------------------ vnacal_set_fprecision / dprecision *)
Definition env_precision (h : handle) (p : Z) : env := lookup (vcp_vars h ++ [("precision", VInt p)]).
(* does the function test its object pointer first (as found: these two do not; fix DC91 adds the test)? *)
Definition has_handle_test (c : list cstep) : bool :=
  match c with SDirect _ E_INVAL _ :: _ => true | _ => false end.

(* ------------------------------------------------------------------ vnacal_apply / vnacal_apply_m *)
Record apply_args : Type := mkapp {
  ap_ci : Z;
  ap_fv_null : bool;           (* frequency_vector == NULL *)
  ap_n : Z;                    (* frequencies *)
  ap_fv_nan : bool;            (* oracle: some entry of the frequency vector is NaN *)
  ap_not_ascending : bool;     (* oracle over the vector *)
  ap_below : bool; ap_above : bool;   (* oracles: first frequency below / last above the bounds of the calibration *)
  ap_b_null : bool; ap_b_rows : Z; ap_b_cols : Z; ap_b_null_cell : bool;
  ap_a : option (Z * Z);       (* None = no 'a' matrix (always so for vnacal_apply_m: gen_apply_m_a_null) *)
  ap_a_null_cell : bool;
  ap_out_null : bool           (* s_parameters == NULL *)
}.
Definition E12t := 8.
Definition UE14t := 6.
Definition E12_UE14t := 7.
Definition apply_a_rows (c : calsum) : Z :=
  if (cs_type c =? E12t) || (cs_type c =? UE14t) || (cs_type c =? E12_UE14t) then 1 else Z.max (cs_rows c) (cs_cols c).
Definition env_apply (h : handle) (tb : caltab) (a : apply_args) : env :=
  let c := match cal_at tb (ap_ci a) with Some c => c | None => mkcal 0 0 0 0 end in
  let ports := Z.max (cs_rows c) (cs_cols c) in
  lookup (table_vars "vaa.vaa_ci" h tb (ap_ci a) ++
          [("c_rows", VInt (cs_rows c)); ("c_columns", VInt (cs_cols c)); ("c_ports", VInt ports);
           ("vaa.vaa_frequency_vector", VPtr (ap_fv_null a)); ("vaa.vaa_frequencies", VInt (ap_n a));
           ("atom:apply_fv_has_nan", bval (ap_fv_nan a));
           ("atom:apply_fv_not_ascending", bval (ap_not_ascending a));
           ("atom:apply_below_range", bval (ap_below a)); ("atom:apply_above_range", bval (ap_above a));
           ("vaa.vaa_b_matrix", VPtr (ap_b_null a)); ("vaa.vaa_b_rows", VInt (ap_b_rows a)); ("vaa.vaa_b_columns", VInt (ap_b_cols a));
           ("atom:apply_b_has_null_cell", bval (ap_b_null_cell a));
           ("atom:apply_a_dimensions_wrong",
            bval (match ap_a a with Some (ar, ac) => negb (ar =? apply_a_rows c) || negb (ac =? ports) | None => false end));
           ("atom:apply_a_has_null_cell", bval (match ap_a a with Some _ => ap_a_null_cell a | None => false end));
           ("vaa.vaa_s_parameters", VPtr (ap_out_null a))]).

(* vnacal_apply(3): the arguments the manual admits for a calibration c *)
(* nan = the C text tests the frequency vector for NaN (fix DC93) *)
Definition gen_apply_tests_nan : bool :=
  Eval vm_compute in contract_mentions "atom:apply_fv_has_nan" gen_contract_vnacal_apply_common.
Definition apply_valid_with (nan : bool) (tb : caltab) (a : apply_args) : bool :=
  match cal_at tb (ap_ci a) with
  | None => false
  | Some c =>
      let ports := Z.max (cs_rows c) (cs_cols c) in
      ((cs_rows c =? cs_cols c) || (ports =? 2)) &&
      negb (ap_fv_null a) && (0 <=? ap_n a) && negb (nan && ap_fv_nan a) && negb (ap_not_ascending a) &&
      ((ap_n a =? 0) || (negb (cs_freqs c =? 0) && negb (ap_below a) && negb (ap_above a))) &&
      negb (ap_b_null a) && (ap_b_rows a =? ports) && (ap_b_cols a =? ports) && negb (ap_b_null_cell a) &&
      match ap_a a with
      | Some (ar, ac) => (ar =? apply_a_rows c) && (ac =? ports) && negb (ap_a_null_cell a)
      | None => true
      end &&
      negb (ap_out_null a)
  end.

Definition apply_valid : caltab -> apply_args -> bool := apply_valid_with gen_apply_tests_nan.

(* ------------------------------------------------------------------ the reporter on top of the prologue *)
(* the value _vnaerr_verror gives new_errno: the table of the switch, the errno on entry for VNAERR_SYSTEM *)
Definition new_errno (cat : category) (entry : errno_class) : errno_class :=
  match gen_errno_of cat with E_SYS => entry | e => e end.

(* errno and the calls of the error function a call leaves behind when its prologue answers o:
   entry = errno before the call, clob = what the disturbing calls of the reporter leave in errno *)
Definition call_trace (o : cout) (entry : errno_class) (clob : nat -> errno_class) : rstate :=
  match o with
  | CRefused _ (Direct e) => mkr e []
  | CRefused _ (Via cat) => run_effects (new_errno cat entry) cat gen_verror_reported clob 0 (mkr entry [])
  | _ => mkr entry []
  end.

(* every step of a contract has the documented failure value, refuses with EINVAL directly or through
   a VNAERR_USAGE report; silent: no step reports *)
Definition step_classified (fv : fval) (s : cstep) : bool :=
  match s with
  | SDirect _ e v => fval_eqb v fv && errno_eqb e E_INVAL
  | SReport _ cat v => fval_eqb v fv && category_eqb cat USAGE
  | SAlloc v | SLate v => fval_eqb v fv
  | _ => true
  end.
Definition step_silent (s : cstep) : bool := match s with SReport _ _ _ => false | _ => true end.
Definition contract_classified (fv : fval) (c : list cstep) : bool := forallb (step_classified fv) c.
Definition contract_silent (c : list cstep) : bool := forallb step_silent c.

(* the documented silent queries: vnacal(3) "set errno ... but don't invoke the error function" *)
Definition silent_functions : list string :=
  ["_vnacal_get_calibration"; "vnacal_get_name"; "vnacal_get_type"; "vnacal_get_rows"; "vnacal_get_columns";
   "vnacal_get_frequencies"; "vnacal_get_fmin"; "vnacal_get_fmax"; "vnacal_get_frequency_vector"; "vnacal_get_z0";
   "vnacal_get_filename"; "vnacal_get_calibration_end"; "_get_property_root"; "vnacal_property_type";
   "vnacal_property_count"; "vnacal_property_keys"; "vnacal_property_get"; "vnacal_property_set";
   "vnacal_property_delete"; "vnacal_property_get_subtree"; "vnacal_property_set_subtree"].
Definition is_silent_function (f : string) : bool := existsb (String.eqb f) silent_functions.

(* ------------------------------------------------------------------ _vnacal_new_add_common *)
(* the port-map scan with the test that stops it: the port is below 1, the running maximum exceeds the ports of
   the calibration (at index idx: the row test fires for idx < s_rows, the column test otherwise), the port was seen *)
Inductive scode : Type := SBelow | SBound (idx : Z) | SDup.
Fixpoint scan_code (ports : Z) (l : list Z) (seen : list Z) (maxp idx : Z) : option scode :=
  match l with
  | [] => None
  | p :: r =>
      if p <? 1 then Some SBelow
      else let m := Z.max maxp p in
           if m >? ports then Some (SBound idx)
           else if existsb (Z.eqb p) seen then Some SDup
           else scan_code ports r (p :: seen) m (idx + 1)
  end.

(* ptype / min_b_rows / min_b_columns as the switch on the type sets them (gen_add_type_table); a type the switch
   does not list (the C code aborts) gets 0 *)
Definition add_type_row (t : Z) : option (Z * string * string) :=
  match find (fun p => Z.eqb (fst p) t) gen_add_type_table with Some p => Some (snd p) | None => None end.

Definition env_add (s : nsum) (a : addargs) : env :=
  let t := v_type s in
  let P := v_ports s in
  let named (n : string) : Z :=
    if String.eqb n "s_ports" then Z.max (aa_s_rows a) (aa_s_cols a)
    else if String.eqb n "s_rows" then aa_s_rows a
    else if String.eqb n "s_columns" then aa_s_cols a
    else if String.eqb n "full_m_rows" then v_rows s
    else if String.eqb n "full_m_columns" then v_cols s
    else 0 in
  let row := add_type_row t in
  let code := match aa_map a with Some m => scan_code P m [] 0 0 | None => None end in
  lookup [("b_matrix", VPtr (aa_b_null a));
          ("s_rows", VInt (aa_s_rows a)); ("s_columns", VInt (aa_s_cols a));
          ("full_s_rows", VInt P); ("full_s_columns", VInt P); ("full_s_ports", VInt P);
          ("ptype", VInt (match row with Some (p, _, _) => p | None => 0 end));
          ("min_b_rows", VInt (match row with Some (_, r, _) => named r | None => 0 end));
          ("min_b_columns", VInt (match row with Some (_, _, c) => named c | None => 0 end));
          ("VL_TYPE(vlp)", VInt t);
          ("s_port_map", optnull (aa_map a));
          ("b_rows", VInt (aa_b_rows a)); ("b_columns", VInt (aa_b_cols a));
          ("full_m_rows", VInt (v_rows s)); ("full_m_columns", VInt (v_cols s));
          ("a_matrix", optnull (aa_a a));
          ("atom:add_map_port_outside_m",
           bval (match aa_map a with
                 | Some m => existsb (fun p => ((aa_b_rows a <? v_rows s) && (p >? v_rows s)) ||
                                               ((aa_b_cols a <? v_cols s) && (p >? v_cols s))) m
                 | None => false end));
          ("atom:add_a_dimensions_wrong",
           bval (match aa_a a with
                 | Some (ar, ac) => negb (ar =? (if is_ue14 t then 1 else aa_b_cols a)) || negb (ac =? aa_b_cols a)
                 | None => false end));
          ("atom:add_scan_port_below_1", bval (match code with Some SBelow => true | _ => false end));
          ("atom:add_scan_row_bound", bval (match code with Some (SBound i) => i <? aa_s_rows a | _ => false end));
          ("atom:add_scan_column_bound", bval (match code with Some (SBound i) => negb (i <? aa_s_rows a) | _ => false end));
          ("atom:add_scan_duplicate", bval (match code with Some SDup => true | _ => false end));
          ("atom:add_parameter_invalid", bval (negb (forallb (check_parameter (v_params s)) (aa_cells a))));
          ("atom:add_a_matrix_singular", bval (aa_a_singular a));
          ("atom:add_full_s_incomplete_16", bval (v_merror s && is_16 t && aa_s_incomplete a))].

(* the calibration types a vnacal_new_t can have (vnacal_new_alloc stores E12 as _VNACAL_E12_UE14) *)
Definition new_type_ok (t : Z) : bool := (0 <=? t) && (t <=? 7).

(* ------------------------------------------------------------------ doubles with infinities (vector arguments) *)
(* the values a C double can have as far as the validation loops can tell them apart *)
Inductive xd : Type := XNaN | XInf (neg : bool) | XFin (q : Q).
Definition xnan (x : xd) : bool := match x with XNaN => true | _ => false end.
Definition xinf (x : xd) : bool := match x with XInf _ => true | _ => false end.
(* IEEE x < y, x <= y: false when either side is NaN *)
Definition xlt (x y : xd) : bool :=
  match x, y with
  | XNaN, _ | _, XNaN => false
  | XInf true, XInf true => false | XInf true, _ => true
  | _, XInf true => false
  | XInf false, _ => false
  | _, XInf false => true
  | XFin a, XFin b => negb (Qle_bool b a)
  end.
Definition xle (x y : xd) : bool :=
  match x, y with
  | XNaN, _ | _, XNaN => false
  | XInf true, _ => true
  | _, XInf true => false
  | _, XInf false => true
  | XInf false, _ => false
  | XFin a, XFin b => Qle_bool a b
  end.
Definition x0 : xd := XFin 0.
Fixpoint xadjacent_ge (l : list xd) : bool :=       (* l[i] >= l[i+1] for some i *)
  match l with
  | a :: ((b :: _) as r) => xle b a || xadjacent_ge r
  | _ => false
  end.
(* a frequency the manual pages admit: a finite non-negative number *)
Definition xfreq_ok (x : xd) : bool := match x with XFin q => Qle_bool 0 q | _ => false end.
Definition xsigma_pos (x : xd) : bool := match x with XFin q => negb (Qle_bool q 0) | _ => false end.
Definition xsigma_nonneg (x : xd) : bool := match x with XFin q => Qle_bool 0 q | _ => false end.
Fixpoint xascending (l : list xd) : bool :=         (* strictly ascending *)
  match l with
  | a :: ((b :: _) as r) => xlt a b && xascending r
  | _ => true
  end.

(* vnacal_new_set_frequency_vector over such vectors: both generations of the first loop's atom *)
Definition xne (a b : xd) : bool :=
  match a, b with
  | XFin x, XFin y => negb (Qeq_bool x y)
  | XInf n, XInf m => negb (Bool.eqb n m)
  | _, _ => true
  end.
Definition xvec_differs (l inforce : list xd) : bool := existsb (fun p => xne (fst p) (snd p)) (combine l inforce).
Definition env_set_fv_x (h : handle) (s : nsum) (inforce : list xd) (fv : option (list xd)) (ranges_bad : bool) : env :=
  let l := olist fv in
  lookup (vnp_vars h ++
          [("frequency_vector", optnull fv); ("vnp->vn_frequencies", VInt (v_freqs s));
           ("atom:fv_has_nan_or_negative", bval (existsb (fun x => xnan x || xlt x x0) l));
           ("atom:fv_has_nan_inf_or_negative", bval (existsb (fun x => xnan x || xinf x || xlt x x0) l));
           ("atom:fv_not_ascending", bval (xadjacent_ge l));
           ("atom:parameter_ranges_bad", bval ranges_bad);
           ("atom:fv_changes_under_m_error", bval (v_merror s && xvec_differs l inforce))]).
(* vnacal_new(3): "vector of increasing frequencies": finite, non-negative, strictly ascending; "vnacal_new_set_frequency_vector
   must be called before vnacal_new_set_m_error": once an error model is set the frequencies cannot be changed (giving the
   vector in force again changes nothing and is accepted) *)
Definition doc_set_fv (s : nsum) (inforce : list xd) (fv : option (list xd)) (ranges_bad : bool) : cout :=
  match fv with
  | None => CRefused VM1 (Via USAGE)
  | Some l => if forallb xfreq_ok l && xascending l && negb ((0 <? v_freqs s) && ranges_bad) &&
                 negb (v_merror s && xvec_differs l inforce) then CPass
              else CRefused VM1 (Via USAGE)
  end.

(* vnacal_new_set_m_error over such vectors *)
Record merr_xargs : Type := mkmerrx {
  mx_n : Z; mx_fv : option (list xd); mx_nf : option (list xd); mx_tr : option (list xd);
  mx_narrow : bool; mx_s16 : bool
}.
Definition env_set_m_error_x (h : handle) (s : nsum) (a : merr_xargs) : env :=
  let fvl := olist (mx_fv a) in
  let given := match mx_fv a with Some _ => true | None => false end in
  let narrow := given && (0 <? v_freqs s) && mx_narrow a in
  let invalid := existsb (fun x => negb (xfreq_ok x)) fvl in
  lookup (vnp_vars h ++
          [("frequencies", VInt (mx_n a)); ("frequency_vector", optnull (mx_fv a));
           ("sigma_nf_vector", optnull (mx_nf a)); ("sigma_tr_vector", optnull (mx_tr a));
           ("vnp->vn_frequencies_valid", bval (v_fvalid s)); ("vnp->vn_frequencies", VInt (v_freqs s));
           ("atom:sigma_nf_has_nonpositive", bval (existsb (fun x => xle x x0) (olist (mx_nf a))));
           ("atom:sigma_tr_has_negative", bval (existsb (fun x => xlt x x0) (olist (mx_tr a))));
           ("atom:sigma_nf_has_invalid", bval (existsb (fun x => negb (xsigma_pos x)) (olist (mx_nf a))));
           ("atom:sigma_tr_has_invalid", bval (existsb (fun x => negb (xsigma_nonneg x)) (olist (mx_tr a))));
           ("atom:m_error_fv_has_invalid", bval invalid);
           ("atom:m_error_fv_has_invalid_n_gt_1", bval ((1 <? mx_n a) && invalid));
           ("atom:m_error_fv_not_ascending", bval (xadjacent_ge fvl));
           ("atom:m_error_fv_not_ascending_n_gt_1", bval ((1 <? mx_n a) && xadjacent_ge fvl));
           ("atom:m_error_range_too_narrow", bval narrow);
           ("atom:m_error_range_too_narrow_n_gt_1", bval ((1 <? mx_n a) && narrow));
           ("atom:s_matrix_incomplete_16", bval (is_16 (v_type s) && mx_s16 a))]).

(* vnacal_new_set_m_error as vnacal_new(3) describes it - written from the manual page, not from the code:
     frequencies >= 1;  both sigma vectors NULL: the error model is removed;  sigma_nf required when sigma_tr is given;
     noise floor values positive, tracking values non-negative (finite numbers);  the calibration frequencies must have
     been set;  "If frequencies is 1, then frequency_vector is not used" - otherwise, when given, it is a vector of
     finite non-negative ascending frequencies that covers the calibration range, and when NULL frequencies must equal
     the number of calibration frequencies;  T16 / U16: every standard given so far specifies its whole S matrix *)
Definition doc_set_m_error (s : nsum) (a : merr_xargs) : cout :=
  let refuse := CRefused VM1 (Via USAGE) in
  if mx_n a <? 1 then refuse
  else match mx_nf a, mx_tr a with
  | None, None => CExitOk
  | None, Some _ => refuse
  | Some nfl, _ =>
      if negb (forallb xsigma_pos nfl) then refuse
      else if negb (forallb xsigma_nonneg (olist (mx_tr a))) then refuse
      else if negb (v_fvalid s) then refuse
      else if (negb (mx_n a =? 1) &&
               match mx_fv a with
               | Some l => negb (forallb xfreq_ok l) || negb (xascending l) || ((0 <? v_freqs s) && mx_narrow a)
               | None => negb (mx_n a =? v_freqs s)
               end) then refuse
      else if is_16 (v_type s) && mx_s16 a then refuse
      else CPass
  end.

(* which generation of the validation loops the C text has: f92 = NaN / infinite / negative entries are tested (fix DC92),
   f94 = frequency_vector is looked at only when frequencies > 1 (fix DC94) *)
Definition gen_m_error_f92 : bool :=
  Eval vm_compute in contract_mentions "atom:sigma_nf_has_invalid" gen_contract_vnacal_new_set_m_error.
Definition gen_m_error_f94 : bool :=
  Eval vm_compute in contract_mentions "atom:m_error_range_too_narrow_n_gt_1" gen_contract_vnacal_new_set_m_error.
(* the decision as coded, in the order of the C text *)
Definition code_set_m_error (f92 f94 : bool) (s : nsum) (a : merr_xargs) : mdec :=
  if mx_n a <? 1 then MRefuse
  else match mx_nf a, mx_tr a with
  | None, None => MExitD
  | None, Some _ => MRefuse
  | Some nfl, _ =>
      if (if f92 then existsb (fun x => negb (xsigma_pos x)) nfl else existsb (fun x => xle x x0) nfl) then MRefuse
      else if (if f92 then existsb (fun x => negb (xsigma_nonneg x)) (olist (mx_tr a))
               else existsb (fun x => xlt x x0) (olist (mx_tr a))) then MRefuse
      else if negb (v_fvalid s) then MRefuse
      else if (match mx_fv a with
               | Some l => (if f94 then 1 <? mx_n a else true) &&
                           ((f92 && existsb (fun x => negb (xfreq_ok x)) l) || xadjacent_ge l || ((0 <? v_freqs s) && mx_narrow a))
               | None => negb (mx_n a =? 1) && negb (mx_n a =? v_freqs s)
               end) then MRefuse
      else if is_16 (v_type s) && mx_s16 a then MRefuse
      else MPassD
  end.

(* ------------------------------------------------------------------ the settings of a vnacal_new_t as a machine *)
Record n2sum : Type := mkn2 {
  n2_sum : nsum;
  n2_ptol : dval; n2_ettol : dval; n2_iter : Z; n2_pvalue : dval;
  n2_fv : list dval            (* vn_frequency_vector: the vector given last *)
}.
Inductive n2call : Type :=
| N2SetFv (h : handle) (fv : option (list dval)) (ranges_bad : bool)
| N2SetZ0 (h : handle)
| N2SetMError (h : handle) (a : merr_xargs)
| N2SetPTol (h : handle) (x : dval)
| N2SetEtTol (h : handle) (x : dval)
| N2SetIter (h : handle) (n : Z)
| N2SetPvalue (h : handle) (x : dval)
| N2Solve (h : handle) (fails : bool).    (* fails: oracle, a working callee / numeric kernel fails *)

Definition n2_contract (c : n2call) : list cstep :=
  match c with
  | N2SetFv _ _ _ => gen_contract_vnacal_new_set_frequency_vector
  | N2SetZ0 _ => gen_contract_vnacal_new_set_z0
  | N2SetMError _ _ => gen_contract_vnacal_new_set_m_error
  | N2SetPTol _ _ => gen_contract_vnacal_new_set_p_tolerance
  | N2SetEtTol _ _ => gen_contract_vnacal_new_set_et_tolerance
  | N2SetIter _ _ => gen_contract_vnacal_new_set_iteration_limit
  | N2SetPvalue _ _ => gen_contract_vnacal_new_set_pvalue_limit
  | N2Solve _ _ => gen_contract_vnacal_new_solve
  end.
Definition n2_env (c : n2call) (s : n2sum) : env :=
  match c with
  | N2SetFv h fv rb => env_set_fv h (n2_sum s) (n2_fv s) fv rb
  | N2SetZ0 h => env_int h "unused" 0
  | N2SetMError h a => env_set_m_error_x h (n2_sum s) a
  | N2SetPTol h x | N2SetEtTol h x => env_dbl h "tolerance" x
  | N2SetIter h n => env_int h "iterations" n
  | N2SetPvalue h x => env_dbl h "significance" x
  | N2Solve h _ => env_solve h (n2_sum s)
  end.
Definition with_sum (s : n2sum) (f : nsum -> nsum) : n2sum :=
  mkn2 (f (n2_sum s)) (n2_ptol s) (n2_ettol s) (n2_iter s) (n2_pvalue s) (n2_fv s).
Definition set_fvalid (s : nsum) : nsum :=
  mknsum (v_type s) (v_rows s) (v_cols s) (v_freqs s) true (v_merror s) (v_params s).
Definition set_merror (b : bool) (s : nsum) : nsum :=
  mknsum (v_type s) (v_rows s) (v_cols s) (v_freqs s) (v_fvalid s) b (v_params s).
(* what the working steps of the call store (the summary only; vectors are outside it) *)
Definition n2_work (c : n2call) (i : nat) (s : n2sum) : n2sum * bool :=
  match c with
  | N2SetFv _ fv _ => (mkn2 (set_fvalid (n2_sum s)) (n2_ptol s) (n2_ettol s) (n2_iter s) (n2_pvalue s) (olist fv), false)
  | N2SetZ0 _ => (s, false)
  | N2SetMError _ _ => (with_sum s (set_merror true), false)
  | N2SetPTol _ x => (mkn2 (n2_sum s) x (n2_ettol s) (n2_iter s) (n2_pvalue s) (n2_fv s), false)
  | N2SetEtTol _ x => (mkn2 (n2_sum s) (n2_ptol s) x (n2_iter s) (n2_pvalue s) (n2_fv s), false)
  | N2SetIter _ n => (mkn2 (n2_sum s) (n2_ptol s) (n2_ettol s) n (n2_pvalue s) (n2_fv s), false)
  | N2SetPvalue _ x => (mkn2 (n2_sum s) (n2_ptol s) (n2_ettol s) (n2_iter s) x (n2_fv s), false)
  | N2Solve _ fails => (s, fails)         (* the solved calibration is not part of this summary *)
  end.
Definition n2_exit (c : n2call) (s : n2sum) : n2sum :=
  match c with N2SetMError _ _ => with_sum s (set_merror false) | _ => s end.
Definition n2_step (s : n2sum) (c : n2call) : n2sum * sres :=
  srun (n2_env c) (n2_exit c) (n2_work c) O O (n2_contract c) s.

Fixpoint n2_hist (s : n2sum) (ops : list n2call) : n2sum :=
  match ops with [] => s | c :: r => n2_hist (fst (n2_step s c)) r end.

(* what later calls rely on: dimensions of an allocated structure, an iteration count that lets the
   iterative solver run, a p-value limit and tolerances no test of the setters refuses, an error
   model only with a frequency vector *)
Definition n2_inv (s : n2sum) : Prop :=
  1 <= v_rows (n2_sum s) /\ 1 <= v_cols (n2_sum s) /\ 0 <= v_freqs (n2_sum s) /\
  1 <= n2_iter s /\
  dle (n2_pvalue s) d0 = false /\ dgt (n2_pvalue s) d1 = false /\
  dlt (n2_ptol s) d0 = false /\ dlt (n2_ettol s) d0 = false /\
  (v_merror (n2_sum s) = true -> v_fvalid (n2_sum s) = true).


(* ------------------------------------------------------------------ the callback log derived from the steps *)
(* the three paths through _vnaerr_verror: an error function is installed and the message can be formatted; vasprintf
   fails; no error function was given to vnacal_create *)
Inductive rpath : Type := PReported | PFormatFailed | PNoErrorFn.
Definition path_effects (p : rpath) : list veffect :=
  match p with
  | PReported => gen_verror_reported
  | PFormatFailed => gen_verror_format_failed
  | PNoErrorFn => gen_verror_no_error_fn
  end.
Definition path_callbacks (p : rpath) (r : report) : nat :=
  match p with PNoErrorFn => 0%nat | _ => callbacks r end.

(* the prologue with what it leaves in errno and in the log of calls of the error function: an SReport step that fires
   runs the reporter, an SDirect step that fires stores its errno, every other step (passed tests, early exit, reaching
   the work) leaves both alone *)
Fixpoint ctrace_k (e : env) (p : rpath) (clob : nat -> errno_class) (k : nat) (steps : list cstep) (st : rstate)
  : cout * rstate :=
  match steps with
  | [] => (CPass, st)
  | s :: r =>
      match k with
      | S k' => ctrace_k e p clob k' r st
      | O =>
          match s with
          | SDirect c en v => if ceval e c then (CRefused v (Direct en), mkr en (r_log st)) else ctrace_k e p clob O r st
          | SReport c cat v =>
              if ceval e c
              then (CRefused v (Via cat), run_effects (new_errno cat (r_errno st)) cat (path_effects p) clob 0 st)
              else ctrace_k e p clob O r st
          | SExit c => if ceval e c then (CExitOk, st) else ctrace_k e p clob O r st
          | SSkip c n => if ceval e c then ctrace_k e p clob n r st else ctrace_k e p clob O r st
          | SAlloc _ => ctrace_k e p clob O r st
          | SLate _ => (CPass, st)
          | SWork => (CPass, st)
          end
      end
  end.
Definition ctrace (e : env) (p : rpath) (clob : nat -> errno_class) (steps : list cstep) (entry : errno_class) : cout * rstate :=
  ctrace_k e p clob O steps (mkr entry []).
