(* C11: lemmas about the generated errno table and the argument-checking prologues. *)
Require Import List ZArith Bool Lia.
Import ListNotations.
Require Import LV.Err.ErrBase LV.Gen.ErrnoGen LV.Err.ContractModel.
Open Scope Z_scope.

(* ------------------------------------------------------------------ errno table (T3) *)
Lemma errno_table_l :
  (forall c, gen_errno_of c = doc_errno c) /\
  gen_enum = map (fun c => (c, doc_code c)) all_categories /\
  gen_man_table = map (fun c => (c, doc_errno c)) all_categories /\
  (forall c, gen_errno_of_code (doc_code c) = doc_errno c) /\
  gen_default = doc_errno INTERNAL.
Proof.
  split; [intro c; destruct c; reflexivity|].
  split; [vm_compute; reflexivity|].
  split; [vm_compute; reflexivity|].
  split; [intro c; destruct c; vm_compute; reflexivity|].
  reflexivity.
Qed.

(* values outside the enum take the default arm *)
Lemma errno_table_outside_l : forall n, (n < 0 \/ 6 < n) -> gen_errno_of_code n = gen_default.
Proof.
  intros n H. unfold gen_errno_of_code, gen_enum. cbn [find snd fst].
  repeat match goal with
         | |- context [?a =? n] => destruct (Z.eqb_spec a n); [exfalso; lia|]
         end.
  reflexivity.
Qed.

(* errno a caller observes after a refusal *)
Definition actual_errno (r : report) : errno_class :=
  match r with Direct e => e | Via c => gen_errno_of c end.

(* ------------------------------------------------------------------ vnadata family *)
Ltac split_ifs :=
  repeat match goal with
         | |- context [if ?b then _ else _] => destruct b eqn:?
         end.

Lemma data_fail_classified_l : forall h c v r,
  check_data h c = Refuse v r ->
  v = doc_fval c /\ actual_errno r = E_INVAL /\
  callbacks r = match h with None => 0%nat | Some _ => 1%nat end.
Proof.
  intros h c v r. destruct h as [s|]; simpl.
  - destruct c; simpl; unfold check_resize, usage; split_ifs; intro H; inversion H; subst;
      repeat split; reflexivity.
  - intro H; inversion H; subst. repeat split; reflexivity.
Qed.

Lemma data_total_l : forall h c, check_data h c = Pass \/ exists v r, check_data h c = Refuse v r.
Proof. intros h c. destruct (check_data h c) as [|v r]; [left; reflexivity | right; eauto]. Qed.

Lemma bad_index_spec : forall i n, bad_index i n = negb (in_range i n).
Proof.
  intros i n. unfold bad_index, in_range. rewrite Z.geb_leb.
  destruct (Z.ltb_spec i 0), (Z.leb_spec n i), (Z.leb_spec 0 i), (Z.ltb_spec i n); simpl; try reflexivity; lia.
Qed.

Lemma bad_port_strict_spec : forall p n, bad_port true p n = negb (in_range p n).
Proof. intros. unfold bad_port. apply bad_index_spec. Qed.

Lemma bad_port_lax_spec : forall p n, bad_port false p n = negb (in_range p n || (p =? n)) || ((p <? 0) && (p =? n)).
Proof.
  intros p n. unfold bad_port, in_range. rewrite Z.gtb_ltb.
  destruct (Z.ltb_spec p 0), (Z.ltb_spec n p), (Z.leb_spec 0 p), (Z.ltb_spec p n), (Z.eqb_spec p n); simpl; try reflexivity; lia.
Qed.

(* with the strict port test, the coded checks refuse exactly the tuples the manual excludes *)
Ltac zb :=
  repeat match goal with
         | |- context [?a >=? ?b] => rewrite (Z.geb_leb a b)
         | |- context [?a >? ?b] => rewrite (Z.gtb_ltb a b)
         end;
  repeat match goal with
         | |- context [?a <? ?b] => destruct (Z.ltb_spec a b)
         | |- context [?a <=? ?b] => destruct (Z.leb_spec a b)
         | |- context [?a =? ?b] => destruct (Z.eqb_spec a b)
         end; simpl; try reflexivity; try lia.

Lemma data_refusal_iff_invalid_l : forall s c,
  0 <= d_freqs s -> port_test_strict c = true ->
  is_pass (check_data_some s c) = doc_data_valid s c.
Proof.
  intros s c Hf Hs.
  destruct c; simpl in Hs |- *; try rewrite Hs; unfold check_resize, usage, bad_index, bad_port, in_range, ports;
    try generalize (validate_type t r c); try generalize (validate_type t (d_rows s) (d_cols s));
    try generalize (d_fz0 s); intros;
    try (destruct negative; reflexivity).
  all: try solve [zb; repeat match goal with b : bool |- _ => destruct b end; reflexivity].
Qed.

(* index n of the four z0 functions: refused exactly when the test in the C text is strict *)
Lemma data_port_index_n_l : forall s f,
  0 < ports s -> in_range f (d_freqs s) = true -> d_fz0 s = false ->
  is_pass (check_data_some s (CGetZ0 (ports s))) = negb gen_get_z0_strict /\
  is_pass (check_data_some s (CSetZ0 (ports s))) = negb gen_set_z0_strict /\
  is_pass (check_data_some s (CGetFz0 f (ports s))) = negb gen_get_fz0_strict /\
  is_pass (check_data_some s (CSetFz0 f (ports s))) = negb gen_set_fz0_strict.
Proof.
  intros s f Hp Hf Hz. unfold check_data_some, doc_fval, usage. rewrite Hz.
  generalize gen_get_z0_strict, gen_set_z0_strict, gen_get_fz0_strict, gen_set_fz0_strict.
  intros a b c d.
  repeat rewrite bad_index_spec. rewrite Hf. unfold bad_port.
  destruct a, b, c, d; cbn [negb]; repeat split; zb.
Qed.

Section DataStepProofs.
  Variable payload : Type.
  Variable work : dobj payload -> dcall -> payload.
  Variable wipe : payload -> payload.
  Let step := data_step payload work wipe.

  Definition is_init (c : dcall) : bool := match c with CInit _ _ _ _ => true | _ => false end.

  Lemma data_refused_unchanged_l : forall o c v r,
    is_init c = false -> snd (step o c) = Refuse v r -> fst (step o c) = o.
  Proof.
    intros o c v r Hi. unfold step, data_step.
    destruct (check_data_some (o_sum payload o) c) eqn:E; simpl; [discriminate|].
    intros _. destruct c; try reflexivity; discriminate.
  Qed.

  Lemma data_step_outcome_l : forall o c, snd (step o c) = check_data_some (o_sum payload o) c.
  Proof. intros. unfold step, data_step. destruct (check_data_some _ _); reflexivity. Qed.

  Lemma data_init_refused_cleared_l : forall o t r c f v rp,
    snd (step o (CInit t r c f)) = Refuse v rp ->
    fst (step o (CInit t r c f)) = mkdobj payload (mkdsum 0 0 0 0 false) (wipe (o_rest payload o)).
  Proof.
    intros o t r c f v rp. unfold step, data_step.
    destruct (check_data_some _ _) eqn:E; simpl; [discriminate | reflexivity].
  Qed.

  Lemma validate_type_true_dims : forall t r c, validate_type t r c = true -> True.
  Proof. trivial. Qed.

  Lemma data_usable_after_l : forall o c,
    data_inv (o_sum payload o) -> data_inv (o_sum payload (fst (step o c))).
  Proof.
    intros o c [Hr [Hc [Hf Hv]]]. unfold step, data_step.
    destruct (check_data_some (o_sum payload o) c) eqn:E.
    - (* passed: effect of the work on the summary *)
      simpl. destruct c; simpl in *; unfold data_inv; simpl; try (repeat split; assumption).
      + (* init *) unfold check_resize, usage in E.
        destruct (r <? 0) eqn:A; [discriminate|]. destruct (c <? 0) eqn:B; [discriminate|].
        destruct (f <? 0) eqn:C; [discriminate|]. destruct (validate_type t r c) eqn:D; [|discriminate].
        apply Z.ltb_ge in A, B, C. repeat split; assumption.
      + (* resize *) unfold check_resize, usage in E.
        destruct (r <? 0) eqn:A; [discriminate|]. destruct (c <? 0) eqn:B; [discriminate|].
        destruct (f <? 0) eqn:C; [discriminate|]. destruct (validate_type t r c) eqn:D; [|discriminate].
        apply Z.ltb_ge in A, B, C. repeat split; assumption.
      + (* set_type *) unfold usage in E. destruct (validate_type t _ _) eqn:D; [|discriminate].
        repeat split; assumption.
      + (* add_frequency *) repeat split; try assumption. lia.
    - (* refused *)
      simpl. destruct c; simpl; try (repeat split; assumption).
      unfold data_inv; simpl. repeat split; try lia.
  Qed.
End DataStepProofs.

(* ------------------------------------------------------------------ examples (hypotheses are met) *)
Example data_refusal_example :
  check_data (Some (mkdsum 1 2 2 3 false)) (CGetCell 3 0 0) = Refuse VHUGE (Via USAGE) /\
  check_data (Some (mkdsum 1 2 2 3 false)) (CGetCell 2 1 1) = Pass /\
  check_data None (CGetCell 0 0 0) = Refuse VHUGE (Direct E_INVAL) /\
  check_data (Some (mkdsum 1 2 2 3 false)) (CResize 2 3 3 3) = Refuse VM1 (Via USAGE) /\
  check_data (Some (mkdsum 1 2 2 3 true)) CGetZ0Vector = Refuse VNULL (Via USAGE) /\
  data_inv (mkdsum 1 2 2 3 false).
Proof. repeat split; try reflexivity; simpl; lia. Qed.

(* ------------------------------------------------------------------ vnacal query family *)
Lemma query_fail_classified_l : forall h c v r,
  check_query h c = Refuse v r -> doc_query_refusal h c (Refuse v r).
Proof.
  intros h c v r. destruct h as [sl|]; simpl.
  - destruct c; simpl; unfold check_get.
    + destruct ((ci <? 0) || (ci >=? Z.of_nat (length sl))).
      * intro H; inversion H; subst. repeat split; reflexivity.
      * destruct (nth (Z.to_nat ci) sl None); intro H; inversion H; subst. repeat split; reflexivity.
    + destruct (find_slot sl name); intro H; inversion H; subst. repeat split; reflexivity.
    + destruct (slot_at sl ci); intro H; inversion H; subst. repeat split; try reflexivity. left; reflexivity.
    + destruct (ci =? -1); [discriminate|].
      destruct ((ci <? 0) || (ci >=? Z.of_nat (length sl))).
      * intro H; inversion H; subst. repeat split; reflexivity.
      * destruct (nth (Z.to_nat ci) sl None); intro H; inversion H; subst. repeat split; reflexivity.
  - intro H; inversion H; subst. repeat split; reflexivity.
Qed.

Lemma query_total_l : forall h c, check_query h c = Pass \/ exists v r, check_query h c = Refuse v r.
Proof. intros h c. destruct (check_query h c) as [|v r]; [left; reflexivity | right; eauto]. Qed.

Lemma query_refused_unchanged_l : forall sl c v r,
  snd (query_step sl c) = Refuse v r -> fst (query_step sl c) = sl.
Proof.
  intros sl c v r. unfold query_step. destruct (check_query_some sl c); simpl; [discriminate | reflexivity].
Qed.

Lemma check_get_pass_iff : forall sl v ci, check_get sl v ci = Pass <-> exists n, slot_at sl ci = Some n.
Proof.
  intros sl v ci. unfold check_get, slot_at.
  destruct ((ci <? 0) || (ci >=? Z.of_nat (length sl))).
  - split; [discriminate | intros [n H]; discriminate].
  - destruct (nth (Z.to_nat ci) sl None) as [n|].
    + split; [eauto | reflexivity].
    + split; [discriminate | intros [n H]; discriminate].
Qed.

(* the index returned by add_calibration is the one find and the getters then honour *)
Lemma find_from_bounds : forall sl name b k, find_from sl name b = Some k -> b <= k < b + Z.of_nat (length sl).
Proof.
  induction sl as [|x r IH]; intros name b k H; simpl in *; [discriminate|].
  destruct x as [n|].
  - destruct (n =? name).
    + inversion H; subst. lia.
    + apply IH in H. lia.
  - apply IH in H. lia.
Qed.

Lemma find_from_nth : forall sl name b k, find_from sl name b = Some k -> nth (Z.to_nat (k - b)) sl None = Some name.
Proof.
  induction sl as [|x r IH]; intros name b k H; simpl in *; [discriminate|].
  destruct x as [n|].
  - destruct (Z.eqb_spec n name).
    + inversion H; subst. replace (k - k) with 0 by lia. reflexivity.
    + pose proof (find_from_bounds _ _ _ _ H). apply IH in H.
      replace (Z.to_nat (k - b)) with (S (Z.to_nat (k - (b + 1)))) by lia. exact H.
  - pose proof (find_from_bounds _ _ _ _ H). apply IH in H.
    replace (Z.to_nat (k - b)) with (S (Z.to_nat (k - (b + 1)))) by lia. exact H.
Qed.

Lemma set_nth_same : forall sl k x, nth k sl None = x -> (k < length sl)%nat -> set_nth sl k x = sl.
Proof.
  induction sl as [|y r IH]; intros k x H L; simpl in *; [reflexivity|].
  destruct k; simpl in *; [subst; reflexivity|]. f_equal. apply IH; [assumption | lia].
Qed.

Lemma set_nth_length : forall sl k x, length (set_nth sl k x) = length sl.
Proof. induction sl; intros; destruct k; simpl; auto. Qed.

Lemma nth_set_nth : forall sl k x, (k < length sl)%nat -> nth k (set_nth sl k x) None = x.
Proof.
  induction sl as [|y r IH]; intros k x L; simpl in *; [lia|].
  destruct k; simpl; [reflexivity|]. apply IH. lia.
Qed.

Lemma first_free_bounds : forall sl b k, first_free_from sl b = Some k -> b <= k < b + Z.of_nat (length sl).
Proof.
  induction sl as [|x r IH]; intros b k H; simpl in *; [discriminate|].
  destruct x.
  - apply IH in H. lia.
  - inversion H; subst. lia.
Qed.

Lemma find_after_fill : forall sl name b k,
  find_from sl name b = None -> first_free_from sl b = Some k ->
  find_from (set_nth sl (Z.to_nat (k - b)) (Some name)) name b = Some k.
Proof.
  induction sl as [|x r IH]; intros name b k Hn Hf; simpl in *; [discriminate|].
  destruct x as [n|].
  - destruct (Z.eqb_spec n name); [discriminate|].
    pose proof (first_free_bounds _ _ _ Hf).
    replace (Z.to_nat (k - b)) with (S (Z.to_nat (k - (b + 1)))) by lia.
    simpl. destruct (Z.eqb_spec n name); [contradiction|]. apply IH; assumption.
  - inversion Hf; subst. replace (k - k) with 0 by lia. simpl. rewrite Z.eqb_refl. reflexivity.
Qed.

Lemma find_from_app_none : forall sl t name b,
  find_from sl name b = None -> find_from (sl ++ t) name b = find_from t name (b + Z.of_nat (length sl)).
Proof.
  induction sl as [|x r IH]; intros t name b H; simpl in *.
  - f_equal. lia.
  - destruct x as [n|].
    + destruct (n =? name); [discriminate|]. rewrite IH by assumption. f_equal. lia.
    + rewrite IH by assumption. f_equal. lia.
Qed.

Lemma add_calibration_index_l : forall sl name v,
  find_slot (fst (add_calibration sl name)) name = Some (snd (add_calibration sl name)) /\
  check_get (fst (add_calibration sl name)) v (snd (add_calibration sl name)) = Pass.
Proof.
  intros sl name v. unfold add_calibration, find_slot.
  destruct (find_from sl name 0) as [k|] eqn:F.
  - (* replace *)
    pose proof (find_from_bounds _ _ _ _ F) as B. pose proof (find_from_nth _ _ _ _ F) as N.
    rewrite Z.sub_0_r in N. simpl.
    rewrite set_nth_same by (try assumption; lia). split; [assumption|].
    apply check_get_pass_iff. exists name. unfold slot_at.
    destruct (Z.ltb_spec k 0); [lia|]. rewrite Z.geb_leb. destruct (Z.leb_spec (Z.of_nat (length sl)) k); [lia|].
    simpl. assumption.
  - destruct (first_free_from sl 0) as [k|] eqn:E; simpl.
    + pose proof (first_free_bounds _ _ _ E) as B.
      pose proof (find_after_fill _ _ _ _ F E) as H. rewrite Z.sub_0_r in H. split; [assumption|].
      apply check_get_pass_iff. exists name. unfold slot_at. rewrite set_nth_length.
      destruct (Z.ltb_spec k 0); [lia|]. rewrite Z.geb_leb. destruct (Z.leb_spec (Z.of_nat (length sl)) k); [lia|].
      simpl. apply nth_set_nth. lia.
    + split.
      * rewrite find_from_app_none by assumption. simpl. rewrite Z.eqb_refl. reflexivity.
      * apply check_get_pass_iff. exists name. unfold slot_at. rewrite app_length. simpl.
        destruct (Z.ltb_spec (Z.of_nat (length sl)) 0); [lia|]. rewrite Z.geb_leb.
        match goal with |- context [?a <=? ?b] => destruct (Z.leb_spec a b); [lia|] end.
        simpl. rewrite Nat2Z.id. rewrite app_nth2 by lia. rewrite Nat.sub_diag. reflexivity.
Qed.

Example query_examples :
  check_query (Some [Some 10; None; Some 12]) (QGet VNULL 1) = Refuse VNULL (Direct E_INVAL) /\
  check_query (Some [Some 10; None; Some 12]) (QGet VNULL 2) = Pass /\
  check_query (Some [Some 10; None; Some 12]) (QGet VHUGE 3) = Refuse VHUGE (Direct E_INVAL) /\
  check_query (Some [Some 10; None; Some 12]) (QFind 11) = Refuse VM1 (Direct E_NOENT) /\
  check_query (Some [Some 10; None; Some 12]) (QDelete 1) = Refuse VM1 (Direct E_NOENT) /\
  check_query (Some [Some 10; None; Some 12]) (QProperty VM1 (-1)) = Pass /\
  add_calibration [Some 10; None; Some 12] 11 = ([Some 10; Some 11; Some 12], 1) /\
  add_calibration [Some 10] 11 = ([Some 10; Some 11; None; None; None; None; None; None], 1) /\
  add_calibration [Some 10; None; Some 12] 12 = ([Some 10; None; Some 12], 2).
Proof. repeat split; reflexivity. Qed.
