(* C11: lemmas about the generated errno table and the argument-checking prologues. *)
Require Import List ZArith Bool Lia.
Import ListNotations.
Require Import LV.Err.ErrBase LV.Gen.ErrnoGen LV.Err.OrderModel LV.Err.OrderProofs LV.Err.ContractModel.
Open Scope Z_scope.

(* ------------------------------------------------------------------ errno table (T3) *)
Lemma errno_table_l :
  (forall c, gen_errno_of c = doc_errno c) /\
  gen_enum = map (fun c => (c, doc_code c)) all_categories /\
  gen_man_table = map (fun c => (c, doc_errno c)) all_categories /\
  (forall c, gen_errno_of_code (doc_code c) = doc_errno c) /\
  gen_default = doc_errno INTERNAL.
Proof.
  split; [intro c; destruct c; reflexivity|].
  split; [vm_compute; reflexivity|].
  split; [vm_compute; reflexivity|].
  split; [intro c; destruct c; vm_compute; reflexivity|].
  reflexivity.
Qed.

(* values outside the enum take the default arm *)
Lemma errno_table_outside_l : forall n, (n < 0 \/ 6 < n) -> gen_errno_of_code n = gen_default.
Proof.
  intros n H. unfold gen_errno_of_code, gen_enum. cbn [find snd fst].
  repeat match goal with
         | |- context [?a =? n] => destruct (Z.eqb_spec a n); [exfalso; lia|]
         end.
  reflexivity.
Qed.

(* errno a caller observes after a refusal *)
Definition actual_errno (r : report) : errno_class :=
  match r with Direct e => e | Via c => gen_errno_of c end.

(* ------------------------------------------------------------------ vnadata family *)
Ltac split_ifs :=
  repeat match goal with
         | |- context [if ?b then _ else _] => destruct b eqn:?
         end.

Lemma data_fail_classified_l : forall h c v r,
  check_data h c = Refuse v r ->
  v = doc_fval c /\ actual_errno r = E_INVAL /\
  callbacks r = match h with None => 0%nat | Some _ => 1%nat end.
Proof.
  intros h c v r. destruct h as [s|]; simpl.
  - destruct c; simpl; unfold check_resize, usage; split_ifs; intro H; inversion H; subst;
      repeat split; reflexivity.
  - destruct (null_checked c); intro H; inversion H; subst. repeat split; reflexivity.
Qed.

(* the NULL handle: answered with EINVAL exactly by the functions whose NULL test precedes every
   dereference; the others have no defined answer, and a valid handle never faults *)
Lemma data_null_handle_l : forall c,
  (null_checked c = true -> check_data None c = Refuse (doc_fval c) (Direct E_INVAL)) /\
  (null_checked c = false -> check_data None c = Fault).
Proof. intro c. unfold check_data. destruct (null_checked c); split; intro H; try discriminate; reflexivity. Qed.

Lemma check_data_some_no_fault : forall s c, check_data_some s c <> Fault.
Proof.
  intros s c. destruct c; simpl; unfold check_resize, usage; split_ifs; discriminate.
Qed.

Lemma data_fault_iff_l : forall h c, check_data h c = Fault <-> (h = None /\ null_checked c = false).
Proof.
  intros h c. destruct h as [s|]; simpl.
  - split; [intro H; exfalso; exact (check_data_some_no_fault s c H) | intros [H _]; discriminate].
  - destruct (null_checked c); split; try discriminate; try (intros [_ H]; discriminate); auto.
Qed.

Lemma bad_index_spec : forall i n, bad_index i n = negb (in_range i n).
Proof.
  intros i n. unfold bad_index, in_range. rewrite Z.geb_leb.
  destruct (Z.ltb_spec i 0), (Z.leb_spec n i), (Z.leb_spec 0 i), (Z.ltb_spec i n); simpl; try reflexivity; lia.
Qed.

Lemma bad_port_strict_spec : forall p n, bad_port true p n = negb (in_range p n).
Proof. intros. unfold bad_port. apply bad_index_spec. Qed.

Lemma bad_port_lax_spec : forall p n, bad_port false p n = negb (in_range p n || (p =? n)) || ((p <? 0) && (p =? n)).
Proof.
  intros p n. unfold bad_port, in_range. rewrite Z.gtb_ltb.
  destruct (Z.ltb_spec p 0), (Z.ltb_spec n p), (Z.leb_spec 0 p), (Z.ltb_spec p n), (Z.eqb_spec p n); simpl; try reflexivity; lia.
Qed.

(* with the strict port test, the coded checks refuse exactly the tuples the manual excludes *)
Ltac zb :=
  repeat match goal with
         | |- context [?a >=? ?b] => rewrite (Z.geb_leb a b)
         | |- context [?a >? ?b] => rewrite (Z.gtb_ltb a b)
         end;
  repeat match goal with
         | |- context [?a <? ?b] => destruct (Z.ltb_spec a b)
         | |- context [?a <=? ?b] => destruct (Z.leb_spec a b)
         | |- context [?a =? ?b] => destruct (Z.eqb_spec a b)
         end; simpl; try reflexivity; try lia.

Lemma data_refusal_iff_invalid_l : forall s c,
  0 <= d_freqs s -> port_test_strict c = true ->
  is_pass (check_data_some s c) = doc_data_valid s c.
Proof.
  intros s c Hf Hs.
  destruct c; simpl in Hs |- *; try rewrite Hs; unfold check_resize, usage, bad_index, bad_port, in_range, ports;
    try generalize (too_large r c);
    try generalize (validate_type t r c); try generalize (validate_type t (d_rows s) (d_cols s));
    try generalize (d_fz0 s); intros;
    try (destruct negative; reflexivity).
  all: try solve [zb; repeat match goal with b : bool |- _ => destruct b end; reflexivity].
Qed.

(* index n of the four z0 functions: refused exactly when the test in the C text is strict *)
Lemma data_port_index_n_l : forall s f,
  0 < ports s -> in_range f (d_freqs s) = true -> d_fz0 s = false ->
  is_pass (check_data_some s (CGetZ0 (ports s))) = negb gen_get_z0_strict /\
  is_pass (check_data_some s (CSetZ0 (ports s))) = negb gen_set_z0_strict /\
  is_pass (check_data_some s (CGetFz0 f (ports s))) = negb gen_get_fz0_strict /\
  is_pass (check_data_some s (CSetFz0 f (ports s))) = negb gen_set_fz0_strict.
Proof.
  intros s f Hp Hf Hz. unfold check_data_some, doc_fval, usage. rewrite Hz.
  generalize gen_get_z0_strict, gen_set_z0_strict, gen_get_fz0_strict, gen_set_fz0_strict.
  intros a b c d.
  repeat rewrite bad_index_spec. rewrite Hf. unfold bad_port.
  destruct a, b, c, d; cbn [negb]; repeat split; zb.
Qed.

(* ------------------------------------------------------------------ the ordered body *)
(* every refusing C statement has its entry in data_checks and vice versa *)
Lemma data_order_fits_l : forall c, count_checks (dcall_order c) = length (data_checks c).
Proof. intro c. destruct c; reflexivity. Qed.

(* as found: every function of the family except vnadata_init makes all its tests before its first write *)
Lemma data_orders_checks_first_l : forall c, is_init c = false -> checks_first (dcall_order c) = true.
Proof. intros c H. destruct c; try discriminate; reflexivity. Qed.

(* vnadata_init = vnadata_resize(vdp, VPT_UNDEF, 0, 0, 0); vnadata_set_all_z0(vdp, default); then the body of
   vnadata_resize.  The second statement is a plain write as long as its result is ignored, and a write that can
   fail (EvF) once vnadata_init passes a failure of the z0 reset on (fix DE80): both readings are accepted. *)
Lemma data_init_order_l :
  (exists w2, is_write w2 = true /\ gen_order_vnadata_init = EvW :: w2 :: gen_order_vnadata_resize) /\
  checks_first gen_order_vnadata_init = false.
Proof. split; [|reflexivity]. eexists. split. 2: reflexivity. reflexivity. Qed.

Section DataStepProofs.
  Variable payload : Type.
  Variable work : dcall -> nat -> dobj payload -> payload.
  Let step := data_step payload work.
  Let drun := data_run payload work.

  Lemma data_run_no_late : forall o c o' v r, drun o c <> (o', MLate v r).
  Proof.
    intros o c o' v r. unfold drun, data_run, data_body. apply assemble_no_late. intros k x. reflexivity.
  Qed.

  (* for every function whose generated order has all refusing checks before the first write: a
     refused call leaves the object - summary and rest - equal *)
  Lemma data_refused_unchanged_l : forall o c v r,
    checks_first (dcall_order c) = true -> snd (step o c) = Refuse v r -> fst (step o c) = o.
  Proof.
    intros o c v r Hc. unfold step, data_step. fold (drun o c).
    destruct (drun o c) as [o' m] eqn:E. simpl. destruct m as [|v1 r1|v1 r1]; simpl; try discriminate.
    - intros _. unfold drun, data_run, data_body in E. eapply assemble_refused_unchanged; eassumption.
    - exfalso. eapply data_run_no_late; eassumption.
  Qed.

  (* link to the decision function: the outcome of a step is check_data_some on the summary the call
     was given (for vnadata_init, whose final vnadata_resize tests the arguments only: check_resize) *)
  Lemma first_refusal_data : forall o c,
    outcome_of (mres_of (first_refusal (data_check_acts payload c) o)) = check_data_some (o_sum payload o) c.
  Proof.
    intros o c. destruct c; simpl; unfold check_resize, usage; split_ifs; try reflexivity; try discriminate.
  Qed.

  Lemma data_step_outcome_l : forall o c,
    is_init c = false -> snd (step o c) = check_data_some (o_sum payload o) c.
  Proof.
    intros o c Hi. unfold step, data_step. fold (drun o c). destruct (drun o c) as [o' m] eqn:E. simpl.
    rewrite <- first_refusal_data. f_equal.
    assert (H : snd (drun o c) = m) by (rewrite E; reflexivity). rewrite <- H.
    unfold drun, data_run, data_body. apply assemble_outcome.
    - apply data_orders_checks_first_l; exact Hi.
    - unfold data_check_acts. rewrite map_length. apply data_order_fits_l.
    - intros k x. reflexivity.
  Qed.

  Lemma data_init_outcome_l : forall o t r c f,
    snd (step o (CInit t r c f)) = check_resize t r c f.
  Proof.
    intros o t r c f. unfold step, data_step, data_run, data_body, data_check_acts. simpl.
    unfold check_resize, usage. split_ifs; reflexivity.
  Qed.

  (* vnadata_init as coded: the object has been emptied by the time the final vnadata_resize refuses *)
  Lemma data_init_refused_cleared_l : forall o t r c f v rp,
    snd (step o (CInit t r c f)) = Refuse v rp ->
    o_sum payload (fst (step o (CInit t r c f))) = mkdsum 0 0 0 0 false.
  Proof.
    intros o t r c f v rp. unfold step, data_step, data_run, data_body, data_check_acts. simpl.
    split_ifs; simpl; intro H; try reflexivity; discriminate.
  Qed.

  (* summary after a step *)
  Lemma data_step_sum_l : forall o c,
    o_sum payload (fst (step o c)) =
    match snd (step o c) with
    | Pass => sum_after (o_sum payload o) c
    | _ => if is_init c then mkdsum 0 0 0 0 false else o_sum payload o
    end.
  Proof.
    intros o c. destruct c; unfold step, data_step, data_run, data_body, data_check_acts; simpl;
      split_ifs; simpl; try reflexivity; destruct (o_sum payload o); reflexivity.
  Qed.

  (* the invariant under which all checks are defined is kept by every call, refused or not
     (content: the Pass branches - the new dimensions passed the tests - and the cleared object of a
     refused vnadata_init) *)
  Lemma data_inv_preserved_l : forall o c,
    data_inv (o_sum payload o) -> data_inv (o_sum payload (fst (step o c))).
  Proof.
    intros o c [Hr [Hc [Hf Hv]]]. rewrite data_step_sum_l.
    destruct (is_init c) eqn:Hi.
    - destruct c; try discriminate. rewrite data_init_outcome_l.
      unfold check_resize, usage.
      destruct (r <? 0) eqn:A; [unfold data_inv; simpl; repeat split; lia|].
      destruct (c <? 0) eqn:B; [unfold data_inv; simpl; repeat split; lia|].
      destruct (f <? 0) eqn:C; [unfold data_inv; simpl; repeat split; lia|].
      destruct (validate_type t r c) eqn:D; simpl; [|unfold data_inv; simpl; repeat split; lia].
      destruct (too_large r c); [unfold data_inv; simpl; repeat split; lia|].
      apply Z.ltb_ge in A, B, C. unfold data_inv; simpl. repeat split; assumption.
    - rewrite data_step_outcome_l by exact Hi.
      destruct (check_data_some (o_sum payload o) c) eqn:E; try (unfold data_inv; repeat split; assumption).
      destruct c; simpl in *; unfold data_inv; simpl; try (repeat split; assumption); try discriminate.
      + (* resize *) unfold check_resize, usage in E.
        destruct (r <? 0) eqn:A; [discriminate|]. destruct (c <? 0) eqn:B; [discriminate|].
        destruct (f <? 0) eqn:C; [discriminate|]. destruct (validate_type t r c) eqn:D; [|discriminate].
        apply Z.ltb_ge in A, B, C. repeat split; assumption.
      + (* set_type *) unfold usage in E. destruct (validate_type t _ _) eqn:D; [|discriminate].
        repeat split; assumption.
      + (* add_frequency *) repeat split; try assumption. lia.
  Qed.
End DataStepProofs.

(* ------------------------------------------------------------------ examples (hypotheses are met) *)
Example data_refusal_example :
  check_data (Some (mkdsum 1 2 2 3 false)) (CGetCell 3 0 0) = Refuse VHUGE (Via USAGE) /\
  check_data (Some (mkdsum 1 2 2 3 false)) (CGetCell 2 1 1) = Pass /\
  check_data None (CGetCell 0 0 0) = Refuse VHUGE (Direct E_INVAL) /\
  check_data (Some (mkdsum 1 2 2 3 false)) (CResize 2 3 3 3) = Refuse VM1 (Via USAGE) /\
  check_data (Some (mkdsum 1 2 2 3 true)) CGetZ0Vector = Refuse VNULL (Via USAGE) /\
  data_inv (mkdsum 1 2 2 3 false).
Proof. repeat split; try reflexivity; simpl; lia. Qed.

(* ------------------------------------------------------------------ vnacal query family *)
Lemma check_query_some_no_fault : forall sl c, check_query_some sl c <> Fault.
Proof.
  intros sl c. destruct c; simpl; unfold check_get.
  - destruct ((ci <? 0) || (ci >=? Z.of_nat (length sl))); [discriminate|]. destruct (nth (Z.to_nat ci) sl None); discriminate.
  - destruct (find_slot sl name); discriminate.
  - destruct (slot_at sl ci); discriminate.
  - destruct (ci =? -1); [discriminate|].
    destruct ((ci <? 0) || (ci >=? Z.of_nat (length sl))); [discriminate|]. destruct (nth (Z.to_nat ci) sl None); discriminate.
Qed.

Lemma query_fail_classified_l : forall h c v r,
  check_query h c = Refuse v r -> doc_query_refusal h c (Refuse v r).
Proof.
  intros h c v r. destruct h as [sl|]; simpl.
  - destruct c; simpl; unfold check_get.
    + destruct ((ci <? 0) || (ci >=? Z.of_nat (length sl))).
      * intro H; inversion H; subst. repeat split; reflexivity.
      * destruct (nth (Z.to_nat ci) sl None); intro H; inversion H; subst. repeat split; reflexivity.
    + destruct (find_slot sl name); intro H; inversion H; subst. repeat split; reflexivity.
    + destruct (slot_at sl ci); intro H; inversion H; subst. repeat split; try reflexivity. left; reflexivity.
    + destruct (ci =? -1); [discriminate|].
      destruct ((ci <? 0) || (ci >=? Z.of_nat (length sl))).
      * intro H; inversion H; subst. repeat split; reflexivity.
      * destruct (nth (Z.to_nat ci) sl None); intro H; inversion H; subst. repeat split; reflexivity.
  - destruct (fst (qcall_handle c)); intro H; inversion H; subst. repeat split; reflexivity.
Qed.

Lemma query_null_handle_l : forall c,
  check_query None c = if fst (qcall_handle c) then Refuse (query_fval c) (Direct E_INVAL) else Fault.
Proof. reflexivity. Qed.

(* as found: all four C functions behind the query calls test first (the deletion happens on an
   early successful exit) and the getters are read-only *)
Lemma query_orders_checks_first_l : forall c, checks_first (qcall_order c) = true.
Proof. intro c. destruct c; reflexivity. Qed.

Lemma query_step_spec_l : forall pre sl c,
  checks_first (qcall_order c) = true ->
  query_step pre sl c = (match check_query_some sl c with Pass => slots_after sl c | _ => sl end, check_query_some sl c).
Proof.
  intros pre sl c H. unfold query_step, query_run, query_body. rewrite H. rewrite two_phase_run.
  pose proof (check_query_some_no_fault sl c) as NF.
  destruct (check_query_some sl c) as [|v r|]; [reflexivity | reflexivity | contradiction].
Qed.

Lemma query_refused_unchanged_l : forall pre sl c v r,
  checks_first (qcall_order c) = true ->
  snd (query_step pre sl c) = Refuse v r -> fst (query_step pre sl c) = sl.
Proof.
  intros pre sl c v r H. rewrite (query_step_spec_l pre sl c H). simpl.
  destruct (check_query_some sl c); [discriminate | reflexivity | reflexivity].
Qed.

Lemma check_get_pass_iff : forall sl v ci, check_get sl v ci = Pass <-> exists n, slot_at sl ci = Some n.
Proof.
  intros sl v ci. unfold check_get, slot_at.
  destruct ((ci <? 0) || (ci >=? Z.of_nat (length sl))).
  - split; [discriminate | intros [n H]; discriminate].
  - destruct (nth (Z.to_nat ci) sl None) as [n|].
    + split; [eauto | reflexivity].
    + split; [discriminate | intros [n H]; discriminate].
Qed.

(* the index returned by add_calibration is the one find and the getters then honour *)
Lemma find_from_bounds : forall sl name b k, find_from sl name b = Some k -> b <= k < b + Z.of_nat (length sl).
Proof.
  induction sl as [|x r IH]; intros name b k H; simpl in *; [discriminate|].
  destruct x as [n|].
  - destruct (n =? name).
    + inversion H; subst. lia.
    + apply IH in H. lia.
  - apply IH in H. lia.
Qed.

Lemma find_from_nth : forall sl name b k, find_from sl name b = Some k -> nth (Z.to_nat (k - b)) sl None = Some name.
Proof.
  induction sl as [|x r IH]; intros name b k H; simpl in *; [discriminate|].
  destruct x as [n|].
  - destruct (Z.eqb_spec n name).
    + inversion H; subst. replace (k - k) with 0 by lia. reflexivity.
    + pose proof (find_from_bounds _ _ _ _ H). apply IH in H.
      replace (Z.to_nat (k - b)) with (S (Z.to_nat (k - (b + 1)))) by lia. exact H.
  - pose proof (find_from_bounds _ _ _ _ H). apply IH in H.
    replace (Z.to_nat (k - b)) with (S (Z.to_nat (k - (b + 1)))) by lia. exact H.
Qed.

Lemma set_nth_same : forall sl k x, nth k sl None = x -> (k < length sl)%nat -> set_nth sl k x = sl.
Proof.
  induction sl as [|y r IH]; intros k x H L; simpl in *; [reflexivity|].
  destruct k; simpl in *; [subst; reflexivity|]. f_equal. apply IH; [assumption | lia].
Qed.

Lemma set_nth_length : forall sl k x, length (set_nth sl k x) = length sl.
Proof. induction sl; intros; destruct k; simpl; auto. Qed.

Lemma nth_set_nth : forall sl k x, (k < length sl)%nat -> nth k (set_nth sl k x) None = x.
Proof.
  induction sl as [|y r IH]; intros k x L; simpl in *; [lia|].
  destruct k; simpl; [reflexivity|]. apply IH. lia.
Qed.

Lemma first_free_bounds : forall sl b k, first_free_from sl b = Some k -> b <= k < b + Z.of_nat (length sl).
Proof.
  induction sl as [|x r IH]; intros b k H; simpl in *; [discriminate|].
  destruct x.
  - apply IH in H. lia.
  - inversion H; subst. lia.
Qed.

Lemma find_after_fill : forall sl name b k,
  find_from sl name b = None -> first_free_from sl b = Some k ->
  find_from (set_nth sl (Z.to_nat (k - b)) (Some name)) name b = Some k.
Proof.
  induction sl as [|x r IH]; intros name b k Hn Hf; simpl in *; [discriminate|].
  destruct x as [n|].
  - destruct (Z.eqb_spec n name); [discriminate|].
    pose proof (first_free_bounds _ _ _ Hf).
    replace (Z.to_nat (k - b)) with (S (Z.to_nat (k - (b + 1)))) by lia.
    simpl. destruct (Z.eqb_spec n name); [contradiction|]. apply IH; assumption.
  - inversion Hf; subst. replace (k - k) with 0 by lia. simpl. rewrite Z.eqb_refl. reflexivity.
Qed.

Lemma find_from_app_none : forall sl t name b,
  find_from sl name b = None -> find_from (sl ++ t) name b = find_from t name (b + Z.of_nat (length sl)).
Proof.
  induction sl as [|x r IH]; intros t name b H; simpl in *.
  - f_equal. lia.
  - destruct x as [n|].
    + destruct (n =? name); [discriminate|]. rewrite IH by assumption. f_equal. lia.
    + rewrite IH by assumption. f_equal. lia.
Qed.

Lemma add_calibration_index_l : forall sl name v,
  find_slot (fst (add_calibration sl name)) name = Some (snd (add_calibration sl name)) /\
  check_get (fst (add_calibration sl name)) v (snd (add_calibration sl name)) = Pass.
Proof.
  intros sl name v. unfold add_calibration, find_slot.
  destruct (find_from sl name 0) as [k|] eqn:F.
  - (* replace *)
    pose proof (find_from_bounds _ _ _ _ F) as B. pose proof (find_from_nth _ _ _ _ F) as N.
    rewrite Z.sub_0_r in N. simpl.
    rewrite set_nth_same by (try assumption; lia). split; [assumption|].
    apply check_get_pass_iff. exists name. unfold slot_at.
    destruct (Z.ltb_spec k 0); [lia|]. rewrite Z.geb_leb. destruct (Z.leb_spec (Z.of_nat (length sl)) k); [lia|].
    simpl. assumption.
  - destruct (first_free_from sl 0) as [k|] eqn:E; simpl.
    + pose proof (first_free_bounds _ _ _ E) as B.
      pose proof (find_after_fill _ _ _ _ F E) as H. rewrite Z.sub_0_r in H. split; [assumption|].
      apply check_get_pass_iff. exists name. unfold slot_at. rewrite set_nth_length.
      destruct (Z.ltb_spec k 0); [lia|]. rewrite Z.geb_leb. destruct (Z.leb_spec (Z.of_nat (length sl)) k); [lia|].
      simpl. apply nth_set_nth. lia.
    + split.
      * rewrite find_from_app_none by assumption. simpl. rewrite Z.eqb_refl. reflexivity.
      * apply check_get_pass_iff. exists name. unfold slot_at. rewrite app_length. simpl.
        destruct (Z.ltb_spec (Z.of_nat (length sl)) 0); [lia|]. rewrite Z.geb_leb.
        match goal with |- context [?a <=? ?b] => destruct (Z.leb_spec a b); [lia|] end.
        simpl. rewrite Nat2Z.id. rewrite app_nth2 by lia. rewrite Nat.sub_diag. reflexivity.
Qed.

Example query_examples :
  check_query (Some [Some 10; None; Some 12]) (QGet GName 1) = Refuse VNULL (Direct E_INVAL) /\
  check_query (Some [Some 10; None; Some 12]) (QGet GName 2) = Pass /\
  check_query (Some [Some 10; None; Some 12]) (QGet GFmax 3) = Refuse VHUGE (Direct E_INVAL) /\
  check_query (Some [Some 10; None; Some 12]) (QFind 11) = Refuse VM1 (Direct E_NOENT) /\
  check_query (Some [Some 10; None; Some 12]) (QDelete 1) = Refuse VM1 (Direct E_NOENT) /\
  check_query (Some [Some 10; None; Some 12]) (QProperty PfType (-1)) = Pass /\
  add_calibration [Some 10; None; Some 12] 11 = ([Some 10; Some 11; Some 12], 1) /\
  add_calibration [Some 10] 11 = ([Some 10; Some 11; None; None; None; None; None; None], 1) /\
  add_calibration [Some 10; None; Some 12] 12 = ([Some 10; None; Some 12], 2).
Proof. repeat split; reflexivity. Qed.
