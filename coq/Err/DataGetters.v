(* C11: "a refused setter, resize, set_type ... changes no getter's answer" for the vnadata family, with
   the getters of the full vnadata_t model of property C15 (LV.Data.DataModel, read-only here): the rest
   of the C11 object is instantiated with the C15 state, and the answers of every DataModel operation -
   the getters among them - on the object after a refused call are those on the object before it.
   (A corollary of data_refused_unchanged: the object is equal; the getters are the C15 model's, which
   checks/C15.py ties to the library.) *)
Require Import List ZArith Bool.
Import ListNotations.
Require Import LV.Err.ErrBase LV.Gen.ErrnoGen LV.Err.OrderModel LV.Err.ContractModel LV.Err.ContractProofs.
Require LV.Data.DataModel.
Notation vd := LV.Data.DataModel.vd.

Section Getters.
  Variable V : Type.
  Variables vzero vdef : V.
  Variable Q : LV.Data.DataModel.quirks.
  Variable work : dcall -> nat -> dobj (vd V) -> vd V.

  Lemma data_refused_getters_unchanged_l : forall (o : dobj (vd V)) c v r,
    checks_first (dcall_order c) = true ->
    snd (data_step (vd V) work o c) = Refuse v r ->
    forall g : LV.Data.DataModel.op V,
      snd (LV.Data.DataModel.step V vzero vdef Q (o_rest (vd V) (fst (data_step (vd V) work o c))) g) = snd (LV.Data.DataModel.step V vzero vdef Q (o_rest (vd V) o) g) /\
      LV.Data.DataModel.observe V (o_rest (vd V) (fst (data_step (vd V) work o c))) = LV.Data.DataModel.observe V (o_rest (vd V) o).
  Proof.
    intros o c v r H R g. rewrite (data_refused_unchanged_l (vd V) work o c v r H R). split; reflexivity.
  Qed.
End Getters.
