(* C11: a rejected standard adds nothing (repaired _vnacal_new_add_common), a refused property set
   changes nothing (repaired vnaproperty_vset), and the regression witnesses for the orders the
   code had before (D17, D54). *)
Require Import List ZArith Bool Lia.
Import ListNotations.
Require Import LV.Err.ErrBase LV.Gen.ErrnoGen LV.Err.RefutedModel.
Open Scope Z_scope.

(* ---------------------------------------------------------------- D17 *)
Section AddCommonProofs.
  Variable valid : Z -> bool.
  Variable unknown : Z -> bool.

  Lemma known_app : forall s h x u m, known s h = true -> known (mknew (n_registered s ++ [x]) u m) h = true.
  Proof.
    intros s h x u m H. unfold known in *. simpl. rewrite existsb_app, H. reflexivity.
  Qed.

  Lemma check_monotone : forall s h s' h', get_parameter valid unknown s h = Some s' ->
    check_parameter valid s h' = true -> check_parameter valid s' h' = true.
  Proof.
    intros s h s' h' G C. unfold get_parameter in G.
    destruct ((0 <=? h) && known s h); [inversion G; subst; exact C|].
    destruct (negb (valid h)); [discriminate|]. inversion G; subst. clear G.
    unfold check_parameter in *. apply orb_true_iff in C. apply orb_true_iff. destruct C as [C|C]; [left | right; exact C].
    apply andb_true_iff in C. destruct C as [A B]. apply andb_true_iff. split; [exact A|].
    apply known_app. exact B.
  Qed.

  (* once every cell has passed the validation the registration loop cannot refuse *)
  Lemma register_after_check_l : forall cells s,
    forallb (check_parameter valid s) cells = true -> snd (register_cells valid unknown s cells) = true.
  Proof.
    induction cells as [|h r IH]; intros s H; simpl in *; [reflexivity|].
    apply andb_true_iff in H. destruct H as [Hh Hr].
    destruct (get_parameter valid unknown s h) as [s'|] eqn:G.
    - apply IH. apply forallb_forall. intros x Hx.
      apply (check_monotone s h s' x G). rewrite forallb_forall in Hr. apply Hr. exact Hx.
    - exfalso. unfold get_parameter in G. unfold check_parameter in Hh.
      destruct ((0 <=? h) && known s h); [discriminate|]. simpl in Hh. rewrite Hh in G. simpl in G. discriminate.
  Qed.

  (* repaired order: whatever the parameter table and the s-matrix, a refused standard leaves the
     vnacal_new_t summary (registered parameters, unknown count, measurement count) as it was *)
  Lemma rejected_standard_adds_nothing_l : forall s cells s' v r,
    add_standard valid unknown s cells = (s', Refuse v r) -> s' = s.
  Proof.
    intros s cells s' v r. unfold add_standard.
    destruct (forallb (check_parameter valid s) cells) eqn:C.
    - pose proof (register_after_check_l cells s C) as R.
      destruct (register_cells valid unknown s cells) as [s1 b]. simpl in R. subst b. discriminate.
    - intro H. inversion H. reflexivity.
  Qed.

  (* and a standard is refused by the repaired order exactly when the old order refused it *)
  Lemma add_standard_same_verdict_l : forall s cells,
    is_pass (snd (add_standard valid unknown s cells)) = is_pass (snd (add_standard_before_fix valid unknown s cells)) /\
    (is_pass (snd (add_standard valid unknown s cells)) = true ->
     add_standard valid unknown s cells = add_standard_before_fix valid unknown s cells).
  Proof.
    intros s cells. unfold add_standard, add_standard_before_fix.
    destruct (forallb (check_parameter valid s) cells) eqn:C.
    - destruct (register_cells valid unknown s cells) as [s1 b]; split; reflexivity || (intros; reflexivity).
    - assert (R : snd (register_cells valid unknown s cells) = false).
      { clear - C. revert s C. induction cells as [|h r IH]; intros s C; simpl in *; [discriminate|].
        apply andb_false_iff in C.
        destruct (get_parameter valid unknown s h) as [s'|] eqn:G; [|reflexivity].
        destruct C as [C|C].
        - exfalso. unfold get_parameter in G. unfold check_parameter in C.
          destruct ((0 <=? h) && known s h); [discriminate|]. simpl in C. rewrite C in G. discriminate.
        - apply IH. destruct (forallb (check_parameter valid s') r) eqn:F; [|reflexivity].
          exfalso. (* a cell refused against s is refused against the larger s' unless it was registered
                      meanwhile, which needs it to be valid: then it was not refused against s *)
          assert (M : forall x, check_parameter valid s' x = true -> check_parameter valid s x = true).
          { intros x Hx. unfold get_parameter in G.
            destruct ((0 <=? h) && known s h); [inversion G; subst; exact Hx|].
            destruct (negb (valid h)) eqn:V; [discriminate|]. inversion G; subst. clear G.
            unfold check_parameter in *. apply orb_true_iff in Hx. apply orb_true_iff.
            destruct Hx as [Hx|Hx]; [|right; exact Hx].
            apply andb_true_iff in Hx. destruct Hx as [A B]. unfold known in B. simpl in B.
            rewrite existsb_app in B. apply orb_true_iff in B. destruct B as [B|B].
            - left. apply andb_true_iff. split; assumption.
            - right. simpl in B. rewrite orb_false_r in B. apply Z.eqb_eq in B. subst x.
              apply negb_false_iff in V. exact V. }
          assert (forallb (check_parameter valid s) r = true).
          { apply forallb_forall. intros x Hx. apply M. rewrite forallb_forall in F. apply F. exact Hx. }
          congruence. }
      destruct (register_cells valid unknown s cells) as [s1 b]. simpl in R. subst b. split; [reflexivity | discriminate].
  Qed.
End AddCommonProofs.

(* regression witness: the order before the repair.  Handles 0..5 valid, 5 an unknown parameter, 99
   invalid: the standard (5, 99) is refused but leaves 5 registered and counted *)
Lemma rejected_standard_adds_nothing_before_fix_D17_refuted_l :
  exists valid unknown s cells s',
    add_standard_before_fix valid unknown s cells = (s', Refuse VM1 (Via USAGE)) /\ s' <> s.
Proof.
  exists (fun h => (0 <=? h) && (h <=? 5)), (fun h => h =? 5), (mknew [0] 0 0), [5; 99],
         (mknew [0; 5] 1 0).
  split; [vm_compute; reflexivity | discriminate].
Qed.

Example rejected_standard_example :
  add_standard (fun h => (0 <=? h) && (h <=? 5)) (fun h => h =? 5) (mknew [0] 0 0) [5; 99]
    = (mknew [0] 0 0, Refuse VM1 (Via USAGE)) /\
  add_standard (fun h => (0 <=? h) && (h <=? 5)) (fun h => h =? 5) (mknew [0] 0 0) [5; 3]
    = (mknew [0; 5; 3] 1 1, Pass).
Proof. split; vm_compute; reflexivity. Qed.

(* ---------------------------------------------------------------- D54 *)
(* repaired order: a refused set / set_subtree leaves the tree as it was, is silent, EINVAL *)
Lemma refused_property_set_unchanged_l : forall t path value t' v r,
  vset t path value = (t', Refuse v r) -> t' = t /\ v = VM1 /\ r = Direct E_INVAL /\ callbacks r = 0%nat.
Proof.
  intros t path value t' v r H. destruct value; simpl in H; inversion H; subst. repeat split.
Qed.

Lemma refused_set_subtree_unchanged_l : forall t path trailing t' v r,
  vset_subtree t path trailing = (t', Refuse v r) -> t' = t /\ v = VNULL /\ r = Direct E_INVAL.
Proof.
  intros t path trailing t' v r H. destruct trailing; simpl in H; inversion H; subst. repeat split.
Qed.

(* the repair changed nothing for accepted calls *)
Lemma vset_accepted_same_l : forall t path v, vset t path (Some v) = vset_before_fix t path (Some v).
Proof. reflexivity. Qed.

(* regression witness: root {1: "7"}; set "1.2" without a value was refused and left {1: {2: ~}} *)
Lemma refused_property_set_before_fix_D54_refuted_l :
  exists t path t' v r, vset_before_fix t path None = (t', Refuse v r) /\ t' <> t.
Proof.
  exists (PMap [(1, PScalar 7)]), [1; 2], (PMap [(1, PMap [(2, PNull)])]), VM1, (Direct E_INVAL).
  split; [vm_compute; reflexivity | discriminate].
Qed.

Example property_set_example :
  vset (PMap [(1, PScalar 7)]) [1; 2] None = (PMap [(1, PScalar 7)], Refuse VM1 (Direct E_INVAL)) /\
  vset (PMap [(1, PScalar 7)]) [1; 2] (Some (PScalar 9)) = (PMap [(1, PMap [(2, PScalar 9)])], Pass).
Proof. split; vm_compute; reflexivity. Qed.
