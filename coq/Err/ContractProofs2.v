(* C11: refutations for the two places where a refused call changes the object (D17, D54), with
   the parts that do hold. *)
Require Import List ZArith Bool Lia.
Import ListNotations.
Require Import LV.Err.ErrBase LV.Err.RefutedModel.
Open Scope Z_scope.

(* D17: handles 0..5 valid, 5 an unknown parameter, 99 invalid: the standard (5, 99) is refused but
   leaves 5 registered and counted *)
Lemma rejected_standard_adds_nothing_refuted_l :
  exists valid unknown s cells s',
    add_standard valid unknown s cells = (s', Refuse VM1 (Via USAGE)) /\ s' <> s.
Proof.
  exists (fun h => (0 <=? h) && (h <=? 5)), (fun h => h =? 5), (mknew [0] 0 0), [5; 99],
         (mknew [0; 5] 1 0).
  split; [vm_compute; reflexivity | discriminate].
Qed.

(* what does hold: a refused standard never adds a measurement (build-then-link) ... *)
Lemma register_cells_measurements : forall valid unknown cells s,
  n_measurements (fst (register_cells valid unknown s cells)) = n_measurements s.
Proof.
  induction cells as [|h r IH]; intros s; simpl; [reflexivity|].
  unfold get_parameter.
  destruct ((0 <=? h) && known s h); [apply IH|].
  destruct (negb (valid h)); [reflexivity|].
  rewrite IH. reflexivity.
Qed.

Lemma rejected_standard_adds_no_measurement_l : forall valid unknown s cells s' v r,
  add_standard valid unknown s cells = (s', Refuse v r) -> n_measurements s' = n_measurements s.
Proof.
  intros valid unknown s cells s' v r. unfold add_standard.
  pose proof (register_cells_measurements valid unknown cells s) as H.
  destruct (register_cells valid unknown s cells) as [s1 [|]]; intro E; inversion E; subst.
  exact H.
Qed.

(* ... and nothing at all when the first cell that is not yet registered is the invalid one *)
Lemma rejected_first_cell_adds_nothing_l : forall valid unknown s h r,
  ((0 <=? h) && known s h) = false -> valid h = false ->
  add_standard valid unknown s (h :: r) = (s, Refuse VM1 (Via USAGE)).
Proof.
  intros valid unknown s h r K V. unfold add_standard. simpl. unfold get_parameter. rewrite K, V. reflexivity.
Qed.

(* D54: root {1: "7"}; set "1.2" without a value is refused and leaves {1: {2: ~}} *)
Lemma refused_property_set_unchanged_refuted_l :
  exists t path t' v r, vset t path None = (t', Refuse v r) /\ t' <> t.
Proof.
  exists (PMap [(1, PScalar 7)]), [1; 2], (PMap [(1, PMap [(2, PNull)])]), VM1, (Direct E_INVAL).
  split; [vm_compute; reflexivity | discriminate].
Qed.

(* what does hold: a refused set is silent and returns -1 / EINVAL; and it changes nothing when
   the path already conforms (every key on it exists and leads through maps) *)
Lemma refused_property_set_classified_l : forall t path t' v r,
  vset t path None = (t', Refuse v r) -> v = VM1 /\ r = Direct E_INVAL /\ callbacks r = 0%nat.
Proof. intros t path t' v r H. inversion H; subst. repeat split. Qed.
