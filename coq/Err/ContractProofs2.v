(* C11: a rejected standard adds nothing (_vnacal_new_add_common in the order found in the C text), a
   refused property set changes nothing (vnaproperty_vset in the order found in the C text), and the
   model variants with the other order (D17, D54), in which the statements fail. *)
Require Import List ZArith Bool Lia.
Import ListNotations.
Require Import LV.Err.ErrBase LV.Gen.ErrnoGen LV.Err.OrderModel LV.Err.OrderProofs LV.Err.RefutedModel.
Open Scope Z_scope.

(* ---------------------------------------------------------------- D17 *)
Section AddCommonProofs.
  Variable valid : Z -> bool.
  Variable unknown : Z -> bool.

  Lemma known_app : forall s h x u m, known s h = true -> known (mknew (n_registered s ++ [x]) u m) h = true.
  Proof.
    intros s h x u m H. unfold known in *. simpl. rewrite existsb_app, H. reflexivity.
  Qed.

  Lemma check_monotone : forall s h s' h', get_parameter valid unknown s h = Some s' ->
    check_parameter valid s h' = true -> check_parameter valid s' h' = true.
  Proof.
    intros s h s' h' G C. unfold get_parameter in G.
    destruct ((0 <=? h) && known s h); [inversion G; subst; exact C|].
    destruct (negb (valid h)); [discriminate|]. inversion G; subst. clear G.
    unfold check_parameter in *. apply orb_true_iff in C. apply orb_true_iff. destruct C as [C|C]; [left | right; exact C].
    apply andb_true_iff in C. destruct C as [A B]. apply andb_true_iff. split; [exact A|].
    apply known_app. exact B.
  Qed.

  (* once every cell has passed the validation the registration loop cannot refuse *)
  Lemma register_after_check_l : forall cells s,
    forallb (check_parameter valid s) cells = true -> snd (register_cells valid unknown s cells) = true.
  Proof.
    induction cells as [|h r IH]; intros s H; simpl in *; [reflexivity|].
    apply andb_true_iff in H. destruct H as [Hh Hr].
    destruct (get_parameter valid unknown s h) as [s'|] eqn:G.
    - apply IH. apply forallb_forall. intros x Hx.
      apply (check_monotone s h s' x G). rewrite forallb_forall in Hr. apply Hr. exact Hx.
    - exfalso. unfold get_parameter in G. unfold check_parameter in Hh.
      destruct ((0 <=? h) && known s h); [discriminate|]. simpl in Hh. rewrite Hh in G. simpl in G. discriminate.
  Qed.

  (* repaired order: whatever the parameter table and the s-matrix, a refused standard leaves the
     vnacal_new_t summary (registered parameters, unknown count, measurement count) as it was *)
  Lemma rejected_standard_adds_nothing_l : forall s cells s' v r,
    add_standard_validate_first valid unknown s cells = (s', Refuse v r) -> s' = s.
  Proof.
    intros s cells s' v r. unfold add_standard_validate_first.
    destruct (forallb (check_parameter valid s) cells) eqn:C.
    - pose proof (register_after_check_l cells s C) as R.
      destruct (register_cells valid unknown s cells) as [s1 b]. simpl in R. subst b. discriminate.
    - intro H. inversion H. reflexivity.
  Qed.

  (* and a standard is refused by the repaired order exactly when the old order refused it *)
  Lemma add_standard_same_verdict_l : forall s cells,
    is_pass (snd (add_standard_validate_first valid unknown s cells)) = is_pass (snd (add_standard_register_first valid unknown s cells)) /\
    (is_pass (snd (add_standard_validate_first valid unknown s cells)) = true ->
     add_standard_validate_first valid unknown s cells = add_standard_register_first valid unknown s cells).
  Proof.
    intros s cells. unfold add_standard_validate_first, add_standard_register_first.
    destruct (forallb (check_parameter valid s) cells) eqn:C.
    - destruct (register_cells valid unknown s cells) as [s1 b]; split; reflexivity || (intros; reflexivity).
    - assert (R : snd (register_cells valid unknown s cells) = false).
      { clear - C. revert s C. induction cells as [|h r IH]; intros s C; simpl in *; [discriminate|].
        apply andb_false_iff in C.
        destruct (get_parameter valid unknown s h) as [s'|] eqn:G; [|reflexivity].
        destruct C as [C|C].
        - exfalso. unfold get_parameter in G. unfold check_parameter in C.
          destruct ((0 <=? h) && known s h); [discriminate|]. simpl in C. rewrite C in G. discriminate.
        - apply IH. destruct (forallb (check_parameter valid s') r) eqn:F; [|reflexivity].
          exfalso. (* a cell refused against s is refused against the larger s' unless it was registered
                      meanwhile, which needs it to be valid: then it was not refused against s *)
          assert (M : forall x, check_parameter valid s' x = true -> check_parameter valid s x = true).
          { intros x Hx. unfold get_parameter in G.
            destruct ((0 <=? h) && known s h); [inversion G; subst; exact Hx|].
            destruct (negb (valid h)) eqn:V; [discriminate|]. inversion G; subst. clear G.
            unfold check_parameter in *. apply orb_true_iff in Hx. apply orb_true_iff.
            destruct Hx as [Hx|Hx]; [|right; exact Hx].
            apply andb_true_iff in Hx. destruct Hx as [A B]. unfold known in B. simpl in B.
            rewrite existsb_app in B. apply orb_true_iff in B. destruct B as [B|B].
            - left. apply andb_true_iff. split; assumption.
            - right. simpl in B. rewrite orb_false_r in B. apply Z.eqb_eq in B. subst x.
              apply negb_false_iff in V. exact V. }
          assert (forallb (check_parameter valid s) r = true).
          { apply forallb_forall. intros x Hx. apply M. rewrite forallb_forall in F. apply F. exact Hx. }
          congruence. }
      destruct (register_cells valid unknown s cells) as [s1 b]. simpl in R. subst b. split; [reflexivity | discriminate].
  Qed.

  (* the order of the working tree (tied): when the translator finds the validation pass in front of
     the registration loop, a refused standard leaves the summary as it was - and a standard whose
     cells all passed the validation is accepted *)
  Lemma rejected_standard_current_l : forall s cells s' v r,
    gen_add_common_prevalidates = true ->
    add_standard_current valid unknown s cells = (s', Refuse v r) -> s' = s.
  Proof.
    intros s cells s' v r G. unfold add_standard_current. rewrite G. apply rejected_standard_adds_nothing_l.
  Qed.

  Lemma validated_standard_accepted_l : forall s cells,
    gen_add_common_prevalidates = true -> forallb (check_parameter valid s) cells = true ->
    snd (add_standard_current valid unknown s cells) = Pass.
  Proof.
    intros s cells G C. unfold add_standard_current, add_standard_validate_first. rewrite G, C.
    pose proof (register_after_check_l cells s C) as R.
    destruct (register_cells valid unknown s cells) as [s1 b]. simpl in R. subst b. reflexivity.
  Qed.
End AddCommonProofs.

(* model variant (no validation pass: the order before the repair of D17; the tied model takes it
   when gen_add_common_prevalidates = false).  Handles 0..5 valid, 5 an unknown parameter, 99 invalid:
   the standard (5, 99) is refused but leaves 5 registered and counted *)
Lemma model_variant_register_first_keeps_registrations_l :
  exists valid unknown s cells s',
    add_standard_register_first valid unknown s cells = (s', Refuse VM1 (Via USAGE)) /\ s' <> s.
Proof.
  exists (fun h => (0 <=? h) && (h <=? 5)), (fun h => h =? 5), (mknew [0] 0 0), [5; 99],
         (mknew [0; 5] 1 0).
  split; [vm_compute; reflexivity | discriminate].
Qed.

Example rejected_standard_example :
  add_standard_validate_first (fun h => (0 <=? h) && (h <=? 5)) (fun h => h =? 5) (mknew [0] 0 0) [5; 99]
    = (mknew [0] 0 0, Refuse VM1 (Via USAGE)) /\
  add_standard_validate_first (fun h => (0 <=? h) && (h <=? 5)) (fun h => h =? 5) (mknew [0] 0 0) [5; 3]
    = (mknew [0; 5; 3] 1 1, Pass).
Proof. split; vm_compute; reflexivity. Qed.

(* ---------------------------------------------------------------- D54 *)
Lemma vset_checks_einval : forall d c, In c (vset_checks d) -> forall x y, c x = Some y -> y = einval_m1.
Proof.
  intros d c H x y E. simpl in H. destruct H as [H|[H|[H|[]]]]; subst c.
  - destruct (pd_parse_ok d); [discriminate | inversion E; reflexivity].
  - destruct (pd_tail_assignable d); [discriminate | inversion E; reflexivity].
  - destruct (pd_token d); try discriminate; inversion E; reflexivity.
Qed.

Lemma vset_subtree_checks_einval : forall d c, In c (vset_subtree_checks d) -> forall x y, c x = Some y -> y = einval_null.
Proof.
  intros d c H x y E. simpl in H. destruct H as [H|[H|[]]]; subst c.
  - destruct (pd_parse_ok d); [discriminate | inversion E; reflexivity].
  - destruct (pd_token d); try discriminate; inversion E; reflexivity.
Qed.

Lemma vset_no_late : forall sk d t t' v r, run (vset_body sk d) t <> (t', MLate v r).
Proof.
  intros. unfold vset_body. apply assemble_no_late. intros k x. unfold vset_writes.
  destruct (Nat.eqb (S k) (count_writes sk)); [reflexivity|]. destruct (Nat.eqb k 0); reflexivity.
Qed.

(* for every order of the statements of vnaproperty_vset that has the three tests in front of the
   first write, every tree and every descriptor: a refused set leaves the tree as it was, is silent,
   -1, EINVAL *)
Lemma refused_property_set_unchanged_l : forall sk t d t' v r,
  checks_first sk = true ->
  vset_in_order sk t d = (t', Refuse v r) -> t' = t /\ v = VM1 /\ r = Direct E_INVAL /\ callbacks r = 0%nat.
Proof.
  intros sk t d t' v r Hc. unfold vset_in_order. destruct (run (vset_body sk d) t) as [t1 m] eqn:E.
  destruct m as [|v1 r1|v1 r1]; simpl; intro H; inversion H; subst.
  - assert (P : (v, r) = einval_m1).
    { unfold vset_body in E. eapply (assemble_refusal_from ptree (fun y => y = einval_m1)); [|exact E].
      apply vset_checks_einval. }
    inversion P; subst. split; [|repeat split].
    unfold vset_body in E. eapply assemble_refused_unchanged; eassumption.
  - exfalso. eapply vset_no_late; eassumption.
Qed.

Lemma refused_set_subtree_unchanged_l : forall sk t d t' v r,
  checks_first sk = true ->
  vset_subtree_in_order sk t d = (t', Refuse v r) -> t' = t /\ v = VNULL /\ r = Direct E_INVAL.
Proof.
  intros sk t d t' v r Hc. unfold vset_subtree_in_order. destruct (run (vset_subtree_body sk d) t) as [t1 m] eqn:E.
  destruct m as [|v1 r1|v1 r1]; simpl; intro H; inversion H; subst.
  - assert (P : (v, r) = einval_null).
    { unfold vset_subtree_body in E. eapply (assemble_refusal_from ptree (fun y => y = einval_null)); [|exact E].
      apply vset_subtree_checks_einval. }
    inversion P; subst. split; [|repeat split].
    unfold vset_subtree_body in E. eapply assemble_refused_unchanged; eassumption.
  - exfalso. unfold vset_subtree_body in E. eapply assemble_no_late; [|exact E]. intros k x. reflexivity.
Qed.

(* as found in the working tree: tests first, one hand-written test per refusing statement *)
Lemma vset_orders_l :
  checks_first gen_order_vnaproperty_vset = true /\
  checks_first gen_order_vnaproperty_vset_subtree = true /\
  count_checks gen_order_vnaproperty_vset = 3%nat /\
  count_checks gen_order_vnaproperty_vset_subtree = 2%nat.
Proof. repeat split; reflexivity. Qed.

(* descending twice along the same path is descending once *)
Lemma update_entry_ext : forall es k (f g : ptree -> ptree), (forall x, f x = g x) -> update_entry es k f = update_entry es k g.
Proof.
  induction es as [|[k' t] r IH]; intros k f g H; simpl; [rewrite H; reflexivity|].
  destruct (k' =? k); [rewrite H; reflexivity | rewrite (IH k f g H); reflexivity].
Qed.

Lemma update_entry_twice : forall es k (f g : ptree -> ptree),
  update_entry (update_entry es k g) k f = update_entry es k (fun x => f (g x)).
Proof.
  induction es as [|[k' t] r IH]; intros k f g; simpl.
  - rewrite Z.eqb_refl. reflexivity.
  - destruct (k' =? k) eqn:E; simpl; rewrite E; [reflexivity | rewrite IH; reflexivity].
Qed.

Lemma descend_set_twice : forall path (f g : ptree -> ptree) t,
  descend_set path f (descend_set path g t) = descend_set path (fun x => f (g x)) t.
Proof.
  induction path as [|k r IH]; intros f g t; simpl; [reflexivity|].
  destruct t as [|v|es]; simpl; try (rewrite Z.eqb_refl; rewrite IH; reflexivity).
  rewrite update_entry_twice. f_equal. apply update_entry_ext. intro x. apply IH.
Qed.

Lemma assign_conform : forall path v t, assign path v (conform path t) = assign path v t.
Proof. intros. unfold assign, conform. rewrite descend_set_twice. reflexivity. Qed.

(* an accepted set, in the order of the working tree: the tree with the value assigned at the path *)
Lemma vset_accepted_l : forall t path v,
  vset t (mkpdesc true path true (TkAssign v)) = (assign path (PScalar v) t, Pass) /\
  vset t (mkpdesc true path true TkHash) = (assign path PNull t, Pass) /\
  vset_subtree t (mkpdesc true path true TkEof) = (conform path t, Pass).
Proof.
  intros. repeat split; unfold vset, vset_subtree, vset_in_order, vset_subtree_in_order, vset_body, vset_subtree_body;
    simpl; rewrite ?assign_conform; reflexivity.
Qed.

(* model variant (the order before the repair of D54: descend, then the tests): root {1: "7"}, set
   "1.2" without a value is refused and leaves {1: {2: ~}} - the premise checks_first is needed *)
Lemma model_variant_descend_first_changes_tree_l :
  checks_first order_variant_descend_first = false /\
  exists t d t' v r, vset_in_order order_variant_descend_first t d = (t', Refuse v r) /\ t' <> t.
Proof.
  split; [reflexivity|].
  exists (PMap [(1, PScalar 7)]), (mkpdesc true [1; 2] true TkEof), (PMap [(1, PMap [(2, PNull)])]), VM1, (Direct E_INVAL).
  split; [vm_compute; reflexivity | discriminate].
Qed.

Example property_set_example :
  vset (PMap [(1, PScalar 7)]) (mkpdesc true [1; 2] true TkEof) = (PMap [(1, PScalar 7)], Refuse VM1 (Direct E_INVAL)) /\
  vset (PMap [(1, PScalar 7)]) (mkpdesc true [1] false (TkAssign 9)) = (PMap [(1, PScalar 7)], Refuse VM1 (Direct E_INVAL)) /\
  vset (PMap [(1, PScalar 7)]) (mkpdesc false [] true TkOther) = (PMap [(1, PScalar 7)], Refuse VM1 (Direct E_INVAL)) /\
  vset (PMap [(1, PScalar 7)]) (mkpdesc true [1; 2] true (TkAssign 9)) = (PMap [(1, PMap [(2, PScalar 9)])], Pass) /\
  vset_subtree (PMap [(1, PScalar 7)]) (mkpdesc true [1; 2] true (TkAssign 9)) = (PMap [(1, PScalar 7)], Refuse VNULL (Direct E_INVAL)) /\
  vset_subtree (PMap [(1, PScalar 7)]) (mkpdesc true [1; 2] true TkEof) = (PMap [(1, PMap [(2, PNull)])], Pass).
Proof. repeat split; vm_compute; reflexivity. Qed.
