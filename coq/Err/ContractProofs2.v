(* C11: a rejected standard adds nothing (_vnacal_new_add_common in the order found in the C text), a
   refused property set changes nothing (vnaproperty_vset in the order found in the C text), and the
   model variants with the other order (D17, D54), in which the statements fail. *)
Require Import List ZArith QArith Bool Lia.
Import ListNotations.
Require Import LV.Err.ErrBase LV.Gen.ErrnoGen LV.Err.OrderModel LV.Err.OrderProofs LV.Err.RefutedModel.
Open Scope Z_scope.

(* ---------------------------------------------------------------- D17 *)
(* s' holds every registration of s and has the same calibration range *)
Definition extends (s s' : newsum) : Prop :=
  (forall h, known s h = true -> known s' h = true) /\ n_calrange s' = n_calrange s.

Lemma extends_refl : forall s, extends s s.
Proof. intro s. split; auto. Qed.

Lemma extends_trans : forall a b c, extends a b -> extends b c -> extends a c.
Proof. intros a b c [K1 R1] [K2 R2]. split; [auto | congruence]. Qed.

Lemma extends_register : forall s h u c, extends s (register s h u c).
Proof.
  intros s h u c. split; [|reflexivity]. intros x H. unfold known, register in *. simpl.
  rewrite existsb_app, H. reflexivity.
Qed.

Lemma node_ok_ext : forall s s' c, extends s s' -> node_ok s' c = node_ok s c.
Proof. intros s s' c [_ R]. unfold node_ok. rewrite R. reflexivity. Qed.

Lemma known_ext : forall s s' h, extends s s' -> (0 <=? h) && known s h = true -> (0 <=? h) && known s' h = true.
Proof.
  intros s s' h [K _] H. apply andb_true_iff in H. destruct H as [A B]. rewrite A, (K h B). reflexivity.
Qed.

(* the validation of a chain against a larger table: still passes *)
Lemma check_mono : forall rc s s' c, extends s s' -> check_chain_with rc s c = true -> check_chain_with rc s' c = true.
Proof.
  intros rc s s' c E. induction c as [h|h live unk a b|h live sg o IH]; simpl; intro H.
  - destruct ((0 <=? h) && known s h) eqn:K; [|discriminate]. rewrite (known_ext s s' h E K). reflexivity.
  - destruct ((0 <=? h) && known s h) eqn:K; [rewrite (known_ext s s' h E K); reflexivity|].
    destruct ((0 <=? h) && known s' h); [reflexivity|]. rewrite (node_ok_ext s s' _ E). exact H.
  - destruct ((0 <=? h) && known s h) eqn:K; [rewrite (known_ext s s' h E K); reflexivity|].
    destruct ((0 <=? h) && known s' h); [reflexivity|]. rewrite (node_ok_ext s s' _ E).
    apply andb_true_iff in H. destruct H as [N C]. rewrite N. simpl. destruct rc; [apply IH; exact C | reflexivity].
Qed.

(* a chain that passed the validation WITH the walk down to the correlate is registered without a
   refusal - whether or not the registration itself walks down *)
Lemma check_then_get : forall rg c s, check_chain_with true s c = true ->
  exists s', get_chain_with rg s c = Some s' /\ extends s s'.
Proof.
  intros rg c. induction c as [h|h live unk a b|h live sg o IH]; simpl; intros s H.
  - destruct ((0 <=? h) && known s h); [|discriminate]. exists s. split; [reflexivity | apply extends_refl].
  - destruct ((0 <=? h) && known s h); [exists s; split; [reflexivity | apply extends_refl]|].
    rewrite H. eexists. split; [reflexivity | apply extends_register].
  - destruct ((0 <=? h) && known s h); [exists s; split; [reflexivity | apply extends_refl]|].
    apply andb_true_iff in H. destruct H as [N C]. rewrite N. destruct rg.
    + destruct (IH s C) as [s1 [G E]]. rewrite G. eexists. split; [reflexivity|].
      eapply extends_trans; [exact E | apply extends_register].
    + eexists. split; [reflexivity | apply extends_register].
Qed.

(* once every cell has passed the (recursive) validation the registration loop cannot refuse *)
Lemma register_after_check_with : forall rg cells s,
  forallb (check_chain_with true s) cells = true -> snd (register_cells_with rg s cells) = true.
Proof.
  intros rg. induction cells as [|c r IH]; intros s H; simpl in *; [reflexivity|].
  apply andb_true_iff in H. destruct H as [Hc Hr].
  destruct (check_then_get rg c s Hc) as [s1 [G E]]. rewrite G. apply IH.
  apply forallb_forall. intros x Hx. apply (check_mono true s s1 x E).
  rewrite forallb_forall in Hr. apply Hr. exact Hx.
Qed.

Lemma register_after_check_l : gen_check_parameter_recurses = true -> forall cells s,
  forallb (check_parameter s) cells = true -> snd (register_cells s cells) = true.
Proof.
  intros G cells s. unfold check_parameter, register_cells. rewrite G. apply register_after_check_with.
Qed.

(* repaired order with the walk down to the correlate in the validation: whatever the parameter chains
   of the S matrix and the table, a refused standard leaves the vnacal_new_t summary (registered
   parameters, unknown and correlated counts, measurement count) as it was *)
Lemma rejected_standard_adds_nothing_with : forall rg s cells s' v r,
  add_standard_validate_first_with true rg s cells = (s', Refuse v r) -> s' = s.
Proof.
  intros rg s cells s' v r. unfold add_standard_validate_first_with.
  destruct (forallb (check_chain_with true s) cells) eqn:C.
  - pose proof (register_after_check_with rg cells s C) as R.
    destruct (register_cells_with rg s cells) as [s1 b]. simpl in R. subst b. discriminate.
  - intro H. inversion H. reflexivity.
Qed.

(* the order of the working tree (tied): when the translator finds the validation pass in front of the
   registration loop AND the walk down to the correlate inside the validation, a refused standard leaves
   the summary as it was - and a standard whose cells all passed the validation is accepted *)
Lemma rejected_standard_current_l : forall s cells s' v r,
  gen_add_common_prevalidates = true -> gen_check_parameter_recurses = true ->
  add_standard_current s cells = (s', Refuse v r) -> s' = s.
Proof.
  intros s cells s' v r G R. unfold add_standard_current, add_standard_validate_first. rewrite G, R.
  apply rejected_standard_adds_nothing_with.
Qed.

Lemma validated_standard_accepted_l : forall s cells,
  gen_add_common_prevalidates = true -> gen_check_parameter_recurses = true ->
  forallb (check_parameter s) cells = true ->
  snd (add_standard_current s cells) = Pass.
Proof.
  intros s cells G R C. unfold add_standard_current, add_standard_validate_first, add_standard_validate_first_with.
  unfold check_parameter in C. rewrite G. rewrite R in *. rewrite C.
  pose proof (register_after_check_with gen_get_parameter_recurses cells s C) as P.
  destruct (register_cells_with gen_get_parameter_recurses s cells) as [s1 b]. simpl in P. subst b. reflexivity.
Qed.

(* ---- the two hand-written orders on S matrices WITHOUT correlated parameters whose validity is a function of
   the handle (ok): they refuse the same standards and do the same on the accepted ones.  (With chains the two
   orders can differ on inconsistent data - the same handle with two different chains -, which no vnacal_t has.) *)
Definition flat_ok (ok : Z -> bool) (s : newsum) (c : pchain) : Prop :=
  match c with ChCorr _ _ _ _ => False | _ => node_ok s c = ok (chain_handle c) end.

Lemma flat_ok_ext : forall ok s s' c, extends s s' -> flat_ok ok s c -> flat_ok ok s' c.
Proof.
  intros ok s s' c E H. destruct c; simpl in *; try exact H; rewrite (node_ok_ext s s' _ E); exact H.
Qed.

Lemma flat_check : forall ok rc s c, flat_ok ok s c ->
  check_chain_with rc s c = ((0 <=? chain_handle c) && known s (chain_handle c)) || ok (chain_handle c).
Proof.
  intros ok rc s c H. destruct c as [h|h live unk a b|h live sg o]; simpl in *; [| |contradiction].
  - rewrite <- H. unfold node_ok. simpl. destruct ((0 <=? h) && known s h); reflexivity.
  - rewrite <- H. destruct ((0 <=? h) && known s h); reflexivity.
Qed.

Lemma flat_get : forall ok rg s c, flat_ok ok s c ->
  (check_chain_with true s c = false -> get_chain_with rg s c = None) /\
  (forall s', get_chain_with rg s c = Some s' ->
     extends s s' /\ forall x, known s' x = true -> known s x = true \/ (x = chain_handle c /\ ok x = true)).
Proof.
  intros ok rg s c H. destruct c as [h|h live unk a b|h live sg o]; simpl in *; [| |contradiction].
  - destruct ((0 <=? h) && known s h).
    + split; [discriminate|]. intros s' E. inversion E; subst. split; [apply extends_refl | auto].
    + split; [reflexivity | discriminate].
  - destruct ((0 <=? h) && known s h).
    + split; [discriminate|]. intros s' E. inversion E; subst. split; [apply extends_refl | auto].
    + split; [intro N; rewrite N; reflexivity|].
      destruct (node_ok s (ChEnd h live unk a b)) eqn:N; [|discriminate].
      intros s' E. inversion E; subst. split; [apply extends_register|].
      intros x Kx. unfold known, register in Kx. simpl in Kx. rewrite existsb_app in Kx.
      apply orb_true_iff in Kx. destruct Kx as [Kx|Kx]; [left; exact Kx|].
      simpl in Kx. rewrite orb_false_r in Kx. apply Z.eqb_eq in Kx. subst x. right. split; [reflexivity | symmetry; exact H].
Qed.

Lemma flat_refused_either_way : forall ok rg cells s,
  Forall (flat_ok ok s) cells -> forallb (check_chain_with true s) cells = false ->
  snd (register_cells_with rg s cells) = false.
Proof.
  intros ok rg. induction cells as [|c r IH]; intros s F C; simpl in *; [discriminate|].
  inversion F as [|? ? Fc Fr]; subst.
  destruct (flat_get ok rg s c Fc) as [G1 G2].
  destruct (get_chain_with rg s c) as [s'|] eqn:G; [|reflexivity].
  destruct (G2 s' eq_refl) as [E K].
  apply andb_false_iff in C. destruct C as [C|C]; [discriminate (G1 C)|].
  apply IH.
  - eapply Forall_impl; [|exact Fr]. intros x Hx. eapply flat_ok_ext; eassumption.
  - destruct (forallb (check_chain_with true s') r) eqn:R; [|reflexivity]. exfalso.
    assert (A : forallb (check_chain_with true s) r = true); [|congruence].
    apply forallb_forall. intros x Hx. rewrite forallb_forall in R. pose proof (R x Hx) as Rx.
    rewrite Forall_forall in Fr. pose proof (Fr x Hx) as Fx.
    rewrite (flat_check ok true s' x (flat_ok_ext ok s s' x E Fx)) in Rx. rewrite (flat_check ok true s x Fx).
    apply orb_true_iff in Rx. apply orb_true_iff. destruct Rx as [Rx|Rx]; [|right; exact Rx].
    apply andb_true_iff in Rx. destruct Rx as [P Kx]. destruct (K _ Kx) as [K0|[_ Ko]].
    + left. rewrite P, K0. reflexivity.
    + right. exact Ko.
Qed.

Lemma add_standard_same_verdict_l : forall ok rg s cells,
  Forall (flat_ok ok s) cells ->
  is_pass (snd (add_standard_validate_first_with true rg s cells)) = is_pass (snd (add_standard_register_first_with rg s cells)) /\
  (is_pass (snd (add_standard_validate_first_with true rg s cells)) = true ->
   add_standard_validate_first_with true rg s cells = add_standard_register_first_with rg s cells).
Proof.
  intros ok rg s cells F. unfold add_standard_validate_first_with, add_standard_register_first_with.
  destruct (forallb (check_chain_with true s) cells) eqn:C.
  - destruct (register_cells_with rg s cells) as [s1 b]; split; reflexivity || (intros; reflexivity).
  - pose proof (flat_refused_either_way ok rg cells s F C) as R.
    destruct (register_cells_with rg s cells) as [s1 b]. simpl in R. subst b. split; [reflexivity | discriminate].
Qed.

(* cells made from a table without correlated parameters (flat_cell) are of that kind when no frequency vector
   has been given (every range fits) *)
Lemma flat_cells_ok : forall valid unknown s hs,
  n_calrange s = None -> Forall (flat_ok valid s) (map (flat_cell valid unknown) hs).
Proof.
  intros valid unknown s hs N. apply Forall_forall. intros c Hc. apply in_map_iff in Hc. destruct Hc as [h [E _]]. subst c.
  unfold flat_cell. destruct (valid h) eqn:V; simpl; unfold node_ok, range_fits; rewrite N; simpl; rewrite V; reflexivity.
Qed.

(* as found in the C text: the validation loop precedes the registration loop, the validation walks down
   to the correlate of a correlated parameter, and so does the registration *)
Lemma add_prevalidation_as_found_l :
  gen_add_common_prevalidates = true /\ gen_check_parameter_recurses = true /\ gen_get_parameter_recurses = true.
Proof. repeat split; reflexivity. Qed.

(* ---- concrete tables used by the examples and the model variants: calibration range 1..3 (GHz),
   handle 4 a vector parameter over 1..3, 5 a fresh unknown parameter, 7 -> 6 -> 4 correlated parameters
   where 6 has its own sigma frequencies 2..3 (too narrow) and 7 has none; 9 -> 8 -> 4 with 8 deleted *)
Definition ex_s0 : newsum := mknew [0] 0 0 0 (Some (1%Q, 3%Q)).
Definition ex_v4 : pchain := ChEnd 4 true false 1%Q (Some 3%Q).
Definition ex_u5 : pchain := ChEnd 5 true true 0%Q None.
Definition ex_c7_narrow : pchain := ChCorr 7 true None (ChCorr 6 true (Some (2%Q, 3%Q)) ex_v4).
Definition ex_c9_deleted : pchain := ChCorr 9 true None (ChCorr 8 false None ex_v4).
Definition ex_c11_good : pchain := ChCorr 11 true None (ChCorr 10 true (Some (1%Q, 3%Q)) ex_v4).

(* model variant (no validation pass: the order before the repair of D17; the tied model takes it
   when gen_add_common_prevalidates = false): the standard (5, 99) is refused but leaves 5 registered *)
Lemma model_variant_register_first_keeps_registrations_l :
  exists rg s cells s',
    add_standard_register_first_with rg s cells = (s', Refuse VM1 (Via USAGE)) /\ s' <> s.
Proof.
  exists true, ex_s0, [ex_u5; ChNone 99], (mknew [0; 5] 1 0 0 (Some (1%Q, 3%Q))).
  split; [vm_compute; reflexivity | discriminate].
Qed.

(* model variant (validation pass without the walk down to the correlate - the tied model takes it when
   gen_check_parameter_recurses = false; seeded change C11-4): the standard (5, 7) with 7 -> 6 -> 4 and 6
   too narrow passes the validation, the registration registers 5 and then refuses 6: the rejected
   standard has added an unknown.  The same with a deleted correlate.  The premise
   gen_check_parameter_recurses = true of rejected_standard_current_l is needed. *)
Lemma model_variant_shallow_check_keeps_registrations_l :
  (exists s', add_standard_validate_first_with false true ex_s0 [ex_u5; ex_c7_narrow] = (s', Refuse VM1 (Via USAGE)) /\ s' <> ex_s0) /\
  (exists s', add_standard_validate_first_with false true ex_s0 [ex_u5; ex_c9_deleted] = (s', Refuse VM1 (Via USAGE)) /\ s' <> ex_s0) /\
  add_standard_validate_first_with true true ex_s0 [ex_u5; ex_c7_narrow] = (ex_s0, Refuse VM1 (Via USAGE)) /\
  add_standard_validate_first_with true true ex_s0 [ex_u5; ex_c9_deleted] = (ex_s0, Refuse VM1 (Via USAGE)).
Proof.
  repeat split.
  - exists (mknew [0; 5] 1 0 0 (Some (1%Q, 3%Q))). split; [vm_compute; reflexivity | discriminate].
  - exists (mknew [0; 5] 1 0 0 (Some (1%Q, 3%Q))). split; [vm_compute; reflexivity | discriminate].
Qed.

Example rejected_standard_example :
  add_standard_validate_first_with true true ex_s0 [ex_u5; ChNone 99] = (ex_s0, Refuse VM1 (Via USAGE)) /\
  add_standard_validate_first_with true true ex_s0 [ex_u5; ChEnd 3 true false 0%Q None]
    = (mknew [0; 5; 3] 1 0 1 (Some (1%Q, 3%Q)), Pass) /\
  (* a chain of two correlated parameters over the vector parameter: registered deepest first *)
  add_standard_validate_first_with true true ex_s0 [ex_u5; ex_c11_good]
    = (mknew [0; 5; 4; 10; 11] 3 2 1 (Some (1%Q, 3%Q)), Pass) /\
  (* the too narrow correlate is fine as long as no frequency vector has been given *)
  add_standard_validate_first_with true true (mknew [0] 0 0 0 None) [ex_u5; ex_c7_narrow]
    = (mknew [0; 5; 4; 6; 7] 3 2 1 None, Pass) /\
  (* ... or when it is already registered (hash look-up first) *)
  snd (add_standard_validate_first_with true true (mknew [0; 6] 1 1 0 (Some (1%Q, 3%Q))) [ex_u5; ex_c7_narrow]) = Pass.
Proof. repeat split; vm_compute; reflexivity. Qed.

(* ---------------------------------------------------------------- D54 *)
Lemma vset_checks_einval : forall d c, In c (vset_checks d) -> forall x y, c x = Some y -> y = einval_m1.
Proof.
  intros d c H x y E. simpl in H. destruct H as [H|[H|[H|[]]]]; subst c.
  - destruct (pd_parse_ok d); [discriminate | inversion E; reflexivity].
  - destruct (pd_tail_assignable d); [discriminate | inversion E; reflexivity].
  - destruct (pd_token d); try discriminate; inversion E; reflexivity.
Qed.

Lemma vset_subtree_checks_einval : forall d c, In c (vset_subtree_checks d) -> forall x y, c x = Some y -> y = einval_null.
Proof.
  intros d c H x y E. simpl in H. destruct H as [H|[H|[]]]; subst c.
  - destruct (pd_parse_ok d); [discriminate | inversion E; reflexivity].
  - destruct (pd_token d); try discriminate; inversion E; reflexivity.
Qed.

Lemma vset_no_late : forall sk d t t' v r, run (vset_body sk d) t <> (t', MLate v r).
Proof.
  intros. unfold vset_body. apply assemble_no_late. intros k x. unfold vset_writes.
  destruct (Nat.eqb (S k) (count_writes sk)); [reflexivity|]. destruct (Nat.eqb k 0); reflexivity.
Qed.

(* for every order of the statements of vnaproperty_vset that has the three tests in front of the
   first write, every tree and every descriptor: a refused set leaves the tree as it was, is silent,
   -1, EINVAL *)
Lemma refused_property_set_unchanged_l : forall sk t d t' v r,
  checks_first sk = true ->
  vset_in_order sk t d = (t', Refuse v r) -> t' = t /\ v = VM1 /\ r = Direct E_INVAL /\ callbacks r = 0%nat.
Proof.
  intros sk t d t' v r Hc. unfold vset_in_order. destruct (run (vset_body sk d) t) as [t1 m] eqn:E.
  destruct m as [|v1 r1|v1 r1]; simpl; intro H; inversion H; subst.
  - assert (P : (v, r) = einval_m1).
    { unfold vset_body in E. eapply (assemble_refusal_from ptree (fun y => y = einval_m1)); [|exact E].
      apply vset_checks_einval. }
    inversion P; subst. split; [|repeat split].
    unfold vset_body in E. eapply assemble_refused_unchanged; eassumption.
  - exfalso. eapply vset_no_late; eassumption.
Qed.

Lemma refused_set_subtree_unchanged_l : forall sk t d t' v r,
  checks_first sk = true ->
  vset_subtree_in_order sk t d = (t', Refuse v r) -> t' = t /\ v = VNULL /\ r = Direct E_INVAL.
Proof.
  intros sk t d t' v r Hc. unfold vset_subtree_in_order. destruct (run (vset_subtree_body sk d) t) as [t1 m] eqn:E.
  destruct m as [|v1 r1|v1 r1]; simpl; intro H; inversion H; subst.
  - assert (P : (v, r) = einval_null).
    { unfold vset_subtree_body in E. eapply (assemble_refusal_from ptree (fun y => y = einval_null)); [|exact E].
      apply vset_subtree_checks_einval. }
    inversion P; subst. split; [|repeat split].
    unfold vset_subtree_body in E. eapply assemble_refused_unchanged; eassumption.
  - exfalso. unfold vset_subtree_body in E. eapply assemble_no_late; [|exact E]. intros k x. reflexivity.
Qed.

(* as found in the working tree: tests first, one hand-written test per refusing statement *)
Lemma vset_orders_l :
  checks_first gen_order_vnaproperty_vset = true /\
  checks_first gen_order_vnaproperty_vset_subtree = true /\
  count_checks gen_order_vnaproperty_vset = 3%nat /\
  count_checks gen_order_vnaproperty_vset_subtree = 2%nat.
Proof. repeat split; reflexivity. Qed.

(* descending twice along the same path is descending once *)
Lemma update_entry_ext : forall es k (f g : ptree -> ptree), (forall x, f x = g x) -> update_entry es k f = update_entry es k g.
Proof.
  induction es as [|[k' t] r IH]; intros k f g H; simpl; [rewrite H; reflexivity|].
  destruct (k' =? k); [rewrite H; reflexivity | rewrite (IH k f g H); reflexivity].
Qed.

Lemma update_entry_twice : forall es k (f g : ptree -> ptree),
  update_entry (update_entry es k g) k f = update_entry es k (fun x => f (g x)).
Proof.
  induction es as [|[k' t] r IH]; intros k f g; simpl.
  - rewrite Z.eqb_refl. reflexivity.
  - destruct (k' =? k) eqn:E; simpl; rewrite E; [reflexivity | rewrite IH; reflexivity].
Qed.

Lemma descend_set_twice : forall path (f g : ptree -> ptree) t,
  descend_set path f (descend_set path g t) = descend_set path (fun x => f (g x)) t.
Proof.
  induction path as [|k r IH]; intros f g t; simpl; [reflexivity|].
  destruct t as [|v|es]; simpl; try (rewrite Z.eqb_refl; rewrite IH; reflexivity).
  rewrite update_entry_twice. f_equal. apply update_entry_ext. intro x. apply IH.
Qed.

Lemma assign_conform : forall path v t, assign path v (conform path t) = assign path v t.
Proof. intros. unfold assign, conform. rewrite descend_set_twice. reflexivity. Qed.

(* an accepted set, in the order of the working tree: the tree with the value assigned at the path *)
Lemma vset_accepted_l : forall t path v,
  vset t (mkpdesc true path true (TkAssign v)) = (assign path (PScalar v) t, Pass) /\
  vset t (mkpdesc true path true TkHash) = (assign path PNull t, Pass) /\
  vset_subtree t (mkpdesc true path true TkEof) = (conform path t, Pass).
Proof.
  intros. repeat split; unfold vset, vset_subtree, vset_in_order, vset_subtree_in_order, vset_body, vset_subtree_body;
    simpl; rewrite ?assign_conform; reflexivity.
Qed.

(* model variant (the order before the repair of D54: descend, then the tests): root {1: "7"}, set
   "1.2" without a value is refused and leaves {1: {2: ~}} - the premise checks_first is needed *)
Lemma model_variant_descend_first_changes_tree_l :
  checks_first order_variant_descend_first = false /\
  exists t d t' v r, vset_in_order order_variant_descend_first t d = (t', Refuse v r) /\ t' <> t.
Proof.
  split; [reflexivity|].
  exists (PMap [(1, PScalar 7)]), (mkpdesc true [1; 2] true TkEof), (PMap [(1, PMap [(2, PNull)])]), VM1, (Direct E_INVAL).
  split; [vm_compute; reflexivity | discriminate].
Qed.

Example property_set_example :
  vset (PMap [(1, PScalar 7)]) (mkpdesc true [1; 2] true TkEof) = (PMap [(1, PScalar 7)], Refuse VM1 (Direct E_INVAL)) /\
  vset (PMap [(1, PScalar 7)]) (mkpdesc true [1] false (TkAssign 9)) = (PMap [(1, PScalar 7)], Refuse VM1 (Direct E_INVAL)) /\
  vset (PMap [(1, PScalar 7)]) (mkpdesc false [] true TkOther) = (PMap [(1, PScalar 7)], Refuse VM1 (Direct E_INVAL)) /\
  vset (PMap [(1, PScalar 7)]) (mkpdesc true [1; 2] true (TkAssign 9)) = (PMap [(1, PMap [(2, PScalar 9)])], Pass) /\
  vset_subtree (PMap [(1, PScalar 7)]) (mkpdesc true [1; 2] true (TkAssign 9)) = (PMap [(1, PScalar 7)], Refuse VNULL (Direct E_INVAL)) /\
  vset_subtree (PMap [(1, PScalar 7)]) (mkpdesc true [1; 2] true TkEof) = (PMap [(1, PMap [(2, PNull)])], Pass).
Proof. repeat split; vm_compute; reflexivity. Qed.
