(* C11 base vocabulary (hand-written, no proofs): error categories of vnaerr.h, errno classes,
   documented category -> errno table of vnaerr(3), failure values and outcomes.

   The *generated* table (LV.Gen.ErrnoGen, translator translate/errno_table.py) is stated over
   the same types; theorem errno_table (Err/ContractProofs.v, Properties_C11.v) compares them. *)
Require Import List ZArith Bool.
Import ListNotations.
Open Scope Z_scope.

(* enum vnaerr_category of vnaerr(3), in the documented order *)
Inductive category : Type :=
| SYSTEM | USAGE | VERSION | SYNTAX | WARNING | MATH | INTERNAL.

Definition all_categories : list category :=
  [SYSTEM; USAGE; VERSION; SYNTAX; WARNING; MATH; INTERNAL].

(* errno classes.  E_SYS = "errno as the failing system call left it" (ENOMEM, ENOENT from
   fopen, ...); E_ZERO = 0 (warnings). *)
Inductive errno_class : Type :=
| E_SYS | E_ZERO | E_INVAL | E_DOM | E_BADMSG | E_NOENT | E_NOPROTOOPT | E_NOSYS.

Definition category_eqb (a b : category) : bool :=
  match a, b with
  | SYSTEM, SYSTEM | USAGE, USAGE | VERSION, VERSION | SYNTAX, SYNTAX
  | WARNING, WARNING | MATH, MATH | INTERNAL, INTERNAL => true
  | _, _ => false
  end.

Definition errno_eqb (a b : errno_class) : bool :=
  match a, b with
  | E_SYS, E_SYS | E_ZERO, E_ZERO | E_INVAL, E_INVAL | E_DOM, E_DOM | E_BADMSG, E_BADMSG
  | E_NOENT, E_NOENT | E_NOPROTOOPT, E_NOPROTOOPT | E_NOSYS, E_NOSYS => true
  | _, _ => false
  end.

(* the table of vnaerr(3), section DESCRIPTION, copied by hand from the manual page:
     VNAERR_SYSTEM system errno; VNAERR_USAGE EINVAL; VNAERR_VERSION ENOPROTOOPT;
     VNAERR_SYNTAX EBADMSG; VNAERR_WARNING 0; VNAERR_MATH EDOM; VNAERR_INTERNAL ENOSYS *)
Definition doc_errno (c : category) : errno_class :=
  match c with
  | SYSTEM => E_SYS
  | USAGE => E_INVAL
  | VERSION => E_NOPROTOOPT
  | SYNTAX => E_BADMSG
  | WARNING => E_ZERO
  | MATH => E_DOM
  | INTERNAL => E_NOSYS
  end.

(* position in the enum (C enumerators without initialisers count from 0) *)
Definition doc_code (c : category) : Z :=
  match c with
  | SYSTEM => 0 | USAGE => 1 | VERSION => 2 | SYNTAX => 3 | WARNING => 4 | MATH => 5 | INTERNAL => 6
  end.

(* documented failure values *)
Inductive fval : Type :=
| VM1        (* -1   : int-valued functions *)
| VNULL      (* NULL : pointer-valued functions *)
| VHUGE.     (* HUGE_VAL : double and double complex valued functions *)

Definition fval_eqb (a b : fval) : bool :=
  match a, b with VM1, VM1 | VNULL, VNULL | VHUGE, VHUGE => true | _, _ => false end.

(* how a refusal is reported *)
Inductive report : Type :=
| Direct (e : errno_class)    (* errno = e; the error function is not called *)
| Via (c : category).         (* through _vnaerr_verror: one call of the error function *)

Inductive outcome : Type :=
| Pass                         (* all argument checks passed; the function goes on to its work *)
| Refuse (v : fval) (r : report).

Definition callbacks (r : report) : nat :=
  match r with Direct _ => 0%nat | Via _ => 1%nat end.

Definition is_pass (o : outcome) : bool := match o with Pass => true | _ => false end.
