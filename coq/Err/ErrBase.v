(* C11 base vocabulary (hand-written, no proofs): error categories of vnaerr.h, errno classes,
   documented category -> errno table of vnaerr(3), failure values and outcomes.

   The *generated* table (LV.Gen.ErrnoGen, translator translate/errno_table.py) is stated over
   the same types; theorem errno_table (Err/ContractProofs.v, Properties_C11.v) compares them. *)
Require Import List ZArith Bool.
Import ListNotations.
Open Scope Z_scope.

(* enum vnaerr_category of vnaerr(3), in the documented order *)
Inductive category : Type :=
| SYSTEM | USAGE | VERSION | SYNTAX | WARNING | MATH | INTERNAL.

Definition all_categories : list category :=
  [SYSTEM; USAGE; VERSION; SYNTAX; WARNING; MATH; INTERNAL].

(* errno classes.  E_SYS = "errno as the failing system call left it" (ENOMEM, ENOENT from
   fopen, ...); E_ZERO = 0 (warnings). *)
Inductive errno_class : Type :=
| E_SYS | E_ZERO | E_INVAL | E_DOM | E_BADMSG | E_NOENT | E_NOPROTOOPT | E_NOSYS.

Definition category_eqb (a b : category) : bool :=
  match a, b with
  | SYSTEM, SYSTEM | USAGE, USAGE | VERSION, VERSION | SYNTAX, SYNTAX
  | WARNING, WARNING | MATH, MATH | INTERNAL, INTERNAL => true
  | _, _ => false
  end.

Definition errno_eqb (a b : errno_class) : bool :=
  match a, b with
  | E_SYS, E_SYS | E_ZERO, E_ZERO | E_INVAL, E_INVAL | E_DOM, E_DOM | E_BADMSG, E_BADMSG
  | E_NOENT, E_NOENT | E_NOPROTOOPT, E_NOPROTOOPT | E_NOSYS, E_NOSYS => true
  | _, _ => false
  end.

(* the table of vnaerr(3), section DESCRIPTION, copied by hand from the manual page:
     VNAERR_SYSTEM system errno; VNAERR_USAGE EINVAL; VNAERR_VERSION ENOPROTOOPT;
     VNAERR_SYNTAX EBADMSG; VNAERR_WARNING 0; VNAERR_MATH EDOM; VNAERR_INTERNAL ENOSYS *)
Definition doc_errno (c : category) : errno_class :=
  match c with
  | SYSTEM => E_SYS
  | USAGE => E_INVAL
  | VERSION => E_NOPROTOOPT
  | SYNTAX => E_BADMSG
  | WARNING => E_ZERO
  | MATH => E_DOM
  | INTERNAL => E_NOSYS
  end.

(* position in the enum (C enumerators without initialisers count from 0) *)
Definition doc_code (c : category) : Z :=
  match c with
  | SYSTEM => 0 | USAGE => 1 | VERSION => 2 | SYNTAX => 3 | WARNING => 4 | MATH => 5 | INTERNAL => 6
  end.

(* documented failure values *)
Inductive fval : Type :=
| VM1        (* -1   : int-valued functions *)
| VNULL      (* NULL : pointer-valued functions *)
| VHUGE.     (* HUGE_VAL : double and double complex valued functions *)

Definition fval_eqb (a b : fval) : bool :=
  match a, b with VM1, VM1 | VNULL, VNULL | VHUGE, VHUGE => true | _, _ => false end.

(* how a refusal is reported *)
Inductive report : Type :=
| Direct (e : errno_class)    (* errno = e; the error function is not called *)
| Via (c : category).         (* through _vnaerr_verror: one call of the error function *)

Inductive outcome : Type :=
| Pass                         (* all argument checks passed; the function goes on to its work *)
| Refuse (v : fval) (r : report)
| Fault.                       (* the C code dereferences a NULL object pointer: no defined answer *)

Definition callbacks (r : report) : nat :=
  match r with Direct _ => 0%nat | Via _ => 1%nat end.

Definition is_pass (o : outcome) : bool := match o with Pass => true | _ => false end.

(* ------------------------------------------------------------------ order of checks and writes *)
(* Events in the body of an API function, in the order of the C text (generated per function by
   translate/errno_orders.py into LV.Gen.ErrnoGen.gen_order_<function>):
     EvH  handle test (NULL / magic number): errno = EINVAL, failure value, no report
     EvC  refusing argument check (report, failure value), no write
     EvA  exit on a failed allocation (VNAERR_SYSTEM): not an argument refusal, outside the model (C12)
     EvS  early successful exit (may write; control does not come back)
     EvW  write to the object
     EvF  write that can fail ("fails later in its work")
     EvX  call with the object as argument that the translator cannot classify: counted as a write *)
Inductive ev : Type := EvH | EvC | EvA | EvS | EvW | EvF | EvX.

Definition is_check (e : ev) : bool := match e with EvH | EvC => true | _ => false end.
Definition is_write (e : ev) : bool := match e with EvW | EvF | EvX => true | _ => false end.

(* every handle test and every refusing argument check precedes the first write *)
Fixpoint checks_first (sk : list ev) : bool :=
  match sk with
  | [] => true
  | e :: r => if is_write e then negb (existsb is_check r) else checks_first r
  end.

Definition has_write (sk : list ev) : bool := existsb is_write sk.
