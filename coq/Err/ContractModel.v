(* C11: argument-checking prologues *as coded* of two representative families, as total decision
   functions (no proofs in this file).

   vnadata family  (src/vnadata.h inline functions, vnadata_alloc.c, vnadata_{get,set}_*z0*.c,
                    vnadata_add_frequency.c, vnadata_set_{filetype,fprecision,dprecision}.c)
   vnacal query family (src/vnacal_get.c, vnacal_find_calibration.c, vnacal_delete_calibration.c,
                    vnacal_property.c:_get_property_root, vnacal_calibration.c:_vnacal_add_calibration_common)

   A check function maps (summary of the object, arguments) to
     Pass                     every test in front of the function's work passed
     Refuse v (Direct e)      "errno = e; return v;"            (error function not called)
     Refuse v (Via c)         "_vna*_error(..., c, ...); return v;"  (one call of the error function,
                              errno = gen_errno_of c by _vnaerr_verror)
   The work itself (copying cells, reallocating, ...) is abstracted: only its effect on the summary
   is modelled (sum_after), because later checks depend on nothing else.

   C int arguments are Z; overflow of rows * columns (D40) is outside this model.  The four z0 port
   tests take their comparison operator from the C text (LV.Gen.ErrnoGen.gen_*_strict, candidate D4). *)
Require Import List ZArith Bool.
Import ListNotations.
Require Import LV.Err.ErrBase LV.Gen.ErrnoGen.
Open Scope Z_scope.

(* ------------------------------------------------------------------ vnadata *)
Record dsum : Type := mkdsum {
  d_type : Z;          (* vd_type: VPT_UNDEF = 0 ... VPT_ZIN = 10 *)
  d_rows : Z;
  d_cols : Z;
  d_freqs : Z;
  d_fz0 : bool         (* VF_PER_F_Z0 *)
}.

Definition ports (s : dsum) : Z := Z.max (d_rows s) (d_cols s).

Inductive dcall : Type :=
| CInit (t r c f : Z)
| CResize (t r c f : Z)
| CSetType (t : Z)
| CGetFrequency (i : Z)
| CSetFrequency (i : Z)
| CGetFmin
| CGetFmax
| CGetCell (f r c : Z)
| CSetCell (f r c : Z)
| CGetMatrix (f : Z)
| CSetMatrix (f : Z)
| CGetToVector (r c : Z)
| CSetFromVector (r c : Z)
| CGetZ0 (p : Z)
| CSetZ0 (p : Z)
| CGetZ0Vector
| CSetZ0Vector
| CSetAllZ0
| CGetFz0 (f p : Z)
| CSetFz0 (f p : Z)
| CGetFz0Vector (f : Z)
| CSetFz0Vector (f : Z)
| CAddFrequency (negative : bool)
| CSetFiletype (t : Z)
| CSetFprecision (p : Z)
| CSetDprecision (p : Z).

(* failure value of each function (its C return type) *)
Definition doc_fval (c : dcall) : fval :=
  match c with
  | CGetFrequency _ | CGetFmin | CGetFmax | CGetCell _ _ _ | CGetZ0 _ | CGetFz0 _ _ => VHUGE
  | CGetMatrix _ | CGetZ0Vector | CGetFz0Vector _ => VNULL
  | _ => VM1
  end.

(* functions that test vdp == NULL before anything else (the others dereference it) *)
Definition null_checked (c : dcall) : bool :=
  match c with
  | CSetFrequency _ => false
  | _ => true
  end.

(* validate_type() of vnadata_alloc.c: true = consistent *)
Definition validate_type (t r c : Z) : bool :=
  if t =? 0 then true
  else if (t =? 1) || (t =? 4) || (t =? 5) then r =? c
  else if (t =? 2) || (t =? 3) || (t =? 6) || (t =? 7) || (t =? 8) || (t =? 9) then (r =? 2) && (c =? 2)
  else if t =? 10 then r =? 1
  else false.

Definition bad_index (i n : Z) : bool := (i <? 0) || (i >=? n).
Definition bad_port (strict : bool) (p n : Z) : bool :=
  (p <? 0) || (if strict then p >=? n else p >? n).

Definition usage (v : fval) : outcome := Refuse v (Via USAGE).

Definition check_resize (t r c f : Z) : outcome :=
  if r <? 0 then usage VM1
  else if c <? 0 then usage VM1
  else if f <? 0 then usage VM1
  else if negb (validate_type t r c) then usage VM1
  else Pass.

Definition check_data_some (s : dsum) (c : dcall) : outcome :=
  let v := doc_fval c in
  match c with
  | CInit t r cc f => check_resize t r cc f
  | CResize t r cc f => check_resize t r cc f
  | CSetType t => if negb (validate_type t (d_rows s) (d_cols s)) then usage v else Pass
  | CGetFrequency i | CSetFrequency i | CGetMatrix i | CSetMatrix i | CGetFz0Vector i | CSetFz0Vector i =>
      if bad_index i (d_freqs s) then usage v else Pass
  | CGetFmin | CGetFmax => if d_freqs s =? 0 then usage v else Pass
  | CGetCell f r cc | CSetCell f r cc =>
      if bad_index f (d_freqs s) then usage v
      else if bad_index r (d_rows s) then usage v
      else if bad_index cc (d_cols s) then usage v
      else Pass
  | CGetToVector r cc | CSetFromVector r cc =>
      if bad_index r (d_rows s) then usage v
      else if bad_index cc (d_cols s) then usage v
      else Pass
  | CGetZ0 p =>
      if bad_port gen_get_z0_strict p (ports s) then usage v
      else if d_fz0 s then usage v
      else Pass
  | CSetZ0 p => if bad_port gen_set_z0_strict p (ports s) then usage v else Pass
  | CGetZ0Vector => if d_fz0 s then usage v else Pass
  | CSetZ0Vector | CSetAllZ0 => Pass
  | CGetFz0 f p =>
      if bad_index f (d_freqs s) then usage v
      else if bad_port gen_get_fz0_strict p (ports s) then usage v
      else Pass
  | CSetFz0 f p =>
      if bad_index f (d_freqs s) then usage v
      else if bad_port gen_set_fz0_strict p (ports s) then usage v
      else Pass
  | CAddFrequency neg => if neg then usage v else Pass
  | CSetFiletype t => if (0 <=? t) && (t <=? 3) then Pass else usage v
  | CSetFprecision p | CSetDprecision p => if p <? 1 then usage v else Pass
  end.

(* with the handle: NULL is answered by "errno = EINVAL; return <failure>" without a report *)
Definition check_data (h : option dsum) (c : dcall) : outcome :=
  match h with
  | None => Refuse (doc_fval c) (Direct E_INVAL)
  | Some s => check_data_some s c
  end.

(* effect of the work on the summary when the checks pass *)
Definition cleared (s : dsum) : dsum := mkdsum 0 0 0 0 false.
    (* vnadata_init first does resize(UNDEF,0,0,0) and set_all_z0(50): set_all_z0 leaves z0 mode *)

Definition sum_after (s : dsum) (c : dcall) : dsum :=
  match c with
  | CInit t r cc f => mkdsum t r cc f false
  | CResize t r cc f => mkdsum t r cc f (d_fz0 s)
  | CSetType t => mkdsum t (d_rows s) (d_cols s) (d_freqs s) (d_fz0 s)
  | CSetZ0 _ | CSetZ0Vector | CSetAllZ0 => mkdsum (d_type s) (d_rows s) (d_cols s) (d_freqs s) false
  | CSetFz0 _ _ | CSetFz0Vector _ => mkdsum (d_type s) (d_rows s) (d_cols s) (d_freqs s) true
  | CAddFrequency _ => mkdsum (d_type s) (d_rows s) (d_cols s) (d_freqs s + 1) (d_fz0 s)
  | _ => s
  end.

(* what a refused call leaves behind: everything returns before its first write, except
   vnadata_init, which has already emptied the object when the final resize refuses *)
Definition sum_refused (s : dsum) (c : dcall) : dsum :=
  match c with
  | CInit _ _ _ _ => cleared s
  | _ => s
  end.

(* an object = summary + everything else (cells, frequencies, z0 values, save options), abstract *)
Section DataStep.
  Variable payload : Type.
  Record dobj : Type := mkdobj { o_sum : dsum; o_rest : payload }.
  Variable work : dobj -> dcall -> payload.        (* the abstracted mutation *)
  Variable wipe : payload -> payload.              (* vnadata_init's clearing of cells / z0 *)

  Definition data_step (o : dobj) (c : dcall) : dobj * outcome :=
    match check_data_some (o_sum o) c with
    | Pass => (mkdobj (sum_after (o_sum o) c) (work o c), Pass)
    | r => (match c with
            | CInit _ _ _ _ => mkdobj (cleared (o_sum o)) (wipe (o_rest o))
            | _ => o
            end, r)
    end.
End DataStep.

Definition data_inv (s : dsum) : Prop :=
  0 <= d_rows s /\ 0 <= d_cols s /\ 0 <= d_freqs s /\ validate_type (d_type s) (d_rows s) (d_cols s) = true.

(* the contract the manual pages state for this family (vnadata(3) RETURN VALUE, vnaerr(3)):
   failure value by return type, EINVAL, one report through the error function when there is an
   object to take the error function from, none for a NULL handle *)
Definition doc_data_refusal (h : option dsum) (c : dcall) (o : outcome) : Prop :=
  match o with
  | Pass => True
  | Refuse v r =>
      v = doc_fval c /\
      match r with Direct e => e | Via cat => doc_errno cat end = E_INVAL /\
      callbacks r = match h with None => 0%nat | Some _ => 1%nat end
  end.

(* specification side: which argument tuples the manual allows (indices within the dimensions,
   dimensions consistent with the type, ...) *)
Definition in_range (i n : Z) : bool := (0 <=? i) && (i <? n).
Definition doc_data_valid (s : dsum) (c : dcall) : bool :=
  match c with
  | CInit t r cc f | CResize t r cc f => (0 <=? r) && (0 <=? cc) && (0 <=? f) && validate_type t r cc
  | CSetType t => validate_type t (d_rows s) (d_cols s)
  | CGetFrequency i | CSetFrequency i | CGetMatrix i | CSetMatrix i | CGetFz0Vector i | CSetFz0Vector i =>
      in_range i (d_freqs s)
  | CGetFmin | CGetFmax => 0 <? d_freqs s
  | CGetCell f r cc | CSetCell f r cc => in_range f (d_freqs s) && in_range r (d_rows s) && in_range cc (d_cols s)
  | CGetToVector r cc | CSetFromVector r cc => in_range r (d_rows s) && in_range cc (d_cols s)
  | CGetZ0 p => in_range p (ports s) && negb (d_fz0 s)
  | CSetZ0 p => in_range p (ports s)
  | CGetZ0Vector => negb (d_fz0 s)
  | CSetZ0Vector | CSetAllZ0 => true
  | CGetFz0 f p | CSetFz0 f p => in_range f (d_freqs s) && in_range p (ports s)
  | CAddFrequency neg => negb neg
  | CSetFiletype t => (0 <=? t) && (t <=? 3)
  | CSetFprecision p | CSetDprecision p => 1 <=? p
  end.

(* is the call one of the four whose port test comes from the C text, and is that test strict? *)
Definition port_test_strict (c : dcall) : bool :=
  match c with
  | CGetZ0 _ => gen_get_z0_strict
  | CSetZ0 _ => gen_set_z0_strict
  | CGetFz0 _ _ => gen_get_fz0_strict
  | CSetFz0 _ _ => gen_set_fz0_strict
  | _ => true
  end.

(* ------------------------------------------------------------------ vnacal query family *)
(* vc_calibration_vector: one entry per allocated slot, None = free / deleted, Some n = a
   calibration whose name has identity n *)
Definition slots := list (option Z).

Definition slot_at (sl : slots) (ci : Z) : option Z :=
  if (ci <? 0) || (ci >=? Z.of_nat (length sl)) then None else nth (Z.to_nat ci) sl None.

Inductive qcall : Type :=
| QGet (v : fval) (ci : Z)          (* vnacal_get_name/type/rows/.../z0: v = its failure value *)
| QFind (name : Z)
| QDelete (ci : Z)
| QProperty (v : fval) (ci : Z).    (* vnacal_property_*: ci = -1 is the global root *)

(* _vnacal_get_calibration *)
Definition check_get (sl : slots) (v : fval) (ci : Z) : outcome :=
  if (ci <? 0) || (ci >=? Z.of_nat (length sl)) then Refuse v (Direct E_INVAL)
  else match nth (Z.to_nat ci) sl None with
       | None => Refuse v (Direct E_INVAL)
       | Some _ => Pass
       end.

Fixpoint find_from (sl : slots) (name : Z) (k : Z) : option Z :=
  match sl with
  | [] => None
  | x :: r => match x with
              | Some n => if n =? name then Some k else find_from r name (k + 1)
              | None => find_from r name (k + 1)
              end
  end.
Definition find_slot (sl : slots) (name : Z) : option Z := find_from sl name 0.

Definition check_query_some (sl : slots) (c : qcall) : outcome :=
  match c with
  | QGet v ci => check_get sl v ci
  | QFind name => match find_slot sl name with Some _ => Pass | None => Refuse VM1 (Direct E_NOENT) end
  | QDelete ci => match slot_at sl ci with Some _ => Pass | None => Refuse VM1 (Direct E_NOENT) end
  | QProperty v ci => if ci =? -1 then Pass else check_get sl v ci
  end.

Definition query_fval (c : qcall) : fval :=
  match c with QGet v _ => v | QFind _ => VM1 | QDelete _ => VM1 | QProperty v _ => v end.

Definition check_query (h : option slots) (c : qcall) : outcome :=
  match h with
  | None => Refuse (query_fval c) (Direct E_INVAL)      (* vcp == NULL || bad magic *)
  | Some sl => check_query_some sl c
  end.

Fixpoint set_nth (sl : slots) (k : nat) (x : option Z) : slots :=
  match sl, k with
  | [], _ => []
  | _ :: r, O => x :: r
  | y :: r, S k' => y :: set_nth r k' x
  end.

Definition slots_after (sl : slots) (c : qcall) : slots :=
  match c with
  | QDelete ci => set_nth sl (Z.to_nat ci) None
  | _ => sl
  end.

Definition query_step (sl : slots) (c : qcall) : slots * outcome :=
  match check_query_some sl c with
  | Pass => (slots_after sl c, Pass)
  | r => (sl, r)
  end.

(* _vnacal_add_calibration_common (after the D8 fix: the slot index is returned) *)
Fixpoint first_free_from (sl : slots) (k : Z) : option Z :=
  match sl with
  | [] => None
  | None :: _ => Some k
  | Some _ :: r => first_free_from r (k + 1)
  end.

Definition grown (n : nat) : nat :=
  match n with O => 1%nat | S O => 8%nat | _ => (2 * n)%nat end.

Definition add_calibration (sl : slots) (name : Z) : slots * Z :=
  match find_slot sl name with
  | Some k => (set_nth sl (Z.to_nat k) (Some name), k)            (* replace the calibration of that name *)
  | None =>
      match first_free_from sl 0 with
      | Some k => (set_nth sl (Z.to_nat k) (Some name), k)
      | None =>
          let n := length sl in
          (sl ++ Some name :: repeat None (grown n - n - 1), Z.of_nat n)
      end
  end.

(* names of live calibrations are pairwise distinct (kept by add_calibration) *)
Fixpoint live_names (sl : slots) : list Z :=
  match sl with
  | [] => []
  | Some n :: r => n :: live_names r
  | None :: r => live_names r
  end.
Definition slots_inv (sl : slots) : Prop := NoDup (live_names sl).

(* documented contract of the silent queries (vnacal(3) RETURN VALUE): failure value, errno EINVAL
   or ENOENT, the error function is not called *)
Definition doc_query_refusal (h : option slots) (c : qcall) (o : outcome) : Prop :=
  match o with
  | Pass => True
  | Refuse v r =>
      v = query_fval c /\ callbacks r = 0%nat /\
      match r with
      | Direct e => match h, c with
                    | None, _ => e = E_INVAL                        (* invalid vnacal_t *)
                    | Some _, QFind _ => e = E_NOENT               (* "name ... wasn't found" *)
                    | Some _, QDelete _ => e = E_NOENT \/ e = E_INVAL
                    | Some _, _ => e = E_INVAL
                    end
      | Via _ => False
      end
  end.
