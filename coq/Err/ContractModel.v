(* C11: argument-checking prologues *as coded* of two representative families, as total decision
   functions (no proofs in this file).

   vnadata family  (src/vnadata.h inline functions, vnadata_alloc.c, vnadata_{get,set}_*z0*.c,
                    vnadata_add_frequency.c, vnadata_set_{filetype,fprecision,dprecision}.c)
   vnacal query family (src/vnacal_get.c, vnacal_find_calibration.c, vnacal_delete_calibration.c,
                    vnacal_property.c:_get_property_root, vnacal_calibration.c:_vnacal_add_calibration_common)

   A check function maps (summary of the object, arguments) to
     Pass                     every test in front of the function's work passed
     Refuse v (Direct e)      "errno = e; return v;"            (error function not called)
     Refuse v (Via c)         "_vna*_error(..., c, ...); return v;"  (one call of the error function,
                              errno = gen_errno_of c by _vnaerr_verror)
     Fault                    the C code dereferences the NULL object pointer it was given (no answer)
   The work itself (copying cells, reallocating, ...) is abstracted: only its effect on the summary
   is modelled (sum_after), because later checks depend on nothing else.

   What comes from the C text (LV.Gen.ErrnoGen, regenerated on every run):
     gen_order_<function>    the order of handle tests, argument checks and writes in the body
     gen_handle_<function>   (the NULL test precedes every dereference, the magic number is tested)
     gen_*_strict            the comparison operator of the four z0 port tests (candidate D4)
   A step of the object (data_step, query_step) is a run of the machine of LV.Err.OrderModel over the
   body assembled from the generated order and the hand-written checks (data_checks: one entry per
   refusing top-level C statement, in the order of the C text).

   C int arguments are Z; the rows * columns test of vnadata_resize (INT_MAX / rows, repair of D40) is
   modelled with INT_MAX = 2^31 - 1; wrap-around of other int arithmetic is outside this model. *)
Require Import List ZArith Bool.
Import ListNotations.
Require Import LV.Err.ErrBase LV.Gen.ErrnoGen LV.Err.OrderModel.
Open Scope Z_scope.

(* ------------------------------------------------------------------ vnadata *)
Record dsum : Type := mkdsum {
  d_type : Z;          (* vd_type: VPT_UNDEF = 0 ... VPT_ZIN = 10 *)
  d_rows : Z;
  d_cols : Z;
  d_freqs : Z;
  d_fz0 : bool         (* VF_PER_F_Z0 *)
}.

Definition ports (s : dsum) : Z := Z.max (d_rows s) (d_cols s).

Inductive dcall : Type :=
| CInit (t r c f : Z)
| CResize (t r c f : Z)
| CSetType (t : Z)
| CGetFrequency (i : Z)
| CSetFrequency (i : Z)
| CGetFmin
| CGetFmax
| CGetCell (f r c : Z)
| CSetCell (f r c : Z)
| CGetMatrix (f : Z)
| CSetMatrix (f : Z)
| CGetToVector (r c : Z)
| CSetFromVector (r c : Z)
| CGetZ0 (p : Z)
| CSetZ0 (p : Z)
| CGetZ0Vector
| CSetZ0Vector
| CSetAllZ0
| CGetFz0 (f p : Z)
| CSetFz0 (f p : Z)
| CGetFz0Vector (f : Z)
| CSetFz0Vector (f : Z)
| CAddFrequency (negative : bool)
| CSetFiletype (t : Z)
| CSetFprecision (p : Z)
| CSetDprecision (p : Z).

(* failure value of each function (its C return type) *)
Definition doc_fval (c : dcall) : fval :=
  match c with
  | CGetFrequency _ | CGetFmin | CGetFmax | CGetCell _ _ _ | CGetZ0 _ | CGetFz0 _ _ => VHUGE
  | CGetMatrix _ | CGetZ0Vector | CGetFz0Vector _ => VNULL
  | _ => VM1
  end.

(* the C function behind each call: its generated order of events and its handle tests *)
Definition dcall_order (c : dcall) : list ev :=
  match c with
  | CInit _ _ _ _ => gen_order_vnadata_init
  | CResize _ _ _ _ => gen_order_vnadata_resize
  | CSetType _ => gen_order_vnadata_set_type
  | CGetFrequency _ => gen_order_vnadata_get_frequency
  | CSetFrequency _ => gen_order_vnadata_set_frequency
  | CGetFmin => gen_order_vnadata_get_fmin
  | CGetFmax => gen_order_vnadata_get_fmax
  | CGetCell _ _ _ => gen_order_vnadata_get_cell
  | CSetCell _ _ _ => gen_order_vnadata_set_cell
  | CGetMatrix _ => gen_order_vnadata_get_matrix
  | CSetMatrix _ => gen_order_vnadata_set_matrix
  | CGetToVector _ _ => gen_order_vnadata_get_to_vector
  | CSetFromVector _ _ => gen_order_vnadata_set_from_vector
  | CGetZ0 _ => gen_order_vnadata_get_z0
  | CSetZ0 _ => gen_order_vnadata_set_z0
  | CGetZ0Vector => gen_order_vnadata_get_z0_vector
  | CSetZ0Vector => gen_order_vnadata_set_z0_vector
  | CSetAllZ0 => gen_order_vnadata_set_all_z0
  | CGetFz0 _ _ => gen_order_vnadata_get_fz0
  | CSetFz0 _ _ => gen_order_vnadata_set_fz0
  | CGetFz0Vector _ => gen_order_vnadata_get_fz0_vector
  | CSetFz0Vector _ => gen_order_vnadata_set_fz0_vector
  | CAddFrequency _ => gen_order_vnadata_add_frequency
  | CSetFiletype _ => gen_order_vnadata_set_filetype
  | CSetFprecision _ => gen_order_vnadata_set_fprecision
  | CSetDprecision _ => gen_order_vnadata_set_dprecision
  end.

Definition dcall_handle (c : dcall) : bool * bool :=
  match c with
  | CInit _ _ _ _ => gen_handle_vnadata_init
  | CResize _ _ _ _ => gen_handle_vnadata_resize
  | CSetType _ => gen_handle_vnadata_set_type
  | CGetFrequency _ => gen_handle_vnadata_get_frequency
  | CSetFrequency _ => gen_handle_vnadata_set_frequency
  | CGetFmin => gen_handle_vnadata_get_fmin
  | CGetFmax => gen_handle_vnadata_get_fmax
  | CGetCell _ _ _ => gen_handle_vnadata_get_cell
  | CSetCell _ _ _ => gen_handle_vnadata_set_cell
  | CGetMatrix _ => gen_handle_vnadata_get_matrix
  | CSetMatrix _ => gen_handle_vnadata_set_matrix
  | CGetToVector _ _ => gen_handle_vnadata_get_to_vector
  | CSetFromVector _ _ => gen_handle_vnadata_set_from_vector
  | CGetZ0 _ => gen_handle_vnadata_get_z0
  | CSetZ0 _ => gen_handle_vnadata_set_z0
  | CGetZ0Vector => gen_handle_vnadata_get_z0_vector
  | CSetZ0Vector => gen_handle_vnadata_set_z0_vector
  | CSetAllZ0 => gen_handle_vnadata_set_all_z0
  | CGetFz0 _ _ => gen_handle_vnadata_get_fz0
  | CSetFz0 _ _ => gen_handle_vnadata_set_fz0
  | CGetFz0Vector _ => gen_handle_vnadata_get_fz0_vector
  | CSetFz0Vector _ => gen_handle_vnadata_set_fz0_vector
  | CAddFrequency _ => gen_handle_vnadata_add_frequency
  | CSetFiletype _ => gen_handle_vnadata_set_filetype
  | CSetFprecision _ => gen_handle_vnadata_set_fprecision
  | CSetDprecision _ => gen_handle_vnadata_set_dprecision
  end.

(* the function tests vdp == NULL before it dereferences vdp (read from the C text; as found, the
   inline vnadata_set_frequency of vnadata.h does not) *)
Definition null_checked (c : dcall) : bool := fst (dcall_handle c).

(* validate_type() of vnadata_alloc.c: true = consistent *)
Definition validate_type (t r c : Z) : bool :=
  if t =? 0 then true
  else if (t =? 1) || (t =? 4) || (t =? 5) then r =? c
  else if (t =? 2) || (t =? 3) || (t =? 6) || (t =? 7) || (t =? 8) || (t =? 9) then (r =? 2) && (c =? 2)
  else if t =? 10 then r =? 1
  else false.

Definition bad_index (i n : Z) : bool := (i <? 0) || (i >=? n).
Definition bad_port (strict : bool) (p n : Z) : bool :=
  (p <? 0) || (if strict then p >=? n else p >? n).

Definition usage (v : fval) : outcome := Refuse v (Via USAGE).

Definition int_max : Z := 2147483647.
(* "rows != 0 && columns > INT_MAX / rows" (rows >= 0 here: C division = Z division) *)
Definition too_large (r c : Z) : bool := negb (r =? 0) && (c >? int_max / r).

Definition check_resize (t r c f : Z) : outcome :=
  if r <? 0 then usage VM1
  else if c <? 0 then usage VM1
  else if f <? 0 then usage VM1
  else if negb (validate_type t r c) then usage VM1
  else if too_large r c then usage VM1
  else Pass.

Definition check_data_some (s : dsum) (c : dcall) : outcome :=
  let v := doc_fval c in
  match c with
  | CInit t r cc f => check_resize t r cc f
  | CResize t r cc f => check_resize t r cc f
  | CSetType t => if negb (validate_type t (d_rows s) (d_cols s)) then usage v else Pass
  | CGetFrequency i | CSetFrequency i | CGetMatrix i | CSetMatrix i | CGetFz0Vector i | CSetFz0Vector i =>
      if bad_index i (d_freqs s) then usage v else Pass
  | CGetFmin | CGetFmax => if d_freqs s =? 0 then usage v else Pass
  | CGetCell f r cc | CSetCell f r cc =>
      if bad_index f (d_freqs s) then usage v
      else if bad_index r (d_rows s) then usage v
      else if bad_index cc (d_cols s) then usage v
      else Pass
  | CGetToVector r cc | CSetFromVector r cc =>
      if bad_index r (d_rows s) then usage v
      else if bad_index cc (d_cols s) then usage v
      else Pass
  | CGetZ0 p =>
      if bad_port gen_get_z0_strict p (ports s) then usage v
      else if d_fz0 s then usage v
      else Pass
  | CSetZ0 p => if bad_port gen_set_z0_strict p (ports s) then usage v else Pass
  | CGetZ0Vector => if d_fz0 s then usage v else Pass
  | CSetZ0Vector | CSetAllZ0 => Pass
  | CGetFz0 f p =>
      if bad_index f (d_freqs s) then usage v
      else if bad_port gen_get_fz0_strict p (ports s) then usage v
      else Pass
  | CSetFz0 f p =>
      if bad_index f (d_freqs s) then usage v
      else if bad_port gen_set_fz0_strict p (ports s) then usage v
      else Pass
  | CAddFrequency neg => if neg then usage v else Pass
  | CSetFiletype t => if (0 <=? t) && (t <=? 3) then Pass else usage v
  | CSetFprecision p | CSetDprecision p => if p <? 1 then usage v else Pass
  end.

(* the same tests as a list: one entry per refusing top-level statement of the C function, in the
   order of the C text (true = report VNAERR_USAGE and return the failure value) *)
Definition data_checks (c : dcall) : list (dsum -> bool) :=
  match c with
  | CInit t r cc f | CResize t r cc f =>
      [fun _ => r <? 0; fun _ => cc <? 0; fun _ => f <? 0; fun _ => negb (validate_type t r cc); fun _ => too_large r cc]
  | CSetType t => [fun s => negb (validate_type t (d_rows s) (d_cols s))]
  | CGetFrequency i | CSetFrequency i | CGetMatrix i | CSetMatrix i | CGetFz0Vector i | CSetFz0Vector i =>
      [fun s => bad_index i (d_freqs s)]
  | CGetFmin | CGetFmax => [fun s => d_freqs s =? 0]
  | CGetCell f r cc | CSetCell f r cc =>
      [fun s => bad_index f (d_freqs s); fun s => bad_index r (d_rows s); fun s => bad_index cc (d_cols s)]
  | CGetToVector r cc | CSetFromVector r cc => [fun s => bad_index r (d_rows s); fun s => bad_index cc (d_cols s)]
  | CGetZ0 p => [fun s => bad_port gen_get_z0_strict p (ports s); fun s => d_fz0 s]
  | CSetZ0 p => [fun s => bad_port gen_set_z0_strict p (ports s)]
  | CGetZ0Vector => [fun s => d_fz0 s]
  | CSetZ0Vector | CSetAllZ0 => []
  | CGetFz0 f p => [fun s => bad_index f (d_freqs s); fun s => bad_port gen_get_fz0_strict p (ports s)]
  | CSetFz0 f p => [fun s => bad_index f (d_freqs s); fun s => bad_port gen_set_fz0_strict p (ports s)]
  | CAddFrequency neg => [fun _ => neg]
  | CSetFiletype t => [fun _ => negb ((0 <=? t) && (t <=? 3))]
  | CSetFprecision p | CSetDprecision p => [fun _ => p <? 1]
  end.

(* with the handle: a NULL pointer is answered by "errno = EINVAL; return <failure>" without a
   report by the functions that test it; the others dereference it.  (None is the NULL pointer only:
   a pointer to something that is not a vnadata_t is outside the model; the inline accessors of
   vnadata.h do not test the magic number, see gen_handle_*.) *)
Definition check_data (h : option dsum) (c : dcall) : outcome :=
  match h with
  | None => if null_checked c then Refuse (doc_fval c) (Direct E_INVAL) else Fault
  | Some s => check_data_some s c
  end.

(* effect of the work on the summary when the checks pass *)
Definition cleared (s : dsum) : dsum := mkdsum 0 0 0 0 false.
    (* vnadata_init first does resize(UNDEF,0,0,0) and set_all_z0(50): set_all_z0 leaves z0 mode *)

Definition sum_after (s : dsum) (c : dcall) : dsum :=
  match c with
  | CInit t r cc f => mkdsum t r cc f false
  | CResize t r cc f => mkdsum t r cc f (d_fz0 s)
  | CSetType t => mkdsum t (d_rows s) (d_cols s) (d_freqs s) (d_fz0 s)
  | CSetZ0 _ | CSetZ0Vector | CSetAllZ0 => mkdsum (d_type s) (d_rows s) (d_cols s) (d_freqs s) false
  | CSetFz0 _ _ | CSetFz0Vector _ => mkdsum (d_type s) (d_rows s) (d_cols s) (d_freqs s) true
  | CAddFrequency _ => mkdsum (d_type s) (d_rows s) (d_cols s) (d_freqs s + 1) (d_fz0 s)
  | _ => s
  end.

Definition is_init (c : dcall) : bool := match c with CInit _ _ _ _ => true | _ => false end.

(* an object = summary + everything else (cells, frequencies, z0 values, save options), abstract.
   A step runs the body assembled from the generated order of the C function: every EvC event takes
   the next entry of data_checks, every write event k applies the abstract mutation work c k to the
   rest of the object; on the summary the last write of the body has the effect sum_after, and the
   first write of vnadata_init (its vnadata_resize(vdp, VPT_UNDEF, 0, 0, 0)) the effect cleared. *)
Section DataStep.
  Variable payload : Type.
  Record dobj : Type := mkdobj { o_sum : dsum; o_rest : payload }.
  Variable work : dcall -> nat -> dobj -> payload.        (* the abstracted k-th mutation of the call *)

  Definition sum_write (c : dcall) (n k : nat) (s : dsum) : dsum :=
    if Nat.eqb (S k) n then sum_after s c
    else if is_init c && Nat.eqb k 0 then cleared s
    else s.

  Definition data_write (c : dcall) (n k : nat) (o : dobj) : dobj * option refusal :=
    (mkdobj (sum_write c n k (o_sum o)) (work c k o), None).

  Definition data_check_acts (c : dcall) : list (dobj -> option refusal) :=
    map (fun (p : dsum -> bool) (o : dobj) => if p (o_sum o) then Some (doc_fval c, Via USAGE) else None) (data_checks c).

  Definition data_body (c : dcall) : list (act dobj) :=
    assemble (dcall_order c) (data_check_acts c) [] (data_write c (count_writes (dcall_order c))) 0%nat.

  Definition data_run (o : dobj) (c : dcall) : dobj * mres := run (data_body c) o.
  Definition data_step (o : dobj) (c : dcall) : dobj * outcome :=
    let (o', m) := data_run o c in (o', outcome_of m).
End DataStep.

Definition data_inv (s : dsum) : Prop :=
  0 <= d_rows s /\ 0 <= d_cols s /\ 0 <= d_freqs s /\ validate_type (d_type s) (d_rows s) (d_cols s) = true.

(* the contract the manual pages state for this family (vnadata(3) RETURN VALUE, vnaerr(3)):
   failure value by return type, EINVAL, one report through the error function when there is an
   object to take the error function from, none for a NULL handle *)
Definition doc_data_refusal (h : option dsum) (c : dcall) (o : outcome) : Prop :=
  match o with
  | Pass => True
  | Refuse v r =>
      v = doc_fval c /\
      match r with Direct e => e | Via cat => doc_errno cat end = E_INVAL /\
      callbacks r = match h with None => 0%nat | Some _ => 1%nat end
  | Fault => False
  end.

(* specification side: which argument tuples the manual allows (indices within the dimensions,
   dimensions consistent with the type, ...) *)
Definition in_range (i n : Z) : bool := (0 <=? i) && (i <? n).
Definition doc_data_valid (s : dsum) (c : dcall) : bool :=
  match c with
  | CInit t r cc f | CResize t r cc f =>
      (0 <=? r) && (0 <=? cc) && (0 <=? f) && validate_type t r cc && negb (too_large r cc)    (* rows * columns fits an int *)
  | CSetType t => validate_type t (d_rows s) (d_cols s)
  | CGetFrequency i | CSetFrequency i | CGetMatrix i | CSetMatrix i | CGetFz0Vector i | CSetFz0Vector i =>
      in_range i (d_freqs s)
  | CGetFmin | CGetFmax => 0 <? d_freqs s
  | CGetCell f r cc | CSetCell f r cc => in_range f (d_freqs s) && in_range r (d_rows s) && in_range cc (d_cols s)
  | CGetToVector r cc | CSetFromVector r cc => in_range r (d_rows s) && in_range cc (d_cols s)
  | CGetZ0 p => in_range p (ports s) && negb (d_fz0 s)
  | CSetZ0 p => in_range p (ports s)
  | CGetZ0Vector => negb (d_fz0 s)
  | CSetZ0Vector | CSetAllZ0 => true
  | CGetFz0 f p | CSetFz0 f p => in_range f (d_freqs s) && in_range p (ports s)
  | CAddFrequency neg => negb neg
  | CSetFiletype t => (0 <=? t) && (t <=? 3)
  | CSetFprecision p | CSetDprecision p => 1 <=? p
  end.

(* is the call one of the four whose port test comes from the C text, and is that test strict? *)
Definition port_test_strict (c : dcall) : bool :=
  match c with
  | CGetZ0 _ => gen_get_z0_strict
  | CSetZ0 _ => gen_set_z0_strict
  | CGetFz0 _ _ => gen_get_fz0_strict
  | CSetFz0 _ _ => gen_set_fz0_strict
  | _ => true
  end.

(* ------------------------------------------------------------------ vnacal query family *)
(* vc_calibration_vector: one entry per allocated slot, None = free / deleted, Some n = a
   calibration whose name has identity n *)
Definition slots := list (option Z).

Definition slot_at (sl : slots) (ci : Z) : option Z :=
  if (ci <? 0) || (ci >=? Z.of_nat (length sl)) then None else nth (Z.to_nat ci) sl None.

(* the silent getters of vnacal_get.c and the vnacal_property_* functions, with the failure value of
   their C return type (vnacal(3) SYNOPSIS) *)
Inductive getter : Type :=
| GName | GType | GRows | GColumns | GFrequencies | GFmin | GFmax | GFrequencyVector | GZ0.
Definition getter_fval (g : getter) : fval :=
  match g with
  | GName | GFrequencyVector => VNULL
  | GType | GRows | GColumns | GFrequencies => VM1
  | GFmin | GFmax | GZ0 => VHUGE
  end.
Inductive propfn : Type :=
| PfType | PfCount | PfKeys | PfGet | PfSet | PfDelete | PfGetSubtree | PfSetSubtree.
Definition propfn_fval (f : propfn) : fval :=
  match f with
  | PfType | PfCount | PfSet | PfDelete => VM1
  | PfKeys | PfGet | PfGetSubtree | PfSetSubtree => VNULL
  end.

Inductive qcall : Type :=
| QGet (g : getter) (ci : Z)        (* vnacal_get_name/type/rows/.../z0 *)
| QFind (name : Z)
| QDelete (ci : Z)
| QProperty (f : propfn) (ci : Z).  (* the ci argument of vnacal_property_*: ci = -1 is the global root *)

(* _vnacal_get_calibration *)
Definition check_get (sl : slots) (v : fval) (ci : Z) : outcome :=
  if (ci <? 0) || (ci >=? Z.of_nat (length sl)) then Refuse v (Direct E_INVAL)
  else match nth (Z.to_nat ci) sl None with
       | None => Refuse v (Direct E_INVAL)
       | Some _ => Pass
       end.

Fixpoint find_from (sl : slots) (name : Z) (k : Z) : option Z :=
  match sl with
  | [] => None
  | x :: r => match x with
              | Some n => if n =? name then Some k else find_from r name (k + 1)
              | None => find_from r name (k + 1)
              end
  end.
Definition find_slot (sl : slots) (name : Z) : option Z := find_from sl name 0.

Definition query_fval (c : qcall) : fval :=
  match c with QGet g _ => getter_fval g | QFind _ => VM1 | QDelete _ => VM1 | QProperty f _ => propfn_fval f end.

Definition check_query_some (sl : slots) (c : qcall) : outcome :=
  match c with
  | QGet g ci => check_get sl (getter_fval g) ci
  | QFind name => match find_slot sl name with Some _ => Pass | None => Refuse VM1 (Direct E_NOENT) end
  | QDelete ci => match slot_at sl ci with Some _ => Pass | None => Refuse VM1 (Direct E_NOENT) end
  | QProperty f ci => if ci =? -1 then Pass else check_get sl (propfn_fval f) ci
  end.

(* order of events and handle tests of the C function behind each call.  The nine getters share
   _vnacal_get_calibration; the translator checks that each of them takes a const vnacal_t *, does
   nothing but that look-up and writes nothing (gen_query_getters_readonly) - otherwise the order
   [write; check] stands for "unknown". *)
Definition qcall_order (c : qcall) : list ev :=
  match c with
  | QGet _ _ => if gen_query_getters_readonly then gen_order_vnacal_get_calibration else [EvX; EvC]
  | QFind _ => gen_order_vnacal_find_calibration
  | QDelete _ => gen_order_vnacal_delete_calibration
  | QProperty _ _ => gen_order_vnacal_property_root
  end.
Definition qcall_handle (c : qcall) : bool * bool :=
  match c with
  | QGet _ _ => gen_handle_vnacal_get_calibration
  | QFind _ => gen_handle_vnacal_find_calibration
  | QDelete _ => gen_handle_vnacal_delete_calibration
  | QProperty _ _ => gen_handle_vnacal_property_root
  end.

(* None = the NULL pointer (a pointer to something else is outside the model; all these functions
   also test vc_magic, see the gen_handle definitions) *)
Definition check_query (h : option slots) (c : qcall) : outcome :=
  match h with
  | None => if fst (qcall_handle c) then Refuse (query_fval c) (Direct E_INVAL) else Fault
  | Some sl => check_query_some sl c
  end.

Fixpoint set_nth (sl : slots) (k : nat) (x : option Z) : slots :=
  match sl, k with
  | [], _ => []
  | _ :: r, O => x :: r
  | y :: r, S k' => y :: set_nth r k' x
  end.

Definition slots_after (sl : slots) (c : qcall) : slots :=
  match c with
  | QDelete ci => set_nth sl (Z.to_nat ci) None
  | _ => sl
  end.

(* a step on the slot table: the checks, then the work (the deletion) - when the generated order of
   the C function has every check in front of its first write; an early successful exit that writes
   (the "return 0" branch of vnacal_delete_calibration) is not a write in front of a check.  pre is
   the arbitrary effect of a write the model knows nothing about (used only when the order is not
   checks-first). *)
Section QueryStep.
  Variable pre : slots -> slots.
  Definition query_body (c : qcall) : list (act slots) :=
    two_phase (checks_first (qcall_order c)) pre
      (fun sl => match check_query_some sl c with Refuse v r => Some (v, r) | _ => None end)
      (fun sl => (slots_after sl c, None)).
  Definition query_run (sl : slots) (c : qcall) : slots * mres := run (query_body c) sl.
  Definition query_step (sl : slots) (c : qcall) : slots * outcome :=
    let (sl', m) := query_run sl c in (sl', outcome_of m).
End QueryStep.

(* _vnacal_add_calibration_common (after the D8 fix: the slot index is returned) *)
Fixpoint first_free_from (sl : slots) (k : Z) : option Z :=
  match sl with
  | [] => None
  | None :: _ => Some k
  | Some _ :: r => first_free_from r (k + 1)
  end.

Definition grown (n : nat) : nat :=
  match n with O => 1%nat | S O => 8%nat | _ => (2 * n)%nat end.

Definition add_calibration (sl : slots) (name : Z) : slots * Z :=
  match find_slot sl name with
  | Some k => (set_nth sl (Z.to_nat k) (Some name), k)            (* replace the calibration of that name *)
  | None =>
      match first_free_from sl 0 with
      | Some k => (set_nth sl (Z.to_nat k) (Some name), k)
      | None =>
          let n := length sl in
          (sl ++ Some name :: repeat None (grown n - n - 1), Z.of_nat n)
      end
  end.

(* names of live calibrations are pairwise distinct (kept by add_calibration) *)
Fixpoint live_names (sl : slots) : list Z :=
  match sl with
  | [] => []
  | Some n :: r => n :: live_names r
  | None :: r => live_names r
  end.
Definition slots_inv (sl : slots) : Prop := NoDup (live_names sl).

(* documented contract of the silent queries (vnacal(3) RETURN VALUE): failure value, errno EINVAL
   or ENOENT, the error function is not called *)
Definition doc_query_refusal (h : option slots) (c : qcall) (o : outcome) : Prop :=
  match o with
  | Pass => True
  | Refuse v r =>
      v = query_fval c /\ callbacks r = 0%nat /\
      match r with
      | Direct e => match h, c with
                    | None, _ => e = E_INVAL                        (* invalid vnacal_t *)
                    | Some _, QFind _ => e = E_NOENT               (* "name ... wasn't found" *)
                    | Some _, QDelete _ => e = E_NOENT \/ e = E_INVAL   (* vnacal(3) names no class for a missing index *)
                    | Some _, _ => e = E_INVAL
                    end
      | Via _ => False
      end
  | Fault => False
  end.
