(* C11: refused calls can be deleted from any history (lemmas; the theorems are in Properties_C11.v). *)
Require Import List ZArith QArith Bool Lia.
Import ListNotations.
Require Import LV.Err.ErrBase LV.Gen.ErrnoGen LV.Err.OrderModel LV.Err.OrderProofs LV.Err.ContractModel LV.Err.ContractProofs
               LV.Err.RefutedModel LV.Err.ContractProofs2 LV.Err.NewModel LV.Err.NewProofs LV.Err.HistModel.
Require LV.Data.DataModel.
Open Scope Z_scope.

Section HistoryProofs.
  Variables St Op : Type.
  Variable step : St -> Op -> St * mres.

  (* the call, whenever an argument check refuses it, returns the object it was given *)
  Definition unchanged_when_refused (o : Op) : Prop :=
    forall s s' v r, step s o = (s', MRefused v r) -> s' = s.

  Lemma hrun_app : forall a b s,
    hrun step s (a ++ b) =
    (fst (hrun step (fst (hrun step s a)) b), snd (hrun step s a) ++ snd (hrun step (fst (hrun step s a)) b)).
  Proof.
    induction a as [|o a IH]; intros b s; simpl.
    - destruct (hrun step s b); reflexivity.
    - destruct (step s o) as [s1 m]. rewrite (IH b s1).
      destruct (hrun step s1 a) as [s2 l]. simpl. reflexivity.
  Qed.

  (* one refused call, anywhere in a history: the history without it ends in the same object and every
     other call gets the answer it got *)
  Lemma refusals_erasable_l : forall ops1 op ops2 s v r,
    unchanged_when_refused op ->
    snd (step (fst (hrun step s ops1)) op) = MRefused v r ->
    fst (hrun step s (ops1 ++ op :: ops2)) = fst (hrun step s (ops1 ++ ops2)) /\
    snd (hrun step s (ops1 ++ op :: ops2)) =
      snd (hrun step s ops1) ++ MRefused v r :: snd (hrun step (fst (hrun step s ops1)) ops2) /\
    snd (hrun step s (ops1 ++ ops2)) = snd (hrun step s ops1) ++ snd (hrun step (fst (hrun step s ops1)) ops2).
  Proof.
    intros ops1 op ops2 s v r U R. rewrite !hrun_app. simpl.
    destruct (step (fst (hrun step s ops1)) op) as [s1 m] eqn:E. simpl in R. subst m.
    rewrite (U _ _ _ _ E).
    destruct (hrun step (fst (hrun step s ops1)) ops2) as [s2 l]. simpl. repeat split; reflexivity.
  Qed.

  (* all of them at once: the history of the calls that were not refused ends in the same object, and its
     answers are the answers of the full history without the refusals *)
  Lemma all_refusals_erasable_l : forall ops s,
    Forall unchanged_when_refused ops ->
    fst (hrun step s (kept step s ops)) = fst (hrun step s ops) /\
    snd (hrun step s (kept step s ops)) = filter (fun m => negb (arg_refused m)) (snd (hrun step s ops)).
  Proof.
    induction ops as [|o ops IH]; intros s F; simpl; [split; reflexivity|].
    inversion F as [|? ? Uo Fr]; subst.
    destruct (step s o) as [s1 m] eqn:E.
    destruct (arg_refused m) eqn:A.
    - destruct m as [|v r|v r]; try discriminate. rewrite (Uo _ _ _ _ E) in *.
      destruct (IH s Fr) as [H1 H2].
      destruct (hrun step s ops) as [s2 l]. simpl in *. split; assumption.
    - simpl. rewrite E. destruct (IH s1 Fr) as [H1 H2].
      destruct (hrun step s1 (kept step s1 ops)) as [s3 l3]. destruct (hrun step s1 ops) as [s2 l]. simpl in *.
      rewrite A. simpl. split; [assumption | f_equal; assumption].
  Qed.

  (* an invariant kept by every step is kept by every history *)
  Lemma hrun_invariant : forall (Inv : St -> Prop),
    (forall s o, Inv s -> Inv (fst (step s o))) -> forall ops s, Inv s -> Inv (fst (hrun step s ops)).
  Proof.
    intros Inv K. induction ops as [|o ops IH]; intros s I; simpl; [exact I|].
    pose proof (K s o I) as I1. destruct (step s o) as [s1 m]. simpl in I1.
    pose proof (IH s1 I1) as I2. destruct (hrun step s1 ops) as [s2 l]. exact I2.
  Qed.
End HistoryProofs.

Arguments unchanged_when_refused {St Op}.

(* ------------------------------------------------------------------ vnadata family *)
Section DataHistories.
  Variable payload : Type.
  Variable work : dcall -> nat -> dobj payload -> payload.

  Lemma data_call_unchanged_when_refused : forall c,
    checks_first (dcall_order c) = true -> unchanged_when_refused (data_run payload work) c.
  Proof.
    intros c H s s' v r E. unfold data_run, data_body in E. eapply assemble_refused_unchanged; eassumption.
  Qed.

  (* every history of calls of the family whose C function tests before it writes (as found: all but
     vnadata_init): the refused calls can be deleted, the object at the end is the same *)
  Lemma data_refusals_erasable_l : forall ops o,
    Forall (fun c => checks_first (dcall_order c) = true) ops ->
    fst (hrun (data_run payload work) o (kept (data_run payload work) o ops)) = fst (hrun (data_run payload work) o ops) /\
    snd (hrun (data_run payload work) o (kept (data_run payload work) o ops)) =
      filter (fun m => negb (arg_refused m)) (snd (hrun (data_run payload work) o ops)).
  Proof.
    intros ops o F. apply all_refusals_erasable_l.
    apply Forall_forall. intros c Hc. apply data_call_unchanged_when_refused.
    rewrite Forall_forall in F. apply F. exact Hc.
  Qed.

  Lemma data_one_refusal_erasable_l : forall ops1 c ops2 o v r,
    checks_first (dcall_order c) = true ->
    snd (data_run payload work (fst (hrun (data_run payload work) o ops1)) c) = MRefused v r ->
    fst (hrun (data_run payload work) o (ops1 ++ c :: ops2)) = fst (hrun (data_run payload work) o (ops1 ++ ops2)) /\
    snd (hrun (data_run payload work) o (ops1 ++ c :: ops2)) =
      snd (hrun (data_run payload work) o ops1) ++
      MRefused v r :: snd (hrun (data_run payload work) (fst (hrun (data_run payload work) o ops1)) ops2) /\
    snd (hrun (data_run payload work) o (ops1 ++ ops2)) =
      snd (hrun (data_run payload work) o ops1) ++
      snd (hrun (data_run payload work) (fst (hrun (data_run payload work) o ops1)) ops2).
  Proof.
    intros ops1 c ops2 o v r H R. apply refusals_erasable_l; [|exact R].
    apply data_call_unchanged_when_refused. exact H.
  Qed.

  (* the invariant under which the checks are defined holds after every history - vnadata_init included,
     refused or not *)
  Lemma data_history_inv_l : forall ops o,
    data_inv (o_sum payload o) -> data_inv (o_sum payload (fst (hrun (data_run payload work) o ops))).
  Proof.
    intros ops o I.
    apply (hrun_invariant (dobj payload) dcall (data_run payload work) (fun x => data_inv (o_sum payload x))); [|exact I].
    intros s c Is. pose proof (data_inv_preserved_l payload work s c Is) as P.
    unfold data_step in P. destruct (data_run payload work s c) as [s1 m]. exact P.
  Qed.
End DataHistories.

(* with the vnadata_t model of property C15 as the rest of the object: what all public getters answer at the
   end of a history is what they answer at the end of the history without the refused calls *)
Lemma data_history_observe_l : forall (V : Type) work (o : dobj (LV.Data.DataModel.vd V)) ops,
  Forall (fun c => checks_first (dcall_order c) = true) ops ->
  LV.Data.DataModel.observe V (o_rest _ (fst (hrun (data_run _ work) o (kept (data_run _ work) o ops)))) =
  LV.Data.DataModel.observe V (o_rest _ (fst (hrun (data_run _ work) o ops))).
Proof.
  intros V work o ops F. destruct (data_refusals_erasable_l _ work ops o F) as [H _]. rewrite H. reflexivity.
Qed.

(* ------------------------------------------------------------------ vnacal_new_t *)
Section NewHistories.
  Variable payload : Type.
  Variable work : nobj payload -> ncall -> nobj payload.
  Variable pre : nobj payload -> nobj payload.

  Lemma new_call_unchanged_when_refused : forall c,
    ncall_ordered c = true -> unchanged_when_refused (new_run payload work pre) c.
  Proof.
    intros c H s s' v r E. eapply new_arg_refused_unchanged_l; eassumption.
  Qed.

  (* as found in the working tree (new_orders_checks_first_l: every function of the family tests its arguments
     before it writes): EVERY history over the vnacal_new_t - frequency vector, z0, standards, error model,
     limits, solves that pass or fail inside the kernels - can do without its argument refusals *)
  Lemma new_refusals_erasable_l : forall ops o,
    fst (hrun (new_run payload work pre) o (kept (new_run payload work pre) o ops)) = fst (hrun (new_run payload work pre) o ops) /\
    snd (hrun (new_run payload work pre) o (kept (new_run payload work pre) o ops)) =
      filter (fun m => negb (arg_refused m)) (snd (hrun (new_run payload work pre) o ops)).
  Proof.
    intros ops o. apply all_refusals_erasable_l.
    apply Forall_forall. intros c _. apply new_call_unchanged_when_refused. apply new_orders_checks_first_l.
  Qed.

  (* ... and every REFUSED STANDARD is such a refusal: an add is never refused from inside its work *)
  Lemma new_add_refusal_is_arg_refusal_l : forall o a v r,
    gen_add_common_prevalidates = true -> gen_check_parameter_recurses = true ->
    snd (new_step payload work pre o (NAdd a)) = Refuse v r ->
    arg_refused (snd (new_run payload work pre o (NAdd a))) = true.
  Proof.
    intros o a v r G GR H.
    destruct (rejected_standard_adds_nothing_l payload work pre o a v r G GR (new_orders_checks_first_l (NAdd a)) H)
      as [_ [v' [r' E]]].
    rewrite E. reflexivity.
  Qed.
End NewHistories.

(* ------------------------------------------------------------------ parameter table, slot table *)
Lemma param_refusals_erasable_l : forall work pre ops tb,
  fst (hrun (param_run work pre) tb (kept (param_run work pre) tb ops)) = fst (hrun (param_run work pre) tb ops) /\
  snd (hrun (param_run work pre) tb (kept (param_run work pre) tb ops)) =
    filter (fun m => negb (arg_refused m)) (snd (hrun (param_run work pre) tb ops)).
Proof.
  intros work pre ops tb. apply all_refusals_erasable_l.
  apply Forall_forall. intros c _ s s' v r E. unfold param_run, param_body in E.
  eapply two_phase_refused_unchanged; [apply param_orders_checks_first_l | exact E].
Qed.

Lemma query_refusals_erasable_l : forall pre ops sl,
  fst (hrun (query_run pre) sl (kept (query_run pre) sl ops)) = fst (hrun (query_run pre) sl ops) /\
  snd (hrun (query_run pre) sl (kept (query_run pre) sl ops)) =
    filter (fun m => negb (arg_refused m)) (snd (hrun (query_run pre) sl ops)).
Proof.
  intros pre ops sl. apply all_refusals_erasable_l.
  apply Forall_forall. intros c _ s s' v r E. unfold query_run, query_body in E.
  eapply two_phase_refused_unchanged; [apply query_orders_checks_first_l | exact E].
Qed.

(* ------------------------------------------------------------------ standards, one after the other *)
(* under the order and the recursion found in the C text: any sequence of standards - S matrices of arbitrary
   parameter chains - registers exactly what the accepted ones register *)
Lemma standards_refusals_erasable_l : forall stds s,
  gen_add_common_prevalidates = true -> gen_check_parameter_recurses = true ->
  fst (hrun standard_step s (kept standard_step s stds)) = fst (hrun standard_step s stds) /\
  snd (hrun standard_step s (kept standard_step s stds)) =
    filter (fun m => negb (arg_refused m)) (snd (hrun standard_step s stds)).
Proof.
  intros stds s G GR. apply all_refusals_erasable_l.
  apply Forall_forall. intros cells _ s0 s' v r E. unfold standard_step in E.
  destruct (add_standard_current s0 cells) as [s1 oc] eqn:A.
  destruct oc as [|v1 r1|]; try discriminate. inversion E; subst.
  eapply rejected_standard_current_l; eassumption.
Qed.

(* ------------------------------------------------------------------ examples *)
Definition ex_count_work : dcall -> nat -> dobj nat -> nat := fun _ _ o => S (o_rest nat o).
Definition ex_dobj : dobj nat := mkdobj nat (mkdsum 1 2 2 3 false) 0%nat.
Definition ex_dhist : list dcall :=
  [CSetCell 0 0 0; CSetCell 3 0 0; CResize 2 3 3 3; CSetFz0 1 1; CGetCell 0 2 0; CAddFrequency false; CSetZ0 2; CSetCell 3 1 1].

Example data_history_example :
  kept (data_run nat ex_count_work) ex_dobj ex_dhist = [CSetCell 0 0 0; CSetFz0 1 1; CAddFrequency false; CSetCell 3 1 1] /\
  fst (hrun (data_run nat ex_count_work) ex_dobj ex_dhist) = mkdobj nat (mkdsum 1 2 2 4 true) 6%nat /\
  fst (hrun (data_run nat ex_count_work) ex_dobj (kept (data_run nat ex_count_work) ex_dobj ex_dhist))
    = mkdobj nat (mkdsum 1 2 2 4 true) 6%nat /\
  map arg_refused (snd (hrun (data_run nat ex_count_work) ex_dobj ex_dhist)) = [false; true; true; false; true; false; true; false] /\
  Forall (fun c => checks_first (dcall_order c) = true) ex_dhist.
Proof.
  repeat split; try (vm_compute; reflexivity).
  repeat constructor.
Qed.

(* three standards on a T8 2x2 with the frequency vector given: (short, open), (fresh unknown 5, correlated 7
   whose correlate 6 is too narrow), (match, correlated 11 -> 10 -> vector 4): the second is refused and can be
   deleted; with the shallow validation of the model variant it cannot *)
Example standards_history_example :
  let stds := [[ChEnd 2 true false 0%Q None; ChEnd 1 true false 0%Q None]; [ex_u5; ex_c7_narrow];
               [ChEnd 0 true false 0%Q None; ex_c11_good]] in
  kept standard_step ex_s0 stds = [[ChEnd 2 true false 0%Q None; ChEnd 1 true false 0%Q None]; [ChEnd 0 true false 0%Q None; ex_c11_good]] /\
  fst (hrun standard_step ex_s0 stds) = mknew [0; 2; 1; 4; 10; 11] 2 2 2 (Some (1%Q, 3%Q)) /\
  fst (hrun standard_step ex_s0 (kept standard_step ex_s0 stds)) = mknew [0; 2; 1; 4; 10; 11] 2 2 2 (Some (1%Q, 3%Q)).
Proof. repeat split; vm_compute; reflexivity. Qed.
