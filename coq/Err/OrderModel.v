(* C11: a function body as an ORDERED list of argument checks, early exits and state writes, and the
   machine that runs it (no proofs in this file).

   The order of the events of each modelled C function is generated from the C text
   (LV.Gen.ErrnoGen.gen_order_*, translate/errno_orders.py); what a check tests and what a write does is
   hand-written in the family models (ContractModel.v, NewModel.v, RefutedModel.v).  The two are put
   together here:
     assemble   one action per generated event, checks and exits taken in order from hand-written lists
                (vnadata family: the model has one entry per top-level C statement)
     two_phase  "all checks, then the work" when the generated order has every check in front of the
                first write; otherwise an arbitrary (abstract) early write is put in front of the checks,
                so that nothing can be proved about a refusal of such a function
   In this machine a write that precedes a refusing check changes the state of a refused call: the
   statement "refused => unchanged" is a property of the order, not of the type of the step function. *)
Require Import List ZArith Bool.
Import ListNotations.
Require Import LV.Err.ErrBase.

Definition refusal : Type := (fval * report)%type.

(* result of running a body: refused by an argument check, or failed later inside a write *)
Inductive mres : Type :=
| MPass
| MRefused (v : fval) (r : report)
| MLate (v : fval) (r : report).

Definition outcome_of (m : mres) : outcome :=
  match m with MPass => Pass | MRefused v r => Refuse v r | MLate v r => Refuse v r end.

Section Machine.
  Variable St : Type.

  Inductive act : Type :=
  | ACheck (p : St -> option refusal)                  (* Some = report and return the failure value *)
  | AExit (g : St -> bool) (w : St -> St)              (* if g then (write and) return success *)
  | AWrite (late : bool) (w : St -> St * option refusal).   (* write; Some = failure after the write *)

  Definition kind (a : act) : ev :=
    match a with
    | ACheck _ => EvC
    | AExit _ _ => EvS
    | AWrite late _ => if late then EvF else EvW
    end.

  Fixpoint run (b : list act) (s : St) : St * mres :=
    match b with
    | [] => (s, MPass)
    | ACheck p :: r => match p s with
                       | Some (v, rp) => (s, MRefused v rp)
                       | None => run r s
                       end
    | AExit g w :: r => if g s then (w s, MPass) else run r s
    | AWrite _ w :: r => match w s with
                         | (s', Some (v, rp)) => (s', MLate v rp)
                         | (s', None) => run r s'
                         end
    end.

  (* the first refusing check of a list, all evaluated on the same state *)
  Fixpoint first_refusal (cs : list (St -> option refusal)) (s : St) : option refusal :=
    match cs with
    | [] => None
    | c :: r => match c s with Some x => Some x | None => first_refusal r s end
    end.

  (* one action per generated event.  EvH (the handle is valid in this machine) and EvA (allocation
     failure: outside the model) have no action; a missing hand-written check never fires (theorems
     *_order_fits show that none is missing and none is left over). *)
  Fixpoint assemble (sk : list ev) (cs : list (St -> option refusal)) (xs : list ((St -> bool) * (St -> St)))
           (ws : nat -> St -> St * option refusal) (wi : nat) : list act :=
    match sk with
    | [] => []
    | EvC :: r => match cs with
                  | c :: cs' => ACheck c :: assemble r cs' xs ws wi
                  | [] => ACheck (fun _ => None) :: assemble r [] xs ws wi
                  end
    | EvS :: r => match xs with
                  | (g, w) :: xs' => AExit g w :: assemble r cs xs' ws wi
                  | [] => AExit (fun _ => false) (fun s => s) :: assemble r cs [] ws wi
                  end
    | EvW :: r => AWrite false (ws wi) :: assemble r cs xs ws (S wi)
    | EvF :: r => AWrite true (ws wi) :: assemble r cs xs ws (S wi)
    | EvX :: r => AWrite true (ws wi) :: assemble r cs xs ws (S wi)
    | EvH :: r => assemble r cs xs ws wi
    | EvA :: r => assemble r cs xs ws wi
    end.

  Definition count_checks (sk : list ev) : nat := length (filter (fun e => match e with EvC => true | _ => false end) sk).
  Definition count_writes (sk : list ev) : nat := length (filter is_write sk).

  (* coarse body: the hand-written composite check, then the hand-written work - when the generated
     order allows that reading *)
  Definition two_phase (ordered : bool) (pre : St -> St) (check : St -> option refusal)
             (work : St -> St * option refusal) : list act :=
    if ordered then [ACheck check; AWrite true work]
    else [AWrite false (fun s => (pre s, None)); ACheck check; AWrite true work].
End Machine.

Arguments ACheck {St}. Arguments AExit {St}. Arguments AWrite {St}.
Arguments kind {St}. Arguments run {St}. Arguments first_refusal {St}. Arguments assemble {St}.
Arguments two_phase {St}.
