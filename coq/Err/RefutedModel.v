(* C11: "a rejected standard adds nothing" and "a refused property set changes nothing": models
   of the two places where the code did not keep this (D17, D54).  Which order the working tree has
   is read from the C text on every run (gen_add_common_prevalidates, gen_order_vnaproperty_vset, ..._vset_subtree);
   the other order is kept as a model variant that shows what the statement excludes (no proofs in
   this file).

   D17  _vnacal_new_add_common (vnacal_new_add_common.c).  Before the repair the loop
            for (s_cell ...) full_s_matrix[...] = _vnacal_new_get_parameter(function, vnp, s_matrix[s_cell])
        registered every not yet known parameter in vnp->vn_parameter_hash (and, for unknown
        parameters, in the unknown list) as it went, and "goto out" on the first invalid handle did
        not undo the registrations.  Repaired order: _vnacal_new_check_parameter on every cell (same
        tests, nothing added), remaining argument checks, then the registration loop; the
        measurement and its equations are linked last in both versions.  Which order the working
        tree has is read from the C text (LV.Gen.ErrnoGen.gen_add_common_prevalidates).
   D54  vnaproperty_vset (vnaproperty.c).  Before the repair parse_and_descend(set = true) created and
        replaced nodes along the path before the tests on the tail of the expression and on the
        value token; repaired order: parse, tests, descend.  The order of these statements is now
        taken from the C text (gen_order_vnaproperty_vset, gen_order_vnaproperty_vset_subtree) and
        the model runs the body in that order (machine of LV.Err.OrderModel). *)
Require Import List ZArith QArith Bool.
Import ListNotations.
Require Import LV.Err.ErrBase LV.Gen.ErrnoGen LV.Err.OrderModel.
Open Scope Z_scope.

(* ---------------------------------------------------------------- D17 *)
(* What _vnacal_new_check_parameter / _vnacal_new_get_parameter see of a cell of the S matrix: the
   parameter the handle names and - through the vpmr_other pointers - the chain of its correlates.
     ChNone h                       _vnacal_get_parameter(vcp, h) finds no structure (h out of range, free slot)
     ChEnd h live unk fmin fmax     scalar, vector or unknown parameter (no recursion); live = not deleted;
                                    fmin..fmax = what _vnacal_get_parameter_frange answers: 0..infinity (None) for a
                                    scalar, the frequency range of a vector parameter, for an unknown parameter the
                                    range of the parameter at the end of its initial-guess chain
     ChCorr h live sigma other      VNACAL_CORRELATED: sigma = first / last entry of its own sigma frequency vector
                                    (None: no vector, sigma_frequencies = 1), other = its correlate
   A deleted parameter that something still refers to keeps its slot and its structure (vpmr_deleted): the
   pointer chain runs through it, _vnacal_get_parameter on its index answers NULL (live = false). *)
Inductive pchain : Type :=
| ChNone (h : Z)
| ChEnd (h : Z) (live unk : bool) (fmin : Q) (fmax : option Q)
| ChCorr (h : Z) (live : bool) (sigma : option (Q * Q)) (other : pchain).

Definition chain_handle (c : pchain) : Z :=
  match c with ChNone h => h | ChEnd h _ _ _ _ => h | ChCorr h _ _ _ => h end.
Definition chain_live (c : pchain) : bool :=
  match c with ChNone _ => false | ChEnd _ l _ _ _ => l | ChCorr _ l _ _ => l end.

Definition qlt (a b : Q) : bool := negb (Qle_bool b a).

(* _vnacal_get_parameter_frange: the range of the parameter at the end of the chain ... *)
Fixpoint chain_end_range (c : pchain) : Q * option Q :=
  match c with
  | ChNone _ => (0%Q, None)
  | ChEnd _ _ _ a b => (a, b)
  | ChCorr _ _ _ o => chain_end_range o
  end.
(* ... narrowed by the sigma frequencies of the parameter the question was about (only of that one) *)
Definition chain_range (c : pchain) : Q * option Q :=
  let (a, b) := chain_end_range c in
  match c with
  | ChCorr _ _ (Some (smin, smax)) _ =>
      (if qlt a smin then smin else a,
       match b with None => Some smax | Some b' => Some (if qlt smax b' then smax else b') end)
  | _ => (a, b)
  end.

(* check_single_frequency_range: cal = first / last calibration frequency when
   vn_frequencies_valid && vn_frequencies > 0 (None: the test is not made) *)
Definition range_fits (e : Q) (cal : option (Q * Q)) (c : pchain) : bool :=
  match cal with
  | None => true
  | Some (lo, hi) =>
      let (a, b) := chain_range c in
      negb (qlt ((1 + e) * lo)%Q a || match b with None => false | Some b' => qlt b' ((1 - e) * hi)%Q end)
  end.

Record newsum : Type := mknew {
  n_registered : list Z;        (* handles in vn_parameter_hash, in registration order *)
  n_unknowns : Z;               (* vn_unknown_parameters *)
  n_correlated : Z;             (* vn_correlated_parameters *)
  n_measurements : Z;           (* vn_measurement_count *)
  n_calrange : option (Q * Q)   (* first / last calibration frequency, see range_fits *)
}.

Definition known (s : newsum) (h : Z) : bool := existsb (Z.eqb h) (n_registered s).

(* the tests both functions make on the parameter itself, in the order of the C text:
   _vnacal_get_parameter != NULL, check_single_frequency_range *)
Definition node_ok (s : newsum) (c : pchain) : bool :=
  chain_live c && range_fits gen_f_extrapolation (n_calrange s) c.

(* _vnacal_new_check_parameter: hash look-up, the tests on the parameter, and - when the C text has the
   recursion (rc) - the same for the correlate of a correlated parameter; nothing is added *)
Fixpoint check_chain_with (rc : bool) (s : newsum) (c : pchain) : bool :=
  if (0 <=? chain_handle c) && known s (chain_handle c) then true
  else match c with
       | ChNone _ => false
       | ChEnd _ _ _ _ _ => node_ok s c
       | ChCorr _ _ _ o => node_ok s c && (if rc then check_chain_with rc s o else true)
       end.

Definition register (s : newsum) (h : Z) (unk corr : bool) : newsum :=
  mknew (n_registered s ++ [h]) (if unk || corr then n_unknowns s + 1 else n_unknowns s)
        (if corr then n_correlated s + 1 else n_correlated s) (n_measurements s) (n_calrange s).

(* _vnacal_new_get_parameter: the same tests; a correlated parameter first gets (registers) its correlate
   (rg: the C text has the recursion), then the parameter is inserted into the hash and - unknown or
   correlated - into the unknown list.  A failure at any depth returns NULL before anything of THIS call
   has been inserted. *)
Fixpoint get_chain_with (rg : bool) (s : newsum) (c : pchain) : option newsum :=
  if (0 <=? chain_handle c) && known s (chain_handle c) then Some s
  else match c with
       | ChNone _ => None
       | ChEnd h _ unk _ _ => if node_ok s c then Some (register s h unk false) else None
       | ChCorr h _ _ o =>
           if node_ok s c then
             if rg then match get_chain_with rg s o with
                        | None => None
                        | Some s' => Some (register s' h false true)
                        end
             else Some (register s h false true)
           else None
       end.

(* the registration loop of _vnacal_new_add_common *)
Fixpoint register_cells_with (rg : bool) (s : newsum) (cells : list pchain) : newsum * bool :=
  match cells with
  | [] => (s, true)
  | c :: r => match get_chain_with rg s c with
              | None => (s, false)                 (* goto out: s keeps what was registered so far *)
              | Some s' => register_cells_with rg s' r
              end
  end.

Definition link (s : newsum) : newsum :=
  mknew (n_registered s) (n_unknowns s) (n_correlated s) (n_measurements s + 1) (n_calrange s).

(* no validation pass (the order before the repair of D17): register as you go, link at the end *)
Definition add_standard_register_first_with (rg : bool) (s : newsum) (cells : list pchain) : newsum * outcome :=
  match register_cells_with rg s cells with
  | (s', true) => (link s', Pass)
  | (s', false) => (s', Refuse VM1 (Via USAGE))
  end.

(* validate every cell first (repaired order) *)
Definition add_standard_validate_first_with (rc rg : bool) (s : newsum) (cells : list pchain) : newsum * outcome :=
  if forallb (check_chain_with rc s) cells then
    match register_cells_with rg s cells with
    | (s', true) => (link s', Pass)
    | (s', false) => (s', Refuse VM1 (Via USAGE))      (* unreachable when rc = true: see register_after_check *)
    end
  else (s, Refuse VM1 (Via USAGE)).

(* as found in the C text: whether _vnacal_new_check_parameter / _vnacal_new_get_parameter walk down to the
   correlate (gen_check_parameter_recurses, gen_get_parameter_recurses), whether the validation loop precedes
   the registration loop (gen_add_common_prevalidates) *)
Definition check_parameter : newsum -> pchain -> bool := check_chain_with gen_check_parameter_recurses.
Definition get_parameter : newsum -> pchain -> option newsum := get_chain_with gen_get_parameter_recurses.
Definition register_cells : newsum -> list pchain -> newsum * bool := register_cells_with gen_get_parameter_recurses.
Definition add_standard_register_first : newsum -> list pchain -> newsum * outcome :=
  add_standard_register_first_with gen_get_parameter_recurses.
Definition add_standard_validate_first : newsum -> list pchain -> newsum * outcome :=
  add_standard_validate_first_with gen_check_parameter_recurses gen_get_parameter_recurses.

(* the order found in the working tree *)
Definition add_standard_current (s : newsum) (cells : list pchain) : newsum * outcome :=
  if gen_add_common_prevalidates then add_standard_validate_first s cells else add_standard_register_first s cells.

(* a cell without a chain, from a table of the vnacal_t that has no correlated parameters:
   valid h = the handle names a live parameter whose range fits, unknown h = its type is VNACAL_UNKNOWN *)
Definition flat_cell (valid unknown : Z -> bool) (h : Z) : pchain :=
  if valid h then ChEnd h true (unknown h) 0%Q None else ChNone h.

(* ---------------------------------------------------------------- D54 *)
Inductive ptree : Type :=
| PNull
| PScalar (v : Z)
| PMap (entries : list (Z * ptree)).

Fixpoint update_entry (es : list (Z * ptree)) (k : Z) (f : ptree -> ptree) : list (Z * ptree) :=
  match es with
  | [] => [(k, f PNull)]
  | (k', t) :: r => if k' =? k then (k', f t) :: r else (k', t) :: update_entry r k f
  end.

(* descend with set = true over a path of map keys: make the tree conform, apply f at the end *)
Fixpoint descend_set (path : list Z) (f : ptree -> ptree) (t : ptree) : ptree :=
  match path with
  | [] => f t
  | k :: r => match t with
              | PMap es => PMap (update_entry es k (descend_set r f))
              | _ => PMap [(k, descend_set r f PNull)]        (* a scalar / null on the way is replaced by a map *)
              end
  end.

Definition conform (path : list Z) (t : ptree) : ptree := descend_set path (fun x => x) t.
Definition assign (path : list Z) (v : ptree) (t : ptree) : ptree := descend_set path (fun _ => v) t.

(* what parse() and the scanner leave behind for a descriptor (path of map keys only):
     pd_parse_ok          parse() returned 0
     pd_path              the keys to descend through
     pd_tail_assignable   the last expression node is an element / dot, not "{}" or "[]" (E_MAP, E_LIST)
     pd_token             the token after the path: "=value", "#", end of input, anything else *)
Inductive ptoken : Type := TkAssign (v : Z) | TkHash | TkEof | TkOther.
Record pdesc : Type := mkpdesc {
  pd_parse_ok : bool; pd_path : list Z; pd_tail_assignable : bool; pd_token : ptoken }.

Definition einval_m1 : refusal := (VM1, Direct E_INVAL).     (* errno = EINVAL, -1, nothing reported *)
Definition einval_null : refusal := (VNULL, Direct E_INVAL).

(* vnaproperty_vset: its three refusing statements in the order of the C text *)
Definition vset_checks (d : pdesc) : list (ptree -> option refusal) :=
  [fun _ => if pd_parse_ok d then None else Some einval_m1;
   fun _ => if pd_tail_assignable d then None else Some einval_m1;
   fun _ => match pd_token d with TkAssign _ | TkHash => None | _ => Some einval_m1 end].

Definition vset_value (d : pdesc) : ptree :=
  match pd_token d with TkAssign v => PScalar v | _ => PNull end.

(* its write events: the first is descend(set = true), which makes the tree conform to the path; the
   last installs the value; anything between (vnaproperty_free of the old value) does not show *)
Definition vset_writes (d : pdesc) (n k : nat) (t : ptree) : ptree * option refusal :=
  if Nat.eqb (S k) n then (assign (pd_path d) (vset_value d) t, None)
  else if Nat.eqb k 0 then (conform (pd_path d) t, None)
  else (t, None).

Definition vset_body (sk : list ev) (d : pdesc) : list (act ptree) :=
  assemble sk (vset_checks d) [] (vset_writes d (count_writes sk)) 0%nat.

Definition vset_in_order (sk : list ev) (t : ptree) (d : pdesc) : ptree * outcome :=
  let (t', m) := run (vset_body sk d) t in (t', outcome_of m).

(* the order found in the working tree *)
Definition vset (t : ptree) (d : pdesc) : ptree * outcome := vset_in_order gen_order_vnaproperty_vset t d.

(* vnaproperty_vset_subtree: parse, "no token may follow", descend *)
Definition vset_subtree_checks (d : pdesc) : list (ptree -> option refusal) :=
  [fun _ => if pd_parse_ok d then None else Some einval_null;
   fun _ => match pd_token d with TkEof => None | _ => Some einval_null end].

Definition vset_subtree_body (sk : list ev) (d : pdesc) : list (act ptree) :=
  assemble sk (vset_subtree_checks d) [] (fun _ t => (conform (pd_path d) t, None)) 0%nat.

Definition vset_subtree_in_order (sk : list ev) (t : ptree) (d : pdesc) : ptree * outcome :=
  let (t', m) := run (vset_subtree_body sk d) t in (t', outcome_of m).

Definition vset_subtree (t : ptree) (d : pdesc) : ptree * outcome :=
  vset_subtree_in_order gen_order_vnaproperty_vset_subtree t d.

(* model variant: the order vnaproperty_vset had before the repair of D54 (descend, then the tests) *)
Definition order_variant_descend_first : list ev := [EvC; EvF; EvC; EvC; EvA; EvW; EvW].
