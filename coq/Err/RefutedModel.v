(* C11: "a rejected standard adds nothing" and "a refused property set changes nothing": models
   of the two places where the code did not keep this (D17, D54).  Which order the working tree has
   is read from the C text on every run (gen_add_common_prevalidates, gen_order_vnaproperty_vset, ..._vset_subtree);
   the other order is kept as a model variant that shows what the statement excludes (no proofs in
   this file).

   D17  _vnacal_new_add_common (vnacal_new_add_common.c).  Before the repair the loop
            for (s_cell ...) full_s_matrix[...] = _vnacal_new_get_parameter(function, vnp, s_matrix[s_cell])
        registered every not yet known parameter in vnp->vn_parameter_hash (and, for unknown
        parameters, in the unknown list) as it went, and "goto out" on the first invalid handle did
        not undo the registrations.  Repaired order: _vnacal_new_check_parameter on every cell (same
        tests, nothing added), remaining argument checks, then the registration loop; the
        measurement and its equations are linked last in both versions.  Which order the working
        tree has is read from the C text (LV.Gen.ErrnoGen.gen_add_common_prevalidates).
   D54  vnaproperty_vset (vnaproperty.c).  Before the repair parse_and_descend(set = true) created and
        replaced nodes along the path before the tests on the tail of the expression and on the
        value token; repaired order: parse, tests, descend.  The order of these statements is now
        taken from the C text (gen_order_vnaproperty_vset, gen_order_vnaproperty_vset_subtree) and
        the model runs the body in that order (machine of LV.Err.OrderModel). *)
Require Import List ZArith Bool.
Import ListNotations.
Require Import LV.Err.ErrBase LV.Gen.ErrnoGen LV.Err.OrderModel.
Open Scope Z_scope.

(* ---------------------------------------------------------------- D17 *)
Record newsum : Type := mknew {
  n_registered : list Z;      (* handles in vn_parameter_hash, in registration order *)
  n_unknowns : Z;             (* vn_unknown_parameters *)
  n_measurements : Z          (* vn_measurement_count *)
}.

Section AddCommon.
  Variable valid : Z -> bool.       (* _vnacal_get_parameter(vcp, h) != NULL (and frequency range ok) *)
  Variable unknown : Z -> bool.     (* type VNACAL_UNKNOWN *)

  Definition known (s : newsum) (h : Z) : bool := existsb (Z.eqb h) (n_registered s).

  (* _vnacal_new_check_parameter: the tests of _vnacal_new_get_parameter without the insertion *)
  Definition check_parameter (s : newsum) (h : Z) : bool :=
    ((0 <=? h) && known s h) || valid h.

  (* _vnacal_new_get_parameter (correlated parameters left out) *)
  Definition get_parameter (s : newsum) (h : Z) : option newsum :=
    if (0 <=? h) && known s h then Some s
    else if negb (valid h) then None
    else Some (mknew (n_registered s ++ [h]) (if unknown h then n_unknowns s + 1 else n_unknowns s) (n_measurements s)).

  (* the registration loop *)
  Fixpoint register_cells (s : newsum) (cells : list Z) : newsum * bool :=
    match cells with
    | [] => (s, true)
    | h :: r => match get_parameter s h with
                | None => (s, false)                 (* goto out: s keeps what was registered so far *)
                | Some s' => register_cells s' r
                end
    end.

  Definition link (s : newsum) : newsum := mknew (n_registered s) (n_unknowns s) (n_measurements s + 1).

  (* no validation pass (the order before the repair of D17): register as you go, link at the end *)
  Definition add_standard_register_first (s : newsum) (cells : list Z) : newsum * outcome :=
    match register_cells s cells with
    | (s', true) => (link s', Pass)
    | (s', false) => (s', Refuse VM1 (Via USAGE))
    end.

  (* validate every cell first (repaired order) *)
  Definition add_standard_validate_first (s : newsum) (cells : list Z) : newsum * outcome :=
    if forallb (check_parameter s) cells then
      match register_cells s cells with
      | (s', true) => (link s', Pass)
      | (s', false) => (s', Refuse VM1 (Via USAGE))      (* unreachable: see register_after_check *)
      end
    else (s, Refuse VM1 (Via USAGE)).

  (* the order found in the working tree *)
  Definition add_standard_current (s : newsum) (cells : list Z) : newsum * outcome :=
    if gen_add_common_prevalidates then add_standard_validate_first s cells else add_standard_register_first s cells.
End AddCommon.

(* ---------------------------------------------------------------- D54 *)
Inductive ptree : Type :=
| PNull
| PScalar (v : Z)
| PMap (entries : list (Z * ptree)).

Fixpoint update_entry (es : list (Z * ptree)) (k : Z) (f : ptree -> ptree) : list (Z * ptree) :=
  match es with
  | [] => [(k, f PNull)]
  | (k', t) :: r => if k' =? k then (k', f t) :: r else (k', t) :: update_entry r k f
  end.

(* descend with set = true over a path of map keys: make the tree conform, apply f at the end *)
Fixpoint descend_set (path : list Z) (f : ptree -> ptree) (t : ptree) : ptree :=
  match path with
  | [] => f t
  | k :: r => match t with
              | PMap es => PMap (update_entry es k (descend_set r f))
              | _ => PMap [(k, descend_set r f PNull)]        (* a scalar / null on the way is replaced by a map *)
              end
  end.

Definition conform (path : list Z) (t : ptree) : ptree := descend_set path (fun x => x) t.
Definition assign (path : list Z) (v : ptree) (t : ptree) : ptree := descend_set path (fun _ => v) t.

(* what parse() and the scanner leave behind for a descriptor (path of map keys only):
     pd_parse_ok          parse() returned 0
     pd_path              the keys to descend through
     pd_tail_assignable   the last expression node is an element / dot, not "{}" or "[]" (E_MAP, E_LIST)
     pd_token             the token after the path: "=value", "#", end of input, anything else *)
Inductive ptoken : Type := TkAssign (v : Z) | TkHash | TkEof | TkOther.
Record pdesc : Type := mkpdesc {
  pd_parse_ok : bool; pd_path : list Z; pd_tail_assignable : bool; pd_token : ptoken }.

Definition einval_m1 : refusal := (VM1, Direct E_INVAL).     (* errno = EINVAL, -1, nothing reported *)
Definition einval_null : refusal := (VNULL, Direct E_INVAL).

(* vnaproperty_vset: its three refusing statements in the order of the C text *)
Definition vset_checks (d : pdesc) : list (ptree -> option refusal) :=
  [fun _ => if pd_parse_ok d then None else Some einval_m1;
   fun _ => if pd_tail_assignable d then None else Some einval_m1;
   fun _ => match pd_token d with TkAssign _ | TkHash => None | _ => Some einval_m1 end].

Definition vset_value (d : pdesc) : ptree :=
  match pd_token d with TkAssign v => PScalar v | _ => PNull end.

(* its write events: the first is descend(set = true), which makes the tree conform to the path; the
   last installs the value; anything between (vnaproperty_free of the old value) does not show *)
Definition vset_writes (d : pdesc) (n k : nat) (t : ptree) : ptree * option refusal :=
  if Nat.eqb (S k) n then (assign (pd_path d) (vset_value d) t, None)
  else if Nat.eqb k 0 then (conform (pd_path d) t, None)
  else (t, None).

Definition vset_body (sk : list ev) (d : pdesc) : list (act ptree) :=
  assemble sk (vset_checks d) [] (vset_writes d (count_writes sk)) 0%nat.

Definition vset_in_order (sk : list ev) (t : ptree) (d : pdesc) : ptree * outcome :=
  let (t', m) := run (vset_body sk d) t in (t', outcome_of m).

(* the order found in the working tree *)
Definition vset (t : ptree) (d : pdesc) : ptree * outcome := vset_in_order gen_order_vnaproperty_vset t d.

(* vnaproperty_vset_subtree: parse, "no token may follow", descend *)
Definition vset_subtree_checks (d : pdesc) : list (ptree -> option refusal) :=
  [fun _ => if pd_parse_ok d then None else Some einval_null;
   fun _ => match pd_token d with TkEof => None | _ => Some einval_null end].

Definition vset_subtree_body (sk : list ev) (d : pdesc) : list (act ptree) :=
  assemble sk (vset_subtree_checks d) [] (fun _ t => (conform (pd_path d) t, None)) 0%nat.

Definition vset_subtree_in_order (sk : list ev) (t : ptree) (d : pdesc) : ptree * outcome :=
  let (t', m) := run (vset_subtree_body sk d) t in (t', outcome_of m).

Definition vset_subtree (t : ptree) (d : pdesc) : ptree * outcome :=
  vset_subtree_in_order gen_order_vnaproperty_vset_subtree t d.

(* model variant: the order vnaproperty_vset had before the repair of D54 (descend, then the tests) *)
Definition order_variant_descend_first : list ev := [EvC; EvF; EvC; EvC; EvA; EvW; EvW].
