(* C11: "a rejected standard adds nothing" and "a refused property set changes nothing": models
   of the two places where the code did not keep this (D17, D54), in their repaired order and, as
   regression witnesses, in the order they had before (no proofs in this file).

   D17  _vnacal_new_add_common (vnacal_new_add_common.c).  Before the repair the loop
            for (s_cell ...) full_s_matrix[...] = _vnacal_new_get_parameter(function, vnp, s_matrix[s_cell])
        registered every not yet known parameter in vnp->vn_parameter_hash (and, for unknown
        parameters, in the unknown list) as it went, and "goto out" on the first invalid handle did
        not undo the registrations.  Repaired order: _vnacal_new_check_parameter on every cell (same
        tests, nothing added), remaining argument checks, then the registration loop; the
        measurement and its equations are linked last in both versions.  Which order the working
        tree has is read from the C text (LV.Gen.ErrnoGen.gen_add_common_prevalidates).
   D54  vnaproperty_vset (vnaproperty.c).  Before the repair parse_and_descend(set = true) created and
        replaced nodes along the path before the tests on the tail of the expression and on the
        value token; repaired order: parse, tests, descend. *)
Require Import List ZArith Bool.
Import ListNotations.
Require Import LV.Err.ErrBase LV.Gen.ErrnoGen.
Open Scope Z_scope.

(* ---------------------------------------------------------------- D17 *)
Record newsum : Type := mknew {
  n_registered : list Z;      (* handles in vn_parameter_hash, in registration order *)
  n_unknowns : Z;             (* vn_unknown_parameters *)
  n_measurements : Z          (* vn_measurement_count *)
}.

Section AddCommon.
  Variable valid : Z -> bool.       (* _vnacal_get_parameter(vcp, h) != NULL (and frequency range ok) *)
  Variable unknown : Z -> bool.     (* type VNACAL_UNKNOWN *)

  Definition known (s : newsum) (h : Z) : bool := existsb (Z.eqb h) (n_registered s).

  (* _vnacal_new_check_parameter: the tests of _vnacal_new_get_parameter without the insertion *)
  Definition check_parameter (s : newsum) (h : Z) : bool :=
    ((0 <=? h) && known s h) || valid h.

  (* _vnacal_new_get_parameter (correlated parameters left out) *)
  Definition get_parameter (s : newsum) (h : Z) : option newsum :=
    if (0 <=? h) && known s h then Some s
    else if negb (valid h) then None
    else Some (mknew (n_registered s ++ [h]) (if unknown h then n_unknowns s + 1 else n_unknowns s) (n_measurements s)).

  (* the registration loop *)
  Fixpoint register_cells (s : newsum) (cells : list Z) : newsum * bool :=
    match cells with
    | [] => (s, true)
    | h :: r => match get_parameter s h with
                | None => (s, false)                 (* goto out: s keeps what was registered so far *)
                | Some s' => register_cells s' r
                end
    end.

  Definition link (s : newsum) : newsum := mknew (n_registered s) (n_unknowns s) (n_measurements s + 1).

  (* before the repair: register as you go, link at the end *)
  Definition add_standard_before_fix (s : newsum) (cells : list Z) : newsum * outcome :=
    match register_cells s cells with
    | (s', true) => (link s', Pass)
    | (s', false) => (s', Refuse VM1 (Via USAGE))
    end.

  (* repaired order: validate every cell first *)
  Definition add_standard (s : newsum) (cells : list Z) : newsum * outcome :=
    if forallb (check_parameter s) cells then
      match register_cells s cells with
      | (s', true) => (link s', Pass)
      | (s', false) => (s', Refuse VM1 (Via USAGE))      (* unreachable: see register_after_check *)
      end
    else (s, Refuse VM1 (Via USAGE)).

  (* the order found in the working tree *)
  Definition add_standard_current (s : newsum) (cells : list Z) : newsum * outcome :=
    if gen_add_common_prevalidates then add_standard s cells else add_standard_before_fix s cells.
End AddCommon.

(* ---------------------------------------------------------------- D54 *)
Inductive ptree : Type :=
| PNull
| PScalar (v : Z)
| PMap (entries : list (Z * ptree)).

Fixpoint update_entry (es : list (Z * ptree)) (k : Z) (f : ptree -> ptree) : list (Z * ptree) :=
  match es with
  | [] => [(k, f PNull)]
  | (k', t) :: r => if k' =? k then (k', f t) :: r else (k', t) :: update_entry r k f
  end.

(* descend with set = true over a path of map keys: make the tree conform, apply f at the end *)
Fixpoint descend_set (path : list Z) (f : ptree -> ptree) (t : ptree) : ptree :=
  match path with
  | [] => f t
  | k :: r => match t with
              | PMap es => PMap (update_entry es k (descend_set r f))
              | _ => PMap [(k, descend_set r f PNull)]        (* a scalar / null on the way is replaced by a map *)
              end
  end.

Definition conform (path : list Z) (t : ptree) : ptree := descend_set path (fun x => x) t.
Definition assign (path : list Z) (v : ptree) (t : ptree) : ptree := descend_set path (fun _ => v) t.

(* value = None models a descriptor without "=value" / "#", or with a tail that cannot be assigned
   to: EINVAL, no report (these functions have no error function) *)

(* before the repair: descend (conform) first, then look at the value *)
Definition vset_before_fix (t : ptree) (path : list Z) (value : option ptree) : ptree * outcome :=
  match value with
  | Some v => (assign path v t, Pass)
  | None => (conform path t, Refuse VM1 (Direct E_INVAL))
  end.

(* repaired order: parse, test the tail and the value token, then descend *)
Definition vset (t : ptree) (path : list Z) (value : option ptree) : ptree * outcome :=
  match value with
  | None => (t, Refuse VM1 (Direct E_INVAL))
  | Some v => (assign path v t, Pass)
  end.

(* vnaproperty_vset_subtree: trailing = a token follows the descriptor *)
Definition vset_subtree (t : ptree) (path : list Z) (trailing : bool) : ptree * outcome :=
  if trailing then (t, Refuse VNULL (Direct E_INVAL)) else (conform path t, Pass).
