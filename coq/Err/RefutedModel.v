(* C11: two places where the code, as it is, does not keep "a refused call changes nothing"
   (candidate D17 and finding D54).  Small faithful models; the refutations are in ContractProofs2.v.

   D17  _vnacal_new_add_common (vnacal_new_add_common.c): the loop
            for (s_cell ...) full_s_matrix[...] = _vnacal_new_get_parameter(function, vnp, s_matrix[s_cell])
        registers every not yet known parameter in vnp->vn_parameter_hash (and, for unknown
        parameters, in the unknown list) as it goes, and "goto out" on the first invalid handle does
        not undo the registrations; the measurement and its equations are only linked at the end.
   D54  vnaproperty_vset (vnaproperty.c): parse_and_descend(..., set = true, ...) creates and
        replaces nodes along the path; the tests on the tail of the expression and on the token that
        follows it ("=value" or "#") come afterwards. *)
Require Import List ZArith Bool.
Import ListNotations.
Require Import LV.Err.ErrBase.
Open Scope Z_scope.

(* ---------------------------------------------------------------- D17 *)
Record newsum : Type := mknew {
  n_registered : list Z;      (* handles in vn_parameter_hash, in registration order *)
  n_unknowns : Z;             (* vn_unknown_parameters *)
  n_measurements : Z          (* vn_measurement_count *)
}.

Section AddCommon.
  Variable valid : Z -> bool.       (* _vnacal_get_parameter(vcp, h) != NULL *)
  Variable unknown : Z -> bool.     (* type VNACAL_UNKNOWN *)

  Definition known (s : newsum) (h : Z) : bool := existsb (Z.eqb h) (n_registered s).

  (* _vnacal_new_get_parameter (correlated parameters left out) *)
  Definition get_parameter (s : newsum) (h : Z) : option newsum :=
    if (0 <=? h) && known s h then Some s
    else if negb (valid h) then None
    else Some (mknew (n_registered s ++ [h]) (if unknown h then n_unknowns s + 1 else n_unknowns s) (n_measurements s)).

  (* the s-matrix loop followed by the linking of the measurement *)
  Fixpoint register_cells (s : newsum) (cells : list Z) : newsum * bool :=
    match cells with
    | [] => (s, true)
    | h :: r => match get_parameter s h with
                | None => (s, false)                 (* goto out: s keeps what was registered so far *)
                | Some s' => register_cells s' r
                end
    end.

  Definition add_standard (s : newsum) (cells : list Z) : newsum * outcome :=
    match register_cells s cells with
    | (s', true) => (mknew (n_registered s') (n_unknowns s') (n_measurements s' + 1), Pass)
    | (s', false) => (s', Refuse VM1 (Via USAGE))
    end.
End AddCommon.

(* ---------------------------------------------------------------- D54 *)
Inductive ptree : Type :=
| PNull
| PScalar (v : Z)
| PMap (entries : list (Z * ptree)).

(* make the tree conform to a path of map keys and return it with a null at the end of the path
   unless something is already there (parse_and_descend with set = true, map keys only) *)
Fixpoint update_entry (es : list (Z * ptree)) (k : Z) (f : ptree -> ptree) : list (Z * ptree) :=
  match es with
  | [] => [(k, f PNull)]
  | (k', t) :: r => if k' =? k then (k', f t) :: r else (k', t) :: update_entry r k f
  end.

Fixpoint conform (path : list Z) (t : ptree) : ptree :=
  match path with
  | [] => t
  | k :: r => match t with
              | PMap es => PMap (update_entry es k (conform r))
              | _ => PMap [(k, conform r PNull)]        (* a scalar / null on the way is replaced by a map *)
              end
  end.

Fixpoint assign (path : list Z) (v : ptree) (t : ptree) : ptree :=
  match path with
  | [] => v
  | k :: r => match t with
              | PMap es => PMap (update_entry es k (assign r v))
              | _ => PMap [(k, assign r v PNull)]
              end
  end.

(* vnaproperty_vset: value = None models a descriptor without "=value" / "#" (or with a tail that
   cannot be assigned to): EINVAL, no report (there is no error function) - after conform *)
Definition vset (t : ptree) (path : list Z) (value : option ptree) : ptree * outcome :=
  match value with
  | Some v => (assign path v t, Pass)
  | None => (conform path t, Refuse VM1 (Direct E_INVAL))
  end.
