(* C11: lemmas about the check / write machine of OrderModel.v. *)
Require Import List ZArith Bool Lia.
Import ListNotations.
Require Import LV.Err.ErrBase LV.Err.OrderModel.

Section MachineProofs.
  Variable St : Type.
  Notation act := (act St).

  (* a body without checks cannot refuse for its arguments *)
  Lemma no_check_no_refusal : forall (b : list act) s s' v r,
    existsb is_check (map kind b) = false -> run b s <> (s', MRefused v r).
  Proof.
    induction b as [|a b IH]; intros s s' v r H; simpl in *; [discriminate|].
    destruct a as [p|g w|late w]; simpl in H.
    - discriminate.
    - destruct (g s); [discriminate | apply IH; exact H].
    - destruct late; simpl in H; destruct (w s) as [s1 [[v1 r1]|]]; try discriminate; apply IH; exact H.
  Qed.

  (* THE ORDER LEMMA: when every check precedes the first write, a call refused by a check returns
     the state it was given *)
  Lemma run_refused_unchanged : forall (b : list act) s s' v r,
    checks_first (map kind b) = true -> run b s = (s', MRefused v r) -> s' = s.
  Proof.
    induction b as [|a b IH]; intros s s' v r H R; simpl in *; [discriminate|].
    destruct a as [p|g w|late w]; simpl in H.
    - destruct (p s) as [[v1 r1]|]; [inversion R; reflexivity | eapply IH; eassumption].
    - destruct (g s); [discriminate | eapply IH; eassumption].
    - exfalso. assert (E : existsb is_check (map kind b) = false).
      { destruct late; simpl in H; apply negb_true_iff in H; exact H. }
      destruct (w s) as [s1 [[v1 r1]|]]; [discriminate|].
      eapply no_check_no_refusal; eassumption.
  Qed.

  (* ... and the premise is needed: a write in front of a check shows in the state of a refused call *)
  Lemma write_before_check_changes_state : forall (w : St -> St) (v : fval) (r : report) (s : St),
    run [AWrite false (fun x => (w x, None)); ACheck (fun _ => Some (v, r))] s = (w s, MRefused v r).
  Proof. reflexivity. Qed.

  (* kinds of an assembled body: the generated order without handle tests and allocation exits *)
  Fixpoint strip (sk : list ev) : list ev :=
    match sk with
    | [] => []
    | EvH :: r | EvA :: r => strip r
    | EvX :: r => EvF :: strip r
    | e :: r => e :: strip r
    end.

  Lemma kind_assemble : forall sk cs xs ws wi, map kind (assemble (St := St) sk cs xs ws wi) = strip sk.
  Proof.
    induction sk as [|e sk IH]; intros cs xs ws wi; simpl; [reflexivity|].
    destruct e; simpl.
    - apply IH.
    - destruct cs; simpl; f_equal; apply IH.
    - apply IH.
    - destruct xs as [|[g w] xs]; simpl; f_equal; apply IH.
    - f_equal; apply IH.
    - f_equal; apply IH.
    - f_equal; apply IH.
  Qed.

  Lemma strip_no_check : forall sk, existsb is_check sk = false -> existsb is_check (strip sk) = false.
  Proof.
    induction sk as [|e sk IH]; intro H; simpl in *; [reflexivity|].
    destruct e; simpl in *; try discriminate; try (apply IH; exact H).
  Qed.

  Lemma strip_checks_first : forall sk, checks_first sk = true -> checks_first (strip sk) = true.
  Proof.
    induction sk as [|e sk IH]; intro H; simpl in *; [reflexivity|].
    destruct e; simpl in *; try (apply IH; exact H);
      apply negb_true_iff in H; apply negb_true_iff; apply strip_no_check; exact H.
  Qed.

  Lemma assemble_refused_unchanged : forall sk cs xs ws wi s s' v r,
    checks_first sk = true -> run (assemble (St := St) sk cs xs ws wi) s = (s', MRefused v r) -> s' = s.
  Proof.
    intros. eapply run_refused_unchanged; [|eassumption]. rewrite kind_assemble. apply strip_checks_first. assumption.
  Qed.

  (* outcome of an assembled body whose order has the checks first: the first refusing check, all
     evaluated on the state the call was given *)
  Definition mres_of (o : option refusal) : mres :=
    match o with Some (v, r) => MRefused v r | None => MPass end.

  Lemma no_evc_count : forall sk, existsb is_check sk = false -> count_checks sk = 0%nat.
  Proof.
    induction sk as [|e sk IH]; intro H; [reflexivity|].
    destruct e; simpl in *; try discriminate; apply IH; exact H.
  Qed.

  Lemma assemble_no_check_pass : forall sk ws wi s,
    existsb is_check sk = false -> (forall k x, snd (ws k x) = None) ->
    snd (run (assemble (St := St) sk [] [] ws wi) s) = MPass.
  Proof.
    induction sk as [|e sk IH]; intros ws wi s H W; simpl in *; [reflexivity|].
    destruct e; simpl in *; try discriminate; try (apply IH; assumption).
    all: pose proof (W wi s) as Hw; destruct (ws wi s) as [s1 o]; simpl in Hw; subst o; apply IH; assumption.
  Qed.

  Lemma assemble_outcome : forall sk cs ws wi s,
    checks_first sk = true -> count_checks sk = length cs -> (forall k x, snd (ws k x) = None) ->
    snd (run (assemble (St := St) sk cs [] ws wi) s) = mres_of (first_refusal cs s).
  Proof.
    induction sk as [|e sk IH]; intros cs ws wi s H C W.
    - destruct cs; [reflexivity | discriminate].
    - destruct e; simpl in H.
      + (* EvH *) simpl. apply IH; assumption.
      + (* EvC *) destruct cs as [|c cs]; [discriminate|]. change (S (count_checks sk) = S (length cs)) in C. injection C as C. simpl.
        destruct (c s) as [[v r]|]; [reflexivity | apply IH; assumption].
      + (* EvA *) simpl. apply IH; assumption.
      + (* EvS *) simpl. apply IH; assumption.
      + (* EvW *) apply negb_true_iff in H. change (count_checks sk = length cs) in C. rewrite (no_evc_count _ H) in C.
        destruct cs; [|discriminate]. simpl.
        pose proof (W wi s) as Hw. destruct (ws wi s) as [s1 o]; simpl in Hw; subst o.
        apply assemble_no_check_pass; assumption.
      + (* EvF *) apply negb_true_iff in H. change (count_checks sk = length cs) in C. rewrite (no_evc_count _ H) in C.
        destruct cs; [|discriminate]. simpl.
        pose proof (W wi s) as Hw. destruct (ws wi s) as [s1 o]; simpl in Hw; subst o.
        apply assemble_no_check_pass; assumption.
      + (* EvX *) apply negb_true_iff in H. change (count_checks sk = length cs) in C. rewrite (no_evc_count _ H) in C.
        destruct cs; [|discriminate]. simpl.
        pose proof (W wi s) as Hw. destruct (ws wi s) as [s1 o]; simpl in Hw; subst o.
        apply assemble_no_check_pass; assumption.
  Qed.

  (* writes that never fail: the run cannot fail late *)
  Lemma assemble_no_late : forall sk cs xs ws wi s s' v r,
    (forall k x, snd (ws k x) = None) -> run (assemble (St := St) sk cs xs ws wi) s <> (s', MLate v r).
  Proof.
    induction sk as [|e sk IH]; intros cs xs ws wi s s' v r W; simpl; [discriminate|].
    destruct e; simpl; try (apply IH; assumption).
    - destruct cs as [|c cs]; simpl.
      + apply IH; assumption.
      + destruct (c s) as [[v1 r1]|]; [discriminate | apply IH; assumption].
    - destruct xs as [|[g w] xs]; simpl; [apply IH; assumption|].
      destruct (g s); [discriminate | apply IH; assumption].
    - pose proof (W wi s) as Hw. destruct (ws wi s) as [s1 o]; simpl in Hw; subst o. apply IH; assumption.
    - pose proof (W wi s) as Hw. destruct (ws wi s) as [s1 o]; simpl in Hw; subst o. apply IH; assumption.
    - pose proof (W wi s) as Hw. destruct (ws wi s) as [s1 o]; simpl in Hw; subst o. apply IH; assumption.
  Qed.

  (* a refusal of an assembled body is the answer of one of the hand-written checks *)
  Lemma assemble_refusal_from : forall (P : refusal -> Prop) sk cs xs ws wi s s' v r,
    (forall c, In c cs -> forall x y, c x = Some y -> P y) ->
    run (assemble (St := St) sk cs xs ws wi) s = (s', MRefused v r) -> P (v, r).
  Proof.
    intros P. induction sk as [|e sk IH]; intros cs xs ws wi s s' v r HP R; simpl in R; [discriminate|].
    destruct e; simpl in R; try (eapply IH; eassumption).
    - destruct cs as [|c cs]; simpl in R.
      + eapply IH; [|eassumption]. intros c [].
      + destruct (c s) as [[v1 r1]|] eqn:E.
        * inversion R; subst. eapply (HP c); [left; reflexivity | exact E].
        * eapply IH; [|eassumption]. intros c0 Hc0. apply HP. right. exact Hc0.
    - destruct xs as [|[g w] xs]; simpl in R; [eapply IH; eassumption|].
      destruct (g s); [discriminate | eapply IH; eassumption].
    - destruct (ws wi s) as [s1 [[v1 r1]|]]; [discriminate | eapply IH; eassumption].
    - destruct (ws wi s) as [s1 [[v1 r1]|]]; [discriminate | eapply IH; eassumption].
    - destruct (ws wi s) as [s1 [[v1 r1]|]]; [discriminate | eapply IH; eassumption].
  Qed.

  (* two_phase *)
  Lemma two_phase_refused_unchanged : forall ordered pre check work s s' v r,
    ordered = true -> run (two_phase (St := St) ordered pre check work) s = (s', MRefused v r) -> s' = s.
  Proof.
    intros ordered pre check work s s' v r E R. subst ordered. simpl in R.
    destruct (check s) as [[v1 r1]|]; [inversion R; reflexivity|].
    destruct (work s) as [s1 [[v1 r1]|]]; discriminate.
  Qed.

  Lemma two_phase_run : forall pre check work s,
    run (two_phase (St := St) true pre check work) s =
    match check s with
    | Some (v, r) => (s, MRefused v r)
    | None => match work s with
              | (s', Some (v, r)) => (s', MLate v r)
              | (s', None) => (s', MPass)
              end
    end.
  Proof.
    intros. simpl. destruct (check s) as [[v r]|]; [reflexivity|].
    destruct (work s) as [s1 [[v r]|]]; reflexivity.
  Qed.
End MachineProofs.

(* the model variant the reviewers asked for: an executable instance in which "refused => unchanged"
   FAILS, so that the statement is about the order and not about the type of run *)
Example model_variant_write_before_check :
  run [AWrite false (fun x : nat => (S x, None)); ACheck (fun _ => Some (VM1, Via USAGE))] 5%nat = (6%nat, MRefused VM1 (Via USAGE)) /\
  checks_first (map kind [AWrite false (fun x : nat => (S x, None)); ACheck (fun _ : nat => Some (VM1, Via USAGE))]) = false /\
  run [ACheck (fun x : nat => if Nat.eqb x 5%nat then Some (VM1, Via USAGE) else None); AWrite false (fun x => (S x, None))] 5%nat
    = (5%nat, MRefused VM1 (Via USAGE)) /\
  run [ACheck (fun x : nat => if Nat.eqb x 5%nat then Some (VM1, Via USAGE) else None); AWrite false (fun x => (S x, None))] 4%nat
    = (5%nat, MPass).
Proof. repeat split. Qed.
