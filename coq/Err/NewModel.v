(* C11: argument-checking prologues *as coded* of the vnacal_new family and of the parameter
   family, and the argument contract of vnadata_convert (no proofs in this file).

   vnacal_new family  vnacal_new.c (alloc, set_frequency_vector, set_z0), vnacal_new_add_common.c
                      (every vnacal_new_add_* goes through _vnacal_new_add_common; the tests in front
                      of its first allocation, including the D48 / D63 / D17 tests),
                      vnacal_new_set_{m_error,p_tolerance,et_tolerance,iteration_limit,pvalue_limit}.c,
                      vnacal_new_solve.c (preconditions; the numeric result is an oracle)
   parameter family   vnacal_make_{scalar,vector,unknown,correlated}_parameter.c,
                      vnacal_delete_parameter.c, vnacal_get_parameter_value.c
   vnadata_convert    vnadata_convert.c: the tests in front of the set-up of the destination

   double arguments are dval = option Q (None = NaN); C int arguments are Z; arrays are lists whose
   length is the length the C code reads.  Outcomes are those of LV.Err.ErrBase: Direct E_INVAL for
   a NULL handle (no report) when the C function tests it before dereferencing it (gen_handle_<f>,
   read from the C text; Fault otherwise), Via c for a report through _vnacal_error / _vnadata_error.

   The cells of an S matrix are parameter chains (LV.Err.RefutedModel.pchain): the parameter a handle names and,
   through the vpmr_other pointers, its correlates, each with its own liveness and frequency range.

   Section variables (they stand for things outside this model and are ordinary premises):
     work         the abstracted mutation of a call that passed its checks
     pre          an arbitrary write, used only for a function whose generated order is NOT checks-first *)
Require Import String.
Require Import List ZArith QArith Bool.
Import ListNotations.
Require Import LV.Err.ErrBase LV.Gen.ErrnoGen LV.Err.OrderModel LV.Err.ContractModel LV.Err.RefutedModel.
Open Scope Z_scope.

(* ------------------------------------------------------------------ doubles *)
Definition dval := option Q.
Definition dq (q : Q) : dval := Some q.
Definition dnan (a : dval) : bool := match a with None => true | Some _ => false end.
Definition dle (a b : dval) : bool := match a, b with Some x, Some y => Qle_bool x y | _, _ => false end.
Definition dlt (a b : dval) : bool := match a, b with Some x, Some y => negb (Qle_bool y x) | _, _ => false end.
Definition dge (a b : dval) : bool := dle b a.
Definition dgt (a b : dval) : bool := dlt b a.
Definition d0 : dval := Some 0%Q.
Definition d1 : dval := Some 1%Q.

(* frequency_vector[i] >= frequency_vector[i + 1] for some i *)
Fixpoint adjacent_ge (l : list dval) : bool :=
  match l with
  | a :: ((b :: _) as r) => dge a b || adjacent_ge r
  | _ => false
  end.
(* frequency_vector[i] <= frequency_vector[i - 1] for some i (make_correlated spells it this way) *)
Fixpoint adjacent_le_prev (l : list dval) : bool :=
  match l with
  | a :: ((b :: _) as r) => dle b a || adjacent_le_prev r
  | _ => false
  end.

Definition usage1 : outcome := Refuse VM1 (Via USAGE).

(* ------------------------------------------------------------------ vnacal_new_t summary *)
(* calibration types as numbered in vnacal.h *)
Definition T8 := 0. Definition U8 := 1. Definition TE10 := 2. Definition UE10 := 3.
Definition T16 := 4. Definition U16 := 5. Definition UE14 := 6. Definition E12_UE14 := 7. Definition E12 := 8.

Record nsum : Type := mknsum {
  v_type : Z;            (* VL_TYPE of the layout: E12 is stored as _VNACAL_E12_UE14 *)
  v_rows : Z;            (* vl_m_rows *)
  v_cols : Z;            (* vl_m_columns *)
  v_freqs : Z;           (* vn_frequencies *)
  v_fvalid : bool;       (* vn_frequencies_valid *)
  v_merror : bool;       (* vn_m_error_vector != NULL *)
  v_params : newsum      (* parameter hash / unknown count / measurement count (RefutedModel) *)
}.

Definition v_ports (s : nsum) : Z := Z.max (v_rows s) (v_cols s).
Definition is_T (t : Z) : bool := (t =? T8) || (t =? TE10) || (t =? T16).
Definition is_16 (t : Z) : bool := (t =? T16) || (t =? U16).
Definition is_ue14 (t : Z) : bool := (t =? UE14) || (t =? E12_UE14).

(* vnacal_new_alloc(vcp, type, rows, columns, frequencies) *)
Definition check_new_alloc (t r c f : Z) : outcome :=
  if (r <? 1) || (c <? 1) then Refuse VNULL (Via USAGE)
  else if f <? 0 then Refuse VNULL (Via USAGE)
  else if (t =? T8) || (t =? TE10) || (t =? T16) then
    (if r >? c then Refuse VNULL (Via USAGE) else Pass)
  else if (t =? E12) || (t =? U8) || (t =? UE10) || (t =? UE14) || (t =? U16) then
    (if r <? c then Refuse VNULL (Via USAGE) else Pass)
  else Refuse VNULL (Via USAGE).

(* the layout type vnacal_new_alloc stores *)
Definition stored_type (t : Z) : Z := if t =? E12 then E12_UE14 else t.

(* vnacal_new_set_frequency_vector: fv = None is a NULL pointer; ranges_bad is the verdict of
   _vnacal_new_check_all_frequency_ranges on the parameters already in use (oracle) *)
Definition check_set_fv (s : nsum) (fv : option (list dval)) (ranges_bad : bool) : outcome :=
  match fv with
  | None => usage1
  | Some l =>
      if existsb (fun x => dnan x || dlt x d0) l then usage1
      else if adjacent_ge l then usage1
      else if (0 <? v_freqs s) && ranges_bad then usage1
      else Pass
  end.

(* the port-map scan of _vnacal_new_add_common: seen = ports marked in port_connected so far *)
Fixpoint scan_map (ports : Z) (l : list Z) (seen : list Z) (maxp : Z) : bool :=   (* true = refuse *)
  match l with
  | [] => false
  | p :: r =>
      if p <? 1 then true
      else let m := Z.max maxp p in
           if m >? ports then true
           else if existsb (Z.eqb p) seen then true
           else scan_map ports r (p :: seen) m
  end.

Record addargs : Type := mkadd {
  aa_b_null : bool;                 (* b / m matrix pointer is NULL *)
  aa_a : option (Z * Z);            (* a_rows, a_columns when an 'a' matrix is given *)
  aa_b_rows : Z; aa_b_cols : Z;
  aa_s_rows : Z; aa_s_cols : Z;
  aa_map : option (list Z);         (* s_port_map: its first max(s_rows, s_columns) entries *)
  aa_cells : list pchain;           (* the parameters named by the given S cells, with their chains of correlates *)
  aa_a_singular : bool;             (* oracle: the 'a' matrix is singular at some frequency *)
  aa_s_incomplete : bool            (* oracle: some cell of the full S matrix stays unspecified *)
}.

Section NewChecks.
  Definition check_add (s : nsum) (a : addargs) : outcome :=
    let t := v_type s in
    let fm_rows := v_rows s in let fm_cols := v_cols s in
    let P := v_ports s in
    let s_rows := aa_s_rows a in let s_cols := aa_s_cols a in
    let s_ports := Z.max s_rows s_cols in
    let b_rows := aa_b_rows a in let b_cols := aa_b_cols a in
    let min_b_rows := if t =? T16 then s_rows else if t =? U16 then fm_rows else s_ports in
    let min_b_cols := if t =? T16 then fm_cols else if t =? U16 then s_cols else s_ports in
    if aa_b_null a then usage1
    else if (s_rows <? 1) || (s_rows >? P) then usage1
    else if (s_cols <? 1) || (s_cols >? P) then usage1
    else if (s_rows <? s_cols) && negb (s_rows =? P) && is_T t then usage1
    else if (s_rows >? s_cols) && negb (s_cols =? P) && negb (is_T t) then usage1
    else if negb (s_rows =? s_cols) && negb (is_16 t) then usage1
    else if (match aa_map a with None => negb (s_rows =? P) || negb (s_cols =? P) | Some _ => false end) then usage1
    else if negb (b_rows =? min_b_rows) && negb (b_rows =? fm_rows) then usage1
    else if negb (b_cols =? min_b_cols) && negb (b_cols =? fm_cols) then usage1
    else if (b_rows >? fm_rows) || (b_cols >? fm_cols) then usage1
    else if (match aa_map a with
             | Some m => existsb (fun p => ((b_rows <? fm_rows) && (p >? fm_rows)) || ((b_cols <? fm_cols) && (p >? fm_cols))) m
             | None => false end) then usage1
    else if (match aa_a a with
             | Some (ar, ac) => negb (ar =? (if is_ue14 t then 1 else b_cols)) || negb (ac =? b_cols)
             | None => false end) then usage1
    else if (match aa_map a with Some m => scan_map P m [] 0 | None => false end) then usage1
    else if negb (forallb (check_parameter (v_params s)) (aa_cells a)) then usage1
    else if (match aa_a a with Some _ => aa_a_singular a | None => false end) then Refuse VM1 (Via MATH)
    else if v_merror s && is_16 t && aa_s_incomplete a then usage1
    else Pass.

  (* vnacal_new_set_m_error(vnp, frequency_vector, frequencies, sigma_nf_vector, sigma_tr_vector);
     extrap = VNACAL_F_EXTRAPOLATION, fmin/fmax = ends of the calibration frequency vector,
     s16_incomplete = oracle for the T16/U16 "standards given so far are complete" test *)
  Definition check_set_m_error (s : nsum) (extrap fmin fmax : Q) (n : Z) (fv nf tr : option (list dval))
             (s16_incomplete : bool) : outcome :=
    if n <? 1 then usage1
    else match nf, tr with
    | None, None => Pass                                   (* reset to "no error model" *)
    | None, Some _ => usage1
    | Some nfl, _ =>
      if existsb (fun x => dle x d0) nfl then usage1
      else if (match tr with Some trl => existsb (fun x => dlt x d0) trl | None => false end) then usage1
      else if negb (v_fvalid s) then usage1
      else if (match fv with
               | Some l => adjacent_ge l ||
                           dgt (hd None l) (dq ((1 + extrap) * fmin)) || dlt (last l None) (dq ((1 - extrap) * fmax))
               | None => negb (n =? 1) && negb (n =? v_freqs s)
               end) then usage1
      else if is_16 (v_type s) && s16_incomplete then usage1
      else Pass
    end.
End NewChecks.

(* nan = the range test starts with isnan(argument) (LV.Gen.ErrnoGen.gen_*_refuses_nan, read from the C text: fix DC90);
   without it every comparison is false for NaN and NaN is accepted *)
Definition check_set_pvalue_with (nan : bool) (x : dval) : outcome :=
  if (nan && dnan x) || dle x d0 || dgt x d1 then usage1 else Pass.
Definition check_set_tolerance_with (nan : bool) (x : dval) : outcome :=
  if (nan && dnan x) || dlt x d0 then usage1 else Pass.
Definition check_set_pvalue : dval -> outcome := check_set_pvalue_with gen_pvalue_refuses_nan.
Definition check_set_p_tolerance : dval -> outcome := check_set_tolerance_with gen_p_tolerance_refuses_nan.
Definition check_set_et_tolerance : dval -> outcome := check_set_tolerance_with gen_et_tolerance_refuses_nan.
Definition check_set_iteration (n : Z) : outcome := if n <? 1 then usage1 else Pass.

(* vnacal_new_solve: precondition, then the numeric kernels (oracle: None = solved, Some c = the
   category a kernel reported: MATH for too few standards / singular / no convergence, SYSTEM) *)
Definition check_solve (s : nsum) (kernel : option category) : outcome :=
  if negb (v_fvalid s) then usage1
  else match kernel with None => Pass | Some c => Refuse VM1 (Via c) end.

Inductive ncall : Type :=
| NSetFv (fv : option (list dval)) (ranges_bad : bool)
| NSetZ0
| NAdd (a : addargs)
| NSetMError (extrap fmin fmax : Q) (n : Z) (fv nf tr : option (list dval)) (s16 : bool)
| NSetPvalue (x : dval)
| NSetEtTol (x : dval)
| NSetPTol (x : dval)
| NSetIter (n : Z)
| NSolve (kernel : option category).

Definition check_new_some (s : nsum) (c : ncall) : outcome :=
  match c with
  | NSetFv fv rb => check_set_fv s fv rb
  | NSetZ0 => Pass
  | NAdd a => check_add s a
  | NSetMError e lo hi n fv nf tr s16 => check_set_m_error s e lo hi n fv nf tr s16
  | NSetPvalue x => check_set_pvalue x
  | NSetEtTol x => check_set_et_tolerance x
  | NSetPTol x => check_set_p_tolerance x
  | NSetIter n => check_set_iteration n
  | NSolve k => check_solve s k
  end.

(* the C function behind each call: order of events, handle tests (every vnacal_new_add_* wrapper
   tests the handle and hands the arguments to _vnacal_new_add_common) *)
Definition ncall_order (c : ncall) : list ev :=
  match c with
  | NSetFv _ _ => gen_order_vnacal_new_set_frequency_vector
  | NSetZ0 => gen_order_vnacal_new_set_z0
  | NAdd _ => gen_order_vnacal_new_add_common
  | NSetMError _ _ _ _ _ _ _ _ => gen_order_vnacal_new_set_m_error
  | NSetPvalue _ => gen_order_vnacal_new_set_pvalue_limit
  | NSetEtTol _ => gen_order_vnacal_new_set_et_tolerance
  | NSetPTol _ => gen_order_vnacal_new_set_p_tolerance
  | NSetIter _ => gen_order_vnacal_new_set_iteration_limit
  | NSolve _ => gen_order_vnacal_new_solve
  end.
Definition ncall_handle (c : ncall) : bool * bool :=
  match c with
  | NSetFv _ _ => gen_handle_vnacal_new_set_frequency_vector
  | NSetZ0 => gen_handle_vnacal_new_set_z0
  | NAdd _ => gen_handle_vnacal_new_add_common
  | NSetMError _ _ _ _ _ _ _ _ => gen_handle_vnacal_new_set_m_error
  | NSetPvalue _ => gen_handle_vnacal_new_set_pvalue_limit
  | NSetEtTol _ => gen_handle_vnacal_new_set_et_tolerance
  | NSetPTol _ => gen_handle_vnacal_new_set_p_tolerance
  | NSetIter _ => gen_handle_vnacal_new_set_iteration_limit
  | NSolve _ => gen_handle_vnacal_new_solve
  end.

(* the argument checks of the call precede its first write.  vnacal_new_solve has one argument check
   (the frequency vector was given); everything behind it is work whose failures are "late". *)
Definition ncall_ordered (c : ncall) : bool :=
  match c with
  | NSolve _ => match gen_order_vnacal_new_solve with EvH :: EvC :: _ => true | _ => false end
  | _ => checks_first (ncall_order c)
  end.

(* vnp == NULL: errno = EINVAL, -1, no report (None is the NULL pointer only; vnacal_new_solve does
   not test vn_magic, the others do: gen_handle_<f>) *)
Definition check_new (h : option nsum) (c : ncall) : outcome :=
  match h with
  | None => if fst (ncall_handle c) then Refuse VM1 (Direct E_INVAL) else Fault
  | Some s => check_new_some s c
  end.

(* the refusals that are not usage errors *)
Definition new_math_refusal (c : ncall) (r : report) : Prop :=
  match c, r with
  | NAdd a, Via MATH => aa_a a <> None /\ aa_a_singular a = true
  | NSolve (Some k), Via k' => k' = k
  | _, _ => False
  end.


(* A step of the vnacal_new_t: the argument checks, then the work - when the generated order of the C
   function allows this reading (ncall_ordered); the result of the machine distinguishes a refusal by
   an argument check (MRefused) from a failure inside the work (MLate):
     NSolve (Some k)  the numeric kernels ran and reported category k: whatever they wrote stays (the
                      model says nothing about the object then; property C20 does)
     NAdd a           the registration of the parameters of the S matrix, in the order found in the C
                      text (add_standard_current): it cannot refuse when the validation pass precedes it *)
Section NewStep.
  Variable payload : Type.
  Record nobj : Type := mknobj { no_sum : nsum; no_rest : payload }.
  Variable work : nobj -> ncall -> nobj.       (* the abstracted mutation (copying vectors, linking ...) *)
  Variable pre : nobj -> nobj.

  Definition arg_check (c : ncall) (o : nobj) : option refusal :=
    match c with
    | NSolve _ => if negb (v_fvalid (no_sum o)) then Some (VM1, Via USAGE) else None
    | _ => match check_new_some (no_sum o) c with Refuse v r => Some (v, r) | _ => None end
    end.

  Definition set_params (o : nobj) (p : newsum) : nobj :=
    let s := no_sum o in
    mknobj (mknsum (v_type s) (v_rows s) (v_cols s) (v_freqs s) (v_fvalid s) (v_merror s) p) (no_rest o).

  Definition new_work (c : ncall) (o : nobj) : nobj * option refusal :=
    match c with
    | NSolve (Some k) => (work o c, Some (VM1, Via k))
    | NAdd a =>
        match add_standard_current (v_params (no_sum o)) (aa_cells a) with
        | (p', Refuse v r) => (set_params o p', Some (v, r))     (* goto out: what was registered stays *)
        | (p', _) => (work (set_params o p') c, None)
        end
    | _ => (work o c, None)
    end.

  Definition new_body (c : ncall) : list (act nobj) := two_phase (ncall_ordered c) pre (arg_check c) (new_work c).
  Definition new_run (o : nobj) (c : ncall) : nobj * mres := run (new_body c) o.
  Definition new_step (o : nobj) (c : ncall) : nobj * outcome :=
    let (o', m) := new_run o c in (o', outcome_of m).
End NewStep.

(* ------------------------------------------------------------------ parameter family *)
Inductive pslot : Type :=
| PFree                                   (* NULL entry, or deleted *)
| PScalarP
| PVectorP (n : Z) (fmin fmax : Q)         (* frequencies, first and last frequency *)
| PUnknownP (solved : option (Q * Q)) (endv : option (Z * Q * Q))
      (* solved: range of the solved values; endv: the vector parameter at the end of the "other" chain *)
| PCorrelatedP (solved : option (Q * Q)) (endv : option (Z * Q * Q)).

Definition ptable := list pslot.

Definition pslot_at (tb : ptable) (h : Z) : pslot :=
  if (h <? 0) || (h >=? Z.of_nat (length tb)) then PFree else nth (Z.to_nat h) tb PFree.
Definition plive (tb : ptable) (h : Z) : bool := match pslot_at tb h with PFree => false | _ => true end.

(* the vector parameter at the end of the chain starting at h *)
Definition chain_end (tb : ptable) (h : Z) : option (Z * Q * Q) :=
  match pslot_at tb h with
  | PVectorP n a b => Some (n, a, b)
  | PUnknownP _ e | PCorrelatedP _ e => e
  | _ => None
  end.

Inductive pcall : Type :=
| PMakeScalar
| PMakeVector (n : Z) (fv : option (list dval)) (gamma_null : bool)
| PMakeUnknown (h : Z)
| PMakeCorrelated (h : Z) (n : Z) (fv : option (list dval)) (sigma : option (list dval))
| PDelete (h : Z)
| PGetValue (extrap : Q) (h : Z) (f : dval).

Definition pcall_fval (c : pcall) : fval := match c with PGetValue _ _ _ => VHUGE | _ => VM1 end.

Definition check_param_some (tb : ptable) (c : pcall) : outcome :=
  let u := Refuse (pcall_fval c) (Via USAGE) in
  match c with
  | PMakeScalar => Pass
  | PMakeVector n fv gnull =>
      if n <? 1 then u
      else match fv with
           | None => u
           | Some l => if gnull then u
                       else if dlt (hd None l) d0 then u
                       else if adjacent_ge l then u
                       else Pass
           end
  | PMakeUnknown h => if plive tb h then Pass else u
  | PMakeCorrelated h n fv sigma =>
      if negb (plive tb h) then u
      else if n <? 1 then u
      else match sigma with
      | None => u
      | Some sl =>
        if (1 <? n) &&
           (match fv with
            | None => match chain_end tb h with Some (m, _, _) => negb (n =? m) | None => true end
            | Some l => dlt (hd None l) d0 || adjacent_le_prev l ||
                        match chain_end tb h with
                        | Some (_, omin, omax) => dgt (hd None l) (dq omax) || dlt (last l None) (dq omin)
                        | None => false
                        end
            end) then u
        else if existsb (fun x => dle x d0) sl then u
        else Pass
      end
  | PDelete h =>
      if (0 <=? h) && (h <? 3) then Pass                 (* predefined parameters: nothing to do *)
      else if plive tb h then Pass else u
  | PGetValue extrap h f =>
      match pslot_at tb h with
      | PFree => u
      | PScalarP => Pass
      | PVectorP _ a b =>
          if dlt f (dq ((1 - extrap) * a)) || dgt f (dq ((1 + extrap) * b)) then u else Pass
      | PUnknownP None _ | PCorrelatedP None _ => u
      | PUnknownP (Some (a, b)) _ | PCorrelatedP (Some (a, b)) _ =>
          if dlt f (dq ((1 - extrap) * a)) || dgt f (dq ((1 + extrap) * b)) then u else Pass
      end
  end.

Definition pcall_order (c : pcall) : list ev :=
  match c with
  | PMakeScalar => gen_order_vnacal_make_scalar_parameter
  | PMakeVector _ _ _ => gen_order_vnacal_make_vector_parameter
  | PMakeUnknown _ => gen_order_vnacal_make_unknown_parameter
  | PMakeCorrelated _ _ _ _ => gen_order_vnacal_make_correlated_parameter
  | PDelete _ => gen_order_vnacal_delete_parameter
  | PGetValue _ _ _ => gen_order_vnacal_get_parameter_value
  end.
Definition pcall_handle (c : pcall) : bool * bool :=
  match c with
  | PMakeScalar => gen_handle_vnacal_make_scalar_parameter
  | PMakeVector _ _ _ => gen_handle_vnacal_make_vector_parameter
  | PMakeUnknown _ => gen_handle_vnacal_make_unknown_parameter
  | PMakeCorrelated _ _ _ _ => gen_handle_vnacal_make_correlated_parameter
  | PDelete _ => gen_handle_vnacal_delete_parameter
  | PGetValue _ _ _ => gen_handle_vnacal_get_parameter_value
  end.

Definition check_param (h : option ptable) (c : pcall) : outcome :=
  match h with
  | None => if fst (pcall_handle c) then Refuse (pcall_fval c) (Direct E_INVAL) else Fault
  | Some tb => check_param_some tb c
  end.

(* a step on the parameter table: the checks, then the work, when the generated order is checks-first *)
Section ParamStep.
  Variable work : ptable -> pcall -> ptable.
  Variable pre : ptable -> ptable.
  Definition param_body (c : pcall) : list (act ptable) :=
    two_phase (checks_first (pcall_order c)) pre
      (fun tb => match check_param_some tb c with Refuse v r => Some (v, r) | _ => None end)
      (fun tb => (work tb c, None)).
  Definition param_run (tb : ptable) (c : pcall) : ptable * mres := run (param_body c) tb.
  Definition param_step (tb : ptable) (c : pcall) : ptable * outcome :=
    let (tb', m) := param_run tb c in (tb', outcome_of m).
End ParamStep.

(* ------------------------------------------------------------------ vnadata_convert *)
Inductive dimreq : Type := DAny | DVec | D2x2 | DNxN.

(* conversion_table of vnadata_convert.c: None = INVAL, otherwise the dimension class of the code *)
Definition conv_req (from to : Z) : option dimreq :=
  let sq t := (t =? 1) || (t =? 4) || (t =? 5) in
  if (from <? 0) || (from >? 10) || (to <? 0) || (to >? 10) then None
  else if from =? to then
    Some (if from =? 0 then DAny else if sq from then DNxN else if from =? 10 then DVec else D2x2)
  else if (from =? 0) || (to =? 0) || (from =? 10) then None
  else if sq from && (sq to || (to =? 10)) then Some DNxN
  else Some D2x2.

Definition check_convert_some (s : dsum) (out_null : bool) (newtype : Z) : outcome :=
  if out_null then usage1
  else if (newtype <? 0) || (newtype >=? 11) then usage1
  else match conv_req (d_type s) newtype with
       | None => usage1
       | Some DAny => Pass
       | Some DVec => if negb (d_rows s =? 1) && negb (d_cols s =? 1) then usage1 else Pass
       | Some D2x2 => if negb (d_rows s =? 2) || negb (d_cols s =? 2) then usage1 else Pass
       | Some DNxN => if negb (d_rows s =? d_cols s) then usage1 else Pass
       end.

Definition check_convert (h : option dsum) (out_null : bool) (newtype : Z) : outcome :=
  match h with
  | None => if fst gen_handle_vnadata_convert then Refuse VM1 (Direct E_INVAL) else Fault
  | Some s => check_convert_some s out_null newtype
  end.

(* vnadata(3): 72 conversions between the nine matrix types, nine conversions to Zin, identity;
   two-port types need 2x2 *)
Definition doc_convert_valid (s : dsum) (newtype : Z) : bool :=
  let t := d_type s in
  let mat x := (1 <=? x) && (x <=? 9) in
  let two x := (x =? 2) || (x =? 3) || ((6 <=? x) && (x <=? 9)) in
  (0 <=? newtype) && (newtype <=? 10) &&
  ((t =? newtype) || (mat t && (mat newtype || (newtype =? 10)) &&
                      (negb (two newtype) || ((d_rows s =? 2) && (d_cols s =? 2))))).

(* ------------------------------------------------------------------ reports followed by cleanup *)
(* After _vnaerr_verror has set errno and returned, save / load functions run clean-up calls
   (fclose, free, yaml_*_delete, vnadata_free, vnacal_free) before they return the failure.  None of
   them saves and restores errno, so errno on return is the reported one exactly when no clean-up
   call disturbs it.  A call is modelled by what it does to errno: None = leaves it. *)
Definition errno_after_cleanup (reported : errno_class) (steps : list (option errno_class)) : errno_class :=
  fold_left (fun e st => match st with None => e | Some e' => e' end) steps reported.

(* library calls that leave errno alone when they succeed and that the clean-up paths may use
   (fclose of a stream without pending output, free, the libyaml destructors, the library's own
   destructors, which only call free).  unlink, remove, close, fopen ... are not in the list. *)
Definition benign_cleanup_calls : list String.string :=
  ["fclose"; "free"; "yaml_document_delete"; "yaml_parser_delete"; "yaml_emitter_delete";
   "vnadata_free"; "vnacal_free"; "vnaproperty_delete";
   (* vnadata_save_common restores the format string it had changed (fix DA90): parses, allocates and frees; like the
      others it is trusted to leave errno alone when it succeeds - when it fails it reports itself *)
   "vnadata_set_format"]%string%list.

Definition all_benign (calls : list String.string) : bool :=
  forallb (fun c => existsb (String.eqb c) benign_cleanup_calls) calls.
